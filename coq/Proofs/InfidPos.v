(* C08, part 3: pulse-correlation infidelities sum to the total (traceless branch), and the
   total infidelity is non-negative for positive-semidefinite spectra on a non-decreasing grid,
   on both branches of [infidelity].                                                          *)
From Coq Require Import ZArith Reals List Lra Lia Bool Setoid Morphisms.
From FF Require Import Base.Ops Inst.RInst Base.RAlg Base.FMat Model.Numeric Model.Decay Model.Cumulant
     Proofs.Trapz Proofs.Decay Proofs.DecayPrefix Proofs.TraceId.
Import ListNotations.
Local Open Scope R_scope.

(* ---------- sums over lists ---------- *)
Fixpoint lsumR {A} (l : list A) (f : A -> R) : R := match l with [] => 0 | x :: r => f x + lsumR r f end.
Fixpoint lsumC {A} (l : list A) (f : A -> Cx) : Cx := match l with [] => 0c | x :: r => cadd' (f x) (lsumC r f) end.
Lemma sumlist_map {A} (l : list A) f : sumlist RO (map f l) = lsumR l f.
Proof. induction l; simpl; auto. rewrite IHl. reflexivity. Qed.
Lemma lsumR_ext {A} (l : list A) f g : (forall x, In x l -> f x = g x) -> lsumR l f = lsumR l g.
Proof. induction l; intros H; simpl; auto. rewrite (H a) by (left; auto). rewrite IHl; auto. intros; apply H; right; auto. Qed.
Lemma lsumR_scal {A} (l : list A) c f : lsumR l (fun x => c * f x) = c * lsumR l f.
Proof. induction l; simpl. ring. rewrite IHl. ring. Qed.
Lemma lsumR_div {A} (l : list A) c f : lsumR l (fun x => f x / c) = lsumR l f / c.
Proof. induction l; simpl. unfold Rdiv; ring. rewrite IHl. unfold Rdiv; ring. Qed.
Lemma lsumR_sumn {A} (l : list A) n (F : A -> nat -> R) :
  lsumR l (fun x => sumn' n (F x)) = sumn' n (fun k => lsumR l (fun x => F x k)).
Proof. induction l; simpl. symmetry; apply sumn_0. rewrite IHl, <- sumn_add. reflexivity. Qed.
Lemma lsumC_re {A} (l : list A) f : fst (lsumC l f) = lsumR l (fun x => fst (f x)).
Proof. induction l; simpl; auto. rewrite IHl. reflexivity. Qed.
Lemma lsumC_ext {A} (l : list A) f g : (forall x, In x l -> f x = g x) -> lsumC l f = lsumC l g.
Proof. induction l; intros H; simpl; auto. rewrite (H a) by (left; auto). rewrite IHl; auto. intros; apply H; right; auto. Qed.
Lemma lsumC_csumn {A} (l : list A) n (F : A -> nat -> Cx) :
  lsumC l (fun x => csumn' n (F x)) = csumn' n (fun k => lsumC l (fun x => F x k)).
Proof. induction l; simpl. symmetry; apply csumn_0. rewrite IHl, <- csumn_add. reflexivity. Qed.
Lemma trapz_w_lsum {A} (l : list A) n (F : A -> nat -> R) x :
  trapz_w n (fun o => lsumR l (fun p => F p o)) x = lsumR l (fun p => trapz_w n (F p) x).
Proof. induction l; simpl. apply trapz_w_0. rewrite trapz_w_add, IHl. reflexivity. Qed.

(* ---------- pulse correlations: infidelities sum to the total (traceless branch) ---------- *)
Lemma infid_fid2_entry d na nk no (Lm Rm : A3r) idx (sp : spectrumR) omega i j :
  idx_ok na idx -> length omega = no ->
  (i < length idx)%nat -> (j < length idx)%nat -> (is_cross sp = false -> i = j) ->
  nth (lead_pos sp (length idx) i j) (infid_of_ff RO d (ff_fidelity2 RO na nk no Lm Rm) idx sp no omega) 0 =
  sumn' nk (fun k => Gamma Lm Rm idx sp no omega i j k k) / INR d.
Proof.
  intros Hidx Hom Hi Hj Hc. rewrite nth_infid_of_ff by auto.
  set (g := fun k o => fst (cmul' (cmul' (cconj' (a3get RO Lm (sel idx i) k o)) (spec_at RO sp i j o)) (a3get RO Rm (sel idx j) k o))).
  replace (sumn' nk (fun k => Gamma Lm Rm idx sp no omega i j k k))
    with (trapz_w no (fun o => sumn' nk (fun k => g k o)) omega / (2 * PI))
    by (rewrite trapz_w_sum; unfold Rdiv; rewrite <- sumn_mul_r; reflexivity).
  rewrite (trapz_w_ext no _ (fun o => sumn' nk (fun k => g k o))).
  unfold Rdiv. rewrite Rinv_mult. ring.
  intros o Ho. unfold integrand_fid, ff_fidelity2.
  rewrite a3get_a3build by (auto; apply Hidx; auto).
  unfold cre. rewrite <- csumn_mul_r, csumn_re. apply sumn_ext. intros k _. unfold g. f_equal. ring.
Qed.

(* which='correlations' WITHOUT a cached pulse-correlation control matrix: the uncorrected pulse-correlation
   infidelities sum to the UNCORRECTED total (fidelity filter function of the summed control matrix) *)
Theorem pc_uncorrected_sum d na nk no (Bpc : list A3r) (basis : list MatR) idx (sp : spectrumR) omega i j :
  idx_ok na idx -> length omega = no ->
  (i < length idx)%nat -> (j < length idx)%nat -> (is_cross sp = false -> i = j) ->
  sumn' (length Bpc) (fun g => sumn' (length Bpc) (fun h =>
     nth (lead_pos sp (length idx) i j) (nth h (nth g (infidelity_pc_value RO d false na nk no Bpc basis idx sp omega) []) []) 0)) =
  nth (lead_pos sp (length idx) i j)
      (infid_of_ff RO d (ff_fidelity2 RO na nk no (cm_pc_sum RO na nk no Bpc) (cm_pc_sum RO na nk no Bpc)) idx sp no omega) 0.
Proof.
  intros Hidx Hom Hi Hj Hc.
  rewrite (infid_fid2_entry d na nk no) by auto.
  rewrite (sumn_ext (length Bpc) _ (fun g => sumn' (length Bpc) (fun h =>
     sumn' nk (fun k => Gamma (nth g Bpc []) (nth h Bpc []) idx sp no omega i j k k) / INR d))).
  2:{ intros g Hg. apply sumn_ext. intros h Hh. unfold infidelity_pc_value.
      rewrite (nth_map_lt _ Bpc g [] []) by auto. rewrite (nth_map_lt _ Bpc h [] []) by auto.
      apply (infid_fid2_entry d na nk no); auto. }
  rewrite (sumn_ext nk _ (fun k => sumn' (length Bpc) (fun g => sumn' (length Bpc) (fun h =>
     Gamma (nth g Bpc []) (nth h Bpc []) idx sp no omega i j k k)))).
  2:{ intros k Hk. apply (pc_decay_sum Bpc na nk no); auto; apply Hidx; auto. }
  unfold Rdiv.
  rewrite (sumn_ext (length Bpc) _ (fun g => sumn' (length Bpc) (fun h =>
     sumn' nk (fun k => Gamma (nth g Bpc []) (nth h Bpc []) idx sp no omega i j k k)) * / INR d))
    by (intros; apply sumn_mul_r).
  rewrite sumn_mul_r. f_equal.
  rewrite (sumn_ext (length Bpc) _ (fun g => sumn' nk (fun k => sumn' (length Bpc) (fun h =>
     Gamma (nth g Bpc []) (nth h Bpc []) idx sp no omega i j k k))))
    by (intros; apply sumn_swap).
  apply sumn_swap.
Qed.

(* which='correlations' WITH the cached pulse-correlation control matrix (after fix 2891db3): the corrected
   pulse-correlation infidelities sum to the total infidelity, for every complete orthonormal Hermitian basis *)
Section PcSum.
Variable d : nat.
Variable basis : list MatR.
Let n := length basis.
Let Cb : nat -> fmat := fun k => toF (nthm basis k).
Hypothesis Hd : (0 < d)%nat.
Hypothesis Hherm : basis_herm d n Cb.
Variables (na nk no : nat) (Bpc : list A3r) (idx : list nat) (sp : spectrumR) (omega : list R).
Hypothesis Hnk : nk = n.
Hypothesis Hidx : idx_ok na idx.
Hypothesis Hom : length omega = no.

Lemma trG_rmbuild (f : nat -> nat -> R) : trG basis (rmbuild nk nk f) = sumn' n (fun k => f k k).
Proof. unfold trG. apply sumn_ext. intros k Hk. unfold rmget, rmbuild. fold n. rewrite Hnk, !nth_build by auto. reflexivity. Qed.
Lemma GT_rmbuild (f : nat -> nat -> R) :
  GT d basis (rmbuild nk nk f) = sumn' n (fun k => sumn' n (fun l => f k l * (trb d basis k * trb d basis l))).
Proof. unfold GT. apply sumn_ext. intros k Hk. apply sumn_ext. intros l Hl.
  unfold rmget, rmbuild. fold n. rewrite Hnk, !nth_build by auto. reflexivity. Qed.

Theorem pc_infid_sum i j :
  (i < length idx)%nat -> (j < length idx)%nat -> (is_cross sp = false -> i = j) ->
  sumn' (length Bpc) (fun g => sumn' (length Bpc) (fun h =>
     nth (lead_pos sp (length idx) i j) (nth h (nth g (infidelity_pc_value RO d true na nk no Bpc basis idx sp omega) []) []) 0)) =
  nth (lead_pos sp (length idx) i j)
      (infidelity_total RO d na nk no (cm_pc_sum RO na nk no Bpc) basis idx sp omega) 0.
Proof.
  intros Hi Hj Hc.
  rewrite (infidelity_entry d basis Hd Hherm na nk no _ idx sp omega Hnk Hidx Hom i j Hi Hj Hc).
  rewrite (sumn_ext (length Bpc) _ (fun g => sumn' (length Bpc) (fun h =>
     (INR d * trG basis (rmbuild nk nk (fun k l => Gamma (nth g Bpc []) (nth h Bpc []) idx sp no omega i j k l))
      - GT d basis (rmbuild nk nk (fun k l => Gamma (nth g Bpc []) (nth h Bpc []) idx sp no omega i j k l))) / (INR d * INR d)))).
  2:{ intros g Hg. apply sumn_ext. intros h Hh. unfold infidelity_pc_value.
      rewrite (nth_map_lt _ Bpc g [] []) by auto. rewrite (nth_map_lt _ Bpc h [] []) by auto.
      apply (corrected_entry d basis Hd Hherm na nk no idx sp omega Hnk Hidx Hom); auto. }
  rewrite !trG_rmbuild, !GT_rmbuild.
  rewrite (sumn_ext (length Bpc) _ (fun g => sumn' (length Bpc) (fun h =>
     INR d * sumn' n (fun k => Gamma (nth g Bpc []) (nth h Bpc []) idx sp no omega i j k k)
     - sumn' n (fun k => sumn' n (fun l => Gamma (nth g Bpc []) (nth h Bpc []) idx sp no omega i j k l * (trb d basis k * trb d basis l)))) * / (INR d * INR d))).
  2:{ intros g _. unfold Rdiv. rewrite <- sumn_mul_r. apply sumn_ext. intros h _.
      rewrite !trG_rmbuild, !GT_rmbuild. reflexivity. }
  rewrite sumn_mul_r. unfold Rdiv. f_equal.
  (* linearity in (g,h) *)
  rewrite (sumn_ext n (fun k => Gamma (cm_pc_sum RO na nk no Bpc) (cm_pc_sum RO na nk no Bpc) idx sp no omega i j k k)
                      (fun k => sumn' (length Bpc) (fun g => sumn' (length Bpc) (fun h =>
                          Gamma (nth g Bpc []) (nth h Bpc []) idx sp no omega i j k k))))
    by (intros k Hk; apply (pc_decay_sum Bpc na nk no); auto; try (apply Hidx; auto); rewrite Hnk; auto).
  rewrite (sumn_ext n (fun k => sumn' n (fun l => Gamma (cm_pc_sum RO na nk no Bpc) (cm_pc_sum RO na nk no Bpc) idx sp no omega i j k l * (trb d basis k * trb d basis l)))
                      (fun k => sumn' n (fun l => sumn' (length Bpc) (fun g => sumn' (length Bpc) (fun h =>
                          Gamma (nth g Bpc []) (nth h Bpc []) idx sp no omega i j k l * (trb d basis k * trb d basis l)))))).
  2:{ intros k Hk. apply sumn_ext. intros l Hl.
      rewrite (pc_decay_sum Bpc na nk no) by (auto; try (apply Hidx; auto); rewrite Hnk; auto).
      rewrite <- sumn_mul_r. apply sumn_ext. intros g _. rewrite <- sumn_mul_r. reflexivity. }
  (* both sides as sums over g, h of the same expression *)
  symmetry.
  rewrite (sumn_ext (length Bpc) _ (fun g => INR d * sumn' (length Bpc) (fun h => sumn' n (fun k => Gamma (nth g Bpc []) (nth h Bpc []) idx sp no omega i j k k))
     - sumn' (length Bpc) (fun h => sumn' n (fun k => sumn' n (fun l => Gamma (nth g Bpc []) (nth h Bpc []) idx sp no omega i j k l * (trb d basis k * trb d basis l)))))).
  2:{ intros g _. rewrite <- sumn_mul_l, sumn_sub. reflexivity. }
  rewrite <- sumn_sub, sumn_mul_l. f_equal.
  - f_equal. rewrite sumn_swap. apply sumn_ext. intros g _. apply sumn_swap.
  - rewrite (sumn_ext n _ (fun k => sumn' (length Bpc) (fun g => sumn' (length Bpc) (fun h => sumn' n (fun l =>
       Gamma (nth g Bpc []) (nth h Bpc []) idx sp no omega i j k l * (trb d basis k * trb d basis l)))))).
    2:{ intros k _. rewrite sumn_swap. apply sumn_ext. intros g _. apply sumn_swap. }
    rewrite sumn_swap. apply sumn_ext. intros g _. rewrite sumn_swap. reflexivity.
Qed.
(* ... and WITHOUT the cached control matrix the uncorrected sum exceeds the total by the identity component *)
Theorem pc_uncached_excess i j :
  (i < length idx)%nat -> (j < length idx)%nat -> (is_cross sp = false -> i = j) ->
  sumn' (length Bpc) (fun g => sumn' (length Bpc) (fun h =>
     nth (lead_pos sp (length idx) i j) (nth h (nth g (infidelity_pc_value RO d false na nk no Bpc basis idx sp omega) []) []) 0)) =
  nth (lead_pos sp (length idx) i j) (infidelity_total RO d na nk no (cm_pc_sum RO na nk no Bpc) basis idx sp omega) 0
  + GT d basis (rmbuild nk nk (fun k l => Gamma (cm_pc_sum RO na nk no Bpc) (cm_pc_sum RO na nk no Bpc) idx sp no omega i j k l))
    / (INR d * INR d).
Proof.
  intros Hi Hj Hc.
  rewrite (pc_uncorrected_sum d na nk no Bpc basis idx sp omega i j) by auto.
  rewrite (infid_fid2_entry d na nk no) by auto.
  rewrite (infidelity_entry d basis Hd Hherm na nk no _ idx sp omega Hnk Hidx Hom i j Hi Hj Hc).
  rewrite trG_rmbuild. rewrite Hnk.
  assert (Hd0 : INR d <> 0) by (apply not_0_INR; lia). field. auto.
Qed.
(* ---------- the branch of the package (after fix a9e668a): value or CalculationError ---------- *)
(* extensionality of infid_of_ff in the selected entries of the filter function *)
Lemma infid_of_ff_ext (F F' : A3r) :
  (forall i j o, (i < length idx)%nat -> (j < length idx)%nat -> (o < no)%nat ->
     a3get RO F (sel idx i) (sel idx j) o = a3get RO F' (sel idx i) (sel idx j) o) ->
  infid_of_ff RO d F idx sp no omega = infid_of_ff RO d F' idx sp no omega.
Proof.
  intros H. unfold infid_of_ff. apply map_ext_in. intros p Hp. apply leads_bound in Hp. destruct Hp as [H1 H2].
  f_equal. f_equal. apply build_ext. intros o Ho. unfold integrand_fid. rewrite H by auto. reflexivity.
Qed.

(* "the selected noise operators are traceless" at the level of the control matrices: the identity component
   sum_l tr(C_l) B_h[b][l][o] of every selected row vanishes *)
Definition identity_component_vanishes : Prop :=
  forall Bh, In Bh Bpc -> forall j o, (j < length idx)%nat -> (o < no)%nat ->
    csumn' nk (fun l => cmul' (nth l (basis_traces RO d basis nk) 0c) (a3get RO Bh (sel idx j) l o)) = 0c.

Lemma uncorrected_eq_corrected : identity_component_vanishes ->
  infidelity_pc_value RO d false na nk no Bpc basis idx sp omega = infidelity_pc_value RO d true na nk no Bpc basis idx sp omega.
Proof.
  intros Hv. unfold infidelity_pc_value. apply map_ext_in. intros Bg Hg. apply map_ext_in. intros Bh Hh.
  apply infid_of_ff_ext. intros i j o Hi Hj Ho.
  unfold ff_fidelity2, infid_ff_corrected. rewrite !a3get_a3build by (auto; apply Hidx; auto).
  rewrite (Hv Bh Hh j o Hj Ho).
  assert (Hd0 : INR d <> 0) by (apply not_0_INR; lia).
  rewrite dnat_INR. generalize (csumn' nk (fun k => cmul' (cconj' (a3get RO Bg (sel idx i) k o)) (a3get RO Bh (sel idx j) k o))).
  generalize (csumn' nk (fun k => cmul' (nth k (basis_traces RO d basis nk) 0c) (cconj' (a3get RO Bg (sel idx i) k o)))).
  intros [x y] [u v]. apply c_eq; csimp; field; auto.
Qed.

(* pc_infid_sum for the package's branch: WHENEVER a value is returned (no CalculationError) the pulse-correlation
   infidelities sum to the total infidelity *)
Theorem pc_infid_sum_returned has_cm sel_tl Rv i j :
  infidelity_pc RO d has_cm sel_tl na nk no Bpc basis idx sp omega = Some Rv ->
  (sel_tl = true -> identity_component_vanishes) ->
  (i < length idx)%nat -> (j < length idx)%nat -> (is_cross sp = false -> i = j) ->
  sumn' (length Bpc) (fun g => sumn' (length Bpc) (fun h => nth (lead_pos sp (length idx) i j) (nth h (nth g Rv []) []) 0)) =
  nth (lead_pos sp (length idx) i j) (infidelity_total RO d na nk no (cm_pc_sum RO na nk no Bpc) basis idx sp omega) 0.
Proof.
  intros HR Htl Hi Hj Hc. unfold infidelity_pc in HR.
  destruct has_cm.
  - injection HR as <-. apply pc_infid_sum; auto.
  - destruct sel_tl; [|discriminate]. injection HR as <-.
    rewrite (uncorrected_eq_corrected (Htl eq_refl)). apply pc_infid_sum; auto.
Qed.
(* the error outcome: exactly when the control matrix is gone and a selected operator has a trace *)
Theorem pc_error_iff has_cm sel_tl :
  infidelity_pc RO d has_cm sel_tl na nk no Bpc basis idx sp omega = None <-> (has_cm = false /\ sel_tl = false).
Proof. unfold infidelity_pc. destruct has_cm, sel_tl; split; intros H; try discriminate; auto; destruct H; discriminate. Qed.
End PcSum.

(* ---------- positive semidefinite spectra ---------- *)
(* the Hermitian form of the spectrum at frequency o over the leading index pairs:
   Q_o(u, v) = sum_{(i,j)} conj(u_i) S_ij(o) v_j   (one term (i,i) per operator for ndim 1, 2) *)
Definition Qform (sp : spectrumR) (lds : list (nat * nat)) (o : nat) (u v : nat -> Cx) : Cx :=
  lsumC lds (fun p => cmul' (cmul' (cconj' (u (fst p))) (spec_at RO sp (fst p) (snd p) o)) (v (snd p))).
Definition spectrum_psd (sp : spectrumR) (lds : list (nat * nat)) (no : nat) : Prop :=
  forall o, (o < no)%nat -> forall v, 0 <= fst (Qform sp lds o v v).

(* Lagrange identity for one kernel value s: with real t_k,
   sum_kl conj(t_l a_k - t_k a_l) s (t_l c_k - t_k c_l)
     = 2 [ (sum t^2) sum_k conj(a_k) s c_k - (sum_k t_k conj a_k) s (sum_l t_l c_l) ]  *)
Definition rc (x : R) : Cx := (x, 0).
Lemma lagrange n (t : nat -> R) (a c : nat -> Cx) (s : Cx) :
  csumn' n (fun k => csumn' n (fun l =>
     cmul' (cmul' (cconj' (csub' (cmul' (rc (t l)) (a k)) (cmul' (rc (t k)) (a l)))) s)
           (csub' (cmul' (rc (t l)) (c k)) (cmul' (rc (t k)) (c l))))) =
  cmul' (rc 2) (csub'
     (cmul' (rc (sumn' n (fun l => t l * t l))) (csumn' n (fun k => cmul' (cmul' (cconj' (a k)) s) (c k))))
     (cmul' (cmul' (csumn' n (fun k => cmul' (rc (t k)) (cconj' (a k)))) s) (csumn' n (fun l => cmul' (rc (t l)) (c l))))).
Proof.
  set (T2 := csumn' n (fun l => rc (t l * t l))).
  set (D := csumn' n (fun k => cmul' (cmul' (cconj' (a k)) s) (c k))).
  set (A := csumn' n (fun k => cmul' (rc (t k)) (cconj' (a k)))).
  set (Cc := csumn' n (fun l => cmul' (rc (t l)) (c l))).
  assert (HT2 : rc (sumn' n (fun l => t l * t l)) = T2).
  { unfold T2, rc. apply c_eq. rewrite csumn_re. reflexivity. rewrite csumn_im. simpl. symmetry. apply sumn_0. }
  rewrite HT2.
  (* expand the summand *)
  rewrite (csumn_ext n _ (fun k => csumn' n (fun l =>
     cadd' (csub' (csub' (cmul' (rc (t l * t l)) (cmul' (cmul' (cconj' (a k)) s) (c k)))
                         (cmul' (cmul' (cmul' (rc (t k)) (cconj' (a k))) s) (cmul' (rc (t l)) (c l))))
                  (cmul' (cmul' (cmul' (rc (t l)) (cconj' (a l))) s) (cmul' (rc (t k)) (c k))))
           (cmul' (rc (t k * t k)) (cmul' (cmul' (cconj' (a l)) s) (c l)))))).
  2:{ intros k _. apply csumn_ext. intros l _. unfold rc. apply c_eq; csimp; ring. }
  rewrite (csumn_ext n _ (fun k =>
     cadd' (csub' (csub' (cmul' T2 (cmul' (cmul' (cconj' (a k)) s) (c k)))
                         (cmul' (cmul' (cmul' (rc (t k)) (cconj' (a k))) s) Cc))
                  (cmul' (cmul' A s) (cmul' (rc (t k)) (c k))))
           (cmul' (rc (t k * t k)) D))).
  2:{ intros k _. rewrite csumn_add, !csumn_sub.
      f_equal; [f_equal; [f_equal|]|].
      - apply csumn_mul_r.
      - apply csumn_mul_l.
      - rewrite csumn_mul_r. f_equal. unfold A. apply csumn_mul_r.
      - apply csumn_mul_l. }
  rewrite csumn_add, !csumn_sub.
  rewrite (csumn_mul_l n T2), (csumn_mul_r n Cc), (csumn_mul_r n s), (csumn_mul_l n (cmul' A s)), (csumn_mul_r n D).
  fold A. fold Cc. fold T2.
  fold D. clear HT2. clearbody T2 D A Cc. destruct T2, D, A, Cc, s. unfold rc. apply c_eq; csimp; ring.
Qed.

Section Nonneg.
Variables (d na nk no : nat) (Bm : A3r) (idx : list nat) (sp : spectrumR) (omega : list R).
Hypothesis Hd : (0 < d)%nat.
Hypothesis Hidx : idx_ok na idx.
Hypothesis Hom : length omega = no.
Hypothesis Hgrid : grid_nondecreasing no omega.
Let lds := leads sp (length idx).
Hypothesis Hpsd : spectrum_psd sp lds no.

(* the vectors v^k(o)_i = B_{idx i, k}(o) *)
Let vk (o k : nat) : nat -> Cx := fun i => a3get RO Bm (sel idx i) k o.

Lemma total_as_trapz (F : A3r) :
  sumlist RO (infid_of_ff RO d F idx sp no omega) =
  trapz_w no (fun o => lsumR lds (fun p => integrand_fid RO F idx sp (fst p) (snd p) o)) omega / (2 * PI * INR d).
Proof.
  unfold infid_of_ff. rewrite sumlist_map. fold lds.
  rewrite (lsumR_ext lds _ (fun p => trapz_w no (integrand_fid RO F idx sp (fst p) (snd p)) omega / (2 * PI * INR d))).
  rewrite lsumR_div, trapz_w_lsum. reflexivity.
  intros p _. rewrite trapz_build by auto. rewrite dnat_INR. reflexivity.
Qed.

Lemma denom_pos : 0 < 2 * PI * INR d.
Proof. apply Rmult_lt_0_compat. generalize PI_RGT_0; lra. apply lt_0_INR; auto. Qed.

(* pre-fix traceless branch *)
Theorem infid_nonneg_traceless_prefix (basis : list MatR) :
  0 <= sumlist RO (infidelity_total_prefix d true na nk no Bm basis idx sp omega).
Proof.
  unfold infidelity_total_prefix. rewrite total_as_trapz.
  apply Rmult_le_pos; [| left; apply Rinv_0_lt_compat, denom_pos].
  apply trapz_w_nonneg; auto. intros o Ho.
  rewrite (lsumR_ext lds _ (fun p => sumn' nk (fun k =>
     fst (cmul' (cmul' (cconj' (vk o k (fst p))) (spec_at RO sp (fst p) (snd p) o)) (vk o k (snd p)))))).
  - rewrite lsumR_sumn. apply sumn_nonneg. intros k Hk.
    rewrite <- lsumC_re. apply (Hpsd o Ho (vk o k)).
  - intros p Hp. apply leads_bound in Hp. destruct Hp as [H1 H2].
    unfold integrand_fid, infid_ff_traceless, filter_function.
    rewrite a3get_a3build by (auto; apply Hidx; auto).
    unfold cre. rewrite <- csumn_mul_r, csumn_re. apply sumn_ext. intros k _. unfold vk. f_equal. ring.
Qed.

(* the infidelity of the package (after fix 2891db3): complete orthonormal Hermitian basis *)
Variable basis : list MatR.
Let n := length basis.
Let Cb : nat -> fmat := fun k => toF (nthm basis k).
Hypothesis Hnk : nk = n.
Hypothesis Hherm : basis_herm d n Cb.
Hypothesis Honb : basis_orthonormal d n Cb.
Hypothesis Hcomp : basis_complete d n Cb.

Lemma sum_trb_sq : sumn' n (fun k => trb d basis k * trb d basis k) = INR d.
Proof.
  pose proof (parseval_tr d n Cb Hcomp fid fid) as H.
  rewrite (csumn_ext n _ (fun k => rc (trb d basis k * trb d basis k))) in H.
  2:{ intros k Hk. transitivity (cmul' (tC d Cb k) (tC d Cb k)).
      { unfold tC. rewrite fmul_id_l, fmul_id_r. reflexivity. }
      unfold Cb. rewrite (tC_real d basis Hherm k Hk). unfold rc. apply c_eq; csimp; ring. }
  rewrite fmul_id_l, ftr_fid in H. unfold cnat in H.
  apply (f_equal fst) in H. rewrite csumn_re in H. exact H.
Qed.

Theorem infid_nonneg :
  0 <= sumlist RO (infidelity_total RO d na nk no Bm basis idx sp omega).
Proof.
  unfold infidelity_total. rewrite total_as_trapz.
  apply Rmult_le_pos; [| left; apply Rinv_0_lt_compat, denom_pos].
  apply trapz_w_nonneg; auto. intros o Ho.
  assert (Hd0 : INR d <> 0) by (apply not_0_INR; lia).
  set (t := trb d basis).
  (* the integrand summed over the leading pairs, as (1/(2d)) sum_kl Re Q(D_kl, D_kl) *)
  set (Dkl := fun k l : nat => fun i : nat => csub' (cmul' (rc (t l)) (vk o k i)) (cmul' (rc (t k)) (vk o l i))).
  assert (E : lsumR lds (fun p => integrand_fid RO (infid_ff_corrected RO d na nk no Bm Bm (basis_traces RO d basis nk))
                  idx sp (fst p) (snd p) o) =
              / (2 * INR d) * sumn' n (fun k => sumn' n (fun l => fst (Qform sp lds o (Dkl k l) (Dkl k l))))).
  { set (term := fun (p : nat * nat) k l =>
       cmul' (cmul' (cconj' (Dkl k l (fst p))) (spec_at RO sp (fst p) (snd p) o)) (Dkl k l (snd p))).
    transitivity (lsumR lds (fun p => / (2 * INR d) * sumn' n (fun k => sumn' n (fun l => fst (term p k l))))).
    2:{ rewrite lsumR_scal. f_equal. rewrite lsumR_sumn. apply sumn_ext. intros k _.
        rewrite lsumR_sumn. apply sumn_ext. intros l _. unfold Qform. rewrite lsumC_re. reflexivity. }
    apply lsumR_ext. intros p Hp.
    apply leads_bound in Hp. destruct Hp as [H1 H2].
    transitivity (/ (2 * INR d) * fst (csumn' n (fun k => csumn' n (fun l => term p k l)))).
    2:{ f_equal. rewrite csumn_re. apply sumn_ext. intros k _. rewrite csumn_re. reflexivity. }
    unfold term, Dkl. rewrite (lagrange n t (fun k => vk o k (fst p)) (fun k => vk o k (snd p))).
    fold t. replace (sumn' n (fun l => t l * t l)) with (INR d) by (symmetry; apply sum_trb_sq).
    rewrite (corrected_integrand_form d basis Hherm na nk no idx sp Hnk Bm Bm (fst p) (snd p) o)
      by (auto; apply Hidx; auto).
    unfold vk, t, rc. change (length basis) with n.
    set (X := csumn' n (fun k => cmul' (cmul' (cconj' (a3get RO Bm (sel idx (fst p)) k o)) (spec_at RO sp (fst p) (snd p) o))
                                       (a3get RO Bm (sel idx (snd p)) k o))).
    set (A := csumn' n (fun k => cmul' (trb d basis k, 0) (cconj' (a3get RO Bm (sel idx (fst p)) k o)))).
    set (B := csumn' n (fun l => cmul' (trb d basis l, 0) (a3get RO Bm (sel idx (snd p)) l o))).
    destruct X, A, B, (spec_at RO sp (fst p) (snd p) o). unfold cre. csimp. field. auto. }
  rewrite E.
  apply Rmult_le_pos. left. apply Rinv_0_lt_compat. generalize (lt_0_INR d Hd). lra.
  apply sumn_nonneg. intros k _. apply sumn_nonneg. intros l _. apply (Hpsd o Ho).
Qed.

End Nonneg.

Definition spw_ex : spectrumR := Sp1 [(1,0); (1,0)].
(* the hypotheses are satisfiable: white spectrum, one operator, grid 0 < 1 *)
Example psd_example : spectrum_psd spw_ex (leads spw_ex 1) 2 /\ grid_nondecreasing 2 [0; 1].
Proof.
  split.
  - intros o Ho v. unfold Qform, leads, spw_ex. simpl.
    destruct o as [|[|o]]; try lia; destruct (v 0%nat) as [x y]; csimp; nra.
  - intros o Ho. destruct o as [|o]; simpl; try lia. lra.
Qed.
