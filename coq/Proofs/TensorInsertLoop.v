(* C16 -- tensor_insert, numerically: inserting well-formed rank-r tensors into a Kronecker chain at an
   admissible position tuple yields the Kronecker chain of the rearranged factor list -- including the
   bookkeeping of the recorded dimensions (carr_dims), which are only a permutation of the true ones. *)
From Coq Require Import ZArith List Arith Lia Bool Permutation Sorted.
From FF Require Import Model.Tensor Spec.Kron Proofs.TensorIdx Proofs.TensorOrder Proofs.Tensor
  Proofs.TensorKron Proofs.TensorRegroup Proofs.TensorInsert Proofs.TensorInsertModel.
Import ListNotations.

Section Generic.
Context {T : Type} {EN : Entry T} {EL : EntryLaws T}.
Local Notation arr := (garr T).

(* ------------------------------------------------------------------ auxiliary facts *)
Lemma chain_spec_sorted {L} (its : list (Z * Z * L)) q orig :
  (forall b, In b its -> (0 <= ikey b)%Z) ->
  chain_spec ipk ilb (sort_by ikey its) q orig = chain_spec ipk ilb its q orig.
Proof.
  intros Hnn. apply chain_spec_ext. intros k.
  assert (G : forall l : list (Z * Z * L), (forall b, In b l -> (0 <= ikey b)%Z) ->
            filter (fun it => ipk it =? k) l = filter (fun it => (ikey it =? Z.of_nat k)%Z) l).
  { intros l Hl0. apply filter_ext'. intros x Hx. specialize (Hl0 x Hx). unfold ipk.
    destruct (Z.eqb_spec (ikey x) (Z.of_nat k)) as [E|E].
    - rewrite E, Nat2Z.id. apply Nat.eqb_refl.
    - apply Nat.eqb_neq. lia. }
  rewrite !G; auto.
  - apply sort_by_filter.
  - intros b Hb. apply sort_by_In in Hb. auto.
Qed.

Lemma chain_spec_In {A L} (pk : A -> nat) (lb : A -> L) its x : forall orig q,
  In x (chain_spec pk lb its q orig) -> In x orig \/ exists it, In it its /\ lb it = x.
Proof.
  induction orig as [|o orig IH]; intros q H; simpl in H.
  - apply in_map_iff in H. destruct H as [it [E Hit]]. apply filter_In in Hit. right. exists it. tauto.
  - apply in_app_or in H. destruct H as [H|[H|H]].
    + apply in_map_iff in H. destruct H as [it [E Hit]]. apply filter_In in Hit. right. exists it. tauto.
    + left. left. auto.
    + destruct (IH _ H) as [H1|H1]; auto. left. right. auto.
Qed.

Lemma chain_u_shape r L : Forall (wf r) L ->
  shp (chain_u r L) = map (fun a => prodn (axis_dims a L)) (seq 0 r).
Proof.
  intros H. induction L as [|G L IH] using rev_ind.
  - cbn. clear. rewrite <- (map_nth_seq (repeat 1 r)) at 1. rewrite repeat_length.
    apply map_ext_in. intros a Ha. apply in_seq in Ha.
    clear -Ha. revert a Ha. induction r as [|r IH]; intros a Ha; [lia|]. destruct a; simpl; auto. apply IH. lia.
  - assert (HL : Forall (wf r) L) by (apply Forall_forall; intros x Hx; rewrite Forall_forall in H; apply H; apply in_or_app; auto).
    assert (HG : wf r G) by (rewrite Forall_forall in H; apply H; apply in_or_app; right; left; auto).
    rewrite chain_u_snoc. unfold kron2, tabulate. cbn [shp]. rewrite IH by auto.
    destruct HG as [HG1 _].
    apply (nth_ext _ _ 0 0).
    + rewrite map2_length; rewrite !map_length, seq_length; auto.
    + intros k Hk. rewrite map2_length in Hk by (rewrite map_length, seq_length; auto).
      rewrite map_length, seq_length in Hk.
      rewrite (nth_map2 Nat.mul 0 0 0) by (rewrite ?map_length, ?seq_length; lia).
      rewrite !nth_map_seq by lia.
      rewrite axis_dims_snoc, prodn_app. simpl. lia.
Qed.

Lemma map_prodn_nth r (carr : list (list nat)) : length carr = r ->
  map prodn carr = map (fun a => prodn (nth a carr [])) (seq 0 r).
Proof.
  intros <-. induction carr as [|c carr IH]; simpl; auto. f_equal.
  rewrite <- seq_shift, map_map. exact IH.
Qed.

Lemma axis_dims_firstn a k (L : list arr) : axis_dims a (firstn k L) = firstn k (axis_dims a L).
Proof. unfold axis_dims. rewrite firstn_map. reflexivity. Qed.
Lemma axis_dims_skipn a k (L : list arr) : axis_dims a (skipn k L) = skipn k (axis_dims a L).
Proof. unfold axis_dims. rewrite skipn_map. reflexivity. Qed.
Lemma axis_dims_insert_at a k (G : arr) (L : list arr) : axis_dims a (insert_at k G L) = insert_at k (nth a (shp G) 0) (axis_dims a L).
Proof. unfold axis_dims. rewrite map_insert_at. reflexivity. Qed.

(* one step of the recorded-dimension bookkeeping on one axis *)
Lemma dims_step_perm n i p d (tr rc : list nat) :
  length tr = i + n -> length rc = i + n -> p <= n ->
  (forall q, p <= q -> Permutation (firstn (q + i) tr) (firstn (q + i) rc)) ->
  forall q, p <= q ->
    Permutation (firstn (q + S i) (insert_at (p + i) d tr)) (firstn (q + S i) (insert_at p d rc)).
Proof.
  intros Ht Hr Hp Hperm q Hq.
  replace (q + S i) with (S (q + i)) by lia.
  rewrite !firstn_insert_at by lia.
  rewrite !insert_at_perm. constructor. apply Hperm. auto.
Qed.

Lemma In_firstn' {A} k (x : A) l : In x (firstn k l) -> In x l.
Proof. intros H. rewrite <- (firstn_skipn k l). apply in_or_app. auto. Qed.
Lemma In_skipn' {A} k (x : A) l : In x (skipn k l) -> In x l.
Proof. intros H. rewrite <- (firstn_skipn k l). apply in_or_app. auto. Qed.

Lemma kron_ins_P_irrelevant P P' Sd C ins : kron_ins P Sd C ins = kron_ins P' Sd C ins.
Proof. reflexivity. Qed.

(* ------------------------------------------------------------------ the loop of tensor_insert on arrays *)
Section InsertLoop.
Variables (r n : nat) (L : list arr).
Hypothesis Hr : 1 <= r.
Hypothesis Hn : length L = n.
Hypothesis HL : Forall (wf r) L.
Notation item := (Z * Z * arr)%type.

Definition cur_list (its1 : list item) : list arr := chain_spec ipk ilb its1 0 L.

Definition loop_inv (its1 : list item) (s : arr * list (list nat)) : Prop :=
  fst s = chain_u r (cur_list its1) /\
  Forall (fun it => wf r (ilb it)) its1 /\
  (forall a, In a its1 -> (0 <= ikey a <= Z.of_nat n)%Z) /\
  length (snd s) = r /\
  forall a, a < r ->
    length (nth a (snd s) []) = length its1 + n /\
    forall q, (forall x, In x its1 -> ipk x <= q) ->
      Permutation (firstn (q + length its1) (axis_dims a (cur_list its1)))
                  (firstn (q + length its1) (nth a (snd s) [])).

Lemma cur_list_length its1 : (forall a, In a its1 -> (0 <= ikey a <= Z.of_nat n)%Z) ->
  length (cur_list its1) = length its1 + n.
Proof.
  intros H. unfold cur_list. rewrite chain_spec_length; [lia|].
  intros it Hit. specialize (H it Hit). unfold ipk. lia.
Qed.
Lemma cur_list_wf its1 : Forall (fun it => wf r (ilb it)) its1 -> Forall (wf r) (cur_list its1).
Proof.
  intros H. apply Forall_forall. intros x Hx. apply chain_spec_In in Hx. destruct Hx as [Hx|[it [Hit E]]].
  - rewrite Forall_forall in HL. auto.
  - rewrite Forall_forall in H. subst x. auto.
Qed.

Lemma insert_step_inv its1 b s :
  loop_inv its1 s -> (forall a, In a its1 -> (ikey a <= ikey b)%Z) ->
  ((0 <= ikey b <= Z.of_nat n)%Z /\ wf r (ilb b)) ->
  exists s', insert_step r s (ilb b) (ipk b) (length its1) = Ok s' /\ loop_inv (its1 ++ [b]) s'.
Proof.
  intros [Hres [Hwf [Hkeys [Hlc Hax]]]] Hle [Hkb HG]. destruct s as [res carr]. cbn [fst snd] in *.
  set (i := length its1) in *. set (p := ipk b) in *. set (G := ilb b) in *. set (lst := cur_list its1) in *.
  assert (Hlst : length lst = i + n) by (apply cur_list_length; auto).
  assert (Hlstwf : Forall (wf r) lst) by (apply cur_list_wf; auto).
  assert (Hp : p <= n) by (unfold p, ipk; lia).
  assert (Hq : forall x, In x its1 -> ipk x <= p).
  { intros x Hx. specialize (Hle x Hx). specialize (Hkeys x Hx). unfold p, ipk. lia. }
  assert (Hall : forall a, a < r -> Permutation (axis_dims a lst) (nth a carr [])).
  { intros a Ha. destruct (Hax a Ha) as [Hl Hperm].
    specialize (Hperm n). rewrite !firstn_all2 in Hperm.
    - apply Hperm. intros x Hx. specialize (Hkeys x Hx). unfold ipk. lia.
    - lia.
    - unfold axis_dims. rewrite map_length. lia. }
  (* the call of single_tensor_insert *)
  unfold insert_step.
  assert (Hcm : Forall (fun d => length d = i + n) carr).
  { apply Forall_forall. intros d Hd. destruct (In_nth carr d [] Hd) as [a [Ha E]]. subst d.
    destruct (Hax a ltac:(lia)) as [Hl _]. exact Hl. }
  assert (Hshape : shp res = map prodn carr).
  { rewrite Hres, chain_u_shape by auto. rewrite (map_prodn_nth r carr Hlc).
    apply map_ext_in. intros a Ha. apply in_seq in Ha. apply prodn_perm. apply Hall. lia. }
  assert (Hreswf : wf r res) by (rewrite Hres; apply wf_chain_u; auto).
  rewrite (single_insert_kron_ins r (i + n) res G carr (p + i)); auto; try lia.
  cbn [bind]. eexists. split; [reflexivity|].
  (* the new state *)
  assert (Hsplit : lst = firstn (p + i) lst ++ skipn (p + i) lst) by (rewrite firstn_skipn; reflexivity).
  assert (HL1 : Forall (wf r) (firstn (p + i) lst)).
  { apply Forall_forall. intros x Hx. rewrite Forall_forall in Hlstwf. apply Hlstwf. eapply In_firstn'; eauto. }
  assert (HL2 : Forall (wf r) (skipn (p + i) lst)).
  { apply Forall_forall. intros x Hx. rewrite Forall_forall in Hlstwf. apply Hlstwf. eapply In_skipn'; eauto. }
  assert (Hnew : cur_list (its1 ++ [b]) = insert_at (p + i) G lst).
  { unfold cur_list. rewrite (chain_spec_snoc ipk ilb L its1 0 p b); auto.
    - rewrite Nat.sub_0_r. reflexivity.
    - intros it Hit. specialize (Hq it Hit). lia.
    - lia. }
  unfold loop_inv. cbn [fst snd]. split; [|split; [|split; [|split]]].
  - rewrite Hnew.
    rewrite (kron_ins_P_irrelevant _ (shp (chain_u r (firstn (p + i) lst)))).
    replace (map (fun d => prodn (skipn (p + i) d)) carr) with (shp (chain_u r (skipn (p + i) lst))).
    + rewrite Hres.
      replace (chain_u r lst) with (chain_u r (firstn (p + i) lst ++ skipn (p + i) lst)) by (rewrite firstn_skipn; reflexivity).
      rewrite kron_ins_chain_u by auto.
      unfold insert_at. reflexivity.
    + rewrite chain_u_shape by auto.
      transitivity (map (fun a => prodn (skipn (p + i) (nth a carr []))) (seq 0 r)).
      * apply map_ext_in. intros a Ha. apply in_seq in Ha. rewrite axis_dims_skipn.
        destruct (Hax a ltac:(lia)) as [Hl Hperm].
        apply prodn_perm.
        apply (Permutation_app_inv_l (firstn (p + i) (axis_dims a lst))).
        rewrite firstn_skipn. rewrite (Hperm p Hq) at 1. rewrite firstn_skipn. apply Hall. lia.
      * rewrite <- Hlc. clear. induction carr as [|c carr IH]; simpl; auto. f_equal.
        rewrite <- seq_shift, map_map. exact IH.
  - apply Forall_app. split; auto.
  - intros a Ha. apply in_app_or in Ha. destruct Ha as [Ha|[Ha|[]]]; [auto|subst; auto].
  - destruct HG as [HG1 _]. unfold trail. fold G. rewrite HG1, Nat.sub_diag. cbn [skipn].
    clear -Hlc HG1. revert r Hlc HG1. generalize (shp G). induction carr as [|c carr IH]; intros [|d ds] r H1 H2; simpl in *; subst; try discriminate; auto.
  - intros a Ha.
    destruct HG as [HG1 HG2].
    assert (Hnth : nth a (map2 (fun axis d => insert_at p d axis) carr (trail r (shp G))) [] =
                   insert_at p (nth a (shp G) 0) (nth a carr [])).
    { unfold trail. rewrite HG1, Nat.sub_diag. cbn [skipn].
      clear -Hlc HG1 Ha. revert r a Hlc HG1 Ha. generalize (shp G).
      induction carr as [|c carr IH]; intros [|d ds] r a H1 H2 Ha; simpl in *; subst; try discriminate; try lia.
      destruct a; auto. eapply IH; eauto. lia. }
    rewrite Hnth. destruct (Hax a Ha) as [Hl Hperm].
    rewrite app_length. cbn [length]. rewrite Nat.add_1_r. split.
    + rewrite insert_at_length. lia.
    + intros q Hq'. rewrite Hnew, axis_dims_insert_at.
      assert (Hbq : p <= q) by (apply Hq'; apply in_or_app; right; left; reflexivity).
      apply (dims_step_perm n i p); auto.
      * unfold axis_dims. rewrite map_length. lia.
      * intros q0 Hq0. apply Hperm. intros x Hx. specialize (Hq x Hx). lia.
Qed.
End InsertLoop.

Lemma chain_spec_nil {A L} (pk : A -> nat) (lb : A -> L) orig : forall q, chain_spec pk lb [] q orig = orig.
Proof. induction orig as [|o orig IH]; intros q; simpl; auto. f_equal. apply IH. Qed.

Lemma view_items {L} n (pos : list Z) : forall (xs : list L), length pos = length xs ->
  map (fun it : Z * Z * L => (ipk it, ilb it)) (map (mkitem n) (combine pos xs)) = combine (map (npos n) pos) xs.
Proof.
  induction pos as [|p pos IH]; intros [|x xs] H; simpl in *; try discriminate; auto.
  f_equal. apply IH. lia.
Qed.

(* tensor_insert(tensor(L), G, pos=pos, arr_dims=dimension table of L) = tensor(rearranged list):
   every inserted factor in front of original factor p (normalised from [-n, n]), equal positions in
   argument order.  chain_u r l is the Kronecker chain of the list l (Spec/Kron.v). *)
Theorem tensor_insert_spec r (L G : list arr) (pos : list Z) :
  1 <= r -> 1 <= length L -> Forall (wf r) L -> Forall (wf r) G -> G <> [] ->
  length pos = length G -> Forall (admissible (length L)) pos ->
  tensor_insert r (chain_u r L) G (PSeq pos) (map (fun a => axis_dims a L) (seq 0 r)) =
  Ok (chain_u r (chain_spec fst snd (combine (map (npos (length L)) pos) G) 0 L)).
Proof.
  intros Hr Hn HL HG Hne Hlen Hadm. set (n := length L) in *.
  set (arr_dims := map (fun a => axis_dims a L) (seq 0 r)).
  unfold tensor_insert.
  destruct G as [|g0 G0] eqn:EG; [congruence|]. rewrite <- EG in *. clear Hne.
  replace (length G =? 0) with false by (rewrite EG; reflexivity).
  rewrite Hlen, Nat.eqb_refl. cbn [negb bind].
  assert (Hhd : length (hd [] arr_dims) = n).
  { unfold arr_dims. destruct r as [|r']; [lia|]. cbn [seq map hd]. unfold axis_dims. rewrite map_length. reflexivity. }
  assert (Hparse : parse_dims_arg arr_dims r = Ok tt).
  { apply parse_dims_ok. unfold arr_dims. split; [rewrite map_length, seq_length; auto|].
    destruct r as [|r']; [lia|]. cbn [seq map]. eexists. eexists. split; [reflexivity|].
    apply Forall_forall. intros x Hx. apply in_map_iff in Hx. destruct Hx as [a [<- _]].
    unfold axis_dims. rewrite !map_length. reflexivity. }
  rewrite Hparse. cbn [bind]. rewrite Hhd.
  replace (r =? 0) with false by (symmetry; apply Nat.eqb_neq; lia).
  replace (n =? 0) with false by (symmetry; apply Nat.eqb_neq; lia). cbn [orb].
  pose (its := map (mkitem n) (combine pos G)).
  assert (Hits : forall b, In b its -> ((0 <= ikey b <= Z.of_nat n)%Z /\ wf r (ilb b)) /\ div_ok (idiv b) = true).
  { intros b Hb. apply in_map_iff in Hb. destruct Hb as [[p x] [Hb Hin]]. subst b.
    pose proof (in_combine_l _ _ _ _ Hin) as Hp. pose proof (in_combine_r _ _ _ _ Hin) as Hx.
    rewrite Forall_forall in Hadm. specialize (Hadm p Hp).
    destruct (norm_pos_adm n p Hn Hadm) as [N1 N2].
    unfold ikey, idiv, ilb, mkitem. simpl. repeat split; auto; try lia; rewrite Forall_forall in HG; apply HG; auto. }
  destruct (insert_loop_inv (insert_step r)
              (fun b => (0 <= ikey b <= Z.of_nat n)%Z /\ wf r (ilb b))
              (loop_inv r n L))
    with (its2 := sort_by ikey its) (its1 := @nil (Z * Z * arr)%type) (s := (chain_u r L, arr_dims)) as [s' [Hl [Hs' _]]].
  - intros its1 b s Hinv Hle Hgood. apply (insert_step_inv r n L); auto.
  - apply sort_by_sorted.
  - intros a b [].
  - intros b Hb. apply sort_by_In in Hb. apply Hits. auto.
  - unfold loop_inv, cur_list. cbn [fst snd length]. rewrite chain_spec_nil.
    split; [reflexivity|]. split; [constructor|]. split; [intros a []|].
    split; [unfold arr_dims; rewrite map_length, seq_length; reflexivity|].
    intros a Ha. unfold arr_dims. rewrite nth_map_seq by lia. split.
    + unfold axis_dims. rewrite map_length. reflexivity.
    + intros q _. reflexivity.
  - unfold insert_items.
    change (fun it : Z * Z * arr => fst (fst it)) with (@ikey arr).
    change (fun pa : Z * arr => (snd (norm_pos n (fst pa)), fst (norm_pos n (fst pa)), snd pa)) with (@mkitem arr n).
    fold its. cbn [length] in Hl. rewrite Hl. cbn [bind]. f_equal. rewrite Hs'.
    cbn [app]. unfold cur_list. rewrite chain_spec_sorted by (intros b Hb; apply Hits in Hb; lia).
    rewrite chain_spec_view. unfold its. rewrite view_items by auto. reflexivity.
Qed.

(* util.tensor of a non-empty list of well-formed factors, in chain_u form *)
Lemma tensor_chain_u r l : l <> [] -> Forall (wf r) l -> tensor r l = Ok (chain_u r l).
Proof.
  intros Hne H. destruct l as [|F Fs]; [congruence|].
  rewrite tensor_is_kron_chain by auto. rewrite chain_u_cons; auto. inversion H; auto.
Qed.

(* the statement of the property: inserting into an already formed tensor product equals forming the
   product of the rearranged factor list directly *)
Theorem insert_equals_tensor_of_rearranged r (L G : list arr) (pos : list Z) :
  1 <= r -> 1 <= length L -> Forall (wf r) L -> Forall (wf r) G -> G <> [] ->
  length pos = length G -> Forall (admissible (length L)) pos ->
  (do a <- tensor r L; tensor_insert r a G (PSeq pos) (map (fun a => axis_dims a L) (seq 0 r))) =
  tensor r (chain_spec fst snd (combine (map (npos (length L)) pos) G) 0 L).
Proof.
  intros Hr Hn HL HG Hne Hlen Hadm.
  assert (HLne : L <> []) by (destruct L; simpl in *; [lia|discriminate]).
  rewrite tensor_chain_u by auto. cbn [bind].
  rewrite tensor_insert_spec by auto.
  rewrite tensor_chain_u; auto.
  - intros E. apply (f_equal (@length arr)) in E.
    rewrite chain_spec_length in E; [simpl in E; lia|].
    intros [k x] Hit. apply in_combine_l in Hit. apply in_map_iff in Hit. destruct Hit as [p [<- Hp]].
    rewrite Forall_forall in Hadm. specialize (Hadm p Hp).
    destruct (norm_pos_adm (length L) p Hn Hadm) as [N1 _]. unfold npos. simpl. lia.
  - apply Forall_forall. intros x Hx. apply chain_spec_In in Hx. destruct Hx as [Hx|[it [Hit E]]].
    + rewrite Forall_forall in HL. auto.
    + subst x. destruct it as [k y]. apply in_combine_r in Hit. rewrite Forall_forall in HG. auto.
Qed.
End Generic.
