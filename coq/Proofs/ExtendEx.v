(* Satisfiability of the hypotheses of the C05 theorems: explicit Kronecker products of list
   matrices, product bases, and the normalised single-qubit Pauli basis as second factor.  *)
From Coq Require Import String ZArith Reals List Lra Lia Arith Bool Permutation.
From FF Require Import Base.Ops Inst.RInst Base.RAlg Spec.Kron2 Spec.DigitPerm Model.Numeric
     Proofs.RemapIdx Proofs.RemapCov Proofs.ExtendKron.
Import ListNotations.
Local Open Scope nat_scope.

Definition mkron (d1 d2 : nat) (A B : Mat (T:=R)) : Mat (T:=R) :=
  mbuild (d1 * d2) (d1 * d2) (fun i j => cmul' (mget RO A (i / d2) (j / d2)) (mget RO B (i mod d2) (j mod d2))).
Lemma krel_mkron d1 d2 A B : krel d1 d2 A B (mkron d1 d2 A B).
Proof. intros i j Hi Hj. unfold mkron. apply mget_mbuild; auto. Qed.

Definition product_basis (d1 d2 K1 K2 : nat) (b1 b2 : list (Mat (T:=R))) : list (Mat (T:=R)) :=
  build (K1 * K2) (fun kl => mkron d1 d2 (nthm b1 (kl / K2)) (nthm b2 (kl mod K2))).
Lemma product_basis_ok d1 d2 K1 K2 b1 b2 :
  length (product_basis d1 d2 K1 K2 b1 b2) = K1 * K2 /\
  forall k l, k < K1 -> l < K2 -> krel d1 d2 (nthm b1 k) (nthm b2 l) (nthm (product_basis d1 d2 K1 K2 b1 b2) (k * K2 + l)).
Proof.
  split. apply build_len. intros k l Hk Hl. unfold nthm at 3, product_basis.
  rewrite build_nth by (apply pair_lt_prod; auto).
  destruct (divmod_pair k l K2 Hl) as [-> ->]. apply krel_mkron.
Qed.
Definition extend_ops (d1 d2 : nat) (ns1 : list (Mat (T:=R))) : list (Mat (T:=R)) := map (fun A => mkron d1 d2 A (mid RO d2)) ns1.
Lemma extend_ops_ok d1 d2 ns1 :
  length (extend_ops d1 d2 ns1) = length ns1 /\
  forall a, a < length ns1 -> krel d1 d2 (nthm ns1 a) (mid RO d2) (nthm (extend_ops d1 d2 ns1) a).
Proof.
  split. apply map_length. intros a Ha. unfold extend_ops. rewrite nthm_map by auto. apply krel_mkron.
Qed.
Lemma Forall3_one {A B C} (P : A -> B -> C -> Prop) x y z : P x y z -> Forall3 P [x] [y] [z].
Proof. intros. repeat constructor; auto. Qed.
Lemma evrel_ex d1 d2 ev1 ev2 :
  evrel d1 d2 ev1 ev2 (build (d1 * d2) (fun i => Rplus (vg RO ev1 (i / d2)) (vg RO ev2 (i mod d2)))).
Proof. intros i Hi. unfold vg, vget. rewrite nth_build by auto. reflexivity. Qed.

(* the normalised Pauli basis of one qubit: orthonormal, first element 1/sqrt2 *)
Definition s2 : R := Rinv (sqrt 2).
Definition pI : Mat (T:=R) := [[(s2, 0%R); 0c]; [0c; (s2, 0%R)]].
Definition pX : Mat (T:=R) := [[0c; (s2, 0%R)]; [(s2, 0%R); 0c]].
Definition pY : Mat (T:=R) := [[0c; (0%R, Ropp s2)]; [(0%R, s2); 0c]].
Definition pZ : Mat (T:=R) := [[(s2, 0%R); 0c]; [0c; (Ropp s2, 0%R)]].
Definition pauli1 : list (Mat (T:=R)) := [pI; pX; pY; pZ].
Lemma s2_sq : (s2 * s2 = / 2)%R.
Proof.
  unfold s2. rewrite <- Rinv_mult. rewrite sqrt_sqrt by lra. reflexivity.
Qed.
Lemma s2_sq2 : (2 * (s2 * s2) = 1)%R.
Proof. rewrite s2_sq. field. Qed.
Lemma pauli1_onb l m : l < 4 -> m < 4 ->
  mtrprod RO 2 (madj RO 2 (nthm pauli1 l)) (nthm pauli1 m) = if Nat.eqb l m then 1c else 0c.
Proof.
  intros Hl Hm. unfold pauli1, pI, pX, pY, pZ. generalize s2_sq2. generalize s2. intros s Hs.
  destruct l as [|[|[|[|l]]]]; try lia; destruct m as [|[|[|[|m]]]]; try lia;
    apply c_eq; vm_compute; vm_compute in Hs; nra.
Qed.
Lemma pauli1_first : feq 2 (toF (nthm pauli1 0)) (fscal (cofr RO (Rinv (sqrt (INR 2)))) fid).
Proof.
  intros i j Hi Hj. unfold toF, nthm, pauli1, fscal, fid. simpl nth.
  replace (INR 2) with 2%R by (simpl; ring). fold s2. unfold pI. generalize s2. intros s.
  destruct i as [|[|i]]; try lia; destruct j as [|[|j]]; try lia; apply c_eq; vm_compute; ring.
Qed.

(* ---------- a multi-qubit pulse mapped onto the whole register with an identifier mapping or an additional noise
   Hamiltonian (no shortcut since 9255946): extended like any other input since e379e51; between the two commits
   util.tensor_insert was called without arguments and raised ---------- *)
From Coq Require Import String.
From FF Require Import Model.Remap Model.Extend.
Local Open Scope string_scope.
Definition fr_pulse : pdesc := mkPdesc 4 ["a"] ["n"] "Pauli" 0 false false None false false false false.
Example full_register_ok :
  (exists pl, extend [mkEntry fr_pulse (QTup [0; 1]) (Some [("a", "A"); ("n", "Nn")])] None 2 None None None None = Extended pl
      /\ pl_N pl = 2 /\ pl_c_ids pl = ["A"] /\ pl_n_ids pl = ["Nn"] /\ pl_steps pl = []
      /\ pl_c_src pl = [FromPulse 0 0] /\ pl_n_src pl = [FromPulse 0 0])
  /\ (exists pl, extend [mkEntry fr_pulse (QTup [1; 0]) None] None 2 (Some (4, ["extra"])) None None None = Extended pl
      /\ pl_remaps pl = [[1; 0]] /\ pl_c_ids pl = ["a_01"] /\ pl_n_ids pl = ["extra"; "n_01"]
      /\ pl_n_src pl = [Additional 0; FromPulse 0 0] /\ pl_steps pl = [])
  /\ extend [mkEntry fr_pulse (QTup [0; 1]) None] None 2 None None None None = ReturnSame [].
Proof.
  split; [|split].
  - eexists. split. vm_compute. reflexivity. repeat split.
  - eexists. split. vm_compute. reflexivity. repeat split.
  - vm_compute. reflexivity.
Qed.
Example full_register_prefix_refuted :
  extend_prefix [mkEntry fr_pulse (QTup [0; 1]) (Some [("a", "A"); ("n", "Nn")])] None 2 None None None None = Raise ErrNoArgs
  /\ extend_prefix [mkEntry fr_pulse (QTup [0; 1]) None] None 2 (Some (4, ["extra"])) None None None = Raise ErrNoArgs.
Proof. split; vm_compute; reflexivity. Qed.

(* the fixed code never calls tensor_insert without arguments, for any input *)
Lemma map_ids_err ids m qs e : map_ids ids m qs = inl e -> e = ErrKey \/ e = ErrDupMap.
Proof.
  unfold map_ids. destruct m as [mm|].
  - destruct (lookup_all mm ids) as [l|]. destruct (nodup_str l); intros H; inversion H; auto. intros H; inversion H; auto.
  - destruct (nodup_str _); intros H; inversion H; auto.
Qed.
Lemma ids_of_blocks_fixed_err N bl e : ids_of_blocks true N bl = inl e -> e = ErrKey \/ e = ErrDupMap.
Proof.
  induction bl as [|[[p qs] m] r IH]; simpl; intros H. discriminate.
  destruct (map_ids (pd_cids p) m qs) eqn:E1. inversion H; subst. eapply map_ids_err; eauto.
  destruct (map_ids (pd_nids p) m qs) eqn:E2. inversion H; subst. eapply map_ids_err; eauto.
  destruct (ids_of_blocks true N r) as [e'|[cs ns]]. inversion H; subst. auto. discriminate.
Qed.
Lemma parse_entry_err dq acc e : (fst acc = None \/ fst acc = Some ErrRemap) ->
  fst (parse_entry dq acc e) = None \/ fst (parse_entry dq acc e) = Some ErrRemap.
Proof.
  destruct acc as [er ps]. simpl. intros [->| ->]; [|right; reflexivity].
  unfold parse_entry. destruct (e_q e) as [q|[|q [|q' qs]]]; simpl; auto;
    repeat match goal with |- context [if ?x then _ else _] => destruct x; simpl; auto end.
Qed.
Lemma parse_err dq entries acc : (fst acc = None \/ fst acc = Some ErrRemap) ->
  fst (fold_left (parse_entry dq) entries acc) = None \/ fst (fold_left (parse_entry dq) entries acc) = Some ErrRemap.
Proof. revert acc. induction entries; simpl; intros acc H; auto. apply IHentries. apply parse_entry_err; auto. Qed.

Theorem extend_never_noargs entries Narg dq additional cd cff om :
  extend entries Narg dq additional cd cff om <> Raise ErrNoArgs.
Proof.
  unfold extend, extend_gen. intros H.
  pose proof (parse_err dq entries (None, mkParsed [] [] []) (or_introl eq_refl)) as HP.
  repeat match type of H with
         | context [match ?x with _ => _ end] => destruct x eqn:?; try discriminate
         | context [if ?x then _ else _] => destruct x eqn:?; try discriminate
         end;
  try (inversion H; subst;
       match goal with E : ids_of_blocks true _ _ = inl ErrNoArgs |- _ => apply ids_of_blocks_fixed_err in E; destruct E; discriminate end).
  simpl in HP. destruct HP as [HP|HP]; [discriminate|]. inversion HP; subst. discriminate.
Qed.
