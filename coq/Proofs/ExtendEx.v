(* Satisfiability of the hypotheses of the C05 theorems: explicit Kronecker products of list
   matrices, product bases, and the normalised single-qubit Pauli basis as second factor.  *)
From Coq Require Import String ZArith Reals List Lra Lia Arith Bool Permutation.
From FF Require Import Base.Ops Inst.RInst Base.RAlg Spec.Kron2 Spec.DigitPerm Model.Numeric
     Proofs.RemapIdx Proofs.RemapCov Proofs.ExtendKron.
Import ListNotations.
Local Open Scope nat_scope.

Definition mkron (d1 d2 : nat) (A B : Mat (T:=R)) : Mat (T:=R) :=
  mbuild (d1 * d2) (d1 * d2) (fun i j => cmul' (mget RO A (i / d2) (j / d2)) (mget RO B (i mod d2) (j mod d2))).
Lemma krel_mkron d1 d2 A B : krel d1 d2 A B (mkron d1 d2 A B).
Proof. intros i j Hi Hj. unfold mkron. apply mget_mbuild; auto. Qed.

Definition product_basis (d1 d2 K1 K2 : nat) (b1 b2 : list (Mat (T:=R))) : list (Mat (T:=R)) :=
  build (K1 * K2) (fun kl => mkron d1 d2 (nthm b1 (kl / K2)) (nthm b2 (kl mod K2))).
Lemma product_basis_ok d1 d2 K1 K2 b1 b2 :
  length (product_basis d1 d2 K1 K2 b1 b2) = K1 * K2 /\
  forall k l, k < K1 -> l < K2 -> krel d1 d2 (nthm b1 k) (nthm b2 l) (nthm (product_basis d1 d2 K1 K2 b1 b2) (k * K2 + l)).
Proof.
  split. apply build_len. intros k l Hk Hl. unfold nthm at 3, product_basis.
  rewrite build_nth by (apply pair_lt_prod; auto).
  destruct (divmod_pair k l K2 Hl) as [-> ->]. apply krel_mkron.
Qed.
Definition extend_ops (d1 d2 : nat) (ns1 : list (Mat (T:=R))) : list (Mat (T:=R)) := map (fun A => mkron d1 d2 A (mid RO d2)) ns1.
Lemma extend_ops_ok d1 d2 ns1 :
  length (extend_ops d1 d2 ns1) = length ns1 /\
  forall a, a < length ns1 -> krel d1 d2 (nthm ns1 a) (mid RO d2) (nthm (extend_ops d1 d2 ns1) a).
Proof.
  split. apply map_length. intros a Ha. unfold extend_ops. rewrite nthm_map by auto. apply krel_mkron.
Qed.
Lemma Forall3_one {A B C} (P : A -> B -> C -> Prop) x y z : P x y z -> Forall3 P [x] [y] [z].
Proof. intros. repeat constructor; auto. Qed.
Lemma evrel_ex d1 d2 ev1 ev2 :
  evrel d1 d2 ev1 ev2 (build (d1 * d2) (fun i => Rplus (vg RO ev1 (i / d2)) (vg RO ev2 (i mod d2)))).
Proof. intros i Hi. unfold vg, vget. rewrite nth_build by auto. reflexivity. Qed.

(* the normalised Pauli basis of one qubit: orthonormal, first element 1/sqrt2 *)
Definition s2 : R := Rinv (sqrt 2).
Definition pI : Mat (T:=R) := [[(s2, 0%R); 0c]; [0c; (s2, 0%R)]].
Definition pX : Mat (T:=R) := [[0c; (s2, 0%R)]; [(s2, 0%R); 0c]].
Definition pY : Mat (T:=R) := [[0c; (0%R, Ropp s2)]; [(0%R, s2); 0c]].
Definition pZ : Mat (T:=R) := [[(s2, 0%R); 0c]; [0c; (Ropp s2, 0%R)]].
Definition pauli1 : list (Mat (T:=R)) := [pI; pX; pY; pZ].
Lemma s2_sq : (s2 * s2 = / 2)%R.
Proof.
  unfold s2. rewrite <- Rinv_mult. rewrite sqrt_sqrt by lra. reflexivity.
Qed.
Lemma s2_sq2 : (2 * (s2 * s2) = 1)%R.
Proof. rewrite s2_sq. field. Qed.
Lemma pauli1_onb l m : l < 4 -> m < 4 ->
  mtrprod RO 2 (madj RO 2 (nthm pauli1 l)) (nthm pauli1 m) = if Nat.eqb l m then 1c else 0c.
Proof.
  intros Hl Hm. unfold pauli1, pI, pX, pY, pZ. generalize s2_sq2. generalize s2. intros s Hs.
  destruct l as [|[|[|[|l]]]]; try lia; destruct m as [|[|[|[|m]]]]; try lia;
    apply c_eq; vm_compute; vm_compute in Hs; nra.
Qed.
Lemma pauli1_first : feq 2 (toF (nthm pauli1 0)) (fscal (cofr RO (Rinv (sqrt (INR 2)))) fid).
Proof.
  intros i j Hi Hj. unfold toF, nthm, pauli1, fscal, fid. simpl nth.
  replace (INR 2) with 2%R by (simpl; ring). fold s2. unfold pI. generalize s2. intros s.
  destruct i as [|[|i]]; try lia; destruct j as [|[|j]]; try lia; apply c_eq; vm_compute; ring.
Qed.

(* ---------- finding (since 9255946): a multi-qubit pulse mapped onto the whole register with an identifier mapping
   (or an additional noise Hamiltonian) is no longer returned by the shortcut and util.tensor_insert is then called
   without arguments: the model, like the code, raises instead of producing the renamed / augmented pulse ---------- *)
From Coq Require Import String.
From FF Require Import Model.Remap Model.Extend.
Local Open Scope string_scope.
Definition fr_pulse : pdesc := mkPdesc 4 ["a"] ["n"] "Pauli" 0 false false None false false false false.
Example full_register_refuted :
  extend [mkEntry fr_pulse (QTup [0; 1]) (Some [("a", "A"); ("n", "Nn")])] None 2 None None None None = Raise ErrNoArgs
  /\ extend [mkEntry fr_pulse (QTup [0; 1]) None] None 2 (Some (4, ["extra"])) None None None = Raise ErrNoArgs
  /\ extend [mkEntry fr_pulse (QTup [0; 1]) None] None 2 None None None None = ReturnSame [].
Proof. repeat split; vm_compute; reflexivity. Qed.
(* the single-qubit analogue works: the pulse is rebuilt with the new identifiers *)
Example full_register_single_ok :
  exists pl, extend [mkEntry (mkPdesc 2 ["a"] ["n"] "Pauli" 0 false false None false false false false) (QInt 0)
                       (Some [("a", "A"); ("n", "Nn")])] None 2 None None None None = Extended pl
             /\ pl_c_ids pl = ["A"] /\ pl_n_ids pl = ["Nn"] /\ pl_N pl = 1.
Proof. eexists. split. vm_compute. reflexivity. repeat split. Qed.
