(* C10 -- change of the time unit: durations x lam, energies and frequencies / lam.
   The case masks |x dt| > thr2 are dimensionless, so every entry of the second-order segment integral and of
   the second-order filter function scales EXACTLY by lam^2, on every branch, for every threshold
   (time_scaling_soi_core / _soi_entry / _F2).  With absolute masks |x| > thr2 (seeded mutant, and the shape of
   the first-order defect 0b2b5e4) the law fails: time_scaling_soi_refuted_absolute_mask.                    *)
From Coq Require Import ZArith Reals Lra Lia List.
From Coquelicot Require Import Coquelicot.
From FF Require Import Base.Ops Inst.RInst Base.RAlg Model.Numeric Model.SecondOrder Proofs.Foi Proofs.Invariance
     Proofs.SecondOrder Proofs.SecondOrderAsm Proofs.SecondOrderInt Proofs.SecondOrderGlue Proofs.SecondOrderF2Bound.
Import ListNotations.
Local Open Scope R_scope.

Lemma nz_scale x lam : 0 < lam -> nz RO (x / lam) = nz RO x.
Proof.
  intros Hl. destruct (Req_dec x 0) as [->|Hx].
  - unfold Rdiv. rewrite Rmult_0_l. reflexivity.
  - rewrite !nz_true; auto. unfold Rdiv. apply Rmult_integral_contrapositive_currified; auto.
    apply Rinv_neq_0_compat. lra.
Qed.
Lemma big_scale thr2 x T lam : 0 < lam -> big RO thr2 (x / lam) (lam * T) = big RO thr2 x T.
Proof. intros Hl. unfold big; simpl. replace (x / lam * (lam * T)) with (x * T) by (field; lra). reflexivity. Qed.
Lemma em1_scale x T lam : 0 < lam -> em1 RO (x / lam) (lam * T) = em1 RO x T.
Proof. intros Hl. rewrite !em1_val. replace (x / lam * (lam * T)) with (x * T) by (field; lra). reflexivity. Qed.
Lemma frc_scale x T lam : 0 < lam -> frc RO (x / lam) (lam * T) = cscal RO lam (frc RO x T).
Proof.
  intros Hl. destruct (Req_dec x 0) as [->|Hx].
  - replace (0 / lam) with 0 by (unfold Rdiv; ring). rewrite !frc_0. apply c_eq; simpl; ring.
  - assert (x / lam <> 0) by (unfold Rdiv; apply Rmult_integral_contrapositive_currified; auto; apply Rinv_neq_0_compat; lra).
    rewrite !frc_nz by auto. replace (x / lam * (lam * T)) with (x * T) by (field; lra).
    apply c_eq; simpl; field; split; lra.
Qed.

(* the three case formulas with given masks *)
Lemma cases_scale (m1 m2 : bool) a b ab T lam : 0 < lam ->
  soi_cases_of RO m1 m2 (a / lam) (b / lam) (ab / lam) (lam * T) = cscal RO (lam * lam) (soi_cases_of RO m1 m2 a b ab T).
Proof.
  intros Hl. unfold soi_cases_of. rewrite !frc_scale, em1_scale by auto.
  destruct (frc RO a T) as [f1 g1]. destruct (frc RO ab T) as [f2 g2]. destruct (em1 RO a T) as [e1 e2].
  unfold cite, cdivr, csub, cadd, cscal, c1, o2; simpl.
  destruct m1; [|destruct m2]; apply c_eq; simpl; unfold Rdiv; repeat rewrite Rinv_mult; repeat rewrite Rinv_inv;
    generalize (/ a) (/ b); intros ia ib; field; lra.
Qed.

Theorem time_scaling_soi_core thr2 a b ab T lam : 0 < lam ->
  soi_core RO thr2 (a / lam) (b / lam) (ab / lam) (lam * T) = cscal RO (lam * lam) (soi_core RO thr2 a b ab T).
Proof. intros Hl. unfold soi_core. rewrite !big_scale by auto. apply cases_scale; auto. Qed.

Theorem time_scaling_soi_entry thr2 w ei ej em en T lam : 0 < lam ->
  soi_entry RO thr2 (w / lam) (ei / lam) (ej / lam) (em / lam) (en / lam) (lam * T) =
  cscal RO (lam * lam) (soi_entry RO thr2 w ei ej em en T).
Proof.
  intros Hl. unfold soi_entry; simpl.
  replace (- (w / lam) - - (ei / lam - ej / lam)) with ((- w - - (ei - ej)) / lam) by (field; lra).
  replace (w / lam + (em / lam - en / lam)) with ((w + (em - en)) / lam) by (field; lra).
  replace (ei / lam - ej / lam + (em / lam - en / lam)) with ((ei - ej + (em - en)) / lam) by (field; lra).
  apply time_scaling_soi_core; auto.
Qed.

(* the seeded / pre-fix shape: masks |x| > thr2 in absolute units *)
Definition soi_core_absmask (thr2 dEE EdE dEdE dt : R) : Cx :=
  soi_cases_of RO (Rgtb (Rabs EdE) thr2) (Rgtb (Rabs dEE) thr2) dEE EdE dEdE dt.

(* with absolute masks the scaling law fails: thr2 = 1e-8, a = 0, b = 4, T = 1, time unit x 1e9
   (unscaled: case 1, imaginary part (1 - sin(4)/4)/4 <= 5/16; scaled: case 3, imaginary part lam^2 * 4/6) *)
Theorem time_scaling_soi_refuted_absolute_mask :
  exists thr2 a b T lam, 0 < lam /\ 0 < thr2 /\
    soi_core_absmask thr2 (a / lam) (b / lam) ((a + b) / lam) (lam * T)
    <> cscal RO (lam * lam) (soi_core_absmask thr2 a b (a + b) T).
Proof.
  exists (/ 100000000), 0, 4, 1, 1000000000. split. lra. split. lra.
  unfold soi_core_absmask.
  assert (H1 : Rgtb (Rabs (4 / 1000000000)) (/ 100000000) = false).
  { apply Rgtb_false. rewrite Rabs_right by lra. lra. }
  assert (H2 : Rgtb (Rabs (0 / 1000000000)) (/ 100000000) = false).
  { apply Rgtb_false. unfold Rdiv. rewrite Rmult_0_l, Rabs_R0. lra. }
  assert (H3 : Rgtb (Rabs 4) (/ 100000000) = true).
  { apply Rgtb_true. rewrite Rabs_right by lra. lra. }
  rewrite H1, H2, H3. unfold soi_cases_of, cite. cbn [fst snd].
  replace (0 + 4) with 4 by ring. rewrite frc_0, (frc_nz 4 1) by lra.
  intros E. apply (f_equal snd) in E. unfold cdivr, csub, cscal, o2 in E. simpl in E.
  pose proof (SIN_bound (4 * 1)) as [Hs1 Hs2].
  set (s4 := sin (4 * 1)) in *. clearbody s4. lra.
Qed.

(* ------------------------------------------------------------------ the whole filter function *)
Section F2Scale.
Variable d : nat.
Variable lam : R.
Hypothesis lam_pos : 0 < lam.
Variables (thr thr2 : R) (omega : list R) (basis nopers : list (Mat (T:=R))).
Notation Seg := (SegData (T:=R)).
Notation na := (length nopers).
Notation nk := (length basis).
Notation no := (length omega).
Notation sdiv := (sdiv lam).
Notation smul := (smul lam).
Variables (a b k l o : nat).
Hypotheses (Ha : (a < na)%nat) (Hb : (b < na)%nat) (Hk : (k < nk)%nat) (Hl : (l < nk)%nat) (Ho : (o < no)%nat).

Lemma cconj_cscal s (z : Cx) : cconj' (cscal RO s z) = cscal RO s (cconj' z).
Proof. apply c_eq; simpl; ring. Qed.

Definition seg_rel (s' s : Seg) : Prop :=
  a5get RO (seg_same d thr2 na nk no (sdiv omega) s') a b k l o =
    cscal RO (lam * lam) (a5get RO (seg_same d thr2 na nk no omega s) a b k l o) /\
  a3get RO (seg_step s') a k o = cscal RO lam (a3get RO (seg_step s) a k o) /\
  a3get RO (seg_step s') b l o = cscal RO lam (a3get RO (seg_step s) b l o).

Lemma so_spec_scale segs' segs : Forall2 seg_rel segs' segs -> forall first c,
  so_spec d thr2 na nk no (sdiv omega) a b k l o first segs' (cscal RO lam c) =
  cscal RO (lam * lam) (so_spec d thr2 na nk no omega a b k l o first segs c).
Proof.
  induction 1 as [|s' s r' r [HD [Hp Hq]] Hr IH]; intros first c.
  - cbn [so_spec]. apply c_eq; simpl; ring.
  - cbn [so_spec]. rewrite HD, Hp, Hq.
    replace (cadd' (cscal RO lam c) (cscal RO lam (a3get RO (seg_step s) b l o)))
      with (cscal RO lam (cadd' c (a3get RO (seg_step s) b l o))) by (apply c_eq; simpl; ring).
    rewrite IH, cconj_cscal. destruct first; apply c_eq; simpl; ring.
Qed.

Lemma same_sum_cscal z I2 X Y : same_sum d (fun i j m n => cscal RO z (I2 i j m n)) X Y = cscal RO z (same_sum d I2 X Y).
Proof.
  rewrite !same_sum_S4, cscal_cmul, <- S4_mul_l. apply S4_ext. intros. rewrite cscal_cmul. ring.
Qed.

Lemma fresh_seg_rel ev V Q tg dt nc : length nc = na ->
  seg_rel (sdiv ev, lam * dt, so_NT RO d V nopers nc, so_BT RO d V Q basis,
           cm_step RO d thr (sdiv ev) V Q (lam * tg) (lam * dt) (sdiv omega) basis nopers nc)
          (ev, dt, so_NT RO d V nopers nc, so_BT RO d V Q basis,
           cm_step RO d thr ev V Q tg dt omega basis nopers nc).
Proof.
  intros HL. unfold seg_rel, seg_same, seg_step. cbn [snd]. split; [|split].
  - rewrite !so_same_get by (auto; rewrite ?so_NT_length, ?so_BT_length, ?map_length, ?length_sdiv; auto).
    rewrite (nth_map_lt _ (sdiv omega) o 0) by (rewrite length_sdiv; auto).
    rewrite (nth_map_lt _ omega o 0) by auto.
    rewrite <- same_sum_cscal. apply same_sum_ext. intros i j m n Hi Hj Hm Hn.
    rewrite !t4get_soi_tab by auto. rewrite !vg_sdiv by auto.
    change (nth o (sdiv omega) 0) with (vg RO (sdiv omega) o). rewrite vg_sdiv by auto.
    apply time_scaling_soi_entry; auto.
  - rewrite (time_scaling_cm_step d lam lam_pos). unfold a3scal. rewrite a3get_a3build by auto. reflexivity.
  - rewrite (time_scaling_cm_step d lam lam_pos). unfold a3scal. rewrite a3get_a3build by auto. reflexivity.
Qed.

Lemma fresh_segs_rel : forall evs Vs Qs ts dts ncs, (forall nc, In nc ncs -> length nc = na) ->
  Forall2 seg_rel (fresh_segs d thr (sdiv omega) basis nopers (map sdiv evs) Vs Qs (smul ts) (smul dts) ncs)
                  (fresh_segs d thr omega basis nopers evs Vs Qs ts dts ncs).
Proof.
  induction evs as [|ev evs IH]; intros Vs Qs ts dts ncs Hnc; [constructor|].
  destruct Vs as [|V Vs]; [constructor|]. destruct Qs as [|Q Qs]; [constructor|].
  destruct ts as [|tg ts]; [constructor|]. destruct dts as [|dt dts]; [constructor|].
  destruct ncs as [|nc ncs]; [constructor|].
  cbn [map fresh_segs Invariance.smul Invariance.sdiv]. constructor.
  - apply fresh_seg_rel. apply Hnc; left; auto.
  - apply IH. intros; apply Hnc; right; auto.
Qed.

(* F2 of the pulse written in the time unit lam: exactly lam^2 F2, every entry, every frequency, every threshold *)
Theorem time_scaling_F2 evs Vs Qs ncoeffs dts ts :
  length evs = length dts -> length Vs = length dts ->
  (length dts <= length Qs)%nat -> (length dts <= length ts)%nat -> length ncoeffs = na ->
  a5get RO (second_order_ff RO d thr thr2 (map sdiv evs) Vs Qs (sdiv omega) basis nopers ncoeffs (smul dts) (smul ts) (None, None)) a b k l o =
  cscal RO (lam * lam)
    (a5get RO (second_order_ff RO d thr thr2 evs Vs Qs omega basis nopers ncoeffs dts ts (None, None)) a b k l o).
Proof.
  intros H1 H2 H3 H4 H5.
  rewrite !second_order_ff_get by (auto; rewrite ?map_length, ?length_smul, ?length_sdiv; auto).
  rewrite length_sdiv, length_smul.
  replace 0c with (cscal RO lam 0c) at 1 by (apply c_eq; simpl; ring).
  apply so_spec_scale. apply fresh_segs_rel.
  intros nc Hin. rewrite (transpose_coeffs_rows _ _ _ Hin). exact H5.
Qed.

(* the package's call: propagators and time grid derived from the scaled pulse *)
Corollary time_scaling_F2_from_eig evs Vs ncoeffs dts :
  length evs = length dts -> length Vs = length dts -> length ncoeffs = na ->
  a5get RO (second_order_from_eig RO d thr thr2 (map sdiv evs) Vs (sdiv omega) basis nopers ncoeffs (smul dts)) a b k l o =
  cscal RO (lam * lam) (a5get RO (second_order_from_eig RO d thr thr2 evs Vs omega basis nopers ncoeffs dts) a b k l o).
Proof.
  intros H1 H2 H5. unfold second_order_from_eig.
  rewrite (time_scaling_propagators d lam lam_pos), (time_scaling_times lam).
  apply time_scaling_F2; auto.
  - clear - H1 H2. unfold propagators. revert Vs dts H1 H2. generalize (mid RO d).
    induction evs as [|ev evs IH]; intros Q Vs dts H1 H2.
    + destruct dts; [simpl; lia|discriminate].
    + destruct dts as [|dt dts]; [discriminate|]. destruct Vs as [|V Vs]; [discriminate|]. simpl.
      specialize (IH (mmul RO d (segment_propagator RO d ev V dt) Q) Vs dts). simpl in *. lia.
  - unfold times. rewrite Proofs.SecondOrderGlue.cumsum_from_length. lia.
Qed.
End F2Scale.
