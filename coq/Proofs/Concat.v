(* Theorems about the bookkeeping model of concatenation (Model/Concat.v). *)
From Coq Require Import String Ascii List ZArith Bool Arith Lia Sorting.Sorted Sorting.Permutation.
From FF Require Import Model.Concat.
Import ListNotations.

(* ================================================================================================ *)
(* 1. decision logic of concatenate                                                                   *)

Lemma compress_in {X} : forall (l : list X) (m : list bool) x, In x (compress l m) -> In x l.
Proof.
  induction l as [|y l IH]; intros m x H; destruct m as [|b m]; simpl in *; try contradiction.
  destruct b; simpl in H.
  - destruct H as [->|H]; [left; reflexivity | right; eapply IH; eauto].
  - right; eapply IH; eauto.
Qed.
Lemma grids_of_in cs w : In w (grids_of cs) <-> In (Some w) (map c_omega cs).
Proof.
  unfold grids_of. induction (map c_omega cs) as [|x l IH]; simpl. tauto.
  destruct x as [v|]; simpl.
  - rewrite IH. split. intros [->|H]; auto. intros [H|H]; [inversion H; auto|auto].
  - rewrite IH. split; [auto|]. intros [H|H]; [discriminate|auto].
Qed.
Lemma grids_compress_in cs m w : In w (grids_of (compress cs m)) -> In w (grids_of cs).
Proof.
  rewrite !grids_of_in, !in_map_iff. intros (c & E & H). exists c. split; auto. eapply compress_in; eauto.
Qed.

Definition freq_dependent (r : ret) : bool := t_cm r || t_ff r || t_ffgen r || t_pc r || t_pcgen r.
(* the grid the returned pulse is cached for is the one supplied, or (none supplied) one cached on an input *)
Definition grid_known (cs : list cache) (o : opts) (r : ret) : Prop :=
  exists w, t_grid r = Some w /\ (o_omega o = Some w \/ (o_omega o = None /\ In w (grids_of cs))).

Lemma finish_ret en lo ro o w r : finish en lo ro o w = ORet r -> t_grid r = Some w.
Proof. unfold finish. destruct (negb en), (negb lo), (negb ro); intros H; inversion H; reflexivity. Qed.
Lemma finish_raise en lo ro o w e : finish en lo ro o w = ORaise e -> e = EIndexError \/ e = EShapeError.
Proof. unfold finish. destruct (negb en), (negb lo), (negb ro); intros H; inversion H; auto. Qed.

(* never a frequency-dependent attribute without known frequencies; what is cached is cached for the
   grid that was used *)
Theorem decide_grid_sound new_ids maps nn cs o r :
  decide new_ids maps nn cs o = ORet r -> freq_dependent r = true -> grid_known cs o r.
Proof.
  unfold decide, grid_known.
  destruct (is_tfalse (o_ff o) && negb (o_pc o)).
  { intros H; inversion H; subst. discriminate. }
  destruct (o_omega o) as [w|].
  - intros H _. exists w. split; auto. eapply finish_ret; eauto.
  - set (cms := map c_cm cs). set (any_cm := existsb (fun b => b) cms).
    set (gs := if any_cm then grids_of (compress cs cms) else grids_of cs).
    destruct (negb (all_equal_nat gs)).
    { destruct (is_ttrue (o_ff o)); [discriminate|]. destruct (o_pc o); [discriminate|].
      intros H; inversion H; subst; discriminate. }
    destruct (is_tnone (o_ff o) && (negb (equal_n_opers maps) || negb any_cm)).
    { intros H; inversion H; subst; discriminate. }
    destruct gs as [|w gs'] eqn:E.
    { intros H; inversion H; subst; discriminate. }
    intros H _. exists w. split. eapply finish_ret; eauto. right. split; auto.
    assert (Hin : In w gs) by (rewrite E; left; reflexivity).
    subst gs. destruct any_cm; auto. eapply grids_compress_in; eauto.
Qed.

(* the two documented ValueErrors are raised only when no frequencies were supplied and the cached grids
   are unknown or inconsistent; any other exception of the model is one of the two unintended crashes *)
Definition grids_consulted (cs : list cache) : list nat :=
  if existsb (fun b => b) (map c_cm cs) then grids_of (compress cs (map c_cm cs)) else grids_of cs.
Theorem decide_raise_sound new_ids maps nn cs o e :
  decide new_ids maps nn cs o = ORaise e ->
  ((e = EForced /\ o_ff o = TTrue) \/ (e = ENoFreqPC /\ o_pc o = true)) /\ o_omega o = None /\ all_equal_nat (grids_consulted cs) = false
  \/ e = EIndexError \/ e = EShapeError.
Proof.
  unfold decide, grids_consulted.
  destruct (is_tfalse (o_ff o) && negb (o_pc o)); [discriminate|].
  destruct (o_omega o) as [w|].
  - intros H. right. eapply finish_raise; eauto.
  - destruct (all_equal_nat _) eqn:E; simpl.
    + destruct (is_tnone (o_ff o) && _); [discriminate|].
      destruct (if existsb _ _ then _ else _); [discriminate|].
      intros H. right. eapply finish_raise; eauto.
    + destruct (o_ff o) eqn:Eff; simpl.
      * destruct (o_pc o) eqn:Epc; [|discriminate]. intros H; inversion H. left. auto.
      * intros H; inversion H. left; auto.
      * destruct (o_pc o) eqn:Epc; [|discriminate]. intros H; inversion H. left. auto.
Qed.

(* correlations: on the atomic path they are available whenever requested *)
Theorem decide_pc_atomic new_ids maps nn cs o r :
  decide new_ids maps nn cs o = ORet r -> t_path r = PAtomic -> t_pc r = o_pc o /\ t_pcgen r = (o_pc o && o_gen o).
Proof.
  unfold decide.
  destruct (is_tfalse (o_ff o) && negb (o_pc o)). { intros H; inversion H; subst; discriminate. }
  assert (F : forall w, finish (equal_n_opers maps) (length (unique_ids maps) =? length new_ids)
                 (forallb (fun x => count_true (fst x) =? snd x) (combine (present maps) nn)) o w = ORet r ->
              t_path r = PAtomic -> t_pc r = o_pc o /\ t_pcgen r = (o_pc o && o_gen o)).
  { intros w. unfold finish. destruct (negb _); [intros H; inversion H; subst; discriminate|].
    destruct (negb _); [discriminate|]. destruct (negb _); [discriminate|].
    intros H; inversion H; subst; auto. }
  destruct (o_omega o) as [w|]; [apply F|].
  destruct (negb (all_equal_nat _)).
  { destruct (is_ttrue (o_ff o)); [discriminate|]. destruct (o_pc o); [discriminate|].
    intros H; inversion H; subst; discriminate. }
  destruct (is_tnone (o_ff o) && _). { intros H; inversion H; subst; discriminate. }
  destruct (if existsb _ _ then _ else _); [intros H; inversion H; subst; discriminate|]. apply F.
Qed.

(* the full soundness statement of the property for the decision logic *)
Definition decision_sound_stmt : Prop :=
  forall new_ids maps nn cs o,
    match decide new_ids maps nn cs o with
    | ORaise e => (e = EForced \/ e = ENoFreqPC) /\ o_omega o = None /\ all_equal_nat (grids_consulted cs) = false
    | ORet r => (freq_dependent r = true -> grid_known cs o r) /\ (o_pc o = true -> t_pc r = true)
    | OCopy => True
    end.

(* ---- witnesses: operators are tagged by numbers (1 = X/2, 2 = Y/2, 3 = Z/2), coefficients are integers ---- *)
Definition wE (o : nat) (s : string) (r : list Z) : entry nat Z := mkEntry o s r.
Definition wP (c : list (entry nat Z)) (n : list (entry nat Z)) : pulse nat Z := mkPulse 2 0 (mkHam 1 c) (mkHam 1 n) [1%Z].
Definition w_outcome := concatenate_outcome nat Z Nat.eqb Z.eqb 0%Z.
Definition no_cache := mkCache None false false.

(* (i) disjoint noise-operator sets *)
Definition wit_disjoint : list (pulse nat Z) :=
  [wP [wE 1 "A" [1%Z]] [wE 3 "N" [1%Z]]; wP [wE 2 "B" [1%Z]] [wE 1 "M" [1%Z]]].
(* (ii) identifier N on Z, X, Z: the mapping of the third pulse stays {N: N} *)
Definition wit_stale : list (pulse nat Z) :=
  [wP [wE 1 "A" [1%Z]] [wE 3 "N" [1%Z]]; wP [wE 2 "A" [1%Z]] [wE 1 "N" [1%Z]]; wP [wE 1 "A" [1%Z]] [wE 3 "N" [1%Z]]].
(* (iii) a shared noise operator, equal grids cached (no control matrix), calc_filter_function = None *)
Definition wit_shared : list (pulse nat Z) :=
  [wP [wE 1 "A" [1%Z]] [wE 3 "N" [1%Z]]; wP [wE 2 "B" [1%Z]] [wE 3 "N" [1%Z]]].
Definition omega_only := mkCache (Some 0) false false.
(* (iv) stale mapping together with a shared operator: boolean mask of the wrong length *)
Definition wit_stale_shared : list (pulse nat Z) :=
  [wP [wE 1 "A" [1%Z]] [wE 2 "M" [1%Z]; wE 3 "N" [1%Z]]; wP [wE 2 "A" [1%Z]] [wE 2 "M" [1%Z]; wE 1 "N" [1%Z]];
   wP [wE 1 "A" [1%Z]] [wE 2 "M" [1%Z]; wE 3 "N" [1%Z]]].

Definition pc_silently_missing (ps : list (pulse nat Z)) (cs : list cache) (o : opts) : Prop :=
  o_pc o = true /\ exists r, w_outcome ps cs o = ORet r /\ t_pc r = false.

Theorem decision_pc_refuted_disjoint :
  pc_silently_missing wit_disjoint [no_cache; no_cache] (mkOpts TNone (Some 0) false true).
Proof. split; [reflexivity|]. eexists; split; [vm_compute; reflexivity|reflexivity]. Qed.
Theorem decision_pc_refuted_stale_mapping :
  pc_silently_missing wit_stale [no_cache; no_cache; no_cache] (mkOpts TNone (Some 0) false true).
Proof. split; [reflexivity|]. eexists; split; [vm_compute; reflexivity|reflexivity]. Qed.
Theorem decision_pc_refuted_no_control_matrix :
  pc_silently_missing wit_shared [omega_only; omega_only] (mkOpts TNone None false true).
Proof. split; [reflexivity|]. eexists; split; [vm_compute; reflexivity|reflexivity]. Qed.
(* the same inputs with a control matrix cached do yield the correlations: the witness is not vacuous *)
Example decision_pc_available_with_control_matrix :
  exists r, w_outcome wit_shared [mkCache (Some 0) true true; omega_only] (mkOpts TNone None false true) = ORet r /\ t_pc r = true.
Proof. eexists; split; [vm_compute; reflexivity|reflexivity]. Qed.
Theorem decision_crash_refuted :
  w_outcome wit_stale_shared [no_cache; no_cache; no_cache] (mkOpts TTrue (Some 0) false false) = ORaise EIndexError.
Proof. vm_compute. reflexivity. Qed.

Theorem decision_sound_refuted : ~ decision_sound_stmt.
Proof.
  intros H.
  (* the data of witness (iii) as seen by [decide] *)
  specialize (H ["N"%string] [[("N", "N")]; [("N", "N")]]%string [1; 1] [omega_only; omega_only] (mkOpts TNone None false true)).
  vm_compute in H. destruct H as [_ H]. specialize (H eq_refl). discriminate.
Qed.
