(* Theorems about the bookkeeping model of concatenation (Model/Concat.v). *)
From Coq Require Import String Ascii List ZArith Bool Arith Lia Sorting.Sorted Sorting.Permutation.
From FF Require Import Model.Concat.
Import ListNotations.

(* ================================================================================================ *)
(* 1. decision logic of concatenate                                                                   *)

Lemma compress_in {X} : forall (l : list X) (m : list bool) x, In x (compress l m) -> In x l.
Proof.
  induction l as [|y l IH]; intros m x H; destruct m as [|b m]; simpl in *; try contradiction.
  destruct b; simpl in H.
  - destruct H as [->|H]; [left; reflexivity | right; eapply IH; eauto].
  - right; eapply IH; eauto.
Qed.
Lemma grids_of_in cs w : In w (grids_of cs) <-> In (Some w) (map c_omega cs).
Proof.
  unfold grids_of. induction (map c_omega cs) as [|x l IH]; simpl. tauto.
  destruct x as [v|]; simpl.
  - rewrite IH. split. intros [->|H]; auto. intros [H|H]; [inversion H; auto|auto].
  - rewrite IH. split; [auto|]. intros [H|H]; [discriminate|auto].
Qed.
Lemma grids_compress_in cs m w : In w (grids_of (compress cs m)) -> In w (grids_of cs).
Proof.
  rewrite !grids_of_in, !in_map_iff. intros (c & E & H). exists c. split; auto. eapply compress_in; eauto.
Qed.

Definition freq_dependent (r : ret) : bool := t_cm r || t_ff r || t_ffgen r || t_pc r || t_pcgen r.
(* the grid the returned pulse is cached for is the one supplied, or (none supplied) one cached on an input *)
Definition grid_known (cs : list cache) (o : opts) (r : ret) : Prop :=
  exists w, t_grid r = Some w /\ (o_omega o = Some w \/ (o_omega o = None /\ In w (grids_of cs))).
Definition grids_consulted (cs : list cache) : list nat :=
  if existsb (fun b => b) (map c_cm cs) then grids_of (compress cs (map c_cm cs)) else grids_of cs.

(* The first three theorems hold for every combination of the mechanisms (current code and pre-fix code). *)
Lemma finish_ret mc en lo ro o w r : finish_gen mc en lo ro o w = ORet r -> t_grid r = Some w.
Proof. unfold finish_gen. destruct (negb en && _), (negb lo), (negb ro); intros H; inversion H; reflexivity. Qed.
Lemma finish_raise mc en lo ro o w e : finish_gen mc en lo ro o w = ORaise e -> e = EIndexError \/ e = EShapeError.
Proof. unfold finish_gen. destruct (negb en && _), (negb lo), (negb ro); intros H; inversion H; auto. Qed.

(* never a frequency-dependent attribute without known frequencies; what is cached is cached for the
   grid that was used *)
Theorem decide_grid_sound mc new_ids maps nn cs o r :
  decide_gen mc new_ids maps nn cs o = ORet r -> freq_dependent r = true -> grid_known cs o r.
Proof.
  unfold decide_gen, grid_known.
  destruct (is_tfalse (o_ff o) && negb (o_pc o)).
  { intros H; inversion H; subst. discriminate. }
  destruct (o_omega o) as [w|].
  - intros H _. exists w. split; auto. eapply finish_ret; eauto.
  - set (cms := map c_cm cs). set (any_cm := existsb (fun b => b) cms).
    set (gs := if any_cm then grids_of (compress cs cms) else grids_of cs).
    destruct (negb (all_equal_nat gs)).
    { destruct (is_ttrue (o_ff o)); [discriminate|]. destruct (o_pc o); [discriminate|].
      intros H; inversion H; subst; discriminate. }
    destruct (is_tnone (o_ff o) && _ && _).
    { intros H; inversion H; subst; discriminate. }
    destruct gs as [|w gs'] eqn:E.
    { intros H; inversion H; subst; discriminate. }
    intros H _. exists w. split. eapply finish_ret; eauto. right. split; auto.
    assert (Hin : In w gs) by (rewrite E; left; reflexivity).
    subst gs. destruct any_cm; auto. eapply grids_compress_in; eauto.
Qed.

(* the two documented ValueErrors are raised only when no frequencies were supplied and the cached grids
   are unknown or inconsistent; any other exception of the decision model is one of the two crashes of
   the row bookkeeping (excluded for the current code by [masks_consistent] below) *)
Theorem decide_raise_sound mc new_ids maps nn cs o e :
  decide_gen mc new_ids maps nn cs o = ORaise e ->
  ((e = EForced /\ o_ff o = TTrue) \/ (e = ENoFreqPC /\ o_pc o = true)) /\ o_omega o = None /\ all_equal_nat (grids_consulted cs) = false
  \/ e = EIndexError \/ e = EShapeError.
Proof.
  unfold decide_gen, grids_consulted.
  destruct (is_tfalse (o_ff o) && negb (o_pc o)); [discriminate|].
  destruct (o_omega o) as [w|].
  - intros H. right. eapply finish_raise; eauto.
  - destruct (all_equal_nat _) eqn:E; simpl.
    + destruct (is_tnone (o_ff o) && _ && _); [discriminate|].
      destruct (if existsb _ _ then _ else _); [discriminate|].
      intros H. right. eapply finish_raise; eauto.
    + destruct (o_ff o) eqn:Eff; simpl.
      * destruct (o_pc o) eqn:Epc; [|discriminate]. intros H; inversion H. left. auto.
      * intros H; inversion H. left; auto.
      * destruct (o_pc o) eqn:Epc; [|discriminate]. intros H; inversion H. left. auto.
Qed.

(* correlations: on the atomic path they are available whenever requested *)
Theorem decide_pc_atomic mc new_ids maps nn cs o r :
  decide_gen mc new_ids maps nn cs o = ORet r -> t_path r = PAtomic -> t_pc r = o_pc o /\ t_pcgen r = (o_pc o && o_gen o).
Proof.
  unfold decide_gen.
  destruct (is_tfalse (o_ff o) && negb (o_pc o)). { intros H; inversion H; subst; discriminate. }
  assert (F : forall w, finish_gen mc (equal_n_opers maps) (length (unique_ids maps) =? length new_ids)
                 (forallb (fun x => count_true (fst x) =? snd x) (combine (present maps) nn)) o w = ORet r ->
              t_path r = PAtomic -> t_pc r = o_pc o /\ t_pcgen r = (o_pc o && o_gen o)).
  { intros w. unfold finish_gen. destruct (negb _ && _); [intros H; inversion H; subst; discriminate|].
    destruct (negb _); [discriminate|]. destruct (negb _); [discriminate|].
    intros H; inversion H; subst; auto. }
  destruct (o_omega o) as [w|]; [apply F|].
  destruct (negb (all_equal_nat _)).
  { destruct (is_ttrue (o_ff o)); [discriminate|]. destruct (o_pc o); [discriminate|].
    intros H; inversion H; subst; discriminate. }
  destruct (is_tnone (o_ff o) && _ && _). { intros H; inversion H; subst; discriminate. }
  destruct (if existsb _ _ then _ else _); [intros H; inversion H; subst; discriminate|]. apply F.
Qed.

(* CURRENT code (mechanism m_pc_general): whenever correlations are requested and a pulse is returned, they are there *)
Theorem decide_pc_current new_ids maps nn cs o r :
  decide new_ids maps nn cs o = ORet r -> o_pc o = true -> t_pc r = true.
Proof.
  unfold decide, decide_gen. intros H Hpc. revert H. rewrite Hpc. rewrite andb_false_r.
  assert (F : forall w, finish_gen current (equal_n_opers maps) (length (unique_ids maps) =? length new_ids)
                 (forallb (fun x => count_true (fst x) =? snd x) (combine (present maps) nn)) o w = ORet r -> t_pc r = true).
  { intros w. unfold finish_gen. rewrite Hpc. simpl. rewrite andb_false_r.
    destruct (negb _); [discriminate|]. destruct (negb _); [discriminate|].
    intros H; inversion H; subst; reflexivity. }
  destruct (o_omega o) as [w|]; [apply F|].
  destruct (all_equal_nat (if existsb _ _ then _ else _)) eqn:E; simpl.
  2:{ destruct (is_ttrue (o_ff o)); discriminate. }
  rewrite andb_false_r. simpl.
  destruct (if existsb _ _ then _ else _); [discriminate E|apply F].
Qed.

(* CURRENT code: generalized correlations as well, when which = 'generalized' *)
Theorem decide_pcgen_current new_ids maps nn cs o r :
  decide new_ids maps nn cs o = ORet r -> o_pc o = true -> o_gen o = true -> t_pcgen r = true.
Proof.
  unfold decide, decide_gen. intros H Hpc Hg. revert H. rewrite Hpc. rewrite andb_false_r.
  assert (F : forall w, finish_gen current (equal_n_opers maps) (length (unique_ids maps) =? length new_ids)
                 (forallb (fun x => count_true (fst x) =? snd x) (combine (present maps) nn)) o w = ORet r -> t_pcgen r = true).
  { intros w. unfold finish_gen. rewrite Hpc, Hg. simpl. rewrite andb_false_r.
    destruct (negb _); [discriminate|]. destruct (negb _); [discriminate|].
    intros H; inversion H; subst; reflexivity. }
  destruct (o_omega o) as [w|]; [apply F|].
  destruct (all_equal_nat (if existsb _ _ then _ else _)) eqn:E; simpl.
  2:{ destruct (is_ttrue (o_ff o)); discriminate. }
  rewrite andb_false_r. simpl.
  destruct (if existsb _ _ then _ else _); [discriminate E|apply F].
Qed.
(* calc_filter_function = True: a returned pulse has the control matrix and the filter function cached (every mech) *)
Theorem decide_ff_forced mc new_ids maps nn cs o r :
  decide_gen mc new_ids maps nn cs o = ORet r -> o_ff o = TTrue -> t_ff r = true /\ t_cm r = true.
Proof.
  unfold decide_gen. intros H Hff. revert H. rewrite Hff. simpl.
  assert (F : forall w, finish_gen mc (equal_n_opers maps) (length (unique_ids maps) =? length new_ids)
                 (forallb (fun x => count_true (fst x) =? snd x) (combine (present maps) nn)) o w = ORet r ->
              t_ff r = true /\ t_cm r = true).
  { intros w. unfold finish_gen. destruct (negb _ && _); [intros H; inversion H; subst; auto|].
    destruct (negb _); [discriminate|]. destruct (negb _); [discriminate|].
    intros H; inversion H; subst; auto. }
  destruct (o_omega o) as [w|]; [apply F|].
  destruct (all_equal_nat (if existsb _ _ then _ else _)) eqn:E; simpl; [|discriminate].
  destruct (if existsb _ _ then _ else _); [discriminate E|apply F].
Qed.

(* the two crashes of the row bookkeeping need inconsistent masks *)
Definition lens_ok (new_ids : list string) (maps : list (list (string * string))) : bool :=
  length (unique_ids maps) =? length new_ids.
Definition rows_ok (maps : list (list (string * string))) (nn : list nat) : bool :=
  forallb (fun x => count_true (fst x) =? snd x) (combine (present maps) nn).
Lemma finish_no_crash mc en o w e : finish_gen mc en true true o w <> ORaise e.
Proof. unfold finish_gen. destruct (negb en && _); simpl; discriminate. Qed.
Theorem decide_crash_needs_bad_masks mc new_ids maps nn cs o e :
  decide_gen mc new_ids maps nn cs o = ORaise e -> e = EIndexError \/ e = EShapeError ->
  lens_ok new_ids maps = false \/ rows_ok maps nn = false.
Proof.
  unfold decide_gen. fold (lens_ok new_ids maps). fold (rows_ok maps nn).
  destruct (lens_ok new_ids maps); [|auto]. destruct (rows_ok maps nn); [|auto].
  intros H He. exfalso. revert H.
  destruct (is_tfalse (o_ff o) && negb (o_pc o)); [discriminate|].
  destruct (o_omega o) as [w|]; [apply finish_no_crash|].
  destruct (negb (all_equal_nat _)).
  { destruct (is_ttrue (o_ff o)). intros H; inversion H; subst; destruct He; discriminate.
    destruct (o_pc o); [|discriminate]. intros H; inversion H; subst; destruct He; discriminate. }
  destruct (is_tnone (o_ff o) && _ && _); [discriminate|].
  destruct (if existsb _ _ then _ else _); [discriminate|apply finish_no_crash].
Qed.

(* FULL decision soundness of the current code, given consistent masks (proved for every result of the
   Hamiltonian concatenation of well-formed pulses in section 5) *)
Theorem decide_sound_current new_ids maps nn cs o :
  lens_ok new_ids maps = true -> rows_ok maps nn = true ->
  match decide new_ids maps nn cs o with
  | ORaise e => (e = EForced \/ e = ENoFreqPC) /\ o_omega o = None /\ all_equal_nat (grids_consulted cs) = false
  | ORet r => (freq_dependent r = true -> grid_known cs o r) /\ (o_pc o = true -> t_pc r = true) /\
              (o_pc o = true -> o_gen o = true -> t_pcgen r = true) /\ (o_ff o = TTrue -> t_ff r = true /\ t_cm r = true)
  | OCopy => True
  end.
Proof.
  intros Hl Hr. destruct (decide new_ids maps nn cs o) as [e| |r] eqn:E; auto.
  - destruct (decide_raise_sound current _ _ _ _ _ _ E) as [([[-> _]|[-> _]] & H2 & H3)|Hc]; auto.
    destruct (decide_crash_needs_bad_masks current _ _ _ _ _ _ E Hc); congruence.
  - split; [|split; [|split]]. apply (decide_grid_sound current _ _ _ _ _ _ E). apply (decide_pc_current _ _ _ _ _ _ E).
    apply (decide_pcgen_current _ _ _ _ _ _ E). apply (decide_ff_forced current _ _ _ _ _ _ E).
Qed.

(* the full soundness statement of the property for the decision logic *)
Definition decision_sound_stmt (mc : mech) : Prop :=
  forall new_ids maps nn cs o,
    match decide_gen mc new_ids maps nn cs o with
    | ORaise e => (e = EForced \/ e = ENoFreqPC) /\ o_omega o = None /\ all_equal_nat (grids_consulted cs) = false
                  \/ e = EIndexError \/ e = EShapeError
    | ORet r => (freq_dependent r = true -> grid_known cs o r) /\ (o_pc o = true -> t_pc r = true)
    | OCopy => True
    end.

(* ================================================================================================ *)
(* 2. sorting by identifier                                                                           *)
Section SortFacts.
Context {A : Type} (key : A -> string).
Definition le_key (x y : A) : Prop := String.leb (key x) (key y) = true.

Lemma leb_total a b : String.leb a b = false -> String.leb b a = true.
Proof.
  unfold String.leb. rewrite (String.compare_antisym b a).
  destruct (String.compare a b); simpl; congruence.
Qed.
Lemma insert_by_perm x : forall l, Permutation (insert_by key x l) (x :: l).
Proof.
  induction l as [|y l IH]; simpl. reflexivity.
  destruct (String.leb (key x) (key y)). reflexivity.
  rewrite IH. apply perm_swap.
Qed.
Lemma sort_by_perm : forall l, Permutation (sort_by key l) l.
Proof. induction l; simpl. constructor. rewrite insert_by_perm. constructor. assumption. Qed.
Lemma insert_by_sorted x : forall l, Sorted le_key l -> Sorted le_key (insert_by key x l).
Proof.
  induction l as [|y l IH]; intros H; simpl.
  - repeat constructor.
  - destruct (String.leb (key x) (key y)) eqn:E.
    + constructor; auto.
    + inversion H as [|? ? Hs Hh]; subst. constructor; auto.
      destruct l as [|z l]; simpl.
      * constructor. apply leb_total; assumption.
      * destruct (String.leb (key x) (key z)); constructor.
        apply leb_total; assumption. inversion Hh; assumption.
Qed.
Lemma sort_by_sorted : forall l, Sorted le_key (sort_by key l).
Proof. induction l; simpl. constructor. apply insert_by_sorted; assumption. Qed.
Lemma sorted_map : forall l, Sorted le_key l -> Sorted (fun a b => String.leb a b = true) (map key l).
Proof.
  induction 1 as [|u l Hs IH Hh]; simpl; constructor; auto.
  destruct Hh as [|v l' Hv]; simpl; constructor. exact Hv.
Qed.
End SortFacts.

(* lists of identifiers *)
Lemma mem_str_in s l : mem_str s l = true <-> In s l.
Proof.
  unfold mem_str. rewrite existsb_exists. split.
  - intros (x & Hx & E). apply String.eqb_eq in E. subst; auto.
  - intros H. exists s. split; auto. apply String.eqb_refl.
Qed.
Lemma mem_str_false s l : mem_str s l = false <-> ~ In s l.
Proof. rewrite <- mem_str_in. destruct (mem_str s l); split; congruence. Qed.
Lemma has_dup_nodup l : has_dup_str l = false -> NoDup l.
Proof.
  induction l as [|x l IH]; simpl; intros H. constructor.
  apply orb_false_iff in H. destruct H as [H1 H2]. constructor; auto. apply mem_str_false; assumption.
Qed.
Lemma has_dup_true l : has_dup_str l = true -> ~ NoDup l.
Proof.
  induction l as [|x l IH]; simpl; intros H N. discriminate.
  inversion N; subst. apply orb_true_iff in H. destruct H as [H|H].
  - apply mem_str_in in H. contradiction.
  - apply IH; assumption.
Qed.
Lemma nodup_str_in s l : In s (nodup_str l) <-> In s l.
Proof.
  induction l as [|x l IH]; simpl. tauto.
  destruct (mem_str x l) eqn:E.
  - rewrite IH. split; auto. intros [->|H]; auto. apply mem_str_in; assumption.
  - simpl. rewrite IH. tauto.
Qed.
Lemma nodup_str_nodup l : NoDup (nodup_str l).
Proof.
  induction l as [|x l IH]; simpl. constructor.
  destruct (mem_str x l) eqn:E; auto. constructor; auto.
  rewrite nodup_str_in. apply mem_str_false; assumption.
Qed.

(* bisect on the cumulative operator counts recovers the pulse position *)
Lemma bisect_accumulate : forall (counts : list nat) acc ind,
  bisect_right (accumulate_from acc counts) (acc + ind) =
  (fix go (cs : list nat) (i : nat) : nat :=
     match cs with [] => 0 | c :: r => if c <=? i then S (go r (i - c)) else 0 end) counts ind.
Proof.
  induction counts as [|c r IH]; intros acc ind; simpl. reflexivity.
  destruct (c <=? ind) eqn:E.
  - apply Nat.leb_le in E. assert (H : acc + c <=? acc + ind = true) by (apply Nat.leb_le; lia). rewrite H.
    f_equal. replace (acc + ind) with (acc + c + (ind - c)) by lia. apply IH.
  - apply Nat.leb_gt in E. assert (H : acc + c <=? acc + ind = false) by (apply Nat.leb_gt; lia). rewrite H. reflexivity.
Qed.

(* ================================================================================================ *)
(* 3. _concatenate_Hamiltonian                                                                        *)
Section Ham.
Variables oper coef : Type.
Variable oeqb : oper -> oper -> bool.
Variable ceqb : coef -> coef -> bool.
Variable czero : coef.
Hypothesis oeqb_spec : forall a b, reflect (a = b) (oeqb a b).

Notation entry := (entry oper coef).
Notation ham := (ham oper coef).
Notation flatten := (flatten oper coef).
Notation uniq := (uniq oper coef oeqb).
Notation firsts := (firsts oper coef oeqb).
Notation mem_op := (mem_op oper oeqb).
Notation row_of := (row_of oper coef oeqb).
Notation complete_row := (complete_row coef ceqb czero).
Notation concatenate_hamiltonian := (concatenate_hamiltonian oper coef oeqb ceqb czero).
Notation new_id := (new_id oper coef oeqb).
Notation oper_ids_clash := (oper_ids_clash oper coef oeqb).

(* the code recovers the pulse of a flat operator index by bisect on the cumulative counts; the model tags
   every flat operator with its pulse position: the two agree *)
Lemma pulse_of_index_flatten : forall (hs : list ham) p ind dflt, ind < length (flatten_from oper coef p hs) ->
  p + (fix go (cs : list nat) (i : nat) : nat :=
     match cs with [] => 0 | c :: r => if c <=? i then S (go r (i - c)) else 0 end)
    (map (fun h => length (h_entries h)) hs) ind = fst (nth ind (flatten_from oper coef p hs) dflt).
Proof.
  induction hs as [|h hs IH]; intros p ind dflt H; simpl in *. lia.
  rewrite app_length, map_length in H.
  destruct (length (h_entries h) <=? ind) eqn:E.
  - apply Nat.leb_le in E. rewrite app_nth2 by (rewrite map_length; lia). rewrite map_length.
    rewrite <- IH by lia. lia.
  - apply Nat.leb_gt in E. rewrite app_nth1 by (rewrite map_length; lia).
    rewrite (nth_indep _ dflt (p, snd dflt)) by (rewrite map_length; lia).
    rewrite (map_nth (pair p)). simpl. lia.
Qed.
Theorem bisect_is_pulse_position (hs : list ham) ind dflt : ind < length (flatten hs) ->
  pulse_of_index oper coef hs ind = fst (nth ind (flatten hs) dflt).
Proof.
  intros H. unfold pulse_of_index, pulse_idx, accumulate.
  rewrite (bisect_accumulate _ 0 ind). apply (pulse_of_index_flatten hs 0 ind dflt H).
Qed.

(* ---- distinct operators ---- *)
Lemma mem_op_true o l : mem_op o l = true <-> In o l.
Proof.
  unfold Concat.mem_op. rewrite existsb_exists. split.
  - intros (x & Hx & E). destruct (oeqb_spec o x); [subst; auto|discriminate].
  - intros H. exists o. split; auto. destruct (oeqb_spec o o); auto.
Qed.
Lemma firsts_in : forall l seen pe, In pe (firsts seen l) -> In pe l /\ ~ In (e_op (snd pe)) seen.
Proof.
  induction l as [|x l IH]; intros seen pe H; simpl in *. contradiction.
  destruct (mem_op (e_op (snd x)) seen) eqn:E.
  - destruct (IH _ _ H). auto.
  - destruct H as [->|H].
    + split; auto. intros Hin. apply mem_op_true in Hin. congruence.
    + destruct (IH _ _ H) as [H1 H2]. split; auto. intros Hin. apply H2. right; assumption.
Qed.
Lemma firsts_nodup : forall l seen, NoDup (map (fun u => e_op (snd u)) (firsts seen l)).
Proof.
  induction l as [|x l IH]; intros seen; simpl. constructor.
  destruct (mem_op (e_op (snd x)) seen); auto.
  simpl. constructor; auto. intros Hin. apply in_map_iff in Hin. destruct Hin as (u & Eu & Hu).
  apply firsts_in in Hu. destruct Hu as [_ Hu]. apply Hu. left. symmetry; assumption.
Qed.
Lemma firsts_complete : forall l seen pe, In pe l ->
  In (e_op (snd pe)) seen \/ exists u, In u (firsts seen l) /\ e_op (snd u) = e_op (snd pe).
Proof.
  induction l as [|x l IH]; intros seen pe H; simpl in *. contradiction.
  destruct (mem_op (e_op (snd x)) seen) eqn:E.
  - destruct H as [->|H]. left. apply mem_op_true; assumption. apply IH; assumption.
  - destruct H as [->|H]. right. exists pe. split; [left|]; reflexivity.
    destruct (IH (e_op (snd x) :: seen) pe H) as [[Hx|Hs]|(u & Hu & Eu)].
    + right. exists x. split; [left; reflexivity|assumption].
    + left; assumption.
    + right. exists u. split; [right|]; assumption.
Qed.
(* the distinct operators: no operator twice, every operator of every input pulse exactly once *)
Theorem uniq_nodup hs : NoDup (map (fun u => e_op (snd u)) (uniq hs)).
Proof. apply firsts_nodup. Qed.
Theorem uniq_complete hs pe : In pe (flatten hs) -> exists u, In u (uniq hs) /\ e_op (snd u) = e_op (snd pe).
Proof. intros H. destruct (firsts_complete (flatten hs) [] pe H) as [[]|]; assumption. Qed.
Theorem uniq_sub hs u : In u (uniq hs) -> In u (flatten hs).
Proof. intros H. apply firsts_in in H. tauto. Qed.

(* ---- rejection: one operator under two identifiers ---- *)
Theorem oper_ids_clash_spec hs :
  oper_ids_clash hs = true <->
  exists pe1 pe2, In pe1 (flatten hs) /\ In pe2 (flatten hs) /\ e_op (snd pe1) = e_op (snd pe2) /\ e_id (snd pe1) <> e_id (snd pe2).
Proof.
  unfold Concat.oper_ids_clash. rewrite existsb_exists. split.
  - intros (u & Hu & H). apply existsb_exists in H. destruct H as (pe & Hpe & H).
    apply andb_true_iff in H. destruct H as [H1 H2].
    exists u, pe. repeat split; auto. apply uniq_sub; assumption.
    destruct (oeqb_spec (e_op (snd u)) (e_op (snd pe))); [assumption|discriminate].
    intros E. rewrite E in H2. rewrite String.eqb_refl in H2. discriminate.
  - intros (pe1 & pe2 & H1 & H2 & Eo & Ei).
    destruct (uniq_complete hs pe1 H1) as (u & Hu & Eu).
    exists u. split; auto. apply existsb_exists.
    destruct (String.eqb_spec (e_id (snd u)) (e_id (snd pe1))) as [E1|N1].
    + exists pe2. split; auto. apply andb_true_iff. split.
      * rewrite Eu, Eo. destruct (oeqb_spec (e_op (snd pe2)) (e_op (snd pe2))); auto.
      * rewrite E1. destruct (String.eqb_spec (e_id (snd pe1)) (e_id (snd pe2))); auto.
    + exists pe1. split; auto. apply andb_true_iff. split.
      * rewrite Eu. destruct (oeqb_spec (e_op (snd pe1)) (e_op (snd pe1))); auto.
      * destruct (String.eqb_spec (e_id (snd u)) (e_id (snd pe1))); auto.
Qed.
Theorem concat_rejects_oper_ids k hs : oper_ids_clash hs = true -> concatenate_hamiltonian k hs = inl (EOperIds k).
Proof. intros H. unfold Concat.concatenate_hamiltonian, Concat.concatenate_hamiltonian_gen. rewrite H. reflexivity. Qed.

(* ---- rows ---- *)
Definition inferable (row : list (option coef)) : bool :=
  negb (has_none row) || match somes row with [] => true | c :: rest => forallb (ceqb c) rest end.
Lemma complete_row_control row : complete_row Control row = Some (fill czero row).
Proof. reflexivity. Qed.
Lemma complete_row_noise row :
  complete_row Noise row = if inferable row then complete_row Noise row else None.
Proof.
  unfold inferable, Concat.complete_row. destruct (has_none row); simpl; auto.
  destruct (somes row); auto. destruct (forallb (ceqb c) l); auto.
Qed.
Lemma complete_row_some k row : (k = Control \/ inferable row = true) -> exists r, complete_row k row = Some r.
Proof.
  intros [->|H]. eexists; reflexivity.
  destruct k. eexists; reflexivity.
  unfold inferable in H. unfold Concat.complete_row. destruct (has_none row); simpl in *; [|eexists; reflexivity].
  destruct (somes row); [eexists; reflexivity|]. rewrite H. eexists; reflexivity.
Qed.
Lemma complete_row_none row : inferable row = false -> complete_row Noise row = None.
Proof.
  unfold inferable, Concat.complete_row. destruct (has_none row); simpl; [|discriminate].
  destruct (somes row); [discriminate|]. intros ->. reflexivity.
Qed.
(* what a completed row is: the row with its gaps filled by one value c; c = 0 for control, and for noise
   (if there is a gap) c is the common value of all sensitivities present *)
Lemma complete_row_spec k row r : complete_row k row = Some r ->
  exists c, r = fill c row /\ (k = Control -> c = czero) /\
            (k = Noise -> has_none row = true -> somes row <> [] ->
             exists rest, somes row = c :: rest /\ forallb (ceqb c) rest = true).
Proof.
  destruct k; simpl.
  - intros H; inversion H. exists czero. split; [reflexivity|]. split; [reflexivity|]. intros E; discriminate E.
  - destruct (has_none row) eqn:Hn.
    + destruct (somes row) as [|c rest] eqn:Es.
      * intros H; inversion H. exists czero. split; [reflexivity|]. split; [intros E; discriminate E|].
        intros _ _ N. contradiction.
      * destruct (forallb (ceqb c) rest) eqn:Ef; [|discriminate].
        intros H; inversion H. exists c. split; [reflexivity|]. split; [intros E; discriminate E|].
        intros _ _ _. exists rest. auto.
    + intros H; inversion H. exists czero. split; [reflexivity|]. split; [intros E; discriminate E|].
      intros _ E. discriminate E.
Qed.

Lemma fill_concat {X} (c : X) : forall l, fill c (List.concat l) = List.concat (map (fill c) l).
Proof. unfold fill. intros l. rewrite concat_map. reflexivity. Qed.
Lemma fill_somes {X} (c : X) row : fill c (map Some row) = row.
Proof. unfold fill. rewrite map_map. simpl. apply map_id. Qed.
Lemma fill_nones {X} (c : X) n : fill c (repeat None n) = repeat c n.
Proof. unfold fill. induction n; simpl; congruence. Qed.

(* one pulse's window of the row of operator o: its own coefficients, or the fill value where absent *)
Definition window (c : coef) (o : oper) (h : ham) : list coef :=
  match find (fun e => oeqb o (e_op e)) (h_entries h) with Some e => e_row e | None => repeat c (h_ndt h) end.
Lemma fill_row_of c hs o : fill c (row_of hs o) = List.concat (map (window c o) hs).
Proof.
  unfold Concat.row_of. rewrite fill_concat. rewrite map_map. f_equal. apply map_ext. intros h.
  unfold window. destruct (find _ _). apply fill_somes. apply fill_nones.
Qed.

Lemma all_some_forall2 {X Y} (f : X -> option Y) : forall l rows,
  all_some (map f l) = Some rows -> Forall2 (fun x r => f x = Some r) l rows.
Proof.
  induction l as [|x l IH]; intros rows H; simpl in *.
  - inversion H. constructor.
  - destruct (f x) eqn:E; [|discriminate]. destruct (all_some (map f l)) eqn:E2; [|discriminate].
    inversion H; subst. constructor; auto.
Qed.
Lemma all_some_exists {X Y} (f : X -> option Y) : forall l,
  (forall x, In x l -> exists r, f x = Some r) -> exists rows, all_some (map f l) = Some rows.
Proof.
  induction l as [|x l IH]; intros H; simpl. eexists; reflexivity.
  destruct (H x (or_introl eq_refl)) as (r & ->).
  destruct IH as (rows & ->). intros y Hy. apply H. right; assumption. eexists; reflexivity.
Qed.
Lemma all_some_none {X Y} (f : X -> option Y) : forall l x, In x l -> f x = None -> all_some (map f l) = None.
Proof.
  induction l as [|y l IH]; intros x H E; simpl in *. contradiction.
  destruct H as [->|H]. rewrite E. reflexivity.
  destruct (f y); auto. rewrite (IH x H E). reflexivity.
Qed.

Definition sorted_uniq (hs : list ham) := sort_by (new_id hs) (uniq hs).

(* structure of a successful result *)
Lemma concat_result k hs r : concatenate_hamiltonian k hs = inr r ->
  oper_ids_clash hs = false /\ has_dup_str (map (new_id hs) (uniq hs)) = false /\
  r_ops r = map (fun u => e_op (snd u)) (sorted_uniq hs) /\
  r_ids r = map (new_id hs) (sorted_uniq hs) /\
  Forall2 (fun u row => complete_row k (row_of hs (e_op (snd u))) = Some row) (sorted_uniq hs) (r_rows r) /\
  r_map r = mappings_from oper coef oeqb current hs 0 hs.
Proof.
  unfold Concat.concatenate_hamiltonian, Concat.concatenate_hamiltonian_gen. destruct (oper_ids_clash hs); [discriminate|].
  simpl. destruct (has_dup_str _); [discriminate|].
  fold (sorted_uniq hs).
  destruct (all_some _) as [rows|] eqn:E; [|discriminate].
  intros H; inversion H; subst; simpl. repeat split; auto.
  apply (all_some_forall2 (fun u => complete_row k (row_of hs (e_op (snd u))))). exact E.
Qed.

Lemma mappings_keys mc hs : forall l p,
  map (map fst) (mappings_from oper coef oeqb mc hs p l) = map (fun h => map (@e_id oper coef) (h_entries h)) l.
Proof.
  induction l as [|h l IH]; intros p; simpl. reflexivity.
  f_equal; [|apply IH]. unfold mapping_of. rewrite map_map. reflexivity.
Qed.

(* ---- the concatenated Hamiltonian is the inputs' Hamiltonians played one after another ---- *)
Theorem concat_hamiltonian_denote k hs r : concatenate_hamiltonian k hs = inr r ->
  (* operators: the distinct operators of the inputs, each once *)
  NoDup (r_ops r) /\
  (forall pe, In pe (flatten hs) -> In (e_op (snd pe)) (r_ops r)) /\
  (forall o, In o (r_ops r) -> exists pe, In pe (flatten hs) /\ e_op (snd pe) = o) /\
  (* identifiers: sorted, no identifier twice *)
  Sorted (fun a b => String.leb a b = true) (r_ids r) /\ NoDup (r_ids r) /\
  (* coefficients: per operator, the windows of the pulses one after another *)
  Forall2 (fun o row => exists c, row = List.concat (map (window c o) hs) /\ (k = Control -> c = czero) /\
                                  (k = Noise -> has_none (row_of hs o) = true -> somes (row_of hs o) <> [] ->
                                   exists rest, somes (row_of hs o) = c :: rest /\ forallb (ceqb c) rest = true))
          (r_ops r) (r_rows r) /\
  (* one identifier mapping per pulse, defined on exactly the identifiers of that pulse *)
  map (map fst) (r_map r) = map (fun h => map (@e_id oper coef) (h_entries h)) hs.
Proof.
  intros H. destruct (concat_result k hs r H) as (Hc & Hd & Ho & Hi & Hr & Hm).
  assert (Hperm : Permutation (sorted_uniq hs) (uniq hs)) by apply sort_by_perm.
  split; [|split; [|split; [|split; [|split; [|split]]]]].
  - rewrite Ho. apply (Permutation_NoDup (l := map (fun u => e_op (snd u)) (uniq hs))).
    + apply Permutation_map. symmetry. exact Hperm.
    + apply uniq_nodup.
  - intros pe Hpe. destruct (uniq_complete hs pe Hpe) as (u & Hu & Eu).
    rewrite Ho, <- Eu. apply (in_map (fun u => e_op (snd u))). apply (Permutation_in u (Permutation_sym Hperm)). exact Hu.
  - intros o Hin. rewrite Ho in Hin. apply in_map_iff in Hin. destruct Hin as (u & Eu & Hu).
    exists u. split; auto. apply uniq_sub. apply (Permutation_in u Hperm). exact Hu.
  - rewrite Hi. apply sorted_map. apply sort_by_sorted.
  - rewrite Hi. apply (Permutation_NoDup (l := map (new_id hs) (uniq hs))).
    + apply Permutation_map. symmetry. exact Hperm.
    + apply has_dup_nodup. exact Hd.
  - rewrite Ho. clear -Hr oeqb_spec. induction Hr as [|u row us rows Hu Hr IH]; simpl; constructor; auto.
    destruct (complete_row_spec _ _ _ Hu) as (c & E & Hc & Hn).
    exists c. split; [|split]; auto. rewrite E. apply fill_row_of.
  - rewrite Hm. apply mappings_keys.
Qed.

(* ---- success and rejection, completely characterised ---- *)
Theorem concat_succeeds k hs :
  oper_ids_clash hs = false -> has_dup_str (map (new_id hs) (uniq hs)) = false ->
  (k = Control \/ forall u, In u (uniq hs) -> inferable (row_of hs (e_op (snd u))) = true) ->
  exists r, concatenate_hamiltonian k hs = inr r.
Proof.
  intros Hc Hd Hk. unfold Concat.concatenate_hamiltonian, Concat.concatenate_hamiltonian_gen. rewrite Hc, Hd. simpl. cbv zeta.
  destruct (all_some_exists (fun u => complete_row k (row_of hs (e_op (snd u)))) (sort_by (new_id hs) (uniq hs))) as (rows & E).
  - intros u Hu. apply complete_row_some. destruct Hk as [->|Hk]; [left; reflexivity|right].
    apply Hk. apply (Permutation_in u (sort_by_perm (new_id hs) (uniq hs))). exact Hu.
  - rewrite E. eexists; reflexivity.
Qed.
Theorem concat_rejects_dup_ids k hs :
  oper_ids_clash hs = false -> has_dup_str (map (new_id hs) (uniq hs)) = true ->
  concatenate_hamiltonian k hs = inl (EDupIds k).
Proof. intros Hc Hd. unfold Concat.concatenate_hamiltonian, Concat.concatenate_hamiltonian_gen. rewrite Hc, Hd. reflexivity. Qed.
Theorem concat_rejects_no_infer hs u :
  oper_ids_clash hs = false -> has_dup_str (map (new_id hs) (uniq hs)) = false -> In u (uniq hs) -> inferable (row_of hs (e_op (snd u))) = false ->
  concatenate_hamiltonian Noise hs = inl ENoInfer.
Proof.
  intros Hc Hd Hu Hi. unfold Concat.concatenate_hamiltonian, Concat.concatenate_hamiltonian_gen. rewrite Hc, Hd. simpl. cbv zeta.
  rewrite (all_some_none (fun u => complete_row Noise (row_of hs (e_op (snd u)))) _ u).
  - reflexivity.
  - apply (Permutation_in u (Permutation_sym (sort_by_perm (new_id hs) (uniq hs)))). exact Hu.
  - apply complete_row_none. exact Hi.
Qed.
End Ham.

(* ---- the compatibility hypotheses are satisfiable: two pulses sharing Z, the second also holding X with a
        constant sensitivity; identifiers clash on purpose ---- *)
Definition ex_hams : list (ham nat Z) :=
  [mkHam 2 [mkEntry 3 "N" [1; 2]%Z]; mkHam 1 [mkEntry 1 "N" [5]%Z; mkEntry 3 "Nz" [7]%Z]].
Example concat_example_rejected :
  concatenate_hamiltonian nat Z Nat.eqb Z.eqb 0%Z Noise ex_hams = inl (EOperIds Noise).
Proof. reflexivity. Qed.
Definition ex_hams2 : list (ham nat Z) :=
  [mkHam 2 [mkEntry 3 "N" [1; 2]%Z]; mkHam 1 [mkEntry 1 "M" [5]%Z; mkEntry 3 "N" [7]%Z]].
Definition ex_result2 : hresult nat Z :=
  mkHRes [1; 3] ["M"; "N"]%string [[5; 5; 5]; [1; 2; 7]]%Z [[("N", "N")]; [("M", "M"); ("N", "N")]]%string.
Example concat_example_succeeds :
  concatenate_hamiltonian nat Z Nat.eqb Z.eqb 0%Z Noise ex_hams2 = inr ex_result2.
Proof. reflexivity. Qed.


(* ================================================================================================ *)
(* 4. identifier mapping of the current code: every identifier of every pulse is mapped to the identifier
      its operator carries in the result; consequently the boolean masks of concatenate are consistent     *)
Lemma NoDup_map_inj {A B} (f : A -> B) : forall l a b, NoDup (map f l) -> In a l -> In b l -> f a = f b -> a = b.
Proof.
  induction l as [|x l IH]; intros a b N Ha Hb E; simpl in *. contradiction.
  inversion N as [|? ? Hx Hl]; subst.
  destruct Ha as [->|Ha], Hb as [->|Hb]; auto.
  - exfalso. apply Hx. rewrite E. apply in_map. assumption.
  - exfalso. apply Hx. rewrite <- E. apply in_map. assumption.
Qed.
Lemma combine_map {A B C} (f : A -> B) (g : A -> C) : forall l, combine (map f l) (map g l) = map (fun x => (f x, g x)) l.
Proof. induction l; simpl; congruence. Qed.
(* number of elements of a duplicate-free list [us] that belong to a duplicate-free sublist [pid] *)
Lemma count_members (pid us : list string) : NoDup pid -> NoDup us -> incl pid us ->
  count_true (map (fun u => mem_str u pid) us) = length pid.
Proof.
  intros Np Nu Hincl. unfold count_true.
  assert (E : filter (fun b : bool => b) (map (fun u => mem_str u pid) us) = map (fun u => mem_str u pid) (filter (fun u => mem_str u pid) us)).
  { clear. induction us as [|u us IH]; simpl. reflexivity. destruct (mem_str u pid) eqn:E; simpl; rewrite ?E, IH; reflexivity. }
  rewrite E, map_length.
  apply Nat.le_antisymm.
  - apply NoDup_incl_length. apply NoDup_filter; assumption.
    intros x Hx. apply filter_In in Hx. apply mem_str_in. tauto.
  - apply NoDup_incl_length. assumption.
    intros x Hx. apply filter_In. split. apply Hincl; assumption. apply mem_str_in; assumption.
Qed.

Section Mapping.
Variables oper coef : Type.
Variable oeqb : oper -> oper -> bool.
Variable ceqb : coef -> coef -> bool.
Variable czero : coef.
Hypothesis oeqb_spec : forall a b, reflect (a = b) (oeqb a b).

Notation entry := (entry oper coef).
Notation ham := (ham oper coef).
Notation flatten := (flatten oper coef).
Notation flatten_from := (flatten_from oper coef).
Notation uniq := (uniq oper coef oeqb).
Notation new_id := (new_id oper coef oeqb).
Notation oper_ids_clash := (oper_ids_clash oper coef oeqb).
Notation mapped_id := (mapped_id oper coef oeqb).
Notation mappings_from := (mappings_from oper coef oeqb).
Notation first_pulse := (first_pulse oper coef oeqb).
Notation concatenate_hamiltonian := (concatenate_hamiltonian oper coef oeqb ceqb czero).

Lemma rep_found hs p e : In (p, e) (flatten hs) ->
  exists u, find (fun u => oeqb (e_op e) (e_op (snd u))) (uniq hs) = Some u /\ In u (uniq hs) /\ e_op (snd u) = e_op e.
Proof.
  intros Hin. destruct (find (fun u => oeqb (e_op e) (e_op (snd u))) (uniq hs)) as [u|] eqn:E.
  - exists u. split; auto. apply find_some in E. destruct E as [Hu Ho]. split; auto.
    destruct (oeqb_spec (e_op e) (e_op (snd u))); [auto|discriminate].
  - exfalso. destruct (uniq_complete oper coef oeqb oeqb_spec hs (p, e) Hin) as (u & Hu & Eu).
    pose proof (find_none _ _ E u Hu) as N. simpl in N, Eu. rewrite Eu in N.
    destruct (oeqb_spec (e_op e) (e_op e)); [discriminate|auto].
Qed.
Lemma rep_id hs p e u : oper_ids_clash hs = false -> In (p, e) (flatten hs) -> In u (uniq hs) ->
  e_op (snd u) = e_op e -> e_id (snd u) = e_id e.
Proof.
  intros Hc Hin Hu Eo. destruct (String.eqb_spec (e_id (snd u)) (e_id e)) as [|N]; auto. exfalso.
  assert (C : oper_ids_clash hs = true).
  { eapply oper_ids_clash_spec; eauto. exists u, (p, e). repeat split; auto. eapply uniq_sub; eauto. }
  congruence.
Qed.
(* CURRENT code: the identifier stored for entry e of ANY pulse is the new identifier of e's operator *)
Theorem mapped_id_is_new_id hs p e : oper_ids_clash hs = false -> In (p, e) (flatten hs) ->
  exists u, In u (uniq hs) /\ e_op (snd u) = e_op e /\ mapped_id current hs p e = new_id hs u.
Proof.
  intros Hc Hin. destruct (rep_found hs p e Hin) as (u & Ef & Hu & Eo).
  exists u. split; [exact Hu|]. split; [exact Eo|].
  unfold Concat.mapped_id, Concat.new_id, Concat.first_pulse. rewrite Ef. simpl.
  rewrite (rep_id hs p e u Hc Hin Hu Eo). reflexivity.
Qed.
(* PRE-FIX code: the same only for the pulse holding the operator first *)
Theorem mapped_id_prefix_first_holder hs p e : oper_ids_clash hs = false -> In (p, e) (flatten hs) ->
  first_pulse hs (e_op e) = Some p ->
  exists u, In u (uniq hs) /\ e_op (snd u) = e_op e /\ mapped_id prefix hs p e = new_id hs u.
Proof.
  intros Hc Hin Hf. destruct (rep_found hs p e Hin) as (u & Ef & Hu & Eo).
  exists u. split; [exact Hu|]. split; [exact Eo|].
  unfold Concat.first_pulse in Hf. rewrite Ef in Hf. simpl in Hf. inversion Hf as [Hp].
  unfold Concat.mapped_id, Concat.new_id, Concat.first_pulse. rewrite Ef. simpl. rewrite Hp, Nat.eqb_refl.
  rewrite (rep_id hs p e u Hc Hin Hu Eo). reflexivity.
Qed.

(* every identifier of every input pulse is mapped to the identifier its operator carries in the result *)
Theorem mapping_sound k hs r p e : concatenate_hamiltonian k hs = inr r -> In (p, e) (flatten hs) ->
  In (e_op e, mapped_id current hs p e) (combine (r_ops r) (r_ids r)).
Proof.
  intros H Hin. destruct (concat_result oper coef oeqb ceqb czero k hs r H) as (Hc & Hd & Ho & Hi & _).
  destruct (mapped_id_is_new_id hs p e Hc Hin) as (u & Hu & Eo & Em).
  rewrite Ho, Hi, combine_map, Em, <- Eo.
  apply (in_map (fun x => (e_op (snd x), new_id hs x))).
  apply (Permutation_in u (Permutation_sym (sort_by_perm (new_id hs) (uniq hs)))). exact Hu.
Qed.

(* ---- the masks of concatenate ---- *)
Lemma in_mapped mc hs : forall l p x,
  In x (List.concat (pulse_ids (mappings_from mc hs p l))) <->
  exists q e, In (q, e) (flatten_from p l) /\ x = mapped_id mc hs q e.
Proof.
  induction l as [|h l IH]; intros p x; simpl.
  - split; [contradiction|]. intros (q & e & [] & _).
  - rewrite in_app_iff, nodup_str_in, IH. unfold mapping_of. rewrite map_map. simpl. rewrite in_map_iff.
    split.
    + intros [(e & E & He)|(q & e & He & E)].
      * exists p, e. split; auto. apply in_or_app. left. apply in_map. assumption.
      * exists q, e. split; auto. apply in_or_app. right. assumption.
    + intros (q & e & He & E). apply in_app_or in He. destruct He as [He|He].
      * left. apply in_map_iff in He. destruct He as (e' & E' & He'). injection E' as Ep Ee. subst q e. exists e'. auto.
      * right. exists q, e. auto.
Qed.

Theorem lens_ok_current k hs r : concatenate_hamiltonian k hs = inr r -> lens_ok (r_ids r) (r_map r) = true.
Proof.
  intros H. destruct (concat_result oper coef oeqb ceqb czero k hs r H) as (Hc & Hd & Ho & Hi & Hr & Hm).
  destruct (concat_hamiltonian_denote oper coef oeqb ceqb czero oeqb_spec k hs r H) as (_ & _ & _ & _ & Nids & _).
  unfold lens_ok, unique_ids. apply Nat.eqb_eq.
  rewrite (Permutation_length (sort_by_perm (fun s => s) _)).
  assert (Hperm : Permutation (sort_by (new_id hs) (uniq hs)) (uniq hs)) by apply sort_by_perm.
  apply Nat.le_antisymm.
  - apply NoDup_incl_length. apply nodup_str_nodup.
    intros x Hx. apply (proj1 (nodup_str_in _ _)) in Hx. rewrite Hm in Hx. apply (proj1 (in_mapped _ _ _ _ _)) in Hx.
    destruct Hx as (q & e & He & ->).
    destruct (mapped_id_is_new_id hs q e Hc He) as (u & Hu & _ & ->).
    rewrite Hi. apply in_map. apply (Permutation_in u (Permutation_sym Hperm)). exact Hu.
  - apply NoDup_incl_length. exact Nids.
    intros x Hx. rewrite Hi in Hx. apply in_map_iff in Hx. destruct Hx as (u & <- & Hu).
    apply (Permutation_in u Hperm) in Hu.
    apply (proj2 (nodup_str_in _ _)). rewrite Hm. apply (proj2 (in_mapped _ _ _ _ _)).
    assert (Hf : In u (flatten hs)) by (eapply uniq_sub; eauto).
    exists (fst u), (snd u). rewrite <- surjective_pairing. split; [exact Hf|].
    destruct (mapped_id_is_new_id hs (fst u) (snd u) Hc) as (u' & Hu' & Eo & ->).
    { rewrite <- surjective_pairing. exact Hf. }
    f_equal. apply (NoDup_map_inj (fun u => e_op (snd u)) (uniq hs)); auto.
    eapply uniq_nodup; eauto.
Qed.

(* for the current code the stored identifier does not depend on the position of the pulse *)
Lemma mapped_current_indep hs p q e : mapped_id current hs p e = mapped_id current hs q e.
Proof. reflexivity. Qed.
Lemma in_flatten_from : forall (l : list ham) p h e, In h l -> In e (h_entries h) -> exists q, In (q, e) (flatten_from p l).
Proof.
  induction l as [|h0 l IH]; intros p h e Hh He; simpl in *. contradiction.
  destruct Hh as [->|Hh].
  - exists p. apply in_or_app. left. apply in_map. assumption.
  - destruct (IH (S p) h e Hh He) as (q & Hq). exists q. apply in_or_app. right. assumption.
Qed.
Lemma nodup_str_id l : NoDup l -> nodup_str l = l.
Proof.
  induction 1 as [|x l Hx Hl IH]; simpl. reflexivity.
  rewrite IH. rewrite (proj2 (mem_str_false x l) Hx). reflexivity.
Qed.
(* within one pulse with duplicate-free identifiers the mapped identifiers are duplicate-free *)
Lemma mapped_nodup hs p h : oper_ids_clash hs = false -> has_dup_str (map (new_id hs) (uniq hs)) = false ->
  (forall e, In e (h_entries h) -> exists q, In (q, e) (flatten hs)) -> NoDup (map (@e_id oper coef) (h_entries h)) ->
  NoDup (map (fun e => mapped_id current hs p e) (h_entries h)).
Proof.
  intros Hc Hd Hin. induction (h_entries h) as [|e l IH]; simpl; intros N. constructor.
  inversion N as [|? ? Hx Hl]; subst. constructor.
  - intros Hm. apply in_map_iff in Hm. destruct Hm as (e' & E & He').
    destruct (Hin e (or_introl eq_refl)) as (q & Hq). destruct (Hin e' (or_intror He')) as (q' & Hq').
    rewrite (mapped_current_indep hs p q e), (mapped_current_indep hs p q' e') in E.
    destruct (mapped_id_is_new_id hs q e Hc Hq) as (u & Hu & Eo & Em).
    destruct (mapped_id_is_new_id hs q' e' Hc Hq') as (u' & Hu' & Eo' & Em').
    rewrite Em, Em' in E.
    assert (Euu : u' = u) by (apply (NoDup_map_inj (new_id hs) (uniq hs)); auto; apply has_dup_nodup; assumption).
    subst u'. apply Hx.
    assert (Eid : e_id e' = e_id e).
    { rewrite <- (rep_id hs q e u Hc Hq Hu Eo). rewrite <- (rep_id hs q' e' u Hc Hq' Hu Eo'). reflexivity. }
    rewrite <- Eid. apply in_map. assumption.
  - apply IH; auto. intros e' He'. apply Hin. right; assumption.
Qed.

Lemma rows_ok_gen hs us : oper_ids_clash hs = false -> has_dup_str (map (new_id hs) (uniq hs)) = false ->
  NoDup us -> (forall q e, In (q, e) (flatten hs) -> In (mapped_id current hs q e) us) ->
  forall l p, (forall h, In h l -> In h hs) -> Forall (fun h => NoDup (map (@e_id oper coef) (h_entries h))) l ->
  forallb (fun x => count_true (fst x) =? snd x)
          (combine (map (fun pid => map (fun u => mem_str u pid) us) (pulse_ids (mappings_from current hs p l)))
                   (map (fun h => length (h_entries h)) l)) = true.
Proof.
  intros Hc Hd Nus Hall. induction l as [|h l IH]; intros p Hsub Hwf; simpl. reflexivity.
  inversion Hwf as [|? ? Hh Hl]; subst.
  assert (Hin : forall e, In e (h_entries h) -> exists q, In (q, e) (flatten hs)).
  { intros e He. apply (in_flatten_from hs 0 h e); auto. apply Hsub. left; reflexivity. }
  apply andb_true_iff. split.
  - apply Nat.eqb_eq. unfold mapping_of. rewrite map_map. simpl.
    pose proof (mapped_nodup hs p h Hc Hd Hin Hh) as Nm.
    rewrite (nodup_str_id _ Nm). rewrite count_members; auto.
    + apply map_length.
    + intros x Hx. apply in_map_iff in Hx. destruct Hx as (e & <- & He).
      destruct (Hin e He) as (q & Hq). rewrite (mapped_current_indep hs p q e). apply Hall. assumption.
  - apply IH; auto. intros h' Hh'. apply Hsub. right; assumption.
Qed.

Theorem rows_ok_current k hs r : concatenate_hamiltonian k hs = inr r ->
  Forall (fun h => NoDup (map (@e_id oper coef) (h_entries h))) hs ->
  rows_ok (r_map r) (map (fun h => length (h_entries h)) hs) = true.
Proof.
  intros H Hwf. destruct (concat_result oper coef oeqb ceqb czero k hs r H) as (Hc & Hd & Ho & Hi & Hr & Hm).
  unfold rows_ok, present. rewrite Hm.
  apply (rows_ok_gen hs (unique_ids (mappings_from current hs 0 hs)) Hc Hd); auto.
  - unfold unique_ids. apply (Permutation_NoDup (l := nodup_str (List.concat (pulse_ids (mappings_from current hs 0 hs))))).
    symmetry. apply sort_by_perm. apply nodup_str_nodup.
  - intros q e He. unfold unique_ids.
    apply (Permutation_in _ (Permutation_sym (sort_by_perm (fun s => s) _))).
    apply (proj2 (nodup_str_in _ _)). apply (proj2 (in_mapped _ _ _ _ _)). exists q, e. auto.
Qed.

(* ---- FULL decision soundness of the current code on the complete pipeline ---- *)
Notation pulse := (pulse oper coef).
Notation concatenate_outcome := (concatenate_outcome oper coef oeqb ceqb czero).
Definition wf_pulse (p : pulse) : Prop := NoDup (map (@e_id oper coef) (h_entries (p_noise p))).
Definition incompatible (e : cerror) : Prop := e = EShapes \/ e = EBases \/ exists h, e = EHam h.

Theorem decision_sound (ps : list pulse) cs o : Forall wf_pulse ps ->
  match concatenate_outcome ps cs o with
  | ORaise e => incompatible e \/
                (e = EForced \/ e = ENoFreqPC) /\ o_omega o = None /\ all_equal_nat (grids_consulted cs) = false
  | ORet r => (freq_dependent r = true -> grid_known cs o r) /\ (o_pc o = true -> t_pc r = true) /\
              (o_pc o = true -> o_gen o = true -> t_pcgen r = true) /\ (o_ff o = TTrue -> t_ff r = true /\ t_cm r = true)
  | OCopy => True
  end.
Proof.
  intros Hwf. unfold Concat.concatenate_outcome, concatenate_outcome_gen.
  assert (G : match (match concatenate_without_ff_gen oper coef oeqb ceqb czero current ps with
                     | inl e => ORaise e
                     | inr np => decide_gen current (r_ids (n_noise np)) (r_map (n_noise np))
                                   (map (fun p => length (h_entries (p_noise p))) ps) cs o end) with
              | ORaise e => incompatible e \/
                  (e = EForced \/ e = ENoFreqPC) /\ o_omega o = None /\ all_equal_nat (grids_consulted cs) = false
              | ORet r => (freq_dependent r = true -> grid_known cs o r) /\ (o_pc o = true -> t_pc r = true) /\
                  (o_pc o = true -> o_gen o = true -> t_pcgen r = true) /\ (o_ff o = TTrue -> t_ff r = true /\ t_cm r = true)
              | OCopy => True end).
  { unfold concatenate_without_ff_gen.
    destruct (negb (all_equal_nat (map (@p_d oper coef) ps))). { left. left. reflexivity. }
    destruct (negb (all_equal_nat (map (@p_basis oper coef) ps))). { left. right. left. reflexivity. }
    destruct (concatenate_hamiltonian_gen oper coef oeqb ceqb czero current Control (map (@p_ctrl oper coef) ps)) as [e|c].
    { left. right. right. eexists; reflexivity. }
    destruct (concatenate_hamiltonian_gen oper coef oeqb ceqb czero current Noise (map (@p_noise oper coef) ps)) as [e|n] eqn:En.
    { left. right. right. eexists; reflexivity. }
    simpl.
    pose proof (lens_ok_current Noise _ n En) as Hl.
    assert (Hr : rows_ok (r_map n) (map (fun p => length (h_entries (p_noise p))) ps) = true).
    { rewrite <- (map_map (@p_noise oper coef) (fun h => length (h_entries h))).
      apply (rows_ok_current Noise _ n En). apply Forall_map. exact Hwf. }
    pose proof (decide_sound_current (r_ids n) (r_map n) (map (fun p => length (h_entries (p_noise p))) ps) cs o Hl Hr) as S.
    unfold decide in S.
    destruct (decide_gen current _ _ _ cs o); auto. }
  destruct ps as [|p0 [|p1 ps']]; auto.
Qed.
End Mapping.

(* ================================================================================================ *)
(* 5. the theorems depend on the mechanisms: with any one of them switched off (the pre-fix code) the
      statements fail.  Operators are tagged by numbers (1 = X/2, 2 = Y/2, 3 = Z/2), coefficients are integers. *)
Definition mech_no_map : mech := mkMech false true true true.
Definition mech_no_dup : mech := mkMech true false true true.
Definition mech_no_pc : mech := mkMech true true false true.
Definition mech_no_rows : mech := mkMech true true true false.

Definition wE (o : nat) (s : string) (r : list Z) : entry nat Z := mkEntry o s r.
Definition wP (c : list (entry nat Z)) (n : list (entry nat Z)) : pulse nat Z := mkPulse 2 0 (mkHam 1 c) (mkHam 1 n) [1%Z].
Definition w_outcome (mc : mech) := concatenate_outcome_gen nat Z Nat.eqb Z.eqb 0%Z mc.
Definition w_ham (mc : mech) := concatenate_hamiltonian_gen nat Z Nat.eqb Z.eqb 0%Z mc Noise.
Definition no_cache := mkCache None false false.
Definition omega_only := mkCache (Some 0) false false.

(* (i) disjoint noise-operator sets *)
Definition wit_disjoint : list (pulse nat Z) :=
  [wP [wE 1 "A" [1%Z]] [wE 3 "N" [1%Z]]; wP [wE 2 "B" [1%Z]] [wE 1 "M" [1%Z]]].
(* (ii) identifier N on Z, X, Z *)
Definition wit_stale : list (pulse nat Z) :=
  [wP [wE 1 "A" [1%Z]] [wE 3 "N" [1%Z]]; wP [wE 2 "A" [1%Z]] [wE 1 "N" [1%Z]]; wP [wE 1 "A" [1%Z]] [wE 3 "N" [1%Z]]].
(* (iii) a shared noise operator, equal grids cached (no control matrix), calc_filter_function = None *)
Definition wit_shared : list (pulse nat Z) :=
  [wP [wE 1 "A" [1%Z]] [wE 3 "N" [1%Z]]; wP [wE 2 "B" [1%Z]] [wE 3 "N" [1%Z]]].
(* (iv) identifier N on Z, X, Z together with a shared operator *)
Definition wit_stale_shared : list (pulse nat Z) :=
  [wP [wE 1 "A" [1%Z]] [wE 2 "M" [1%Z]; wE 3 "N" [1%Z]]; wP [wE 2 "A" [1%Z]] [wE 2 "M" [1%Z]; wE 1 "N" [1%Z]];
   wP [wE 1 "A" [1%Z]] [wE 2 "M" [1%Z]; wE 3 "N" [1%Z]]].
Definition opts_pc := mkOpts TNone (Some 0) false true.

Definition pc_silently_missing (mc : mech) (ps : list (pulse nat Z)) (cs : list cache) (o : opts) : Prop :=
  o_pc o = true /\ exists r, w_outcome mc ps cs o = ORet r /\ t_pc r = false.
Definition pc_available (mc : mech) (ps : list (pulse nat Z)) (cs : list cache) (o : opts) : Prop :=
  exists r, w_outcome mc ps cs o = ORet r /\ t_pc r = true.

(* without m_pc_general: correlations silently missing for disjoint sets and on the calc_filter_function=None exit *)
Theorem decision_pc_prefix_refuted_disjoint : pc_silently_missing mech_no_pc wit_disjoint [no_cache; no_cache] opts_pc.
Proof. split; [reflexivity|]. eexists; split; [vm_compute; reflexivity|reflexivity]. Qed.
Theorem decision_pc_prefix_refuted_no_control_matrix :
  pc_silently_missing mech_no_pc wit_shared [omega_only; omega_only] (mkOpts TNone None false true).
Proof. split; [reflexivity|]. eexists; split; [vm_compute; reflexivity|reflexivity]. Qed.
(* without m_map_all: the stale mapping of the third pulse yields masks of the wrong length (IndexError), and with
   all mechanisms off (the pinned snapshot) the correlations are silently missing *)
Theorem decision_prefix_refuted_stale_mapping_crash :
  w_outcome mech_no_map wit_stale [no_cache; no_cache; no_cache] opts_pc = ORaise EIndexError /\
  w_outcome mech_no_map wit_stale_shared [no_cache; no_cache; no_cache] (mkOpts TTrue (Some 0) false false) = ORaise EIndexError.
Proof. split; vm_compute; reflexivity. Qed.
Theorem decision_pc_prefix_refuted_stale_mapping : pc_silently_missing prefix wit_stale [no_cache; no_cache; no_cache] opts_pc.
Proof. split; [reflexivity|]. eexists; split; [vm_compute; reflexivity|reflexivity]. Qed.
(* the same inputs on the current code *)
Example decision_pc_current_witnesses :
  pc_available current wit_disjoint [no_cache; no_cache] opts_pc /\
  pc_available current wit_shared [omega_only; omega_only] (mkOpts TNone None false true) /\
  pc_available current wit_stale [no_cache; no_cache; no_cache] opts_pc /\
  pc_available current wit_stale_shared [no_cache; no_cache; no_cache] opts_pc.
Proof. repeat split; (eexists; split; [vm_compute; reflexivity|reflexivity]). Qed.
Theorem decision_sound_prefix_refuted : ~ decision_sound_stmt mech_no_pc.
Proof.
  intros H.
  specialize (H ["N"%string] [[("N", "N")]; [("N", "N")]]%string [1; 1] [omega_only; omega_only] (mkOpts TNone None false true)).
  vm_compute in H. destruct H as [_ H]. specialize (H eq_refl). discriminate.
Qed.

(* identifier mapping *)
Definition lookup (s : string) (m : list (string * string)) : option string :=
  option_map snd (find (fun kv => String.eqb s (fst kv)) m).
Definition id_of_op (r : hresult nat Z) (o : nat) : option string :=
  option_map snd (find (fun oi => Nat.eqb o (fst oi)) (combine (r_ops r) (r_ids r))).
Definition mapping_sound_on (mc : mech) (hs : list (ham nat Z)) : Prop :=
  forall r, w_ham mc hs = inr r ->
  forall j h e, nth_error hs j = Some h -> In e (h_entries h) ->
    lookup (e_id e) (nth j (r_map r) []) = id_of_op r (e_op e).
Definition hams_ZXZ : list (ham nat Z) :=
  [mkHam 1 [mkEntry 3 "N" [1%Z]]; mkHam 1 [mkEntry 1 "N" [1%Z]]; mkHam 1 [mkEntry 3 "N" [1%Z]]].
Theorem mapping_prefix_refuted : ~ mapping_sound_on mech_no_map hams_ZXZ.
Proof.
  intros H. unfold mapping_sound_on in H.
  specialize (H _ eq_refl 2 (mkHam 1 [mkEntry 3 "N"%string [1%Z]]) (mkEntry 3 "N"%string [1%Z]) eq_refl (or_introl eq_refl)).
  vm_compute in H. discriminate.
Qed.
Example mapping_current_ZXZ : mapping_sound_on current hams_ZXZ.
Proof.
  intros r Hr j h e Hj He. vm_compute in Hr. inversion Hr; subst; clear Hr.
  destruct j as [|[|[|j]]]; simpl in Hj.
  - inversion Hj; subst. simpl in He. destruct He as [<-|[]]. reflexivity.
  - inversion Hj; subst. simpl in He. destruct He as [<-|[]]. reflexivity.
  - inversion Hj; subst. simpl in He. destruct He as [<-|[]]. reflexivity.
  - destruct j; discriminate.
Qed.

(* suffix collision: N on Z and X, and an operator already called N_0 *)
Definition hams_dup : list (ham nat Z) :=
  [mkHam 1 [mkEntry 3 "N" [1%Z]]; mkHam 1 [mkEntry 1 "N" [1%Z]; mkEntry 2 "N_0" [1%Z]]].
Theorem dup_ids_prefix_refuted : exists r, w_ham mech_no_dup hams_dup = inr r /\ has_dup_str (r_ids r) = true.
Proof. eexists. split; [vm_compute; reflexivity|reflexivity]. Qed.
Example dup_ids_current_rejected : w_ham current hams_dup = inl (EDupIds Noise).
Proof. reflexivity. Qed.

(* rows: control_matrix_atomic[i, idx] = pulse.get_control_matrix(omega)[order] must put the control-matrix row of
   an operator of pulse i into the row of the same operator of the new pulse *)
Definition rows_sound_on (mc : mech) (hs : list (ham nat Z)) : Prop :=
  forall r, w_ham mc hs = inr r ->
  forall i h row k, nth_error hs i = Some h ->
    nth_error (nth i (row_sources_gen mc (r_ids r) (r_map r)) []) row = Some (Some k) ->
    option_map (@e_op nat Z) (nth_error (h_entries h) k) = nth_error (r_ops r) row.
(* identifiers 'X', 'XY': the suffix changes the order ('XY' < 'X_0') *)
Definition hams_flip : list (ham nat Z) :=
  [mkHam 1 [mkEntry 3 "X" [1%Z]; mkEntry 2 "XY" [1%Z]]; mkHam 1 [mkEntry 1 "X" [1%Z]; mkEntry 2 "XY" [1%Z]]].
Theorem row_assignment_prefix_refuted : ~ rows_sound_on mech_no_rows hams_flip.
Proof.
  intros H. unfold rows_sound_on in H.
  specialize (H _ eq_refl 0 (mkHam 1 [mkEntry 3 "X"%string [1%Z]; mkEntry 2 "XY"%string [1%Z]]) 0 0 eq_refl eq_refl).
  vm_compute in H. discriminate.
Qed.
Example row_assignment_current_flip : rows_sound_on current hams_flip.
Proof.
  intros r Hr i h row k Hi Hrow. vm_compute in Hr. inversion Hr; subst; clear Hr.
  destruct i as [|[|i]]; simpl in Hi.
  - inversion Hi; subst. destruct row as [|[|[|row]]]; vm_compute in Hrow; try (destruct row; discriminate); inversion Hrow; subst; reflexivity.
  - inversion Hi; subst. destruct row as [|[|[|row]]]; vm_compute in Hrow; try (destruct row; discriminate); inversion Hrow; subst; reflexivity.
  - destruct i; discriminate.
Qed.

(* regrouping after a clash is REJECTED by the current code (open finding): the inner concatenation renames the
   operator Z from X to X_0, the third pulse still calls it X *)
Fixpoint entries_of (ops : list nat) (ids : list string) (rows : list (list Z)) : list (entry nat Z) :=
  match ops, ids, rows with o :: ops', i :: ids', r :: rows' => mkEntry o i r :: entries_of ops' ids' rows' | _, _, _ => [] end.
Definition ham_of (n : nat) (r : hresult nat Z) : ham nat Z := mkHam n (entries_of (r_ops r) (r_ids r) (r_rows r)).
Definition hams_regroup : list (ham nat Z) :=
  [mkHam 1 [mkEntry 3 "X" [1%Z]; mkEntry 2 "XY" [1%Z]]; mkHam 1 [mkEntry 1 "X" [1%Z]; mkEntry 2 "XY" [1%Z]];
   mkHam 1 [mkEntry 3 "X" [1%Z]; mkEntry 2 "XY" [1%Z]]].
Theorem regroup_after_clash_refuted :
  (exists r, w_ham current hams_regroup = inr r) /\
  exists r12, w_ham current (firstn 2 hams_regroup) = inr r12 /\
              w_ham current [ham_of 2 r12; nth 2 hams_regroup (mkHam 0 [])] = inl (EOperIds Noise).
Proof. split; [eexists; vm_compute; reflexivity|]. eexists. split; vm_compute; reflexivity. Qed.
