(* Theorems about the bookkeeping model of concatenation (Model/Concat.v). *)
From Coq Require Import String Ascii List ZArith Bool Arith Lia Sorting.Sorted Sorting.Permutation.
From FF Require Import Model.Concat.
Import ListNotations.

(* ================================================================================================ *)
(* 1. decision logic of concatenate                                                                   *)

Lemma compress_in {X} : forall (l : list X) (m : list bool) x, In x (compress l m) -> In x l.
Proof.
  induction l as [|y l IH]; intros m x H; destruct m as [|b m]; simpl in *; try contradiction.
  destruct b; simpl in H.
  - destruct H as [->|H]; [left; reflexivity | right; eapply IH; eauto].
  - right; eapply IH; eauto.
Qed.
Lemma grids_of_in cs w : In w (grids_of cs) <-> In (Some w) (map c_omega cs).
Proof.
  unfold grids_of. induction (map c_omega cs) as [|x l IH]; simpl. tauto.
  destruct x as [v|]; simpl.
  - rewrite IH. split. intros [->|H]; auto. intros [H|H]; [inversion H; auto|auto].
  - rewrite IH. split; [auto|]. intros [H|H]; [discriminate|auto].
Qed.
Lemma grids_compress_in cs m w : In w (grids_of (compress cs m)) -> In w (grids_of cs).
Proof.
  rewrite !grids_of_in, !in_map_iff. intros (c & E & H). exists c. split; auto. eapply compress_in; eauto.
Qed.

Definition freq_dependent (r : ret) : bool := t_cm r || t_ff r || t_ffgen r || t_pc r || t_pcgen r.
(* the grid the returned pulse is cached for is the one supplied, or (none supplied) one cached on an input *)
Definition grid_known (cs : list cache) (o : opts) (r : ret) : Prop :=
  exists w, t_grid r = Some w /\ (o_omega o = Some w \/ (o_omega o = None /\ In w (grids_of cs))).

Lemma finish_ret en lo ro o w r : finish en lo ro o w = ORet r -> t_grid r = Some w.
Proof. unfold finish. destruct (negb en), (negb lo), (negb ro); intros H; inversion H; reflexivity. Qed.
Lemma finish_raise en lo ro o w e : finish en lo ro o w = ORaise e -> e = EIndexError \/ e = EShapeError.
Proof. unfold finish. destruct (negb en), (negb lo), (negb ro); intros H; inversion H; auto. Qed.

(* never a frequency-dependent attribute without known frequencies; what is cached is cached for the
   grid that was used *)
Theorem decide_grid_sound new_ids maps nn cs o r :
  decide new_ids maps nn cs o = ORet r -> freq_dependent r = true -> grid_known cs o r.
Proof.
  unfold decide, grid_known.
  destruct (is_tfalse (o_ff o) && negb (o_pc o)).
  { intros H; inversion H; subst. discriminate. }
  destruct (o_omega o) as [w|].
  - intros H _. exists w. split; auto. eapply finish_ret; eauto.
  - set (cms := map c_cm cs). set (any_cm := existsb (fun b => b) cms).
    set (gs := if any_cm then grids_of (compress cs cms) else grids_of cs).
    destruct (negb (all_equal_nat gs)).
    { destruct (is_ttrue (o_ff o)); [discriminate|]. destruct (o_pc o); [discriminate|].
      intros H; inversion H; subst; discriminate. }
    destruct (is_tnone (o_ff o) && (negb (equal_n_opers maps) || negb any_cm)).
    { intros H; inversion H; subst; discriminate. }
    destruct gs as [|w gs'] eqn:E.
    { intros H; inversion H; subst; discriminate. }
    intros H _. exists w. split. eapply finish_ret; eauto. right. split; auto.
    assert (Hin : In w gs) by (rewrite E; left; reflexivity).
    subst gs. destruct any_cm; auto. eapply grids_compress_in; eauto.
Qed.

(* the two documented ValueErrors are raised only when no frequencies were supplied and the cached grids
   are unknown or inconsistent; any other exception of the model is one of the two unintended crashes *)
Definition grids_consulted (cs : list cache) : list nat :=
  if existsb (fun b => b) (map c_cm cs) then grids_of (compress cs (map c_cm cs)) else grids_of cs.
Theorem decide_raise_sound new_ids maps nn cs o e :
  decide new_ids maps nn cs o = ORaise e ->
  ((e = EForced /\ o_ff o = TTrue) \/ (e = ENoFreqPC /\ o_pc o = true)) /\ o_omega o = None /\ all_equal_nat (grids_consulted cs) = false
  \/ e = EIndexError \/ e = EShapeError.
Proof.
  unfold decide, grids_consulted.
  destruct (is_tfalse (o_ff o) && negb (o_pc o)); [discriminate|].
  destruct (o_omega o) as [w|].
  - intros H. right. eapply finish_raise; eauto.
  - destruct (all_equal_nat _) eqn:E; simpl.
    + destruct (is_tnone (o_ff o) && _); [discriminate|].
      destruct (if existsb _ _ then _ else _); [discriminate|].
      intros H. right. eapply finish_raise; eauto.
    + destruct (o_ff o) eqn:Eff; simpl.
      * destruct (o_pc o) eqn:Epc; [|discriminate]. intros H; inversion H. left. auto.
      * intros H; inversion H. left; auto.
      * destruct (o_pc o) eqn:Epc; [|discriminate]. intros H; inversion H. left. auto.
Qed.

(* correlations: on the atomic path they are available whenever requested *)
Theorem decide_pc_atomic new_ids maps nn cs o r :
  decide new_ids maps nn cs o = ORet r -> t_path r = PAtomic -> t_pc r = o_pc o /\ t_pcgen r = (o_pc o && o_gen o).
Proof.
  unfold decide.
  destruct (is_tfalse (o_ff o) && negb (o_pc o)). { intros H; inversion H; subst; discriminate. }
  assert (F : forall w, finish (equal_n_opers maps) (length (unique_ids maps) =? length new_ids)
                 (forallb (fun x => count_true (fst x) =? snd x) (combine (present maps) nn)) o w = ORet r ->
              t_path r = PAtomic -> t_pc r = o_pc o /\ t_pcgen r = (o_pc o && o_gen o)).
  { intros w. unfold finish. destruct (negb _); [intros H; inversion H; subst; discriminate|].
    destruct (negb _); [discriminate|]. destruct (negb _); [discriminate|].
    intros H; inversion H; subst; auto. }
  destruct (o_omega o) as [w|]; [apply F|].
  destruct (negb (all_equal_nat _)).
  { destruct (is_ttrue (o_ff o)); [discriminate|]. destruct (o_pc o); [discriminate|].
    intros H; inversion H; subst; discriminate. }
  destruct (is_tnone (o_ff o) && _). { intros H; inversion H; subst; discriminate. }
  destruct (if existsb _ _ then _ else _); [intros H; inversion H; subst; discriminate|]. apply F.
Qed.

(* the full soundness statement of the property for the decision logic *)
Definition decision_sound_stmt : Prop :=
  forall new_ids maps nn cs o,
    match decide new_ids maps nn cs o with
    | ORaise e => (e = EForced \/ e = ENoFreqPC) /\ o_omega o = None /\ all_equal_nat (grids_consulted cs) = false
    | ORet r => (freq_dependent r = true -> grid_known cs o r) /\ (o_pc o = true -> t_pc r = true)
    | OCopy => True
    end.

(* ---- witnesses: operators are tagged by numbers (1 = X/2, 2 = Y/2, 3 = Z/2), coefficients are integers ---- *)
Definition wE (o : nat) (s : string) (r : list Z) : entry nat Z := mkEntry o s r.
Definition wP (c : list (entry nat Z)) (n : list (entry nat Z)) : pulse nat Z := mkPulse 2 0 (mkHam 1 c) (mkHam 1 n) [1%Z].
Definition w_outcome := concatenate_outcome nat Z Nat.eqb Z.eqb 0%Z.
Definition no_cache := mkCache None false false.

(* (i) disjoint noise-operator sets *)
Definition wit_disjoint : list (pulse nat Z) :=
  [wP [wE 1 "A" [1%Z]] [wE 3 "N" [1%Z]]; wP [wE 2 "B" [1%Z]] [wE 1 "M" [1%Z]]].
(* (ii) identifier N on Z, X, Z: the mapping of the third pulse stays {N: N} *)
Definition wit_stale : list (pulse nat Z) :=
  [wP [wE 1 "A" [1%Z]] [wE 3 "N" [1%Z]]; wP [wE 2 "A" [1%Z]] [wE 1 "N" [1%Z]]; wP [wE 1 "A" [1%Z]] [wE 3 "N" [1%Z]]].
(* (iii) a shared noise operator, equal grids cached (no control matrix), calc_filter_function = None *)
Definition wit_shared : list (pulse nat Z) :=
  [wP [wE 1 "A" [1%Z]] [wE 3 "N" [1%Z]]; wP [wE 2 "B" [1%Z]] [wE 3 "N" [1%Z]]].
Definition omega_only := mkCache (Some 0) false false.
(* (iv) stale mapping together with a shared operator: boolean mask of the wrong length *)
Definition wit_stale_shared : list (pulse nat Z) :=
  [wP [wE 1 "A" [1%Z]] [wE 2 "M" [1%Z]; wE 3 "N" [1%Z]]; wP [wE 2 "A" [1%Z]] [wE 2 "M" [1%Z]; wE 1 "N" [1%Z]];
   wP [wE 1 "A" [1%Z]] [wE 2 "M" [1%Z]; wE 3 "N" [1%Z]]].

Definition pc_silently_missing (ps : list (pulse nat Z)) (cs : list cache) (o : opts) : Prop :=
  o_pc o = true /\ exists r, w_outcome ps cs o = ORet r /\ t_pc r = false.

Theorem decision_pc_refuted_disjoint :
  pc_silently_missing wit_disjoint [no_cache; no_cache] (mkOpts TNone (Some 0) false true).
Proof. split; [reflexivity|]. eexists; split; [vm_compute; reflexivity|reflexivity]. Qed.
Theorem decision_pc_refuted_stale_mapping :
  pc_silently_missing wit_stale [no_cache; no_cache; no_cache] (mkOpts TNone (Some 0) false true).
Proof. split; [reflexivity|]. eexists; split; [vm_compute; reflexivity|reflexivity]. Qed.
Theorem decision_pc_refuted_no_control_matrix :
  pc_silently_missing wit_shared [omega_only; omega_only] (mkOpts TNone None false true).
Proof. split; [reflexivity|]. eexists; split; [vm_compute; reflexivity|reflexivity]. Qed.
(* the same inputs with a control matrix cached do yield the correlations: the witness is not vacuous *)
Example decision_pc_available_with_control_matrix :
  exists r, w_outcome wit_shared [mkCache (Some 0) true true; omega_only] (mkOpts TNone None false true) = ORet r /\ t_pc r = true.
Proof. eexists; split; [vm_compute; reflexivity|reflexivity]. Qed.
Theorem decision_crash_refuted :
  w_outcome wit_stale_shared [no_cache; no_cache; no_cache] (mkOpts TTrue (Some 0) false false) = ORaise EIndexError.
Proof. vm_compute. reflexivity. Qed.

Theorem decision_sound_refuted : ~ decision_sound_stmt.
Proof.
  intros H.
  (* the data of witness (iii) as seen by [decide] *)
  specialize (H ["N"%string] [[("N", "N")]; [("N", "N")]]%string [1; 1] [omega_only; omega_only] (mkOpts TNone None false true)).
  vm_compute in H. destruct H as [_ H]. specialize (H eq_refl). discriminate.
Qed.

(* ================================================================================================ *)
(* 2. sorting by identifier                                                                           *)
Section SortFacts.
Context {A : Type} (key : A -> string).
Definition le_key (x y : A) : Prop := String.leb (key x) (key y) = true.

Lemma leb_total a b : String.leb a b = false -> String.leb b a = true.
Proof.
  unfold String.leb. rewrite (String.compare_antisym b a).
  destruct (String.compare a b); simpl; congruence.
Qed.
Lemma insert_by_perm x : forall l, Permutation (insert_by key x l) (x :: l).
Proof.
  induction l as [|y l IH]; simpl. reflexivity.
  destruct (String.leb (key x) (key y)). reflexivity.
  rewrite IH. apply perm_swap.
Qed.
Lemma sort_by_perm : forall l, Permutation (sort_by key l) l.
Proof. induction l; simpl. constructor. rewrite insert_by_perm. constructor. assumption. Qed.
Lemma insert_by_sorted x : forall l, Sorted le_key l -> Sorted le_key (insert_by key x l).
Proof.
  induction l as [|y l IH]; intros H; simpl.
  - repeat constructor.
  - destruct (String.leb (key x) (key y)) eqn:E.
    + constructor; auto.
    + inversion H as [|? ? Hs Hh]; subst. constructor; auto.
      destruct l as [|z l]; simpl.
      * constructor. apply leb_total; assumption.
      * destruct (String.leb (key x) (key z)); constructor.
        apply leb_total; assumption. inversion Hh; assumption.
Qed.
Lemma sort_by_sorted : forall l, Sorted le_key (sort_by key l).
Proof. induction l; simpl. constructor. apply insert_by_sorted; assumption. Qed.
Lemma sorted_map : forall l, Sorted le_key l -> Sorted (fun a b => String.leb a b = true) (map key l).
Proof.
  induction 1 as [|u l Hs IH Hh]; simpl; constructor; auto.
  destruct Hh as [|v l' Hv]; simpl; constructor. exact Hv.
Qed.
End SortFacts.

(* bisect on the cumulative operator counts recovers the pulse position *)
Lemma bisect_accumulate : forall (counts : list nat) acc ind,
  bisect_right (accumulate_from acc counts) (acc + ind) =
  (fix go (cs : list nat) (i : nat) : nat :=
     match cs with [] => 0 | c :: r => if c <=? i then S (go r (i - c)) else 0 end) counts ind.
Proof.
  induction counts as [|c r IH]; intros acc ind; simpl. reflexivity.
  destruct (c <=? ind) eqn:E.
  - apply Nat.leb_le in E. assert (H : acc + c <=? acc + ind = true) by (apply Nat.leb_le; lia). rewrite H.
    f_equal. replace (acc + ind) with (acc + c + (ind - c)) by lia. apply IH.
  - apply Nat.leb_gt in E. assert (H : acc + c <=? acc + ind = false) by (apply Nat.leb_gt; lia). rewrite H. reflexivity.
Qed.

(* ================================================================================================ *)
(* 3. _concatenate_Hamiltonian                                                                        *)
Section Ham.
Variables oper coef : Type.
Variable oeqb : oper -> oper -> bool.
Variable ceqb : coef -> coef -> bool.
Variable czero : coef.
Hypothesis oeqb_spec : forall a b, reflect (a = b) (oeqb a b).

Notation entry := (entry oper coef).
Notation ham := (ham oper coef).
Notation flatten := (flatten oper coef).
Notation uniq := (uniq oper coef oeqb).
Notation firsts := (firsts oper coef oeqb).
Notation mem_op := (mem_op oper oeqb).
Notation row_of := (row_of oper coef oeqb).
Notation complete_row := (complete_row coef ceqb czero).
Notation concatenate_hamiltonian := (concatenate_hamiltonian oper coef oeqb ceqb czero).
Notation new_id := (new_id oper coef oeqb).
Notation oper_ids_clash := (oper_ids_clash oper coef oeqb).

(* the code recovers the pulse of a flat operator index by bisect on the cumulative counts; the model tags
   every flat operator with its pulse position: the two agree *)
Lemma pulse_of_index_flatten : forall (hs : list ham) p ind dflt, ind < length (flatten_from oper coef p hs) ->
  p + (fix go (cs : list nat) (i : nat) : nat :=
     match cs with [] => 0 | c :: r => if c <=? i then S (go r (i - c)) else 0 end)
    (map (fun h => length (h_entries h)) hs) ind = fst (nth ind (flatten_from oper coef p hs) dflt).
Proof.
  induction hs as [|h hs IH]; intros p ind dflt H; simpl in *. lia.
  rewrite app_length, map_length in H.
  destruct (length (h_entries h) <=? ind) eqn:E.
  - apply Nat.leb_le in E. rewrite app_nth2 by (rewrite map_length; lia). rewrite map_length.
    rewrite <- IH by lia. lia.
  - apply Nat.leb_gt in E. rewrite app_nth1 by (rewrite map_length; lia).
    rewrite (nth_indep _ dflt (p, snd dflt)) by (rewrite map_length; lia).
    rewrite (map_nth (pair p)). simpl. lia.
Qed.
Theorem bisect_is_pulse_position (hs : list ham) ind dflt : ind < length (flatten hs) ->
  pulse_of_index oper coef hs ind = fst (nth ind (flatten hs) dflt).
Proof.
  intros H. unfold pulse_of_index, pulse_idx, accumulate.
  rewrite (bisect_accumulate _ 0 ind). apply (pulse_of_index_flatten hs 0 ind dflt H).
Qed.

(* ---- distinct operators ---- *)
Lemma mem_op_true o l : mem_op o l = true <-> In o l.
Proof.
  unfold Concat.mem_op. rewrite existsb_exists. split.
  - intros (x & Hx & E). destruct (oeqb_spec o x); [subst; auto|discriminate].
  - intros H. exists o. split; auto. destruct (oeqb_spec o o); auto.
Qed.
Lemma firsts_in : forall l seen pe, In pe (firsts seen l) -> In pe l /\ ~ In (e_op (snd pe)) seen.
Proof.
  induction l as [|x l IH]; intros seen pe H; simpl in *. contradiction.
  destruct (mem_op (e_op (snd x)) seen) eqn:E.
  - destruct (IH _ _ H). auto.
  - destruct H as [->|H].
    + split; auto. intros Hin. apply mem_op_true in Hin. congruence.
    + destruct (IH _ _ H) as [H1 H2]. split; auto. intros Hin. apply H2. right; assumption.
Qed.
Lemma firsts_nodup : forall l seen, NoDup (map (fun u => e_op (snd u)) (firsts seen l)).
Proof.
  induction l as [|x l IH]; intros seen; simpl. constructor.
  destruct (mem_op (e_op (snd x)) seen); auto.
  simpl. constructor; auto. intros Hin. apply in_map_iff in Hin. destruct Hin as (u & Eu & Hu).
  apply firsts_in in Hu. destruct Hu as [_ Hu]. apply Hu. left. symmetry; assumption.
Qed.
Lemma firsts_complete : forall l seen pe, In pe l ->
  In (e_op (snd pe)) seen \/ exists u, In u (firsts seen l) /\ e_op (snd u) = e_op (snd pe).
Proof.
  induction l as [|x l IH]; intros seen pe H; simpl in *. contradiction.
  destruct (mem_op (e_op (snd x)) seen) eqn:E.
  - destruct H as [->|H]. left. apply mem_op_true; assumption. apply IH; assumption.
  - destruct H as [->|H]. right. exists pe. split; [left|]; reflexivity.
    destruct (IH (e_op (snd x) :: seen) pe H) as [[Hx|Hs]|(u & Hu & Eu)].
    + right. exists x. split; [left; reflexivity|assumption].
    + left; assumption.
    + right. exists u. split; [right|]; assumption.
Qed.
(* the distinct operators: no operator twice, every operator of every input pulse exactly once *)
Theorem uniq_nodup hs : NoDup (map (fun u => e_op (snd u)) (uniq hs)).
Proof. apply firsts_nodup. Qed.
Theorem uniq_complete hs pe : In pe (flatten hs) -> exists u, In u (uniq hs) /\ e_op (snd u) = e_op (snd pe).
Proof. intros H. destruct (firsts_complete (flatten hs) [] pe H) as [[]|]; assumption. Qed.
Theorem uniq_sub hs u : In u (uniq hs) -> In u (flatten hs).
Proof. intros H. apply firsts_in in H. tauto. Qed.

(* ---- rejection: one operator under two identifiers ---- *)
Theorem oper_ids_clash_spec hs :
  oper_ids_clash hs = true <->
  exists pe1 pe2, In pe1 (flatten hs) /\ In pe2 (flatten hs) /\ e_op (snd pe1) = e_op (snd pe2) /\ e_id (snd pe1) <> e_id (snd pe2).
Proof.
  unfold Concat.oper_ids_clash. rewrite existsb_exists. split.
  - intros (u & Hu & H). apply existsb_exists in H. destruct H as (pe & Hpe & H).
    apply andb_true_iff in H. destruct H as [H1 H2].
    exists u, pe. repeat split; auto. apply uniq_sub; assumption.
    destruct (oeqb_spec (e_op (snd u)) (e_op (snd pe))); [assumption|discriminate].
    intros E. rewrite E in H2. rewrite String.eqb_refl in H2. discriminate.
  - intros (pe1 & pe2 & H1 & H2 & Eo & Ei).
    destruct (uniq_complete hs pe1 H1) as (u & Hu & Eu).
    exists u. split; auto. apply existsb_exists.
    destruct (String.eqb_spec (e_id (snd u)) (e_id (snd pe1))) as [E1|N1].
    + exists pe2. split; auto. apply andb_true_iff. split.
      * rewrite Eu, Eo. destruct (oeqb_spec (e_op (snd pe2)) (e_op (snd pe2))); auto.
      * rewrite E1. destruct (String.eqb_spec (e_id (snd pe1)) (e_id (snd pe2))); auto.
    + exists pe1. split; auto. apply andb_true_iff. split.
      * rewrite Eu. destruct (oeqb_spec (e_op (snd pe1)) (e_op (snd pe1))); auto.
      * destruct (String.eqb_spec (e_id (snd u)) (e_id (snd pe1))); auto.
Qed.
Theorem concat_rejects_oper_ids k hs : oper_ids_clash hs = true -> concatenate_hamiltonian k hs = inl (EOperIds k).
Proof. intros H. unfold Concat.concatenate_hamiltonian. rewrite H. reflexivity. Qed.

(* ---- rows ---- *)
Definition inferable (row : list (option coef)) : bool :=
  negb (has_none row) || match somes row with [] => true | c :: rest => forallb (ceqb c) rest end.
Lemma complete_row_control row : complete_row Control row = Some (fill czero row).
Proof. reflexivity. Qed.
Lemma complete_row_noise row :
  complete_row Noise row = if inferable row then complete_row Noise row else None.
Proof.
  unfold inferable, Concat.complete_row. destruct (has_none row); simpl; auto.
  destruct (somes row); auto. destruct (forallb (ceqb c) l); auto.
Qed.
Lemma complete_row_some k row : (k = Control \/ inferable row = true) -> exists r, complete_row k row = Some r.
Proof.
  intros [->|H]. eexists; reflexivity.
  destruct k. eexists; reflexivity.
  unfold inferable in H. unfold Concat.complete_row. destruct (has_none row); simpl in *; [|eexists; reflexivity].
  destruct (somes row); [eexists; reflexivity|]. rewrite H. eexists; reflexivity.
Qed.
Lemma complete_row_none row : inferable row = false -> complete_row Noise row = None.
Proof.
  unfold inferable, Concat.complete_row. destruct (has_none row); simpl; [|discriminate].
  destruct (somes row); [discriminate|]. intros ->. reflexivity.
Qed.
(* what a completed row is: the row with its gaps filled by one value c; c = 0 for control, and for noise
   (if there is a gap) c is the common value of all sensitivities present *)
Lemma complete_row_spec k row r : complete_row k row = Some r ->
  exists c, r = fill c row /\ (k = Control -> c = czero) /\
            (k = Noise -> has_none row = true -> somes row <> [] ->
             exists rest, somes row = c :: rest /\ forallb (ceqb c) rest = true).
Proof.
  destruct k; simpl.
  - intros H; inversion H. exists czero. split; [reflexivity|]. split; [reflexivity|]. intros E; discriminate E.
  - destruct (has_none row) eqn:Hn.
    + destruct (somes row) as [|c rest] eqn:Es.
      * intros H; inversion H. exists czero. split; [reflexivity|]. split; [intros E; discriminate E|].
        intros _ _ N. contradiction.
      * destruct (forallb (ceqb c) rest) eqn:Ef; [|discriminate].
        intros H; inversion H. exists c. split; [reflexivity|]. split; [intros E; discriminate E|].
        intros _ _ _. exists rest. auto.
    + intros H; inversion H. exists czero. split; [reflexivity|]. split; [intros E; discriminate E|].
      intros _ E. discriminate E.
Qed.

Lemma fill_concat {X} (c : X) : forall l, fill c (List.concat l) = List.concat (map (fill c) l).
Proof. unfold fill. intros l. rewrite concat_map. reflexivity. Qed.
Lemma fill_somes {X} (c : X) row : fill c (map Some row) = row.
Proof. unfold fill. rewrite map_map. simpl. apply map_id. Qed.
Lemma fill_nones {X} (c : X) n : fill c (repeat None n) = repeat c n.
Proof. unfold fill. induction n; simpl; congruence. Qed.

(* one pulse's window of the row of operator o: its own coefficients, or the fill value where absent *)
Definition window (c : coef) (o : oper) (h : ham) : list coef :=
  match find (fun e => oeqb o (e_op e)) (h_entries h) with Some e => e_row e | None => repeat c (h_ndt h) end.
Lemma fill_row_of c hs o : fill c (row_of hs o) = List.concat (map (window c o) hs).
Proof.
  unfold Concat.row_of. rewrite fill_concat. rewrite map_map. f_equal. apply map_ext. intros h.
  unfold window. destruct (find _ _). apply fill_somes. apply fill_nones.
Qed.

Lemma all_some_forall2 {X Y} (f : X -> option Y) : forall l rows,
  all_some (map f l) = Some rows -> Forall2 (fun x r => f x = Some r) l rows.
Proof.
  induction l as [|x l IH]; intros rows H; simpl in *.
  - inversion H. constructor.
  - destruct (f x) eqn:E; [|discriminate]. destruct (all_some (map f l)) eqn:E2; [|discriminate].
    inversion H; subst. constructor; auto.
Qed.
Lemma all_some_exists {X Y} (f : X -> option Y) : forall l,
  (forall x, In x l -> exists r, f x = Some r) -> exists rows, all_some (map f l) = Some rows.
Proof.
  induction l as [|x l IH]; intros H; simpl. eexists; reflexivity.
  destruct (H x (or_introl eq_refl)) as (r & ->).
  destruct IH as (rows & ->). intros y Hy. apply H. right; assumption. eexists; reflexivity.
Qed.
Lemma all_some_none {X Y} (f : X -> option Y) : forall l x, In x l -> f x = None -> all_some (map f l) = None.
Proof.
  induction l as [|y l IH]; intros x H E; simpl in *. contradiction.
  destruct H as [->|H]. rewrite E. reflexivity.
  destruct (f y); auto. rewrite (IH x H E). reflexivity.
Qed.

Definition sorted_uniq (hs : list ham) := sort_by (new_id hs) (uniq hs).

(* structure of a successful result *)
Lemma concat_result k hs r : concatenate_hamiltonian k hs = inr r ->
  oper_ids_clash hs = false /\
  r_ops r = map (fun u => e_op (snd u)) (sorted_uniq hs) /\
  r_ids r = map (new_id hs) (sorted_uniq hs) /\
  Forall2 (fun u row => complete_row k (row_of hs (e_op (snd u))) = Some row) (sorted_uniq hs) (r_rows r) /\
  r_map r = mappings_from oper coef oeqb hs 0 hs.
Proof.
  unfold Concat.concatenate_hamiltonian. destruct (oper_ids_clash hs); [discriminate|].
  fold (sorted_uniq hs).
  destruct (all_some _) as [rows|] eqn:E; [|discriminate].
  intros H; inversion H; subst; simpl. repeat split; auto.
  apply (all_some_forall2 (fun u => complete_row k (row_of hs (e_op (snd u))))). exact E.
Qed.

Lemma mappings_keys hs : forall l p,
  map (map fst) (mappings_from oper coef oeqb hs p l) = map (fun h => map (@e_id oper coef) (h_entries h)) l.
Proof.
  induction l as [|h l IH]; intros p; simpl. reflexivity.
  f_equal; [|apply IH]. unfold mapping_of. rewrite map_map. reflexivity.
Qed.

(* ---- the concatenated Hamiltonian is the inputs' Hamiltonians played one after another ---- *)
Theorem concat_hamiltonian_denote k hs r : concatenate_hamiltonian k hs = inr r ->
  (* operators: the distinct operators of the inputs, each once *)
  NoDup (r_ops r) /\
  (forall pe, In pe (flatten hs) -> In (e_op (snd pe)) (r_ops r)) /\
  (forall o, In o (r_ops r) -> exists pe, In pe (flatten hs) /\ e_op (snd pe) = o) /\
  (* identifiers: sorted *)
  Sorted (fun a b => String.leb a b = true) (r_ids r) /\
  (* coefficients: per operator, the windows of the pulses one after another *)
  Forall2 (fun o row => exists c, row = List.concat (map (window c o) hs) /\ (k = Control -> c = czero) /\
                                  (k = Noise -> has_none (row_of hs o) = true -> somes (row_of hs o) <> [] ->
                                   exists rest, somes (row_of hs o) = c :: rest /\ forallb (ceqb c) rest = true))
          (r_ops r) (r_rows r) /\
  (* one identifier mapping per pulse, defined on exactly the identifiers of that pulse *)
  map (map fst) (r_map r) = map (fun h => map (@e_id oper coef) (h_entries h)) hs.
Proof.
  intros H. destruct (concat_result k hs r H) as (Hc & Ho & Hi & Hr & Hm).
  assert (Hperm : Permutation (sorted_uniq hs) (uniq hs)) by apply sort_by_perm.
  split; [|split; [|split; [|split; [|split]]]].
  - rewrite Ho. apply (Permutation_NoDup (l := map (fun u => e_op (snd u)) (uniq hs))).
    + apply Permutation_map. symmetry. exact Hperm.
    + apply uniq_nodup.
  - intros pe Hpe. destruct (uniq_complete hs pe Hpe) as (u & Hu & Eu).
    rewrite Ho, <- Eu. apply (in_map (fun u => e_op (snd u))). apply (Permutation_in u (Permutation_sym Hperm)). exact Hu.
  - intros o Hin. rewrite Ho in Hin. apply in_map_iff in Hin. destruct Hin as (u & Eu & Hu).
    exists u. split; auto. apply uniq_sub. apply (Permutation_in u Hperm). exact Hu.
  - rewrite Hi. apply sorted_map. apply sort_by_sorted.
  - rewrite Ho. clear -Hr oeqb_spec. induction Hr as [|u row us rows Hu Hr IH]; simpl; constructor; auto.
    destruct (complete_row_spec _ _ _ Hu) as (c & E & Hc & Hn).
    exists c. split; [|split]; auto. rewrite E. apply fill_row_of.
  - rewrite Hm. apply mappings_keys.
Qed.

(* ---- success and rejection, completely characterised ---- *)
Theorem concat_succeeds k hs :
  oper_ids_clash hs = false ->
  (k = Control \/ forall u, In u (uniq hs) -> inferable (row_of hs (e_op (snd u))) = true) ->
  exists r, concatenate_hamiltonian k hs = inr r.
Proof.
  intros Hc Hk. unfold Concat.concatenate_hamiltonian. rewrite Hc. cbv zeta.
  destruct (all_some_exists (fun u => complete_row k (row_of hs (e_op (snd u)))) (sort_by (new_id hs) (uniq hs))) as (rows & E).
  - intros u Hu. apply complete_row_some. destruct Hk as [->|Hk]; [left; reflexivity|right].
    apply Hk. apply (Permutation_in u (sort_by_perm (new_id hs) (uniq hs))). exact Hu.
  - rewrite E. eexists; reflexivity.
Qed.
Theorem concat_rejects_no_infer hs u :
  oper_ids_clash hs = false -> In u (uniq hs) -> inferable (row_of hs (e_op (snd u))) = false ->
  concatenate_hamiltonian Noise hs = inl ENoInfer.
Proof.
  intros Hc Hu Hi. unfold Concat.concatenate_hamiltonian. rewrite Hc. cbv zeta.
  rewrite (all_some_none (fun u => complete_row Noise (row_of hs (e_op (snd u)))) _ u).
  - reflexivity.
  - apply (Permutation_in u (Permutation_sym (sort_by_perm (new_id hs) (uniq hs)))). exact Hu.
  - apply complete_row_none. exact Hi.
Qed.
End Ham.

(* ---- the compatibility hypotheses are satisfiable: two pulses sharing Z, the second also holding X with a
        constant sensitivity; identifiers clash on purpose ---- *)
Definition ex_hams : list (ham nat Z) :=
  [mkHam 2 [mkEntry 3 "N" [1; 2]%Z]; mkHam 1 [mkEntry 1 "N" [5]%Z; mkEntry 3 "Nz" [7]%Z]].
Example concat_example_rejected :
  concatenate_hamiltonian nat Z Nat.eqb Z.eqb 0%Z Noise ex_hams = inl (EOperIds Noise).
Proof. reflexivity. Qed.
Definition ex_hams2 : list (ham nat Z) :=
  [mkHam 2 [mkEntry 3 "N" [1; 2]%Z]; mkHam 1 [mkEntry 1 "M" [5]%Z; mkEntry 3 "N" [7]%Z]].
Definition ex_result2 : hresult nat Z :=
  mkHRes [1; 3] ["M"; "N"]%string [[5; 5; 5]; [1; 2; 7]]%Z [[("N", "N")]; [("M", "M"); ("N", "N")]]%string.
Example concat_example_succeeds :
  concatenate_hamiltonian nat Z Nat.eqb Z.eqb 0%Z Noise ex_hams2 = inr ex_result2.
Proof. reflexivity. Qed.

(* ================================================================================================ *)
(* 4. identifier mapping and row bookkeeping: what the property needs and where the pinned code fails  *)
(* every identifier of every input should be mapped to the identifier its operator carries in the result *)
Definition lookup (s : string) (m : list (string * string)) : option string :=
  option_map snd (find (fun kv => String.eqb s (fst kv)) m).
Definition id_of_op (r : hresult nat Z) (o : nat) : option string :=
  option_map snd (find (fun oi => Nat.eqb o (fst oi)) (combine (r_ops r) (r_ids r))).
Definition mapping_sound_on (hs : list (ham nat Z)) : Prop :=
  forall r, concatenate_hamiltonian nat Z Nat.eqb Z.eqb 0%Z Noise hs = inr r ->
  forall j h e, nth_error hs j = Some h -> In e (h_entries h) ->
    lookup (e_id e) (nth j (r_map r) []) = id_of_op r (e_op e).
Definition hams_ZXZ : list (ham nat Z) :=
  [mkHam 1 [mkEntry 3 "N" [1%Z]]; mkHam 1 [mkEntry 1 "N" [1%Z]]; mkHam 1 [mkEntry 3 "N" [1%Z]]].
Theorem mapping_refuted : ~ mapping_sound_on hams_ZXZ.
Proof.
  intros H. unfold mapping_sound_on in H.
  specialize (H _ eq_refl 2 (mkHam 1 [mkEntry 3 "N"%string [1%Z]]) (mkEntry 3 "N"%string [1%Z]) eq_refl (or_introl eq_refl)).
  vm_compute in H. discriminate.
Qed.
(* for two pulses the mapping is right on the same kind of clash *)
Definition hams_ZX : list (ham nat Z) := [mkHam 1 [mkEntry 3 "N"%string [1%Z]]; mkHam 1 [mkEntry 1 "N"%string [1%Z]]].
Example mapping_sound_two : mapping_sound_on hams_ZX.
Proof.
  intros r Hr j h e Hj He. vm_compute in Hr. inversion Hr; subst; clear Hr.
  destruct j as [|[|j]]; simpl in Hj.
  - inversion Hj; subst. simpl in He. destruct He as [<-|[]]. reflexivity.
  - inversion Hj; subst. simpl in He. destruct He as [<-|[]]. reflexivity.
  - destruct j; discriminate.
Qed.

(* rows: control_matrix_atomic[i, idx] = pulse.get_control_matrix(omega) must put the control-matrix row of an
   operator of pulse i into the row of the same operator of the new pulse *)
Definition rows_sound_on (hs : list (ham nat Z)) : Prop :=
  forall r, concatenate_hamiltonian nat Z Nat.eqb Z.eqb 0%Z Noise hs = inr r ->
  forall i h row k, nth_error hs i = Some h ->
    nth_error (nth i (row_sources (r_ids r) (r_map r)) []) row = Some (Some k) ->
    option_map (@e_op nat Z) (nth_error (h_entries h) k) = nth_error (r_ops r) row.
(* identifiers 'X', 'XY': the suffix changes the order ('XY' < 'X_0') *)
Definition hams_flip : list (ham nat Z) :=
  [mkHam 1 [mkEntry 3 "X" [1%Z]; mkEntry 2 "XY" [1%Z]]; mkHam 1 [mkEntry 1 "X" [1%Z]; mkEntry 2 "XY" [1%Z]]].
Theorem row_assignment_refuted : ~ rows_sound_on hams_flip.
Proof.
  intros H. unfold rows_sound_on in H.
  specialize (H _ eq_refl 0 (mkHam 1 [mkEntry 3 "X"%string [1%Z]; mkEntry 2 "XY"%string [1%Z]]) 0 0 eq_refl eq_refl).
  vm_compute in H. discriminate.
Qed.

(* ================================================================================================ *)
(* 5. the proposed repair of the decision logic satisfies the full statement                          *)
(* (a) `if calc_filter_function is None and not calc_pulse_correlation_FF:` guards the early exit,
   (b) `if not equal_n_opers and not calc_pulse_correlation_FF:` guards the from-scratch shortcut,
   (c) identifier mappings updated for every pulse holding the operator and rows placed by identifier, so the
       two crashes cannot occur.  This is a model of the PROPOSAL, not of the pinned code.                 *)
Definition finish_fixed (equal_n : bool) (o : opts) (w : nat) : outcome :=
  if negb equal_n && negb (o_pc o) then ORet (mkRet PScratch true (Some w) true true (o_gen o) false false)
  else ORet (mkRet PAtomic true (Some w) true true (o_gen o) (o_pc o) (o_pc o && o_gen o)).
Definition decide_fixed (maps : list (list (string * string))) (cs : list cache) (o : opts) : outcome :=
  let tp := forallb c_tp cs in
  if is_tfalse (o_ff o) && negb (o_pc o) then ORet (ham_only tp) else
  let equal_n := equal_n_opers maps in
  match o_omega o with
  | Some w => finish_fixed equal_n o w
  | None =>
      let gs := grids_consulted cs in
      if negb (all_equal_nat gs) then
        if is_ttrue (o_ff o) then ORaise EForced
        else if o_pc o then ORaise ENoFreqPC
        else ORet (ham_only tp)
      else if is_tnone (o_ff o) && negb (o_pc o) && (negb equal_n || negb (existsb (fun b => b) (map c_cm cs)))
      then ORet (ham_only tp)
      else match gs with w :: _ => finish_fixed equal_n o w | [] => ORet (ham_only tp) end
  end.

Theorem decision_sound_for_proposed_fix maps cs o :
  match decide_fixed maps cs o with
  | ORaise e => (e = EForced \/ e = ENoFreqPC) /\ o_omega o = None /\ all_equal_nat (grids_consulted cs) = false
  | ORet r => (freq_dependent r = true -> grid_known cs o r) /\ (o_pc o = true -> t_pc r = true)
  | OCopy => True
  end.
Proof.
  unfold decide_fixed.
  destruct (o_pc o) eqn:Epc; destruct (o_ff o) eqn:Eff; simpl;
  try (split; [intros E; discriminate E | intros E; discriminate E]).
  all: destruct (o_omega o) as [w|] eqn:Eom;
    [ unfold finish_fixed; rewrite Epc; simpl;
      try (destruct (equal_n_opers maps); simpl);
      (split; [intros _; exists w; split; [reflexivity | left; assumption] | intros E; try reflexivity; discriminate E])
    | ].
  all: destruct (all_equal_nat (grids_consulted cs)) eqn:Eg; simpl; auto;
       try (split; [intros E; discriminate E | intros E; discriminate E]).
  all: try (destruct (negb (equal_n_opers maps) || negb (existsb (fun b => b) (map c_cm cs))); simpl;
            try (split; [intros E; discriminate E | intros E; discriminate E])).
  all: destruct (grids_consulted cs) as [|w gs] eqn:Egs; [discriminate Eg|];
       unfold finish_fixed; rewrite Epc; simpl; try (destruct (equal_n_opers maps); simpl);
       (split; [intros _; exists w; split; [reflexivity | right; split; [assumption|]] | intros E; try reflexivity; discriminate E]).
  all: unfold grids_consulted in Egs;
       assert (Hin : In w (w :: gs)) by (left; reflexivity); rewrite <- Egs in Hin;
       destruct (existsb (fun b => b) (map c_cm cs)); [eapply grids_compress_in; eauto | assumption].
Qed.

(* ================================================================================================ *)
(* 6. where exactly the identifier mapping is right: for the pulse that holds the operator FIRST      *)
Section FirstHolder.
Variables oper coef : Type.
Variable oeqb : oper -> oper -> bool.
Variable ceqb : coef -> coef -> bool.
Variable czero : coef.
Hypothesis oeqb_spec : forall a b, reflect (a = b) (oeqb a b).

(* the value the model (= the code) stores in pulse_identifier_mapping[p] for the entry e of pulse p *)
Definition mapped_id (hs : list (ham oper coef)) (p : nat) (e : entry oper coef) : string :=
  if id_clash oper coef oeqb hs (e_id e) &&
     (match first_pulse oper coef oeqb hs (e_op e) with Some q => q =? p | None => false end)
  then suffix (e_id e) p else e_id e.
Lemma mapping_of_is_mapped_id hs p h : mapping_of oper coef oeqb hs p h = map (fun e => (e_id e, mapped_id hs p e)) (h_entries h).
Proof. reflexivity. Qed.

Theorem mapping_right_for_first_holder hs p e :
  oper_ids_clash oper coef oeqb hs = false -> In (p, e) (flatten oper coef hs) ->
  first_pulse oper coef oeqb hs (e_op e) = Some p ->
  exists u, In u (uniq oper coef oeqb hs) /\ e_op (snd u) = e_op e /\ mapped_id hs p e = new_id oper coef oeqb hs u.
Proof.
  intros Hc Hin Hf. pose proof Hf as Hf'. unfold first_pulse in Hf.
  destruct (find (fun u => oeqb (e_op e) (e_op (snd u))) (uniq oper coef oeqb hs)) as [u|] eqn:E; [|discriminate].
  simpl in Hf. inversion Hf as [Hp]. apply find_some in E. destruct E as [Hu Ho].
  destruct (oeqb_spec (e_op e) (e_op (snd u))) as [Eo|]; [|discriminate].
  assert (Ei : e_id (snd u) = e_id e).
  { destruct (String.eqb_spec (e_id (snd u)) (e_id e)) as [|N]; auto. exfalso.
    assert (C : oper_ids_clash oper coef oeqb hs = true).
    { eapply oper_ids_clash_spec; eauto. exists u, (p, e). repeat split; auto.
      eapply uniq_sub; eauto. }
    congruence. }
  exists u. split; [exact Hu|]. split; [symmetry; exact Eo|].
  unfold mapped_id, new_id. rewrite Hf'. cbv iota. rewrite Hp, Nat.eqb_refl, andb_true_r, Ei. reflexivity.
Qed.
End FirstHolder.
