(* Completeness of == for binary64 durations: when merged durations are rounded sums, the rounding stays far
   below the rtol = 1e-10 of np.allclose, so pulses that are the same function of time compare equal. *)
From Coq Require Import ZArith List Bool String PeanoNat Lia Reals Lra Psatz.
From FF Require Import Model.B64 Model.Pulse Spec.PulseSpec Proofs.PulseBase Proofs.PulseJoin Proofs.PulseCanon
  Proofs.PulseEq Proofs.B64 Proofs.PulseTime Proofs.PulseComplete Proofs.B64Err.
Import ListNotations.
Local Open Scope R_scope.
Local Notation length := List.length (only parsing).

(* ------------------------------------------------------------------ float merge vs exact merge of the same segments *)
Definition near (L : Z) (K : nat) (s64 sx : seg) : Prop :=
  fst s64 = fst sx /\ lowexp L (snd s64) /\
  Rabs (d2R (snd s64) - d2R (snd sx)) <= ((1 + u64) ^ K - 1) * d2R (snd sx).

Lemma pow_mono k K : (k <= K)%nat -> (1 + u64) ^ k - 1 <= (1 + u64) ^ K - 1.
Proof. intros H. pose proof u64_pos. assert ((1 + u64) ^ k <= (1 + u64) ^ K) by (apply Rle_pow; [lra | exact H]). lra. Qed.

Lemma fold_near L K pend x c : (emin <= L <= 0)%Z -> lowexp L x -> Forall (lowexp L) pend -> (length pend <= K)%nat ->
  near L K (c, fold_left fadd64 pend x) (c, fold_left dadd pend x).
Proof.
  intros HL Hx Hp HK. destruct (fold_fadd64_error L pend x HL Hx Hp) as [E Hl]. cbv zeta in E.
  split; [reflexivity|]. split; [exact Hl|]. cbn [snd]. rewrite fold_dadd_val.
  eapply Rle_trans; [exact E|]. apply Rmult_le_compat_r; [|apply pow_mono; exact HK].
  pose proof (lowexp_value _ _ Hx).
  assert (0 <= sumR pend). { clear -Hp. induction Hp as [|q l Hq _ IH]; simpl; [lra|]. pose proof (lowexp_value _ _ Hq). lra. }
  lra.
Qed.

Lemma merge_runs_near L K segs : forall pend, (emin <= L <= 0)%Z ->
  Forall (fun s => lowexp L (snd s)) segs -> Forall (lowexp L) pend -> (length pend + length segs <= K)%nat ->
  Forall2 (near L K) (merge_runs fadd64 pend segs) (merge_runs dadd pend segs).
Proof.
  induction segs as [|s r IH]; intros pend HL Hs Hp HK; [constructor|].
  inversion Hs as [|? ? Hs0 Hs']; subst. simpl length in HK.
  destruct r as [|s' r'].
  - simpl. constructor; [|constructor]. apply fold_near; auto. lia.
  - change (merge_runs fadd64 pend (s :: s' :: r')) with
      (if same_cols s s' then merge_runs fadd64 (pend ++ [snd s]) (s' :: r')
       else (fst s, fold_left fadd64 pend (snd s)) :: merge_runs fadd64 [] (s' :: r')).
    change (merge_runs dadd pend (s :: s' :: r')) with
      (if same_cols s s' then merge_runs dadd (pend ++ [snd s]) (s' :: r')
       else (fst s, fold_left dadd pend (snd s)) :: merge_runs dadd [] (s' :: r')).
    destruct (same_cols s s').
    + apply IH; auto.
      * apply Forall_app. split; [exact Hp | constructor; [exact Hs0 | constructor]].
      * rewrite app_length. simpl in *. lia.
    + constructor.
      * apply fold_near; auto. lia.
      * apply IH; auto. simpl in *. lia.
Qed.

(* ------------------------------------------------------------------ the bound for up to 2^16 segments *)
Lemma gamma_2_16 K : (Z.of_nat K <= 2 ^ 16)%Z -> 0 <= (1 + u64) ^ K - 1 <= w36.
Proof.
  intros HK. pose proof u64_pos as U. split.
  - assert (1 <= (1 + u64) ^ K) by (apply pow_R1_Rle; lra). lra.
  - assert (B : 2 * INR K * u64 <= w36).
    { assert (INR K <= IZR (2 ^ 16)).
      { rewrite INR_IZR_INZ. apply IZR_le. exact HK. }
      unfold u64, w36.
      assert (E : IZR (2 ^ 53) = IZR (2 ^ 17) * IZR (2 ^ 36)) by (rewrite <- mult_IZR; f_equal).
      rewrite E, Rinv_mult.
      assert (P17 : 0 < IZR (2 ^ 17)) by (apply IZR_lt; reflexivity).
      assert (P36 : 0 < / IZR (2 ^ 36)) by (apply Rinv_0_lt_compat, IZR_lt; reflexivity).
      assert (T : 2 * IZR (2 ^ 16) = IZR (2 ^ 17)) by (rewrite <- mult_IZR; f_equal).
      assert (X : 2 * INR K * / IZR (2 ^ 17) <= 1).
      { apply (Rmult_le_reg_r (IZR (2 ^ 17))); [exact P17|]. rewrite Rmult_assoc, Rinv_l by lra. lra. }
      replace (2 * INR K * (/ IZR (2 ^ 17) * / IZR (2 ^ 36))) with ((2 * INR K * / IZR (2 ^ 17)) * / IZR (2 ^ 36)) by ring.
      rewrite <- (Rmult_1_l (/ IZR (2 ^ 36))) at 2. apply Rmult_le_compat_r; lra. }
    pose proof w36_small. eapply Rle_trans; [apply gamma_bound; lra | exact B].
Qed.

Lemma Forall2_compose {A B} (R1 R2 : A -> B -> Prop) l1 l2 lx :
  Forall2 R1 l1 lx -> Forall2 R2 l2 lx -> Forall2 (fun a b => exists x, R1 a x /\ R2 b x) l1 l2.
Proof.
  intros H1. revert l2. induction H1 as [|a x l1 lx Hax _ IH]; intros l2 H2; inversion H2; subst; constructor; eauto.
Qed.

(* merged durations as the durations of the canonical segments *)
Lemma jdt_canon f p : wf p -> jdt f p = map snd (canon f p).
Proof.
  intros W. destruct (wf_rows p W) as (Hc & Hn & Hg).
  pose proof (join_canon f p Hc Hn Hg) as J. unfold jdt.
  destruct (join_equal_segments f p) as [[cc nc] dts]. cbn [snd]. rewrite <- J.
  unfold segs_of. rewrite map_snd_combine; [reflexivity|]. rewrite combine_length, !transpose_length. lia.
Qed.

Definition no_underflow (p : pulse) : Prop := Forall (fun x => (-988 <= snd x)%Z) (dt p).

Lemma effective_lowexp p : good_durations p -> no_underflow p -> Forall (fun s => lowexp (-988) (snd s)) (effective_segments p).
Proof.
  intros [G _] NU.
  assert (HS : Forall (fun s => lowexp (-988) (snd s)) (segments p)).
  { unfold no_underflow in NU. rewrite <- (segments_snd p) in G, NU. rewrite Forall_map in G, NU.
    apply Forall_forall. intros s Hs. rewrite Forall_forall in G, NU. split; [apply (G s Hs) | apply (NU s Hs)]. }
  unfold effective_segments. destruct (existsb _ _ && negb (forallb _ _)); [|exact HS].
  apply Forall_forall. intros s Hs. apply filter_In in Hs. rewrite Forall_forall in HS. apply HS, Hs.
Qed.

Lemma effective_length p : (length (effective_segments p) <= length (dt p))%nat.
Proof.
  assert (L : length (segments p) = length (dt p)) by (pose proof (f_equal (@List.length num) (segments_snd p)) as X; rewrite map_length in X; exact X).
  unfold effective_segments. destruct (existsb _ _ && negb (forallb _ _)); [|lia].
  rewrite <- L. clear. induction (segments p) as [|s r IH]; simpl; [lia|]. destruct (seg_nonzero s); simpl; lia.
Qed.

Lemma Forall2_len {A B} (R : A -> B -> Prop) l l' : Forall2 R l l' -> length l = length l'.
Proof. induction 1; simpl; congruence. Qed.

(* ------------------------------------------------------------------ the theorem *)
Lemma near_close nb K1 K2 lx : (Z.of_nat K1 <= 2 ^ 16)%Z -> (Z.of_nat K2 <= 2 ^ 16)%Z ->
  forall l1 l2, Forall (fun x => 0 < d2R (snd x)) lx ->
  Forall2 (near (-988) K1) l1 lx -> Forall2 (near (-988) K2) l2 lx ->
  Forall2 (fun a b => close_dt nb a b = true) (map snd l1) (map snd l2).
Proof.
  intros HK1 HK2.
  pose proof (gamma_2_16 K1 HK1) as G1. pose proof (gamma_2_16 K2 HK2) as G2.
  set (g := Rmax ((1 + u64) ^ K1 - 1) ((1 + u64) ^ K2 - 1)).
  assert (Gg : 0 <= g <= w36) by (unfold g, Rmax; destruct (Rle_dec _ _); lra).
  assert (M1 : (1 + u64) ^ K1 - 1 <= g) by apply Rmax_l. assert (M2 : (1 + u64) ^ K2 - 1 <= g) by apply Rmax_r.
  induction lx as [|x lx IH]; intros l1 l2 Hpos H1 H2; inversion H1; inversion H2; subst; simpl; constructor.
  - match goal with Ha : near _ _ ?a x, Hb : near _ _ ?b x |- close_dt _ (snd ?a) (snd ?b) = true =>
      destruct Ha as (_ & La & Ea); destruct Hb as (_ & Lb & Eb) end.
    inversion Hpos as [|? ? Hx0 ?]; subst.
    apply (close_dt_from_sums nb _ _ (d2R (snd x)) g); auto.
    + eapply Rle_trans; [exact Ea|]. apply Rmult_le_compat_r; lra.
    + eapply Rle_trans; [exact Eb|]. apply Rmult_le_compat_r; lra.
  - inversion Hpos; subst. apply IH; auto.
Qed.

Theorem eq64_complete_rounded A B : wf A -> wf B -> same_frame A B -> good_durations A -> good_durations B ->
  no_underflow A -> no_underflow B -> (Z.of_nat (length (dt A)) <= 2 ^ 16)%Z -> (Z.of_nat (length (dt B)) <= 2 ^ 16)%Z ->
  (forall t, 0 <= t -> at_time (segments A) t = at_time (segments B) t) -> eq64 A B = true.
Proof.
  intros WA WB F GA GB UA UB LA LB H.
  pose proof (eq_exact_complete A B WA WB F GA GB H) as E.
  apply (eq_char dadd (fun _ => num_eqb) bclose A B WA WB) in E. destruct E as (_ & _ & Hc & Hn & Hb).
  pose proof (same_time_function_same_canon A B GA GB H) as EC.
  assert (HL : (emin <= -988 <= 0)%Z) by (unfold emin; lia).
  assert (KA : (length (@nil num) + length (effective_segments A) <= length (dt A))%nat) by (pose proof (effective_length A); simpl; lia).
  assert (KB : (length (@nil num) + length (effective_segments B) <= length (dt B))%nat) by (pose proof (effective_length B); simpl; lia).
  pose proof (merge_runs_near (-988) _ (effective_segments A) [] HL (effective_lowexp A GA UA) (Forall_nil _) KA) as NA.
  pose proof (merge_runs_near (-988) _ (effective_segments B) [] HL (effective_lowexp B GB UB) (Forall_nil _) KB) as NB.
  fold (canon fadd64 A) in NA. fold (canon dadd A) in NA. fold (canon fadd64 B) in NB. fold (canon dadd B) in NB.
  rewrite <- EC in NB.
  destruct (effective_good A GA) as (PA & _ & _).
  pose proof (merge_positive (effective_segments A) [] PA (Forall_nil _)) as POS. fold (canon dadd A) in POS.
  pose proof (near_close (length (basis A)) _ _ (canon dadd A) LA LB _ _ POS NA NB) as CL.
  rewrite <- !jdt_canon in CL by assumption.
  apply (eq_char fadd64 close_dt bclose A B WA WB).
  unfold jcc, jnc in *. rewrite (join_rows_indep fadd64 dadd A), (join_rows_indep fadd64 dadd B).
  split; [eapply Forall2_len; exact CL|]. split; [exact CL|]. split; [exact Hc|]. split; [exact Hn | exact Hb].
Qed.

(* ------------------------------------------------------------------ the hypotheses are satisfiable where a merge rounds *)
(* durations 1, 2^-53, 2^-53 on equal segments: the code computes fl(fl(2^-53 + 1) + 2^-53) = 1, the exact sum is
   1 + 2^-52; the pulse with the single duration 1 + 2^-52 is the same function of time *)
From FF Require Import Proofs.PulseInst.
Definition rnd_split : pulse := mk [(1, 0); (1, 0); (1, 0)]%Z [(1, 0); (1, 0); (1, 0)]%Z [(1, 0); (1, -53); (1, -53)]%Z.
Definition rnd_merged : pulse := mk [(1, 0)]%Z [(1, 0)]%Z [(4503599627370497, -52)]%Z.

Example rounded_example :
  wf rnd_split /\ wf rnd_merged /\ same_frame rnd_split rnd_merged /\ good_durations rnd_split /\ good_durations rnd_merged /\
  no_underflow rnd_split /\ no_underflow rnd_merged /\
  (forall t, 0 <= t -> at_time (segments rnd_split) t = at_time (segments rnd_merged) t) /\
  jdt fadd64 rnd_split <> jdt dadd rnd_split /\ eq64 rnd_split rnd_merged = true /\ eq64 rnd_merged rnd_split = true.
Proof.
  assert (W1 : wf rnd_split) by (apply wf_mk; simpl; lia).
  assert (W2 : wf rnd_merged) by (apply wf_mk; simpl; lia).
  assert (G1 : good_durations rnd_split).
  { split; [|vm_compute; reflexivity]. repeat constructor; simpl; try lia; try discriminate. }
  assert (G2 : good_durations rnd_merged).
  { split; [|vm_compute; reflexivity]. repeat constructor; simpl; try lia; try discriminate. }
  split; [exact W1|]. split; [exact W2|]. split; [repeat split|]. split; [exact G1|]. split; [exact G2|].
  split; [repeat constructor; simpl; lia|]. split; [repeat constructor; simpl; lia|].
  split; [|split; [|split]].
  - apply (eq_exact_sound rnd_split rnd_merged W1 W2 eq_refl eq_refl G1 G2). vm_compute. reflexivity.
  - vm_compute. discriminate.
  - vm_compute. reflexivity.
  - vm_compute. reflexivity.
Qed.
