(* The joined arrays, read column by column, are the canonical segment list of the specification:
   segs_of (join p) = merge_runs (segments p); properties of the canonical form. *)
From Coq Require Import ZArith List Bool String PeanoNat Lia Permutation.
From FF Require Import Model.B64 Model.Pulse Spec.PulseSpec Proofs.PulseBase Proofs.PulseJoin.
Import ListNotations.
Local Open Scope nat_scope.
Local Notation length := List.length (only parsing).

Fixpoint cmask (cols : list col) : list bool :=
  match cols with
  | a :: r => match r with b :: _ => list_eqb_num a b :: cmask r | [] => [] end
  | [] => []
  end.
Fixpoint seg_mask (segs : list seg) : list bool :=
  match segs with
  | s :: r => match r with s' :: _ => same_cols s s' :: seg_mask r | [] => [] end
  | [] => []
  end.
Fixpoint kept (m : list bool) : nat :=
  match m with [] => 0 | true :: m' => kept m' | false :: m' => S (kept m') end.

Lemma num_eqb_sym a b : num_eqb a b = num_eqb b a.
Proof. unfold num_eqb. rewrite (Z.eqb_sym (fst a)), (Z.eqb_sym (snd a)). reflexivity. Qed.

Lemma zip_with_nil_r {A B C} (f : A -> B -> C) l : zip_with f l [] = [].
Proof. destruct l; reflexivity. Qed.

Lemma transpose_length w rows : length (transpose w rows) = w.
Proof. revert rows; induction w; intros; simpl; auto. Qed.

Lemma Forall_tl_length {A} w (rows : list (list A)) :
  Forall (fun r => length r = S w) rows -> Forall (fun r => length r = w) (map (@tl A) rows).
Proof.
  intros H. rewrite Forall_map. eapply Forall_impl; [|exact H]. intros [|x r]; simpl; intros; lia.
Qed.

(* ---------- (np.diff(rows) == 0).all(axis=0) compares adjacent columns *)
Lemma all_axis0_cons w rows : Forall (fun r => length r = S (S w)) rows ->
  all_axis0 (S w) (map diff_is_zero rows) =
  forallb (fun r => num_eqb (nth 1 r d0) (nth 0 r d0)) rows :: all_axis0 w (map diff_is_zero (map (@tl num) rows)).
Proof.
  induction 1 as [|r rows Hr _ IH]; simpl; [reflexivity|].
  unfold all_axis0 in *. cbn [map fold_right forallb]. rewrite IH.
  destruct r as [|a [|b r']]; simpl in Hr; try lia. reflexivity.
Qed.

Lemma heads_eq rows : Forall (fun r => 2 <= length r) rows ->
  forallb (fun r => num_eqb (nth 1 r d0) (nth 0 r d0)) rows =
  list_eqb_num (map (hd d0) rows) (map (hd d0) (map (@tl num) rows)).
Proof.
  intros H. unfold list_eqb_num. rewrite !map_length, Nat.eqb_refl. simpl.
  induction H as [|r rows Hr _ IH]; simpl; auto.
  rewrite IH. destruct r as [|a [|b r']]; simpl in *; try lia. rewrite num_eqb_sym. reflexivity.
Qed.

Lemma all_axis0_cmask w rows : Forall (fun r => length r = S w) rows ->
  all_axis0 w (map diff_is_zero rows) = cmask (transpose (S w) rows).
Proof.
  revert rows; induction w as [|w IH]; intros rows H.
  - simpl. unfold all_axis0. clear H. induction rows as [|a rows IHr]; simpl; auto.
    simpl in IHr. rewrite IHr. apply zip_with_nil_r.
  - rewrite all_axis0_cons by assumption.
    rewrite IH by (apply Forall_tl_length; assumption).
    rewrite heads_eq by (eapply Forall_impl; [|exact H]; simpl; intros; lia).
    reflexivity.
Qed.

Lemma seg_mask_combine (C N : list col) (D : list num) : length C = length N -> length C = length D ->
  seg_mask (combine (combine C N) D) = zip_with andb (cmask C) (cmask N).
Proof.
  revert N D; induction C as [|c C IH]; intros [|n N] [|x D] H1 H2; simpl in *; try lia; auto.
  destruct C as [|c' C'], N as [|n' N'], D as [|x' D']; simpl in *; try lia; auto.
  f_equal. apply (IH (n' :: N') (x' :: D')); simpl; lia.
Qed.

Theorem equal_mask_segments p :
  Forall (fun r => length r = length (dt p)) (c_coeffs p) ->
  Forall (fun r => length r = length (dt p)) (n_coeffs p) -> 1 <= length (dt p) ->
  equal_mask p = seg_mask (segments p).
Proof.
  intros Hc Hn HG. unfold equal_mask, segments, segs_of.
  destruct (length (dt p)) as [|w] eqn:E; [lia|]. simpl pred.
  rewrite seg_mask_combine by (rewrite ?transpose_length; auto).
  rewrite !all_axis0_cmask by assumption. reflexivity.
Qed.

Lemma seg_mask_length segs : length (seg_mask segs) = pred (length segs).
Proof.
  induction segs as [|s r IH]; simpl; auto. destruct r as [|s' r']; simpl in *; auto.
Qed.

(* ---------- transposition commutes with the deletion of columns *)
Lemma transpose_S w rows : transpose (S w) rows = map (hd d0) rows :: transpose w (map (@tl num) rows).
Proof. reflexivity. Qed.
Lemma del_mask_true {A} (x : A) l m : del_mask (x :: l) (true :: m) = del_mask l m.
Proof. reflexivity. Qed.
Lemma del_mask_false {A} (x : A) l m : del_mask (x :: l) (false :: m) = x :: del_mask l m.
Proof. reflexivity. Qed.

Lemma transpose_del_mask m rows : Forall (fun r => length r = S (length m)) rows ->
  transpose (S (kept m)) (map (fun r => del_mask r m) rows) = del_mask (transpose (S (length m)) rows) m.
Proof.
  revert rows; induction m as [|b m IH]; intros rows H.
  - assert (E : map (fun r : list num => del_mask r []) rows = rows).
    { rewrite <- (map_id rows) at 2. apply map_ext. intros [|x r]; reflexivity. }
    rewrite E. reflexivity.
  - assert (Hmap : forall (T : Type) (f g : list num -> T), (forall r, length r = S (length (b :: m)) -> f r = g r) -> map f rows = map g rows).
    { intros T f g Hfg. apply map_ext_in. intros r Hr. apply Hfg. rewrite Forall_forall in H. auto. }
    specialize (IH (map (@tl num) rows) (Forall_tl_length _ _ H)).
    destruct b.
    + change (kept (true :: m)) with (kept m).
      change (length (true :: m)) with (S (length m)).
      rewrite (transpose_S (S (length m)) rows), del_mask_true, <- IH. f_equal. rewrite map_map.
      apply Hmap. intros [|x r] Hr; simpl in *; [lia | reflexivity].
    + change (kept (false :: m)) with (S (kept m)).
      change (length (false :: m)) with (S (length m)).
      rewrite (transpose_S (S (length m)) rows), del_mask_false, <- IH.
      rewrite (transpose_S (S (kept m))). f_equal.
      * rewrite map_map. apply Hmap.
        intros [|x r] Hr; simpl in *; [lia | reflexivity].
      * f_equal. rewrite !map_map. apply Hmap. intros [|x r] Hr; simpl in *; [lia | reflexivity].
Qed.

Lemma del_mask_combine {A B} (a : list A) (b : list B) m : length a = length b ->
  del_mask (combine a b) m = combine (del_mask a m) (del_mask b m).
Proof.
  revert b m; induction a as [|x a IH]; intros [|y b] m H; simpl in *; try lia; auto.
  destruct m as [|[|] m]; simpl; auto. f_equal. apply IH. lia.
Qed.

Section C.
Variable fadd : num -> num -> num.

Lemma join_dt_length pend dts m : length dts = S (length m) -> length (join_dt fadd pend dts m) = S (kept m).
Proof.
  revert pend m; induction dts as [|x r IH]; intros pend m H; simpl in *; [lia|].
  destruct m as [|[|] m]; simpl in *.
  - lia.
  - apply IH. lia.
  - f_equal. apply IH. lia.
Qed.

Lemma merge_runs_mask pend segs :
  merge_runs fadd pend segs =
  combine (del_mask (map fst segs) (seg_mask segs)) (join_dt fadd pend (map snd segs) (seg_mask segs)).
Proof.
  revert pend; induction segs as [|s r IH]; intros pend; [reflexivity|].
  destruct r as [|s' r'].
  - reflexivity.
  - change (seg_mask (s :: s' :: r')) with (same_cols s s' :: seg_mask (s' :: r')).
    change (merge_runs fadd pend (s :: s' :: r')) with
      (if same_cols s s' then merge_runs fadd (pend ++ [snd s]) (s' :: r')
       else (fst s, fold_left fadd pend (snd s)) :: merge_runs fadd [] (s' :: r')).
    destruct (same_cols s s'); rewrite IH; reflexivity.
Qed.

(* the joined arrays are the canonical segment list *)
Theorem join_core_canon p :
  Forall (fun r => length r = length (dt p)) (c_coeffs p) ->
  Forall (fun r => length r = length (dt p)) (n_coeffs p) -> 1 <= length (dt p) ->
  let '(cc, nc, dts) := join_core fadd p in segs_of cc nc dts = canon_prefix fadd p.
Proof.
  intros Hc Hn HG.
  pose proof (equal_mask_segments p Hc Hn HG) as Hm.
  assert (Hlen : length (dt p) = S (length (equal_mask p))).
  { rewrite Hm, seg_mask_length. unfold segments, segs_of, seg. rewrite !combine_length, !transpose_length. lia. }
  rewrite join_as_mask by lia.
  unfold segs_of, canon_prefix. rewrite merge_runs_mask, <- Hm.
  rewrite (join_dt_length [] (dt p) (equal_mask p) Hlen).
  rewrite !transpose_del_mask by (rewrite <- Hlen; assumption).
  rewrite <- Hlen.
  unfold segments, segs_of.
  rewrite map_fst_combine by (rewrite combine_length, !transpose_length; lia).
  rewrite map_snd_combine by (rewrite combine_length, !transpose_length; lia).
  rewrite del_mask_combine by (rewrite !transpose_length; reflexivity).
  reflexivity.
Qed.

(* ---------- zero-duration segments are dropped first (fix ac70929) *)
Fixpoint count_true (m : list bool) : nat := match m with [] => 0 | true :: r => S (count_true r) | false :: r => count_true r end.

Lemma keep_mask_length {A} (l : list A) m : length l = length m -> length (keep_mask l m) = count_true m.
Proof.
  revert m; induction l as [|x r IH]; intros [|b m] H; simpl in *; try lia; auto.
  destruct b; simpl; rewrite IH by lia; reflexivity.
Qed.
Lemma keep_mask_filter {A} (f : A -> bool) (l : list A) : keep_mask l (map f l) = filter f l.
Proof. induction l as [|x r IH]; simpl; auto. destruct (f x); rewrite IH; reflexivity. Qed.
Lemma keep_mask_combine {A B} (a : list A) (b : list B) m : length a = length b ->
  keep_mask (combine a b) m = combine (keep_mask a m) (keep_mask b m).
Proof.
  revert b m; induction a as [|x a IH]; intros [|y b] m H; simpl in *; try lia.
  - destruct m; reflexivity.
  - destruct m as [|c m]; [reflexivity|]. destruct c; simpl; rewrite IH by lia; reflexivity.
Qed.
Lemma transpose_keep_mask m rows : Forall (fun r => length r = length m) rows ->
  transpose (count_true m) (map (fun r => keep_mask r m) rows) = keep_mask (transpose (length m) rows) m.
Proof.
  revert rows; induction m as [|b m IH]; intros rows H.
  - simpl. reflexivity.
  - assert (Hmap : forall (T : Type) (f g : list num -> T), (forall r, length r = S (length m) -> f r = g r) -> map f rows = map g rows).
    { intros T f g Hfg. apply map_ext_in. intros r Hr. apply Hfg. rewrite Forall_forall in H. apply (H r Hr). }
    assert (Htl : Forall (fun r => length r = length m) (map (@tl num) rows)).
    { rewrite Forall_map. eapply Forall_impl; [|exact H]. intros [|x r]; simpl; intros; lia. }
    specialize (IH _ Htl).
    change (length (b :: m)) with (S (length m)). rewrite (transpose_S (length m) rows).
    destruct b.
    + change (count_true (true :: m)) with (S (count_true m)). rewrite transpose_S.
      change (keep_mask (map (hd d0) rows :: transpose (length m) (map (@tl num) rows)) (true :: m))
        with (map (hd d0) rows :: keep_mask (transpose (length m) (map (@tl num) rows)) m).
      rewrite <- IH. f_equal.
      * rewrite map_map. apply Hmap. intros [|x r] Hr; simpl in *; [lia | reflexivity].
      * f_equal. rewrite !map_map. apply Hmap. intros [|x r] Hr; simpl in *; [lia | reflexivity].
    + change (count_true (false :: m)) with (count_true m).
      change (keep_mask (map (hd d0) rows :: transpose (length m) (map (@tl num) rows)) (false :: m))
        with (keep_mask (transpose (length m) (map (@tl num) rows)) m).
      rewrite <- IH. f_equal. rewrite map_map. apply Hmap. intros [|x r] Hr; simpl in *; [lia | reflexivity].
Qed.

Lemma segments_nonzero_mask p : map seg_nonzero (segments p) = map nonzero_dt (dt p).
Proof.
  transitivity (map nonzero_dt (map snd (segments p))); [rewrite map_map; reflexivity|]. f_equal.
  unfold segments, segs_of. apply map_snd_combine. rewrite combine_length, !transpose_length. lia.
Qed.
Lemma existsb_map {A} (f : A -> bool) l : existsb (fun b => b) (map f l) = existsb f l.
Proof. induction l; simpl; auto. rewrite IHl. reflexivity. Qed.
Lemma forallb_map' {A} (f : A -> bool) l : forallb (fun b => b) (map f l) = forallb f l.
Proof. induction l; simpl; auto. rewrite IHl. reflexivity. Qed.

(* the columns of the pulse without its zero-duration segments are the effective segments *)
Theorem segments_drop_zero p :
  Forall (fun r => length r = length (dt p)) (c_coeffs p) ->
  Forall (fun r => length r = length (dt p)) (n_coeffs p) ->
  segments (drop_zero p) = effective_segments p.
Proof.
  intros Hc Hn. unfold drop_zero, effective_segments.
  rewrite <- (existsb_map seg_nonzero), <- (forallb_map' seg_nonzero), segments_nonzero_mask.
  destruct (existsb (fun b => b) (map nonzero_dt (dt p)) && negb (forallb (fun b => b) (map nonzero_dt (dt p)))); [|reflexivity].
  unfold segments, segs_of. cbn [c_coeffs n_coeffs dt].
  set (nz := map nonzero_dt (dt p)).
  assert (Ln : length (dt p) = length nz) by (unfold nz; rewrite map_length; reflexivity).
  rewrite (keep_mask_length (dt p) nz Ln).
  rewrite !transpose_keep_mask by (rewrite <- Ln; assumption). rewrite <- Ln.
  rewrite <- keep_mask_combine by (rewrite !transpose_length; reflexivity).
  rewrite <- keep_mask_combine by (rewrite combine_length, !transpose_length; lia).
  rewrite <- (keep_mask_filter seg_nonzero). f_equal.
  fold (segs_of (c_coeffs p) (n_coeffs p) (dt p)). fold (segments p). rewrite segments_nonzero_mask. reflexivity.
Qed.

Lemma drop_zero_rows p :
  Forall (fun r => length r = length (dt p)) (c_coeffs p) ->
  Forall (fun r => length r = length (dt p)) (n_coeffs p) -> 1 <= length (dt p) ->
  Forall (fun r => length r = length (dt (drop_zero p))) (c_coeffs (drop_zero p)) /\
  Forall (fun r => length r = length (dt (drop_zero p))) (n_coeffs (drop_zero p)) /\ 1 <= length (dt (drop_zero p)).
Proof.
  intros Hc Hn HG. unfold drop_zero.
  destruct (existsb (fun b => b) (map nonzero_dt (dt p)) && negb (forallb (fun b => b) (map nonzero_dt (dt p)))) eqn:E; [|auto].
  cbn [c_coeffs n_coeffs dt]. set (nz := map nonzero_dt (dt p)) in *.
  assert (Ln : length (dt p) = length nz) by (unfold nz; rewrite map_length; reflexivity).
  rewrite (keep_mask_length (dt p) nz Ln).
  repeat split.
  - rewrite Forall_map. eapply Forall_impl; [|exact Hc]. intros r Hr. cbv beta in *. apply keep_mask_length. congruence.
  - rewrite Forall_map. eapply Forall_impl; [|exact Hn]. intros r Hr. cbv beta in *. apply keep_mask_length. congruence.
  - apply andb_true_iff in E. destruct E as [E _]. clear -E. induction nz as [|b nz IH]; simpl in *; [discriminate|].
    destruct b; [lia|]. apply IH. exact E.
Qed.

(* the joined arrays are the canonical segment list *)
Theorem join_canon p :
  Forall (fun r => length r = length (dt p)) (c_coeffs p) ->
  Forall (fun r => length r = length (dt p)) (n_coeffs p) -> 1 <= length (dt p) ->
  let '(cc, nc, dts) := join_equal_segments fadd p in segs_of cc nc dts = canon fadd p.
Proof.
  intros Hc Hn HG. destruct (drop_zero_rows p Hc Hn HG) as (Hc' & Hn' & HG').
  pose proof (join_core_canon (drop_zero p) Hc' Hn' HG') as K. unfold join_equal_segments.
  destruct (join_core fadd (drop_zero p)) as [[cc nc] dts]. rewrite K.
  unfold canon_prefix, canon. rewrite (segments_drop_zero p Hc Hn). reflexivity.
Qed.

(* ---------- properties of the canonical form *)
Lemma same_cols_spec s t : same_cols s t = true <-> fst s = fst t.
Proof.
  unfold same_cols. rewrite andb_true_iff, !list_eqb_num_spec.
  destruct s as [[a b] x], t as [[a' b'] y]; simpl. split; [intros [-> ->]; reflexivity | intros H; inversion H; auto].
Qed.

Lemma merge_runs_hd pend s r : exists d rest, merge_runs fadd pend (s :: r) = (fst s, d) :: rest.
Proof.
  revert pend s; induction r as [|s' r IH]; intros pend s.
  - simpl. eauto.
  - change (merge_runs fadd pend (s :: s' :: r)) with
      (if same_cols s s' then merge_runs fadd (pend ++ [snd s]) (s' :: r)
       else (fst s, fold_left fadd pend (snd s)) :: merge_runs fadd [] (s' :: r)).
    destruct (same_cols s s') eqn:E.
    + apply same_cols_spec in E. rewrite E. apply IH.
    + eauto.
Qed.

(* no two consecutive equal segments remain *)
Theorem merge_no_adjacent pend segs : no_adjacent_equal (merge_runs fadd pend segs).
Proof.
  revert pend; induction segs as [|s r IH]; intros pend; [exact I|].
  destruct r as [|s' r'].
  - simpl. exact I.
  - change (merge_runs fadd pend (s :: s' :: r')) with
      (if same_cols s s' then merge_runs fadd (pend ++ [snd s]) (s' :: r')
       else (fst s, fold_left fadd pend (snd s)) :: merge_runs fadd [] (s' :: r')).
    destruct (same_cols s s') eqn:E; [apply IH|].
    destruct (merge_runs_hd [] s' r') as [d [rest Hm]].
    specialize (IH []). rewrite Hm in *. simpl. split; [|exact IH].
    destruct (same_cols (fst s, fold_left fadd pend (snd s)) (fst s', d)) eqn:E2; auto.
    apply same_cols_spec in E2. simpl in E2.
    assert (same_cols s s' = true) by (apply same_cols_spec; exact E2). congruence.
Qed.

(* the sequence of coefficient columns, consecutive duplicates removed, is preserved *)
Theorem merge_compress pend segs : map fst (merge_runs fadd pend segs) = compress (map fst segs).
Proof.
  revert pend; induction segs as [|s r IH]; intros pend; [reflexivity|].
  destruct r as [|s' r'].
  - reflexivity.
  - change (merge_runs fadd pend (s :: s' :: r')) with
      (if same_cols s s' then merge_runs fadd (pend ++ [snd s]) (s' :: r')
       else (fst s, fold_left fadd pend (snd s)) :: merge_runs fadd [] (s' :: r')).
    change (compress (map fst (s :: s' :: r'))) with
      (if list_eqb_num (fst (fst s)) (fst (fst s')) && list_eqb_num (snd (fst s)) (snd (fst s'))
       then compress (map fst (s' :: r')) else fst s :: compress (map fst (s' :: r'))).
    fold (same_cols s s'). destruct (same_cols s s').
    + apply IH.
    + rewrite map_cons. f_equal. apply IH.
Qed.

(* a pulse without equal consecutive segments is its own canonical form *)
Lemma merge_identity segs : no_adjacent_equal segs -> merge_runs fadd [] segs = segs.
Proof.
  induction segs as [|s r IH]; intros H; [reflexivity|].
  destruct r as [|s' r'].
  - simpl. destruct s; reflexivity.
  - change (merge_runs fadd [] (s :: s' :: r')) with
      (if same_cols s s' then merge_runs fadd ([] ++ [snd s]) (s' :: r')
       else (fst s, fold_left fadd [] (snd s)) :: merge_runs fadd [] (s' :: r')).
    simpl in H. destruct H as [H1 H2]. rewrite H1, IH by assumption. simpl. destruct s; reflexivity.
Qed.

(* canonical forms are fixed points: merging is idempotent *)
Theorem merge_idempotent segs : merge_runs fadd [] (merge_runs fadd [] segs) = merge_runs fadd [] segs.
Proof. apply merge_identity, merge_no_adjacent. Qed.

End C.
