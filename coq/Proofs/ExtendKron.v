(* C05, numeric content of extend for two blocks (arbitrary dimensions d1, d2):
   list matrices M related to a pair (A, B) by  M = A (x) B  ([krel]); the numeric engine
   (Model/Numeric.v, real instance) on Kronecker-structured data:
     - eigenvalues of H1 (x) 1 + 1 (x) H2 add, eigenvectors tensor ([kron_spectral]);
     - segment propagators and cumulative propagators tensor ([propagators_krel]);
     - [cm_step_embed] / [control_matrix_embed]: the control matrix of noise operators B (x) 1 in a
       product basis C_k (x) D_l is  B1_{a,k} * tr(D_l)  on element (k,l); with D_0 = 1/sqrt(d2)
       and an orthonormal basis that is  sqrt(d2) B1_{a,k}  on (k,0) and 0 elsewhere.          *)
From Coq Require Import ZArith Reals List Lra Lia Arith Permutation.
From FF Require Import Base.Ops Inst.RInst Base.RAlg Spec.Kron2 Model.Numeric Proofs.RemapCov.
Import ListNotations.
Local Open Scope nat_scope.

(* ---------- a few more fmat lemmas ---------- *)
Lemma fmul_add_l d A B Cm : feq d (fmul d (fadd A B) Cm) (fadd (fmul d A Cm) (fmul d B Cm)).
Proof. intros i j _ _. unfold fmul, fadd. rewrite <- csumn_add. apply csumn_ext. intros; ring. Qed.
Lemma fmul_add_r d A B Cm : feq d (fmul d A (fadd B Cm)) (fadd (fmul d A B) (fmul d A Cm)).
Proof. intros i j _ _. unfold fmul, fadd. rewrite <- csumn_add. apply csumn_ext. intros; ring. Qed.
Lemma fadd_ext d A A' B B' : feq d A A' -> feq d B B' -> feq d (fadd A B) (fadd A' B').
Proof. intros HA HB i j Hi Hj. unfold fadd. rewrite HA, HB; auto. Qed.
Definition fdiagf (ev : nat -> R) : fmat := fun i j => if Nat.eqb i j then cofr RO (ev i) else 0c.

(* eigenvalues add, eigenvectors tensor *)
Theorem kron_spectral d1 d2 H1 H2 V1 V2 (a b : nat -> R) :
  feq d1 (fmul d1 H1 V1) (fmul d1 V1 (fdiagf a)) -> feq d2 (fmul d2 H2 V2) (fmul d2 V2 (fdiagf b)) ->
  funitary d1 V1 -> funitary d2 V2 ->
  let H := fadd (fkron d2 H1 fid) (fkron d2 fid H2) in
  let V := fkron d2 V1 V2 in
  feq (d1 * d2) (fmul (d1 * d2) H V) (fmul (d1 * d2) V (fdiagf (fun i => Rplus (a (i / d2)) (b (i mod d2)))))
  /\ funitary (d1 * d2) V.
Proof.
  intros E1 E2 U1 U2 H V. split; [|apply funitary_fkron; auto].
  assert (HD : feq (d1 * d2) (fdiagf (fun i => Rplus (a (i / d2)) (b (i mod d2))))
                   (fadd (fkron d2 (fdiagf a) fid) (fkron d2 fid (fdiagf b)))).
  { intros i j Hi Hj. unfold fdiagf, fadd, fkron, fid.
    assert (Hd : d2 <> 0) by (destruct d2; lia).
    destruct (Nat.eqb_spec i j) as [->|Hne].
    - rewrite !Nat.eqb_refl. apply c_eq; csimp; ring.
    - destruct (Nat.eqb_spec (i / d2) (j / d2)) as [Ea|]; destruct (Nat.eqb_spec (i mod d2) (j mod d2)) as [Eb|];
        try (apply c_eq; csimp; ring).
      exfalso. apply Hne. eapply divmod_eq; eauto. }
  eapply feq_trans. apply fmul_add_l.
  eapply feq_trans. 2:{ apply feq_sym. eapply feq_trans. apply fmul_ext. apply feq_refl. exact HD. apply fmul_add_r. }
  apply fadd_ext.
  - eapply feq_trans. apply fkron_mul. eapply feq_trans. 2:{ apply feq_sym, fkron_mul. }
    apply fkron_ext. exact E1. eapply feq_trans. apply fmul_id_l. apply feq_sym, fmul_id_r.
  - eapply feq_trans. apply fkron_mul. eapply feq_trans. 2:{ apply feq_sym, fkron_mul. }
    apply fkron_ext. eapply feq_trans. apply fmul_id_l. apply feq_sym, fmul_id_r. exact E2.
Qed.

(* ---------- Kronecker-structured list matrices ---------- *)
Section K.
Variables d1 d2 : nat.
Local Notation D := (d1 * d2).

Definition krel (A B M : Mat (T:=R)) : Prop :=
  forall i j, i < D -> j < D -> mget RO M i j = cmul' (mget RO A (i / d2) (j / d2)) (mget RO B (i mod d2) (j mod d2)).
Definition evrel (ev1 ev2 ev : list R) : Prop :=
  forall i, i < D -> vg RO ev i = Rplus (vg RO ev1 (i / d2)) (vg RO ev2 (i mod d2)).

Lemma krel_feq A B M : krel A B M <-> feq D (toF M) (fkron d2 (toF A) (toF B)).
Proof. unfold krel, feq, toF, fkron. tauto. Qed.

Lemma dl i : i < D -> i / d2 < d1. Proof. apply div_lt_prod. Qed.
Lemma ml i : i < D -> i mod d2 < d2. Proof. apply mod_lt_prod. Qed.
Hint Resolve dl ml : core.

Lemma mmul_krel A B M A' B' M' : krel A B M -> krel A' B' M' ->
  krel (mmul RO d1 A A') (mmul RO d2 B B') (mmul RO D M M').
Proof.
  intros H H' i j Hi Hj. unfold mmul. rewrite !mget_mbuild by auto.
  rewrite (csumn_ext D _ (fun k => cmul' (fkron d2 (toF A) (toF B) i k) (fkron d2 (toF A') (toF B') k j))).
  2:{ intros k Hk. rewrite H, H' by auto. reflexivity. }
  exact (fkron_mul_pt d1 d2 (toF A) (toF B) (toF A') (toF B') i j).
Qed.
Lemma madj_krel A B M : krel A B M -> krel (madj RO d1 A) (madj RO d2 B) (madj RO D M).
Proof.
  intros H i j Hi Hj. unfold madj. rewrite !mget_mbuild by auto. rewrite H by auto. apply cconj_mul.
Qed.
Lemma mid_krel : krel (mid RO d1) (mid RO d2) (mid RO D).
Proof.
  intros i j Hi Hj. pose proof (fkron_id d1 d2 i j Hi Hj) as E. unfold fkron, fid in E.
  unfold mid. rewrite !mget_mbuild by auto. symmetry. exact E.
Qed.
Lemma transform_krel U1 U2 U A B M : krel U1 U2 U -> krel A B M ->
  krel (transform_by_unitary RO d1 U1 A) (transform_by_unitary RO d2 U2 B) (transform_by_unitary RO D U M).
Proof. intros HU HM. unfold transform_by_unitary. apply mmul_krel. apply madj_krel; auto. apply mmul_krel; auto. Qed.

(* P = V e^{-i D dt} V^dagger tensors *)
Lemma segment_propagator_krel ev1 ev2 ev V1 V2 V dt : evrel ev1 ev2 ev -> krel V1 V2 V ->
  krel (segment_propagator RO d1 ev1 V1 dt) (segment_propagator RO d2 ev2 V2 dt) (segment_propagator RO D ev V dt).
Proof.
  intros He HV i k Hi Hk. unfold segment_propagator. rewrite !mget_mbuild by auto.
  set (g := fun j1 j2 => cmul' (cmul' (cmul' (mget RO V1 (i / d2) j1) (cexp' (oneg RO (omul RO dt (vg RO ev1 j1))))) (cconj' (mget RO V1 (k / d2) j1)))
                         (cmul' (cmul' (mget RO V2 (i mod d2) j2) (cexp' (oneg RO (omul RO dt (vg RO ev2 j2))))) (cconj' (mget RO V2 (k mod d2) j2)))).
  rewrite (csumn_ext D _ (fun j => g (j / d2) (j mod d2))).
  2:{ intros j Hj. unfold g. rewrite !HV by auto. rewrite He by auto. rewrite cconj_mul.
      replace (oneg RO (omul RO dt (Rplus (vg RO ev1 (j / d2)) (vg RO ev2 (j mod d2)))))
        with (Rplus (oneg RO (omul RO dt (vg RO ev1 (j / d2)))) (oneg RO (omul RO dt (vg RO ev2 (j mod d2))))) by (simpl; ring).
      rewrite cexp_add. ring. }
  rewrite (csumn_prod_split d1 d2 g). unfold g. rewrite csumn_mul_sums. reflexivity.
Qed.

Inductive Forall3 {A B C} (P : A -> B -> C -> Prop) : list A -> list B -> list C -> Prop :=
  | F3nil : Forall3 P [] [] []
  | F3cons x y z l1 l2 l3 : P x y z -> Forall3 P l1 l2 l3 -> Forall3 P (x :: l1) (y :: l2) (z :: l3).

Lemma cumulative_krel evs1 evs2 evs Vs1 Vs2 Vs dts Q1 Q2 Q :
  Forall3 evrel evs1 evs2 evs -> Forall3 krel Vs1 Vs2 Vs -> krel Q1 Q2 Q ->
  Forall3 krel (cumulative RO d1 evs1 Vs1 dts Q1) (cumulative RO d2 evs2 Vs2 dts Q2) (cumulative RO D evs Vs dts Q).
Proof.
  intros He. revert Vs1 Vs2 Vs dts Q1 Q2 Q. induction He; intros Vs1 Vs2 Vs dts Q1 Q2 Q HV HQ.
  - simpl. repeat constructor; auto.
  - destruct HV; simpl. repeat constructor; auto.
    destruct dts as [|dt dts]. repeat constructor; auto.
    constructor; auto. apply IHHe; auto. apply mmul_krel; auto. apply segment_propagator_krel; auto.
Qed.
(* propagators of the product data are the Kronecker products of the propagators *)
Theorem propagators_krel evs1 evs2 evs Vs1 Vs2 Vs dts :
  Forall3 evrel evs1 evs2 evs -> Forall3 krel Vs1 Vs2 Vs ->
  Forall3 krel (propagators RO d1 evs1 Vs1 dts) (propagators RO d2 evs2 Vs2 dts) (propagators RO D evs Vs dts).
Proof. intros. unfold propagators. apply cumulative_krel; auto. apply mid_krel. Qed.

(* ---------- the control matrix of B (x) 1 in a product basis ---------- *)
Lemma foi_entry_shift thr w a a' b dt : foi_entry RO thr w (a + b)%R (a' + b)%R dt = foi_entry RO thr w a a' dt.
Proof.
  unfold foi_entry. replace (oadd RO w (osub RO (a + b)%R (a' + b)%R)) with (oadd RO w (osub RO a a')) by (simpl; ring).
  reflexivity.
Qed.

Lemma unitary_transform_id U : funitary d2 (toF U) -> feq d2 (toF (transform_by_unitary RO d2 U (mid RO d2))) fid.
Proof.
  intros [H1 _]. unfold transform_by_unitary.
  eapply feq_trans. apply toF_mmul.
  eapply feq_trans. apply fmul_ext. apply toF_madj. eapply feq_trans. apply toF_mmul. eapply feq_trans.
  apply fmul_ext. apply toF_mid. apply feq_refl. apply fmul_id_l. exact H1.
Qed.
Lemma unitary_transform_trace U A : funitary d2 (toF U) ->
  mtrace RO d2 (transform_by_unitary RO d2 U A) = mtrace RO d2 A.
Proof.
  intros [_ H2]. rewrite !mtrace_ftr. unfold transform_by_unitary.
  rewrite (ftr_ext d2 _ (fmul d2 (fadj (toF U)) (fmul d2 (toF A) (toF U)))).
  2:{ eapply feq_trans. apply toF_mmul. apply fmul_ext. apply toF_madj. apply toF_mmul. }
  rewrite ftr_cyclic.
  rewrite (ftr_ext d2 _ (fmul d2 (toF A) (fmul d2 (toF U) (fadj (toF U))))) by (apply feq_sym, fmul_assoc).
  apply ftr_ext. eapply feq_trans. apply fmul_ext. apply feq_refl. exact H2. apply fmul_id_r.
Qed.
Lemma funitary_mmul U W : funitary d2 (toF U) -> funitary d2 (toF W) -> funitary d2 (toF (mmul RO d2 (madj RO d2 U) W)).
Proof.
  intros HU HW.
  assert (E : feq d2 (toF (mmul RO d2 (madj RO d2 U) W)) (fmul d2 (fadj (toF U)) (toF W))).
  { eapply feq_trans. apply toF_mmul. apply fmul_ext. apply toF_madj. apply feq_refl. }
  assert (Ua : funitary d2 (fadj (toF U))).
  { destruct HU as [A1 A2]. split.
    - eapply feq_trans. 2: exact A2. apply fmul_ext. intros i j _ _. apply fadj_invol. apply feq_refl.
    - eapply feq_trans. 2: exact A1. apply fmul_ext. apply feq_refl. intros i j _ _. apply fadj_invol. }
  pose proof (funitary_mul d2 _ _ Ua HW) as HM.
  destruct HM as [M1 M2].
  assert (Ea : feq d2 (fadj (toF (mmul RO d2 (madj RO d2 U) W))) (fadj (fmul d2 (fadj (toF U)) (toF W)))).
  { intros i j Hi Hj. unfold fadj. rewrite E; auto. }
  split; (eapply feq_trans; [apply fmul_ext; eassumption|]); auto.
Qed.

(* the inner contraction of cm_step for one (noise operator, basis element, frequency) *)
Definition cm_contract (d : nat) (thr w : R) (ev : list R) (dt : R) (NT BT : Mat (T:=R)) : Cx :=
  csumn' d (fun m => csumn' d (fun n =>
    cmul' (cmul' (mget RO NT m n) (mget RO (foi RO d thr w ev dt) m n)) (mget RO BT n m))).

Lemma cm_contract_embed thr w ev1 ev2 ev dt NT1 NT BT1 BT2 BT :
  evrel ev1 ev2 ev -> krel NT1 (mid RO d2) NT -> krel BT1 BT2 BT ->
  cm_contract D thr w ev dt NT BT = cmul' (cm_contract d1 thr w ev1 dt NT1 BT1) (mtrace RO d2 BT2).
Proof.
  intros He HN HB. unfold cm_contract, mtrace.
  (* split both sums over (index / d2, index mod d2); the identity on the second factor collapses n2 = m2 *)
  set (g := fun m1 m2 n1 n2 : nat =>
     cmul' (cmul' (cmul' (mget RO NT1 m1 n1) (if Nat.eqb m2 n2 then 1c else 0c))
                  (foi_entry RO thr w (vg RO ev1 m1 + vg RO ev2 m2)%R (vg RO ev1 n1 + vg RO ev2 n2)%R dt))
           (cmul' (mget RO BT1 n1 m1) (mget RO BT2 n2 m2))).
  set (G := fun m1 m2 => csumn' d1 (fun n1 => csumn' d2 (fun n2 => g m1 m2 n1 n2))).
  rewrite (csumn_ext D _ (fun m => G (m / d2) (m mod d2))).
  2:{ intros m Hm. unfold G.
      rewrite (csumn_ext D _ (fun n => g (m / d2) (m mod d2) (n / d2) (n mod d2))).
      apply (csumn_prod_split d1 d2 (g (m / d2) (m mod d2))).
      intros n Hn. unfold g. rewrite HN, HB by auto. unfold foi. rewrite mget_mbuild by auto.
      rewrite !He by auto. unfold mid. rewrite mget_mbuild by auto. reflexivity. }
  rewrite (csumn_prod_split d1 d2 G). unfold G.
  rewrite <- csumn_mul_r.
  apply csumn_ext. intros m1 Hm1.
  rewrite csumn_mul_sums. rewrite (csumn_swap d1 d2).
  apply csumn_ext. intros m2 Hm2. apply csumn_ext. intros n1 Hn1.
  set (X := fun n2 => cmul' (cmul' (mget RO NT1 m1 n1)
                 (foi_entry RO thr w (vg RO ev1 m1 + vg RO ev2 m2)%R (vg RO ev1 n1 + vg RO ev2 n2)%R dt))
               (cmul' (mget RO BT1 n1 m1) (mget RO BT2 n2 m2))).
  rewrite (csumn_ext d2 _ (fun n2 => if Nat.eqb m2 n2 then X n2 else 0c)).
  2:{ intros n2 _. unfold g, X. destruct (Nat.eqb m2 n2); ring. }
  rewrite (csumn_delta d2 m2 X Hm2). unfold X. rewrite foi_entry_shift.
  unfold foi. rewrite mget_mbuild by auto. ring.
Qed.

(* one step of the control matrix: rows of B (x) 1, product basis, entry (a, k*K2 + l) *)
Lemma nthm_map' (f : Mat (T:=R) -> Mat (T:=R)) l j : j < length l -> nthm (map f l) j = f (nthm l j).
Proof. apply nthm_map. Qed.

Lemma nthm_map_foi d thr ev dt omega o : o < length omega ->
  nthm (map (fun w => foi RO d thr w ev dt) omega) o = foi RO d thr (vg RO omega o) ev dt.
Proof.
  intros H. unfold nthm. rewrite (nth_indep _ [] (foi RO d thr 0%R ev dt)) by (rewrite map_length; auto).
  rewrite (map_nth (fun w => foi RO d thr w ev dt)). reflexivity.
Qed.

Section Step.
Variables (K1 K2 na : nat).
Variables (basis1 basis2 basis ns1 ns : list (Mat (T:=R))).
Hypothesis HK1 : length basis1 = K1.
Hypothesis HK : length basis = K1 * K2.
Hypothesis Hbasis : forall k l, k < K1 -> l < K2 -> krel (nthm basis1 k) (nthm basis2 l) (nthm basis (k * K2 + l)).
Hypothesis Hn1 : length ns1 = na.
Hypothesis Hn : length ns = na.
Hypothesis Hns : forall a, a < na -> krel (nthm ns1 a) (mid RO d2) (nthm ns a).

Theorem cm_step_embed thr ev1 ev2 ev V1 V2 V Q1 Q2 Q tg dt omega c a k l o :
  evrel ev1 ev2 ev -> krel V1 V2 V -> krel Q1 Q2 Q -> funitary d2 (toF V2) -> funitary d2 (toF Q2) ->
  a < na -> k < K1 -> l < K2 -> o < length omega ->
  a3get RO (cm_step RO D thr ev V Q tg dt omega basis ns c) a (k * K2 + l) o =
  cmul' (a3get RO (cm_step RO d1 thr ev1 V1 Q1 tg dt omega basis1 ns1 c) a k o) (mtrace RO d2 (nthm basis2 l)).
Proof.
  intros He HV HQ UV UQ Ha Hk Hl Ho.
  assert (Hkl : k * K2 + l < K1 * K2) by (apply pair_lt_prod; auto).
  unfold cm_step. rewrite Hn, Hn1, HK, HK1. rewrite !a3get_a3build by auto.
  rewrite !nthm_map by (rewrite ?Hn, ?Hn1, ?HK, ?HK1; auto).
  rewrite !nthm_map_foi by auto.
  set (W := mmul RO D (madj RO D Q) V). set (W1 := mmul RO d1 (madj RO d1 Q1) V1). set (W2 := mmul RO d2 (madj RO d2 Q2) V2).
  assert (HW : krel W1 W2 W) by (apply mmul_krel; auto; apply madj_krel; auto).
  assert (UW : funitary d2 (toF W2)) by (apply funitary_mmul; auto).
  (* V^dagger (B (x) 1) V = (V1^dagger B V1) (x) 1 *)
  assert (HNT : krel (transform_by_unitary RO d1 V1 (nthm ns1 a)) (mid RO d2) (transform_by_unitary RO D V (nthm ns a))).
  { pose proof (transform_krel V1 V2 V _ _ _ HV (Hns a Ha)) as H0.
    intros i j Hi Hj. rewrite (H0 i j Hi Hj). f_equal.
    pose proof (unitary_transform_id V2 UV (i mod d2) (j mod d2) (ml i Hi) (ml j Hj)) as E.
    unfold toF in E. rewrite E. unfold mid. rewrite mget_mbuild by auto. reflexivity. }
  pose proof (transform_krel W1 W2 W _ _ _ HW (Hbasis k l Hk Hl)) as HBT.
  fold (cm_contract D thr (vg RO omega o) ev dt (transform_by_unitary RO D V (nthm ns a)) (transform_by_unitary RO D W (nthm basis (k * K2 + l)))).
  fold (cm_contract d1 thr (vg RO omega o) ev1 dt (transform_by_unitary RO d1 V1 (nthm ns1 a)) (transform_by_unitary RO d1 W1 (nthm basis1 k))).
  rewrite (cm_contract_embed thr (vg RO omega o) ev1 ev2 ev dt _ _ _ _ _ He HNT HBT).
  rewrite (unitary_transform_trace W2 _ UW).
  apply c_eq; csimp; ring.
Qed.
End Step.
End K.

(* ---------- propagators are unitary when the eigenvector matrices are ---------- *)
Lemma funitary_ext' d U U' : feq d U U' -> funitary d U -> funitary d U'.
Proof.
  intros H [H1 H2].
  assert (Ha : feq d (fadj U) (fadj U')) by (intros i j Hi Hj; unfold fadj; rewrite H; auto).
  split; (eapply feq_trans; [apply fmul_ext; apply feq_sym; eassumption|]); auto.
Qed.
Lemma funitary_adj d U : funitary d U -> funitary d (fadj U).
Proof.
  intros [A1 A2]. split.
  - eapply feq_trans. 2: exact A2. apply fmul_ext. intros i j _ _. apply fadj_invol. apply feq_refl.
  - eapply feq_trans. 2: exact A1. apply fmul_ext. apply feq_refl. intros i j _ _. apply fadj_invol.
Qed.
Definition fphase (dt : R) (ev : list R) : fmat :=
  fun i j => if Nat.eqb i j then cexp' (oneg RO (omul RO dt (vg RO ev i))) else 0c.
Lemma fphase_unitary d dt ev : funitary d (fphase dt ev).
Proof.
  assert (G : forall i j, i < d -> j < d ->
            csumn' d (fun k => cmul' (cconj' (fphase dt ev k i)) (fphase dt ev k j)) = fid i j).
  { intros i j Hi Hj. unfold fphase, fid.
    rewrite (csumn_ext d _ (fun k => if Nat.eqb i k then (if Nat.eqb k j then cmul' (cconj' (cexp' (oneg RO (omul RO dt (vg RO ev k))))) (cexp' (oneg RO (omul RO dt (vg RO ev k)))) else 0c) else 0c)).
    2:{ intros k _. unfold fphase. rewrite (Nat.eqb_sym k i). destruct (Nat.eqb i k); destruct (Nat.eqb k j); rewrite ?cconj_0; ring. }
    rewrite (csumn_delta d i (fun k => if Nat.eqb k j then _ else 0c)) by auto.
    destruct (Nat.eqb i j); auto. apply cexp_conj_mul. }
  split; intros i j Hi Hj; unfold fmul, fadj.
  - apply G; auto.
  - rewrite <- (G i j Hi Hj). apply csumn_ext. intros k _. unfold fphase.
    rewrite (Nat.eqb_sym k i), (Nat.eqb_sym k j).
    destruct (Nat.eqb_spec i k) as [->|]; destruct (Nat.eqb_spec j k) as [->|]; rewrite ?cconj_0; ring.
Qed.
Lemma segment_propagator_factor d ev V dt :
  feq d (toF (segment_propagator RO d ev V dt)) (fmul d (toF V) (fmul d (fphase dt ev) (fadj (toF V)))).
Proof.
  intros i k Hi Hk. unfold toF, segment_propagator. rewrite mget_mbuild by auto. unfold fmul.
  apply csumn_ext. intros j Hj.
  rewrite (csumn_ext d _ (fun m => if Nat.eqb j m then cmul' (cexp' (oneg RO (omul RO dt (vg RO ev j)))) (fadj (mget RO V) m k) else 0c)).
  2:{ intros m _. unfold fphase. destruct (Nat.eqb j m); ring. }
  rewrite (csumn_delta d j (fun m => cmul' (cexp' (oneg RO (omul RO dt (vg RO ev j)))) (fadj (mget RO V) m k))) by auto.
  unfold fadj. ring.
Qed.
Lemma segment_propagator_unitary d ev V dt : funitary d (toF V) -> funitary d (toF (segment_propagator RO d ev V dt)).
Proof.
  intros HV. eapply funitary_ext'. apply feq_sym, segment_propagator_factor.
  apply funitary_mul; auto. apply funitary_mul. apply fphase_unitary. apply funitary_adj; auto.
Qed.
Lemma cumulative_unitary d evs Vs dts Q : Forall (fun V => funitary d (toF V)) Vs -> funitary d (toF Q) ->
  Forall (fun P => funitary d (toF P)) (cumulative RO d evs Vs dts Q).
Proof.
  revert Vs dts Q. induction evs as [|ev evs IH]; intros Vs dts Q HV HQ; simpl. constructor; [exact HQ|constructor].
  destruct Vs as [|V Vs]. constructor; [exact HQ|constructor]. destruct dts as [|dt dts]. constructor; [exact HQ|constructor].
  inversion HV; subst. constructor; auto. apply IH; auto.
  eapply funitary_ext'. apply feq_sym, toF_mmul. apply funitary_mul; auto. apply segment_propagator_unitary; auto.
Qed.
Theorem propagators_unitary d evs Vs dts : Forall (fun V => funitary d (toF V)) Vs ->
  Forall (fun P => funitary d (toF P)) (propagators RO d evs Vs dts).
Proof.
  intros. unfold propagators. apply cumulative_unitary; auto.
  eapply funitary_ext'. apply feq_sym, toF_mid. apply funitary_id.
Qed.

(* ---------- the whole control matrix ---------- *)
Section Loop.
Variables (d1 d2 K1 K2 na : nat).
Variables (basis1 basis2 basis ns1 ns : list (Mat (T:=R))).
Hypothesis HK1 : length basis1 = K1.
Hypothesis HK : length basis = K1 * K2.
Hypothesis Hbasis : forall k l, k < K1 -> l < K2 -> krel d1 d2 (nthm basis1 k) (nthm basis2 l) (nthm basis (k * K2 + l)).
Hypothesis Hn1 : length ns1 = na.
Hypothesis Hn : length ns = na.
Hypothesis Hns : forall a, a < na -> krel d1 d2 (nthm ns1 a) (mid RO d2) (nthm ns a).
Local Notation D := (d1 * d2).

Definition embrel (no : nat) (B1 Bm : Arr3 (T:=R)) : Prop :=
  forall a k l o, a < na -> k < K1 -> l < K2 -> o < no ->
    a3get RO Bm a (k * K2 + l) o = cmul' (a3get RO B1 a k o) (mtrace RO d2 (nthm basis2 l)).

Lemma cm_loop_embed thr omega : forall evs1 evs2 evs, Forall3 (evrel d1 d2) evs1 evs2 evs ->
  forall Vs1 Vs2 Vs Qs1 Qs2 Qs ts dts cs acc1 acc,
  Forall3 (krel d1 d2) Vs1 Vs2 Vs -> Forall3 (krel d1 d2) Qs1 Qs2 Qs ->
  Forall (fun V => funitary d2 (toF V)) Vs2 -> Forall (fun Q => funitary d2 (toF Q)) Qs2 ->
  embrel (length omega) acc1 acc ->
  embrel (length omega) (cm_scratch_loop RO d1 thr evs1 Vs1 Qs1 ts dts omega basis1 ns1 cs acc1)
                        (cm_scratch_loop RO D thr evs Vs Qs ts dts omega basis ns cs acc).
Proof.
  intros evs1 evs2 evs He. induction He; intros Vs1 Vs2 Vs Qs1 Qs2 Qs ts dts cs acc1 acc HV HQ UV UQ Hacc.
  - simpl. auto.
  - destruct HV; simpl; auto. destruct HQ; simpl; auto.
    destruct ts as [|tg ts]; auto. destruct dts as [|dt dts]; auto. destruct cs as [|c cs]; auto.
    inversion UV; subst. inversion UQ; subst.
    eapply IHHe; eauto.
    intros a k l o Ha Hk Hl Ho. rewrite Hn, Hn1, HK, HK1.
    assert (Hkl : k * K2 + l < K1 * K2) by (apply pair_lt_prod; auto).
    rewrite !a3get_a3add by auto. rewrite Hacc by auto.
    rewrite (cm_step_embed d1 d2 K1 K2 na basis1 basis2 basis ns1 ns HK1 HK Hbasis Hn1 Hn Hns
               thr x y z x0 y0 z0 x1 y1 z1 tg dt omega c a k l o) by auto.
    ring.
Qed.

(* control matrix of the noise operators B_a (x) 1 of the product pulse, computed from scratch by the numeric
   engine from the tensor-product spectral data, in terms of the control matrix of the first pulse *)
Theorem control_matrix_embed thr evs1 evs2 evs Vs1 Vs2 Vs omega nc dts :
  Forall3 (evrel d1 d2) evs1 evs2 evs -> Forall3 (krel d1 d2) Vs1 Vs2 Vs ->
  Forall (fun V => funitary d2 (toF V)) Vs2 ->
  embrel (length omega)
    (control_matrix_from_scratch RO d1 thr evs1 Vs1 (propagators RO d1 evs1 Vs1 dts) omega basis1 ns1 nc dts (times RO dts))
    (control_matrix_from_scratch RO D thr evs Vs (propagators RO D evs Vs dts) omega basis ns nc dts (times RO dts)).
Proof.
  intros He HV UV. unfold control_matrix_from_scratch.
  apply (cm_loop_embed thr omega evs1 evs2 evs He Vs1 Vs2 Vs (propagators RO d1 evs1 Vs1 dts) (propagators RO d2 evs2 Vs2 dts)); auto.
  - apply propagators_krel; auto.
  - apply propagators_unitary; auto.
  - intros a k l o Ha Hk Hl Ho. rewrite Hn, Hn1, HK, HK1.
    assert (Hkl : k * K2 + l < K1 * K2) by (apply pair_lt_prod; auto).
    rewrite !a3get_a3zero by auto. ring.
Qed.

(* with an orthonormal second basis whose first element is 1/sqrt(d2): tr(D_l) = sqrt(d2) delta_{l0} *)
Hypothesis Honb : forall l m, l < K2 -> m < K2 ->
  mtrprod RO d2 (madj RO d2 (nthm basis2 l)) (nthm basis2 m) = if Nat.eqb l m then 1c else 0c.
Hypothesis Hd2 : (0 < d2)%nat.
Hypothesis HK2 : (0 < K2)%nat.
Hypothesis HD0 : feq d2 (toF (nthm basis2 0)) (fscal (cofr RO (Rinv (sqrt (INR d2)))) fid).

Lemma basis2_trace l : l < K2 -> mtrace RO d2 (nthm basis2 l) = if Nat.eqb l 0 then cofr RO (sqrt (INR d2)) else 0c.
Proof.
  intros Hl. pose proof (Honb 0 l HK2 Hl) as E. rewrite mtrprod_ftr in E.
  assert (E2 : ftr d2 (fmul d2 (toF (madj RO d2 (nthm basis2 0))) (toF (nthm basis2 l)))
             = cmul' (cofr RO (Rinv (sqrt (INR d2)))) (mtrace RO d2 (nthm basis2 l))).
  { rewrite mtrace_ftr. unfold ftr. rewrite <- csumn_mul_l. apply csumn_ext. intros i Hi.
    unfold fmul.
    rewrite (csumn_ext d2 _ (fun k => if Nat.eqb i k then cmul' (cofr RO (Rinv (sqrt (INR d2)))) (toF (nthm basis2 l) k i) else 0c)).
    2:{ intros k Hk. rewrite (toF_madj d2 (nthm basis2 0) i k Hi Hk). unfold fadj. rewrite (HD0 k i Hk Hi).
        unfold fscal, fid. rewrite (Nat.eqb_sym k i). destruct (Nat.eqb i k).
        - apply c_eq; csimp; ring.
        - apply c_eq; csimp; ring. }
    rewrite (csumn_delta d2 i (fun k => cmul' (cofr RO (Rinv (sqrt (INR d2)))) (toF (nthm basis2 l) k i))) by auto. reflexivity. }
  rewrite E2 in E.
  assert (Hs : (0 < sqrt (INR d2))%R) by (apply sqrt_lt_R0, lt_0_INR; auto).
  assert (Hinv : cmul' (cofr RO (sqrt (INR d2))) (cofr RO (Rinv (sqrt (INR d2)))) = 1c).
  { apply c_eq; csimp; field; lra. }
  transitivity (cmul' (cofr RO (sqrt (INR d2))) (cmul' (cofr RO (Rinv (sqrt (INR d2)))) (mtrace RO d2 (nthm basis2 l)))).
  - rewrite cmul_assoc, Hinv. ring.
  - rewrite E. rewrite (Nat.eqb_sym l 0). destruct (Nat.eqb 0 l); ring.
Qed.

(* cm_embed: sqrt(d2) B1_{a,k} on the elements (k,0), zero on (k,l), l > 0 *)
Theorem cm_embed thr evs1 evs2 evs Vs1 Vs2 Vs omega nc dts :
  Forall3 (evrel d1 d2) evs1 evs2 evs -> Forall3 (krel d1 d2) Vs1 Vs2 Vs ->
  Forall (fun V => funitary d2 (toF V)) Vs2 ->
  let B1 := control_matrix_from_scratch RO d1 thr evs1 Vs1 (propagators RO d1 evs1 Vs1 dts) omega basis1 ns1 nc dts (times RO dts) in
  let Bm := control_matrix_from_scratch RO D thr evs Vs (propagators RO D evs Vs dts) omega basis ns nc dts (times RO dts) in
  forall a k l o, a < na -> k < K1 -> l < K2 -> o < length omega ->
    a3get RO Bm a (k * K2 + l) o =
      if Nat.eqb l 0 then cmul' (cofr RO (sqrt (INR d2))) (a3get RO B1 a k o) else 0c.
Proof.
  intros He HV UV B1 Bm a k l o Ha Hk Hl Ho.
  unfold Bm. rewrite (control_matrix_embed thr evs1 evs2 evs Vs1 Vs2 Vs omega nc dts He HV UV a k l o Ha Hk Hl Ho).
  rewrite basis2_trace by auto. fold B1. destruct (Nat.eqb l 0); ring.
Qed.
End Loop.
