(* The binary64 instance (eq64, join64): the general theorems instantiated, and the witnesses that
   delimit them: asymmetry / non-transitivity of np.allclose at the tolerance edge, a zero-duration
   segment (same Hamiltonian as a function of time, unequal pulses). *)
From Coq Require Import ZArith List Bool String PeanoNat Lia Permutation Reals Lra.
From FF Require Import Model.B64 Model.Pulse Spec.PulseSpec Proofs.PulseBase Proofs.PulseJoin Proofs.PulseCanon
  Proofs.PulseEq Proofs.B64.
Import ListNotations.
Local Open Scope nat_scope.
Local Notation length := List.length (only parsing).

Definition denot64 := denot fadd64.
Definition sep64 := sep fadd64 close_dt bclose.
Definition jdt64 := jdt fadd64.
Definition jcc64 := jcc fadd64.
Definition jnc64 := jnc fadd64.

Theorem eq64_char A B : wf A -> wf B ->
  (eq64 A B = true <->
   length (jdt64 A) = length (jdt64 B) /\
   Forall2 (fun a b => close_dt (length (basis A)) a b = true) (jdt64 A) (jdt64 B) /\
   sorted_view (c_opers A) (c_ids A) (jcc64 A) = sorted_view (c_opers B) (c_ids B) (jcc64 B) /\
   sorted_view (n_opers A) (n_ids A) (jnc64 A) = sorted_view (n_opers B) (n_ids B) (jnc64 B) /\
   basis_eq bclose (basis A) (basis B) = true).
Proof. apply eq_char. Qed.

Theorem eq64_iff_same_denotation A B : wf A -> wf B -> sep64 A B -> (eq64 A B = true <-> denot64 A = denot64 B).
Proof. apply eq_iff_same_denotation; [exact close_dt_refl | exact bclose_refl]. Qed.

Theorem eq64_refl A : wf A -> eq64 A A = true.
Proof. apply eq_refl_wf; [exact close_dt_refl | exact bclose_refl]. Qed.

Theorem eq64_sym A B : wf A -> wf B -> sep64 A B -> sep64 B A -> eq64 A B = eq64 B A.
Proof. apply eq_sym_sep; [exact close_dt_refl | exact bclose_refl]. Qed.

Theorem eq64_trans A B C : wf A -> wf B -> wf C -> sep64 A B -> sep64 B C -> sep64 A C ->
  eq64 A B = true -> eq64 B C = true -> eq64 A C = true.
Proof. apply eq_trans_sep; [exact close_dt_refl | exact bclose_refl]. Qed.

(* the joined arrays of the implementation, read by columns, are the canonical segments *)
Theorem join64_canon p :
  Forall (fun r => length r = length (dt p)) (c_coeffs p) ->
  Forall (fun r => length r = length (dt p)) (n_coeffs p) -> 1 <= length (dt p) ->
  segs_of (jcc64 p) (jnc64 p) (jdt64 p) = canon fadd64 p.
Proof.
  intros Hc Hn HG. pose proof (join_canon fadd64 p Hc Hn HG) as K.
  unfold jcc64, jnc64, jdt64, jcc, jnc, jdt.
  destruct (join_equal_segments fadd64 p) as [[cc nc] dts]. exact K.
Qed.

(* ------------------------------------------------------------------ concrete pulses for the witnesses *)
Local Open Scope Z_scope.
Definition one : cnum := ((1, 0), (0, 0)).
Definition zero : cnum := ((0, 0), (0, 0)).
Definition mX : mat := [[zero; one]; [one; zero]].
Definition mZ : mat := [[one; zero]; [zero; ((-1, 0), (0, 0))]].
Definition mI : mat := [[one; zero]; [zero; one]].
Definition basis4 : list mat := [mI; mX; mZ; mX].
(* one control operator X ("a"), one noise operator Z ("n"), coefficient rows cc / nc, durations dts *)
Definition mk (cc nc dts : list num) : pulse :=
  mkPulse [mX] ["a"%string] [cc] [mZ] ["n"%string] [nc] dts 2 basis4.

Lemma wf_mk cc nc dts : length cc = length dts -> length nc = length dts -> (1 <= length dts)%nat -> wf (mk cc nc dts).
Proof.
  intros H1 H2 H3. unfold wf, mk; simpl. repeat split; auto; try (repeat constructor; auto; fail).
  all: constructor; [intros []|constructor].
Qed.

(* np.allclose is not symmetric at the tolerance edge: isclose(a, b) but not isclose(b, a) *)
Definition edge_a : num := (1768124999904875, -50).
Definition edge_b : num := (3536250000163377, -51).
Theorem eq_sym_refuted_at_edge :
  exists A B, wf A /\ wf B /\ eq64 A B = true /\ eq64 B A = false.
Proof.
  exists (mk [(1, 0)] [(1, 0)] [edge_a]), (mk [(1, 0)] [(1, 0)] [edge_b]).
  split; [apply wf_mk; simpl; lia|]. split; [apply wf_mk; simpl; lia|].
  split; vm_compute; reflexivity.
Qed.

(* nor transitive: 1 ~ 1+0.9e-10 ~ 1+1.8e-10 but not 1 ~ 1+1.8e-10 *)
Theorem eq_trans_refuted_at_edge :
  exists A B C, wf A /\ wf B /\ wf C /\ eq64 A B = true /\ eq64 B C = true /\ eq64 A C = false.
Proof.
  exists (mk [(1, 0)] [(1, 0)] [(1, 0)]), (mk [(1, 0)] [(1, 0)] [(1125899906943955, -50)]),
         (mk [(1, 0)] [(1, 0)] [(562949953522643, -49)]).
  repeat (split; [apply wf_mk; simpl; lia|]).
  repeat split; vm_compute; reflexivity.
Qed.

(* the hypotheses of the symmetric / transitive laws are satisfiable on non-trivial pulses:
   a pulse with two equal consecutive segments and the same pulse written merged *)
Definition split_pulse : pulse := mk [(1, 0); (1, 0); (1, -1)] [(1, 0); (1, 0); (3, 0)] [(1, -1); (1, -2); (1, 0)].
Definition merged_pulse : pulse := mk [(1, 0); (1, -1)] [(1, 0); (3, 0)] [(3, -2); (1, 0)].
Example eq_merged_example :
  wf split_pulse /\ wf merged_pulse /\ sep64 split_pulse merged_pulse /\ sep64 merged_pulse split_pulse /\
  eq64 split_pulse merged_pulse = true /\ eq64 merged_pulse split_pulse = true /\
  denot64 split_pulse = denot64 merged_pulse.
Proof.
  split; [apply wf_mk; simpl; lia|]. split; [apply wf_mk; simpl; lia|].
  split; [|split].
  - split; [intros _ | intros _; reflexivity].
    change (jdt fadd64 split_pulse) with (jdt64 split_pulse). change (jdt fadd64 merged_pulse) with (jdt64 merged_pulse).
    replace (jdt64 split_pulse) with [(3, -2); (1, 0)] by (vm_compute; reflexivity).
    replace (jdt64 merged_pulse) with [(3, -2); (1, 0)] by (vm_compute; reflexivity).
    repeat (constructor; [intros _; reflexivity|]). constructor.
  - split; [intros _ | intros _; reflexivity].
    change (jdt fadd64 split_pulse) with (jdt64 split_pulse). change (jdt fadd64 merged_pulse) with (jdt64 merged_pulse).
    replace (jdt64 split_pulse) with [(3, -2); (1, 0)] by (vm_compute; reflexivity).
    replace (jdt64 merged_pulse) with [(3, -2); (1, 0)] by (vm_compute; reflexivity).
    repeat (constructor; [intros _; reflexivity|]). constructor.
  - repeat split; vm_compute; reflexivity.
Qed.

(* ------------------------------------------------------------------ zero-duration segments *)
Local Open Scope R_scope.
(* [X at 1 for 1/2, X at 2 for 0, X at 1 for 1/2] and [X at 1 for 1] are the same function of time.
   Since fix ac70929 they compare equal; before, __eq__ distinguished them. *)
Definition zd_split : pulse := mk [(1, 0); (1, 1); (1, 0)]%Z [(1, 0); (1, 0); (1, 0)]%Z [(1, -1); (0, 0); (1, -1)]%Z.
Definition zd_merged : pulse := mk [(1, 0)]%Z [(1, 0)]%Z [(1, 0)]%Z.
Lemma zd_same_time_function t : at_time (segments zd_split) t = at_time (segments zd_merged) t.
Proof.
  unfold zd_split, zd_merged, mk, segments, segs_of. cbn -[Rlt_dec d2R].
  assert (E1 : d2R (1, -1)%Z = / 2) by (unfold d2R; simpl; lra).
  assert (E2 : d2R (0, 0)%Z = 0) by (unfold d2R; simpl; lra).
  assert (E3 : d2R (1, 0)%Z = 1) by (unfold d2R; simpl; lra).
  rewrite E1, E2, E3.
  destruct (Rlt_dec t (/ 2)); destruct (Rlt_dec t 1); try lra; try reflexivity.
  - destruct (Rlt_dec (t - / 2) 0); try lra. destruct (Rlt_dec (t - / 2 - 0) (/ 2)); try lra. reflexivity.
  - destruct (Rlt_dec (t - / 2) 0); try lra. destruct (Rlt_dec (t - / 2 - 0) (/ 2)); try lra. reflexivity.
Qed.
Theorem eq_zero_duration_example :
  wf zd_split /\ wf zd_merged /\ (forall t, at_time (segments zd_split) t = at_time (segments zd_merged) t) /\
  eq64 zd_split zd_merged = true /\ eq64 zd_merged zd_split = true.
Proof.
  split; [apply wf_mk; simpl; lia|]. split; [apply wf_mk; simpl; lia|].
  split; [exact zd_same_time_function|]. split; vm_compute; reflexivity.
Qed.
Theorem eq_time_denotation_prefix_refuted :
  exists A B, wf A /\ wf B /\ (forall t, at_time (segments A) t = at_time (segments B) t) /\
              eq64_prefix A B = false /\ eq64_prefix B A = false.
Proof.
  exists zd_split, zd_merged.
  split; [apply wf_mk; simpl; lia|]. split; [apply wf_mk; simpl; lia|].
  split; [exact zd_same_time_function|]. split; vm_compute; reflexivity.
Qed.
