(* C13 -- invariance under change of the time unit, re-segmentation and operator order.
   Part A (this file, first section): the segment integral.                               *)
From Coq Require Import ZArith Reals Lra Lia List Setoid Morphisms Permutation.
From Coquelicot Require Import Coquelicot.
From FF Require Import Base.Ops Inst.RInst Base.RAlg Model.Numeric Proofs.Foi Proofs.CMBase Proofs.CMIntegral.
Import ListNotations.
Local Open Scope R_scope.

(* ---------- change of the time unit: the segment integral ---------- *)

(* durations times lam, frequencies and energies divided by lam: the mask |x dt| is unchanged and
   the value is multiplied by lam -- on BOTH branches, for every threshold *)
Theorem time_scaling_foi thr w evm evn dt lam : 0 < lam ->
  foi_entry RO thr (w / lam) (evm / lam) (evn / lam) (lam * dt) = cscal RO lam (foi_entry RO thr w evm evn dt).
Proof.
  intros Hl. unfold foi_entry, cite, cscal; simpl.
  set (x := w + (evm - evn)).
  replace (w / lam + (evm / lam - evn / lam)) with (x / lam) by (unfold x; field; lra).
  replace (x / lam * (lam * dt)) with (x * dt) by (field; lra).
  destruct (Rgtb (Rabs (x * dt)) thr); simpl.
  - f_equal; unfold Rdiv; rewrite Rinv_mult, Rinv_inv; ring.
  - f_equal; ring.
Qed.

(* the pre-fix mask of the package: |x| > thr in absolute units (commit 00b814e) *)
Definition foi_entry_absmask (thr w evm evn dt : R) : Cx :=
  let x := w + (evm - evn) in
  let xt := x * dt in
  cite RO (Rgtb (Rabs x) thr) (sin xt / x, (1 - cos xt) / x) (dt, 0).

(* with the absolute mask the scaling law fails: threshold 1e-7, w = 1, dt = 1, time unit x 1e8 *)
Theorem time_scaling_refuted_absolute_mask :
  exists thr w evm evn dt lam, 0 < lam /\ 0 < thr /\
    foi_entry_absmask thr (w / lam) (evm / lam) (evn / lam) (lam * dt)
    <> cscal RO lam (foi_entry_absmask thr w evm evn dt).
Proof.
  exists (/ 10000000), 1, 0, 0, 1, 100000000.
  split. lra. split. lra.
  unfold foi_entry_absmask, cite, cscal; simpl.
  replace (1 / 100000000 + (0 / 100000000 - 0 / 100000000)) with (/ 100000000) by field.
  replace (1 + (0 - 0)) with 1 by ring.
  assert (H1 : Rgtb (Rabs (/ 100000000)) (/ 10000000) = false).
  { apply Rgtb_false. rewrite Rabs_right by lra. lra. }
  assert (H2 : Rgtb (Rabs 1) (/ 10000000) = true).
  { apply Rgtb_true. rewrite Rabs_R1. lra. }
  rewrite H1, H2. simpl. intros E. injection E as E1 _.
  assert (Hs : sin 1 < 1) by (apply sin_lt_x; lra).
  replace (1 * 1) with 1 in E1 by ring. unfold Rdiv in E1. rewrite Rinv_1 in E1. lra.
Qed.

(* ---------- zero-duration segments: the segment integral vanishes identically ---------- *)
Theorem foi_entry_zero_duration thr w evm evn : foi_entry RO thr w evm evn 0 = (0, 0).
Proof.
  unfold foi_entry, cite; simpl. rewrite Rmult_0_r, sin_0, cos_0.
  destruct (Rgtb (Rabs 0) thr); simpl; f_equal; unfold Rdiv; ring.
Qed.

(* =====================================================================================
   Arrays: shape and extensionality
   ===================================================================================== *)
Definition a3shaped (n1 n2 n3 : nat) (A : Arr3 (T:=R)) : Prop :=
  A = a3build n1 n2 n3 (fun a k o => a3get RO A a k o).
Lemma a3build_shaped n1 n2 n3 f : a3shaped n1 n2 n3 (a3build n1 n2 n3 f).
Proof. unfold a3shaped. apply a3build_ext. intros. rewrite a3get_a3build by auto. reflexivity. Qed.
Lemma a3_ext n1 n2 n3 A A' : a3shaped n1 n2 n3 A -> a3shaped n1 n2 n3 A' ->
  (forall a k o, (a < n1)%nat -> (k < n2)%nat -> (o < n3)%nat -> a3get RO A a k o = a3get RO A' a k o) -> A = A'.
Proof. intros H H' E. rewrite H, H'. apply a3build_ext. exact E. Qed.

Definition a3scal (n1 n2 n3 : nat) (z : R) (A : Arr3 (T:=R)) : Arr3 (T:=R) :=
  a3build n1 n2 n3 (fun a k o => cscal RO z (a3get RO A a k o)).

Lemma cm_step_shaped d thr ev V Q tg dt om bs ns nc :
  a3shaped (length ns) (length bs) (length om) (cm_step RO d thr ev V Q tg dt om bs ns nc).
Proof. unfold cm_step. apply a3build_shaped. Qed.
Lemma cm_loop_shaped d thr om bs ns : forall evs Vs Qs ts dts ncs acc,
  a3shaped (length ns) (length bs) (length om) acc ->
  a3shaped (length ns) (length bs) (length om) (cm_scratch_loop RO d thr evs Vs Qs ts dts om bs ns ncs acc).
Proof.
  induction evs as [|ev evs IH]; intros Vs Qs ts dts ncs acc Ha; [exact Ha|].
  destruct Vs; [exact Ha|]. destruct Qs; [exact Ha|]. destruct ts; [exact Ha|]. destruct dts; [exact Ha|].
  destruct ncs; [exact Ha|]. simpl. apply IH. apply a3build_shaped.
Qed.
Lemma cm_shaped d thr evs Vs Qs om bs ns nc dts ts :
  a3shaped (length ns) (length bs) (length om) (control_matrix_from_scratch RO d thr evs Vs Qs om bs ns nc dts ts).
Proof. unfold control_matrix_from_scratch. apply cm_loop_shaped. apply a3build_shaped. Qed.

(* =====================================================================================
   Change of the time unit: control matrix x lam, filter function x lam^2
   ===================================================================================== *)
Section TimeUnit.
Variable d : nat.
Variable lam : R.
Hypothesis lam_pos : 0 < lam.

Definition sdiv (v : list R) : list R := map (fun x => x / lam) v.
Definition smul (v : list R) : list R := map (fun x => lam * x) v.

Lemma length_sdiv v : length (sdiv v) = length v.
Proof. apply map_length. Qed.
Lemma length_smul v : length (smul v) = length v.
Proof. apply map_length. Qed.
Lemma vg_sdiv v i : vg RO (sdiv v) i = vg RO v i / lam.
Proof.
  unfold vg, vget, sdiv. simpl.
  replace 0 with (0 / lam) at 1 by (unfold Rdiv; ring). apply (map_nth (fun x => x / lam)).
Qed.

Lemma time_scaling_step_entry thr ev V Q tg dt w s N Cm :
  step_entry d (foi_entry RO thr) (sdiv ev) V Q (lam * tg) (lam * dt) (w / lam) s N Cm =
  cscal RO lam (step_entry d (foi_entry RO thr) ev V Q tg dt w s N Cm).
Proof.
  unfold step_entry.
  replace (w / lam * (lam * tg)) with (w * tg) by (field; lra).
  rewrite (csumn_ext d _ (fun m => cscal RO lam (csumn' d (fun n =>
     cmul' (cmul' (mget RO (transform_by_unitary RO d V N) m n) (foi_entry RO thr w (vg RO ev m) (vg RO ev n) dt))
           (mget RO (transform_by_unitary RO d (mmul RO d (madj RO d Q) V) Cm) n m))))).
  - rewrite !cscal_cmul. rewrite (csumn_ext d _ _ (fun m _ => cscal_cmul lam _)).
    rewrite csumn_mul_l. ring.
  - intros m _. rewrite cscal_cmul, <- csumn_mul_l. apply csumn_ext. intros n _.
    rewrite !vg_sdiv, time_scaling_foi by auto. rewrite cscal_cmul. ring.
Qed.

Theorem time_scaling_cm_step thr ev V Q tg dt om bs ns nc :
  cm_step RO d thr (sdiv ev) V Q (lam * tg) (lam * dt) (sdiv om) bs ns nc =
  a3scal (length ns) (length bs) (length om) lam (cm_step RO d thr ev V Q tg dt om bs ns nc).
Proof.
  apply (a3_ext (length ns) (length bs) (length om)).
  - pose proof (cm_step_shaped d thr (sdiv ev) V Q (lam * tg) (lam * dt) (sdiv om) bs ns nc) as H.
    rewrite length_sdiv in H. exact H.
  - apply a3build_shaped.
  - intros j k o Hj Hk Ho. unfold a3scal. rewrite a3get_a3build by auto.
    rewrite !cm_step_entry by (auto; rewrite length_sdiv; auto).
    rewrite vg_sdiv. apply time_scaling_step_entry.
Qed.

(* the propagators do not change *)
Lemma time_scaling_segment_propagator ev V dt :
  segment_propagator RO d (sdiv ev) V (lam * dt) = segment_propagator RO d ev V dt.
Proof.
  unfold segment_propagator. apply mbuild_ext. intros i k _ _. apply csumn_ext. intros j _.
  rewrite vg_sdiv. simpl. replace (lam * dt * (vg RO ev j / lam)) with (dt * vg RO ev j) by (field; lra). reflexivity.
Qed.
Lemma time_scaling_cumulative : forall evs Vs dts Q,
  cumulative RO d (map sdiv evs) Vs (smul dts) Q = cumulative RO d evs Vs dts Q.
Proof.
  induction evs as [|ev evs IH]; intros Vs dts Q; [reflexivity|].
  destruct Vs as [|V Vs]; [reflexivity|]. destruct dts as [|dt dts]; [reflexivity|].
  simpl. rewrite time_scaling_segment_propagator, IH. reflexivity.
Qed.
Theorem time_scaling_propagators evs Vs dts :
  propagators RO d (map sdiv evs) Vs (smul dts) = propagators RO d evs Vs dts.
Proof. apply time_scaling_cumulative. Qed.
Lemma time_scaling_cumsum : forall dts a, cumsum_from RO (lam * a) (smul dts) = smul (cumsum_from RO a dts).
Proof.
  induction dts as [|x r IH]; intros a; simpl. reflexivity.
  rewrite <- IH. do 2 f_equal. ring.
Qed.
Theorem time_scaling_times dts : times RO (smul dts) = smul (times RO dts).
Proof. unfold times. simpl. rewrite <- time_scaling_cumsum. do 2 f_equal. ring. Qed.

Lemma time_scaling_loop thr om bs ns : forall evs Vs Qs ts dts ncs acc acc',
  acc' = a3scal (length ns) (length bs) (length om) lam acc ->
  cm_scratch_loop RO d thr (map sdiv evs) Vs Qs (smul ts) (smul dts) (sdiv om) bs ns ncs acc' =
  a3scal (length ns) (length bs) (length om) lam (cm_scratch_loop RO d thr evs Vs Qs ts dts om bs ns ncs acc).
Proof.
  induction evs as [|ev evs IH]; intros Vs Qs ts dts ncs acc acc' Ha; [exact Ha|].
  destruct Vs; [exact Ha|]. destruct Qs; [exact Ha|]. destruct ts; [exact Ha|]. destruct dts; [exact Ha|].
  destruct ncs; [exact Ha|]. simpl. apply IH.
  rewrite time_scaling_cm_step. rewrite length_sdiv. subst acc'.
  apply a3build_ext. intros a k o Ha Hk Ho. unfold a3scal.
  rewrite !a3get_a3build by auto. rewrite a3get_a3add by auto. apply c_eq; csimp; ring.
Qed.

(* general form: any propagators / times handed to the function *)
Theorem time_scaling_cm_general thr evs Vs Qs om bs ns nc dts ts :
  control_matrix_from_scratch RO d thr (map sdiv evs) Vs Qs (sdiv om) bs ns nc (smul dts) (smul ts) =
  a3scal (length ns) (length bs) (length om) lam (control_matrix_from_scratch RO d thr evs Vs Qs om bs ns nc dts ts).
Proof.
  unfold control_matrix_from_scratch. rewrite length_smul, length_sdiv.
  apply time_scaling_loop. apply a3build_ext. intros. unfold a3scal. rewrite a3get_a3zero by auto.
  apply c_eq; csimp; ring.
Qed.

(* the package's call: propagators and time grid derived from the (scaled) pulse *)
Theorem time_scaling_cm thr evs Vs om bs ns nc dts :
  control_matrix_from_scratch RO d thr (map sdiv evs) Vs (propagators RO d (map sdiv evs) Vs (smul dts))
     (sdiv om) bs ns nc (smul dts) (times RO (smul dts)) =
  a3scal (length ns) (length bs) (length om) lam
    (control_matrix_from_scratch RO d thr evs Vs (propagators RO d evs Vs dts) om bs ns nc dts (times RO dts)).
Proof. rewrite time_scaling_propagators, time_scaling_times. apply time_scaling_cm_general. Qed.

(* hence the filter function scales by lam^2 *)
Theorem time_scaling_ff na nk no Bm :
  filter_function RO na nk no (a3scal na nk no lam Bm) = a3scal na na no (lam * lam) (filter_function RO na nk no Bm).
Proof.
  unfold filter_function at 1. unfold a3scal at 2. apply a3build_ext. intros a b o Ha Hb Ho.
  rewrite ff_entry by auto. rewrite !cscal_cmul, <- csumn_mul_l. apply csumn_ext. intros k Hk.
  unfold a3scal. rewrite !a3get_a3build by auto. apply c_eq; csimp; ring.
Qed.
End TimeUnit.

(* =====================================================================================
   Re-segmentation: zero-duration segments, splitting / merging
   ===================================================================================== *)
Section Reseg.
Variable d : nat.

(* ---- the control matrix sees the propagator Q only through its d x d entries ---- *)
Lemma mmul_feq_r A Q Q' : feq d (toF Q) (toF Q') -> mmul RO d A Q = mmul RO d A Q'.
Proof.
  intros H. unfold mmul. apply mbuild_ext. intros i j Hi Hj. apply csumn_ext. intros k Hk.
  f_equal. apply (H k j); auto.
Qed.
Lemma madj_mmul_feq Q Q' V : feq d (toF Q) (toF Q') -> mmul RO d (madj RO d Q) V = mmul RO d (madj RO d Q') V.
Proof.
  intros H. unfold mmul. apply mbuild_ext. intros i j Hi Hj. apply csumn_ext. intros k Hk.
  f_equal. unfold madj. rewrite !mget_mbuild by auto. f_equal. apply (H k i); auto.
Qed.
Lemma step_entry_feq I ev V Q Q' tg dt w s N Cm : feq d (toF Q) (toF Q') ->
  step_entry d I ev V Q tg dt w s N Cm = step_entry d I ev V Q' tg dt w s N Cm.
Proof. intros H. unfold step_entry. rewrite (madj_mmul_feq Q Q' V H). reflexivity. Qed.
Lemma entry_segs_feq I w N Cm segs Q Q' t : feq d (toF Q) (toF Q') ->
  entry_segs d I segs Q t w N Cm = entry_segs d I segs Q' t w N Cm.
Proof.
  intros H. destruct segs as [|[[[ev V] dt] s] r]; [reflexivity|]. simpl.
  rewrite (step_entry_feq I ev V Q Q') by auto. rewrite (mmul_feq_r _ Q Q' H). reflexivity.
Qed.
Lemma step_weight_feq V Q Q' N Cm : feq d (toF Q) (toF Q') -> step_weight d V Q N Cm = step_weight d V Q' N Cm.
Proof. intros H. unfold step_weight. rewrite (madj_mmul_feq Q Q' V H). reflexivity. Qed.

(* ---- zero-duration segments ---- *)
Lemma step_entry_zero_duration thr ev V Q tg w s N Cm :
  step_entry d (foi_entry RO thr) ev V Q tg 0 w s N Cm = 0c.
Proof.
  unfold step_entry.
  rewrite (csumn_ext d _ (fun _ => 0c)).
  - rewrite csumn_0. apply c_eq; csimp; ring.
  - intros m _. rewrite (csumn_ext d _ (fun _ => 0c)). apply csumn_0.
    intros n _. rewrite foi_entry_zero_duration. apply c_eq; csimp; ring.
Qed.

(* a segment of duration zero contributes the zero array, whatever its amplitudes and eigen-data *)
Theorem zero_duration_cm_step thr ev V Q tg om bs ns nc :
  cm_step RO d thr ev V Q tg 0 om bs ns nc = a3zero RO (length ns) (length bs) (length om).
Proof.
  apply (a3_ext (length ns) (length bs) (length om)).
  - apply cm_step_shaped.
  - apply a3build_shaped.
  - intros j k o Hj Hk Ho. rewrite cm_step_entry, a3get_a3zero by auto. apply step_entry_zero_duration.
Qed.

(* inserting a zero-duration segment anywhere does not change any later contribution *)
Lemma zero_duration_insert_segs thr w N Cm l1 l2 ev V s Q t :
  feq d (fmul d (toF V) (fadj (toF V))) fid ->
  entry_segs d (foi_entry RO thr) (l1 ++ (ev, V, 0, s) :: l2) Q t w N Cm =
  entry_segs d (foi_entry RO thr) (l1 ++ l2) Q t w N Cm.
Proof.
  intros HV. rewrite !entry_segs_app. f_equal. simpl.
  rewrite step_entry_zero_duration, Rplus_0_r, cadd_0_l.
  apply entry_segs_feq. rewrite toF_mmul, segment_propagator_zero by auto. apply fmul_id_l.
Qed.

(* ---- splitting a segment ---- *)
Lemma foi_true_split x a b :
  foi_true x (a + b) = cadd' (foi_true x a) (cmul' (cexp' (x * a)) (foi_true x b)).
Proof.
  unfold foi_true. destruct (Req_EM_T x 0) as [->|Hx].
  - rewrite Rmult_0_l, cexp_0. apply c_eq; csimp; ring.
  - apply c_eq; csimp; rewrite Rmult_plus_distr_l.
    + rewrite sin_plus. field; auto.
    + rewrite cos_plus. field; auto.
Qed.

(* the transformed basis element after a sub-segment of length a: entries acquire the phases u_n conj(u_m) *)
Lemma BT_after_subsegment ev V Q Cm a :
  feq d (fmul d (fadj (toF V)) (toF V)) fid ->
  feq d (toF (transform_by_unitary RO d (mmul RO d (madj RO d (mmul RO d (segment_propagator RO d ev V a) Q)) V) Cm))
        (fmul d (fdiag (seg_phase ev a))
                (fmul d (toF (transform_by_unitary RO d (mmul RO d (madj RO d Q) V) Cm))
                        (fadj (fdiag (seg_phase ev a))))).
Proof.
  intros HV.
  rewrite !toF_transform_by_unitary. rewrite !toF_mmul, !toF_madj, !toF_mmul, toF_segment_propagator.
  rewrite !fadj_mul, !fadj_invol_feq. rewrite <- !fmul_assoc.
  rewrite !(fmul_cancel_l d _ _ _ HV). rewrite ?HV, ?fmul_id_r. reflexivity.
Qed.

Lemma BT_after_subsegment_entry ev V Q Cm a n m : (n < d)%nat -> (m < d)%nat ->
  feq d (fmul d (fadj (toF V)) (toF V)) fid ->
  mget RO (transform_by_unitary RO d (mmul RO d (madj RO d (mmul RO d (segment_propagator RO d ev V a) Q)) V) Cm) n m =
  cmul' (seg_phase ev a n) (cmul' (mget RO (transform_by_unitary RO d (mmul RO d (madj RO d Q) V) Cm) n m)
                                  (cconj' (seg_phase ev a m))).
Proof.
  intros Hn Hm HV.
  change (mget RO ?A n m) with (toF A n m).
  rewrite (BT_after_subsegment ev V Q Cm a HV n m Hn Hm).
  rewrite fmul_fdiag_l by auto. f_equal.
  assert (E : feq d (fmul d (toF (transform_by_unitary RO d (mmul RO d (madj RO d Q) V) Cm)) (fadj (fdiag (seg_phase ev a))))
                    (fmul d (toF (transform_by_unitary RO d (mmul RO d (madj RO d Q) V) Cm)) (fdiag (fun i => cconj' (seg_phase ev a i))))).
  { rewrite fadj_fdiag. reflexivity. }
  rewrite (E n m Hn Hm). rewrite fmul_fdiag_r by auto. reflexivity.
Qed.

Lemma double_sum_split (f1 f2 f3 : nat -> nat -> Cx) (E Ea : Cx) (s : R) :
  (forall m n, (m < d)%nat -> (n < d)%nat -> f3 m n = cadd' (f1 m n) (cmul' Ea (f2 m n))) ->
  cmul' E (cscal RO s (csumn' d (fun m => csumn' d (fun n => f3 m n)))) =
  cadd' (cmul' E (cscal RO s (csumn' d (fun m => csumn' d (fun n => f1 m n)))))
        (cmul' (cmul' E Ea) (cscal RO s (csumn' d (fun m => csumn' d (fun n => f2 m n))))).
Proof.
  intros H.
  rewrite (csumn_ext d (fun m => csumn' d (fun n => f3 m n))
                       (fun m => cadd' (csumn' d (fun n => f1 m n)) (cmul' Ea (csumn' d (fun n => f2 m n))))).
  - rewrite csumn_add, csumn_mul_l. rewrite !cscal_cmul. ring.
  - intros m Hm. rewrite <- csumn_mul_l, <- csumn_add. apply csumn_ext. intros n Hn. auto.
Qed.

(* exact-integral steps: splitting [tg, tg+a+b] at tg+a is exact (V^dagger V = 1) *)
Theorem step_true_split ev V Q tg a b w s N Cm :
  feq d (fmul d (fadj (toF V)) (toF V)) fid ->
  step_entry d foi_I_true ev V Q tg (a + b) w s N Cm =
  cadd' (step_entry d foi_I_true ev V Q tg a w s N Cm)
        (step_entry d foi_I_true ev V (mmul RO d (segment_propagator RO d ev V a) Q) (tg + a) b w s N Cm).
Proof.
  intros HV. unfold step_entry.
  replace (w * (tg + a)) with (w * tg + w * a) by ring. rewrite cexp_add.
  apply (double_sum_split
    (fun m n => cmul' (cmul' (mget RO (transform_by_unitary RO d V N) m n) (foi_I_true w (vg RO ev m) (vg RO ev n) a))
                      (mget RO (transform_by_unitary RO d (mmul RO d (madj RO d Q) V) Cm) n m))
    (fun m n => cmul' (cmul' (mget RO (transform_by_unitary RO d V N) m n) (foi_I_true w (vg RO ev m) (vg RO ev n) b))
                      (mget RO (transform_by_unitary RO d (mmul RO d (madj RO d (mmul RO d (segment_propagator RO d ev V a) Q)) V) Cm) n m))).
  intros m n Hm Hn. rewrite BT_after_subsegment_entry by auto.
  unfold foi_I_true. rewrite foi_true_split.
  unfold foi_x at 2. replace ((w + (vg RO ev m - vg RO ev n)) * a) with (w * a + (vg RO ev m - vg RO ev n) * a) by ring.
  rewrite cexp_add, <- seg_phase_conj_mul. ring.
Qed.

(* the model's steps: exact when no entry of the three segment integrals is on the Taylor branch *)
Theorem split_segment_exact thr ev V Q tg a b w s N Cm : 0 <= thr ->
  feq d (fmul d (fadj (toF V)) (toF V)) fid ->
  all_masked d thr w ev (a + b) -> all_masked d thr w ev a -> all_masked d thr w ev b ->
  step_entry d (foi_entry RO thr) ev V Q tg (a + b) w s N Cm =
  cadd' (step_entry d (foi_entry RO thr) ev V Q tg a w s N Cm)
        (step_entry d (foi_entry RO thr) ev V (mmul RO d (segment_propagator RO d ev V a) Q) (tg + a) b w s N Cm).
Proof.
  intros H0 HV M1 M2 M3. rewrite !step_entry_masked_true by auto. apply step_true_split; auto.
Qed.

Lemma Cmod_csub_le (a b : Cx) : Cmod' (csub' a b) <= Cmod' a + Cmod' b.
Proof.
  replace (csub' a b) with (cadd' a (cneg' b)) by ring. eapply Rle_trans. apply Cmod_cadd_le.
  apply Rplus_le_compat_l. change (cneg' b) with (Copp b). rewrite Cmod_opp. lra.
Qed.

Lemma step_weight_after_subsegment ev V Q N Cm a : feq d (fmul d (fadj (toF V)) (toF V)) fid ->
  step_weight d V (mmul RO d (segment_propagator RO d ev V a) Q) N Cm = step_weight d V Q N Cm.
Proof.
  intros HV. unfold step_weight. apply sumn_ext; intros m Hm. apply sumn_ext; intros n Hn.
  rewrite BT_after_subsegment_entry by auto. rewrite !Cmod_cmul.
  unfold seg_phase. rewrite <- cexp_neg, !Cmod_cexp. ring.
Qed.

(* ... and within the Taylor bound otherwise *)
Theorem split_segment_bound thr ev V Q tg a b w s N Cm : 0 <= thr ->
  feq d (fmul d (fadj (toF V)) (toF V)) fid ->
  Cmod' (csub' (step_entry d (foi_entry RO thr) ev V Q tg (a + b) w s N Cm)
               (cadd' (step_entry d (foi_entry RO thr) ev V Q tg a w s N Cm)
                      (step_entry d (foi_entry RO thr) ev V (mmul RO d (segment_propagator RO d ev V a) Q) (tg + a) b w s N Cm)))
  <= Rabs s * taylor_eps thr * (Rabs (a + b) + Rabs a + Rabs b) * step_weight d V Q N Cm.
Proof.
  intros H0 HV.
  pose proof (step_entry_true_bound d thr ev V Q tg (a + b) w s N Cm H0) as B0.
  pose proof (step_entry_true_bound d thr ev V Q tg a w s N Cm H0) as B1.
  pose proof (step_entry_true_bound d thr ev V (mmul RO d (segment_propagator RO d ev V a) Q) (tg + a) b w s N Cm H0) as B2.
  rewrite step_weight_after_subsegment in B2 by auto.
  rewrite (step_true_split ev V Q tg a b w s N Cm HV) in B0.
  set (X := step_entry d (foi_entry RO thr) ev V Q tg (a + b) w s N Cm) in *.
  set (X1 := step_entry d (foi_entry RO thr) ev V Q tg a w s N Cm) in *.
  set (X2 := step_entry d (foi_entry RO thr) ev V (mmul RO d (segment_propagator RO d ev V a) Q) (tg + a) b w s N Cm) in *.
  set (T1 := step_entry d foi_I_true ev V Q tg a w s N Cm) in *.
  set (T2 := step_entry d foi_I_true ev V (mmul RO d (segment_propagator RO d ev V a) Q) (tg + a) b w s N Cm) in *.
  replace (csub' X (cadd' X1 X2)) with (csub' (csub' X (cadd' T1 T2)) (cadd' (csub' X1 T1) (csub' X2 T2))) by ring.
  eapply Rle_trans. apply Cmod_csub_le.
  eapply Rle_trans. apply Rplus_le_compat_l. apply Cmod_cadd_le.
  set (W := step_weight d V Q N Cm) in *. lra.
Qed.

(* whole pulse: the segment (ev, V, a+b, s) replaced by (ev, V, a, s), (ev, V, b, s); everything after it is unchanged *)
Lemma split_segment_segs_diff I w N Cm l1 l2 ev V a b s Q t :
  feq d (fmul d (fadj (toF V)) (toF V)) fid ->
  let Qg := fold_left (fun Q sg => seg_next_Q d sg Q) l1 Q in
  let tg := fold_left (fun t sg => t + seg_dt sg) l1 t in
  csub' (entry_segs d I (l1 ++ (ev, V, a + b, s) :: l2) Q t w N Cm)
        (entry_segs d I (l1 ++ (ev, V, a, s) :: (ev, V, b, s) :: l2) Q t w N Cm) =
  csub' (step_entry d I ev V Qg tg (a + b) w s N Cm)
        (cadd' (step_entry d I ev V Qg tg a w s N Cm)
               (step_entry d I ev V (mmul RO d (segment_propagator RO d ev V a) Qg) (tg + a) b w s N Cm)).
Proof.
  intros HV Qg tg. rewrite !entry_segs_app. fold Qg tg. simpl.
  rewrite (entry_segs_feq I w N Cm l2
             (mmul RO d (segment_propagator RO d ev V b) (mmul RO d (segment_propagator RO d ev V a) Qg))
             (mmul RO d (segment_propagator RO d ev V (a + b)) Qg)).
  - rewrite Rplus_assoc. ring.
  - rewrite !toF_mmul. rewrite fmul_assoc, segment_propagator_add by auto. reflexivity.
Qed.
End Reseg.

(* =====================================================================================
   Linearity in the noise operators and in the sensitivities; operator order
   ===================================================================================== *)
Section Linear.
Variable d : nat.

Lemma tbu_linear V (al be : Cx) N1 N2 m n : (m < d)%nat -> (n < d)%nat ->
  mget RO (transform_by_unitary RO d V (madd RO d (mscal RO d al N1) (mscal RO d be N2))) m n =
  cadd' (cmul' al (mget RO (transform_by_unitary RO d V N1) m n))
        (cmul' be (mget RO (transform_by_unitary RO d V N2) m n)).
Proof.
  intros Hm Hn. unfold transform_by_unitary, mmul. rewrite !mget_mbuild by auto.
  rewrite <- !csumn_mul_l, <- csumn_add. apply csumn_ext. intros k Hk.
  rewrite !mget_mbuild by auto.
  rewrite (csumn_ext d _ (fun l => cadd' (cmul' al (cmul' (mget RO N1 k l) (mget RO V l n)))
                                         (cmul' be (cmul' (mget RO N2 k l) (mget RO V l n))))).
  - rewrite csumn_add, !csumn_mul_l. ring.
  - intros l Hl. unfold madd, mscal. rewrite !mget_mbuild by auto. ring.
Qed.

(* one step, linear in the noise operator ... *)
Lemma step_entry_linear_N I ev V Q tg dt w s (al be : Cx) N1 N2 Cm :
  step_entry d I ev V Q tg dt w s (madd RO d (mscal RO d al N1) (mscal RO d be N2)) Cm =
  cadd' (cmul' al (step_entry d I ev V Q tg dt w s N1 Cm)) (cmul' be (step_entry d I ev V Q tg dt w s N2 Cm)).
Proof.
  unfold step_entry.
  rewrite (csumn_ext d _ (fun m => cadd'
     (cmul' al (csumn' d (fun n => cmul' (cmul' (mget RO (transform_by_unitary RO d V N1) m n) (I w (vg RO ev m) (vg RO ev n) dt))
                                         (mget RO (transform_by_unitary RO d (mmul RO d (madj RO d Q) V) Cm) n m))))
     (cmul' be (csumn' d (fun n => cmul' (cmul' (mget RO (transform_by_unitary RO d V N2) m n) (I w (vg RO ev m) (vg RO ev n) dt))
                                         (mget RO (transform_by_unitary RO d (mmul RO d (madj RO d Q) V) Cm) n m)))))).
  - rewrite csumn_add, !csumn_mul_l. rewrite !cscal_cmul. ring.
  - intros m Hm. rewrite <- !csumn_mul_l, <- csumn_add. apply csumn_ext. intros n Hn.
    rewrite tbu_linear by auto. ring.
Qed.
(* ... and in the sensitivity *)
Lemma step_entry_linear_s I ev V Q tg dt w (a b s1 s2 : R) N Cm :
  step_entry d I ev V Q tg dt w (a * s1 + b * s2) N Cm =
  cadd' (cscal RO a (step_entry d I ev V Q tg dt w s1 N Cm)) (cscal RO b (step_entry d I ev V Q tg dt w s2 N Cm)).
Proof. unfold step_entry. rewrite !cscal_cmul. apply c_eq; csimp; ring. Qed.

(* whole pulse; the segment lists differ only in the sensitivities *)
Definition seg_sens (sg : seg) : R := let '(_, _, _, s) := sg in s.
Definition seg_with_sens (sg : seg) (s : R) : seg := let '(ev, V, dt, _) := sg in (ev, V, dt, s).

Lemma entry_segs_linear_N I w (al be : Cx) N1 N2 Cm : forall segs Q t,
  entry_segs d I segs Q t w (madd RO d (mscal RO d al N1) (mscal RO d be N2)) Cm =
  cadd' (cmul' al (entry_segs d I segs Q t w N1 Cm)) (cmul' be (entry_segs d I segs Q t w N2 Cm)).
Proof.
  induction segs as [|[[[ev V] dt] s] r IH]; intros Q t; simpl. ring.
  rewrite IH, step_entry_linear_N. ring.
Qed.
Lemma entry_segs_linear_s {A} I w (a b : R) N Cm (g : A -> seg) (s1 s2 : A -> R) : forall (l : list A) Q t,
  entry_segs d I (map (fun x => seg_with_sens (g x) (a * s1 x + b * s2 x)) l) Q t w N Cm =
  cadd' (cscal RO a (entry_segs d I (map (fun x => seg_with_sens (g x) (s1 x)) l) Q t w N Cm))
        (cscal RO b (entry_segs d I (map (fun x => seg_with_sens (g x) (s2 x)) l) Q t w N Cm)).
Proof.
  induction l as [|x r IH]; intros Q t; simpl. apply c_eq; csimp; ring.
  destruct (g x) as [[[ev V] dt] s]. simpl.
  rewrite IH, step_entry_linear_s. apply c_eq; csimp; ring.
Qed.
End Linear.

(* =====================================================================================
   Statements on the package's functions: pulses as lists of segments
   ===================================================================================== *)
From FF Require Import Model.Hamiltonian.

Section OnModel.
Variable d : nat.

(* a segment with the sensitivities of ALL noise operators: eigenvalues, eigenvectors, duration, s_j (j = 0..) *)
Definition fseg : Type := (list R * MatR * R * list R)%type.
Definition fs_ev (p : fseg) : list R := let '(ev, _, _, _) := p in ev.
Definition fs_V (p : fseg) : MatR := let '(_, V, _, _) := p in V.
Definition fs_dt (p : fseg) : R := let '(_, _, dt, _) := p in dt.
Definition fs_nc (p : fseg) : list R := let '(_, _, _, nc) := p in nc.
Definition fs_seg (j : nat) (p : fseg) : seg := (fs_ev p, fs_V p, fs_dt p, vg RO (fs_nc p) j).

(* the package's loop on a pulse given segment by segment (propagators and time grid derived from it) *)
Definition cm_pulse (thr : R) (P : list fseg) (om : list R) (bs ns : list MatR) : Arr3 (T:=R) :=
  let evs := map fs_ev P in let Vs := map fs_V P in let dts := map fs_dt P in
  cm_scratch_loop RO d thr evs Vs (propagators RO d evs Vs dts) (times RO dts) dts om bs ns (map fs_nc P)
                  (a3zero RO (length ns) (length bs) (length om)).

Lemma zip4_map {A} (f1 : A -> list R) (f2 : A -> MatR) (f3 f4 : A -> R) (l : list A) :
  zip4 (map f1 l) (map f2 l) (map f3 l) (map f4 l) = map (fun x => (f1 x, f2 x, f3 x, f4 x)) l.
Proof. induction l; simpl; [reflexivity | rewrite IHl; reflexivity]. Qed.

Lemma cm_pulse_shaped thr P om bs ns : a3shaped (length ns) (length bs) (length om) (cm_pulse thr P om bs ns).
Proof. unfold cm_pulse. apply cm_loop_shaped. apply a3build_shaped. Qed.

Lemma cm_pulse_entry thr P om bs ns j k o : (j < length ns)%nat -> (k < length bs)%nat -> (o < length om)%nat ->
  a3get RO (cm_pulse thr P om bs ns) j k o =
  entry_segs d (foi_entry RO thr) (map (fs_seg j) P) (mid RO d) 0 (vg RO om o) (nthm ns j) (nthm bs k).
Proof.
  intros Hj Hk Ho. unfold cm_pulse. rewrite cm_loop_entry, a3get_a3zero by auto.
  unfold propagators, times. rewrite entry_loop_segs. rewrite map_map.
  rewrite (zip4_map fs_ev fs_V fs_dt (fun x => vg RO (fs_nc x) j) P). apply cadd_0_l.
Qed.

(* cm_pulse IS control_matrix_from_scratch called as the package calls it *)
Fixpoint zipf (evs : list (list R)) (Vs : list MatR) (dts : list R) (ncs : list (list R)) : list fseg :=
  match evs, Vs, dts, ncs with
  | ev :: evs', V :: Vs', dt :: dts', nc :: ncs' => (ev, V, dt, nc) :: zipf evs' Vs' dts' ncs'
  | _, _, _, _ => []
  end.
Lemma zipf_unzip : forall evs Vs dts ncs, length evs = length dts -> length Vs = length dts -> length ncs = length dts ->
  map fs_ev (zipf evs Vs dts ncs) = evs /\ map fs_V (zipf evs Vs dts ncs) = Vs /\
  map fs_dt (zipf evs Vs dts ncs) = dts /\ map fs_nc (zipf evs Vs dts ncs) = ncs.
Proof.
  induction evs as [|ev evs IH]; intros Vs dts ncs H1 H2 H3.
  - destruct dts; [|discriminate]. destruct Vs; [|discriminate]. destruct ncs; [|discriminate]. simpl; auto.
  - destruct dts as [|dt dts]; [discriminate|]. destruct Vs as [|V Vs]; [discriminate|]. destruct ncs as [|nc ncs]; [discriminate|].
    simpl in *. destruct (IH Vs dts ncs) as [E1 [E2 [E3 E4]]]; try lia. rewrite E1, E2, E3, E4. auto.
Qed.
Theorem cm_pulse_is_model thr evs Vs dts om bs ns nc : length evs = length dts -> length Vs = length dts ->
  control_matrix_from_scratch RO d thr evs Vs (propagators RO d evs Vs dts) om bs ns nc dts (times RO dts) =
  cm_pulse thr (zipf evs Vs dts (transpose_coeffs RO (length dts) nc)) om bs ns.
Proof.
  intros H1 H2. unfold cm_pulse, control_matrix_from_scratch.
  destruct (zipf_unzip evs Vs dts (transpose_coeffs RO (length dts) nc)) as [E1 [E2 [E3 E4]]]; auto.
  { unfold transpose_coeffs. apply build_length. }
  rewrite E1, E2, E3, E4. reflexivity.
Qed.

(* ---- zero-duration segments, anywhere, arbitrary amplitudes (eigen-data) and sensitivities ---- *)
Theorem zero_duration_insert_cm thr P1 P2 ev V ncg om bs ns :
  feq d (fmul d (toF V) (fadj (toF V))) fid ->
  cm_pulse thr (P1 ++ (ev, V, 0, ncg) :: P2) om bs ns = cm_pulse thr (P1 ++ P2) om bs ns.
Proof.
  intros HV. apply (a3_ext (length ns) (length bs) (length om)); try apply cm_pulse_shaped.
  intros j k o Hj Hk Ho. rewrite !cm_pulse_entry by auto. rewrite !map_app. cbn [map].
  change (fs_seg j (ev, V, 0, ncg)) with ((ev, V, 0, vg RO ncg j) : seg). apply zero_duration_insert_segs. exact HV.
Qed.

(* ---- splitting (read right to left: merging equal neighbours) ---- *)
Definition prop_before (P1 : list fseg) : MatR :=
  fold_left (fun Q sg => seg_next_Q d sg Q) (map (fs_seg 0) P1) (mid RO d).

Lemma fold_next_Q_indep j : forall P1 Q,
  fold_left (fun Q sg => seg_next_Q d sg Q) (map (fs_seg j) P1) Q =
  fold_left (fun Q sg => seg_next_Q d sg Q) (map (fs_seg 0) P1) Q.
Proof. induction P1 as [|[[[ev V] dt] nc] r IH]; intros Q; simpl; auto. Qed.

Theorem split_segment_cm_exact thr P1 P2 ev V a b ncg om bs ns j k o :
  0 <= thr -> (j < length ns)%nat -> (k < length bs)%nat -> (o < length om)%nat ->
  feq d (fmul d (fadj (toF V)) (toF V)) fid ->
  all_masked d thr (vg RO om o) ev (a + b) -> all_masked d thr (vg RO om o) ev a -> all_masked d thr (vg RO om o) ev b ->
  a3get RO (cm_pulse thr (P1 ++ (ev, V, a + b, ncg) :: P2) om bs ns) j k o =
  a3get RO (cm_pulse thr (P1 ++ (ev, V, a, ncg) :: (ev, V, b, ncg) :: P2) om bs ns) j k o.
Proof.
  intros H0 Hj Hk Ho HV M0 M1 M2. rewrite !cm_pulse_entry by auto. rewrite !map_app. cbn [map].
  change (fs_seg j (ev, V, a + b, ncg)) with ((ev, V, a + b, vg RO ncg j) : seg).
  change (fs_seg j (ev, V, a, ncg)) with ((ev, V, a, vg RO ncg j) : seg).
  change (fs_seg j (ev, V, b, ncg)) with ((ev, V, b, vg RO ncg j) : seg).
  match goal with |- ?x = ?y => assert (E : csub' x y = 0c); [| rewrite <- (cadd_0_l y), <- E; ring] end.
  rewrite (split_segment_segs_diff d _ _ _ _ _ _ ev V a b _ _ _ HV).
  rewrite (split_segment_exact d thr ev V _ _ a b _ _ _ _ H0 HV M0 M1 M2). ring.
Qed.

Theorem split_segment_cm_bound thr P1 P2 ev V a b ncg om bs ns j k o :
  0 <= thr -> (j < length ns)%nat -> (k < length bs)%nat -> (o < length om)%nat ->
  feq d (fmul d (fadj (toF V)) (toF V)) fid ->
  Cmod' (csub' (a3get RO (cm_pulse thr (P1 ++ (ev, V, a + b, ncg) :: P2) om bs ns) j k o)
               (a3get RO (cm_pulse thr (P1 ++ (ev, V, a, ncg) :: (ev, V, b, ncg) :: P2) om bs ns) j k o))
  <= Rabs (vg RO ncg j) * taylor_eps thr * (Rabs (a + b) + Rabs a + Rabs b)
     * step_weight d V (prop_before P1) (nthm ns j) (nthm bs k).
Proof.
  intros H0 Hj Hk Ho HV. rewrite !cm_pulse_entry by auto. rewrite !map_app. cbn [map].
  change (fs_seg j (ev, V, a + b, ncg)) with ((ev, V, a + b, vg RO ncg j) : seg).
  change (fs_seg j (ev, V, a, ncg)) with ((ev, V, a, vg RO ncg j) : seg).
  change (fs_seg j (ev, V, b, ncg)) with ((ev, V, b, vg RO ncg j) : seg).
  rewrite (split_segment_segs_diff d _ _ _ _ _ _ ev V a b _ _ _ HV).
  unfold prop_before. rewrite <- (fold_next_Q_indep j).
  apply split_segment_bound; auto.
Qed.

(* ---- linearity (three rows j, j1, j2 of one pulse) ---- *)
Theorem cm_linear_operators thr P om bs ns j j1 j2 k o (al be : Cx) :
  (j < length ns)%nat -> (j1 < length ns)%nat -> (j2 < length ns)%nat -> (k < length bs)%nat -> (o < length om)%nat ->
  nthm ns j = madd RO d (mscal RO d al (nthm ns j1)) (mscal RO d be (nthm ns j2)) ->
  (forall p, In p P -> vg RO (fs_nc p) j1 = vg RO (fs_nc p) j /\ vg RO (fs_nc p) j2 = vg RO (fs_nc p) j) ->
  a3get RO (cm_pulse thr P om bs ns) j k o =
  cadd' (cmul' al (a3get RO (cm_pulse thr P om bs ns) j1 k o)) (cmul' be (a3get RO (cm_pulse thr P om bs ns) j2 k o)).
Proof.
  intros Hj Hj1 Hj2 Hk Ho HN Hs. rewrite !cm_pulse_entry by auto. rewrite HN, entry_segs_linear_N.
  rewrite (map_ext_in (fs_seg j1) (fs_seg j)), (map_ext_in (fs_seg j2) (fs_seg j)); auto;
    intros p Hp; unfold fs_seg; destruct (Hs p Hp) as [E1 E2]; rewrite ?E1, ?E2; reflexivity.
Qed.

Theorem cm_linear_sensitivities thr P om bs ns j j1 j2 k o (a b : R) :
  (j < length ns)%nat -> (j1 < length ns)%nat -> (j2 < length ns)%nat -> (k < length bs)%nat -> (o < length om)%nat ->
  nthm ns j1 = nthm ns j -> nthm ns j2 = nthm ns j ->
  (forall p, In p P -> vg RO (fs_nc p) j = a * vg RO (fs_nc p) j1 + b * vg RO (fs_nc p) j2) ->
  a3get RO (cm_pulse thr P om bs ns) j k o =
  cadd' (cscal RO a (a3get RO (cm_pulse thr P om bs ns) j1 k o)) (cscal RO b (a3get RO (cm_pulse thr P om bs ns) j2 k o)).
Proof.
  intros Hj Hj1 Hj2 Hk Ho HN1 HN2 Hs. rewrite !cm_pulse_entry by auto. rewrite HN1, HN2.
  rewrite (map_ext_in (fs_seg j) (fun p => seg_with_sens (fs_seg 0 p) (a * vg RO (fs_nc p) j1 + b * vg RO (fs_nc p) j2))).
  2:{ intros p Hp. unfold fs_seg, seg_with_sens. rewrite (Hs p Hp). reflexivity. }
  rewrite (map_ext (fs_seg j1) (fun p => seg_with_sens (fs_seg 0 p) (vg RO (fs_nc p) j1))) by (intros; reflexivity).
  rewrite (map_ext (fs_seg j2) (fun p => seg_with_sens (fs_seg 0 p) (vg RO (fs_nc p) j2))) by (intros; reflexivity).
  apply (entry_segs_linear_s d (foi_entry RO thr) (vg RO om o) a b (nthm ns j) (nthm bs k) (fs_seg 0)
           (fun p => vg RO (fs_nc p) j1) (fun p => vg RO (fs_nc p) j2)).
Qed.
End OnModel.

(* =====================================================================================
   Operator order
   ===================================================================================== *)
Section Order.
Variable d : nat.

Lemma sens_row_reindex G (nc : list (list R)) (p : list nat) j : (j < length p)%nat ->
  sens_row G (map (nthv nc) p) j = sens_row G nc (nth j p 0%nat).
Proof.
  intros H. unfold sens_row. apply build_ext. intros g _. f_equal.
  unfold nthv at 1. apply (nth_map_in (nthv nc) p j 0%nat []). exact H.
Qed.

(* re-listing the noise operators (with their sensitivities) re-lists the rows of the control matrix;
   [p] lists, for each new position, the old position *)
Theorem cm_reindex_rows thr evs Vs Qs om bs ns nc dts ts (p : list nat) j k o :
  (j < length p)%nat -> (nth j p 0 < length ns)%nat -> (k < length bs)%nat -> (o < length om)%nat ->
  a3get RO (control_matrix_from_scratch RO d thr evs Vs Qs om bs (map (nthm ns) p) (map (nthv nc) p) dts ts) j k o =
  a3get RO (control_matrix_from_scratch RO d thr evs Vs Qs om bs ns nc dts ts) (nth j p 0%nat) k o.
Proof.
  intros Hj Hp Hk Ho. rewrite !cm_entry_loop_formula by (auto; rewrite map_length; auto).
  rewrite sens_row_reindex by auto. f_equal.
  unfold nthm at 1. apply (nth_map_in (nthm ns) p j 0%nat []). exact Hj.
Qed.
(* the same for the basis elements (columns) *)
Theorem cm_reindex_cols thr evs Vs Qs om bs ns nc dts ts (p : list nat) j k o :
  (k < length p)%nat -> (nth k p 0 < length bs)%nat -> (j < length ns)%nat -> (o < length om)%nat ->
  a3get RO (control_matrix_from_scratch RO d thr evs Vs Qs om (map (nthm bs) p) ns nc dts ts) j k o =
  a3get RO (control_matrix_from_scratch RO d thr evs Vs Qs om bs ns nc dts ts) j (nth k p 0%nat) o.
Proof.
  intros Hk Hp Hj Ho. rewrite !cm_entry_loop_formula by (auto; rewrite map_length; auto).
  f_equal. unfold nthm at 1. apply (nth_map_in (nthm bs) p k 0%nat []). exact Hk.
Qed.

(* any permutation of the list of (noise operator, sensitivities) pairs permutes the rows *)
Theorem cm_perm_rows thr evs Vs Qs om bs ns nc ns' nc' dts ts :
  length ns = length nc -> length ns' = length nc' ->
  Permutation (combine ns nc) (combine ns' nc') ->
  exists f : nat -> nat, FinFun.bFun (length ns) f /\ FinFun.bInjective (length ns) f /\
    forall j k o, (j < length ns)%nat -> (k < length bs)%nat -> (o < length om)%nat ->
      a3get RO (control_matrix_from_scratch RO d thr evs Vs Qs om bs ns' nc' dts ts) j k o =
      a3get RO (control_matrix_from_scratch RO d thr evs Vs Qs om bs ns nc dts ts) (f j) k o.
Proof.
  intros L L' HP.
  destruct (proj1 (Permutation_nth (combine ns nc) (combine ns' nc') ([], [])) HP) as [Hlen [f [Hf [Hinj Hnth]]]].
  rewrite !combine_length, <- L, <- L', !Nat.min_id in *.
  exists f. split; [exact Hf|]. split; [exact Hinj|].
  intros j k o Hj Hk Ho. specialize (Hnth j Hj). rewrite !combine_nth in Hnth by auto.
  injection Hnth as E1 E2.
  rewrite !cm_entry_loop_formula by (auto; try (rewrite Hlen; auto); apply Hf; auto).
  replace (nthm ns' j) with (nthm ns (f j)) by (symmetry; exact E1).
  replace (sens_row (length dts) nc' j) with (sens_row (length dts) nc (f j)); [reflexivity|].
  unfold sens_row. apply build_ext. intros g _. f_equal. symmetry. exact E2.
Qed.

(* control operators: the Hamiltonian H_l = sum_i a_il A_i does not depend on the listing order *)
Lemma csumlist_perm (l l' : list Cx) : Permutation l l' -> csumlist RO l = csumlist RO l'.
Proof.
  induction 1; simpl; auto.
  - rewrite IHPermutation. reflexivity.
  - ring.
  - congruence.
Qed.
Theorem hamiltonian_perm (opers opers' : list MatR) (coeffs coeffs' : list (list R)) l :
  Permutation (combine opers coeffs) (combine opers' coeffs') ->
  hamiltonian RO d opers coeffs l = hamiltonian RO d opers' coeffs' l.
Proof.
  intros HP. unfold hamiltonian. apply mbuild_ext. intros j k _ _.
  apply csumlist_perm. apply Permutation_map. exact HP.
Qed.
End Order.

(* =====================================================================================
   The split on the package's cm_step, and satisfiability of the hypotheses
   ===================================================================================== *)
Section SplitOnStep.
Variable d : nat.

Theorem split_cm_step_exact thr ev V Q tg a b om bs ns nc j k o :
  0 <= thr -> (j < length ns)%nat -> (k < length bs)%nat -> (o < length om)%nat ->
  feq d (fmul d (fadj (toF V)) (toF V)) fid ->
  all_masked d thr (vg RO om o) ev (a + b) -> all_masked d thr (vg RO om o) ev a -> all_masked d thr (vg RO om o) ev b ->
  a3get RO (cm_step RO d thr ev V Q tg (a + b) om bs ns nc) j k o =
  cadd' (a3get RO (cm_step RO d thr ev V Q tg a om bs ns nc) j k o)
        (a3get RO (cm_step RO d thr ev V (mmul RO d (segment_propagator RO d ev V a) Q) (tg + a) b om bs ns nc) j k o).
Proof. intros. rewrite !cm_step_entry by auto. apply split_segment_exact; auto. Qed.

Theorem split_cm_step_bound thr ev V Q tg a b om bs ns nc j k o :
  0 <= thr -> (j < length ns)%nat -> (k < length bs)%nat -> (o < length om)%nat ->
  feq d (fmul d (fadj (toF V)) (toF V)) fid ->
  Cmod' (csub' (a3get RO (cm_step RO d thr ev V Q tg (a + b) om bs ns nc) j k o)
               (cadd' (a3get RO (cm_step RO d thr ev V Q tg a om bs ns nc) j k o)
                      (a3get RO (cm_step RO d thr ev V (mmul RO d (segment_propagator RO d ev V a) Q) (tg + a) b om bs ns nc) j k o)))
  <= Rabs (vg RO nc j) * taylor_eps thr * (Rabs (a + b) + Rabs a + Rabs b) * step_weight d V Q (nthm ns j) (nthm bs k).
Proof. intros. rewrite !cm_step_entry by auto. apply split_segment_bound; auto. Qed.
End SplitOnStep.

(* a non-trivial unitary: the swap of two levels *)
Definition swap2 : MatR := [[0c; 1c]; [1c; 0c]].
Example swap2_unitary : funitary 2 (toF swap2).
Proof.
  split; intros i j Hi Hj;
    (destruct i as [|[|i]]; [| |lia]); (destruct j as [|[|j]]; [| |lia]);
    unfold fmul, fadj, fid, toF, swap2, mget; simpl; apply c_eq; csimp; ring.
Qed.
Example all_masked_example2 : all_masked 2 (/ 10000000) (/ 2) [0; 1] (1 + 1).
Proof.
  intros m n Hm Hn. unfold foi_x.
  destruct m as [|[|m]]; [| |lia]; (destruct n as [|[|n]]; [| |lia]); unfold vg, vget; simpl;
    unfold Rabs; match goal with |- context [Rcase_abs ?x] => destruct (Rcase_abs x) end; lra.
Qed.

(* =====================================================================================
   Infidelity-type integrals (util.integrate = trapezoidal rule) under the change of time unit:
   integrand S'F' = lam * S F on the grid omega / lam  gives the same integral
   ===================================================================================== *)
Lemma trapz_cons2 f0 f1 fr x0 x1 xr :
  trapz RO (f0 :: f1 :: fr) (x0 :: x1 :: xr) = (f1 + f0) * (x1 - x0) / (1 + 1) + trapz RO (f1 :: fr) (x1 :: xr).
Proof. reflexivity. Qed.
Lemma time_scaling_trapz lam : 0 < lam -> forall f x,
  trapz RO (smul lam f) (sdiv lam x) = trapz RO f x.
Proof.
  intros Hl. induction f as [|f0 fr IH]; intros x; [reflexivity|].
  destruct fr as [|f1 fr']; [destruct x; reflexivity|].
  destruct x as [|x0 xr]; [reflexivity|]. destruct xr as [|x1 xr']; [reflexivity|].
  change (smul lam (f0 :: f1 :: fr')) with (lam * f0 :: lam * f1 :: smul lam fr').
  change (sdiv lam (x0 :: x1 :: xr')) with (x0 / lam :: x1 / lam :: sdiv lam xr').
  rewrite !trapz_cons2.
  change (lam * f1 :: smul lam fr') with (smul lam (f1 :: fr')).
  change (x1 / lam :: sdiv lam xr') with (sdiv lam (x1 :: xr')).
  rewrite IH. f_equal. field. lra.
Qed.

(* =====================================================================================
   Filter functions and trapezoidal (infidelity-type) integrals under re-segmentation
   ===================================================================================== *)
Section FFReseg.
Variable d : nat.

(* the filter function at frequency index o depends on the control matrix only through its column o *)
Lemma ff_ext_col na nk no (B B' : Arr3 (T:=R)) a b o : (a < na)%nat -> (b < na)%nat -> (o < no)%nat ->
  (forall j k, (j < na)%nat -> (k < nk)%nat -> a3get RO B j k o = a3get RO B' j k o) ->
  a3get RO (filter_function RO na nk no B) a b o = a3get RO (filter_function RO na nk no B') a b o.
Proof.
  intros Ha Hb Ho H. rewrite !ff_entry by auto. apply csumn_ext. intros k Hk. rewrite !H by auto. reflexivity.
Qed.

(* no entry of the three segment integrals on the Taylor branch, at frequency index o *)
Definition split_masked (thr : R) (om : list R) (ev : list R) (a b : R) (o : nat) : Prop :=
  all_masked d thr (vg RO om o) ev (a + b) /\ all_masked d thr (vg RO om o) ev a /\ all_masked d thr (vg RO om o) ev b.

Theorem split_segment_ff thr P1 P2 ev V a b ncg om bs ns j j' o :
  0 <= thr -> (j < length ns)%nat -> (j' < length ns)%nat -> (o < length om)%nat ->
  feq d (fmul d (fadj (toF V)) (toF V)) fid -> split_masked thr om ev a b o ->
  a3get RO (filter_function RO (length ns) (length bs) (length om)
              (cm_pulse d thr (P1 ++ (ev, V, a + b, ncg) :: P2) om bs ns)) j j' o =
  a3get RO (filter_function RO (length ns) (length bs) (length om)
              (cm_pulse d thr (P1 ++ (ev, V, a, ncg) :: (ev, V, b, ncg) :: P2) om bs ns)) j j' o.
Proof.
  intros H0 Hj Hj' Ho HV [M0 [M1 M2]]. apply ff_ext_col; auto.
  intros j0 k Hj0 Hk. apply split_segment_cm_exact; auto.
Qed.

(* any quantity computed column by column from the control matrix (fidelity filter function, the integrand of
   numeric.infidelity with or without the identity term, decay amplitudes ...) and integrated with util.integrate *)
Definition column_local (na nk no : nat) (phi : Arr3 (T:=R) -> nat -> R) : Prop :=
  forall B B' o, (o < no)%nat ->
    (forall j k, (j < na)%nat -> (k < nk)%nat -> a3get RO B j k o = a3get RO B' j k o) -> phi B o = phi B' o.

Theorem split_segment_integral thr P1 P2 ev V a b ncg om bs ns (phi : Arr3 (T:=R) -> nat -> R) :
  0 <= thr -> column_local (length ns) (length bs) (length om) phi ->
  feq d (fmul d (fadj (toF V)) (toF V)) fid ->
  (forall o, (o < length om)%nat -> split_masked thr om ev a b o) ->
  trapz RO (build (length om) (phi (cm_pulse d thr (P1 ++ (ev, V, a + b, ncg) :: P2) om bs ns))) om =
  trapz RO (build (length om) (phi (cm_pulse d thr (P1 ++ (ev, V, a, ncg) :: (ev, V, b, ncg) :: P2) om bs ns))) om.
Proof.
  intros H0 Hphi HV HM. f_equal. apply build_ext. intros o Ho. apply Hphi; auto.
  intros j k Hj Hk. destruct (HM o Ho) as [M0 [M1 M2]]. apply split_segment_cm_exact; auto.
Qed.

(* the integrand spectrum x fidelity filter function is column-local *)
Lemma ff_diag_column_local na nk no (S : nat -> R) a : (a < na)%nat ->
  column_local na nk no (fun B o => S o * fst (a3get RO (filter_function RO na nk no B) a a o)).
Proof. intros Ha B B' o Ho H. f_equal. f_equal. apply ff_ext_col; auto. Qed.

Corollary split_segment_infidelity thr P1 P2 ev V a b ncg om bs ns (S : nat -> R) j :
  0 <= thr -> (j < length ns)%nat -> feq d (fmul d (fadj (toF V)) (toF V)) fid ->
  (forall o, (o < length om)%nat -> split_masked thr om ev a b o) ->
  let F P := filter_function RO (length ns) (length bs) (length om) (cm_pulse d thr P om bs ns) in
  trapz RO (build (length om) (fun o => S o * fst (a3get RO (F (P1 ++ (ev, V, a + b, ncg) :: P2)) j j o))) om =
  trapz RO (build (length om) (fun o => S o * fst (a3get RO (F (P1 ++ (ev, V, a, ncg) :: (ev, V, b, ncg) :: P2)) j j o))) om.
Proof.
  intros H0 Hj HV HM F.
  apply (split_segment_integral thr P1 P2 ev V a b ncg om bs ns
           (fun B o => S o * fst (a3get RO (filter_function RO (length ns) (length bs) (length om) B) j j o))); auto.
  apply ff_diag_column_local; auto.
Qed.

(* zero-duration insertion: the arrays are equal, so is everything computed from them *)
Corollary zero_duration_insert_ff thr P1 P2 ev V ncg om bs ns :
  feq d (fmul d (toF V) (fadj (toF V))) fid ->
  filter_function RO (length ns) (length bs) (length om) (cm_pulse d thr (P1 ++ (ev, V, 0, ncg) :: P2) om bs ns) =
  filter_function RO (length ns) (length bs) (length om) (cm_pulse d thr (P1 ++ P2) om bs ns).
Proof. intros HV. rewrite zero_duration_insert_cm by auto. reflexivity. Qed.
End FFReseg.
