(* C13 -- invariance under change of the time unit, re-segmentation and operator order.
   Part A (this file, first section): the segment integral.                               *)
From Coq Require Import ZArith Reals Lra Lia List.
From Coquelicot Require Import Coquelicot.
From FF Require Import Base.Ops Inst.RInst Base.RAlg Model.Numeric Proofs.Foi.
Import ListNotations.
Local Open Scope R_scope.

(* ---------- change of the time unit: the segment integral ---------- *)

(* durations times lam, frequencies and energies divided by lam: the mask |x dt| is unchanged and
   the value is multiplied by lam -- on BOTH branches, for every threshold *)
Theorem time_scaling_foi thr w evm evn dt lam : 0 < lam ->
  foi_entry RO thr (w / lam) (evm / lam) (evn / lam) (lam * dt) = cscal RO lam (foi_entry RO thr w evm evn dt).
Proof.
  intros Hl. unfold foi_entry, cite, cscal; simpl.
  set (x := w + (evm - evn)).
  replace (w / lam + (evm / lam - evn / lam)) with (x / lam) by (unfold x; field; lra).
  replace (x / lam * (lam * dt)) with (x * dt) by (field; lra).
  destruct (Rgtb (Rabs (x * dt)) thr); simpl.
  - f_equal; unfold Rdiv; rewrite Rinv_mult, Rinv_inv; ring.
  - f_equal; ring.
Qed.

(* the pre-fix mask of the package: |x| > thr in absolute units (commit 00b814e) *)
Definition foi_entry_absmask (thr w evm evn dt : R) : Cx :=
  let x := w + (evm - evn) in
  let xt := x * dt in
  cite RO (Rgtb (Rabs x) thr) (sin xt / x, (1 - cos xt) / x) (dt, 0).

(* with the absolute mask the scaling law fails: threshold 1e-7, w = 1, dt = 1, time unit x 1e8 *)
Theorem time_scaling_refuted_absolute_mask :
  exists thr w evm evn dt lam, 0 < lam /\ 0 < thr /\
    foi_entry_absmask thr (w / lam) (evm / lam) (evn / lam) (lam * dt)
    <> cscal RO lam (foi_entry_absmask thr w evm evn dt).
Proof.
  exists (/ 10000000), 1, 0, 0, 1, 100000000.
  split. lra. split. lra.
  unfold foi_entry_absmask, cite, cscal; simpl.
  replace (1 / 100000000 + (0 / 100000000 - 0 / 100000000)) with (/ 100000000) by field.
  replace (1 + (0 - 0)) with 1 by ring.
  assert (H1 : Rgtb (Rabs (/ 100000000)) (/ 10000000) = false).
  { apply Rgtb_false. rewrite Rabs_right by lra. lra. }
  assert (H2 : Rgtb (Rabs 1) (/ 10000000) = true).
  { apply Rgtb_true. rewrite Rabs_R1. lra. }
  rewrite H1, H2. simpl. intros E. injection E as E1 _.
  assert (Hs : sin 1 < 1) by (apply sin_lt_x; lra).
  replace (1 * 1) with 1 in E1 by ring. unfold Rdiv in E1. rewrite Rinv_1 in E1. lra.
Qed.

(* ---------- zero-duration segments: the segment integral vanishes identically ---------- *)
Theorem foi_entry_zero_duration thr w evm evn : foi_entry RO thr w evm evn 0 = (0, 0).
Proof.
  unfold foi_entry, cite; simpl. rewrite Rmult_0_r, sin_0, cos_0.
  destruct (Rgtb (Rabs 0) thr); simpl; f_equal; unfold Rdiv; ring.
Qed.
