(* __getitem__ (slices select exactly the sub-sequence Python's slice semantics names) and
   _parse_Hamiltonian (pairing, sorting, default identifiers). *)
From Coq Require Import ZArith List Bool String Ascii PeanoNat Lia Permutation Sorted DecimalString Decimal DecimalNat.
From FF Require Import Model.B64 Model.Pulse Spec.PulseSpec Proofs.PulseBase Proofs.PulseJoin Proofs.PulseCanon.
Import ListNotations.
Local Open Scope nat_scope.
Local Notation length := List.length (only parsing).

(* ------------------------------------------------------------------ slices *)
Section Slice.
Local Open Scope Z_scope.

Lemma clip_index_range len st v : 0 <= len ->
  (0 < st -> 0 <= clip_index len st v <= len) /\ (st < 0 -> -1 <= clip_index len st v <= len - 1).
Proof.
  intros HL. unfold clip_index.
  destruct (v <? 0) eqn:E1; [destruct (v + len <? 0) eqn:E2|destruct (len <=? v) eqn:E3];
  destruct (st <? 0) eqn:E4;
  repeat match goal with
         | H : (_ <? _) = true |- _ => apply Z.ltb_lt in H
         | H : (_ <? _) = false |- _ => apply Z.ltb_ge in H
         | H : (_ <=? _) = true |- _ => apply Z.leb_le in H
         | H : (_ <=? _) = false |- _ => apply Z.leb_gt in H
         end; lia.
Qed.

(* the positions a slice selects: a, a+st, a+2st, ... strictly before b (after, for st < 0) *)
Lemma slice_list_nth a b st k : (k < length (slice_list a b st))%nat ->
  nth k (slice_list a b st) 0%nat = Z.to_nat (a + Z.of_nat k * st).
Proof.
  unfold slice_list. rewrite map_length, seq_length. intros Hk.
  rewrite (nth_indep _ 0%nat (Z.to_nat (a + Z.of_nat 0 * st))) by (rewrite map_length, seq_length; exact Hk).
  rewrite (map_nth (fun k => Z.to_nat (a + Z.of_nat k * st))). rewrite seq_nth by exact Hk. reflexivity.
Qed.

Lemma slice_length_pos_spec a b st n : 0 < st -> 0 <= n -> (n < slice_length a b st <-> a + n * st < b).
Proof.
  intros Hs Hn. unfold slice_length.
  replace (st <? 0) with false by (symmetry; apply Z.ltb_ge; lia).
  destruct (a <? b) eqn:E; [apply Z.ltb_lt in E | apply Z.ltb_ge in E].
  - pose proof (Z.div_mod (b - a - 1) st ltac:(lia)) as DM.
    pose proof (Z.mod_pos_bound (b - a - 1) st Hs) as MB. split; intros H; nia.
  - split; intros H; nia.
Qed.
Lemma slice_length_neg_spec a b st n : st < 0 -> 0 <= n -> (n < slice_length a b st <-> b < a + n * st).
Proof.
  intros Hs Hn. unfold slice_length.
  replace (st <? 0) with true by (symmetry; apply Z.ltb_lt; lia).
  destruct (b <? a) eqn:E; [apply Z.ltb_lt in E | apply Z.ltb_ge in E].
  - pose proof (Z.div_mod (a - b - 1) (- st) ltac:(lia)) as DM.
    pose proof (Z.mod_pos_bound (a - b - 1) (- st) ltac:(lia)) as MB. split; intros H; nia.
  - split; intros H; nia.
Qed.
Lemma slice_length_nonneg a b st : 0 <= slice_length a b st.
Proof.
  unfold slice_length. destruct (st <? 0) eqn:E; [apply Z.ltb_lt in E | apply Z.ltb_ge in E].
  - destruct (b <? a) eqn:E2; [|lia]. apply Z.ltb_lt in E2.
    assert (0 <= (a - b - 1) / - st) by (apply Z.div_pos; lia). lia.
  - destruct (a <? b) eqn:E2; [|lia]. apply Z.ltb_lt in E2.
    destruct (Z.eq_dec st 0) as [->|]; [rewrite Zdiv_0_r; lia|].
    assert (0 <= (b - a - 1) / st) by (apply Z.div_pos; lia). lia.
Qed.

(* membership: exactly the arithmetic progression of Python's definition of s[i:j:k] *)
Theorem slice_list_mem a b st i : st <> 0 -> 0 <= a \/ (st < 0 /\ -1 <= a) -> -1 <= b ->
  (In i (slice_list a b st) <->
   exists n, 0 <= n /\ Z.of_nat i = a + n * st /\ (if st <? 0 then b < a + n * st else a + n * st < b)).
Proof.
  intros Hst Ha Hb. unfold slice_list. rewrite in_map_iff. split.
  - intros [k [Hk Hin]]. apply in_seq in Hin. exists (Z.of_nat k).
    assert (Hlt : Z.of_nat k < slice_length a b st).
    { pose proof (slice_length_nonneg a b st). lia. }
    destruct (st <? 0) eqn:E; [apply Z.ltb_lt in E | apply Z.ltb_ge in E].
    + assert (X : b < a + Z.of_nat k * st) by (apply (slice_length_neg_spec a b st (Z.of_nat k)); lia).
      split; [lia|]. split; [|exact X]. subst i. rewrite Z2Nat.id; [reflexivity | lia].
    + assert (X : a + Z.of_nat k * st < b) by (apply (slice_length_pos_spec a b st (Z.of_nat k)); lia).
      split; [lia|]. split; [|exact X]. subst i. rewrite Z2Nat.id; [reflexivity | nia].
  - intros [n [Hn [Hi Hc]]]. exists (Z.to_nat n). split.
    + rewrite Z2Nat.id by lia. rewrite <- Hi. apply Nat2Z.id.
    + apply in_seq. split; [lia|]. simpl.
      assert (n < slice_length a b st).
      { destruct (st <? 0) eqn:E; [apply Z.ltb_lt in E | apply Z.ltb_ge in E].
        - apply slice_length_neg_spec; lia.
        - apply slice_length_pos_spec; lia. }
      lia.
Qed.

Theorem slice_list_range start stop step len a b st :
  slice_indices start stop step (Z.of_nat len) = Some (a, b, st) ->
  st <> 0 /\ (0 <= a \/ (st < 0 /\ -1 <= a)) /\ -1 <= b /\
  Forall (fun i => (i < len)%nat) (slice_list a b st).
Proof.
  unfold slice_indices. set (s := match step with None => 1 | Some s => s end).
  destruct (s =? 0) eqn:E0; [discriminate|]. apply Z.eqb_neq in E0.
  intros H. inversion H; subst a b st. clear H.
  set (a := match start with Some v => clip_index (Z.of_nat len) s v | None => if s <? 0 then Z.of_nat len - 1 else 0 end).
  set (b := match stop with Some v => clip_index (Z.of_nat len) s v | None => if s <? 0 then -1 else Z.of_nat len end).
  assert (HL : 0 <= Z.of_nat len) by lia.
  assert (Ra : (0 < s -> 0 <= a <= Z.of_nat len) /\ (s < 0 -> -1 <= a <= Z.of_nat len - 1)).
  { subst a. destruct start as [v|]; [apply clip_index_range; exact HL|].
    destruct (s <? 0) eqn:E; [apply Z.ltb_lt in E | apply Z.ltb_ge in E]; lia. }
  assert (Rb : (0 < s -> 0 <= b <= Z.of_nat len) /\ (s < 0 -> -1 <= b <= Z.of_nat len - 1)).
  { subst b. destruct stop as [v|]; [apply clip_index_range; exact HL|].
    destruct (s <? 0) eqn:E; [apply Z.ltb_lt in E | apply Z.ltb_ge in E]; lia. }
  clearbody a b.
  destruct Ra as [Ra1 Ra2], Rb as [Rb1 Rb2].
  assert (Ha : 0 <= a \/ (s < 0 /\ -1 <= a)).
  { destruct (Z.lt_trichotomy s 0) as [Hs|[Hs|Hs]]; [right; specialize (Ra2 Hs); split; lia | lia | left; specialize (Ra1 Hs); lia]. }
  assert (Hb : -1 <= b).
  { destruct (Z.lt_trichotomy s 0) as [Hs|[Hs|Hs]]; [specialize (Rb2 Hs); lia | lia | specialize (Rb1 Hs); lia]. }
  split; [exact E0|]. split; [exact Ha|]. split; [exact Hb|].
  apply Forall_forall. intros i Hi.
  apply slice_list_mem in Hi; [|exact E0|exact Ha|exact Hb].
  destruct Hi as [n [Hn [Hi Hc]]].
  destruct (s <? 0) eqn:E; [apply Z.ltb_lt in E | apply Z.ltb_ge in E].
  - specialize (Ra2 E). nia.
  - assert (Hs : 0 < s) by lia. specialize (Rb1 Hs). nia.
Qed.
End Slice.

Lemma key_indices_range k len idx : key_indices k len = Ok idx -> Forall (fun i => i < len) idx.
Proof.
  destruct k as [i|a b s]; simpl.
  - destruct ((if (i <? 0)%Z then (i + Z.of_nat len)%Z else i) <? 0)%Z eqn:E1; simpl; [discriminate|].
    destruct (Z.of_nat len <=? (if (i <? 0)%Z then (i + Z.of_nat len)%Z else i))%Z eqn:E2; [discriminate|].
    intros H; inversion H; subst. constructor; [|constructor].
    apply Z.ltb_ge in E1. apply Z.leb_gt in E2. lia.
  - destruct (slice_indices a b s (Z.of_nat len)) as [[[x y] st]|] eqn:E; [|discriminate].
    intros H; inversion H; subst. eapply slice_list_range; eassumption.
Qed.

(* ------------------------------------------------------------------ columns *)
Definition column (rows : list (list num)) (i : nat) : col := map (fun r => nth i r d0) rows.

Lemma transpose_gather rows idx :
  transpose (length idx) (map (fun r => gather d0 r idx) rows) = map (column rows) idx.
Proof.
  revert rows; induction idx as [|i idx IH]; intros rows; [reflexivity|].
  simpl length. cbn [transpose map]. f_equal.
  - unfold column. rewrite map_map. reflexivity.
  - rewrite map_map. cbn [gather map tl]. apply IH.
Qed.

Lemma transpose_nth G rows i dflt : i < G -> nth i (transpose G rows) dflt = column rows i.
Proof.
  revert rows i; induction G as [|G IH]; intros rows i Hi; [lia|].
  cbn [transpose]. destruct i as [|i].
  - simpl. unfold column. apply map_ext. intros [|x r]; reflexivity.
  - simpl nth. rewrite IH by lia. unfold column. rewrite map_map. apply map_ext. intros [|x r]; simpl; auto.
    destruct i; reflexivity.
Qed.

(* the result of p[key]: the selected segments in the selected order, everything else unchanged *)
Theorem getitem_spec p k q : getitem p k = Ok q ->
  exists idx, key_indices k (length (dt p)) = Ok idx /\ idx <> [] /\
              Forall (fun i => i < length (dt p)) idx /\
              segments q = gather ([], [], d0) (segments p) idx /\
              c_opers q = c_opers p /\ c_ids q = c_ids p /\ n_opers q = n_opers p /\ n_ids q = n_ids p /\
              dim q = dim p /\ basis q = basis p.
Proof.
  unfold getitem. destruct (key_indices k (length (dt p))) as [idx|e] eqn:E; [|discriminate].
  pose proof (key_indices_range _ _ _ E) as HR.
  destruct (gather d0 (dt p) idx) as [|x r] eqn:Eg; [discriminate|].
  intros H; inversion H; subst q; clear H. exists idx. cbn [c_opers c_ids n_opers n_ids dim basis].
  split; [reflexivity|]. split; [intros ->; discriminate|]. split; [exact HR|].
  split; [|repeat split; reflexivity].
  unfold segments, segs_of. cbn [c_coeffs n_coeffs dt]. rewrite <- Eg.
  rewrite gather_length, !transpose_gather.
  assert (T : forall rows, map (column rows) idx = gather [] (transpose (length (dt p)) rows) idx).
  { intros rows. unfold gather. apply map_ext_in. intros i Hi. symmetry. apply transpose_nth.
    rewrite Forall_forall in HR. auto. }
  rewrite !T. symmetry. unfold seg, col.
  rewrite (gather_combine ([], []) d0) by (rewrite combine_length, !transpose_length; lia).
  rewrite (gather_combine [] []) by (rewrite !transpose_length; reflexivity).
  reflexivity.
Qed.

(* an empty selection is an IndexError; an integer out of range too *)
Theorem getitem_empty p k : key_indices k (length (dt p)) = Ok [] -> getitem p k = Raise IndexError.
Proof. intros H. unfold getitem. rewrite H. reflexivity. Qed.

(* ------------------------------------------------------------------ _parse_Hamiltonian *)
Definition h_op (h : hentry) : mat := fst (fst h).
Definition h_coeffs (h : hentry) : list num := snd (fst h).

Theorem parse_sorted_paired noise n H ops ids cfs :
  parse_hamiltonian noise n H = Ok (ops, ids, cfs) ->
  (* every operator is stored with its own coefficients and its own (given or default) identifier *)
  Permutation (combine (combine ops ids) cfs) (combine (combine (map h_op H) (fill_ids noise H)) (map h_coeffs H)) /\
  (* sorted by identifier *)
  StronglySorted sle ids /\ (NoDup (fill_ids noise H) -> StronglySorted Str.lt ids) /\
  (* identifiers that were given explicitly are unique, otherwise the constructor raises *)
  (all_absent H = false -> NoDup (fill_ids noise H)) /\
  Forall (fun c => length c = n) cfs /\ length ops = length H /\ length ids = length H /\ length cfs = length H.
Proof.
  unfold parse_hamiltonian.
  destruct (negb (all_absent H) && negb (uniqueb (fill_ids noise H))) eqn:E1; [discriminate|].
  destruct (negb (forallb (fun c => length c =? n) (map (fun h => snd (fst h)) H))) eqn:E2; [discriminate|].
  intros K; inversion K; subst; clear K.
  assert (LI : length (fill_ids noise H) = length H).
  { unfold fill_ids. destruct (all_absent H); rewrite map_length, ?combine_length, seq_length; lia. }
  assert (LO : length (map (fun h : hentry => fst (fst h)) H) = length (fill_ids noise H)) by (rewrite map_length; lia).
  assert (LC : length (map (fun h : hentry => snd (fst h)) H) = length (fill_ids noise H)) by (rewrite map_length; lia).
  split; [|split; [|split; [|split; [|split]]]].
  - unfold hentry, mat in *. rewrite <- (gather_combine [] EmptyString) by (rewrite map_length; lia).
    rewrite <- (gather_combine ([], EmptyString) []) by (rewrite combine_length, !map_length; lia).
    apply gather_argsort_perm. rewrite !combine_length, !map_length. lia.
  - apply sorted_ids_sorted.
  - intros HN. apply sorted_strict; [|apply sorted_ids_sorted].
    eapply Permutation_NoDup; [symmetry; apply sorted_ids_perm | exact HN].
  - intros HA. rewrite HA in E1. simpl in E1. apply negb_false_iff in E1. apply uniqueb_NoDup. exact E1.
  - apply negb_false_iff in E2. rewrite forallb_forall in E2. apply Forall_forall. intros c Hc.
    unfold gather in Hc. apply in_map_iff in Hc. destruct Hc as [i [<- Hi]].
    apply Nat.eqb_eq, E2, nth_In.
    pose proof (argsort_in_range (fill_ids noise H)) as R. rewrite Forall_forall in R. specialize (R i Hi).
    rewrite map_length. unfold hentry, mat in *. lia.
  - rewrite !gather_length, !argsort_length. unfold hentry, mat in *. lia.
Qed.

(* decimal printing is injective, hence so are the default identifiers A_i / B_i *)
Lemma dec_inj i j : dec i = dec j -> i = j.
Proof.
  unfold dec. intros H.
  assert (Some (Nat.to_uint i) = Some (Nat.to_uint j)) as K.
  { rewrite <- !NilEmpty.usu, H. reflexivity. }
  inversion K as [K']. rewrite <- (Unsigned.of_to i), <- (Unsigned.of_to j), K'. reflexivity.
Qed.
Lemma default_id_inj noise i j : default_id noise i = default_id noise j -> i = j.
Proof. unfold default_id. destruct noise; simpl; intros H; inversion H; apply dec_inj; assumption. Qed.

Lemma NoDup_map_inj {A B} (f : A -> B) l : (forall x y, f x = f y -> x = y) -> NoDup l -> NoDup (map f l).
Proof.
  intros Hf. induction 1 as [|x l Hn _ IH]; simpl; constructor; auto.
  intros Hin. apply in_map_iff in Hin. destruct Hin as [y [Hy Hin]]. apply Hf in Hy. subst. contradiction.
Qed.

(* operators without identifiers: A_0 .. A_{n-1} (B_i for noise), pairwise distinct, for every n *)
Theorem default_ids noise H : all_absent H = true ->
  fill_ids noise H = map (default_id noise) (seq 0 (length H)) /\ NoDup (fill_ids noise H).
Proof.
  intros HA. unfold fill_ids. rewrite HA. split; [reflexivity|].
  apply NoDup_map_inj; [apply default_id_inj | apply seq_NoDup].
Qed.

(* with some identifiers given, the filled defaults never collide with each other *)
Theorem default_ids_filled noise H : all_absent H = false ->
  fill_ids noise H = map (fun ih => match snd (snd ih) with Id s => s | _ => default_id noise (fst ih) end)
                         (combine (seq 0 (length H)) H).
Proof. intros HA. unfold fill_ids. rewrite HA. reflexivity. Qed.

(* before fix 313e828: 101 operators without identifiers, '<U4' cut A_100 down to A_10 *)
Definition many_absent (n : nat) : list hentry := map (fun _ => ([], [], IdAbsent)) (seq 0 n).
Theorem default_ids_prefix_refuted :
  exists ops ids cfs, parse_hamiltonian_prefix false 0 (many_absent 101) = Ok (ops, ids, cfs) /\ ~ NoDup ids.
Proof.
  destruct (parse_hamiltonian_prefix false 0 (many_absent 101)) as [[[ops ids] cfs]|e] eqn:E.
  - exists ops, ids, cfs. split; [reflexivity|].
    assert (U : uniqueb ids = false).
    { assert (X : match parse_hamiltonian_prefix false 0 (many_absent 101) with Ok r => uniqueb (snd (fst r)) | Raise _ => true end = false)
        by (vm_compute; reflexivity).
      rewrite E in X. exact X. }
    intros HN. apply uniqueb_NoDup in HN. congruence.
  - exfalso. assert (X : match parse_hamiltonian_prefix false 0 (many_absent 101) with Ok _ => true | Raise _ => false end = true)
      by (vm_compute; reflexivity).
    rewrite E in X. discriminate.
Qed.
(* the same call now: 101 distinct identifiers *)
Example default_ids_101 :
  match parse_hamiltonian false 0 (many_absent 101) with Ok r => uniqueb (snd (fst r)) && (length (snd (fst r)) =? 101) | Raise _ => false end = true.
Proof. vm_compute. reflexivity. Qed.
