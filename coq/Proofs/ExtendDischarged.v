(* C05 headline theorems with the helper hypotheses discharged: instead of assuming that a matrix M "is A (x) B"
   ([krel]), the premises say that M is what the C16 model of util.tensor / util.tensor_insert / util.tensor_merge
   (Model/Tensor.v at complex entries, tied to the source by Model/Tie/C16.v) returns on the given arguments;
   Proofs/KronBridgeC.v (agent-c16) turns that into [krel].                                         *)
From Coq Require Import String ZArith Reals List Lra Lia Arith Bool Permutation.
From FF Require Import Base.Ops Inst.RInst Base.RAlg Spec.Kron2 Spec.DigitPerm Model.Numeric Model.Remap Model.Extend
     Proofs.RemapIdx Proofs.RemapCov Proofs.ExtendKron Proofs.ExtendKron2 Proofs.Extend Proofs.Extend2.
From FF Require Import Model.Tensor Proofs.TensorOrder Proofs.KronBridgeC.
Import ListNotations.
Local Open Scope nat_scope.

(* M = util.tensor(A, B) *)
Definition is_tensor_pair (d1 d2 : nat) (A B M : Mat (T:=R)) : Prop :=
  exists Rr, tensor 2 [ofMat d1 A; ofMat d2 B] = Ok Rr /\ M = toMat (d1 * d2) Rr.
(* M = util.tensor_insert(A, B, pos=len(ds), arr_dims=[ds, ds])  -- B appended behind the factors of A (_insert_attrs
   of a pulse on the last qubit, identities appended behind a leading pulse) *)
Definition is_insert_end (d e : nat) (ds : list nat) (A B M : Mat (T:=R)) : Prop :=
  exists Rr, tensor_insert 2 (ofMat d A) [ofMat e B] (PSeq [Z.of_nat (length ds)]) [ds; ds] = Ok Rr /\ M = toMat (d * e) Rr.
(* M = util.tensor_insert(A, B, pos=0, arr_dims=[ds, ds])  -- B inserted in front of the factors of A *)
Definition is_insert_front (d e : nat) (ds : list nat) (A B M : Mat (T:=R)) : Prop :=
  exists Rr, tensor_insert 2 (ofMat d A) [ofMat e B] (PSeq [0%Z]) [ds; ds] = Ok Rr /\ M = toMat (e * d) Rr.
(* M = util.tensor_merge(A, B, pos=[nA]*nB, arr_dims=[[dq]*nA]*2, ins_dims=[[dq]*nB]*2)  -- _merge_attrs of a block
   whose qubits all lie behind the registers tensored so far *)
Definition is_merge_end (dq nA nB : nat) (A B M : Mat (T:=R)) : Prop :=
  exists Rr, tensor_merge 2 (ofMat (dq ^ nA) A) (ofMat (dq ^ nB) B) (repeat (Z.of_nat nA) nB)
               [repeat dq nA; repeat dq nA] [repeat dq nB; repeat dq nB] = Ok Rr /\ M = toMat (dq ^ nA * dq ^ nB) Rr.

Lemma ok_inj {A} (x y : A) : Ok x = Ok y -> x = y. Proof. intros H; inversion H; auto. Qed.

Lemma is_tensor_pair_krel d1 d2 A B M : is_tensor_pair d1 d2 A B M -> krel d1 d2 A B M.
Proof.
  intros [Rr [E ->]]. destruct (tensor_pair_krel d1 d2 A B) as [R' [E' [_ K]]].
  rewrite E in E'. apply ok_inj in E'. subst R'. exact K.
Qed.
Lemma is_insert_end_krel d e ds A B M : 1 <= length ds -> prodn ds = d -> 0 < e ->
  is_insert_end d e ds A B M -> krel d e A B M.
Proof.
  intros H1 H2 H3 [Rr [E ->]]. destruct (tensor_insert_end_krel d e A B ds H1 H2 H3) as [R' [E' K]].
  rewrite E in E'. apply ok_inj in E'. subst R'. exact K.
Qed.
Lemma is_insert_front_krel d e ds A B M : 1 <= length ds -> prodn ds = d -> 0 < d ->
  is_insert_front d e ds A B M -> krel e d B A M.
Proof.
  intros H1 H2 H3 [Rr [E ->]]. destruct (tensor_insert_front_krel d e A B ds H1 H2 H3) as [R' [E' K]].
  rewrite E in E'. apply ok_inj in E'. subst R'. exact K.
Qed.
Lemma is_merge_end_krel dq nA nB A B M : 0 < dq -> 1 <= nA -> 1 <= nB ->
  is_merge_end dq nA nB A B M -> krel (dq ^ nA) (dq ^ nB) A B M.
Proof.
  intros H1 H2 H3 [Rr [E ->]]. destruct (tensor_merge_end_krel dq nA nB A B H1 H2 H3) as [R' [E' K]].
  rewrite E in E'. apply ok_inj in E'. subst R'. exact K.
Qed.
Lemma Forall3_impl {A B C} (P Q : A -> B -> C -> Prop) l1 l2 l3 :
  (forall x y z, P x y z -> Q x y z) -> Forall3 P l1 l2 l3 -> Forall3 Q l1 l2 l3.
Proof. intros H. induction 1; constructor; auto. Qed.

(* ---------- propagators: eigenvector matrices merged by tensor_merge / inserted by tensor_insert ---------- *)
Theorem propagators_tensor_discharged dq nA nB evs1 evs2 evs Vs1 Vs2 Vs dts : 0 < dq -> 1 <= nA -> 1 <= nB ->
  Forall3 (evrel (dq ^ nA) (dq ^ nB)) evs1 evs2 evs ->
  Forall3 (is_merge_end dq nA nB) Vs1 Vs2 Vs ->
  Forall3 (krel (dq ^ nA) (dq ^ nB)) (Numeric.propagators RO (dq ^ nA) evs1 Vs1 dts) (Numeric.propagators RO (dq ^ nB) evs2 Vs2 dts)
          (Numeric.propagators RO (dq ^ nA * dq ^ nB) evs Vs dts).
Proof.
  intros H1 H2 H3 He HV. apply propagators_krel; auto.
  eapply Forall3_impl; [|exact HV]. intros; apply is_merge_end_krel; auto.
Qed.

(* ---------- the two-block theorem: two pulses on the two halves of a register of nA + nB qudits ----------
   noise operators of the new pulse: util.tensor(B_a, identity) and util.tensor(identity, B'_b) (what extend builds for
   pulses on the leading / trailing qudits), eigenvectors: tensor_merge of the two pulses' eigenvector matrices *)
Section TwoBlocks.
Variables (dq nA nB K1 K2 na1 na2 : nat).
Local Notation d1 := (dq ^ nA).
Local Notation d2 := (dq ^ nB).
Variables (basis1 basis2 basis ns1 ns2 ns : list (Mat (T:=R))).
Hypothesis Hdq : 0 < dq. Hypothesis HnA : 1 <= nA. Hypothesis HnB : 1 <= nB.
Hypothesis HK1 : length basis1 = K1.
Hypothesis HK2 : length basis2 = K2.
Hypothesis HK : length basis = K1 * K2.
(* the basis of the register is the product of the two bases (Pauli: C05_pauli_product) *)
Hypothesis Hbasis : forall k l, k < K1 -> l < K2 -> is_tensor_pair d1 d2 (nthm basis1 k) (nthm basis2 l) (nthm basis (k * K2 + l)).
Hypothesis Honb1 : forall l m, l < K1 -> m < K1 ->
  mtrprod RO d1 (madj RO d1 (nthm basis1 l)) (nthm basis1 m) = if Nat.eqb l m then 1c else 0c.
Hypothesis Honb2 : forall l m, l < K2 -> m < K2 ->
  mtrprod RO d2 (madj RO d2 (nthm basis2 l)) (nthm basis2 m) = if Nat.eqb l m then 1c else 0c.
Hypothesis HK1p : 0 < K1.
Hypothesis HK2p : 0 < K2.
Hypothesis HC0 : feq d1 (toF (nthm basis1 0)) (fscal (cofr RO (Rinv (sqrt (INR d1)))) fid).
Hypothesis HD0 : feq d2 (toF (nthm basis2 0)) (fscal (cofr RO (Rinv (sqrt (INR d2)))) fid).
Hypothesis Hn1 : length ns1 = na1.
Hypothesis Hn2 : length ns2 = na2.
Hypothesis Hn : length ns = na1 + na2.
Hypothesis Hns1 : forall a, a < na1 -> is_tensor_pair d1 d2 (nthm ns1 a) (mid RO d2) (nthm ns a).
Hypothesis Hns2 : forall b, b < na2 -> is_tensor_pair d1 d2 (mid RO d1) (nthm ns2 b) (nthm ns (na1 + b)).
Variables (thr : R) (evs1 evs2 evs : list (list R)) (Vs1 Vs2 Vs : list (Mat (T:=R))) (omega : list R).
Variables (nc1 nc2 nc : list (list R)) (dts : list R).
Hypothesis He : Forall3 (evrel d1 d2) evs1 evs2 evs.           (* eigvals: sums (rank-1 tensor of ones, not a helper statement) *)
Hypothesis HV : Forall3 (is_merge_end dq nA nB) Vs1 Vs2 Vs.
Hypothesis UV1 : Forall (fun V => funitary d1 (toF V)) Vs1.
Hypothesis UV2 : Forall (fun V => funitary d2 (toF V)) Vs2.
Hypothesis Lc1 : length nc1 = na1.
Hypothesis Lc2 : length nc2 = na2.
Hypothesis Lc : length nc = na1 + na2.
Hypothesis Hc1 : forall a, a < na1 -> nth a nc [] = nth a nc1 [].
Hypothesis Hc2 : forall b, b < na2 -> nth (na1 + b) nc [] = nth b nc2 [].
Variables B1 B2 : Arr3 (T:=R).
Hypothesis HB1 : a3eq_cm na1 K1 (length omega) B1 (cm1 d1 basis1 ns1 thr evs1 Vs1 omega nc1 dts).
Hypothesis HB2 : a3eq_cm na2 K2 (length omega) B2 (cm2 d2 basis2 ns2 thr evs2 Vs2 omega nc2 dts).

Lemma d1pos : 0 < d1. Proof. apply pow_pos; auto. Qed.
Lemma d2pos : 0 < d2. Proof. apply pow_pos; auto. Qed.

Lemma kb : forall k l, k < K1 -> l < K2 -> krel d1 d2 (nthm basis1 k) (nthm basis2 l) (nthm basis (k * K2 + l)).
Proof. intros k l Hk Hl. apply is_tensor_pair_krel; auto. Qed.
Lemma kn1 : forall a, a < na1 -> krel d1 d2 (nthm ns1 a) (mid RO d2) (nthm ns a).
Proof. intros a Ha. apply is_tensor_pair_krel; auto. Qed.
Lemma kn2 : forall b, b < na2 -> krel d1 d2 (mid RO d1) (nthm ns2 b) (nthm ns (na1 + b)).
Proof. intros b Hb. apply is_tensor_pair_krel; auto. Qed.
Lemma kv : Forall3 (krel d1 d2) Vs1 Vs2 Vs.
Proof. eapply Forall3_impl; [|exact HV]. intros; apply is_merge_end_krel; auto. Qed.

Theorem two_block_control_matrix_discharged a kk o : a < na1 + na2 -> kk < K1 * K2 -> o < length omega ->
  a3get RO (assemble_cm RO (na1 + na2) (K1 * K2) (length omega) (two_blocks d1 d2 K1 K2 na1 na2 B1 B2)) a kk o =
  a3get RO (cm12 d1 d2 basis ns thr evs Vs omega nc dts) a kk o.
Proof.
  exact (two_block_control_matrix d1 d2 K1 K2 na1 na2 basis1 basis2 basis ns1 ns2 ns HK1 HK2 HK kb Honb1 Honb2 d1pos d2pos
           HK1p HK2p HC0 HD0 Hn1 Hn2 Hn kn1 kn2 thr evs1 evs2 evs Vs1 Vs2 Vs omega nc1 nc2 nc dts He kv UV1 UV2 Lc1 Lc2 Lc Hc1 Hc2
           B1 B2 HB1 HB2 a kk o).
Qed.

Theorem two_block_filter_function_discharged a b o : a < na1 + na2 -> b < na1 + na2 -> o < length omega ->
  a3get RO (assemble_ff RO (na1 + na2) (K1 * K2) (length omega) (two_blocks d1 d2 K1 K2 na1 na2 B1 B2)) a b o =
  a3get RO (Numeric.filter_function RO (na1 + na2) (K1 * K2) (length omega) (cm12 d1 d2 basis ns thr evs Vs omega nc dts)) a b o.
Proof.
  exact (two_block_filter_function d1 d2 K1 K2 na1 na2 basis1 basis2 basis ns1 ns2 ns HK1 HK2 HK kb Honb1 Honb2 d1pos d2pos
           HK1p HK2p HC0 HD0 Hn1 Hn2 Hn kn1 kn2 thr evs1 evs2 evs Vs1 Vs2 Vs omega nc1 nc2 nc dts He kv UV1 UV2 Lc1 Lc2 Lc Hc1 Hc2
           B1 B2 HB1 HB2 a b o).
Qed.
End TwoBlocks.

(* ---------- cm_embed with the helper hypotheses discharged: noise operators util.tensor_insert(B_a, identity, pos=end),
   eigenvectors tensor_insert(V1, V2, pos=end) (_insert_attrs of a pulse on the last qudit) ---------- *)
Theorem cm_embed_discharged d1 d2 ds K1 K2 na basis1 basis2 basis ns1 ns :
  1 <= length ds -> prodn ds = d1 -> 0 < d2 -> 0 < K2 ->
  length basis1 = K1 -> length basis = K1 * K2 ->
  (forall k l, k < K1 -> l < K2 -> is_tensor_pair d1 d2 (nthm basis1 k) (nthm basis2 l) (nthm basis (k * K2 + l))) ->
  length ns1 = na -> length ns = na ->
  (forall a, a < na -> is_insert_end d1 d2 ds (nthm ns1 a) (mid RO d2) (nthm ns a)) ->
  (forall l m, l < K2 -> m < K2 -> mtrprod RO d2 (madj RO d2 (nthm basis2 l)) (nthm basis2 m) = if Nat.eqb l m then 1c else 0c) ->
  feq d2 (toF (nthm basis2 0)) (fscal (cofr RO (Rinv (sqrt (INR d2)))) fid) ->
  forall thr evs1 evs2 evs Vs1 Vs2 Vs omega nc dts,
  Forall3 (evrel d1 d2) evs1 evs2 evs -> Forall3 (is_insert_end d1 d2 ds) Vs1 Vs2 Vs ->
  Forall (fun V => funitary d2 (toF V)) Vs2 ->
  let B1 := control_matrix_from_scratch RO d1 thr evs1 Vs1 (Numeric.propagators RO d1 evs1 Vs1 dts) omega basis1 ns1 nc dts (times RO dts) in
  let Bm := control_matrix_from_scratch RO (d1 * d2) thr evs Vs (Numeric.propagators RO (d1 * d2) evs Vs dts) omega basis ns nc dts (times RO dts) in
  forall a k l o, a < na -> k < K1 -> l < K2 -> o < length omega ->
    a3get RO Bm a (k * K2 + l) o = if Nat.eqb l 0 then cmul' (cofr RO (sqrt (INR d2))) (a3get RO B1 a k o) else 0c.
Proof.
  intros Hds Hpd Hd2 HK2 HK1 HK Hb Hn1 Hn Hns Honb HD0 thr evs1 evs2 evs Vs1 Vs2 Vs omega nc dts He HV UV.
  assert (Kb : forall k l, k < K1 -> l < K2 -> krel d1 d2 (nthm basis1 k) (nthm basis2 l) (nthm basis (k * K2 + l)))
    by (intros k l Hk Hl; apply is_tensor_pair_krel; auto).
  assert (Kn : forall a, a < na -> krel d1 d2 (nthm ns1 a) (mid RO d2) (nthm ns a))
    by (intros a Ha; eapply is_insert_end_krel; eauto).
  assert (Kv : Forall3 (krel d1 d2) Vs1 Vs2 Vs)
    by (eapply Forall3_impl; [|exact HV]; intros; eapply is_insert_end_krel; eauto).
  exact (cm_embed d1 d2 K1 K2 na basis1 basis2 basis ns1 ns HK1 HK Kb Hn1 Hn Kn Honb Hd2 HK2 HD0
           thr evs1 evs2 evs Vs1 Vs2 Vs omega nc dts He Kv UV).
Qed.
