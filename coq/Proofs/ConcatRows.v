(* Row bookkeeping of the atomic path of concatenate (fix 818a95a), for every input:
     order = np.argsort([n_oper_mapping[i][identifier] for identifier in pulse.n_oper_identifiers])
     control_matrix_atomic[i, idx] = pulse.get_control_matrix(omega)[order]
   puts the control-matrix row of each noise operator of pulse i into the row of the SAME operator of the
   new pulse.                                                                                        *)
From Coq Require Import String Ascii List ZArith Bool Arith Lia Sorting.Sorted Sorting.Permutation OrderedTypeEx.
From FF Require Import Model.Concat Proofs.Concat.
Import ListNotations.

(* ---------- the order on identifiers ---------- *)
Lemma leb_cases a b : String.leb a b = true <-> a = b \/ String_as_OT.lt a b.
Proof.
  unfold String.leb. split.
  - destruct (String.compare a b) eqn:E; try discriminate; intros _.
    + left. apply String.compare_eq_iff. exact E.
    + right. apply String_as_OT.cmp_lt. exact E.
  - intros [->|H].
    + assert (E : String.compare b b = Eq) by (apply String_as_OT.cmp_eq; reflexivity). rewrite E. reflexivity.
    + apply String_as_OT.cmp_lt in H. unfold String_as_OT.cmp in H. rewrite H. reflexivity.
Qed.
Lemma leb_trans a b c : String.leb a b = true -> String.leb b c = true -> String.leb a c = true.
Proof.
  rewrite !leb_cases. intros [->|H1] [->|H2]; auto. right. eapply String_as_OT.lt_trans; eauto.
Qed.
Definition sle (a b : string) : Prop := String.leb a b = true.

Lemma sorted_strongly l : Sorted sle l -> StronglySorted sle l.
Proof. apply Sorted_StronglySorted. intros a b c. apply leb_trans. Qed.
Lemma strongly_filter (f : string -> bool) l : StronglySorted sle l -> StronglySorted sle (filter f l).
Proof.
  induction 1 as [|x l Hs IH Hx]; simpl. constructor.
  destruct (f x); auto. constructor; auto.
  apply Forall_forall. intros y Hy. apply filter_In in Hy. destruct Hy as [Hy _].
  rewrite Forall_forall in Hx. auto.
Qed.
(* a sorted duplicate-free list is determined by its set of elements *)
Lemma sorted_unique : forall l1 l2, StronglySorted sle l1 -> StronglySorted sle l2 -> NoDup l1 -> NoDup l2 ->
  (forall x, In x l1 <-> In x l2) -> l1 = l2.
Proof.
  induction l1 as [|a l1 IH]; intros l2 S1 S2 N1 N2 Hset.
  - destruct l2 as [|b l2]; auto. exfalso. apply (proj2 (Hset b)). left; reflexivity.
  - destruct l2 as [|b l2]. { exfalso. apply (proj1 (Hset a)). left; reflexivity. }
    inversion S1 as [|? ? S1' F1]; inversion S2 as [|? ? S2' F2]; subst.
    inversion N1 as [|? ? Na N1']; inversion N2 as [|? ? Nb N2']; subst.
    rewrite Forall_forall in F1, F2.
    assert (Eab : a = b).
    { destruct (proj1 (Hset a) (or_introl eq_refl)) as [->|Ha]; auto.
      destruct (proj2 (Hset b) (or_introl eq_refl)) as [->|Hb]; auto.
      apply String.leb_antisym; [apply F1; assumption | apply F2; assumption]. }
    subst b. f_equal. apply IH; auto.
    intros x. split; intros Hx.
    + destruct (proj1 (Hset x) (or_intror Hx)) as [->|]; auto. contradiction.
    + destruct (proj2 (Hset x) (or_intror Hx)) as [->|]; auto. contradiction.
Qed.

(* ---------- ranks and filters ---------- *)
Lemma count_true_filter {A} (f : A -> bool) l : count_true (map f l) = length (filter f l).
Proof.
  unfold count_true. induction l as [|x l IH]; simpl.
  - reflexivity.
  - destruct (f x); simpl; rewrite IH; reflexivity.
Qed.
Lemma rank_rows_spec : forall mask k0 row j, nth_error (rank_rows k0 mask) row = Some (Some j) ->
  nth_error mask row = Some true /\ j = k0 + count_true (firstn row mask).
Proof.
  induction mask as [|b mask IH]; intros k0 row j H; destruct row; simpl in *; try discriminate.
  - destruct b; simpl in H; inversion H. split; auto; unfold count_true; simpl; lia.
  - destruct b; simpl in H.
    + destruct (IH _ _ _ H) as [H1 H2]. split; auto; unfold count_true in *; simpl; lia.
    + destruct (IH _ _ _ H) as [H1 H2]. split; auto.
Qed.
Lemma filter_nth {A} (f : A -> bool) : forall l row x, nth_error l row = Some x -> f x = true ->
  nth_error (filter f l) (length (filter f (firstn row l))) = Some x.
Proof.
  induction l as [|y l IH]; intros row x H Hx; destruct row; simpl in *; try discriminate.
  - inversion H; subst. rewrite Hx. reflexivity.
  - destruct (f y); simpl; apply IH; assumption.
Qed.

(* ---------- argsort ---------- *)
Lemma combine_seq_nth {A} : forall (l : list A) s k x, In (k, x) (combine (seq s (length l)) l) -> nth_error l (k - s) = Some x /\ s <= k.
Proof.
  induction l as [|y l IH]; intros s k x H; simpl in *. contradiction.
  destruct H as [E|H].
  - inversion E; subst. rewrite Nat.sub_diag. split; auto.
  - destruct (IH (S s) k x H) as [H1 H2]. split; [|lia].
    replace (k - s) with (S (k - S s)) by lia. exact H1.
Qed.
Lemma map_snd_combine_seq {A} : forall (l : list A) s, map snd (combine (seq s (length l)) l) = l.
Proof. induction l; intros s; simpl; congruence. Qed.
Definition sorted_pairs (l : list string) := sort_by (fun x : nat * string => snd x) (combine (seq 0 (length l)) l).
Lemma argsort_nth l j : j < length l ->
  nth_error l (nth j (argsort l) 0) = nth_error (map snd (sorted_pairs l)) j.
Proof.
  intros Hj. unfold argsort. fold (sorted_pairs l).
  assert (Hp : Permutation (sorted_pairs l) (combine (seq 0 (length l)) l)) by apply sort_by_perm.
  assert (Hlen : length (sorted_pairs l) = length l).
  { rewrite (Permutation_length Hp). rewrite combine_length, seq_length. lia. }
  destruct (nth_error (sorted_pairs l) j) as [[k x]|] eqn:E.
  2:{ apply nth_error_None in E. lia. }
  assert (E1 : nth j (map fst (sorted_pairs l)) 0 = k).
  { apply nth_error_nth. rewrite nth_error_map, E. reflexivity. }
  rewrite E1.
  assert (E2 : nth_error (map snd (sorted_pairs l)) j = Some x).
  { rewrite nth_error_map, E. reflexivity. }
  rewrite E2.
  assert (Hin : In (k, x) (combine (seq 0 (length l)) l)).
  { apply (Permutation_in _ Hp). eapply nth_error_In; eauto. }
  destruct (combine_seq_nth l 0 k x Hin) as [H1 _]. rewrite Nat.sub_0_r in H1. exact H1.
Qed.

Section Rows.
Variables oper coef : Type.
Variable oeqb : oper -> oper -> bool.
Variable ceqb : coef -> coef -> bool.
Variable czero : coef.
Hypothesis oeqb_spec : forall a b, reflect (a = b) (oeqb a b).

Notation ham := (ham oper coef).
Notation flatten := (flatten oper coef).
Notation uniq := (uniq oper coef oeqb).
Notation new_id := (new_id oper coef oeqb).
Notation mapped_id := (mapped_id oper coef oeqb).
Notation mappings_from := (mappings_from oper coef oeqb).
Notation mapping_of := (mapping_of oper coef oeqb).
Notation concatenate_hamiltonian := (concatenate_hamiltonian oper coef oeqb ceqb czero).

Lemma nth_mappings mc hs : forall (l : list ham) p i h, nth_error l i = Some h ->
  nth_error (mappings_from mc hs p l) i = Some (mapping_of mc hs (p + i) h).
Proof.
  induction l as [|h0 l IH]; intros p i h H; destruct i; simpl in *; try discriminate.
  - inversion H; subst. rewrite Nat.add_0_r. reflexivity.
  - rewrite (IH (S p) i h H). f_equal. f_equal. lia.
Qed.

Lemma row_sources_nth new_ids hs i h : nth_error hs i = Some h ->
  nth i (row_sources new_ids (mappings_from current hs 0 hs)) [] =
  map (option_map (fun k0 => nth k0 (argsort (map (fun e => mapped_id current hs (0 + i) e) (h_entries h))) 0))
      (rank_rows 0 (map (fun u => mem_str u (map (fun e => mapped_id current hs (0 + i) e) (h_entries h))) new_ids)).
Proof.
  intros Hi. unfold row_sources, row_sources_gen.
  apply nth_error_nth. rewrite nth_error_map. rewrite (nth_mappings current hs hs 0 i h Hi). simpl.
  unfold Concat.mapping_of. rewrite map_map. simpl. reflexivity.
Qed.

Theorem rows_sound k hs r i h row src :
  concatenate_hamiltonian k hs = inr r ->
  nth_error hs i = Some h -> NoDup (map (@e_id oper coef) (h_entries h)) ->
  nth_error (nth i (row_sources (r_ids r) (r_map r)) []) row = Some (Some src) ->
  option_map (@e_op oper coef) (nth_error (h_entries h) src) = nth_error (r_ops r) row.
Proof.
  intros H Hi Hwf Hrow.
  destruct (concat_result oper coef oeqb ceqb czero k hs r H) as (Hc & Hd & Ho & Hids & _ & Hm).
  destruct (concat_hamiltonian_denote oper coef oeqb ceqb czero oeqb_spec k hs r H) as (_ & _ & _ & Sids & Nids & _).
  assert (Hperm : Permutation (sorted_uniq oper coef oeqb hs) (uniq hs)) by apply sort_by_perm.
  assert (Hh : In h hs) by (eapply nth_error_In; eauto).
  assert (Hin : forall e, In e (h_entries h) -> exists q, In (q, e) (flatten hs)).
  { intros e He. apply (in_flatten_from oper coef hs 0 h e); auto. }
  set (g := fun e => mapped_id current hs (0 + i) e).
  set (mapped := map g (h_entries h)).
  (* the row of sources of pulse i *)
  rewrite Hm, (row_sources_nth (r_ids r) hs i h Hi) in Hrow. fold g in Hrow. fold mapped in Hrow.
  rewrite nth_error_map in Hrow.
  destruct (nth_error (rank_rows 0 (map (fun u => mem_str u mapped) (r_ids r))) row) as [[j|]|] eqn:Er; simpl in Hrow; try discriminate.
  inversion Hrow as [Hsrc]. clear Hrow.
  destruct (rank_rows_spec _ _ _ _ Er) as [Hmask Hj]. simpl in Hj.
  rewrite nth_error_map in Hmask.
  destruct (nth_error (r_ids r) row) as [x|] eqn:Ex; simpl in Hmask; [|discriminate].
  inversion Hmask as [Hfx]. clear Hmask.
  rewrite firstn_map, count_true_filter in Hj.
  pose proof (filter_nth (fun u => mem_str u mapped) (r_ids r) row x Ex Hfx) as HF. rewrite <- Hj in HF.
  (* mapped identifiers of the pulse: duplicate-free, all among the new identifiers *)
  assert (Nm : NoDup mapped) by (apply (mapped_nodup oper coef oeqb ceqb czero oeqb_spec hs (0 + i) h Hc Hd Hin Hwf)).
  assert (Hsub : forall y, In y mapped -> In y (r_ids r)).
  { intros y Hy. apply in_map_iff in Hy. destruct Hy as (e & <- & He). destruct (Hin e He) as (q & Hq).
    unfold g. rewrite (mapped_current_indep oper coef oeqb hs (0 + i) q e).
    destruct (mapped_id_is_new_id oper coef oeqb ceqb czero oeqb_spec hs q e Hc Hq) as (u & Hu & _ & ->).
    rewrite Hids. apply in_map. apply (Permutation_in u (Permutation_sym Hperm)). exact Hu. }
  (* filter of the sorted new identifiers = sorted mapped identifiers *)
  assert (Hp : Permutation (map snd (sorted_pairs mapped)) mapped).
  { rewrite <- (map_snd_combine_seq mapped 0) at 2. apply Permutation_map. apply sort_by_perm. }
  assert (EF : filter (fun u => mem_str u mapped) (r_ids r) = map snd (sorted_pairs mapped)).
  { apply sorted_unique.
    - apply strongly_filter. apply sorted_strongly. exact Sids.
    - apply sorted_strongly. apply (sorted_map (fun x : nat * string => snd x)). apply sort_by_sorted.
    - apply NoDup_filter. exact Nids.
    - apply (Permutation_NoDup (Permutation_sym Hp)). exact Nm.
    - intros y. rewrite filter_In. split.
      + intros [_ Hy]. apply mem_str_in in Hy. apply (Permutation_in y (Permutation_sym Hp)). exact Hy.
      + intros Hy. apply (Permutation_in y Hp) in Hy. split. apply Hsub; assumption. apply mem_str_in; assumption. }
  rewrite EF in HF.
  assert (Hjl : j < length mapped).
  { rewrite <- (Permutation_length Hp). apply nth_error_Some. rewrite HF. discriminate. }
  pose proof (argsort_nth mapped j Hjl) as HA. rewrite HF, Hsrc in HA.
  unfold mapped in HA. rewrite nth_error_map in HA.
  destruct (nth_error (h_entries h) src) as [e|] eqn:Ee; simpl in HA; [|discriminate].
  inversion HA as [Hge]. simpl.
  (* the entry e of the pulse and the operator in row [row] of the result have the same new identifier *)
  assert (He : In e (h_entries h)) by (eapply nth_error_In; eauto).
  destruct (Hin e He) as (q & Hq).
  unfold g in Hge. rewrite (mapped_current_indep oper coef oeqb hs (0 + i) q e) in Hge.
  destruct (mapped_id_is_new_id oper coef oeqb ceqb czero oeqb_spec hs q e Hc Hq) as (u & Hu & Eo & Em).
  rewrite Hids, nth_error_map in Ex.
  destruct (nth_error (sorted_uniq oper coef oeqb hs) row) as [u'|] eqn:Eu; simpl in Ex; [|discriminate].
  inversion Ex as [Ex'].
  assert (Hu' : In u' (uniq hs)) by (apply (Permutation_in u' Hperm); eapply nth_error_In; eauto).
  assert (Euu : u' = u).
  { apply (NoDup_map_inj (new_id hs) (uniq hs)); auto. apply has_dup_nodup; assumption. congruence. }
  subst u'. rewrite Hsrc, Ee, Ho, nth_error_map, Eu. simpl. rewrite Eo. reflexivity.
Qed.
End Rows.
