(* C16 -- row-major index arithmetic: ravel / indices / unravel (shared by the Kronecker-chain and
   Pauli-index proofs). *)
From Coq Require Import ZArith List Arith Lia Bool Permutation.
From FF Require Import Model.Tensor Spec.Kron.
Import ListNotations.

Section Generic.
Context {T : Type} {EN : Entry T} {EL : EntryLaws T}.
Local Notation arr := (garr T).

Definition inb (a s : list nat) : Prop := Forall2 (fun i d => i < d) a s.

Lemma flat_map_ext_in {A B} (f g : A -> list B) l : (forall x, In x l -> f x = g x) -> flat_map f l = flat_map g l.
Proof.
  induction l as [|a l IH]; simpl; intros H; auto.
  rewrite (H a (or_introl eq_refl)). rewrite IH by (intros; apply H; right; assumption). reflexivity.
Qed.

Lemma prodn_app a b : prodn (a ++ b) = prodn a * prodn b.
Proof. induction a; simpl; [lia|]. rewrite IHa. lia. Qed.

Lemma ravel_acc_spec s : forall acc a, length a = length s ->
  ravel_acc acc s a = acc * prodn s + ravel_acc 0 s a.
Proof.
  induction s as [|d s IH]; intros acc [|i a] H; simpl in *; try discriminate; try lia.
  rewrite (IH (acc * d + i)), (IH i) by lia. nia.
Qed.
Lemma ravel_cons d s i a : length a = length s ->
  ravel (d :: s) (i :: a) = i * prodn s + ravel s a.
Proof. intros H. unfold ravel. simpl. rewrite ravel_acc_spec by auto. reflexivity. Qed.
Lemma ravel_nil : ravel [] [] = 0.
Proof. reflexivity. Qed.

Lemma inb_length a s : inb a s -> length a = length s.
Proof. induction 1; simpl; auto. Qed.
Lemma ravel_bound a s : inb a s -> ravel s a < prodn s.
Proof.
  induction 1 as [|i d a s Hi H IH]; [simpl; unfold ravel; simpl; lia|].
  rewrite ravel_cons by (eapply inb_length; eauto).
  assert (S i * prodn s <= d * prodn s) by (apply Nat.mul_le_mono_r; lia).
  change (prodn (d :: s)) with (d * prodn s). rewrite Nat.mul_succ_l in H0. lia.
Qed.

Lemma ravel_app s1 s2 a1 a2 : length a1 = length s1 -> length a2 = length s2 ->
  ravel (s1 ++ s2) (a1 ++ a2) = ravel s1 a1 * prodn s2 + ravel s2 a2.
Proof.
  revert a1. induction s1 as [|d s1 IH]; intros [|i a1] H1 H2; simpl in *; try discriminate.
  - change (ravel [] []) with 0. lia.
  - rewrite !ravel_cons by (rewrite ?app_length; lia). rewrite IH by lia. rewrite prodn_app. ring.
Qed.

(* ---- indices *)
Lemma In_indices s : forall a, In a (indices s) <-> inb a s.
Proof.
  induction s as [|d s IH]; intros a; simpl.
  - split; [intros [<-|[]]; constructor|]. intros H; inversion H; auto.
  - rewrite in_flat_map. split.
    + intros [i [Hi Ha]]. apply in_map_iff in Ha. destruct Ha as [a' [<- Ha']].
      apply in_seq in Hi. constructor; [lia|]. apply IH; auto.
    + intros H. inversion H as [|i d' a' s' Hi Ha']; subst. exists i. split; [apply in_seq; lia|].
      apply in_map. apply IH; auto.
Qed.
Lemma indices_length s : length (indices s) = prodn s.
Proof.
  induction s as [|d s IH]; simpl; auto.
  generalize 0. induction d as [|d IHd]; intros b; simpl; auto.
  rewrite app_length, map_length, IH, IHd. reflexivity.
Qed.

Lemma flat_map_seq_blocks P d : flat_map (fun i => seq (i * P) P) (seq 0 d) = seq 0 (d * P).
Proof.
  induction d as [|d IH]; [reflexivity|].
  rewrite seq_S, flat_map_app, IH. cbn [flat_map]. rewrite app_nil_r.
  replace (S d * P) with (d * P + P) by lia. rewrite seq_app. reflexivity.
Qed.
Lemma map_add_seq k a n : map (fun r => k + r) (seq a n) = seq (k + a) n.
Proof.
  revert a. induction n as [|n IH]; intros a; simpl; auto. rewrite IH. f_equal. f_equal. lia.
Qed.
Lemma ravel_indices s : map (ravel s) (indices s) = seq 0 (prodn s).
Proof.
  induction s as [|d s IH]; [reflexivity|].
  cbn [indices prodn fold_right]. fold (prodn s).
  rewrite <- flat_map_seq_blocks.
  rewrite flat_map_concat_map, concat_map, map_map, <- flat_map_concat_map.
  apply flat_map_ext. intros i.
  rewrite map_map.
  rewrite (map_ext_in _ (fun a => i * prodn s + ravel s a)).
  - rewrite <- (map_map (ravel s) (fun r => i * prodn s + r)), IH, map_add_seq. f_equal. lia.
  - intros a Ha. apply In_indices in Ha. apply ravel_cons. eapply inb_length; eauto.
Qed.

Lemma NoDup_indices s : NoDup (indices s).
Proof.
  apply (NoDup_map_inv (ravel s)). rewrite ravel_indices. apply seq_NoDup.
Qed.

(* ---- unravel: the multi-index of a flat index *)
Lemma unravel_ravel s : forall a, inb a s -> unravel s (ravel s a) = a.
Proof.
  induction s as [|d s IH]; intros a H; inversion H as [|i d' a' s' Hi Ha]; subst; simpl; auto.
  pose proof (ravel_bound _ _ Ha) as Hb.
  rewrite ravel_cons by (eapply inb_length; eauto).
  assert (Hp : prodn s <> 0) by lia.
  rewrite Nat.div_add_l, Nat.div_small, Nat.add_0_r by lia.
  rewrite Nat.add_comm, Nat.mod_add, Nat.mod_small by lia.
  rewrite IH; auto.
Qed.
Lemma nth_indices s k : k < prodn s -> ravel s (nth k (indices s) []) = k.
Proof.
  intros H. rewrite <- (map_nth (ravel s)).
  replace (ravel s []) with (ravel s []) by reflexivity.
  rewrite (nth_indep _ _ 0) by (rewrite map_length, indices_length; auto).
  rewrite ravel_indices, seq_nth; auto.
Qed.
Lemma nth_indices_unravel s k : k < prodn s -> nth k (indices s) [] = unravel s k.
Proof.
  intros H. rewrite <- (nth_indices s k H) at 2.
  rewrite unravel_ravel; auto. apply In_indices. apply nth_In. rewrite indices_length. auto.
Qed.

(* tabulate / aget *)
Lemma aget_tabulate s f a : inb a s -> aget (tabulate s f) a = f a.
Proof.
  intros H. unfold aget, tabulate. simpl.
  pose proof (ravel_bound _ _ H) as Hb.
  rewrite (nth_indep _ _ (f [])) by (rewrite map_length, indices_length; auto).
  rewrite map_nth. f_equal. rewrite nth_indices_unravel by auto. apply unravel_ravel; auto.
Qed.
End Generic.
