(* Bridge between the C16 development (util.tensor / tensor_insert / tensor_merge / tensor_transpose on
   integer tensors = Kronecker chains of the rearranged factor lists, Properties/C16.v) and the Kronecker
   product of function matrices used by C05 / C06 (Spec/Kron2.v):
   on rank-2 tensors the product [kron2] of the C16 specification IS [fkron], and [permute_list] IS [sel].
   The hypotheses [krel] / [mrel] / [basis_is_pauli] of the C05 / C06 theorems state, for matrices with
   real / complex entries, what
     C16_insert_equals_tensor_of_rearranged, C16_merge_equals_tensor_of_rearranged,
     C16_transpose_equals_tensor_of_rearranged
   prove for integer entries (the helpers are einsum contractions, i.e. the same integer-coefficient
   polynomial maps of the entries over every commutative ring).                                  *)
From Coq Require Import ZArith Reals List Arith Lia.
From FF Require Import Base.Ops Inst.RInst Base.RAlg Spec.Kron2 Spec.DigitPerm Model.Tensor Spec.Kron Proofs.TensorIdx
     Proofs.TensorTranspose.
Import ListNotations.
Local Open Scope nat_scope.

(* an integer matrix read as a function matrix *)
Definition zF (a : arr) : fmat := fun i j => cofr RO (IZR (aget a [i; j])).

Theorem kron2_is_fkron (A B : arr) d1 d2 : shp A = [d1; d1] -> shp B = [d2; d2] ->
  feq (d1 * d2) (zF (kron2 A B)) (fkron d2 (zF A) (zF B)).
Proof.
  intros HA HB i j Hi Hj. unfold zF, kron2, fkron. rewrite HA, HB. simpl map2.
  rewrite aget_tabulate by (repeat constructor; auto). simpl map2.
  rewrite mult_IZR. apply c_eq; csimp; ring.
Qed.

Theorem permute_list_is_sel ord (L : list arr) : permute_list ord L = sel (mkArr [] []) L ord.
Proof. reflexivity. Qed.
