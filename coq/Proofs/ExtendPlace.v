(* C05, placement on arbitrary qubit positions: the qubit permutation that brings the active qubits
   [ind] to the front maps the product-basis element (k,0) to
   equivalent_pauli_basis_elements(ind, N)[k]; together with the covariance of the from-scratch control
   matrix under qubit permutations (Proofs/RemapCov.v) and the leading-block theorem
   (Proofs/ExtendKron.v) this gives the control matrix of a pulse placed on any set of qubits.   *)
From Coq Require Import String ZArith Reals List Lra Lia Arith Bool Permutation.
From FF Require Import Base.Ops Inst.RInst Base.RAlg Spec.Kron2 Spec.DigitPerm Model.Numeric Model.Remap Model.Extend
     Proofs.RemapIdx Proofs.RemapCov Proofs.ExtendKron Proofs.Extend.
Import ListNotations.
Local Open Scope nat_scope.

(* ---------- digits of k * d^r ---------- *)
Lemma undigits_app d l1 l2 : undigits d (l1 ++ l2) = undigits d l1 * d ^ length l2 + undigits d l2.
Proof.
  induction l1; simpl. lia. rewrite IHl1, app_length, Nat.pow_add_r. ring.
Qed.
Lemma undigits_zeros d r : undigits d (repeat 0 r) = 0.
Proof. induction r; simpl; auto. Qed.
Lemma digits_mul_pow d m r k : 0 < d -> k < d ^ m -> digits d (m + r) (k * d ^ r) = digits d m k ++ repeat 0 r.
Proof.
  intros Hd Hk.
  assert (E : k * d ^ r = undigits d (digits d m k ++ repeat 0 r)).
  { rewrite undigits_app, undigits_zeros, repeat_length, undigits_digits by auto. lia. }
  rewrite E.
  replace (m + r) with (length (digits d m k ++ repeat 0 r)) by (rewrite app_length, digits_length, repeat_length; auto).
  apply digits_undigits; auto. apply Forall_app. split. apply digits_lt; auto.
  apply Forall_forall. intros x Hx. apply repeat_spec in Hx. lia.
Qed.

Lemma filter_len_le {A} (f : A -> bool) l : length (filter f l) <= length l.
Proof. induction l; simpl; auto. destruct (f a); simpl; lia. Qed.

(* ---------- spread on the active positions ---------- *)
Section Idx.
Variable ind : list nat.
Definition act (s len : nat) : list nat := filter (fun i => memb i ind) (seq s len).

Lemma spread_active N pos ds q : q < N -> memb (pos + q) ind = true ->
  nth q (spread N pos ind ds) 0 = nth (length (act pos q)) ds 0.
Proof.
  revert pos ds q. induction N; intros pos ds q Hq Hm. lia.
  simpl. destruct (memb pos ind) eqn:Ep.
  - destruct q.
    + unfold act. simpl. destruct ds; reflexivity.
    + unfold act. simpl seq. simpl filter. rewrite Ep. simpl length.
      destruct ds as [|d0 ds]; simpl nth.
      * rewrite IHN by (try lia; rewrite <- Hm; f_equal; lia). destruct (length (act (S pos) q)); reflexivity.
      * rewrite IHN by (try lia; rewrite <- Hm; f_equal; lia). reflexivity.
  - destruct q.
    + rewrite Nat.add_0_r in Hm. congruence.
    + simpl nth. unfold act. simpl seq. simpl filter. rewrite Ep.
      rewrite IHN by (try lia; rewrite <- Hm; f_equal; lia). reflexivity.
Qed.

Lemma index_of_app_in n l1 l2 : In n l1 -> index_of n (l1 ++ l2) = index_of n l1.
Proof.
  induction l1; simpl; intros H. contradiction.
  destruct (Nat.eqb_spec a n); auto. destruct H; [contradiction|]. rewrite IHl1; auto.
Qed.
Lemma index_of_app_notin n l1 l2 : ~ In n l1 -> index_of n (l1 ++ l2) = length l1 + index_of n l2.
Proof.
  induction l1; simpl; intros H. reflexivity.
  destruct (Nat.eqb_spec a n). exfalso; apply H; left; auto.
  rewrite IHl1. reflexivity. intros Hin; apply H; right; auto.
Qed.
Lemma index_of_act s len n : s <= n < s + len -> memb n ind = true -> index_of n (act s len) = length (act s (n - s)).
Proof.
  revert s. induction len; intros s Hn Hm. lia.
  unfold act. simpl seq. simpl filter.
  destruct (Nat.eq_dec s n) as [->|Hne].
  - rewrite Hm. simpl. rewrite Nat.eqb_refl, Nat.sub_diag. reflexivity.
  - replace (n - s) with (S (n - S s)) by lia. simpl seq. simpl filter.
    destruct (memb s ind).
    + simpl. destruct (Nat.eqb_spec s n); [contradiction|]. f_equal. apply IHlen; auto. lia.
    + apply IHlen; auto. lia.
Qed.
Lemma act_in s len n : In n (act s len) <-> (s <= n < s + len /\ memb n ind = true).
Proof. unfold act. rewrite filter_In, in_seq. tauto. Qed.

Variable N : nat.
Definition front : list nat := act 0 N ++ set_diff N ind.

Lemma front_perm : is_perm N front.
Proof.
  unfold is_perm, front, act, set_diff. apply Permutation_sym.
  assert (G : forall l : list nat, Permutation l (filter (fun i => memb i ind) l ++ filter (fun q => negb (memb q ind)) l)).
  { induction l; simpl. constructor. destruct (memb a ind); simpl. constructor; auto.
    eapply Permutation_trans. apply perm_skip. exact IHl. apply Permutation_middle. }
  apply G.
Qed.

(* the index identity: (k, 0) of the product basis  |->  equivalent_pauli_basis_elements(ind, N)[k] *)
Theorem placement_index k : let m := length (act 0 N) in k < 4 ^ m ->
  dperm 4 N (inv_order front) (k * 4 ^ (N - m)) = nth k (equiv_idx ind N) 0.
Proof.
  intros m Hk. unfold equiv_idx. fold (act 0 N). fold m. rewrite build_nth by auto.
  unfold dperm. f_equal.
  assert (Hm : m <= N).
  { unfold m, act. eapply Nat.le_trans. apply filter_len_le. rewrite seq_length. lia. }
  replace N with (m + (N - m)) at 1 by lia.
  rewrite digits_mul_pow by (auto; lia).
  pose proof front_perm as HP. pose proof (is_perm_length _ _ HP) as LF.
  apply (nth_ext _ _ 0 0).
  - rewrite sel_length, inv_order_length, LF, spread_length. reflexivity.
  - intros n Hn. rewrite sel_length, inv_order_length, LF in Hn.
    rewrite nth_sel by (rewrite inv_order_length, LF; auto).
    rewrite nth_inv_order by (rewrite LF; auto).
    unfold front. destruct (memb n ind) eqn:En.
    + rewrite index_of_app_in by (apply act_in; split; [lia|auto]).
      rewrite index_of_act by (auto; lia). rewrite Nat.sub_0_r.
      rewrite (spread_active N 0 _ n Hn) by (simpl; auto).
      assert (Hlt : length (act 0 n) < m).
      { (* n itself is active and comes after the first n positions *)
        unfold m. replace N with (n + (N - n)) by lia. unfold act. rewrite seq_app, filter_app, app_length.
        simpl. replace (N - n) with (S (N - n - 1)) by lia. simpl. rewrite En. simpl. lia. }
      rewrite app_nth1 by (rewrite digits_length; auto). reflexivity.
    + rewrite index_of_app_notin by (rewrite act_in; intros [_ E]; congruence).
      rewrite (spread_inactive N 0 ind _ n Hn) by (simpl; auto).
      fold m. rewrite app_nth2 by (rewrite digits_length; lia). rewrite digits_length.
      apply nth_repeat.
Qed.
End Idx.

(* ---------- control matrix of a pulse placed on arbitrary positions ---------- *)
Section Placement.
Variables (d1 d2 K1 K2 na : nat).
Variables (basis1 basis2 basis ns1 ns : list (Mat (T:=R))).
Hypothesis HK1 : length basis1 = K1.
Hypothesis HK : length basis = K1 * K2.
Hypothesis Hprod : forall k l, k < K1 -> l < K2 -> krel d1 d2 (nthm basis1 k) (nthm basis2 l) (nthm basis (k * K2 + l)).
Hypothesis Hn1 : length ns1 = na.
Hypothesis Hn : length ns = na.
Hypothesis Hns : forall a, a < na -> krel d1 d2 (nthm ns1 a) (mid RO d2) (nthm ns a).
Hypothesis Honb : forall l m, l < K2 -> m < K2 ->
  mtrprod RO d2 (madj RO d2 (nthm basis2 l)) (nthm basis2 m) = if Nat.eqb l m then 1c else 0c.
Hypothesis Hd2 : 0 < d2.
Hypothesis HK2 : 0 < K2.
Hypothesis HD0 : feq d2 (toF (nthm basis2 0)) (fscal (cofr RO (Rinv (sqrt (INR d2)))) fid).
(* the re-indexing of the register (qubit permutation) and of the basis *)
Variables (tau pi : nat -> nat).
Hypothesis Htau : bij_on (d1 * d2) tau.
Hypothesis Hpi : bij_on (K1 * K2) pi.
Hypothesis Hcov : forall kk, kk < K1 * K2 -> mrel (d1 * d2) tau (nthm basis kk) (nthm basis (pi kk)).

Theorem placement_control_matrix thr evs1 evs2 evs evs' Vs1 Vs2 Vs Vs' omega ns' nc dts :
  Forall3 (evrel d1 d2) evs1 evs2 evs -> Forall3 (krel d1 d2) Vs1 Vs2 Vs ->
  Forall (fun V => funitary d2 (toF V)) Vs2 ->
  (* the placed pulse: everything re-indexed by the qubit permutation *)
  Forall2 (vrel (d1 * d2) tau) evs evs' -> Forall2 (mrel (d1 * d2) tau) Vs Vs' ->
  length ns' = na -> (forall a, a < na -> mrel (d1 * d2) tau (nthm ns a) (nthm ns' a)) ->
  length nc = na ->
  let B1 := control_matrix_from_scratch RO d1 thr evs1 Vs1 (Numeric.propagators RO d1 evs1 Vs1 dts) omega basis1 ns1 nc dts (times RO dts) in
  let Bp := control_matrix_from_scratch RO (d1 * d2) thr evs' Vs' (Numeric.propagators RO (d1 * d2) evs' Vs' dts) omega basis ns' nc dts (times RO dts) in
  forall a k l o, a < na -> k < K1 -> l < K2 -> o < length omega ->
    a3get RO Bp a (pi (k * K2 + l)) o =
      if Nat.eqb l 0 then cmul' (cofr RO (sqrt (INR d2))) (a3get RO B1 a k o) else 0c.
Proof.
  intros He HV UV He' HV' Ln' Hns' Lc B1 Bp a k l o Ha Hk Hl Ho.
  assert (Hkl : k * K2 + l < K1 * K2) by (apply pair_lt_prod; auto).
  pose proof (control_matrix_rel (d1 * d2) tau Htau na (K1 * K2) (fun x => x) pi ltac:(auto) Hpi basis HK Hcov
                thr evs evs' Vs Vs' omega ns ns' nc nc dts He' HV'
                (conj Hn (conj Ln' Hns')) Lc Lc ltac:(auto)) as Hrel.
  unfold Bp. rewrite (Hrel a (k * K2 + l) o Ha Hkl Ho).
  apply (cm_embed d1 d2 K1 K2 na basis1 basis2 basis ns1 ns HK1 HK Hprod Hn1 Hn Hns Honb Hd2 HK2 HD0
           thr evs1 evs2 evs Vs1 Vs2 Vs omega nc dts He HV UV a k l o Ha Hk Hl Ho).
Qed.
End Placement.

(* qubits: tau = source map of tensor_transpose by the order that brings the active qubits [ind] to the front,
   pi the corresponding permutation of Pauli elements; pi (k, 0) = equivalent_pauli_basis_elements(ind, N)[k] *)
Theorem placement_qubits_index ind N k : let m := length (act ind 0 N) in k < 4 ^ m ->
  let ord := inv_order (front ind N) in
  is_perm N ord /\ bij_on (2 ^ N) (tt_src 2 N ord) /\ bij_on (4 ^ N) (dperm 4 N ord) /\
  2 ^ m * 2 ^ (N - m) = 2 ^ N /\ 4 ^ m * 4 ^ (N - m) = 4 ^ N /\
  dperm 4 N ord (k * 4 ^ (N - m) + 0) = nth k (equiv_idx ind N) 0.
Proof.
  intros m Hk ord. pose proof (front_perm ind N) as HP. pose proof (inv_order_perm N _ HP) as HO.
  assert (Hm : m <= N).
  { unfold m, act. eapply Nat.le_trans. apply filter_len_le. rewrite seq_length. lia. }
  split; [exact HO|]. split; [apply tt_src_bij; [lia|exact HO]|]. split; [apply dperm_bij; [lia|exact HO]|].
  split; [rewrite <- Nat.pow_add_r; f_equal; lia|]. split; [rewrite <- Nat.pow_add_r; f_equal; lia|].
  rewrite Nat.add_0_r. apply placement_index; auto.
Qed.

From FF Require Import Proofs.Remap.
(* the N-qubit statement: a pulse on the qubits [ind] of an N-qubit register, Pauli basis *)
Theorem placement_control_matrix_qubits ind N sigma nrm basis basis1 basis2 ns1 ns na :
  let m := length (act ind 0 N) in
  let d1 := 2 ^ m in let d2 := 2 ^ (N - m) in let K1 := 4 ^ m in let K2 := 4 ^ (N - m) in
  let ord := inv_order (front ind N) in
  basis_is_pauli sigma nrm N basis ->
  length basis1 = K1 ->
  (forall k l, k < K1 -> l < K2 -> krel d1 d2 (nthm basis1 k) (nthm basis2 l) (nthm basis (k * K2 + l))) ->
  length ns1 = na -> length ns = na ->
  (forall a, a < na -> krel d1 d2 (nthm ns1 a) (mid RO d2) (nthm ns a)) ->
  (forall l m', l < K2 -> m' < K2 ->
     mtrprod RO d2 (madj RO d2 (nthm basis2 l)) (nthm basis2 m') = if Nat.eqb l m' then 1c else 0c) ->
  feq d2 (toF (nthm basis2 0)) (fscal (cofr RO (Rinv (sqrt (INR d2)))) fid) ->
  forall thr evs1 evs2 evs evs' Vs1 Vs2 Vs Vs' omega ns' nc dts,
  Forall3 (evrel d1 d2) evs1 evs2 evs -> Forall3 (krel d1 d2) Vs1 Vs2 Vs ->
  Forall (fun V => funitary d2 (toF V)) Vs2 ->
  Forall2 (vrel (2 ^ N) (tt_src 2 N ord)) evs evs' -> Forall2 (mrel (2 ^ N) (tt_src 2 N ord)) Vs Vs' ->
  length ns' = na -> (forall a, a < na -> mrel (2 ^ N) (tt_src 2 N ord) (nthm ns a) (nthm ns' a)) ->
  length nc = na ->
  let B1 := control_matrix_from_scratch RO d1 thr evs1 Vs1 (Numeric.propagators RO d1 evs1 Vs1 dts) omega basis1 ns1 nc dts (times RO dts) in
  let Bp := control_matrix_from_scratch RO (2 ^ N) thr evs' Vs' (Numeric.propagators RO (2 ^ N) evs' Vs' dts) omega basis ns' nc dts (times RO dts) in
  forall a k o, a < na -> k < K1 -> o < length omega ->
    (* on equivalent_pauli_basis_elements(ind, N): the scaled control matrix of the small pulse *)
    a3get RO Bp a (nth k (equiv_idx ind N) 0) o = cmul' (cofr RO (sqrt (INR d2))) (a3get RO B1 a k o) /\
    (* on every other basis element: zero *)
    (forall l, 0 < l < K2 -> a3get RO Bp a (dperm 4 N ord (k * K2 + l)) o = 0c).
Proof.
  intros m d1 d2 K1 K2 ord Hb HK1 Hprod Hn1 Hn Hns Honb HD0 thr evs1 evs2 evs evs' Vs1 Vs2 Vs Vs' omega ns' nc dts
         He HV UV He' HV' Ln' Hns' Lc B1 Bp a k o Ha Hk Ho.
  destruct (placement_qubits_index ind N k Hk) as [HO [Ht [Hp [E2 [E4 Eidx]]]]].
  fold m in E2, E4, Eidx. fold ord in HO, Ht, Hp, Eidx. fold d1 d2 in E2. fold K1 K2 in E4.
  assert (Hd2 : 0 < d2) by (unfold d2; apply pow_pos; lia).
  assert (HK2 : 0 < K2) by (unfold K2; apply pow_pos; lia).
  pose proof (pauli_basis_cov sigma nrm N ord basis HO Hb) as Hcov.
  destruct Hb as [LB _].
  assert (G : forall l, l < K2 ->
     a3get RO Bp a (dperm 4 N ord (k * K2 + l)) o =
       if Nat.eqb l 0 then cmul' (cofr RO (sqrt (INR d2))) (a3get RO B1 a k o) else 0c).
  { intros l Hl. unfold Bp. revert Ht Hp Hcov LB He' HV' Hns'. rewrite <- E2, <- E4. intros Ht Hp Hcov LB He' HV' Hns'.
    apply (placement_control_matrix d1 d2 K1 K2 na basis1 basis2 basis ns1 ns HK1 LB Hprod Hn1 Hn Hns Honb Hd2 HK2 HD0
             (tt_src 2 N ord) (dperm 4 N ord) Ht Hp Hcov thr evs1 evs2 evs evs' Vs1 Vs2 Vs Vs' omega ns' nc dts
             He HV UV He' HV' Ln' Hns' Lc a k l o Ha Hk Hl Ho). }
  split.
  - rewrite <- Eidx. exact (G 0 HK2).
  - intros l [Hl0 Hl]. rewrite (G l Hl). destruct (Nat.eqb_spec l 0); [lia|reflexivity].
Qed.
