(* First-order segment integral (numeric._first_order_integral) over the reals:
   masked branch = exact integral, Taylor branch error bound, no division by zero under the mask. *)
From Coq Require Import ZArith Reals Lra List.
From Coquelicot Require Import Coquelicot.
From FF Require Import Base.Ops Inst.RInst Base.RAlg Model.Numeric.
Local Open Scope R_scope.

Lemma int_cos a T : a <> 0 -> is_RInt (fun t => cos (a*t)) 0 T (sin (a*T)/a).
Proof.
  intros Ha. evar_last.
  apply (is_RInt_derive (fun t => sin (a*t)/a)).
  - intros x _. auto_derive; auto. field; auto.
  - intros x _. apply continuity_pt_filterlim.
    apply (continuity_pt_comp (fun t => a*t) cos).
    + apply continuity_pt_mult; [apply continuity_pt_const; intros ? ?; reflexivity | apply derivable_continuous_pt, derivable_pt_id].
    + apply continuity_cos.
  - unfold minus, plus, opp; simpl. rewrite Rmult_0_r, sin_0. field; auto.
Qed.

Lemma int_sin a T : a <> 0 -> is_RInt (fun t => sin (a*t)) 0 T ((1 - cos (a*T))/a).
Proof.
  intros Ha. evar_last.
  apply (is_RInt_derive (fun t => - cos (a*t)/a)).
  - intros x _. auto_derive; auto. field; auto.
  - intros x _. apply continuity_pt_filterlim.
    apply (continuity_pt_comp (fun t => a*t) sin).
    + apply continuity_pt_mult; [apply continuity_pt_const; intros ? ?; reflexivity | apply derivable_continuous_pt, derivable_pt_id].
    + apply continuity_sin.
  - unfold minus, plus, opp; simpl. rewrite Rmult_0_r, cos_0. field; auto.
Qed.

Lemma int_cos0 T : is_RInt (fun t => cos (0*t)) 0 T T.
Proof.
  apply (is_RInt_ext (fun _ => 1)). intros x _. rewrite Rmult_0_l, cos_0. reflexivity.
  evar_last. apply @is_RInt_const. unfold scal; simpl. unfold mult; simpl. ring.
Qed.
Lemma int_sin0 T : is_RInt (fun t => sin (0*t)) 0 T 0.
Proof.
  apply (is_RInt_ext (fun _ => 0)). intros x _. rewrite Rmult_0_l, sin_0. reflexivity.
  evar_last. apply @is_RInt_const. unfold scal; simpl. unfold mult; simpl. ring.
Qed.

(* the value the model computes for one entry, over the reals *)
Definition foi_x (w evm evn : R) : R := w + (evm - evn).

Lemma foi_entry_masked thr w evm evn dt :
  thr < Rabs (foi_x w evm evn * dt) ->
  foi_entry RO thr w evm evn dt = (sin (foi_x w evm evn * dt) / foi_x w evm evn,
                                   (1 - cos (foi_x w evm evn * dt)) / foi_x w evm evn).
Proof.
  intros H. unfold foi_entry, cite; simpl. fold (foi_x w evm evn).
  apply Rgtb_true in H. rewrite H. reflexivity.
Qed.
Lemma foi_entry_unmasked thr w evm evn dt :
  Rabs (foi_x w evm evn * dt) <= thr -> foi_entry RO thr w evm evn dt = (dt, 0).
Proof.
  intros H. unfold foi_entry, cite; simpl. fold (foi_x w evm evn).
  apply Rgtb_false in H. rewrite H. reflexivity.
Qed.

(* no division by zero under the mask *)
Lemma masked_div_safe thr x dt : 0 <= thr -> thr < Rabs (x * dt) -> x <> 0.
Proof. intros H0 H Hx. subst. rewrite Rmult_0_l, Rabs_R0 in H. lra. Qed.

(* masked branch: the value IS the segment integral of e^{i x t} over [0, dt] *)
Theorem foi_exact thr w evm evn dt : 0 <= thr ->
  thr < Rabs (foi_x w evm evn * dt) ->
  is_RInt (fun t => cos (foi_x w evm evn * t)) 0 dt (fst (foi_entry RO thr w evm evn dt)) /\
  is_RInt (fun t => sin (foi_x w evm evn * t)) 0 dt (snd (foi_entry RO thr w evm evn dt)).
Proof.
  intros H0 H. rewrite foi_entry_masked by assumption. simpl.
  pose proof (masked_div_safe _ _ _ H0 H) as Hx.
  split; [apply int_cos | apply int_sin]; assumption.
Qed.

(* elementary bounds used on the Taylor branch *)
Lemma one_minus_cos_bound t : 0 <= 1 - cos t <= t * t / 2.
Proof.
  split. generalize (COS_bound t). lra.
  replace t with (2 * (t/2)) at 1 by field.
  rewrite cos_2a_sin.
  assert (H : (sin (t/2))² <= (t/2)²).
  { apply Rsqr_le_abs_1. 
    destruct (Rle_or_lt 0 (t/2)) as [Hp|Hn].
    - rewrite (Rabs_right (t/2)) by lra.
      destruct (Req_dec (t/2) 0) as [->|Hne]. rewrite sin_0, Rabs_R0. lra.
      destruct (Rle_or_lt (t/2) 1) as [H1|H1].
      + rewrite Rabs_right. left. apply sin_lt_x. lra.
        apply Rle_ge. apply sin_ge_0. lra. generalize PI_RGT_0 PI2_3_2. intros. assert (3 < PI) by (generalize PI2_3_2; unfold PI2 in *; lra). lra.
      + generalize (SIN_bound (t/2)). intros. apply Rabs_le. lra.
    - rewrite (Rabs_left (t/2)) by lra. rewrite <- (Rabs_Ropp (sin (t/2))), <- sin_neg.
      set (u := - (t/2)). assert (0 < u) by (unfold u; lra).
      destruct (Rle_or_lt u 1) as [H1|H1].
      + rewrite Rabs_right. left. apply sin_lt_x. lra.
        apply Rle_ge. apply sin_ge_0. lra. assert (3 < PI) by (generalize PI2_3_2; unfold PI2 in *; lra). lra.
      + generalize (SIN_bound u). intros. apply Rabs_le. lra. }
  unfold Rsqr in H. lra.
Qed.

Lemma sin_minus_id_bound t : Rabs (sin t - t) <= Rabs t * (t * t / 2).
Proof.
  (* |sin t - t| = |int_0^t (cos s - 1) ds| <= |t| * max(1 - cos) <= |t| t^2/2 ; via the mean value theorem *)
  destruct (Req_dec t 0) as [->|Hne]. rewrite sin_0, Rminus_0_r, Rabs_R0. lra.
  assert (MVT: exists c, Rmin 0 t <= c <= Rmax 0 t /\ sin t - t = (cos c - 1) * t).
  { destruct (MVT_gen (fun s => sin s - s) 0 t (fun s => cos s - 1)) as [c [Hc Heq]].
    - intros s _. auto_derive; auto. ring.
    - intros s _. apply continuity_pt_minus. apply continuity_sin. apply derivable_continuous_pt, derivable_pt_id.
    - exists c. split. exact Hc. rewrite sin_0 in Heq. lra. }
  destruct MVT as [c [Hc ->]].
  rewrite Rabs_mult, Rmult_comm. apply Rmult_le_compat_l. apply Rabs_pos.
  rewrite Rabs_left1 by (generalize (COS_bound c); lra).
  destruct (one_minus_cos_bound c) as [_ Hb].
  assert (c * c <= t * t).
  { unfold Rmin, Rmax in Hc. destruct (Rle_dec 0 t); nra. }
  lra.
Qed.

(* Taylor branch: the value (dt, 0) differs from the true integral by at most
   |dt| thr^2/2 (real part) and |dt| thr/2 (imaginary part) *)
Theorem foi_taylor_bound thr w evm evn dt : 
  Rabs (foi_x w evm evn * dt) <= thr ->
  exists Ic Is, is_RInt (fun t => cos (foi_x w evm evn * t)) 0 dt Ic /\
                is_RInt (fun t => sin (foi_x w evm evn * t)) 0 dt Is /\
                Rabs (fst (foi_entry RO thr w evm evn dt) - Ic) <= Rabs dt * (thr * thr / 2) /\
                Rabs (snd (foi_entry RO thr w evm evn dt) - Is) <= Rabs dt * (thr / 2).
Proof.
  intros H. rewrite foi_entry_unmasked by assumption. simpl.
  set (x := foi_x w evm evn) in *.
  assert (Hthr : 0 <= thr) by (eapply Rle_trans; [apply Rabs_pos | exact H]).
  destruct (Req_dec x 0) as [Hx|Hx].
  - rewrite Hx. exists dt, 0. split. apply int_cos0. split. apply int_sin0.
    split; rewrite Rminus_eq_0, Rabs_R0; apply Rmult_le_pos; try apply Rabs_pos; nra.
  - exists (sin (x*dt)/x), ((1 - cos (x*dt))/x). split. apply int_cos; auto. split. apply int_sin; auto.
    assert (Hxa : 0 < Rabs x) by (apply Rabs_pos_lt; auto).
    assert (Hth : Rabs (x*dt) = Rabs x * Rabs dt) by apply Rabs_mult.
    split.
    + replace (dt - sin (x*dt)/x) with (- (sin (x*dt) - x*dt) / x) by (field; auto).
      unfold Rdiv. rewrite Rabs_mult, Rabs_Ropp, Rabs_inv.
      pose proof (sin_minus_id_bound (x*dt)) as Hs.
      assert (Hsq : (x*dt)*(x*dt) <= thr*thr).
      { rewrite <- (Rabs_mult (x*dt) (x*dt)) at 1 || idtac.
        assert (Rabs (x*dt) * Rabs (x*dt) <= thr * thr) by (apply Rmult_le_compat; try apply Rabs_pos; auto).
        rewrite <- Rabs_mult in H0. rewrite Rabs_right in H0. exact H0. apply Rle_ge. nra. }
      apply Rle_trans with (Rabs (x*dt) * (x*dt*(x*dt)/2) * / Rabs x).
      apply Rmult_le_compat_r. left; apply Rinv_0_lt_compat; auto. exact Hs.
      rewrite Hth. replace (Rabs x * Rabs dt * (x*dt*(x*dt)/2) * / Rabs x) with (Rabs dt * (x*dt*(x*dt)/2)) by (field; lra).
      apply Rmult_le_compat_l. apply Rabs_pos. lra.
    + replace (0 - (1 - cos (x*dt))/x) with (- (1 - cos (x*dt)) / x) by (field; auto).
      unfold Rdiv. rewrite Rabs_mult, Rabs_Ropp, Rabs_inv.
      destruct (one_minus_cos_bound (x*dt)) as [Hc0 Hc1].
      rewrite (Rabs_right (1 - cos (x*dt))) by lra.
      assert (Hsq : (x*dt)*(x*dt) = Rabs (x*dt) * Rabs (x*dt)).
      { rewrite <- Rabs_mult. rewrite Rabs_right; auto. apply Rle_ge. nra. }
      apply Rle_trans with ((Rabs (x*dt) * Rabs (x*dt) / 2) * / Rabs x).
      apply Rmult_le_compat_r. left; apply Rinv_0_lt_compat; auto. lra.
      rewrite Hth at 1. replace (Rabs x * Rabs dt * Rabs (x*dt) / 2 * / Rabs x) with (Rabs dt * (Rabs (x*dt) / 2)) by (field; lra).
      apply Rmult_le_compat_l. apply Rabs_pos. lra.
Qed.
