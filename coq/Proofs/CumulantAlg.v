(* C09, part 1: the trace-tensor contractions of calculate_cumulant_function are the documented
   commutator formula, for every dimension and basis; consequences that need no computation:
   antisymmetry of the second-order part, trace preservation and unitality of the generator. *)
From Coq Require Import ZArith Reals Lra Lia List Setoid Morphisms.
From FF Require Import Base.Ops Inst.RInst Base.RAlg Base.FMat Model.Numeric Model.Decay Model.Cumulant
     Proofs.Trapz Proofs.TraceId.
Import ListNotations.
Local Open Scope R_scope.

Section Formula.
Variables (d n : nat) (Cb : nat -> fmat).
Notation "A ** B" := (fmul d A B) (at level 40, left associativity).
Definition comm (A B : fmat) : fmat := fsub (A ** B) (B ** A).
Global Instance comm_proper : Proper (feq d ==> feq d ==> feq d) comm.
Proof. intros A A' HA B B' HB. unfold comm. rewrite HA, HB. reflexivity. Qed.

Notation T := (T4 d Cb).
Lemma T_chain i j k l : T i j k l = ftr d (Cb i ** (Cb j ** (Cb k ** Cb l))).
Proof. apply T4_chain. Qed.
Lemma T_cyc i j k l : T i j k l = T j k l i. Proof. apply T4_cyclic. Qed.

(* tr( C_i [C_k, [C_l, C_j]] ) in four-element traces, index order of the code *)
Lemma double_comm_traces i j k l :
  ftr d (Cb i ** comm (Cb k) (comm (Cb l) (Cb j))) =
  cadd' (csub' (csub' (T k l j i) (T k j l i)) (T k i l j)) (T k i j l).
Proof.
  unfold comm.
  repeat (rewrite fmul_fsub_l || rewrite fmul_fsub_r). rewrite !ftr_fsub.
  (* the four chains *)
  assert (E1 : ftr d (Cb i ** (Cb k ** (Cb l ** Cb j))) = T k l j i).
  { rewrite <- T_chain. rewrite T_cyc. reflexivity. }
  assert (E2 : ftr d (Cb i ** (Cb k ** (Cb j ** Cb l))) = T k j l i).
  { rewrite <- T_chain. rewrite T_cyc. reflexivity. }
  assert (E3 : ftr d (Cb i ** ((Cb l ** Cb j) ** Cb k)) = T k i l j).
  { rewrite <- (fmul_assoc d (Cb l)). rewrite <- T_chain. rewrite (T_cyc k i l j), (T_cyc i l j k). reflexivity. }
  assert (E4 : ftr d (Cb i ** ((Cb j ** Cb l) ** Cb k)) = T k i j l).
  { rewrite <- (fmul_assoc d (Cb j)). rewrite <- T_chain. rewrite (T_cyc k i j l), (T_cyc i j l k). reflexivity. }
  rewrite E1, E2, E3, E4. ring.
Qed.
(* tr( C_i [[C_k, C_l], C_j] ) *)
Lemma comm_comm_traces i j k l :
  ftr d (Cb i ** comm (comm (Cb k) (Cb l)) (Cb j)) =
  cadd' (csub' (csub' (T k l j i) (T l k j i)) (T k l i j)) (T l k i j).
Proof.
  unfold comm.
  repeat (rewrite fmul_fsub_l || rewrite fmul_fsub_r). rewrite !ftr_fsub.
  assert (E1 : ftr d (Cb i ** ((Cb k ** Cb l) ** Cb j)) = T k l j i).
  { rewrite <- (fmul_assoc d (Cb k)). rewrite <- T_chain. rewrite T_cyc. reflexivity. }
  assert (E2 : ftr d (Cb i ** ((Cb l ** Cb k) ** Cb j)) = T l k j i).
  { rewrite <- (fmul_assoc d (Cb l)). rewrite <- T_chain. rewrite T_cyc. reflexivity. }
  assert (E3 : ftr d (Cb i ** (Cb j ** (Cb k ** Cb l))) = T k l i j).
  { rewrite <- T_chain. rewrite (T_cyc i j k l), (T_cyc j k l i). reflexivity. }
  assert (E4 : ftr d (Cb i ** (Cb j ** (Cb l ** Cb k))) = T l k i j).
  { rewrite <- T_chain. rewrite (T_cyc i j l k), (T_cyc j l k i). reflexivity. }
  rewrite E1, E2, E3, E4. ring.
Qed.

(* contractions are linear *)
Lemma contract_add (G : RMr) f g :
  contract RO n G (fun k l => cadd' (f k l) (g k l)) = cadd' (contract RO n G f) (contract RO n G g).
Proof. unfold contract. rewrite <- csumn_add. apply csumn_ext. intros k _. rewrite <- csumn_add.
  apply csumn_ext. intros l _. apply c_eq; csimp; ring. Qed.
Lemma contract_sub (G : RMr) f g :
  contract RO n G (fun k l => csub' (f k l) (g k l)) = csub' (contract RO n G f) (contract RO n G g).
Proof. unfold contract. rewrite <- csumn_sub. apply csumn_ext. intros k _. rewrite <- csumn_sub.
  apply csumn_ext. intros l _. apply c_eq; csimp; ring. Qed.

(* trace_tensor_formula, first order:
   K1_ij = -1/2 sum_kl Gamma_kl tr( C_i [C_k, [C_l, C_j]] ) *)
Theorem K1_commutator_form (G : RMr) i j :
  K1_entry RO n T G i j =
  cneg' (half RO (contract RO n G (fun k l => ftr d (Cb i ** comm (Cb k) (comm (Cb l) (Cb j)))))).
Proof.
  unfold K1_entry. f_equal. f_equal. symmetry.
  rewrite (contract_ext n G (fun k l => ftr d (Cb i ** comm (Cb k) (comm (Cb l) (Cb j))))
             (fun k l => cadd' (csub' (csub' (T k l j i) (T k j l i)) (T k i l j)) (T k i j l)))
    by (intros; apply double_comm_traces).
  rewrite contract_add, !contract_sub. reflexivity.
Qed.
(* second order: K2_ij = 1/2 sum_kl Delta_kl tr( C_i [[C_k, C_l], C_j] )  (subtracted) *)
Theorem K2_commutator_form (D : RMr) i j :
  K2_entry RO n T D i j =
  half RO (contract RO n D (fun k l => ftr d (Cb i ** comm (comm (Cb k) (Cb l)) (Cb j)))).
Proof.
  unfold K2_entry. f_equal. symmetry.
  rewrite (contract_ext n D (fun k l => ftr d (Cb i ** comm (comm (Cb k) (Cb l)) (Cb j)))
             (fun k l => cadd' (csub' (csub' (T k l j i) (T l k j i)) (T k l i j)) (T l k i j)))
    by (intros; apply comm_comm_traces).
  rewrite contract_add, !contract_sub. reflexivity.
Qed.

(* second_order_antisymmetric: the second-order part changes sign under i <-> j, for ANY trace
   tensor (pure index symmetry of the four contractions) *)
Theorem K2_antisymmetric (Tr : nat -> nat -> nat -> nat -> Cx) (D : RMr) i j :
  K2_entry RO n Tr D i j = cneg' (K2_entry RO n Tr D j i).
Proof.
  unfold K2_entry, half.
  generalize (contract RO n D (fun k l => Tr k l j i)) (contract RO n D (fun k l => Tr l k j i))
             (contract RO n D (fun k l => Tr k l i j)) (contract RO n D (fun k l => Tr l k i j)).
  intros [a1 a2] [b1 b2] [c1 c2] [e1 e2]. apply c_eq; csimp; field.
Qed.

(* ---------- generator is trace preserving and unital (complete basis) ---------- *)
Hypothesis Hcomp : basis_complete d n Cb.

(* sum_i tr(C_i) C_i = 1 *)
Lemma identity_expansion : feq d (fsum n (fun i => fscal (tC d Cb i) (Cb i))) fid.
Proof.
  intros c e Hc He. unfold fsum, fscal, tC, ftr, fid.
  rewrite (csumn_ext n _ (fun i => csumn' d (fun a => cmul' (Cb i a a) (Cb i c e)))).
  2:{ intros i _. rewrite csumn_mul_r. reflexivity. }
  rewrite csumn_swap.
  rewrite (csumn_ext d _ (fun a => if Nat.eqb c a then (if Nat.eqb a e then 1c else 0c) else 0c)).
  rewrite (csumn_delta d c (fun a => if Nat.eqb a e then 1c else 0c)) by auto. reflexivity.
  intros a Ha. rewrite (completeness_entries d n Cb Hcomp) by auto.
  rewrite (Nat.eqb_sym c a). destruct (Nat.eqb a c) eqn:E1, (Nat.eqb a e) eqn:E2; simpl; auto.
Qed.

Lemma ftr_comm A B : ftr d (comm A B) = 0c.
Proof. unfold comm. rewrite ftr_fsub, (ftr_cyclic d A B). ring. Qed.
Lemma comm_fid_r A : feq d (comm A fid) fzero.
Proof. unfold comm. rewrite fmul_id_l, fmul_id_r. intros i j _ _. unfold fsub, fzero. ring. Qed.
Lemma comm_fzero_r A : feq d (comm A fzero) fzero.
Proof. intros i j _ _. unfold comm, fsub, fmul, fzero.
  rewrite (csumn_ext d _ (fun _ => 0c)) by (intros; ring).
  rewrite (csumn_ext d (fun k => cmul' 0c (A k j)) (fun _ => 0c)) by (intros; ring). rewrite csumn_0. ring. Qed.
Lemma comm_fzero_l A : feq d (comm fzero A) fzero.
Proof. intros i j _ _. unfold comm, fsub, fmul, fzero.
  rewrite (csumn_ext d _ (fun _ => 0c)) by (intros; ring).
  rewrite (csumn_ext d (fun k => cmul' (A i k) 0c) (fun _ => 0c)) by (intros; ring). rewrite csumn_0. ring. Qed.
Lemma fmul_fzero_r A : feq d (A ** fzero) fzero.
Proof. intros i j _ _. unfold fmul, fzero. rewrite (csumn_ext d _ (fun _ => 0c)) by (intros; ring). apply csumn_0. Qed.
Lemma ftr_fzero : ftr d fzero = 0c.
Proof. unfold ftr, fzero. apply csumn_0. Qed.

(* linearity of tr(. X) over the identity expansion *)
Lemma weighted_trace_sum (X : nat -> fmat) (Y : fmat) :
  csumn' n (fun i => cmul' (tC d Cb i) (ftr d (Cb i ** Y))) = ftr d Y.
Proof.
  transitivity (ftr d (fid ** Y)). 2:{ rewrite fmul_id_l. reflexivity. }
  rewrite <- identity_expansion.
  rewrite fmul_fsum_l, ftr_fsum. apply csumn_ext. intros i _.
  rewrite fmul_fscal_l, ftr_fscal. reflexivity.
Qed.

Lemma contract_zero (G : RMr) f : (forall k l, (k < n)%nat -> (l < n)%nat -> f k l = 0c) -> contract RO n G f = 0c.
Proof.
  intros H. unfold contract. rewrite (csumn_ext n _ (fun _ => 0c)). apply csumn_0.
  intros k Hk. rewrite (csumn_ext n _ (fun _ => 0c)). apply csumn_0.
  intros l Hl. rewrite H by auto. apply c_eq; csimp; ring.
Qed.
Lemma contract_wsum (G : RMr) (w : nat -> Cx) (F : nat -> nat -> nat -> Cx) :
  csumn' n (fun i => cmul' (w i) (contract RO n G (F i))) =
  contract RO n G (fun k l => csumn' n (fun i => cmul' (w i) (F i k l))).
Proof.
  unfold contract.
  rewrite (csumn_ext n _ (fun i => csumn' n (fun k => csumn' n (fun l => cscal RO (rmget RO G k l) (cmul' (w i) (F i k l)))))).
  2:{ intros i _. rewrite <- csumn_mul_l. apply csumn_ext. intros k _. rewrite <- csumn_mul_l.
      apply csumn_ext. intros l _. apply c_eq; csimp; ring. }
  rewrite csumn_swap. apply csumn_ext. intros k _. rewrite csumn_swap. apply csumn_ext. intros l _.
  rewrite csumn_scal. reflexivity.
Qed.

(* trace preservation: sum_i tr(C_i) K_ij = 0 (first and second order) *)
Theorem K1_trace_preserving (G : RMr) j : csumn' n (fun i => cmul' (tC d Cb i) (K1_entry RO n T G i j)) = 0c.
Proof.
  rewrite (csumn_ext n _ (fun i => cneg' (half RO (cmul' (tC d Cb i)
     (contract RO n G (fun k l => ftr d (Cb i ** comm (Cb k) (comm (Cb l) (Cb j))))))))).
  2:{ intros i _. rewrite K1_commutator_form. unfold half. apply c_eq; csimp; field. }
  rewrite csumn_neg, half_sum, contract_wsum.
  rewrite contract_zero. unfold half. apply c_eq; csimp; field.
  intros k l _ _. rewrite (weighted_trace_sum (fun _ => fzero)). apply ftr_comm.
Qed.
Theorem K2_trace_preserving (D : RMr) j : csumn' n (fun i => cmul' (tC d Cb i) (K2_entry RO n T D i j)) = 0c.
Proof.
  rewrite (csumn_ext n _ (fun i => half RO (cmul' (tC d Cb i)
     (contract RO n D (fun k l => ftr d (Cb i ** comm (comm (Cb k) (Cb l)) (Cb j))))))).
  2:{ intros i _. rewrite K2_commutator_form. unfold half. apply c_eq; csimp; field. }
  rewrite half_sum, contract_wsum.
  rewrite contract_zero. unfold half. apply c_eq; csimp; field.
  intros k l _ _. rewrite (weighted_trace_sum (fun _ => fzero)). apply ftr_comm.
Qed.

(* unitality: sum_j K_ij tr(C_j) = 0 *)
Lemma comm_wsum_r A (w : nat -> Cx) (X : nat -> fmat) :
  feq d (comm A (fsum n (fun j => fscal (w j) (X j)))) (fsum n (fun j => fscal (w j) (comm A (X j)))).
Proof.
  unfold comm. rewrite fmul_fsum_r, fmul_fsum_l.
  intros a b Ha Hb. unfold fsub, fsum. rewrite <- csumn_sub. apply csumn_ext. intros j _.
  rewrite (fmul_fscal_r d (w j) A (X j) a b Ha Hb), (fmul_fscal_l d (w j) (X j) A a b Ha Hb).
  unfold fscal. ring.
Qed.
Lemma comm_wsum_l A (w : nat -> Cx) (X : nat -> fmat) :
  feq d (comm (fsum n (fun j => fscal (w j) (X j))) A) (fsum n (fun j => fscal (w j) (comm (X j) A))).
Proof.
  unfold comm. rewrite fmul_fsum_r, fmul_fsum_l.
  intros a b Ha Hb. unfold fsub, fsum. rewrite <- csumn_sub. apply csumn_ext. intros j _.
  rewrite (fmul_fscal_r d (w j) A (X j) a b Ha Hb), (fmul_fscal_l d (w j) (X j) A a b Ha Hb).
  unfold fscal. ring.
Qed.
Lemma ftr_mul_wsum A (w : nat -> Cx) (X : nat -> fmat) :
  ftr d (A ** fsum n (fun j => fscal (w j) (X j))) = csumn' n (fun j => cmul' (w j) (ftr d (A ** X j))).
Proof. rewrite fmul_fsum_r, ftr_fsum. apply csumn_ext. intros j _. rewrite fmul_fscal_r, ftr_fscal. reflexivity. Qed.

Theorem K1_unital (G : RMr) i : csumn' n (fun j => cmul' (tC d Cb j) (K1_entry RO n T G i j)) = 0c.
Proof.
  rewrite (csumn_ext n _ (fun j => cneg' (half RO (cmul' (tC d Cb j)
     (contract RO n G (fun k l => ftr d (Cb i ** comm (Cb k) (comm (Cb l) (Cb j))))))))).
  2:{ intros j _. rewrite K1_commutator_form. unfold half. apply c_eq; csimp; field. }
  rewrite csumn_neg, half_sum, contract_wsum.
  rewrite contract_zero. unfold half. apply c_eq; csimp; field.
  intros k l _ _.
  rewrite <- (ftr_mul_wsum (Cb i) (tC d Cb) (fun j => comm (Cb k) (comm (Cb l) (Cb j)))).
  rewrite <- comm_wsum_r. rewrite <- comm_wsum_r. rewrite identity_expansion.
  rewrite comm_fid_r, comm_fzero_r, fmul_fzero_r. apply ftr_fzero.
Qed.
Theorem K2_unital (D : RMr) i : csumn' n (fun j => cmul' (tC d Cb j) (K2_entry RO n T D i j)) = 0c.
Proof.
  rewrite (csumn_ext n _ (fun j => half RO (cmul' (tC d Cb j)
     (contract RO n D (fun k l => ftr d (Cb i ** comm (comm (Cb k) (Cb l)) (Cb j))))))).
  2:{ intros j _. rewrite K2_commutator_form. unfold half. apply c_eq; csimp; field. }
  rewrite half_sum, contract_wsum.
  rewrite contract_zero. unfold half. apply c_eq; csimp; field.
  intros k l _ _.
  rewrite <- (ftr_mul_wsum (Cb i) (tC d Cb) (fun j => comm (comm (Cb k) (Cb l)) (Cb j))).
  rewrite <- comm_wsum_r. rewrite identity_expansion.
  rewrite comm_fid_r, fmul_fzero_r. apply ftr_fzero.
Qed.

(* K_first_row_col_zero: bases whose only non-traceless element is C_0 (Pauli, GGM, from_partial(traceless=True)) *)
Lemma csumn_first n' (f : nat -> Cx) : (0 < n')%nat -> (forall i, (1 <= i < n')%nat -> f i = 0c) -> csumn' n' f = f 0%nat.
Proof.
  intros Hn H. induction n' as [|m IH]. lia. destruct m as [|m].
  - simpl. ring.
  - rewrite csumn_S, IH by (try lia; intros; apply H; lia). rewrite (H (S m)) by lia. ring.
Qed.
Lemma cmul_nonzero_cancel (a b : Cx) : a <> 0c -> cmul' a b = 0c -> b = 0c.
Proof.
  intros Ha H. destruct a as [x y], b as [u v]. unfold cmul, c0 in *. simpl in *. injection H as H1 H2.
  assert (Hn : x * x + y * y <> 0).
  { intros E. apply Ha. destruct (Rplus_sqr_eq_0 x y) as [-> ->]. unfold Rsqr. exact E. reflexivity. }
  assert (Hu : u * (x * x + y * y) = 0).
  { replace (u * (x * x + y * y)) with (x * (x * u - y * v) + y * (x * v + y * u)) by ring. rewrite H1, H2. ring. }
  assert (Hv : v * (x * x + y * y) = 0).
  { replace (v * (x * x + y * y)) with (x * (x * v + y * u) - y * (x * u - y * v)) by ring. rewrite H1, H2. ring. }
  apply c_eq; simpl; [apply Rmult_integral in Hu | apply Rmult_integral in Hv]; tauto.
Qed.
Section FirstRow.
Hypothesis Hn : (0 < n)%nat.
Hypothesis Htl : forall i, (1 <= i < n)%nat -> tC d Cb i = 0c.
Hypothesis Ht0 : tC d Cb 0 <> 0c.
Theorem K1_first_row_zero (G : RMr) j : K1_entry RO n T G 0 j = 0c.
Proof.
  pose proof (K1_trace_preserving G j) as H. rewrite csumn_first in H; auto.
  apply (cmul_nonzero_cancel _ _ Ht0 H). intros i Hi. rewrite Htl by auto. ring.
Qed.
Theorem K1_first_col_zero (G : RMr) i : K1_entry RO n T G i 0 = 0c.
Proof.
  pose proof (K1_unital G i) as H. rewrite csumn_first in H; auto.
  apply (cmul_nonzero_cancel _ _ Ht0 H). intros j Hj. rewrite Htl by auto. ring.
Qed.
Theorem K2_first_row_zero (D : RMr) j : K2_entry RO n T D 0 j = 0c.
Proof.
  pose proof (K2_trace_preserving D j) as H. rewrite csumn_first in H; auto.
  apply (cmul_nonzero_cancel _ _ Ht0 H). intros i Hi. rewrite Htl by auto. ring.
Qed.
Theorem K2_first_col_zero (D : RMr) i : K2_entry RO n T D i 0 = 0c.
Proof.
  pose proof (K2_unital D i) as H. rewrite csumn_first in H; auto.
  apply (cmul_nonzero_cancel _ _ Ht0 H). intros j Hj. rewrite Htl by auto. ring.
Qed.
End FirstRow.

End Formula.
