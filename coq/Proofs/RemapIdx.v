(* Index facts about the remap model (Model/Remap.v), independent of the entry types:
   scatter assignments along a permutation are gathers along its inverse, entries of the
   transposed arrays, the Pauli element permutation, identifier sorting, integer logarithm. *)
From Coq Require Import String List Arith Bool Lia Permutation Sorted.
From FF Require Import Base.Ops Spec.Kron2 Spec.DigitPerm Spec.StrSort Model.Remap.
Import ListNotations.
Local Open Scope nat_scope.

(* ---------- build / nth (type-generic copies of the RAlg lemmas) ---------- *)
Lemma build_len {A} n (f : nat -> A) : length (build n f) = n.
Proof. unfold build. rewrite map_length, seq_length. reflexivity. Qed.
Lemma build_nth {A} n (f : nat -> A) i d : i < n -> nth i (build n f) d = f i.
Proof.
  intros H. unfold build. rewrite (nth_indep _ d (f 0)) by (rewrite map_length, seq_length; auto).
  rewrite map_nth, seq_nth; auto.
Qed.
Lemma build_ext {A} n (f g : nat -> A) : (forall i, i < n -> f i = g i) -> build n f = build n g.
Proof. intros H. unfold build. apply map_ext_in. intros i Hi. apply in_seq in Hi. apply H. lia. Qed.
Lemma build_sel {A} (d : A) l n : build n (fun i => nth i l d) = sel d l (seq 0 n).
Proof. reflexivity. Qed.
Lemma build_self {A} (d : A) l : build (length l) (fun i => nth i l d) = l.
Proof. rewrite build_sel. apply sel_seq. reflexivity. Qed.

(* ---------- permutation test ---------- *)
Lemma is_permb_spec N o : is_permb N o = true -> is_perm N o.
Proof.
  unfold is_permb. rewrite andb_true_iff, Nat.eqb_eq, forallb_forall. intros [HL H].
  apply Permutation_sym. apply NoDup_Permutation_bis. apply seq_NoDup. rewrite seq_length; lia.
  intros m Hm. specialize (H m Hm). apply existsb_exists in H. destruct H as [x [Hx E]].
  apply Nat.eqb_eq in E. subst; auto.
Qed.
Lemma is_permb_complete N o : is_perm N o -> is_permb N o = true.
Proof.
  intros H. unfold is_permb. rewrite andb_true_iff, Nat.eqb_eq, forallb_forall. split.
  eapply is_perm_length; eauto. intros m Hm. apply existsb_exists. exists m. split.
  eapply Permutation_in. apply Permutation_sym; eauto. auto. apply Nat.eqb_refl.
Qed.

(* ---------- integer logarithm ---------- *)
Lemma ilog_aux_pow dq N fuel : 2 <= dq -> N <= fuel -> ilog_aux fuel dq (dq ^ N) = N.
Proof.
  intros Hd. revert N. induction fuel; intros N HN. replace N with 0 by lia. reflexivity.
  simpl. destruct N. simpl. reflexivity.
  assert (1 < dq ^ S N). { simpl. pose proof (pow_pos dq N ltac:(lia)). nia. }
  destruct (Nat.leb_spec (dq ^ S N) 1); [lia|].
  f_equal. replace (dq ^ S N / dq) with (dq ^ N). apply IHfuel; lia.
  simpl. rewrite Nat.mul_comm, Nat.div_mul; lia.
Qed.
Lemma pow_ge dq N : 2 <= dq -> N <= dq ^ N.
Proof. intros. induction N; simpl. lia. pose proof (pow_pos dq N ltac:(lia)). nia. Qed.
Lemma ilog_pow dq N : 2 <= dq -> ilog dq (dq ^ N) = N.
Proof. intros. unfold ilog. apply ilog_aux_pow; auto. apply pow_ge; auto. Qed.

(* ---------- scatter ---------- *)
Lemma upd_length {X} (l : list X) i x : length (upd l i x) = length l.
Proof. revert i. induction l; destruct i; simpl; auto. Qed.
Lemma upd_nth_same {X} (l : list X) i x d : i < length l -> nth i (upd l i x) d = x.
Proof. revert i. induction l; destruct i; simpl; intros; try lia; auto. apply IHl. lia. Qed.
Lemma upd_nth_other {X} (l : list X) i j x d : i <> j -> nth j (upd l i x) d = nth j l d.
Proof. revert i j. induction l; destruct i, j; simpl; intros; try lia; auto. Qed.
Lemma scatter_length {X} idx (vals init : list X) : length (scatter idx vals init) = length init.
Proof.
  revert vals init. induction idx; intros [|x vals] init; simpl; auto. rewrite IHidx. apply upd_length.
Qed.
Lemma scatter_nth_notin {X} idx (vals init : list X) r d : ~ In r idx ->
  nth r (scatter idx vals init) d = nth r init d.
Proof.
  revert vals init. induction idx; intros [|x vals] init H; simpl; auto.
  rewrite IHidx. apply upd_nth_other. intros ->. apply H; left; auto. intros Hin; apply H; right; auto.
Qed.
Lemma scatter_nth_in {X} idx (vals init : list X) j d : NoDup idx -> length vals = length idx ->
  j < length idx -> nth j idx 0 < length init ->
  nth (nth j idx 0) (scatter idx vals init) d = nth j vals d.
Proof.
  revert vals init j. induction idx; intros [|x vals] init j Hnd HL Hj Hr; simpl in *; try lia.
  inversion Hnd; subst. destruct j.
  - rewrite scatter_nth_notin by auto. apply upd_nth_same. auto.
  - apply IHidx; auto; try lia. rewrite upd_length. auto.
Qed.
(* scatter along a permutation = gather along the inverse permutation *)
Lemma scatter_perm {X} n idx (vals init : list X) d : is_perm n idx -> length vals = n -> length init = n ->
  scatter idx vals init = sel d vals (inv_order idx).
Proof.
  intros Hp Hv Hi. pose proof (is_perm_length n idx Hp) as HL.
  apply (nth_ext _ _ d d). rewrite scatter_length, sel_length, inv_order_length. lia.
  intros r Hr. rewrite scatter_length in Hr.
  assert (Hin : In r idx) by (eapply is_perm_in; eauto; lia).
  destruct (index_of_spec r idx Hin) as [Hlt E].
  rewrite nth_sel by (rewrite inv_order_length; lia). rewrite nth_inv_order by lia.
  rewrite <- E at 1. apply scatter_nth_in; auto; try lia. eapply is_perm_NoDup; eauto.
Qed.

(* ---------- tensor_transpose source map ---------- *)
Lemma tt_src_bij dq N o : 0 < dq -> is_perm N o -> bij_on (dq ^ N) (tt_src dq N o).
Proof. intros. unfold tt_src. apply dperm_bij; auto using inv_order_perm. Qed.
Lemma tt_src_lt dq N o j : 0 < dq -> is_perm N o -> j < dq ^ N -> tt_src dq N o j < dq ^ N.
Proof. intros. apply (proj1 (tt_src_bij dq N o H H0)); auto. Qed.
(* result[dperm order i] = arr[i] *)
Lemma tt_src_dperm dq N o i : 0 < dq -> is_perm N o -> i < dq ^ N -> tt_src dq N o (dperm dq N o i) = i.
Proof. intros. unfold tt_src. apply dperm_inv_l; auto. Qed.
Lemma dperm_tt_src dq N o j : 0 < dq -> is_perm N o -> j < dq ^ N -> dperm dq N o (tt_src dq N o j) = j.
Proof. intros. unfold tt_src. apply dperm_inv_r; auto. Qed.
Lemma tt_src_id dq N j : 0 < dq -> j < dq ^ N -> tt_src dq N (seq 0 N) j = j.
Proof.
  intros. unfold tt_src.
  assert (E : inv_order (seq 0 N) = seq 0 N).
  { pose proof (sel_order_inv N (seq 0 N) (is_perm_id N)) as E.
    rewrite <- E at 2. symmetry. apply (nth_ext _ _ 0 0).
    rewrite sel_length, inv_order_length; auto.
    intros n Hn. rewrite sel_length, inv_order_length, seq_length in Hn.
    rewrite nth_sel by (rewrite inv_order_length, seq_length; auto).
    rewrite seq_nth. reflexivity.
    pose proof (inv_order_perm N _ (is_perm_id N)) as HP.
    eapply is_perm_nth_lt; eauto. }
  rewrite E. apply dperm_id; auto.
Qed.
(* transposing by o1 and then by o2 reads the source through o1[o2[.]] *)
Lemma tt_src_compose dq N o1 o2 j : 0 < dq -> is_perm N o1 -> is_perm N o2 -> j < dq ^ N ->
  tt_src dq N o1 (tt_src dq N o2 j) = tt_src dq N (sel 0 o1 o2) j.
Proof.
  intros Hd H1 H2 Hj. pose proof (sel_perm_comp N o1 o2 H1 H2) as H12.
  pose proof (tt_src_lt dq N o2 j Hd H2 Hj) as L2.
  pose proof (tt_src_lt dq N o1 _ Hd H1 L2) as L1.
  (* both sides are the preimage of j under dperm (sel o1 o2) = dperm o2 . dperm o1 *)
  destruct (dperm_bij dq N (sel 0 o1 o2) Hd H12) as [_ Hinj].
  apply Hinj; auto. apply tt_src_lt; auto.
  rewrite dperm_tt_src by auto.
  rewrite <- dperm_compose by auto. rewrite dperm_tt_src by auto. apply dperm_tt_src; auto.
Qed.

Section Entries.
Context {Rr Cc : Type} (dr : Rr) (dc : Cc).
Lemma tt2_nth dq N o (M : list (list Cc)) j j' : j < dq ^ N -> j' < dq ^ N ->
  nth j' (nth j (tt2 dc dq N o M) []) dc = nth (tt_src dq N o j') (nth (tt_src dq N o j) M []) dc.
Proof. intros. unfold tt2. rewrite build_nth by auto. rewrite build_nth by auto. reflexivity. Qed.
Lemma tt1_nth dq N o (v : list Rr) j : j < dq ^ N -> nth j (tt1 dr dq N o v) dr = nth (tt_src dq N o j) v dr.
Proof. intros. unfold tt1. rewrite build_nth by auto. reflexivity. Qed.
Lemma tt2_length dq N o (M : list (list Cc)) : length (tt2 dc dq N o M) = dq ^ N.
Proof. apply build_len. Qed.
Lemma tt1_length dq N o (v : list Rr) : length (tt1 dr dq N o v) = dq ^ N.
Proof. apply build_len. Qed.

(* shapes *)
Definition is_mat (n : nat) (M : list (list Cc)) : Prop := length M = n /\ Forall (fun row => length row = n) M.
Lemma is_mat_tt2 dq N o M : is_mat (dq ^ N) (tt2 dc dq N o M).
Proof.
  split. apply build_len. unfold tt2. apply Forall_forall. intros row H.
  unfold build in H. apply in_map_iff in H. destruct H as [j [<- _]]. apply build_len.
Qed.
Lemma mat_ext n (A B : list (list Cc)) : is_mat n A -> is_mat n B ->
  (forall i j, i < n -> j < n -> nth j (nth i A []) dc = nth j (nth i B []) dc) -> A = B.
Proof.
  intros [LA FA] [LB FB] H. apply (nth_ext _ _ [] []). lia.
  intros i Hi. rewrite Forall_forall in FA, FB.
  assert (length (nth i A []) = n) by (apply FA, nth_In; lia).
  assert (length (nth i B []) = n) by (apply FB, nth_In; lia).
  apply (nth_ext _ _ dc dc). lia. intros j Hj. apply H; lia.
Qed.
Lemma tt2_id dq N M : 0 < dq -> is_mat (dq ^ N) M -> tt2 dc dq N (seq 0 N) M = M.
Proof.
  intros Hd HM. apply (mat_ext (dq ^ N)); auto using is_mat_tt2.
  intros i j Hi Hj. rewrite tt2_nth by auto. rewrite !tt_src_id by auto. reflexivity.
Qed.
Lemma tt2_compose dq N o1 o2 M : 0 < dq -> is_perm N o1 -> is_perm N o2 ->
  tt2 dc dq N o2 (tt2 dc dq N o1 M) = tt2 dc dq N (sel 0 o1 o2) M.
Proof.
  intros Hd H1 H2. apply (mat_ext (dq ^ N)); auto using is_mat_tt2.
  intros i j Hi Hj. rewrite !tt2_nth by auto using tt_src_lt.
  rewrite !tt_src_compose by auto. reflexivity.
Qed.
Lemma tt1_id dq N v : 0 < dq -> length v = dq ^ N -> tt1 dr dq N (seq 0 N) v = v.
Proof.
  intros Hd HL. apply (nth_ext _ _ dr dr). rewrite tt1_length; auto.
  intros j Hj. rewrite tt1_length in Hj. rewrite tt1_nth by auto. rewrite tt_src_id by auto. reflexivity.
Qed.
Lemma tt1_compose dq N o1 o2 v : 0 < dq -> is_perm N o1 -> is_perm N o2 ->
  tt1 dr dq N o2 (tt1 dr dq N o1 v) = tt1 dr dq N (sel 0 o1 o2) v.
Proof.
  intros Hd H1 H2. apply (nth_ext _ _ dr dr). rewrite !tt1_length; auto.
  intros j Hj. rewrite tt1_length in Hj. rewrite !tt1_nth by auto using tt_src_lt.
  rewrite tt_src_compose by auto. reflexivity.
Qed.
End Entries.

(* ---------- Pauli element permutation ---------- *)
Lemma remap_pauli_length N o : length (remap_pauli N o) = 4 ^ N.
Proof. apply build_len. Qed.
Lemma remap_pauli_nth N o k : k < 4 ^ N -> nth k (remap_pauli N o) 0 = dperm 4 N o k.
Proof. intros. unfold remap_pauli. rewrite build_nth by auto. reflexivity. Qed.
Lemma remap_pauli_perm N o : is_perm N o -> is_perm (4 ^ N) (remap_pauli N o).
Proof.
  intros H. unfold is_perm, remap_pauli, build. apply bij_on_perm. apply dperm_bij; auto.
Qed.

(* ---------- identifiers ---------- *)
Lemma lookup_all_length m ks vs : lookup_all m ks = Some vs -> length vs = length ks.
Proof.
  revert vs. induction ks; simpl; intros vs H. inversion H; auto.
  destruct (lookup m a); try discriminate. destruct (lookup_all m ks); try discriminate.
  inversion H; subst. simpl. f_equal. apply IHks; auto.
Qed.
Lemma lookup_all_nth m ks vs i : lookup_all m ks = Some vs -> i < length ks ->
  lookup m (nth i ks EmptyString) = Some (nth i vs EmptyString).
Proof.
  revert vs i. induction ks; simpl; intros vs i H Hi. lia.
  destruct (lookup m a) eqn:E1; try discriminate. destruct (lookup_all m ks) eqn:E2; try discriminate.
  inversion H; subst. destruct i; simpl; auto. apply IHks; auto. lia.
Qed.
Lemma map_identifiers_perm ids mapping ids' idx : map_identifiers ids mapping = Some (ids', idx) ->
  length ids' = length ids /\ is_perm (length ids) idx.
Proof.
  unfold map_identifiers. destruct mapping as [m|].
  - destruct (lookup_all m ids) eqn:E; try discriminate. destruct (nodup_str l); try discriminate.
    intros H; inversion H; subst.
    pose proof (lookup_all_length _ _ _ E) as HL. split; auto. rewrite <- HL. apply argsort_perm.
  - intros H; inversion H; subst. split; auto. apply is_perm_id.
Qed.
(* the new identifier list is in non-decreasing order when a mapping is given *)
Lemma map_identifiers_sorted ids m ids' idx : map_identifiers ids (Some m) = Some (ids', idx) ->
  StronglySorted (kle (fun i => nth i ids' EmptyString)) idx.
Proof.
  unfold map_identifiers. destruct (lookup_all m ids); try discriminate. destruct (nodup_str l); try discriminate.
  intros H; inversion H; subst. apply argsort_sorted.
Qed.
Lemma nodup_str_spec l : nodup_str l = true -> NoDup l.
Proof.
  induction l; simpl; intros H. constructor. apply andb_true_iff in H. destruct H as [H1 H2]. constructor; auto.
  intros Hin. apply negb_true_iff in H1. assert (existsb (String.eqb a) l = true).
  { apply existsb_exists. exists a. split; auto. apply String.eqb_refl. } congruence.
Qed.
(* the mapped identifiers are distinct (the code rejects mappings that are not one-to-one) *)
Lemma map_identifiers_nodup ids m ids' idx : map_identifiers ids (Some m) = Some (ids', idx) -> NoDup ids'.
Proof.
  unfold map_identifiers. destruct (lookup_all m ids); try discriminate. destruct (nodup_str l) eqn:E; try discriminate.
  intros H; inversion H; subst. apply nodup_str_spec; auto.
Qed.
Lemma sel_permutation {A} (d : A) l n idx : is_perm n idx -> length l = n -> Permutation (sel d l idx) l.
Proof.
  intros Hp HL. unfold sel. eapply Permutation_trans. apply Permutation_map. exact Hp.
  fold (sel d l (seq 0 n)). rewrite sel_seq by auto. apply Permutation_refl.
Qed.
