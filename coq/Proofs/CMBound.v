(* A-priori form of the Taylor-branch error bound of the control matrix (C01):
     sum_mn |(V^dagger N V)_mn| |(W^dagger C W)_nm|  <=  ||N||_F ||C||_F      (V, Q unitary; Cauchy-Schwarz and
   unitary invariance of the Frobenius norm), hence
     | B_jk(w) - integral |  <=  (thr/2 + thr^2/2) (sum_g |s_j^g| dt_g) ||N_j||_F ||C_k||_F .                  *)
From Coq Require Import ZArith Reals Lra Lia List Setoid Morphisms.
From Coquelicot Require Import Coquelicot.
From FF Require Import Base.Ops Inst.RInst Base.RAlg Model.Numeric Model.Consts Proofs.Foi Proofs.CMBase Proofs.CMIntegral.
Import ListNotations.
Local Open Scope R_scope.

(* ---------- Cauchy-Schwarz for double sums ---------- *)
Lemma discriminant_nonpos (A B C : R) : 0 <= A -> (forall t, 0 <= A * (t * t) + 2 * B * t + C) -> B * B <= A * C.
Proof.
  intros HA H. destruct (Req_dec A 0) as [E|NE].
  - subst A. destruct (Req_dec B 0) as [->|NB]. nra.
    exfalso. specialize (H (- (C + 1) / (2 * B))).
    replace (0 * (- (C + 1) / (2 * B) * (- (C + 1) / (2 * B))) + 2 * B * (- (C + 1) / (2 * B)) + C) with (-1) in H by (field; auto).
    lra.
  - assert (HA' : 0 < A) by lra. specialize (H (- B / A)).
    replace (A * (- B / A * (- B / A)) + 2 * B * (- B / A) + C) with ((A * C - B * B) / A) in H by (field; lra).
    assert (0 <= (A * C - B * B) / A * A) by (apply Rmult_le_pos; lra).
    replace ((A * C - B * B) / A * A) with (A * C - B * B) in H0 by (field; lra). lra.
Qed.

Definition sum2 (d : nat) (f : nat -> nat -> R) : R := sumn' d (fun m => sumn' d (fun n => f m n)).
Lemma sumn2_nonneg d (f : nat -> nat -> R) : (forall m n, 0 <= f m n) -> 0 <= sum2 d f.
Proof. intros H. apply sumn_nonneg; intros m _. apply sumn_nonneg; intros n _. auto. Qed.
Lemma sum2_ext d f g : (forall m n, (m < d)%nat -> (n < d)%nat -> f m n = g m n) -> sum2 d f = sum2 d g.
Proof. intros H. apply sumn_ext; intros m Hm. apply sumn_ext; intros n Hn. auto. Qed.
Lemma sum2_add d f g : sum2 d (fun m n => f m n + g m n) = sum2 d f + sum2 d g.
Proof. unfold sum2. rewrite <- sumn_add. apply sumn_ext; intros m _. apply sumn_add. Qed.
Lemma sum2_mul_l d a f : sum2 d (fun m n => a * f m n) = a * sum2 d f.
Proof. unfold sum2. rewrite <- sumn_mul_l. apply sumn_ext; intros m _. apply sumn_mul_l. Qed.

Lemma cauchy_schwarz2 d (x y : nat -> nat -> R) :
  sum2 d (fun m n => x m n * y m n) * sum2 d (fun m n => x m n * y m n) <=
  sum2 d (fun m n => x m n * x m n) * sum2 d (fun m n => y m n * y m n).
Proof.
  apply discriminant_nonpos.
  - apply sumn2_nonneg. intros m n. apply (Rle_0_sqr (x m n)).
  - intros t.
    assert (E : sum2 d (fun m n => (x m n * t + y m n) * (x m n * t + y m n)) =
                sum2 d (fun m n => x m n * x m n) * (t * t) + 2 * sum2 d (fun m n => x m n * y m n) * t + sum2 d (fun m n => y m n * y m n)).
    { rewrite (sum2_ext d _ (fun m n => (t * t) * (x m n * x m n) + ((2 * t) * (x m n * y m n) + y m n * y m n))) by (intros; ring).
      rewrite sum2_add, sum2_add, !sum2_mul_l. ring. }
    rewrite <- E. apply sumn2_nonneg. intros m n. apply (Rle_0_sqr (x m n * t + y m n)).
Qed.

(* ---------- Frobenius norm ---------- *)
Definition fnorm2 (d : nat) (A : fmat) : R := sum2 d (fun m n => cabs2 RO (A m n)).
Definition Fnorm (d : nat) (A : MatR) : R := sqrt (fnorm2 d (toF A)).

Lemma fnorm2_nonneg d A : 0 <= fnorm2 d A.
Proof. apply sumn2_nonneg. intros. apply cabs2_nonneg. Qed.

Lemma csumn_cofr' n (r : nat -> R) : csumn' n (fun k => cofr RO (r k)) = cofr RO (sumn' n r).
Proof. induction n; simpl. reflexivity. rewrite IHn. apply c_eq; csimp; ring. Qed.

Lemma fnorm2_trace d A : ftr d (fmul d (fadj A) A) = cofr RO (fnorm2 d A).
Proof.
  unfold ftr, fmul, fadj, fnorm2, sum2. rewrite sumn_swap. rewrite <- csumn_cofr'. apply csumn_ext; intros i _.
  rewrite <- csumn_cofr'. apply csumn_ext; intros k _. apply cmul_conj_abs2.
Qed.

Global Instance fnorm2_Proper d : Proper (feq d ==> eq) (fnorm2 d).
Proof.
  intros A A' H. unfold fnorm2. apply sum2_ext; intros m n Hm Hn. rewrite H; auto.
Qed.

(* unitary invariance: || U^dagger A U ||_F = || A ||_F *)
Lemma fnorm2_unitary_conj d U A : funitary d U -> fnorm2 d (fmul d (fadj U) (fmul d A U)) = fnorm2 d A.
Proof.
  intros [_ H2].
  assert (E : cofr RO (fnorm2 d (fmul d (fadj U) (fmul d A U))) = cofr RO (fnorm2 d A)).
  { rewrite <- !fnorm2_trace.
    rewrite !fadj_mul, !fadj_invol_feq. rewrite <- !fmul_assoc.
    (* tr (U^ (A^ (U (U^ (A U))))) *)
    rewrite (fmul_cancel_l d U (fadj U) _ H2).
    rewrite ftr_cyclic. rewrite <- !fmul_assoc.
    rewrite H2, fmul_id_r. reflexivity. }
  injection E; auto.
Qed.

Lemma Cmod_sq (z : Cx) : Cmod z * Cmod z = cabs2 RO z.
Proof.
  unfold Cmod. rewrite sqrt_sqrt. csimp. ring.
  csimp. nra.
Qed.

Section Weight.
Variable d : nat.

Lemma funitary_W V Q : funitary d (toF V) -> funitary d (toF Q) -> funitary d (toF (mmul RO d (madj RO d Q) V)).
Proof.
  intros HV HQ. rewrite toF_mmul, toF_madj. apply funitary_mul; auto. apply funitary_adj; auto.
Qed.

Theorem step_weight_le_norms V Q N Cm : funitary d (toF V) -> funitary d (toF Q) ->
  step_weight d V Q N Cm <= Fnorm d N * Fnorm d Cm.
Proof.
  intros HV HQ.
  set (NT := transform_by_unitary RO d V N).
  set (BT := transform_by_unitary RO d (mmul RO d (madj RO d Q) V) Cm).
  pose proof (cauchy_schwarz2 d (fun m n => Cmod (mget RO NT m n)) (fun m n => Cmod (mget RO BT n m))) as CS.
  cbv beta in CS.
  assert (E1 : sum2 d (fun m n => Cmod (mget RO NT m n) * Cmod (mget RO NT m n)) = fnorm2 d (toF N)).
  { rewrite <- (fnorm2_unitary_conj d (toF V) (toF N) HV). rewrite <- (toF_transform_by_unitary d V N).
    unfold fnorm2. apply sum2_ext; intros m n _ _. apply Cmod_sq. }
  assert (E2 : sum2 d (fun m n => Cmod (mget RO BT n m) * Cmod (mget RO BT n m)) = fnorm2 d (toF Cm)).
  { rewrite <- (fnorm2_unitary_conj d (toF (mmul RO d (madj RO d Q) V)) (toF Cm) (funitary_W V Q HV HQ)).
    rewrite <- (toF_transform_by_unitary d (mmul RO d (madj RO d Q) V) Cm).
    unfold fnorm2, sum2. rewrite sumn_swap. apply sumn_ext; intros m _. apply sumn_ext; intros n _. apply Cmod_sq. }
  rewrite E1, E2 in CS.
  unfold Fnorm. rewrite <- sqrt_mult by apply fnorm2_nonneg.
  pose proof (step_weight_nonneg d V Q N Cm) as Hw. unfold step_weight in *. fold NT BT in Hw |- *.
  fold (sum2 d (fun m n => Cmod (mget RO NT m n) * Cmod (mget RO BT n m))) in Hw |- *.
  set (X := sum2 d (fun m n => Cmod (mget RO NT m n) * Cmod (mget RO BT n m))) in *.
  rewrite <- (sqrt_Rsqr X) by exact Hw. apply sqrt_le_1_alt. unfold Rsqr. exact CS.
Qed.
End Weight.

(* ---------- a-priori bound for the whole pulse ---------- *)
Section Apriori.
Variable d : nat.

Fixpoint segs_sdt (segs : list seg) : R :=
  match segs with [] => 0 | (_, _, dt, s) :: r => Rabs s * Rabs dt + segs_sdt r end.

Definition segs_unitary (segs : list seg) : Prop :=
  List.Forall (fun sg : seg => let '(_, V, _, _) := sg in funitary d (toF V)) segs.

Theorem segs_bound_apriori thr N Cm : 0 <= thr -> forall segs Q, segs_unitary segs -> funitary d (toF Q) ->
  segs_bound d thr segs Q N Cm <= taylor_eps thr * segs_sdt segs * (Fnorm d N * Fnorm d Cm).
Proof.
  intros H0. assert (He : 0 <= taylor_eps thr) by (unfold taylor_eps; nra).
  induction segs as [|[[[ev V] dt] s] r IH]; intros Q HU HQ; simpl.
  - lra.
  - inversion HU as [|? ? H1 H2]; subst.
    pose proof (step_weight_le_norms d V Q N Cm H1 HQ) as Hw.
    pose proof (step_weight_nonneg d V Q N Cm) as Hw0.
    specialize (IH (mmul RO d (segment_propagator RO d ev V dt) Q) H2 (Useg_unitary d ev V Q dt H1 HQ)).
    assert (Hs : 0 <= Rabs s * Rabs dt) by (apply Rmult_le_pos; apply Rabs_pos).
    assert (K : Rabs s * taylor_eps thr * Rabs dt * step_weight d V Q N Cm
                <= taylor_eps thr * (Rabs s * Rabs dt) * (Fnorm d N * Fnorm d Cm)).
    { replace (Rabs s * taylor_eps thr * Rabs dt * step_weight d V Q N Cm)
        with (taylor_eps thr * (Rabs s * Rabs dt) * step_weight d V Q N Cm) by ring.
      apply Rmult_le_compat_l; auto. apply Rmult_le_pos; auto. }
    lra.
Qed.

(* headline with the a-priori bound *)
Theorem control_matrix_integral_apriori thr evs Vs dts om bs ns nc j k o :
  0 <= thr -> (forall g, (g < length dts)%nat -> 0 <= nth g dts 0) ->
  (forall g, (g < length dts)%nat -> funitary d (toF (nth g Vs []))) ->
  (j < length ns)%nat -> (k < length bs)%nat -> (o < length om)%nat ->
  let segs := pulse_segs evs Vs dts nc j in
  let B := a3get RO (control_matrix_from_scratch RO d thr evs Vs (propagators RO d evs Vs dts) om bs ns nc dts (times RO dts)) j k o in
  exists I, is_CInt (cm_integrand d segs (mid RO d) 0 (vg RO om o) (nthm ns j) (nthm bs k)) 0 (segs_tau segs) I /\
            Cmod (csub' B I) <= taylor_eps thr * segs_sdt segs * (Fnorm d (nthm ns j) * Fnorm d (nthm bs k)).
Proof.
  intros H0 Hdt HV Hj Hk Ho segs B.
  destruct (control_matrix_integral d thr evs Vs dts om bs ns nc j k o H0 Hdt Hj Hk Ho) as [I [HI [HB _]]].
  exists I. split; [exact HI|]. fold segs B in HB. eapply Rle_trans; [exact HB|].
  apply segs_bound_apriori; auto.
  - unfold segs_unitary, segs, pulse_segs.
    generalize (sens_row (length dts) nc j). clear - HV.
    revert Vs dts HV. induction evs as [|ev evs IH]; intros Vs dts HV ss; [constructor|].
    destruct Vs as [|V Vs]; [constructor|]. destruct dts as [|dt dts]; [constructor|]. destruct ss as [|s ss]; [constructor|].
    simpl. constructor.
    + apply (HV 0%nat). simpl; lia.
    + apply IH. intros g Hg. apply (HV (S g)). simpl; lia.
  - rewrite toF_mid. apply funitary_id.
Qed.
End Apriori.

(* ---------- the threshold of the current source (Extracted/Src.v via Model/Consts.v) ---------- *)
Definition foi_thr_R : R := Rdya (fst foi_thr) (snd foi_thr).
Lemma pow2_73 : 2 ^ 73 = 9444732965739290427392.
Proof.
  replace (2 ^ 73) with ((2 ^ 8) ^ 9 * 2) by (rewrite <- pow_mult; simpl; ring).
  replace (2 ^ 8) with 256 by (simpl; ring). simpl. ring.
Qed.
Lemma foi_thr_eps : 0 <= foi_thr_R /\ taylor_eps foi_thr_R <= 6 / 100000000.
Proof.
  unfold foi_thr_R, taylor_eps, Rdya.
  replace (fst foi_thr) with 944473296573929%Z by reflexivity.
  replace (snd foi_thr) with (-73)%Z by reflexivity.
  unfold powerRZ. change (Pos.to_nat 73) with 73%nat. rewrite pow2_73.
  set (t := 944473296573929 * / 9444732965739290427392).
  assert (H : 0 <= t <= 11 / 100000000) by (unfold t; lra).
  split. lra. nra.
Qed.
