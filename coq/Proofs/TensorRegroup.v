(* C16 -- regrouping of axes (reshape) and environments built from blocks of letters: tools for the
   numeric statements about single_tensor_insert. *)
From Coq Require Import ZArith List Arith Lia Bool Permutation.
From FF Require Import Model.Tensor Spec.Kron Proofs.TensorIdx Proofs.TensorOrder Proofs.TensorKron.
Import ListNotations.

Section Generic.
Context {T : Type} {EN : Entry T} {EL : EntryLaws T}.
Local Notation arr := (garr T).

(* ------------------------------------------------------------------ indices of a concatenated shape *)
Lemma indices_app s1 : forall s2,
  indices (s1 ++ s2) = flat_map (fun a => map (app a) (indices s2)) (indices s1).
Proof.
  induction s1 as [|d s1 IH]; intros s2.
  - cbn [app indices flat_map]. rewrite app_nil_r. rewrite map_id. reflexivity.
  - cbn [app indices]. rewrite flat_map_flat_map. apply flat_map_ext. intros i.
    rewrite IH, map_flat_map, flat_map_map'. apply flat_map_ext. intros a.
    rewrite map_map. reflexivity.
Qed.

Fixpoint split_by (groups : list (list nat)) (fi : list nat) : list (list nat) :=
  match groups with
  | [] => []
  | g :: gs => firstn (length g) fi :: split_by gs (skipn (length g) fi)
  end.
Definition merge_idx (groups : list (list nat)) (fi : list nat) : list nat :=
  map2 ravel groups (split_by groups fi).

(* reshape from the fine shape (concat groups) to the coarse one (product of every group): same data *)
Lemma indices_regroup groups : forall (h : list nat -> T),
  map (fun fi => h (merge_idx groups fi)) (indices (concat groups)) = map h (indices (map prodn groups)).
Proof.
  induction groups as [|g gs IH]; intros h; [reflexivity|].
  cbn [concat map indices]. rewrite indices_app.
  rewrite <- (ravel_indices g), flat_map_map'. rewrite !map_flat_map.
  apply flat_map_ext_in. intros a Ha. apply In_indices in Ha.
  rewrite !map_map. rewrite <- (IH (fun t => h (ravel g a :: t))).
  apply map_ext. intros b. unfold merge_idx. cbn [split_by map2].
  assert (Hl : length a = length g) by (eapply inb_length; eauto).
  rewrite <- Hl. rewrite firstn_app, Nat.sub_diag, firstn_all, firstn_O, app_nil_r.
  rewrite skipn_app, Nat.sub_diag, skipn_all, skipn_O. reflexivity.
Qed.

Lemma prodn_concat groups : prodn (concat groups) = prodn (map prodn groups).
Proof. induction groups as [|g gs IH]; simpl; auto. rewrite prodn_app, IH. reflexivity. Qed.

(* flat index of concatenated blocks = flat index of the per-block flat indices *)
Lemma ravel_concat Ds : forall V, Forall2 (fun v d => length v = length d) V Ds ->
  ravel (concat Ds) (concat V) = ravel (map prodn Ds) (map2 ravel Ds V).
Proof.
  induction Ds as [|d Ds IH]; intros V H; inversion H as [|v ? V' ? Hv HV]; subst; [reflexivity|].
  cbn [concat map map2]. rewrite ravel_app.
  - rewrite ravel_cons.
    + rewrite IH by auto. rewrite prodn_concat. reflexivity.
    + clear -HV. revert V' HV. induction Ds as [|d Ds IH]; intros V' HV; inversion HV; subst; simpl; auto.
  - auto.
  - clear -HV. revert V' HV. induction Ds as [|d Ds IH]; intros V' HV; inversion HV; subst; simpl; auto.
    rewrite !app_length. f_equal; auto.
Qed.

(* ------------------------------------------------------------------ environments made of blocks *)
Lemma gather_lookup env vals opl : forall ops,
  Forall2 (fun l d => lookup env vals l < d) opl ops ->
  gather env vals opl ops = map (lookup env vals) opl.
Proof.
  induction opl as [|l opl IH]; intros ops H; inversion H as [|? d ? ops' Hl H']; subst; simpl; auto.
  rewrite IH by auto. f_equal. destruct (Nat.eqb_spec d 1); lia.
Qed.

Lemma lookup_insert_at_same pos x y : forall b v, ~ In x b -> length b = length v -> pos <= length b ->
  lookup (insert_at pos x b) (insert_at pos y v) x = y.
Proof.
  unfold insert_at. induction pos as [|pos IH]; intros b v Hx Hl Hp; simpl.
  - rewrite Nat.eqb_refl. reflexivity.
  - destruct b as [|c b]; destruct v as [|w v]; simpl in *; try discriminate; try lia.
    destruct (Nat.eqb_spec x c) as [E|E]; [subst; exfalso; apply Hx; left; auto|].
    apply IH; auto; try lia.
Qed.
Lemma lookup_insert_at_other pos x y l : forall b v, l <> x -> length b = length v ->
  lookup (insert_at pos x b) (insert_at pos y v) l = lookup b v l.
Proof.
  unfold insert_at. induction pos as [|pos IH]; intros b v Hx Hl; simpl.
  - destruct (Nat.eqb_spec l x); [contradiction|reflexivity].
  - destruct b as [|c b]; destruct v as [|w v]; simpl in *; try discriminate.
    + destruct (Nat.eqb_spec l x); [contradiction|reflexivity].
    + destruct (l =? c); auto.
Qed.
Lemma map_insert_at {A B} (f : A -> B) pos x b : map f (insert_at pos x b) = insert_at pos (f x) (map f b).
Proof. unfold insert_at. rewrite map_app. simpl. rewrite firstn_map, skipn_map. reflexivity. Qed.

(* letters X (one per block, inserted at index pos) and blocks B; values Y and V likewise *)
Definition blocks_env {A} (pos : nat) (X : list A) (B : list (list A)) : list A :=
  concat (map2 (insert_at pos) X B).

Lemma blocks_lookup pos X : forall B Y V,
  NoDup (X ++ concat B) -> length X = length B -> length Y = length X ->
  Forall2 (fun b v => length b = length v /\ pos <= length b) B V ->
  map (lookup (blocks_env pos X B) (blocks_env pos Y V)) X = Y /\
  map (lookup (blocks_env pos X B) (blocks_env pos Y V)) (concat B) = concat V.
Proof.
  induction X as [|x X IH]; intros B Y V Hnd H1 H2 HBV.
  - destruct B; destruct Y; simpl in *; try discriminate. inversion HBV; subst. split; reflexivity.
  - destruct B as [|b B]; destruct Y as [|y Y]; simpl in *; try discriminate.
    inversion HBV as [|? v ? V' [Hbv Hpos] HBV']; subst.
    unfold blocks_env. cbn [map2 concat].
    assert (Hlen : length (insert_at pos x b) = length (insert_at pos y v)) by (rewrite !insert_at_length; lia).
    inversion Hnd as [|? ? Hx Hnd']; subst.
    assert (Hxb : ~ In x b) by (intros Hc; apply Hx; apply in_or_app; right; simpl; apply in_or_app; auto).
    assert (HndXB : NoDup (X ++ concat B)).
    { clear -Hnd'. revert Hnd'. generalize (concat B). intros cb Hnd'.
      (* X ++ (b ++ cb) without b *)
      induction X as [|z X IH]; simpl in *.
      - eapply NoDup_app_r; eauto.
      - inversion Hnd' as [|? ? Hz Hn]; subst. constructor.
        + intros Hc. apply Hz. apply in_app_or in Hc. apply in_or_app. destruct Hc; auto. right. apply in_or_app. auto.
        + apply IH; auto. }
    destruct (IH B Y V' HndXB ltac:(lia) ltac:(lia) HBV') as [IH1 IH2].
    fold (blocks_env pos X B). fold (blocks_env pos Y V').
    (* letters of the remaining blocks do not occur in the first block *)
    assert (Hnot : forall l, In l (X ++ concat B) -> ~ In l (insert_at pos x b)).
    { intros l Hl Hc. apply (Permutation_in _ (insert_at_perm pos x b)) in Hc. destruct Hc as [<-|Hc].
      - apply Hx. apply in_app_or in Hl. apply in_or_app. destruct Hl; auto. right. simpl. apply in_or_app. auto.
      - (* l in b and in X ++ concat B contradicts NoDup *)
        clear -Hnd' Hl Hc. apply in_app_or in Hl. destruct Hl as [Hl|Hl].
        + eapply (NoDup_app_disj X (b ++ concat B)); eauto. apply in_or_app. auto.
        + apply NoDup_app_r in Hnd'. eapply (NoDup_app_disj b (concat B)); eauto. }
    split.
    + f_equal.
      * rewrite lookup_app_l; [|apply (Permutation_in _ (Permutation_sym (insert_at_perm pos x b))); left; auto|auto].
        apply lookup_insert_at_same; auto.
      * etransitivity; [|exact IH1]. apply map_ext_in. intros l Hl.
        apply lookup_app_r; auto. apply Hnot. apply in_or_app. auto.
    + rewrite map_app. f_equal.
      * transitivity (map (lookup b v) b); [|apply map_lookup_self; auto].
        -- apply map_ext_in. intros l Hl.
           rewrite lookup_app_l; [|apply (Permutation_in _ (Permutation_sym (insert_at_perm pos x b))); right; auto|auto].
           apply lookup_insert_at_other; auto. intros ->. contradiction.
        -- apply NoDup_app_r in Hnd'. eapply NoDup_app_l; eauto.
      * etransitivity; [|exact IH2]. apply map_ext_in. intros l Hl.
        apply lookup_app_r; auto. apply Hnot. apply in_or_app. auto.
Qed.
End Generic.
