(* C09, part 4: conditional complete positivity of the first-order cumulant function.
   For a complete Hermitian basis and positive-semidefinite decay amplitudes the Choi form of K
   (entries [choi_entry] of superoperator.liouville_to_choi) is non-negative on every vector
   orthogonal to the maximally entangled state, i.e. on every V with sum_a V_aa = 0 -- this is
   what Q choi Q >= 0 (liouville_is_cCP) says without the index flattening:
       sum conj(V_ac) choi_(ac),(be) V_be = sum_kl Gamma_kl Re( p_k conj p_l ),   p_k = sum_ac conj(V_ac) (C_k)_ca . *)
From Coq Require Import ZArith Reals Lra Lia List Setoid Morphisms.
From FF Require Import Base.Ops Inst.RInst Base.RAlg Base.FMat Model.Numeric Model.Decay Model.Cumulant
     Proofs.Trapz Proofs.TraceId Proofs.CumulantAlg.
Import ListNotations.
Local Open Scope R_scope.

Definition rcx (x : R) : Cx := (x, 0).

Section CCP.
Variables (d n : nat) (Cb : nat -> fmat).
Hypothesis Hherm : basis_herm d n Cb.
Hypothesis Hcomp : basis_complete d n Cb.
Notation "A ** B" := (fmul d A B) (at level 40, left associativity).
Notation cm := (comm d).

(* ---------- expansions from completeness ---------- *)
(* sum_i tr(C_i Z) C_i = Z *)
Lemma basis_expansion (Z : fmat) c e : (c < d)%nat -> (e < d)%nat ->
  csumn' n (fun i => cmul' (ftr d (Cb i ** Z)) (Cb i c e)) = Z c e.
Proof.
  intros Hc He. unfold ftr, fmul.
  rewrite (csumn_ext n _ (fun i => csumn' d (fun x => csumn' d (fun y => cmul' (Z y x) (cmul' (Cb i x y) (Cb i c e)))))).
  2:{ intros i _. rewrite <- csumn_mul_r. apply csumn_ext. intros x _. rewrite <- csumn_mul_r.
      apply csumn_ext. intros y _. ring. }
  rewrite csumn_swap.
  rewrite (csumn_ext d _ (fun x => if Nat.eqb e x then Z c x else 0c)).
  apply (csumn_delta d e (fun x => Z c x)); auto.
  intros x Hx. rewrite csumn_swap.
  rewrite (csumn_ext d _ (fun y => if Nat.eqb c y then (if Nat.eqb e x then Z y x else 0c) else 0c)).
  rewrite (csumn_delta d c (fun y => if Nat.eqb e x then Z y x else 0c)) by auto. reflexivity.
  intros y Hy. rewrite csumn_mul_l. rewrite (completeness_entries d n Cb Hcomp) by auto.
  rewrite (Nat.eqb_sym x e), (Nat.eqb_sym y c). destruct (Nat.eqb e x), (Nat.eqb c y); simpl; ring.
Qed.
(* sum_j (C_j)_ba C_j = |a><b| *)
Lemma unit_expansion a b : (a < d)%nat -> (b < d)%nat ->
  feq d (fsum n (fun j => fscal (Cb j b a) (Cb j))) (funit a b).
Proof.
  intros Ha Hb x y Hx Hy. unfold fsum, fscal, funit.
  rewrite (completeness_entries d n Cb Hcomp) by auto.
  rewrite (Nat.eqb_sym b y), (Nat.eqb_sym a x). rewrite Bool.andb_comm. reflexivity.
Qed.

(* ---------- the generator as a linear map ---------- *)
Variable G : RMr.
Definition Lgen (X : fmat) : fmat :=
  fscal (rcx (- / 2)) (fsum n (fun k => fsum n (fun l => fscal (rcx (rmget RO G k l)) (cm (Cb k) (cm (Cb l) X))))).
Global Instance Lgen_proper : Proper (feq d ==> feq d) Lgen.
Proof.
  intros X X' HX. unfold Lgen. apply fscal_proper. apply fsum_ext. intros k _. apply fsum_ext. intros l _.
  rewrite HX. reflexivity.
Qed.
Lemma fsum_fscal m z (F : nat -> fmat) : feq d (fscal z (fsum m F)) (fsum m (fun j => fscal z (F j))).
Proof. intros a b _ _. unfold fscal, fsum. symmetry. apply csumn_mul_l. Qed.
Lemma fsum_swap m1 m2 (F : nat -> nat -> fmat) :
  feq d (fsum m1 (fun i => fsum m2 (fun j => F i j))) (fsum m2 (fun j => fsum m1 (fun i => F i j))).
Proof. intros a b _ _. unfold fsum. apply csumn_swap. Qed.
Lemma fscal_comm z1 z2 A : feq d (fscal z1 (fscal z2 A)) (fscal z2 (fscal z1 A)).
Proof. intros a b _ _. unfold fscal. ring. Qed.
Lemma Lgen_wsum (w : nat -> Cx) (X : nat -> fmat) :
  feq d (Lgen (fsum n (fun j => fscal (w j) (X j)))) (fsum n (fun j => fscal (w j) (Lgen (X j)))).
Proof.
  unfold Lgen.
  transitivity (fscal (rcx (- / 2)) (fsum n (fun k => fsum n (fun l => fsum n (fun j =>
     fscal (w j) (fscal (rcx (rmget RO G k l)) (cm (Cb k) (cm (Cb l) (X j))))))))).
  { apply fscal_proper. apply fsum_ext; intros k _. apply fsum_ext; intros l _.
    rewrite (comm_wsum_r d n (Cb l)). rewrite (comm_wsum_r d n (Cb k)). rewrite fsum_fscal.
    apply fsum_ext; intros j _. apply fscal_comm. }
  transitivity (fscal (rcx (- / 2)) (fsum n (fun j => fsum n (fun k => fsum n (fun l =>
     fscal (w j) (fscal (rcx (rmget RO G k l)) (cm (Cb k) (cm (Cb l) (X j))))))))).
  { apply fscal_proper.
    rewrite (fsum_ext d n (fun k => fsum n (fun l => fsum n (fun j =>
               fscal (w j) (fscal (rcx (rmget RO G k l)) (cm (Cb k) (cm (Cb l) (X j)))))))
             (fun k => fsum n (fun j => fsum n (fun l =>
               fscal (w j) (fscal (rcx (rmget RO G k l)) (cm (Cb k) (cm (Cb l) (X j))))))))
      by (intros; apply fsum_swap).
    apply fsum_swap. }
  rewrite fsum_fscal. apply fsum_ext; intros j _.
  rewrite fscal_comm. apply fscal_proper.
  rewrite fsum_fscal. apply fsum_ext; intros k _. rewrite fsum_fscal. reflexivity.
Qed.

(* K1_ij = tr( C_i Lgen(C_j) ) *)
Lemma K1_as_Lgen i j : K1_entry RO n (T4 d Cb) G i j = ftr d (Cb i ** Lgen (Cb j)).
Proof.
  rewrite K1_commutator_form. unfold Lgen.
  rewrite fmul_fscal_r, ftr_fscal.
  rewrite (ftr_mul_wsum d n (Cb i) (fun _ => 1c) (fun k => fsum n (fun l => fscal (rcx (rmget RO G k l)) (cm (Cb k) (cm (Cb l) (Cb j)))))) || idtac.
  assert (E : ftr d (Cb i ** fsum n (fun k => fsum n (fun l => fscal (rcx (rmget RO G k l)) (cm (Cb k) (cm (Cb l) (Cb j)))))) =
              contract RO n G (fun k l => ftr d (Cb i ** cm (Cb k) (cm (Cb l) (Cb j))))).
  { rewrite fmul_fsum_r, ftr_fsum. unfold contract. apply csumn_ext. intros k _.
    rewrite fmul_fsum_r, ftr_fsum. apply csumn_ext. intros l _.
    rewrite fmul_fscal_r, ftr_fscal. unfold rcx. apply c_eq; csimp; ring. }
  rewrite E. unfold half, rcx. generalize (contract RO n G (fun k l => ftr d (Cb i ** cm (Cb k) (cm (Cb l) (Cb j))))).
  intros [x y]. apply c_eq; csimp; field.
Qed.

(* tr( C_i [C_k,[C_l,C_j]] ) is real for a Hermitian basis, so K1 is real *)
Lemma T4_conj a b c e : (a < n)%nat -> (b < n)%nat -> (c < n)%nat -> (e < n)%nat ->
  cconj' (T4 d Cb a b c e) = T4 d Cb e c b a.
Proof.
  intros Ha Hb Hc He. unfold T4. rewrite <- ftr_adj.
  rewrite !fadj_mul. pose proof (Hherm a Ha) as H1. pose proof (Hherm b Hb) as H2.
  pose proof (Hherm c Hc) as H3. pose proof (Hherm e He) as H4. unfold fherm in *.
  rewrite H1, H2, H3, H4. reflexivity.
Qed.
Lemma double_comm_real i j k l : (i < n)%nat -> (j < n)%nat -> (k < n)%nat -> (l < n)%nat ->
  snd (ftr d (Cb i ** cm (Cb k) (cm (Cb l) (Cb j)))) = 0.
Proof.
  intros Hi Hj Hk Hl.
  assert (E : cconj' (ftr d (Cb i ** cm (Cb k) (cm (Cb l) (Cb j)))) = ftr d (Cb i ** cm (Cb k) (cm (Cb l) (Cb j)))).
  { rewrite double_comm_traces. rewrite cconj_add.
    assert (Hs : forall x y : Cx, cconj' (csub' x y) = csub' (cconj' x) (cconj' y)) by (intros; apply c_eq; csimp; ring).
    rewrite !Hs. rewrite !T4_conj by auto.
    (* T(i j l k) - T(i l j k) ... after cyclic rotation the same four traces *)
    rewrite (T4_cyclic d Cb i j l k), (T4_cyclic d Cb j l k i), (T4_cyclic d Cb l k i j).
    rewrite (T4_cyclic d Cb i l j k), (T4_cyclic d Cb l j k i), (T4_cyclic d Cb j k i l).
    rewrite (T4_cyclic d Cb j l i k), (T4_cyclic d Cb l i k j), (T4_cyclic d Cb i k j l).
    rewrite (T4_cyclic d Cb l j i k), (T4_cyclic d Cb j i k l), (T4_cyclic d Cb i k l j).
    ring. }
  destruct (ftr d (Cb i ** cm (Cb k) (cm (Cb l) (Cb j)))) as [x y]. unfold cconj in E. simpl in *. injection E. intros. lra.
Qed.
Lemma K1_real i j : (i < n)%nat -> (j < n)%nat -> snd (K1_entry RO n (T4 d Cb) G i j) = 0.
Proof.
  intros Hi Hj. rewrite K1_commutator_form.
  assert (E : snd (contract RO n G (fun k l => ftr d (Cb i ** cm (Cb k) (cm (Cb l) (Cb j))))) = 0).
  { unfold contract. rewrite csumn_im. rewrite (sumn_ext n _ (fun _ => 0)). apply sumn_0.
    intros k Hk. rewrite csumn_im. rewrite (sumn_ext n _ (fun _ => 0)). apply sumn_0.
    intros l Hl. csimp. rewrite double_comm_real by auto. ring. }
  unfold half. destruct (contract RO n G (fun k l => ftr d (Cb i ** cm (Cb k) (cm (Cb l) (Cb j))))) as [x y].
  simpl in *. subst. csimp. field.
Qed.

(* ---------- Choi entries of the real cumulant function ---------- *)
Definition Kre (i j : nat) : R := fst (K1_entry RO n (T4 d Cb) G i j).
(* choi_(a c),(b e) = sum_ij K_ij (C_j)_ba (C_i)_ce  =  ( Lgen(|a><b|) )_ce *)
Lemma choi_entry_Lgen a c b e : (a < d)%nat -> (c < d)%nat -> (b < d)%nat -> (e < d)%nat ->
  csumn' n (fun i => csumn' n (fun j => cscal RO (Kre i j) (cmul' (Cb j b a) (Cb i c e)))) = Lgen (funit a b) c e.
Proof.
  intros Ha Hc Hb He.
  rewrite (csumn_ext n _ (fun i => csumn' n (fun j => cmul' (Cb j b a) (cmul' (ftr d (Cb i ** Lgen (Cb j))) (Cb i c e))))).
  2:{ intros i Hi. apply csumn_ext. intros j Hj. unfold Kre. pose proof (K1_real i j Hi Hj) as Hr.
      rewrite <- K1_as_Lgen. destruct (K1_entry RO n (T4 d Cb) G i j) as [x y]. simpl in Hr. subst.
      apply c_eq; csimp; ring. }
  rewrite csumn_swap.
  rewrite (csumn_ext n _ (fun j => cmul' (Cb j b a) (Lgen (Cb j) c e))).
  2:{ intros j _. rewrite csumn_mul_l. rewrite basis_expansion by auto. reflexivity. }
  rewrite <- (Lgen_proper _ _ (unit_expansion a b Ha Hb) c e Hc He).
  rewrite (Lgen_wsum (fun j => Cb j b a) Cb c e Hc He). unfold fsum, fscal. reflexivity.
Qed.

(* entries of the double commutator with a matrix unit *)
Definition dlt (x y : nat) : Cx := if Nat.eqb x y then 1c else 0c.
Lemma fmul_funit_r A a b c e : (a < d)%nat -> (A ** funit a b) c e = cmul' (A c a) (dlt b e).
Proof.
  intros Ha. unfold fmul, funit, dlt.
  rewrite (csumn_ext d _ (fun x => if Nat.eqb a x then (if Nat.eqb e b then A c x else 0c) else 0c)).
  rewrite (csumn_delta d a (fun x => if Nat.eqb e b then A c x else 0c)) by auto.
  rewrite (Nat.eqb_sym b e). destruct (Nat.eqb e b); ring.
  intros x _. rewrite (Nat.eqb_sym a x). destruct (Nat.eqb x a), (Nat.eqb e b); simpl; ring.
Qed.
Lemma fmul_funit_l B a b c e : (b < d)%nat -> (funit a b ** B) c e = cmul' (dlt c a) (B b e).
Proof.
  intros Hb. unfold fmul, funit, dlt.
  rewrite (csumn_ext d _ (fun x => if Nat.eqb b x then (if Nat.eqb c a then B x e else 0c) else 0c)).
  rewrite (csumn_delta d b (fun x => if Nat.eqb c a then B x e else 0c)) by auto.
  destruct (Nat.eqb c a); ring.
  intros x _. rewrite (Nat.eqb_sym b x). destruct (Nat.eqb c a), (Nat.eqb x b); simpl; ring.
Qed.
Lemma double_comm_unit k l a b c e : (a < d)%nat -> (b < d)%nat -> (c < d)%nat -> (e < d)%nat ->
  cm (Cb k) (cm (Cb l) (funit a b)) c e =
  cadd' (csub' (csub' (cmul' ((Cb k ** Cb l) c a) (dlt b e)) (cmul' (Cb k c a) (Cb l b e)))
               (cmul' (Cb l c a) (Cb k b e)))
        (cmul' (dlt c a) ((Cb l ** Cb k) b e)).
Proof.
  intros Ha Hb Hc He. unfold comm.
  assert (E : feq d (fsub (Cb k ** fsub (Cb l ** funit a b) (funit a b ** Cb l)) (fsub (Cb l ** funit a b) (funit a b ** Cb l) ** Cb k))
                    (fadd (fsub (fsub ((Cb k ** Cb l) ** funit a b) ((Cb k ** funit a b) ** Cb l)) ((Cb l ** funit a b) ** Cb k))
                          (funit a b ** (Cb l ** Cb k)))).
  { rewrite fmul_fsub_r, fmul_fsub_l. rewrite !fmul_assoc.
    intros x y _ _. unfold fsub, fadd. ring. }
  rewrite (E c e Hc He). unfold fadd, fsub.
  rewrite fmul_funit_r by auto. rewrite fmul_funit_l by auto.
  rewrite (fmul_funit d (Cb k) a b (Cb l) c e Ha Hb). rewrite (fmul_funit d (Cb l) a b (Cb k) c e Ha Hb).
  reflexivity.
Qed.

(* ---------- the Choi form on a traceless V ---------- *)
Variable V : nat -> nat -> Cx.
Hypothesis HV : csumn' d (fun a => V a a) = 0c.

Definition Phi (M : nat -> nat -> nat -> nat -> Cx) : Cx :=
  csumn' d (fun a => csumn' d (fun b => csumn' d (fun c => csumn' d (fun e =>
    cmul' (cmul' (cconj' (V a c)) (M a b c e)) (V b e))))).
Lemma Phi_ext M M' : (forall a b c e, (a < d)%nat -> (b < d)%nat -> (c < d)%nat -> (e < d)%nat -> M a b c e = M' a b c e) ->
  Phi M = Phi M'.
Proof.
  intros H. unfold Phi. apply csumn_ext. intros a Ha. apply csumn_ext. intros b Hb.
  apply csumn_ext. intros c Hc. apply csumn_ext. intros e He. rewrite H by auto. reflexivity.
Qed.
Lemma Phi_sum m (F : nat -> nat -> nat -> nat -> nat -> Cx) :
  Phi (fun a b c e => csumn' m (fun k => F k a b c e)) = csumn' m (fun k => Phi (F k)).
Proof.
  unfold Phi.
  rewrite (csumn_ext d _ (fun a => csumn' m (fun k => csumn' d (fun b => csumn' d (fun c => csumn' d (fun e =>
      cmul' (cmul' (cconj' (V a c)) (F k a b c e)) (V b e))))))).
  apply csumn_swap.
  intros a _.
  rewrite (csumn_ext d _ (fun b => csumn' m (fun k => csumn' d (fun c => csumn' d (fun e =>
      cmul' (cmul' (cconj' (V a c)) (F k a b c e)) (V b e)))))).
  apply csumn_swap.
  intros b _.
  rewrite (csumn_ext d _ (fun c => csumn' m (fun k => csumn' d (fun e =>
      cmul' (cmul' (cconj' (V a c)) (F k a b c e)) (V b e))))).
  apply csumn_swap.
  intros c _.
  rewrite (csumn_ext d _ (fun e => csumn' m (fun k => cmul' (cmul' (cconj' (V a c)) (F k a b c e)) (V b e)))).
  apply csumn_swap.
  intros e _. rewrite <- csumn_mul_l, <- csumn_mul_r. reflexivity.
Qed.
Lemma Phi_scal z M : Phi (fun a b c e => cmul' z (M a b c e)) = cmul' z (Phi M).
Proof.
  unfold Phi. rewrite <- csumn_mul_l. apply csumn_ext. intros a _. rewrite <- csumn_mul_l. apply csumn_ext. intros b _.
  rewrite <- csumn_mul_l. apply csumn_ext. intros c _. rewrite <- csumn_mul_l. apply csumn_ext. intros e _. ring.
Qed.
Lemma Phi_add M M' : Phi (fun a b c e => cadd' (M a b c e) (M' a b c e)) = cadd' (Phi M) (Phi M').
Proof.
  unfold Phi. rewrite <- csumn_add. apply csumn_ext. intros a _. rewrite <- csumn_add. apply csumn_ext. intros b _.
  rewrite <- csumn_add. apply csumn_ext. intros c _. rewrite <- csumn_add. apply csumn_ext. intros e _. ring.
Qed.
Lemma Phi_sub M M' : Phi (fun a b c e => csub' (M a b c e) (M' a b c e)) = csub' (Phi M) (Phi M').
Proof.
  unfold Phi. rewrite <- csumn_sub. apply csumn_ext. intros a _. rewrite <- csumn_sub. apply csumn_ext. intros b _.
  rewrite <- csumn_sub. apply csumn_ext. intros c _. rewrite <- csumn_sub. apply csumn_ext. intros e _. ring.
Qed.
(* product kernels factor *)
Lemma Phi_product (A B : nat -> nat -> Cx) :
  Phi (fun a b c e => cmul' (A c a) (B b e)) =
  cmul' (csumn' d (fun a => csumn' d (fun c => cmul' (cconj' (V a c)) (A c a))))
        (csumn' d (fun b => csumn' d (fun e => cmul' (B b e) (V b e)))).
Proof.
  unfold Phi. rewrite <- csumn_mul_r. apply csumn_ext. intros a _.
  rewrite (csumn_ext d _ (fun b => csumn' d (fun c => cmul' (cmul' (cconj' (V a c)) (A c a)) (csumn' d (fun e => cmul' (B b e) (V b e)))))).
  2:{ intros b _. apply csumn_ext. intros c _. rewrite <- csumn_mul_l. apply csumn_ext. intros e _. ring. }
  rewrite csumn_swap. rewrite <- csumn_mul_r. apply csumn_ext. intros c _.
  rewrite <- csumn_mul_l. reflexivity.
Qed.

Definition pvec (k : nat) : Cx := csumn' d (fun a => csumn' d (fun c => cmul' (cconj' (V a c)) (Cb k c a))).
Lemma qvec_conj k : (k < n)%nat ->
  csumn' d (fun b => csumn' d (fun e => cmul' (Cb k b e) (V b e))) = cconj' (pvec k).
Proof.
  intros Hk. unfold pvec. rewrite csumn_conj. apply csumn_ext. intros b Hb. rewrite csumn_conj.
  apply csumn_ext. intros e He. rewrite cconj_mul, cconj_invol.
  pose proof (Hherm k Hk b e Hb He) as H. unfold fadj in H. rewrite H. ring.
Qed.

Lemma Phi_delta_right (A : nat -> nat -> Cx) : Phi (fun a b c e => cmul' (A c a) (dlt b e)) = 0c.
Proof.
  rewrite Phi_product.
  replace (csumn' d (fun b => csumn' d (fun e => cmul' (dlt b e) (V b e)))) with 0c. ring.
  rewrite <- HV. apply csumn_ext. intros b Hb. unfold dlt.
  rewrite (csumn_ext d _ (fun e => if Nat.eqb b e then V b e else 0c)).
  rewrite (csumn_delta d b (fun e => V b e)) by auto. reflexivity.
  intros e _. destruct (Nat.eqb b e); ring.
Qed.
Lemma Phi_delta_left (B : nat -> nat -> Cx) : Phi (fun a b c e => cmul' (dlt c a) (B b e)) = 0c.
Proof.
  rewrite Phi_product.
  replace (csumn' d (fun a => csumn' d (fun c => cmul' (cconj' (V a c)) (dlt c a)))) with 0c. ring.
  rewrite <- cconj_0, <- HV, csumn_conj. apply csumn_ext. intros a Ha. unfold dlt.
  rewrite (csumn_ext d _ (fun c => if Nat.eqb a c then cconj' (V a c) else 0c)).
  rewrite (csumn_delta d a (fun c => cconj' (V a c))) by auto. reflexivity.
  intros c _. rewrite (Nat.eqb_sym c a). destruct (Nat.eqb a c); ring.
Qed.

(* the Choi form of the cumulant function on V *)
Theorem choi_form_value :
  Phi (fun a b c e => csumn' n (fun i => csumn' n (fun j => cscal RO (Kre i j) (cmul' (Cb j b a) (Cb i c e))))) =
  cmul' (rcx (/ 2)) (csumn' n (fun k => csumn' n (fun l =>
     cmul' (rcx (rmget RO G k l)) (cadd' (cmul' (pvec k) (cconj' (pvec l))) (cmul' (pvec l) (cconj' (pvec k))))))).
Proof.
  rewrite (Phi_ext _ (fun a b c e => cmul' (rcx (- / 2)) (csumn' n (fun k => csumn' n (fun l =>
     cmul' (rcx (rmget RO G k l))
       (cadd' (csub' (csub' (cmul' ((Cb k ** Cb l) c a) (dlt b e)) (cmul' (Cb k c a) (Cb l b e)))
                     (cmul' (Cb l c a) (Cb k b e)))
              (cmul' (dlt c a) ((Cb l ** Cb k) b e)))))))).
  2:{ intros a b c e Ha Hb Hc He. rewrite choi_entry_Lgen by auto. unfold Lgen, fscal, fsum.
      f_equal. apply csumn_ext. intros k _. apply csumn_ext. intros l _. f_equal.
      apply double_comm_unit; auto. }
  rewrite Phi_scal, Phi_sum.
  rewrite (csumn_ext n _ (fun k => csumn' n (fun l => cmul' (rcx (rmget RO G k l))
      (cneg' (cadd' (cmul' (pvec k) (cconj' (pvec l))) (cmul' (pvec l) (cconj' (pvec k)))))))).
  2:{ intros k Hk. rewrite Phi_sum. apply csumn_ext. intros l Hl. rewrite Phi_scal. f_equal.
      rewrite Phi_add, !Phi_sub.
      rewrite Phi_delta_right, Phi_delta_left. rewrite !Phi_product. rewrite !qvec_conj by auto.
      fold (pvec k). fold (pvec l). ring. }
  set (S := csumn' n (fun k => csumn' n (fun l => cmul' (rcx (rmget RO G k l))
               (cadd' (cmul' (pvec k) (cconj' (pvec l))) (cmul' (pvec l) (cconj' (pvec k))))))).
  assert (E2 : csumn' n (fun k => csumn' n (fun l => cmul' (rcx (rmget RO G k l))
                 (cneg' (cadd' (cmul' (pvec k) (cconj' (pvec l))) (cmul' (pvec l) (cconj' (pvec k))))))) = cneg' S).
  { unfold S. rewrite <- csumn_neg. apply csumn_ext; intros k _. rewrite <- csumn_neg. apply csumn_ext; intros l _. ring. }
  rewrite E2. unfold rcx. destruct S. apply c_eq; csimp; field.
Qed.

(* K_cCP: positive-semidefinite decay amplitudes => the form is real and non-negative *)
Definition rm_psd_form : Prop := forall x : nat -> R, 0 <= sumn' n (fun k => sumn' n (fun l => x k * rmget RO G k l * x l)).
Theorem K_cCP : rm_psd_form ->
  0 <= fst (Phi (fun a b c e => csumn' n (fun i => csumn' n (fun j => cscal RO (Kre i j) (cmul' (Cb j b a) (Cb i c e)))))).
Proof.
  intros Hpsd. rewrite choi_form_value.
  assert (E : fst (cmul' (rcx (/ 2)) (csumn' n (fun k => csumn' n (fun l =>
     cmul' (rcx (rmget RO G k l)) (cadd' (cmul' (pvec k) (cconj' (pvec l))) (cmul' (pvec l) (cconj' (pvec k)))))))) =
     sumn' n (fun k => sumn' n (fun l => fst (pvec k) * rmget RO G k l * fst (pvec l))) +
     sumn' n (fun k => sumn' n (fun l => snd (pvec k) * rmget RO G k l * snd (pvec l)))).
  { rewrite <- sumn_add. unfold rcx at 1. unfold cmul at 1. simpl fst. simpl snd.
    rewrite Rmult_0_l, Rminus_0_r. rewrite csumn_re, <- sumn_mul_l. apply sumn_ext. intros k _.
    rewrite <- sumn_add. rewrite csumn_re, <- sumn_mul_l. apply sumn_ext. intros l _.
    unfold rcx. destruct (pvec k), (pvec l). csimp. field. }
  rewrite E. apply Rplus_le_le_0_compat; apply Hpsd.
Qed.

End CCP.

(* ---------- the same statement about the model's own functions ---------- *)
Section ModelCCP.
Variable d : nat.
Variable basis : list MatR.
Let n := length basis.
Let Cb : nat -> fmat := fun k => toF (nthm basis k).
Hypothesis Hherm : basis_herm d n Cb.
Hypothesis Hcomp : basis_complete d n Cb.

Lemma K1_entry_ext m Tr Tr' (G : RMr) i j :
  (forall p q r s, (p < m)%nat -> (q < m)%nat -> (r < m)%nat -> (s < m)%nat -> Tr p q r s = Tr' p q r s) ->
  (i < m)%nat -> (j < m)%nat -> K1_entry RO m Tr G i j = K1_entry RO m Tr' G i j.
Proof.
  intros H Hi Hj. unfold K1_entry.
  rewrite (contract_ext m G (fun k l => Tr k l j i) (fun k l => Tr' k l j i)) by (intros; apply H; auto).
  rewrite (contract_ext m G (fun k l => Tr k j l i) (fun k l => Tr' k j l i)) by (intros; apply H; auto).
  rewrite (contract_ext m G (fun k l => Tr k i l j) (fun k l => Tr' k i l j)) by (intros; apply H; auto).
  rewrite (contract_ext m G (fun k l => Tr k i j l) (fun k l => Tr' k i j l)) by (intros; apply H; auto).
  reflexivity.
Qed.

(* K_cCP for the model: first-order cumulant function of the general branch, its Choi entries as
   computed by liouville_to_choi, any V orthogonal to the maximally entangled state *)
Theorem model_K_cCP (G D : RMr) (V : nat -> nat -> Cx) :
  rm_psd_form n G -> csumn' d (fun a => V a a) = 0c ->
  let K := cumulant_general RO n (four_traces_arr RO d (pair_products RO d basis) n) false G D in
  0 <= fst (csumn' d (fun a => csumn' d (fun b => csumn' d (fun c => csumn' d (fun e =>
         cmul' (cmul' (cconj' (V a c)) (choi_entry RO n K basis a c b e)) (V b e)))))).
Proof.
  intros Hpsd HV K.
  pose proof (K_cCP d n Cb Hherm Hcomp G V HV Hpsd) as H.
  unfold Phi in H.
  replace (csumn' d (fun a => csumn' d (fun b => csumn' d (fun c => csumn' d (fun e =>
            cmul' (cmul' (cconj' (V a c)) (choi_entry RO n K basis a c b e)) (V b e))))))
    with (csumn' d (fun a => csumn' d (fun b => csumn' d (fun c => csumn' d (fun e =>
            cmul' (cmul' (cconj' (V a c))
              (csumn' n (fun i => csumn' n (fun j => cscal RO (Kre d n Cb G i j) (cmul' (Cb j b a) (Cb i c e)))))) (V b e)))))).
  exact H.
  apply csumn_ext; intros a _. apply csumn_ext; intros b _. apply csumn_ext; intros c _. apply csumn_ext; intros e _.
  f_equal. f_equal. unfold choi_entry. apply csumn_ext; intros i Hi. apply csumn_ext; intros j Hj.
  f_equal. unfold K, cumulant_general, rmget, rmbuild. rewrite !nth_build by auto.
  unfold cumulant_general_fn, Kre, cre. f_equal.
  apply K1_entry_ext; auto. intros. symmetry. apply (a4get_four_traces d basis); auto.
Qed.
End ModelCCP.

Example psd_form_example : rm_psd_form 4 [[0;0;0;0];[0;1;0;0];[0;0;1;0];[0;0;0;1]].
Proof. intros x. unfold rmget. simpl. nra. Qed.
