(* C08, part 2: the trace of the (general-branch) cumulant function and the infidelity.
   For a complete orthonormal Hermitian basis:
     - tr K = -( d sum_k Gamma_kk - sum_kl Gamma_kl tr C_k tr C_l )
     - infidelity, non-traceless branch  = - tr K / d^2
     - infidelity, traceless branch      = - tr K / d^2 + (1/d^2) sum_kl Gamma_kl tr C_k tr C_l
       (the excess is the identity component of the noise operator; it vanishes iff that
        component does -- refuted as an identity, see [traceless_branch_refuted]).        *)
From Coq Require Import ZArith Reals List Lra Lia Bool Setoid Morphisms.
From FF Require Import Base.Ops Inst.RInst Base.RAlg Base.FMat Model.Numeric Model.Decay Model.Cumulant
     Proofs.Trapz Proofs.Decay Proofs.DecayPrefix.
Import ListNotations.
Local Open Scope R_scope.

Notation MatR := (Mat (T:=R)).
Notation RMr := (RM (T:=R)).

Lemma dnat_INR n : dnat RO n = INR n.
Proof. induction n. reflexivity. rewrite S_INR. simpl. rewrite IHn. reflexivity. Qed.

(* ---------- sums ---------- *)
Lemma contract_sum m n (G : RMr) (F : nat -> nat -> nat -> Cx) :
  csumn' m (fun i => contract RO n G (F i)) = contract RO n G (fun k l => csumn' m (fun i => F i k l)).
Proof.
  unfold contract. rewrite csumn_swap. apply csumn_ext. intros k _.
  rewrite csumn_swap. apply csumn_ext. intros l _. rewrite csumn_scal. reflexivity.
Qed.
Lemma contract_ext n (G : RMr) f g : (forall k l, (k < n)%nat -> (l < n)%nat -> f k l = g k l) ->
  contract RO n G f = contract RO n G g.
Proof. intros H. unfold contract. apply csumn_ext. intros k Hk. apply csumn_ext. intros l Hl. rewrite H; auto. Qed.
Lemma half_sum m (f : nat -> Cx) : csumn' m (fun i => half RO (f i)) = half RO (csumn' m f).
Proof. induction m. simpl. unfold half. apply c_eq; csimp; field. rewrite !csumn_S, IHm. unfold half. apply c_eq; csimp; field. Qed.

Lemma sumn_sub n (f g : nat -> R) : sumn' n f - sumn' n g = sumn' n (fun k => f k - g k).
Proof. induction n; simpl. ring. rewrite <- IHn. ring. Qed.

Lemma cdivr_swap (X S : Cx) (r : R) : cmul' (cdivr RO X r) S = cmul' (cdivr RO S r) X.
Proof. destruct X, S. apply c_eq; csimp; unfold Rdiv; ring. Qed.

Section TraceIdentity.
Variable d : nat.
Variable basis : list MatR.
Let n := length basis.
Let Cb : nat -> fmat := fun k => toF (nthm basis k).
Hypothesis Hd : (0 < d)%nat.
Hypothesis Hherm : basis_herm d n Cb.
Hypothesis Honb : basis_orthonormal d n Cb.
Hypothesis Hcomp : basis_complete d n Cb.

Let P := pair_products RO d basis.

Lemma pp_get_lt i j : (i < n)%nat -> (j < n)%nat -> pp_get P i j = mmul RO d (nthm basis i) (nthm basis j).
Proof.
  intros Hi Hj. unfold pp_get, P, pair_products, nthm.
  rewrite (nth_map_lt _ basis i [] []) by auto. cbv beta.
  etransitivity; [apply (nth_map_lt _ basis j [] []); auto | reflexivity].
Qed.
Lemma four_trace_T4 i j k l : (i < n)%nat -> (j < n)%nat -> (k < n)%nat -> (l < n)%nat ->
  four_trace RO d P i j k l = T4 d Cb i j k l.
Proof.
  intros. unfold four_trace. rewrite !pp_get_lt by auto. rewrite mtrprod_ftr.
  rewrite !toF_mmul. reflexivity.
Qed.
Lemma a4get_four_traces i j k l : (i < n)%nat -> (j < n)%nat -> (k < n)%nat -> (l < n)%nat ->
  a4get RO (four_traces_arr RO d P n) i j k l = T4 d Cb i j k l.
Proof. intros. unfold a4get, four_traces_arr. rewrite !nth_build by auto. apply four_trace_T4; auto. Qed.

(* traces of the basis elements are real *)
Definition trb (k : nat) : R := fst (tC d Cb k).
Lemma tC_real k : (k < n)%nat -> tC d Cb k = (trb k, 0).
Proof. intros Hk. unfold trb. pose proof (ftr_herm_real d (Cb k) (Hherm k Hk)) as H.
  unfold tC in *. destruct (ftr d (Cb k)); simpl in *; subst; reflexivity. Qed.
Definition delta (k l : nat) : R := if Nat.eqb k l then 1 else 0.
Lemma onb_delta k l : (k < n)%nat -> (l < n)%nat -> ftr d (fmul d (Cb k) (Cb l)) = (delta k l, 0).
Proof. intros. rewrite Honb by auto. unfold delta. destruct (Nat.eqb k l); reflexivity. Qed.

(* traces_diag_kl = d delta_kl - tr C_k tr C_l  (a real number) *)
Definition tdr (k l : nat) : R := INR d * delta k l - trb k * trb l.
Lemma traces_diag_value k l : (k < n)%nat -> (l < n)%nat -> traces_diag d P n k l = (tdr k l, 0).
Proof.
  intros Hk Hl. unfold traces_diag.
  rewrite (csumn_ext n _ (fun i => T4 d Cb k l i i)) by (intros; apply four_trace_T4; auto).
  rewrite (csumn_ext n (fun i => four_trace RO d P k i l i) (fun i => T4 d Cb k i l i)) by (intros; apply four_trace_T4; auto).
  rewrite (T4_sum_klii d n Cb Hcomp), (T4_sum_kili d n Cb Hcomp).
  rewrite onb_delta, !tC_real by auto. unfold tdr, cnat. apply c_eq; csimp; ring.
Qed.
Lemma nth_traces_diag_arr k l : (k < n)%nat -> (l < n)%nat ->
  nth l (nth k (traces_diag_arr d P n) []) 0c = (tdr k l, 0).
Proof. intros. unfold traces_diag_arr. rewrite !nth_build by auto. apply traces_diag_value; auto. Qed.

(* ---------- trace of the first-order cumulant function (general branch) ---------- *)
Definition trG (G : RMr) : R := sumn' n (fun k => rmget RO G k k).
Definition GT (G : RMr) : R := sumn' n (fun k => sumn' n (fun l => rmget RO G k l * (trb k * trb l))).

Lemma contract_real (G : RMr) (f : nat -> nat -> Cx) (r : nat -> nat -> R) :
  (forall k l, (k < n)%nat -> (l < n)%nat -> f k l = (r k l, 0)) ->
  contract RO n G f = (sumn' n (fun k => sumn' n (fun l => rmget RO G k l * r k l)), 0).
Proof.
  intros H. unfold contract. apply c_eq.
  - rewrite csumn_re. apply sumn_ext. intros k Hk. rewrite csumn_re. apply sumn_ext. intros l Hl.
    rewrite H by auto. csimp. reflexivity.
  - rewrite csumn_im. simpl. rewrite (sumn_ext n _ (fun _ => 0)). apply sumn_0.
    intros k Hk. rewrite csumn_im. rewrite (sumn_ext n _ (fun _ => 0)). apply sumn_0.
    intros l Hl. rewrite H by auto. csimp. ring.
Qed.
Lemma sum_delta (G : RMr) : sumn' n (fun k => sumn' n (fun l => rmget RO G k l * (INR d * delta k l))) = INR d * trG G.
Proof.
  unfold trG. rewrite <- sumn_mul_l. apply sumn_ext. intros k Hk.
  rewrite (sumn_ext n _ (fun l => if Nat.eqb k l then INR d * rmget RO G k l else 0)).
  apply (sumn_delta n k (fun l => INR d * rmget RO G k l)); auto.
  intros l _. unfold delta. destruct (Nat.eqb k l); ring.
Qed.
Lemma sum_delta' (G : RMr) : sumn' n (fun k => sumn' n (fun l => rmget RO G k l * (INR d * delta l k))) = INR d * trG G.
Proof.
  rewrite <- sum_delta. apply sumn_ext. intros k _. apply sumn_ext. intros l _.
  unfold delta. rewrite (Nat.eqb_sym l k). reflexivity.
Qed.

Let Tr := a4get RO (four_traces_arr RO d P n).

Lemma K1_trace (G : RMr) :
  csumn' n (fun i => K1_entry RO n Tr G i i) = (- (INR d * trG G - GT G), 0).
Proof.
  unfold K1_entry. rewrite csumn_neg, half_sum.
  rewrite csumn_add, !csumn_sub. rewrite !contract_sum.
  rewrite (contract_real G _ (fun k l => INR d * delta k l)).
  2:{ intros k l Hk Hl. rewrite (csumn_ext n _ (fun i => T4 d Cb k l i i)) by (intros; apply a4get_four_traces; auto).
      rewrite (T4_sum_klii d n Cb Hcomp), onb_delta by auto. unfold cnat. apply c_eq; csimp; ring. }
  rewrite (contract_real G (fun k l => csumn' n (fun i => Tr k i l i)) (fun k l => trb k * trb l)).
  2:{ intros k l Hk Hl. rewrite (csumn_ext n _ (fun i => T4 d Cb k i l i)) by (intros; apply a4get_four_traces; auto).
      rewrite (T4_sum_kili d n Cb Hcomp), !tC_real by auto. apply c_eq; csimp; ring. }
  rewrite (contract_real G (fun k l => csumn' n (fun i => Tr k i i l)) (fun k l => INR d * delta l k)).
  2:{ intros k l Hk Hl. rewrite (csumn_ext n _ (fun i => T4 d Cb k i i l)) by (intros; apply a4get_four_traces; auto).
      rewrite (T4_sum_kiil d n Cb Hcomp), onb_delta by auto. unfold cnat. apply c_eq; csimp; ring. }
  rewrite sum_delta, sum_delta'. fold (GT G).
  unfold half. apply c_eq; csimp; field.
Qed.

(* trace_identity *)
Theorem trace_identity (G Dl : RMr) :
  sumn' n (fun i => cumulant_general_fn RO n Tr false G Dl i i) = - (INR d * trG G - GT G).
Proof.
  unfold cumulant_general_fn. rewrite <- (cre_csumn n (fun i => K1_entry RO n Tr G i i)).
  rewrite K1_trace. reflexivity.
Qed.

(* ---------- infidelity ---------- *)
Variables (na nk no : nat) (Bm : A3r) (idx : list nat) (sp : spectrumR) (omega : list R).
Hypothesis Hnk : nk = n.
Hypothesis Hidx : idx_ok na idx.
Hypothesis Hom : length omega = no.

Let Gam i j : RMr := rmbuild nk nk (fun k l => Gamma Bm Bm idx sp no omega i j k l).
Lemma rmget_Gam i j k l : (k < n)%nat -> (l < n)%nat -> rmget RO (Gam i j) k l = Gamma Bm Bm idx sp no omega i j k l.
Proof. intros. unfold Gam, rmget, rmbuild. rewrite Hnk, !nth_build by auto. reflexivity. Qed.

Lemma nth_infid_of_ff F i j : (i < length idx)%nat -> (j < length idx)%nat -> (is_cross sp = false -> i = j) ->
  nth (lead_pos sp (length idx) i j) (infid_of_ff RO d F idx sp no omega) 0 =
  trapz_w no (integrand_fid RO F idx sp i j) omega / (2 * PI * INR d).
Proof.
  intros Hi Hj Hc. unfold infid_of_ff.
  rewrite (nth_map_lt _ (leads sp (length idx)) _ (0,0)%nat) by (apply lead_pos_lt; auto).
  rewrite nth_leads by auto. simpl. rewrite trapz_build by auto. rewrite dnat_INR. reflexivity.
Qed.

(* the integrand of Gamma_{(i,j),kl} *)
Let gint i j k l o : R :=
  fst (cmul' (cmul' (cconj' (a3get RO Bm (sel idx i) k o)) (spec_at RO sp i j o)) (a3get RO Bm (sel idx j) l o)).
Lemma Gamma_gint i j k l : Gamma Bm Bm idx sp no omega i j k l = trapz_w no (gint i j k l) omega / (2 * PI).
Proof. reflexivity. Qed.

(* ---------- the infidelity of the package (after fix 2891db3): rank-one corrected filter function ---------- *)
(* entry of the basis-trace list *)
Lemma nth_basis_traces k : (k < n)%nat -> nth k (basis_traces RO d basis nk) 0c = (trb k, 0).
Proof. intros Hk. unfold basis_traces. rewrite Hnk, nth_build by auto. unfold btrace. rewrite mtrace_ftr. apply (tC_real k Hk). Qed.

(* for ANY pair of control matrices (L, R): (L, R) = (B, B) for which='total', (B_g, B_h) for 'correlations' *)
Section PairLR.
Variables (Lm Rm : A3r).
Let GamLR i j : RMr := rmbuild nk nk (fun k l => Gamma Lm Rm idx sp no omega i j k l).
Lemma rmget_GamLR i j k l : (k < n)%nat -> (l < n)%nat -> rmget RO (GamLR i j) k l = Gamma Lm Rm idx sp no omega i j k l.
Proof. intros. unfold GamLR, rmget, rmbuild. rewrite Hnk, !nth_build by auto. reflexivity. Qed.
Let gintLR i j k l o : R :=
  fst (cmul' (cmul' (cconj' (a3get RO Lm (sel idx i) k o)) (spec_at RO sp i j o)) (a3get RO Rm (sel idx j) l o)).

(* the integrand of the corrected filter function: sum_k y_kk - (A S B)/d with real basis traces *)
Lemma corrected_integrand_form i j o : (sel idx i < na)%nat -> (sel idx j < na)%nat -> (o < no)%nat ->
  integrand_fid RO (infid_ff_corrected RO d na nk no Lm Rm (basis_traces RO d basis nk)) idx sp i j o =
  fst (csub' (csumn' n (fun k => cmul' (cmul' (cconj' (a3get RO Lm (sel idx i) k o)) (spec_at RO sp i j o)) (a3get RO Rm (sel idx j) k o)))
             (cdivr RO (cmul' (cmul' (csumn' n (fun k => cmul' (trb k, 0) (cconj' (a3get RO Lm (sel idx i) k o)))) (spec_at RO sp i j o))
                              (csumn' n (fun l => cmul' (trb l, 0) (a3get RO Rm (sel idx j) l o)))) (INR d))).
Proof.
  intros Hi Hj Ho. unfold integrand_fid, infid_ff_corrected.
  rewrite a3get_a3build by auto. rewrite dnat_INR, Hnk.
  rewrite (csumn_ext n (fun k => cmul' (nth k (basis_traces RO d basis n) 0c) (cconj' (a3get RO Lm (sel idx i) k o)))
                       (fun k => cmul' (trb k, 0) (cconj' (a3get RO Lm (sel idx i) k o))))
    by (intros k Hk; rewrite <- Hnk, nth_basis_traces by auto; reflexivity).
  rewrite (csumn_ext n (fun l => cmul' (nth l (basis_traces RO d basis n) 0c) (a3get RO Rm (sel idx j) l o))
                       (fun l => cmul' (trb l, 0) (a3get RO Rm (sel idx j) l o)))
    by (intros l Hl; rewrite <- Hnk, nth_basis_traces by auto; reflexivity).
  unfold cre. f_equal.
  set (S := spec_at RO sp i j o).
  set (X := csumn' n (fun k => cmul' (cconj' (a3get RO Lm (sel idx i) k o)) (a3get RO Rm (sel idx j) k o))).
  set (A := csumn' n (fun k => cmul' (trb k, 0) (cconj' (a3get RO Lm (sel idx i) k o)))).
  set (B := csumn' n (fun l => cmul' (trb l, 0) (a3get RO Rm (sel idx j) l o))).
  replace (csumn' n (fun k => cmul' (cmul' (cconj' (a3get RO Lm (sel idx i) k o)) S) (a3get RO Rm (sel idx j) k o))) with (cmul' X S)
    by (unfold X; rewrite <- csumn_mul_r; apply csumn_ext; intros; ring).
  destruct X, A, B, S. apply c_eq; csimp; unfold Rdiv; ring.
Qed.

Theorem corrected_entry i j :
  (i < length idx)%nat -> (j < length idx)%nat -> (is_cross sp = false -> i = j) ->
  nth (lead_pos sp (length idx) i j)
      (infid_of_ff RO d (infid_ff_corrected RO d na nk no Lm Rm (basis_traces RO d basis nk)) idx sp no omega) 0 =
  (INR d * trG (GamLR i j) - GT (GamLR i j)) / (INR d * INR d).
Proof.
  intros Hi Hj Hc. rewrite nth_infid_of_ff by auto.
  assert (Hd0 : INR d <> 0) by (apply not_0_INR; lia).
  assert (Hpi : 2 * PI <> 0) by (generalize PI_RGT_0; lra).
  assert (E : INR d * trG (GamLR i j) - GT (GamLR i j) =
              sumn' n (fun k => sumn' n (fun l => tdr k l * (trapz_w no (gintLR i j k l) omega / (2 * PI))))).
  { rewrite <- sum_delta. unfold GT. rewrite sumn_sub. apply sumn_ext. intros k Hk.
    rewrite sumn_sub. apply sumn_ext. intros l Hl.
    rewrite rmget_GamLR by auto. unfold Gamma. fold (gintLR i j k l). unfold tdr. ring. }
  rewrite E.
  rewrite (trapz_w_ext no _ (fun o => sumn' n (fun k => sumn' n (fun l => (tdr k l / INR d) * gintLR i j k l o)))).
  - rewrite trapz_w_sum.
    unfold Rdiv. rewrite <- !sumn_mul_r. apply sumn_ext. intros k _.
    rewrite trapz_w_sum. rewrite <- !sumn_mul_r. apply sumn_ext. intros l _.
    rewrite trapz_w_scal. field. split; auto. generalize PI_RGT_0; lra.
  - intros o Ho. unfold integrand_fid, infid_ff_corrected.
    rewrite a3get_a3build by (auto; apply Hidx; auto).
    rewrite dnat_INR, Hnk.
    set (S := spec_at RO sp i j o).
    (* the rank-one term with real traces *)
    rewrite (csumn_ext n (fun k => cmul' (nth k (basis_traces RO d basis n) 0c) (cconj' (a3get RO Lm (sel idx i) k o)))
                         (fun k => cmul' (trb k, 0) (cconj' (a3get RO Lm (sel idx i) k o))))
      by (intros k Hk; rewrite <- Hnk, nth_basis_traces by auto; reflexivity).
    rewrite (csumn_ext n (fun l => cmul' (nth l (basis_traces RO d basis n) 0c) (a3get RO Rm (sel idx j) l o))
                         (fun l => cmul' (trb l, 0) (a3get RO Rm (sel idx j) l o)))
      by (intros l Hl; rewrite <- Hnk, nth_basis_traces by auto; reflexivity).
    transitivity (fst (csumn' n (fun k => csumn' n (fun l =>
        cscal RO (tdr k l / INR d) (cmul' (cmul' (cconj' (a3get RO Lm (sel idx i) k o)) S) (a3get RO Rm (sel idx j) l o)))))).
    + unfold cre. f_equal.
      (* sum_kl (delta_kl - t_k t_l / d) conj(L_k) S R_l *)
      transitivity (csub' (csumn' n (fun k => cmul' (cmul' (cconj' (a3get RO Lm (sel idx i) k o)) S) (a3get RO Rm (sel idx j) k o)))
                          (cdivr RO (cmul' (cmul' (csumn' n (fun k => cmul' (trb k, 0) (cconj' (a3get RO Lm (sel idx i) k o)))) S)
                                           (csumn' n (fun l => cmul' (trb l, 0) (a3get RO Rm (sel idx j) l o)))) (INR d))).
      { set (X := csumn' n (fun k => cmul' (cconj' (a3get RO Lm (sel idx i) k o)) (a3get RO Rm (sel idx j) k o))).
        set (A := csumn' n (fun k => cmul' (trb k, 0) (cconj' (a3get RO Lm (sel idx i) k o)))).
        set (B := csumn' n (fun l => cmul' (trb l, 0) (a3get RO Rm (sel idx j) l o))).
        replace (csumn' n (fun k => cmul' (cmul' (cconj' (a3get RO Lm (sel idx i) k o)) S) (a3get RO Rm (sel idx j) k o))) with (cmul' X S)
          by (unfold X; rewrite <- csumn_mul_r; apply csumn_ext; intros; ring).
        destruct X, A, B, S. apply c_eq; csimp; field; auto. }
      assert (Hdiv : forall z : Cx, cdivr RO z (INR d) = cmul' (/ INR d, 0) z)
        by (intros [x y]; apply c_eq; csimp; field; auto).
      set (B := csumn' n (fun l => cmul' (trb l, 0) (a3get RO Rm (sel idx j) l o))).
      symmetry.
      rewrite (csumn_ext n _ (fun k => csub' (cmul' (cmul' (cconj' (a3get RO Lm (sel idx i) k o)) S) (a3get RO Rm (sel idx j) k o))
                 (cmul' (/ INR d, 0) (cmul' (cmul' (cmul' (trb k, 0) (cconj' (a3get RO Lm (sel idx i) k o))) S) B)))).
      2:{ intros k Hk.
          rewrite (csumn_ext n _ (fun l => csub'
             (if Nat.eqb k l then cmul' (cmul' (cconj' (a3get RO Lm (sel idx i) k o)) S) (a3get RO Rm (sel idx j) l o) else 0c)
             (cmul' (/ INR d, 0) (cmul' (cmul' (cmul' (trb k, 0) (cconj' (a3get RO Lm (sel idx i) k o))) S)
                                        (cmul' (trb l, 0) (a3get RO Rm (sel idx j) l o)))))).
          2:{ intros l _. unfold tdr, delta. destruct (Nat.eqb k l); apply c_eq; csimp; field; auto. }
          rewrite csumn_sub.
          rewrite (csumn_delta n k (fun l => cmul' (cmul' (cconj' (a3get RO Lm (sel idx i) k o)) S) (a3get RO Rm (sel idx j) l o))) by auto.
          rewrite csumn_mul_l, csumn_mul_l. reflexivity. }
      rewrite csumn_sub. f_equal.
      rewrite csumn_mul_l, Hdiv. f_equal. rewrite csumn_mul_r. f_equal. rewrite csumn_mul_r. reflexivity.
    + rewrite csumn_re. apply sumn_ext. intros k _. rewrite csumn_re. apply sumn_ext. intros l _.
      unfold gintLR, S. csimp. reflexivity.
Qed.

End PairLR.

(* which='total': the infidelity of noise pair (i,j) is (d sum_k Gamma_kk - sum_kl Gamma_kl tr C_k tr C_l)/d^2 *)
Theorem infidelity_entry i j :
  (i < length idx)%nat -> (j < length idx)%nat -> (is_cross sp = false -> i = j) ->
  nth (lead_pos sp (length idx) i j) (infidelity_total RO d na nk no Bm basis idx sp omega) 0 =
  (INR d * trG (Gam i j) - GT (Gam i j)) / (INR d * INR d).
Proof. intros. unfold infidelity_total. apply (corrected_entry Bm Bm); auto. Qed.

(* hence: infidelity = - tr K / d^2 with K the cumulant function of the same decay amplitudes,
   for EVERY complete orthonormal Hermitian basis, traceless or not *)
Theorem infidelity_is_cumulant_trace i j Dl :
  (i < length idx)%nat -> (j < length idx)%nat -> (is_cross sp = false -> i = j) ->
  nth (lead_pos sp (length idx) i j) (infidelity_total RO d na nk no Bm basis idx sp omega) 0 =
  - sumn' n (fun m => cumulant_general_fn RO n Tr false (Gam i j) Dl m m) / (INR d * INR d).
Proof.
  intros. rewrite infidelity_entry by auto. rewrite trace_identity. unfold Rdiv. ring.
Qed.

(* contraction with d delta_kl - t_k t_l, and the integrand of the corrected filter function *)
Lemma tdr_contract (cL Rr : nat -> Cx) (S : Cx) :
  csumn' n (fun k => csumn' n (fun l => cscal RO (tdr k l) (cmul' (cmul' (cL k) S) (Rr l)))) =
  csub' (cmul' (INR d, 0) (csumn' n (fun k => cmul' (cmul' (cL k) S) (Rr k))))
        (cmul' (cmul' (csumn' n (fun k => cmul' (trb k, 0) (cL k))) S) (csumn' n (fun l => cmul' (trb l, 0) (Rr l)))).
Proof.
  set (B := csumn' n (fun l => cmul' (trb l, 0) (Rr l))).
  rewrite (csumn_ext n _ (fun k => csub' (cmul' (INR d, 0) (cmul' (cmul' (cL k) S) (Rr k)))
                                          (cmul' (cmul' (cmul' (trb k, 0) (cL k)) S) B))).
  2:{ intros k Hk.
      rewrite (csumn_ext n _ (fun l => csub'
         (if Nat.eqb k l then cmul' (INR d, 0) (cmul' (cmul' (cL k) S) (Rr l)) else 0c)
         (cmul' (cmul' (cmul' (trb k, 0) (cL k)) S) (cmul' (trb l, 0) (Rr l))))).
      2:{ intros l _. unfold tdr, delta. destruct (Nat.eqb k l); apply c_eq; csimp; ring. }
      rewrite csumn_sub.
      rewrite (csumn_delta n k (fun l => cmul' (INR d, 0) (cmul' (cmul' (cL k) S) (Rr l)))) by auto.
      rewrite csumn_mul_l. reflexivity. }
  rewrite csumn_sub. f_equal. apply csumn_mul_l.
  rewrite csumn_mul_r. f_equal. rewrite csumn_mul_r. reflexivity.
Qed.

(* ---------- the pre-fix branches ---------- *)
(* traceless branch: (1/d) sum_k Gamma_kk, INCLUDING the element proportional to the identity *)
Theorem infidelity_traceless_prefix_entry i j :
  (i < length idx)%nat -> (j < length idx)%nat -> (is_cross sp = false -> i = j) ->
  nth (lead_pos sp (length idx) i j) (infidelity_total_prefix d true na nk no Bm basis idx sp omega) 0 =
  trG (Gam i j) / INR d.
Proof.
  intros Hi Hj Hc. unfold infidelity_total_prefix. rewrite nth_infid_of_ff by auto.
  unfold trG. rewrite (sumn_ext n _ (fun k => trapz_w no (gint i j k k) omega / (2 * PI))).
  2:{ intros k Hk. rewrite rmget_Gam by auto. apply Gamma_gint. }
  replace (sumn' n (fun k => trapz_w no (gint i j k k) omega / (2 * PI)))
    with (trapz_w no (fun o => sumn' n (fun k => gint i j k k o)) omega / (2 * PI))
    by (rewrite trapz_w_sum; unfold Rdiv; rewrite sumn_mul_r; reflexivity).
  assert (Hd0 : INR d <> 0) by (apply not_0_INR; lia).
  assert (Hpi : PI <> 0) by (generalize PI_RGT_0; lra).
  rewrite (trapz_w_ext no _ (fun o => sumn' n (fun k => gint i j k k o))).
  field; auto.
  intros o Ho. unfold integrand_fid, infid_ff_traceless, filter_function.
  rewrite a3get_a3build by (auto; apply Hidx; auto).
  unfold cre. rewrite <- csumn_mul_r, csumn_re, Hnk. apply sumn_ext. intros k _.
  unfold gint. f_equal. ring.
Qed.

(* non-traceless branch: (1/d^2) (d sum_k Gamma_kk - sum_kl Gamma_kl tr C_k tr C_l) *)
Theorem infidelity_general_prefix_entry i j :
  (i < length idx)%nat -> (j < length idx)%nat -> (is_cross sp = false -> i = j) ->
  nth (lead_pos sp (length idx) i j) (infidelity_total_prefix d false na nk no Bm basis idx sp omega) 0 =
  (INR d * trG (Gam i j) - GT (Gam i j)) / (INR d * INR d).
Proof.
  intros Hi Hj Hc. unfold infidelity_total_prefix. rewrite nth_infid_of_ff by auto.
  assert (Hd0 : INR d <> 0) by (apply not_0_INR; lia).
  assert (Hpi : 2 * PI <> 0) by (generalize PI_RGT_0; lra).
  (* right-hand side as one double sum of trapezoid sums *)
  assert (E : INR d * trG (Gam i j) - GT (Gam i j) =
              sumn' n (fun k => sumn' n (fun l => tdr k l * (trapz_w no (gint i j k l) omega / (2 * PI))))).
  { rewrite <- sum_delta. unfold GT. rewrite sumn_sub. apply sumn_ext. intros k Hk.
    rewrite sumn_sub. apply sumn_ext. intros l Hl.
    rewrite rmget_Gam by auto. rewrite Gamma_gint. unfold tdr. ring. }
  rewrite E.
  rewrite (trapz_w_ext no _ (fun o => sumn' n (fun k => sumn' n (fun l => (tdr k l / INR d) * gint i j k l o)))).
  - rewrite trapz_w_sum.
    unfold Rdiv. rewrite <- !sumn_mul_r. apply sumn_ext. intros k _.
    rewrite trapz_w_sum. rewrite <- !sumn_mul_r. apply sumn_ext. intros l _.
    rewrite trapz_w_scal. field. split; auto. generalize PI_RGT_0; lra.
  - intros o Ho. unfold integrand_fid, infid_ff_general.
    rewrite a3get_a3build by (auto; apply Hidx; auto).
    rewrite dnat_INR, Hnk.
    transitivity (fst (csumn' n (fun k => csumn' n (fun l =>
        cscal RO (tdr k l / INR d)
          (cmul' (cmul' (cconj' (a3get RO Bm (sel idx i) k o)) (spec_at RO sp i j o)) (a3get RO Bm (sel idx j) l o)))))).
    + unfold cre. f_equal.
      transitivity (cmul' (cdivr RO (spec_at RO sp i j o) (INR d))
        (csumn' n (fun k => csumn' n (fun l =>
           cmul' (cmul' (cconj' (a3get RO Bm (sel idx i) k o)) (a3get RO Bm (sel idx j) l o))
                 (nth l (nth k (traces_diag_arr d P n) []) 0c))))).
      { apply cdivr_swap. }
      rewrite <- csumn_mul_l. apply csumn_ext. intros k Hk.
      rewrite <- csumn_mul_l. apply csumn_ext. intros l Hl.
      rewrite nth_traces_diag_arr by auto. apply c_eq; csimp; field; auto.
    + rewrite csumn_re. apply sumn_ext. intros k _. rewrite csumn_re. apply sumn_ext. intros l _.
      unfold gint. csimp. reflexivity.
Qed.

(* hence: infidelity (non-traceless branch) = - tr K / d^2 with K the cumulant function of the
   same decay amplitudes *)
Theorem infidelity_general_prefix_is_cumulant_trace i j Dl :
  (i < length idx)%nat -> (j < length idx)%nat -> (is_cross sp = false -> i = j) ->
  nth (lead_pos sp (length idx) i j) (infidelity_total_prefix d false na nk no Bm basis idx sp omega) 0 =
  - sumn' n (fun m => cumulant_general_fn RO n Tr false (Gam i j) Dl m m) / (INR d * INR d).
Proof.
  intros. rewrite infidelity_general_prefix_entry by auto. rewrite trace_identity. unfold Rdiv. ring.
Qed.

(* traceless branch: the excess over - tr K / d^2 *)
Theorem infidelity_traceless_prefix_excess i j Dl :
  (i < length idx)%nat -> (j < length idx)%nat -> (is_cross sp = false -> i = j) ->
  nth (lead_pos sp (length idx) i j) (infidelity_total_prefix d true na nk no Bm basis idx sp omega) 0 =
  - sumn' n (fun m => cumulant_general_fn RO n Tr false (Gam i j) Dl m m) / (INR d * INR d)
  + GT (Gam i j) / (INR d * INR d).
Proof.
  intros. rewrite infidelity_traceless_prefix_entry by auto. rewrite trace_identity.
  assert (Hd0 : INR d <> 0) by (apply not_0_INR; lia). field. auto.
Qed.

End TraceIdentity.
