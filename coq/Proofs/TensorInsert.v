(* C16 -- Kronecker insertion at the level of the specification: inserting a factor into a chain, given
   only the products of the dimensions in front of / behind the insertion point, is the chain of the
   rearranged factor list. *)
From Coq Require Import ZArith List Arith Lia Bool Permutation.
From FF Require Import Model.Tensor Spec.Kron Proofs.TensorIdx Proofs.TensorOrder Proofs.TensorKron.
Import ListNotations.

Lemma wf_kunit r : wf r (kunit r).
Proof.
  unfold wf, kunit. cbn [shp dat]. rewrite repeat_length. split; auto.
  induction r; simpl; auto. rewrite <- IHr. reflexivity.
Qed.

Lemma tabulate_aget r X : wf r X -> tabulate (shp X) (aget X) = X.
Proof.
  intros [H1 H2]. destruct X as [s d]. unfold tabulate, aget. cbn [shp dat] in *. f_equal.
  rewrite <- (map_map (ravel s) (fun k => nth k d 0%Z)), ravel_indices, <- H2.
  clear. induction d as [|x d IH]; simpl; auto. f_equal. rewrite <- seq_shift, map_map. exact IH.
Qed.

Lemma map2_mul_ones s : map2 Nat.mul (repeat 1 (length s)) s = s.
Proof. induction s; simpl; auto. rewrite IHs. f_equal. lia. Qed.
Lemma map2_mul_ones_r s : map2 Nat.mul s (repeat 1 (length s)) = s.
Proof. induction s; simpl; auto. rewrite IHs. f_equal. lia. Qed.

Lemma aget_kunit r idx : inb idx (repeat 1 r) -> aget (kunit r) idx = 1%Z.
Proof.
  intros H. unfold aget, kunit. cbn [shp dat].
  pose proof (ravel_bound _ _ H) as Hb.
  assert (prodn (repeat 1 r) = 1) by (clear; induction r; simpl; auto; rewrite IHr; reflexivity).
  replace (ravel (repeat 1 r) idx) with 0 by lia. reflexivity.
Qed.

Lemma kron2_unit_l r X : wf r X -> kron2 (kunit r) X = X.
Proof.
  intros HX. destruct HX as [H1 H2]. unfold kron2. cbn [shp kunit].
  rewrite <- H1, map2_mul_ones.
  transitivity (tabulate (shp X) (aget X)); [|apply (tabulate_aget (length (shp X))); split; auto].
  apply tabulate_ext. intros idx Hidx.
  destruct (inb_divmod (repeat 1 (length (shp X))) (shp X) idx) as [I1 I2].
  { rewrite repeat_length. auto. }
  { rewrite map2_mul_ones. auto. }
  fold (kunit (length (shp X))). rewrite aget_kunit by auto.
  replace (map2 Nat.modulo idx (shp X)) with idx; [lia|].
  clear -Hidx. induction Hidx; simpl; auto. rewrite <- IHHidx. f_equal. symmetry. apply Nat.mod_small. auto.
Qed.
Lemma kron2_unit_r r X : wf r X -> kron2 X (kunit r) = X.
Proof.
  intros HX. destruct HX as [H1 H2]. unfold kron2. cbn [shp kunit].
  rewrite <- H1, map2_mul_ones_r.
  transitivity (tabulate (shp X) (aget X)); [|apply (tabulate_aget (length (shp X))); split; auto].
  apply tabulate_ext. intros idx Hidx.
  assert (E1 : map2 Nat.div idx (repeat 1 (length (shp X))) = idx).
  { apply inb_length in Hidx. revert Hidx. generalize (shp X). clear. induction idx as [|i idx IH]; intros [|d s] H; simpl in *; try discriminate; auto.
    rewrite IH by lia. f_equal. apply Nat.div_1_r. }
  assert (E2 : inb (map2 Nat.modulo idx (repeat 1 (length (shp X)))) (repeat 1 (length (shp X)))).
  { apply inb_length in Hidx. revert Hidx. generalize (shp X). clear. induction idx as [|i idx IH]; intros [|d s] H; simpl in *; try discriminate; constructor.
    - first [lia | apply Nat.mod_upper_bound; lia].
    - apply IH. lia. }
  rewrite E1. fold (kunit (length (shp X))). rewrite aget_kunit by auto. lia.
Qed.

(* chains with the unit in front *)
Lemma chain_u_cons r F L : wf r F -> chain_u r (F :: L) = kron_chain F L.
Proof. intros H. unfold chain_u, kron_chain. cbn [fold_left]. rewrite kron2_unit_l by auto. reflexivity. Qed.
Lemma wf_chain_u r L : Forall (wf r) L -> wf r (chain_u r L).
Proof. intros H. unfold chain_u. apply (wf_kron_chain r L (kunit r)); auto. apply wf_kunit. Qed.
Lemma chain_u_app r L1 L2 : Forall (wf r) L1 -> Forall (wf r) L2 ->
  chain_u r (L1 ++ L2) = kron2 (chain_u r L1) (chain_u r L2).
Proof.
  intros H1 H2. revert L1 H1. induction L2 as [|G L2 IH] using rev_ind; intros L1 H1.
  - rewrite app_nil_r. change (chain_u r []) with (kunit r). rewrite kron2_unit_r; auto. apply wf_chain_u; auto.
  - assert (H2' : Forall (wf r) L2) by (apply Forall_forall; intros x Hx; rewrite Forall_forall in H2; apply H2; apply in_or_app; auto).
    assert (HG : wf r G) by (rewrite Forall_forall in H2; apply H2; apply in_or_app; right; left; auto).
    rewrite app_assoc. unfold chain_u at 1 3. rewrite !fold_left_app. cbn [fold_left].
    fold (chain_u r (L1 ++ L2)). fold (chain_u r L2).
    rewrite IH by auto. apply kron2_assoc; auto; apply wf_chain_u; auto.
Qed.
