(* C16 -- Kronecker insertion at the level of the specification: inserting a factor into a chain, given
   only the products of the dimensions in front of / behind the insertion point, is the chain of the
   rearranged factor list. *)
From Coq Require Import ZArith List Arith Lia Bool Permutation.
From FF Require Import Model.Tensor Spec.Kron Proofs.TensorIdx Proofs.TensorOrder Proofs.TensorKron.
Import ListNotations.

Section Generic.
Context {T : Type} {EN : Entry T} {EL : EntryLaws T}.
Local Notation arr := (garr T).

Lemma wf_kunit r : wf r (kunit r).
Proof.
  unfold wf, kunit. cbn [shp dat]. rewrite repeat_length. split; auto.
  induction r; simpl; auto. rewrite <- IHr. reflexivity.
Qed.

Lemma tabulate_aget r X : wf r X -> tabulate (shp X) (aget X) = X.
Proof.
  intros [H1 H2]. destruct X as [s d]. unfold tabulate, aget. cbn [shp dat] in *. f_equal.
  rewrite <- (map_map (ravel s) (fun k => nth k d ezero)), ravel_indices, <- H2.
  clear. induction d as [|x d IH]; simpl; auto. f_equal. rewrite <- seq_shift, map_map. exact IH.
Qed.

Lemma map2_mul_ones s : map2 Nat.mul (repeat 1 (length s)) s = s.
Proof. induction s; simpl; auto. rewrite IHs. f_equal. lia. Qed.
Lemma map2_mul_ones_r s : map2 Nat.mul s (repeat 1 (length s)) = s.
Proof. induction s; simpl; auto. rewrite IHs. f_equal. lia. Qed.

Lemma aget_kunit r idx : inb idx (repeat 1 r) -> aget (kunit r) idx = eone.
Proof.
  intros H. unfold aget, kunit. cbn [shp dat].
  pose proof (ravel_bound _ _ H) as Hb.
  assert (prodn (repeat 1 r) = 1) by (clear; induction r; simpl; auto; rewrite IHr; reflexivity).
  replace (ravel (repeat 1 r) idx) with 0 by lia. reflexivity.
Qed.

Lemma kron2_unit_l r X : wf r X -> kron2 (kunit r) X = X.
Proof.
  intros HX. destruct HX as [H1 H2]. unfold kron2. cbn [shp kunit].
  rewrite <- H1, map2_mul_ones.
  transitivity (tabulate (shp X) (aget X)); [|apply (tabulate_aget (length (shp X))); split; auto].
  apply tabulate_ext. intros idx Hidx.
  destruct (inb_divmod (repeat 1 (length (shp X))) (shp X) idx) as [I1 I2].
  { rewrite repeat_length. auto. }
  { rewrite map2_mul_ones. auto. }
  fold (kunit (length (shp X))). rewrite aget_kunit by auto.
  replace (map2 Nat.modulo idx (shp X)) with idx; [apply emul_1_l|].
  clear -Hidx. induction Hidx; simpl; auto. rewrite <- IHHidx. f_equal. symmetry. apply Nat.mod_small. auto.
Qed.
Lemma kron2_unit_r r X : wf r X -> kron2 X (kunit r) = X.
Proof.
  intros HX. destruct HX as [H1 H2]. unfold kron2. cbn [shp kunit].
  rewrite <- H1, map2_mul_ones_r.
  transitivity (tabulate (shp X) (aget X)); [|apply (tabulate_aget (length (shp X))); split; auto].
  apply tabulate_ext. intros idx Hidx.
  assert (E1 : map2 Nat.div idx (repeat 1 (length (shp X))) = idx).
  { apply inb_length in Hidx. revert Hidx. generalize (shp X). clear. induction idx as [|i idx IH]; intros [|d s] H; simpl in *; try discriminate; auto.
    rewrite IH by lia. f_equal. apply Nat.div_1_r. }
  assert (E2 : inb (map2 Nat.modulo idx (repeat 1 (length (shp X)))) (repeat 1 (length (shp X)))).
  { apply inb_length in Hidx. revert Hidx. generalize (shp X). clear. induction idx as [|i idx IH]; intros [|d s] H; simpl in *; try discriminate; constructor.
    - first [lia | apply Nat.mod_upper_bound; lia].
    - apply IH. lia. }
  rewrite E1. fold (kunit (length (shp X))). rewrite aget_kunit by auto. apply emul_1_r.
Qed.

(* chains with the unit in front *)
Lemma chain_u_cons r F L : wf r F -> chain_u r (F :: L) = kron_chain F L.
Proof. intros H. unfold chain_u, kron_chain. cbn [fold_left]. rewrite kron2_unit_l by auto. reflexivity. Qed.
Lemma wf_chain_u r L : Forall (wf r) L -> wf r (chain_u r L).
Proof. intros H. unfold chain_u. apply (wf_kron_chain r L (kunit r)); auto. apply wf_kunit. Qed.
Lemma chain_u_snoc r L G : chain_u r (L ++ [G]) = kron2 (chain_u r L) G.
Proof. unfold chain_u. rewrite fold_left_app. reflexivity. Qed.
Lemma chain_u_app r L1 L2 : Forall (wf r) L1 -> Forall (wf r) L2 ->
  chain_u r (L1 ++ L2) = kron2 (chain_u r L1) (chain_u r L2).
Proof.
  intros H1 H2. revert L1 H1. induction L2 as [|G L2 IH] using rev_ind; intros L1 H1.
  - rewrite app_nil_r. change (chain_u r []) with (kunit r). rewrite kron2_unit_r; auto. apply wf_chain_u; auto.
  - assert (H2' : Forall (wf r) L2) by (apply Forall_forall; intros x Hx; rewrite Forall_forall in H2; apply H2; apply in_or_app; auto).
    assert (HG : wf r G) by (rewrite Forall_forall in H2; apply H2; apply in_or_app; right; left; auto).
    rewrite app_assoc, !chain_u_snoc.
    rewrite IH by auto. apply (kron2_assoc r); auto; apply wf_chain_u; auto.
Qed.

(* ------------------------------------------------------------------ Kronecker insertion = chain with the factor inserted *)
Lemma map2_mul_rot P : forall e S, length P = length e -> length e = length S ->
  map2 Nat.mul e (map2 Nat.mul P S) = map2 Nat.mul (map2 Nat.mul P e) S.
Proof.
  induction P as [|p P IH]; intros [|x e] [|s S] H1 H2; simpl in *; try discriminate; auto.
  rewrite IH by lia. f_equal. lia.
Qed.

Lemma ins_index_lists P : forall e Sd idx, length P = length e -> length e = length Sd ->
  inb idx (map2 Nat.mul (map2 Nat.mul P e) Sd) ->
  let xs := map2 Nat.div idx (map2 Nat.mul e Sd) in
  let zs := map2 Nat.modulo idx Sd in
  let cidx := map2 Nat.add (map2 Nat.mul xs Sd) zs in
  inb cidx (map2 Nat.mul P Sd) /\
  map2 Nat.div cidx Sd = xs /\ map2 Nat.modulo cidx Sd = zs /\
  xs = map2 Nat.div (map2 Nat.div idx Sd) e.
Proof.
  induction P as [|p P IH]; intros [|x e] [|s Sd] idx H1 H2 Hin; simpl in *; try discriminate.
  - inversion Hin. simpl. repeat split; constructor.
  - inversion Hin as [|i ? idx' ? Hi Hin']; subst.
    destruct (IH e Sd idx' ltac:(lia) ltac:(lia) Hin') as [I1 [I2 [I3 I4]]].
    cbn zeta in *. simpl.
    assert (Hs : s <> 0) by (intros ->; lia).
    assert (Hx : x <> 0) by (intros ->; lia).
    assert (Hxs : x * s <> 0) by (apply Nat.neq_mul_0; auto).
    assert (Hq : i / (x * s) < p).
    { apply Nat.div_lt_upper_bound; auto. lia. }
    pose proof (Nat.mod_upper_bound i s Hs) as Hz.
    rewrite I2, I3, <- I4.
    repeat split.
    + constructor; auto.
      assert (S (i / (x * s)) * s <= p * s) by (apply Nat.mul_le_mono_r; lia).
      rewrite Nat.mul_succ_l in H. lia.
    + f_equal. rewrite Nat.div_add_l by auto. rewrite (Nat.div_small _ _ Hz). lia.
    + f_equal. rewrite Nat.add_comm, Nat.mod_add by auto. apply Nat.mod_small. auto.
    + f_equal. rewrite Nat.div_div by auto. f_equal. lia.
Qed.

Theorem kron_ins_chain r X Y ins : wf r X -> wf r Y -> wf r ins ->
  kron_ins (shp X) (shp Y) (kron2 X Y) ins = kron2 (kron2 X ins) Y.
Proof.
  intros [HX1 HX2] [HY1 HY2] [HI1 HI2].
  unfold kron_ins. unfold kron2 at 3. cbn [shp kron2 tabulate].
  rewrite map2_mul_rot by lia.
  apply tabulate_ext. intros idx Hidx.
  destruct (ins_index_lists (shp X) (shp ins) (shp Y) idx ltac:(lia) ltac:(lia) Hidx) as [I1 [I2 [I3 I4]]].
  cbn zeta in *.
  destruct (inb_divmod (map2 Nat.mul (shp X) (shp ins)) (shp Y) idx) as [J1 J2]; auto.
  { rewrite map2_length; lia. }
  unfold kron2. rewrite !aget_tabulate by auto. cbn [shp].
  rewrite I2, I3, I4.
  rewrite emul_assoc. f_equal. apply emul_comm.
Qed.

(* inserting into a chain: only the products of the dimensions in front of / behind the insertion point
   are used, and the result is the chain of the factor list with the new factor inserted *)
Theorem kron_ins_chain_u r L1 L2 ins : Forall (wf r) L1 -> Forall (wf r) L2 -> wf r ins ->
  kron_ins (shp (chain_u r L1)) (shp (chain_u r L2)) (chain_u r (L1 ++ L2)) ins = chain_u r (L1 ++ ins :: L2).
Proof.
  intros H1 H2 Hi. rewrite chain_u_app by auto.
  rewrite (kron_ins_chain r) by (auto using wf_chain_u).
  change (ins :: L2) with ([ins] ++ L2). rewrite app_assoc.
  rewrite (chain_u_app r (L1 ++ [ins]) L2); auto.
  - rewrite chain_u_snoc. reflexivity.
  - apply Forall_app. split; auto.
Qed.
End Generic.
