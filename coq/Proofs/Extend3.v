(* C05, more than two blocks: a register that is a Kronecker chain of any number of blocks is, seen from block j,
   (blocks before j) (x) (block j) (x) (blocks after j).  For noise operators 1 (x) B (x) 1 and a product basis
   C_k (x) D_l (x) E_m the from-scratch control matrix of the whole register is
       tr(C_k) * B2_{a,l} * tr(E_m)
   (composition of the two embedding theorems of Proofs/ExtendKron2.v), i.e. sqrt(d1 d3) B2_{a,l} on (0,l,0) and zero
   elsewhere for orthonormal bases with normalised-identity first elements: exactly the rows extend assembles for
   that block, whatever the number and sizes of the other blocks.  Also: rows of the control matrix depend only on
   their own noise operator and coefficients (the additional-noise-Hamiltonian rows extend computes separately are
   rows of the from-scratch control matrix).                                                           *)
From Coq Require Import ZArith Reals List Lra Lia Arith Permutation.
From FF Require Import Base.Ops Inst.RInst Base.RAlg Spec.Kron2 Model.Numeric Proofs.RemapCov Proofs.ExtendKron Proofs.ExtendKron2.
Import ListNotations.
Local Open Scope nat_scope.

Section Middle.
Variables (d1 d2 d3 K1 K2 K3 : nat).
Variables (basis1 basis2 basis3 basis12 basis : list (Mat (T:=R))).
Hypothesis HK2 : length basis2 = K2.
Hypothesis HK12 : length basis12 = K1 * K2.
Hypothesis HK : length basis = K1 * K2 * K3.
Hypothesis Hb12 : forall k l, k < K1 -> l < K2 -> krel d1 d2 (nthm basis1 k) (nthm basis2 l) (nthm basis12 (k * K2 + l)).
Hypothesis Hb : forall kl m, kl < K1 * K2 -> m < K3 -> krel (d1 * d2) d3 (nthm basis12 kl) (nthm basis3 m) (nthm basis (kl * K3 + m)).
Variables (na2 na12 na : nat) (ns2 ns12 ns : list (Mat (T:=R))) (rho12 rho : nat -> nat).
Hypothesis Hn2 : length ns2 = na2.
Hypothesis Hn12 : length ns12 = na12.
Hypothesis Hn : length ns = na.
Hypothesis Hrho12 : forall a, a < na2 -> rho12 a < na12.
Hypothesis Hrho : forall a, a < na12 -> rho a < na.
Hypothesis Hns12 : forall a, a < na2 -> krel d1 d2 (mid RO d1) (nthm ns2 a) (nthm ns12 (rho12 a)).
Hypothesis Hns : forall a, a < na12 -> krel (d1 * d2) d3 (nthm ns12 a) (mid RO d3) (nthm ns (rho a)).

Theorem cm_embed_middle thr evs1 evs2 evs3 evs12 evs Vs1 Vs2 Vs3 Vs12 Vs omega nc2 nc12 nc dts :
  Forall3 (evrel d1 d2) evs1 evs2 evs12 -> Forall3 (krel d1 d2) Vs1 Vs2 Vs12 ->
  Forall3 (evrel (d1 * d2) d3) evs12 evs3 evs -> Forall3 (krel (d1 * d2) d3) Vs12 Vs3 Vs ->
  Forall (fun V => funitary d1 (toF V)) Vs1 -> Forall (fun V => funitary d3 (toF V)) Vs3 ->
  length nc2 = na2 -> length nc12 = na12 -> length nc = na ->
  (forall a, a < na2 -> nth (rho12 a) nc12 [] = nth a nc2 []) ->
  (forall a, a < na12 -> nth (rho a) nc [] = nth a nc12 []) ->
  let B2 := control_matrix_from_scratch RO d2 thr evs2 Vs2 (propagators RO d2 evs2 Vs2 dts) omega basis2 ns2 nc2 dts (times RO dts) in
  let Bm := control_matrix_from_scratch RO (d1 * d2 * d3) thr evs Vs (propagators RO (d1 * d2 * d3) evs Vs dts) omega basis ns nc dts (times RO dts) in
  forall a k l m o, a < na2 -> k < K1 -> l < K2 -> m < K3 -> o < length omega ->
    a3get RO Bm (rho (rho12 a)) ((k * K2 + l) * K3 + m) o =
    cmul' (cmul' (mtrace RO d1 (nthm basis1 k)) (a3get RO B2 a l o)) (mtrace RO d3 (nthm basis3 m)).
Proof.
  intros He12 HV12 He HV U1 U3 L2 L12 L Hc12 Hc B2 Bm a k l m o Ha Hk Hl Hm Ho.
  assert (Hkl : k * K2 + l < K1 * K2) by (apply pair_lt_prod; auto).
  unfold Bm.
  rewrite (control_matrix_embed_l (d1 * d2) d3 (K1 * K2) K3 basis12 basis3 basis HK12 HK Hb na ns Hn na12 ns12 rho Hn12 Hrho Hns
             thr evs12 evs3 evs Vs12 Vs3 Vs omega nc12 nc dts He HV U3 L L12 Hc (rho12 a) (k * K2 + l) m o (Hrho12 a Ha) Hkl Hm Ho).
  f_equal.
  apply (control_matrix_embed_r d1 d2 K1 K2 basis1 basis2 basis12 HK2 HK12 Hb12 na12 ns12 Hn12 na2 ns2 rho12 Hn2 Hrho12 Hns12
           thr evs1 evs2 evs12 Vs1 Vs2 Vs12 omega nc2 nc12 dts He12 HV12 U1 L12 L2 Hc12 a k l o Ha Hk Hl Ho).
Qed.
End Middle.

(* ---------- rows are local: the special case d2 = 1 of the embedding (1 x 1 second factor) ---------- *)
Section RowLocal.
Variables (d K : nat) (basis : list (Mat (T:=R))).
Hypothesis HK : length basis = K.

Lemma cm_step_row thr ev V Q tg dt omega ns ns' c c' a a' k o :
  a < length ns -> a' < length ns' -> nthm ns a = nthm ns' a' -> vg RO c a = vg RO c' a' ->
  k < K -> o < length omega ->
  a3get RO (cm_step RO d thr ev V Q tg dt omega basis ns c) a k o =
  a3get RO (cm_step RO d thr ev V Q tg dt omega basis ns' c') a' k o.
Proof.
  intros Ha Ha' En Ec Hk Ho. unfold cm_step. rewrite HK. rewrite !a3get_a3build by auto.
  rewrite !nthm_map by (rewrite ?HK; auto). rewrite En, Ec. reflexivity.
Qed.

Lemma cm_loop_row thr omega ns ns' a a' : a < length ns -> a' < length ns' -> nthm ns a = nthm ns' a' ->
  forall evs Vs Qs ts dts cs cs' acc acc',
  Forall2 (fun c c' => vg RO c a = vg RO c' a') cs cs' ->
  (forall k o, k < K -> o < length omega -> a3get RO acc a k o = a3get RO acc' a' k o) ->
  forall k o, k < K -> o < length omega ->
  a3get RO (cm_scratch_loop RO d thr evs Vs Qs ts dts omega basis ns cs acc) a k o =
  a3get RO (cm_scratch_loop RO d thr evs Vs Qs ts dts omega basis ns' cs' acc') a' k o.
Proof.
  intros Ha Ha' En evs. induction evs as [|ev evs IH]; intros Vs Qs ts dts cs cs' acc acc' Hc Hacc k o Hk Ho.
  - simpl. auto.
  - simpl. destruct Vs as [|V Vs]; auto. destruct Qs as [|Q Qs]; auto. destruct ts as [|tg ts]; auto.
    destruct dts as [|dt dts]; auto. destruct Hc as [|c c' cs cs' Hcc Hc]; auto.
    apply IH; auto. intros k0 o0 Hk0 Ho0. rewrite HK. rewrite !a3get_a3add by auto.
    rewrite Hacc by auto. rewrite (cm_step_row thr ev V Q tg dt omega ns ns' c c' a a' k0 o0) by auto. reflexivity.
Qed.

(* a row of the from-scratch control matrix depends only on its own noise operator and coefficients *)
Theorem cm_row_local thr evs Vs Qs omega ns ns' nc nc' dts ts a a' :
  a < length ns -> a' < length ns' -> length nc = length ns -> length nc' = length ns' ->
  nthm ns a = nthm ns' a' -> nth a nc [] = nth a' nc' [] ->
  forall k o, k < K -> o < length omega ->
  a3get RO (control_matrix_from_scratch RO d thr evs Vs Qs omega basis ns nc dts ts) a k o =
  a3get RO (control_matrix_from_scratch RO d thr evs Vs Qs omega basis ns' nc' dts ts) a' k o.
Proof.
  intros Ha Ha' L L' En Ec k o Hk Ho. unfold control_matrix_from_scratch.
  apply cm_loop_row; auto.
  - unfold transpose_coeffs. apply Forall2_build. intros g Hg. unfold vg, vget.
    rewrite (nth_indep _ 0%R ((fun row => vget RO row g) [])) by (rewrite map_length, L; auto).
    rewrite (nth_indep (map _ nc') 0%R ((fun row => vget RO row g) [])) by (rewrite map_length, L'; auto).
    rewrite !(map_nth (fun row => vg RO row g)). rewrite Ec. reflexivity.
  - intros k0 o0 Hk0 Ho0. rewrite HK. rewrite !a3get_a3zero; auto.
Qed.
End RowLocal.
