(* Independence of the from-scratch control matrix from the choice of eigen-decomposition.
   numpy.linalg.eigh is an oracle; for a degenerate Hamiltonian (or after a different ordering of the eigenvalues)
   it may return another decomposition.  For two unitary decompositions of the SAME Hermitian matrix,
       V diag(ev) V^dagger = V' diag(ev') V'^dagger,
   every quantity of the form  sum_mn f(ev_m, ev_n) (V^dagger N V)_mn (V^dagger X V)_nm  (for ANY f, in particular
   the masked first-order integral) and every  V diag(g(ev)) V^dagger  (the segment propagator) coincide.  Hence the
   propagators and the control matrix computed from scratch do not depend on the decomposition, and the atomic
   rule holds for the concatenated pulse's OWN eigh result.                                                    *)
From Coq Require Import ZArith Reals List Lra Lia Setoid Morphisms.
From FF Require Import Base.Ops Inst.RInst Base.RAlg Model.Numeric Model.Atomic Proofs.AtomicAlg Proofs.Atomic.
Import ListNotations.
Local Open Scope R_scope.

Definition fdiag (g : nat -> Cx) : fmat := fun i j => if Nat.eqb i j then g i else 0c.
Definition had (F : nat -> nat -> Cx) (G : fmat) : fmat := fun m n => cmul' (F m n) (G m n).
Lemma had_ext d F G G' : feq d G G' -> feq d (had F G) (had F G').
Proof. intros H i j Hi Hj. unfold had. rewrite H; auto. Qed.
Add Parametric Morphism (d : nat) (F : nat -> nat -> Cx) : (had F) with signature (feq d) ==> (feq d) as had_mor.
Proof. intros; apply had_ext; auto. Qed.

Lemma fmul_diag_l d g A : feq d (fmul d (fdiag g) A) (fun i j => cmul' (g i) (A i j)).
Proof.
  intros i j Hi Hj. unfold fmul, fdiag.
  rewrite (csumn_ext d _ (fun k => if Nat.eqb i k then cmul' (g i) (A k j) else 0c)).
  - rewrite (csumn_delta d i (fun k => cmul' (g i) (A k j))); auto.
  - intros k _. destruct (Nat.eqb i k); ring.
Qed.
Lemma fmul_diag_r d g A : feq d (fmul d A (fdiag g)) (fun i j => cmul' (A i j) (g j)).
Proof.
  intros i j Hi Hj. unfold fmul, fdiag.
  rewrite (csumn_ext d _ (fun k => if Nat.eqb k j then cmul' (A i k) (g k) else 0c)).
  - rewrite (csumn_delta' d j (fun k => cmul' (A i k) (g k))); auto.
  - intros k _. destruct (Nat.eqb k j); ring.
Qed.
Lemma funitary_adj d U : funitary d U -> funitary d (fadj U).
Proof.
  intros [H1 H2]. split.
  - rewrite fadj_invol_feq. exact H2.
  - rewrite fadj_invol_feq. exact H1.
Qed.
Lemma fdiag_had g : forall i j, fdiag g i j = had (fun m _ => g m) fid i j.
Proof. intros i j. unfold fdiag, had, fid. destruct (Nat.eqb i j); ring. Qed.

Section Indep.
Variable d : nat.
Variables V V' : fmat.
Variables ev ev' : nat -> R.
Hypothesis HV : funitary d V.
Hypothesis HV' : funitary d V'.
Definition Hof (U : fmat) (e : nat -> R) : fmat := fmul d U (fmul d (fdiag (fun j => cofr RO (e j))) (fadj U)).
Hypothesis HH : feq d (Hof V ev) (Hof V' ev').

Definition Wm : fmat := fmul d (fadj V) V'.
Lemma VW : feq d (fmul d V Wm) V'.
Proof. unfold Wm. rewrite fmul_assoc. rewrite (proj2 HV). apply fmul_id_l. Qed.
Lemma W_unitary : funitary d Wm.
Proof. unfold Wm. apply funitary_mul. apply funitary_adj; assumption. assumption. Qed.

(* D W = W D' *)
Lemma intertwine : feq d (fmul d (fdiag (fun j => cofr RO (ev j))) Wm) (fmul d Wm (fdiag (fun j => cofr RO (ev' j)))).
Proof.
  assert (E : feq d (fmul d (fadj V) (fmul d (Hof V ev) V')) (fmul d (fadj V) (fmul d (Hof V' ev') V'))) by (rewrite HH; reflexivity).
  unfold Hof in E.
  assert (L : feq d (fmul d (fadj V) (fmul d (fmul d V (fmul d (fdiag (fun j => cofr RO (ev j))) (fadj V))) V'))
                    (fmul d (fdiag (fun j => cofr RO (ev j))) Wm)).
  { repeat rewrite fmul_assoc. rewrite (proj1 HV). rewrite fmul_id_l. unfold Wm. repeat rewrite <- fmul_assoc. reflexivity. }
  assert (R0 : feq d (fmul d (fadj V) (fmul d (fmul d V' (fmul d (fdiag (fun j => cofr RO (ev' j))) (fadj V'))) V'))
                     (fmul d Wm (fdiag (fun j => cofr RO (ev' j))))).
  { repeat rewrite <- fmul_assoc. rewrite (proj1 HV'). rewrite fmul_id_r. unfold Wm. repeat rewrite fmul_assoc. reflexivity. }
  rewrite <- L, <- R0. exact E.
Qed.

Lemma W_zero_or_eq m n : (m < d)%nat -> (n < d)%nat -> ev m = ev' n \/ Wm m n = 0c.
Proof.
  intros Hm Hn. destruct (Req_EM_T (ev m) (ev' n)) as [E|N]; [left; exact E|right].
  pose proof (intertwine m n Hm Hn) as I.
  rewrite (fmul_diag_l d _ Wm m n Hm Hn), (fmul_diag_r d _ Wm m n Hm Hn) in I.
  destruct (Wm m n) as [u v]. unfold cmul, cofr in I. simpl in I. injection I as I1 I2.
  assert (U : (ev m - ev' n) * u = 0) by lra.
  assert (W0 : (ev m - ev' n) * v = 0) by lra.
  destruct (Rmult_integral _ _ U) as [|Hu]; [lra|].
  destruct (Rmult_integral _ _ W0) as [|Hv]; [lra|].
  subst. reflexivity.
Qed.

(* under the factor W_am' conj(W_bn') the primed eigenvalues may be replaced by the unprimed ones *)
Lemma replace2 (f : R -> R -> Cx) a b m' n' : (a < d)%nat -> (b < d)%nat -> (m' < d)%nat -> (n' < d)%nat ->
  cmul' (cmul' (Wm a m') (f (ev' m') (ev' n'))) (cconj' (Wm b n')) =
  cmul' (cmul' (Wm a m') (f (ev a) (ev b))) (cconj' (Wm b n')).
Proof.
  intros Ha Hb Hm Hn.
  destruct (W_zero_or_eq a m' Ha Hm) as [E1|Z1]; [|rewrite Z1; ring].
  destruct (W_zero_or_eq b n' Hb Hn) as [E2|Z2]; [|rewrite Z2; rewrite cconj_0; ring].
  rewrite E1, E2. reflexivity.
Qed.

Lemma hadamard_pull (f : R -> R -> Cx) (G : fmat) a b : (a < d)%nat -> (b < d)%nat ->
  fmul d Wm (fmul d (had (fun m n => f (ev' m) (ev' n)) G) (fadj Wm)) a b =
  cmul' (f (ev a) (ev b)) (fmul d Wm (fmul d G (fadj Wm)) a b).
Proof.
  intros Ha Hb. unfold fmul, had, fadj.
  rewrite <- csumn_mul_l. apply csumn_ext. intros m' Hm.
  rewrite <- csumn_mul_l. rewrite <- csumn_mul_l. rewrite <- csumn_mul_l. apply csumn_ext. intros n' Hn.
  transitivity (cmul' (cmul' (cmul' (Wm a m') (f (ev' m') (ev' n'))) (cconj' (Wm b n'))) (G m' n')); [ring|].
  rewrite (replace2 f a b m' n' Ha Hb Hm Hn). ring.
Qed.

Lemma WGW (A : fmat) : feq d (fmul d Wm (fmul d (ftbu d Wm A) (fadj Wm))) A.
Proof.
  unfold ftbu. destruct W_unitary as [_ W2].
  repeat rewrite fmul_assoc. rewrite W2. rewrite fmul_id_l.
  repeat rewrite <- fmul_assoc. rewrite W2. apply fmul_id_r.
Qed.

(* the "double operator integral"  V (F(ev) o (V^dagger N V)) V^dagger  does not depend on the decomposition *)
Definition Fev (f : R -> R -> Cx) (e : nat -> R) : nat -> nat -> Cx := fun m n => f (e m) (e n).
Definition Tf (f : R -> R -> Cx) (U : fmat) (e : nat -> R) (N : fmat) : fmat :=
  fmul d U (fmul d (had (Fev f e) (ftbu d U N)) (fadj U)).
Theorem Tf_indep f N : feq d (Tf f V ev N) (Tf f V' ev' N).
Proof.
  unfold Tf. rewrite <- VW.
  assert (E : feq d (ftbu d (fmul d V Wm) N) (ftbu d Wm (ftbu d V N))).
  { unfold ftbu. rewrite fadj_mul. repeat rewrite fmul_assoc. reflexivity. }
  rewrite E. rewrite fadj_mul.
  assert (P : feq d (fmul d Wm (fmul d (had (Fev f ev') (ftbu d Wm (ftbu d V N))) (fadj Wm))) (had (Fev f ev) (ftbu d V N))).
  { intros a b Ha Hb. unfold Fev. rewrite (hadamard_pull f _ a b Ha Hb). unfold had.
    rewrite (WGW (ftbu d V N) a b Ha Hb). reflexivity. }
  rewrite <- P. repeat rewrite fmul_assoc. reflexivity.
Qed.

(* V diag(g(ev)) V^dagger *)
Definition Gf (g : R -> Cx) (U : fmat) (e : nat -> R) : fmat := fmul d U (fmul d (fdiag (fun j => g (e j))) (fadj U)).
Theorem Gf_indep g : feq d (Gf g V ev) (Gf g V' ev').
Proof.
  unfold Gf. rewrite <- VW. rewrite fadj_mul.
  assert (P : feq d (fmul d Wm (fmul d (fdiag (fun j => g (ev' j))) (fadj Wm))) (fdiag (fun j => g (ev j)))).
  { intros a b Ha Hb.
    transitivity (fmul d Wm (fmul d (had (fun m n => (fun x _ => g x) (ev' m) (ev' n)) fid) (fadj Wm)) a b).
    { unfold fmul. apply csumn_ext. intros m' _. f_equal. apply csumn_ext. intros n' _. f_equal. apply fdiag_had. }
    rewrite (hadamard_pull (fun x _ => g x) fid a b Ha Hb).
    destruct W_unitary as [_ W2].
    assert (I : fmul d Wm (fmul d fid (fadj Wm)) a b = fid a b).
    { assert (J : feq d (fmul d Wm (fmul d fid (fadj Wm))) fid) by (rewrite fmul_id_l; exact W2). apply J; assumption. }
    rewrite I. unfold fdiag, fid. destruct (Nat.eqb a b); ring. }
  rewrite <- P. repeat rewrite fmul_assoc. reflexivity.
Qed.

(* the contraction of a step of the control matrix: tr( (F o V^dagger N V) V^dagger X V ) = tr( T_f(N) X ) *)
Theorem inner_indep f N X :
  ftr d (fmul d (had (Fev f ev) (ftbu d V N)) (ftbu d V X)) = ftr d (fmul d (had (Fev f ev') (ftbu d V' N)) (ftbu d V' X)).
Proof.
  assert (C : forall U e, ftr d (fmul d (had (Fev f e) (ftbu d U N)) (ftbu d U X)) = ftr d (fmul d (Tf f U e N) X)).
  { intros U e. unfold Tf. unfold ftbu at 2.
    rewrite (ftr_ext d _ (fmul d (fmul d (fmul d (had (Fev f e) (ftbu d U N)) (fadj U)) X) U)).
    2:{ repeat rewrite fmul_assoc. reflexivity. }
    rewrite ftr_cyclic. apply ftr_ext. repeat rewrite fmul_assoc. reflexivity. }
  rewrite !C. apply ftr_ext. rewrite Tf_indep. reflexivity.
Qed.
End Indep.

(* ================= the model's quantities ================= *)
Section Model.
Variable d : nat.
Variable thr : R.
Variables (om : list R) (bs ns : list (Mat (T:=R))).

Definition evf (evl : list R) : nat -> R := fun j => vg RO evl j.
(* two spectral decompositions (eigenvalues, eigenvectors) of one Hermitian matrix *)
Definition same_H (evl : list R) (Vm : Mat (T:=R)) (evl' : list R) (Vm' : Mat (T:=R)) : Prop :=
  funitary d (toF Vm) /\ funitary d (toF Vm') /\ feq d (Hof d (toF Vm) (evf evl)) (Hof d (toF Vm') (evf evl')).

(* numeric.diagonalize: the segment propagator is V exp(-i D dt) V^dagger *)
Lemma segprop_Gf evl Vm dt :
  feq d (toF (segment_propagator RO d evl Vm dt)) (Gf d (fun x => cexp' (- (dt * x))) (toF Vm) (evf evl)).
Proof.
  intros i k Hi Hk. unfold toF at 1, segment_propagator. rewrite mget_mbuild by assumption.
  transitivity (csumn' d (fun j => cmul' (toF Vm i j) (cmul' (cexp' (- (dt * evf evl j))) (fadj (toF Vm) j k)))).
  - apply csumn_ext. intros j Hj. unfold fadj, toF, evf. simpl. ring.
  - unfold Gf. unfold fmul at 1. apply csumn_ext. intros j Hj.
    rewrite (fmul_diag_l d _ (fadj (toF Vm)) j k Hj Hk). reflexivity.
Qed.
Lemma segprop_indep evl Vm evl' Vm' dt : same_H evl Vm evl' Vm' ->
  feq d (toF (segment_propagator RO d evl Vm dt)) (toF (segment_propagator RO d evl' Vm' dt)).
Proof.
  intros (H1 & H2 & H3). rewrite !segprop_Gf. apply Gf_indep; assumption.
Qed.

(* the contraction of one step as a trace *)
Lemma innerF_trace evl Vm dt w N (Q : Mat (T:=R)) (Cm : fmat) :
  innerF d thr evl Vm dt w N (ftbu d (Wf d Q Vm) Cm) =
  ftr d (fmul d (had (Fev (fun x y => foi_entry RO thr w x y dt) (evf evl)) (ftbu d (toF Vm) (toF N)))
                (ftbu d (toF Vm) (fmul d (toF Q) (fmul d Cm (fadj (toF Q)))))).
Proof.
  assert (E : feq d (ftbu d (Wf d Q Vm) Cm) (ftbu d (toF Vm) (fmul d (toF Q) (fmul d Cm (fadj (toF Q)))))).
  { unfold Wf, ftbu. rewrite fadj_mul. rewrite fadj_invol_feq. repeat rewrite fmul_assoc. reflexivity. }
  rewrite (innerF_ext d thr evl Vm dt w N _ _ E).
  unfold innerF, ftr, fmul. apply csumn_ext. intros m Hm. apply csumn_ext. intros n Hn.
  unfold had, Fev, evf, foi. rewrite mget_mbuild by assumption.
  pose proof (toF_tbu d Vm N m n Hm Hn) as T. unfold toF in T. rewrite T. unfold toF. ring.
Qed.

Lemma step_indep a k o evl Vm evl' Vm' Q Q' tg dt nc :
  (a < length ns)%nat -> (k < length bs)%nat -> (o < length om)%nat ->
  same_H evl Vm evl' Vm' -> feq d (toF Q) (toF Q') ->
  step_entry d thr om bs ns a k o evl Vm Q tg dt nc = step_entry d thr om bs ns a k o evl' Vm' Q' tg dt nc.
Proof.
  intros Ha Hk Ho (H1 & H2 & H3) HQ.
  rewrite !step_entry_eq by assumption. f_equal. f_equal.
  rewrite !innerF_trace.
  rewrite (inner_indep d (toF Vm) (toF Vm') (evf evl) (evf evl') H1 H2 H3).
  apply ftr_ext. rewrite HQ. reflexivity.
Qed.

(* segment-wise equivalent spectral data *)
Inductive same_segs : list (list R) -> list (Mat (T:=R)) -> list (list R) -> list (Mat (T:=R)) -> Prop :=
| ss_nil : same_segs [] [] [] []
| ss_cons evl Vm evl' Vm' evs Vs evs' Vs' :
    same_H evl Vm evl' Vm' -> same_segs evs Vs evs' Vs' -> same_segs (evl :: evs) (Vm :: Vs) (evl' :: evs') (Vm' :: Vs').

Lemma loop_indep a k o : (a < length ns)%nat -> (k < length bs)%nat -> (o < length om)%nat ->
  forall evs Vs evs' Vs', same_segs evs Vs evs' Vs' ->
  forall dts ncs Q Q' T0, feq d (toF Q) (toF Q') ->
  loop_sum (step_entry d thr om bs ns a k o) evs Vs (cumulative RO d evs Vs dts Q) (cumsum_from RO T0 dts) dts ncs =
  loop_sum (step_entry d thr om bs ns a k o) evs' Vs' (cumulative RO d evs' Vs' dts Q') (cumsum_from RO T0 dts) dts ncs.
Proof.
  intros Ha Hk Ho. induction 1 as [|evl Vm evl' Vm' evs Vs evs' Vs' HS Hrest IH]; intros dts ncs Q Q' T0 HQ.
  - reflexivity.
  - destruct dts as [|dt dts]; [reflexivity|]. destruct ncs as [|nc ncs]; [reflexivity|].
    simpl. f_equal.
    + apply step_indep; assumption.
    + apply IH. rewrite !toF_mmul. rewrite HQ. rewrite (segprop_indep evl Vm evl' Vm' dt HS). reflexivity.
Qed.

(* the control matrix computed from scratch (propagators and times recomputed) does not depend on which
   eigen-decomposition of each segment's Hamiltonian is used *)
Theorem cm_eig_independent (p q : piece (T:=R)) a k o :
  (a < length ns)%nat -> (k < length bs)%nat -> (o < length om)%nat ->
  same_segs (pc_evs p) (pc_Vs p) (pc_evs q) (pc_Vs q) -> pc_dts q = pc_dts p -> pc_nc q = pc_nc p ->
  a3get RO (piece_cm RO d thr om bs ns p) a k o = a3get RO (piece_cm RO d thr om bs ns q) a k o.
Proof.
  intros Ha Hk Ho HS Hd Hn. rewrite !piece_cm_entry by assumption.
  unfold seg_nc. rewrite Hd, Hn. apply loop_indep; auto. reflexivity.
Qed.

(* the total propagator does not depend on the decomposition either *)
Theorem total_eig_independent : forall evs Vs evs' Vs', same_segs evs Vs evs' Vs' ->
  forall dts Q Q', feq d (toF Q) (toF Q') ->
  feq d (toF (cum_last d evs Vs dts Q)) (toF (cum_last d evs' Vs' dts Q')).
Proof.
  induction 1 as [|evl Vm evl' Vm' evs Vs evs' Vs' HS Hrest IH]; intros dts Q Q' HQ; simpl; auto.
  destruct dts as [|dt dts]; auto.
  apply IH. rewrite !toF_mmul. rewrite HQ. rewrite (segprop_indep evl Vm evl' Vm' dt HS). reflexivity.
Qed.

(* ATOMIC RULE for the concatenated pulse's OWN eigen-decomposition q: whatever eigh returns for the sequenced
   pulse (segment-wise a unitary decomposition of the same Hamiltonians), its from-scratch control matrix equals
   what calculate_control_matrix_from_atomic returns for the inputs *)
Theorem atomic_rule_own_eig (ps : list (piece (T:=R))) (q : piece (T:=R)) a k o :
  (forall l, (l < length bs)%nat -> fherm d (Cf bs l)) ->
  (forall X : fmat, feq d X (flin (length bs) (fun l => ftr d (fmul d (Cf bs l) X)) (Cf bs))) ->
  Forall (wf_piece ns) ps ->
  same_segs (pc_evs (cat_piece (length ns) ps)) (pc_Vs (cat_piece (length ns) ps)) (pc_evs q) (pc_Vs q) ->
  pc_dts q = pc_dts (cat_piece (length ns) ps) -> pc_nc q = pc_nc (cat_piece (length ns) ps) ->
  (a < length ns)%nat -> (k < length bs)%nat -> (o < length om)%nat ->
  a3get RO (piece_cm RO d thr om bs ns q) a k o = a3get RO (concat_atomic RO d thr om bs ns ps) a k o.
Proof.
  intros Hh Hc Hwf HS Hd Hn Ha Hk Ho.
  rewrite <- (cm_eig_independent (cat_piece (length ns) ps) q a k o Ha Hk Ho HS Hd Hn).
  apply atomic_rule; assumption.
Qed.
End Model.

(* the hypothesis is satisfiable non-trivially: a degenerate Hamiltonian (H = 1) with two different eigenbases *)
Definition exI : Mat (T:=R) := [[(1,0); (0,0)]; [(0,0); (1,0)]].
Definition exRot : Mat (T:=R) := [[(3/5,0); (4/5,0)]; [(-4/5,0); (3/5,0)]].
Example same_H_satisfiable : same_H 2 [1; 1] exI [1; 1] exRot.
Proof.
  unfold same_H, funitary, Hof. repeat split; intros i j Hi Hj;
  destruct i as [|[|i]]; try lia; destruct j as [|[|j]]; try lia;
  unfold fmul, fadj, fdiag, fid, toF, mget, evf, vg, vget; simpl; apply c_eq; csimp; field.
Qed.
