(* C11 -- analytic gradients (model: Model/Gradient.v) over the reals.
   A. gradient._derivative_integral: every branch is the parameter integral
        int_0^dt e^{i x t} ( int_0^t e^{i b s} ds ) dt ,   x = w + Omega_mn , b = Omega_pq ,
      the masked branches being its values at x = 0, x + b = 0, b = 0 (limits consistent);
      every division is guarded by a mask.
   B. filter function derivative  dF = 2 Re sum_k conj(B_k) dB_k.
   C. assembly: product rule for sum_g B^(g) Q^(g).
   D. the (removed, fix 083da5e) d == 2 shortcut equals the general branch for traceless operators only.
   E. _liouville_derivative: every division is guarded by the degeneracy mask (fix 8c041e1); A_mat is int_0^dt e^{i Omega t} dt.
   F. derivative of the Liouville representation from the derivative of the propagator
      (Duhamel's formula for the segment propagator is a Section hypothesis).
   G. identifier selection returns the slice of the full derivative; spectrum shapes.        *)
From Coq Require Import ZArith Reals Lra Lia List Bool String.
From Coquelicot Require Import Coquelicot.
From FF Require Import Base.Ops Inst.RInst Base.RAlg Model.Numeric Model.Gradient Proofs.Foi Proofs.MatAlg.
Import ListNotations.
Local Open Scope R_scope.

(* ================================================================== A. derivative integral *)
(* equalities produced by Coquelicot lemmas are stated at the carrier of a canonical structure *)
Ltac Req := match goal with |- @eq _ ?a ?b => change (@eq R a b) end.
Lemma cite_true (x y : Cx) : cite RO true x y = x.
Proof. destruct x; reflexivity. Qed.
Lemma cite_false (x y : Cx) : cite RO false x y = y.
Proof. destruct y; reflexivity. Qed.
Lemma ltabs_true x thr : Rabs x < thr -> ltabs RO x thr = true.
Proof. intros H. unfold ltabs; simpl. apply Rgtb_true; exact H. Qed.
Lemma ltabs_false x thr : thr <= Rabs x -> ltabs RO x thr = false.
Proof. intros H. unfold ltabs; simpl. apply Rgtb_false; exact H. Qed.

(* int_0^T cos(a t) dt and int_0^T sin(a t) dt for every a (a = 0 included) *)
Definition Ic (a T : R) : R := if Req_EM_T a 0 then T else sin (a * T) / a.
Definition Is (a T : R) : R := if Req_EM_T a 0 then 0 else (1 - cos (a * T)) / a.
Lemma Ic_RInt a T : is_RInt (fun t => cos (a * t)) 0 T (Ic a T).
Proof. unfold Ic. destruct (Req_EM_T a 0) as [->|H]. apply int_cos0. apply int_cos; auto. Qed.
Lemma Is_RInt a T : is_RInt (fun t => sin (a * t)) 0 T (Is a T).
Proof. unfold Is. destruct (Req_EM_T a 0) as [->|H]. apply int_sin0. apply int_sin; auto. Qed.
Lemma Ic_0 T : Ic 0 T = T. Proof. unfold Ic. destruct (Req_EM_T 0 0); auto. lra. Qed.
Lemma Is_0 T : Is 0 T = 0. Proof. unfold Is. destruct (Req_EM_T 0 0); auto. lra. Qed.
Lemma Ic_nz a T : a <> 0 -> Ic a T = sin (a * T) / a.
Proof. intros H. unfold Ic. destruct (Req_EM_T a 0); auto. contradiction. Qed.
Lemma Is_nz a T : a <> 0 -> Is a T = (1 - cos (a * T)) / a.
Proof. intros H. unfold Is. destruct (Req_EM_T a 0); auto. contradiction. Qed.

(* the integrand e^{i x t} * int_0^t e^{i b s} ds, real and imaginary part *)
Definition dint_re (x b t : R) : R := cos (x * t) * Ic b t - sin (x * t) * Is b t.
Definition dint_im (x b t : R) : R := cos (x * t) * Is b t + sin (x * t) * Ic b t.
(* the inner integral really is the integral of e^{i b s} over [0, t] *)
Lemma inner_integral b t : is_RInt (fun s => cos (b * s)) 0 t (Ic b t) /\ is_RInt (fun s => sin (b * s)) 0 t (Is b t).
Proof. split; [apply Ic_RInt | apply Is_RInt]. Qed.

(* b <> 0: the integrand is (e^{i(x+b)t} - e^{ixt})/(ib) *)
Lemma dint_re_nz x b t : b <> 0 -> dint_re x b t = (sin ((x + b) * t) - sin (x * t)) / b.
Proof.
  intros Hb. unfold dint_re. rewrite Ic_nz, Is_nz by auto.
  replace ((x + b) * t) with (x * t + b * t) by ring. rewrite sin_plus. field; auto.
Qed.
Lemma dint_im_nz x b t : b <> 0 -> dint_im x b t = (cos (x * t) - cos ((x + b) * t)) / b.
Proof.
  intros Hb. unfold dint_im. rewrite Ic_nz, Is_nz by auto.
  replace ((x + b) * t) with (x * t + b * t) by ring. rewrite cos_plus. field; auto.
Qed.
Lemma dint_re_z x t : dint_re x 0 t = t * cos (x * t).
Proof. unfold dint_re. rewrite Ic_0, Is_0. ring. Qed.
Lemma dint_im_z x t : dint_im x 0 t = t * sin (x * t).
Proof. unfold dint_im. rewrite Ic_0, Is_0. ring. Qed.

(* int_0^T t cos(x t) dt, int_0^T t sin(x t) dt *)
Lemma int_tcos x T : x <> 0 ->
  is_RInt (fun t => t * cos (x * t)) 0 T (sin (x * T) / x * T + (cos (x * T) / x - 1 / x) / x).
Proof.
  intros Hx. evar_last.
  apply (is_RInt_derive (fun t => t * sin (x * t) / x + cos (x * t) / (x * x))).
  - intros t _. auto_derive; auto. field; auto.
  - intros t _. apply continuity_pt_filterlim.
    apply continuity_pt_mult. apply derivable_continuous_pt, derivable_pt_id.
    apply (continuity_pt_comp (fun t => x * t) cos).
    + apply continuity_pt_mult; [apply continuity_pt_const; intros ? ?; reflexivity | apply derivable_continuous_pt, derivable_pt_id].
    + apply continuity_cos.
  - unfold minus, plus, opp; simpl. rewrite Rmult_0_r, sin_0, cos_0. field; auto.
Qed.
Lemma int_tsin x T : x <> 0 ->
  is_RInt (fun t => t * sin (x * t)) 0 T (- (cos (x * T) / x * T) + sin (x * T) / x / x).
Proof.
  intros Hx. evar_last.
  apply (is_RInt_derive (fun t => - t * cos (x * t) / x + sin (x * t) / (x * x))).
  - intros t _. auto_derive; auto. field; auto.
  - intros t _. apply continuity_pt_filterlim.
    apply continuity_pt_mult. apply derivable_continuous_pt, derivable_pt_id.
    apply (continuity_pt_comp (fun t => x * t) sin).
    + apply continuity_pt_mult; [apply continuity_pt_const; intros ? ?; reflexivity | apply derivable_continuous_pt, derivable_pt_id].
    + apply continuity_sin.
  - unfold minus, plus, opp; simpl. rewrite Rmult_0_r, sin_0, cos_0. field; auto.
Qed.
Lemma int_t T : is_RInt (fun t => t) 0 T (T * T / 2).
Proof.
  evar_last. apply (is_RInt_derive (fun t => t * t / 2)).
  - intros t _. auto_derive; auto. field.
  - intros t _. apply continuity_pt_filterlim. apply derivable_continuous_pt, derivable_pt_id.
  - unfold minus, plus, opp; simpl. field.
Qed.

(* model values of the pieces over the reals *)
Lemma nonzero_true x : x <> 0 -> nonzero RO x = true.
Proof. intros H. unfold nonzero; simpl. apply Rgtb_true. apply Rabs_pos_lt; auto. Qed.
Lemma nonzero_false : nonzero RO 0 = false.
Proof. unfold nonzero; simpl. apply Rgtb_false. rewrite Rabs_R0. lra. Qed.
(* an unmasked quantity is non-zero *)
Lemma unmasked_nz thr x dt : 0 < thr -> thr <= Rabs (x * dt) -> x <> 0.
Proof. intros H0 H ->. rewrite Rmult_0_l, Rabs_R0 in H. lra. Qed.

(* tmp2 = i * int_0^dt e^{i x t} dt for EVERY x, dt: the half-angle form 2i sin(x dt/2) e^{i x dt/2}/x is the
   same number as (e^{i x dt} - 1)/x, and the exact-zero test only returns the value of the integral at x dt = 0 *)
Lemma di_tmp2_val x dt : di_tmp2 RO x dt = (- Is x dt, Ic x dt).
Proof.
  unfold di_tmp2. change (omul RO x dt) with (x * dt).
  destruct (Req_dec (x * dt) 0) as [E|E].
  - rewrite E, nonzero_false, cite_false.
    destruct (Req_dec x 0) as [->|Hx].
    + rewrite Ic_0, Is_0. apply c_eq; simpl; ring.
    + rewrite Ic_nz, Is_nz by auto. rewrite E, sin_0, cos_0.
      assert (dt = 0) by (apply Rmult_integral in E; destruct E; [contradiction|auto]). subst.
      apply c_eq; simpl; field; auto.
  - assert (Hx : x <> 0) by (intros ->; apply E; ring).
    rewrite nonzero_true by auto. rewrite cite_true. rewrite Ic_nz, Is_nz by auto.
    change (odiv RO (x * dt) (o2 RO)) with (x * dt / (1 + 1)). set (h := x * dt / (1 + 1)).
    replace (x * dt) with (2 * h) by (unfold h; field).
    rewrite sin_2a, cos_2a_sin. unfold o2; simpl. apply c_eq; simpl; field; auto.
Qed.

(* Horner evaluation of the Taylor polynomial at 0 *)
Lemma horner_0 : horner RO (di_series_coeffs RO) 0 = (1 / 2, 0).
Proof. unfold horner, di_series_coeffs, oZ; simpl. unfold Rdya; simpl. apply c_eq; simpl; field. Qed.

Theorem di_tmp1_exact thr_s x dt : 0 < thr_s -> (Rabs (x * dt) < thr_s -> x = 0) ->
  is_RInt (dint_re x 0) 0 dt (fst (di_tmp1 RO thr_s x dt)) /\
  is_RInt (dint_im x 0) 0 dt (snd (di_tmp1 RO thr_s x dt)).
Proof.
  intros H0 Hm. unfold di_tmp1. change (omul RO x dt) with (x * dt).
  destruct (Rlt_le_dec (Rabs (x * dt)) thr_s) as [H|H].
  - rewrite ltabs_true by exact H. rewrite cite_true. rewrite (Hm H). rewrite Rmult_0_l, horner_0. simpl. split.
    + apply (is_RInt_ext (fun t => t)). intros t _. Req. rewrite dint_re_z, Rmult_0_l, cos_0. ring.
      evar_last. apply int_t. field.
    + apply (is_RInt_ext (fun _ => 0)). intros t _. Req. rewrite dint_im_z, Rmult_0_l, sin_0. ring.
      evar_last. apply @is_RInt_const. unfold scal; simpl; unfold mult; simpl. ring.
  - assert (Hx : x <> 0) by exact (unmasked_nz thr_s x dt H0 H).
    rewrite ltabs_false by exact H. rewrite cite_false. rewrite di_tmp2_val.
    rewrite Ic_nz, Is_nz by auto. split.
    + apply (is_RInt_ext (fun t => t * cos (x * t))). intros t _. Req. rewrite dint_re_z. ring.
      evar_last. apply int_tcos; auto. unfold cdivr, csub, cmul, cexp; simpl. field; auto.
    + apply (is_RInt_ext (fun t => t * sin (x * t))). intros t _. Req. rewrite dint_im_z. ring.
      evar_last. apply int_tsin; auto. unfold cdivr, csub, cmul, cexp; simpl. field; auto.
Qed.

(* the case Omega_pq != 0 is exact for every x: no small-denominator window is left *)
Theorem di_nz_exact x b dt : b <> 0 ->
  is_RInt (dint_re x b) 0 dt (fst (di_nz RO x b dt)) /\
  is_RInt (dint_im x b) 0 dt (snd (di_nz RO x b dt)).
Proof.
  intros Hb.
  assert (E : di_nz RO x b dt = ((Is (x + b) dt - Is x dt) / b, (Ic x dt - Ic (x + b) dt) / b)).
  { unfold di_nz. rewrite !di_tmp2_val. change (oadd RO x b) with (x + b).
    unfold cdivr, cadd, cneg; apply c_eq; simpl; field; auto. }
  rewrite E. simpl. split.
  - apply (is_RInt_ext (fun t => scal (/ b) (minus (sin ((x + b) * t)) (sin (x * t))))).
    intros t _. Req. rewrite dint_re_nz by auto. unfold scal, minus, plus, opp; simpl; unfold mult; simpl. field; auto.
    evar_last. apply (is_RInt_scal (V:=R_NormedModule)). apply (is_RInt_minus (V:=R_NormedModule)); apply Is_RInt.
    unfold scal, minus, plus, opp; simpl; unfold mult; simpl. field; auto.
  - apply (is_RInt_ext (fun t => scal (/ b) (minus (cos (x * t)) (cos ((x + b) * t))))).
    intros t _. Req. rewrite dint_im_nz by auto. unfold scal, minus, plus, opp; simpl; unfold mult; simpl. field; auto.
    evar_last. apply (is_RInt_scal (V:=R_NormedModule)). apply (is_RInt_minus (V:=R_NormedModule)); apply Ic_RInt.
    unfold scal, minus, plus, opp; simpl; unfold mult; simpl. field; auto.
Qed.

Definition di_b (ev : list R) (p q : nat) : R := vg RO ev p - vg RO ev q.
Definition di_x (w : R) (ev : list R) (m n : nat) : R := w + (vg RO ev m - vg RO ev n).

(* Every entry of the derivative integral is the parameter integral.  The case Omega_pq != 0 is exact without
   any condition; Omega_pq is treated as 0 when |Omega_pq dt| < thr_dE (exact if it is 0), and in the case
   Omega_pq == 0 the Taylor polynomial is used for |x dt| < thr_s (exact at x = 0: the limit dt^2/2). *)
Theorem deriv_integral_cases thr_dE thr_s w ev dt p q m n :
  0 < thr_dE -> 0 < thr_s ->
  (Rabs (di_b ev p q * dt) < thr_dE -> di_b ev p q = 0) ->
  (Rabs (di_b ev p q * dt) < thr_dE -> Rabs (di_x w ev m n * dt) < thr_s -> di_x w ev m n = 0) ->
  is_RInt (dint_re (di_x w ev m n) (di_b ev p q)) 0 dt
          (fst (deriv_integral_entry RO (thr_dE, thr_s) w ev dt p q m n)) /\
  is_RInt (dint_im (di_x w ev m n) (di_b ev p q)) 0 dt
          (snd (deriv_integral_entry RO (thr_dE, thr_s) w ev dt p q m n)).
Proof.
  intros H1 H2 Hb Hx. unfold deriv_integral_entry. cbn [fst snd].
  change (osub RO (vg RO ev p) (vg RO ev q)) with (di_b ev p q).
  change (oadd RO w (osub RO (vg RO ev m) (vg RO ev n))) with (di_x w ev m n).
  change (omul RO (di_b ev p q) dt) with (di_b ev p q * dt).
  destruct (Rlt_le_dec (Rabs (di_b ev p q * dt)) thr_dE) as [H|H].
  - rewrite ltabs_true by exact H. rewrite cite_true. rewrite (Hb H). apply di_tmp1_exact; auto.
  - rewrite ltabs_false by exact H. rewrite cite_false. apply di_nz_exact.
    exact (unmasked_nz thr_dE _ dt H1 H).
Qed.

(* the entry depends on the eigenvalues only through the two differences *)
Lemma deriv_integral_entry_diag th2 w ev dt p p' m n :
  deriv_integral_entry RO th2 w ev dt p p m n = deriv_integral_entry RO th2 w ev dt p' p' m n.
Proof.
  unfold deriv_integral_entry. simpl.
  replace (vg RO ev p - vg RO ev p) with 0 by ring. replace (vg RO ev p' - vg RO ev p') with 0 by ring. reflexivity.
Qed.
Lemma deriv_integral_entry_diag2 th2 w ev dt p q m m' :
  deriv_integral_entry RO th2 w ev dt p q m m = deriv_integral_entry RO th2 w ev dt p q m' m'.
Proof.
  unfold deriv_integral_entry. simpl.
  replace (vg RO ev m - vg RO ev m) with 0 by ring. replace (vg RO ev m' - vg RO ev m') with 0 by ring. reflexivity.
Qed.

(* no division outside a guard: a denominator under a threshold mask is used only when the mask is false, a
   denominator under an exact-zero test only when the test x != 0 is true; it is non-zero in both cases *)
Theorem di_div_safe thr_dE thr_s w ev dt p q m n : 0 < thr_dE -> 0 < thr_s ->
  (forall bx, In bx (di_denoms_masked RO (thr_dE, thr_s) w ev dt p q m n) -> fst bx = false -> snd bx <> 0) /\
  (forall bx, In bx (di_denoms_nz RO w ev dt p q m n) -> fst bx = true -> snd bx <> 0).
Proof.
  intros H1 H2. split; intros bx Hin Hf; simpl in Hin.
  - assert (P : forall x thr, 0 < thr -> ltabs RO (omul RO x dt) thr = false -> x <> 0).
    { intros x thr Ht Hm ->. unfold ltabs in Hm; simpl in Hm. apply Rgtb_false in Hm.
      rewrite Rmult_0_l, Rabs_R0 in Hm. lra. }
    destruct Hin as [<-|[<-|[]]]; simpl in *.
    + exact (P _ _ H1 Hf).
    + exact (P _ _ H2 Hf).
  - assert (P : forall x, nonzero RO (omul RO x dt) = true -> x <> 0).
    { intros x Hm ->. change (omul RO 0 dt) with (0 * dt) in Hm. rewrite Rmult_0_l, nonzero_false in Hm. discriminate. }
    destruct Hin as [<-|[<-|[]]]; simpl in *; exact (P _ Hf).
Qed.

(* a positive dyadic m * 2^-k with m < 2^k lies in (0, 1): the extracted thresholds *)
Lemma Rdya_small m k : (0 < m)%Z -> (m < 2 ^ Z.of_nat k)%Z -> 0 < Rdya m (- Z.of_nat k) < 1.
Proof.
  intros Hm Hk. unfold Rdya.
  assert (P : 0 < powerRZ 2 (- Z.of_nat k)) by (apply powerRZ_lt; lra).
  assert (Q : powerRZ 2 (- Z.of_nat k) * powerRZ 2 (Z.of_nat k) = 1).
  { rewrite <- powerRZ_add by lra. replace (- Z.of_nat k + Z.of_nat k)%Z with 0%Z by lia. reflexivity. }
  assert (S : powerRZ 2 (Z.of_nat k) = IZR (2 ^ Z.of_nat k)).
  { rewrite <- pow_powerRZ. rewrite <- pow_IZR. reflexivity. }
  assert (Pk : 0 < powerRZ 2 (Z.of_nat k)) by (apply powerRZ_lt; lra).
  split. apply Rmult_lt_0_compat; auto. apply IZR_lt; auto.
  apply (Rmult_lt_reg_r (powerRZ 2 (Z.of_nat k))); auto.
  rewrite Rmult_assoc, Q, Rmult_1_r, Rmult_1_l, S. apply IZR_lt; auto.
Qed.

(* ================================================================== B. filter function derivative *)
Lemma is_derive_Rmult (f g : R -> R) x lf lg : is_derive f x lf -> is_derive g x lg ->
  is_derive (fun t => f t * g t) x (lf * g x + f x * lg).
Proof. intros F G. apply (is_derive_mult f g x lf lg F G Rmult_comm). Qed.

Lemma cderive_mul f g x lf lg : cderive f x lf -> cderive g x lg ->
  cderive (fun t => cmul' (f t) (g t)) x (cadd' (cmul' lf (g x)) (cmul' (f x) lg)).
Proof.
  intros [F1 F2] [G1 G2]. split; simpl.
  - evar_last. apply @is_derive_minus; apply is_derive_Rmult; eassumption.
    unfold minus, plus, opp; simpl. ring.
  - evar_last. apply @is_derive_plus; apply is_derive_Rmult; eassumption.
    unfold plus; simpl. ring.
Qed.
Lemma cderive_conj f x l : cderive f x l -> cderive (fun t => cconj' (f t)) x (cconj' l).
Proof. intros [F1 F2]. split; simpl. exact F1. apply @is_derive_opp. exact F2. Qed.
(* real function times complex function *)
Lemma cderive_cscal (r : R -> R) f x lr lf : is_derive r x lr -> cderive f x lf ->
  cderive (fun t => cscal RO (r t) (f t)) x (cadd' (cscal RO lr (f x)) (cscal RO (r x) lf)).
Proof.
  intros Hr [F1 F2]. split; simpl; apply is_derive_Rmult; assumption.
Qed.

(* F_aa(w) = sum_k |B_ak(w)|^2, the diagonal of numeric.calculate_filter_function *)
Definition ff_diag (n : nat) (Bk : nat -> Cx) : R := fst (csumn' n (fun k => cmul' (cconj' (Bk k)) (Bk k))).

Lemma fst_csumn_sym n (a b : nat -> Cx) :
  fst (csumn' n (fun k => cadd' (cmul' (cconj' (b k)) (a k)) (cmul' (cconj' (a k)) (b k))))
  = 2 * fst (csumn' n (fun k => cmul' (cconj' (a k)) (b k))).
Proof.
  induction n; simpl. ring. rewrite IHn. ring.
Qed.

(* dF = 2 Re sum_k conj(B_k) dB_k : the expression of calculate_filter_function_derivative *)
Theorem ff_deriv n (Bk : nat -> R -> Cx) (dBk : nat -> Cx) u :
  (forall k, (k < n)%nat -> cderive (Bk k) u (dBk k)) ->
  is_derive (fun v => ff_diag n (fun k => Bk k v)) u (ffd_entry RO n (fun k => Bk k u) dBk).
Proof.
  intros H.
  assert (D : cderive (fun v => csumn' n (fun k => cmul' (cconj' (Bk k v)) (Bk k v))) u
                (csumn' n (fun k => cadd' (cmul' (cconj' (dBk k)) (Bk k u)) (cmul' (cconj' (Bk k u)) (dBk k))))).
  { apply (cderive_csumn n (fun k v => cmul' (cconj' (Bk k v)) (Bk k v))). intros k Hk.
    apply cderive_mul. apply cderive_conj. apply H; auto. apply H; auto. }
  destruct D as [D _]. unfold ff_diag, ffd_entry. evar_last. exact D.
  rewrite fst_csumn_sym. unfold o2; simpl. ring.
Qed.

(* the diagonal of the model's filter function is ff_diag of the control-matrix row *)
Lemma a3get_a3build n1 n2 n3 (f : nat -> nat -> nat -> Cx) a k o : (a < n1)%nat -> (k < n2)%nat -> (o < n3)%nat ->
  a3get RO (a3build n1 n2 n3 f) a k o = f a k o.
Proof. intros. unfold a3get, a3build. rewrite !nth_build by auto. reflexivity. Qed.
Lemma ff_diag_filter_function na nk no Bm a o : (a < na)%nat -> (o < no)%nat ->
  fst (a3get RO (filter_function RO na nk no Bm) a a o) = ff_diag nk (fun k => a3get RO Bm a k o).
Proof. intros Ha Ho. unfold filter_function. rewrite a3get_a3build by auto. reflexivity. Qed.

(* ================================================================== C. assembly (product rule) *)
Lemma csumn_shift n (f : nat -> Cx) : csumn' (S n) f = cadd' (f O) (csumn' n (fun k => f (S k))).
Proof. induction n. simpl; ring. rewrite csumn_S, IHn. simpl. ring. Qed.
Lemma csumn_single n s (f : nat -> Cx) : (s < n)%nat -> (forall g, (g < n)%nat -> g <> s -> f g = 0c) ->
  csumn' n f = f s.
Proof.
  intros Hs H. rewrite <- (csumn_delta n s f Hs). apply csumn_ext. intros k Hk.
  destruct (Nat.eqb_spec s k) as [->|Hne]; auto.
Qed.
Lemma cscal_0_l z : cscal RO 0 z = 0c. Proof. cring. Qed.
Lemma cscal_0_r x : cscal RO x 0c = 0c. Proof. cring. Qed.

(* the total control matrix entry assembled from the segments: sum_g sum_j B^(g)_j Q^(g)_jk *)
Definition cm_total (G nj : nat) (Bg : nat -> nat -> Cx) (Lg : nat -> nat -> nat -> R) (k : nat) : Cx :=
  csumn' G (fun g => csumn' nj (fun j => cscal RO (Lg g j k) (Bg g j))).

(* If, as functions of the amplitude u = u_h(t_s), the segment control matrices B^(g) (phase
   included) and the Liouville propagators Q^(g) are differentiable, only segment s's control
   matrix depends on u and Q^(0) = 1 is constant, then the assembled expression of
   calculate_derivative_of_control_matrix_from_scratch is the derivative of the total.       *)
Theorem assembly_product_rule G nj s k (Bg : nat -> nat -> R -> Cx) (Lg : nat -> nat -> nat -> R -> R)
        (dB : nat -> nat -> Cx) (dL : nat -> nat -> nat -> R) u :
  (s < G)%nat ->
  (forall g j, (g < G)%nat -> (j < nj)%nat -> cderive (Bg g j) u (dB g j)) ->
  (forall g j, (g < G)%nat -> (j < nj)%nat -> is_derive (Lg g j k) u (dL g j k)) ->
  (forall g j, (g < G)%nat -> (j < nj)%nat -> g <> s -> dB g j = 0c) ->
  (forall j, (j < nj)%nat -> dL O j k = 0) ->
  cderive (fun v => cm_total G nj (fun g j => Bg g j v) (fun g j k' => Lg g j k' v) k) u
    (assemble_entry RO nj G (dB s) (fun j k' => Lg s j k' u) (fun g j => Bg g j u)
                    (fun t j k' => dL (S t) j k') k).
Proof.
  intros Hs HB HL Hloc H0.
  assert (D : cderive (fun v => cm_total G nj (fun g j => Bg g j v) (fun g j k' => Lg g j k' v) k) u
     (csumn' G (fun g => csumn' nj (fun j =>
        cadd' (cscal RO (dL g j k) (Bg g j u)) (cscal RO (Lg g j k u) (dB g j)))))).
  { unfold cm_total.
    apply (cderive_csumn G (fun g v => csumn' nj (fun j => cscal RO (Lg g j k v) (Bg g j v)))). intros g Hg.
    apply (cderive_csumn nj (fun j v => cscal RO (Lg g j k v) (Bg g j v))). intros j Hj.
    apply cderive_cscal; auto. }
  replace (assemble_entry RO nj G (dB s) (fun j k' => Lg s j k' u) (fun g j => Bg g j u)
             (fun t j k' => dL (S t) j k') k)
    with (csumn' G (fun g => csumn' nj (fun j =>
            cadd' (cscal RO (dL g j k) (Bg g j u)) (cscal RO (Lg g j k u) (dB g j))))); [exact D|].
  unfold assemble_entry.
  rewrite (csumn_ext G _ (fun g => cadd' (csumn' nj (fun j => cscal RO (dL g j k) (Bg g j u)))
                                        (csumn' nj (fun j => cscal RO (Lg g j k u) (dB g j)))))
    by (intros g _; apply csumn_add).
  rewrite csumn_add. rewrite cadd_comm. f_equal.
  - (* only segment s contributes to the first term *)
    rewrite (csumn_single G s) ; auto.
    intros g Hg Hne. rewrite (csumn_ext nj _ (fun _ => 0c)). apply csumn_0.
    intros j Hj. rewrite (Hloc g j Hg Hj Hne). apply cscal_0_r.
  - (* the g = 0 term of the second sum vanishes, the rest is the shifted sum *)
    destruct G as [|G']. lia. rewrite csumn_shift.
    rewrite (csumn_ext nj (fun j => cscal RO (dL O j k) (Bg O j u)) (fun _ => 0c)).
    2:{ intros j Hj. rewrite (H0 j Hj). apply cscal_0_l. }
    rewrite csumn_0, cadd_0_l. reflexivity.
Qed.

(* ================================================================== D. the d == 2 shortcut (removed by fix 083da5e) *)
(* the code now uses the general expression for every d *)
Theorem M_entry_general d DI (Cb NT : Mat) r c : M_entry RO d DI Cb NT r c = Mgen_entry RO d DI Cb NT r c.
Proof. reflexivity. Qed.

(* --- the pre-fix code:  if d == 2:  M[..., mask] -= M[..., mask][..., ::-1];  M[..., ~mask] *= 2 --- *)
Definition flip01 (r : nat) : nat := match r with O => 1%nat | S _ => O end.
Definition Mshort_entry_prefix (DI : nat -> nat -> nat -> nat -> Cx) (Cb NT : Mat) (r c : nat) : Cx :=
  if Nat.eqb r c then csub' (M1_entry RO 2 DI Cb NT r r) (M1_entry RO 2 DI Cb NT (flip01 r) (flip01 r))
  else cscal RO (o2 RO) (M1_entry RO 2 DI Cb NT r c).
Definition M_entry_prefix (d : nat) DI (Cb NT : Mat) (r c : nat) : Cx :=
  if Nat.eqb d 2 then Mshort_entry_prefix DI Cb NT r c else Mgen_entry RO d DI Cb NT r c.

Lemma cscal_2 z : cscal RO (o2 RO) z = cadd' z z.
Proof. apply c_eq; unfold o2; csimp; ring. Qed.
Lemma cadd_eq0_neg (a b : Cx) : cadd' a b = 0c -> b = cneg' a.
Proof. intros H. replace b with (csub' (cadd' a b) a) by ring. rewrite H. ring. Qed.

(* For d = 2 and traceless (transformed) control and noise operators the shortcut equalled the
   general branch, for every tensor DI that depends on (p,q) and (m,n) only through the
   eigenvalue differences (DI[p,p,..] = DI[p',p',..], DI[..,m,m] = DI[..,m',m']).            *)
Theorem d2_shortcut_eq_general_traceless (DI : nat -> nat -> nat -> nat -> Cx) (Cb NT : Mat) :
  (forall p p' m n, DI p p m n = DI p' p' m n) ->
  (forall p q m m', DI p q m m = DI p q m' m') ->
  mtrace RO 2 Cb = 0c -> mtrace RO 2 NT = 0c ->
  forall r c, (r < 2)%nat -> (c < 2)%nat ->
  Mshort_entry_prefix DI Cb NT r c = Mgen_entry RO 2 DI Cb NT r c.
Proof.
  intros Hpp Hmm HC HN r c Hr Hc.
  unfold mtrace in HC, HN. simpl in HC, HN. rewrite cadd_0_l in HC, HN.
  apply cadd_eq0_neg in HC. apply cadd_eq0_neg in HN.
  assert (E1 : forall m n, DI 1%nat 1%nat m n = DI O O m n) by (intros; apply Hpp).
  assert (E2 : forall p q, DI p q 1%nat 1%nat = DI p q O O) by (intros; apply Hmm).
  destruct r as [|[|r]]; [| |lia]; (destruct c as [|[|c]]; [| |lia]);
    unfold Mshort_entry_prefix, Mgen_entry, M1_entry, M2_entry; simpl;
    rewrite ?E1, ?E2, ?HC, ?HN, ?cscal_2; ring.
Qed.

(* tracelessness is preserved by the transformation into the eigenbasis *)
Lemma trace_transform d (V A : fmat) : funitary d V ->
  ftr d (fmul d (fadj V) (fmul d A V)) = ftr d A.
Proof.
  intros [_ HV]. rewrite ftr_cyclic.
  rewrite (ftr_ext d _ (fmul d A (fmul d V (fadj V)))) by (symmetry; apply fmul_assoc).
  apply ftr_ext. rewrite HV. apply fmul_id_r.
Qed.

(* on the double diagonal at w = 0 the entry is the limit value dt^2/2 *)
Lemma di_diag_w0 thr_dE thr_s ev dt p m : 0 < thr_dE -> 0 < thr_s ->
  deriv_integral_entry RO (thr_dE, thr_s) 0 ev dt p p m m = (dt * dt * (1 / 2), 0).
Proof.
  intros H1 H2. unfold deriv_integral_entry. cbn [fst snd].
  change (osub RO (vg RO ev p) (vg RO ev p)) with (vg RO ev p - vg RO ev p).
  change (oadd RO 0 (osub RO (vg RO ev m) (vg RO ev m))) with (0 + (vg RO ev m - vg RO ev m)).
  replace (vg RO ev p - vg RO ev p) with 0 by ring.
  replace (0 + (vg RO ev m - vg RO ev m)) with 0 by ring.
  change (omul RO 0 dt) with (0 * dt). rewrite Rmult_0_l.
  rewrite ltabs_true by (rewrite Rabs_R0; auto). rewrite cite_true.
  unfold di_tmp1. change (omul RO 0 dt) with (0 * dt). rewrite Rmult_0_l.
  rewrite ltabs_true by (rewrite Rabs_R0; auto). rewrite cite_true. rewrite horner_0.
  apply c_eq; simpl; ring.
Qed.

(* Pre-fix refutation for non-traceless operators: a non-degenerate segment (eigenvalues 0 and 1), w = 0,
   dt = 1, control and noise operator both the projector diag(1, 0) (in the eigenbasis):
   the general branch gives M[0,0] = 0, the shortcut gave dt^2/2.  Any positive thresholds.      *)
Definition proj0 : Mat (T:=R) := [[1c; 0c]; [0c; 0c]].
Theorem d2_shortcut_prefix_refuted thr_dE thr_s : 0 < thr_dE -> 0 < thr_s ->
  exists (w dt : R) (ev : list R) (Cb NT : Mat) (r c : nat), (r < 2)%nat /\ (c < 2)%nat /\
    vg RO ev 0 <> vg RO ev 1 /\
    M_entry_prefix 2 (deriv_integral_entry RO (thr_dE, thr_s) w ev dt) Cb NT r c
    <> Mgen_entry RO 2 (deriv_integral_entry RO (thr_dE, thr_s) w ev dt) Cb NT r c.
Proof.
  intros H1 H2. exists 0, 1, [0; 1], proj0, proj0, O, O.
  split; [lia|]. split; [lia|]. split. { unfold vg, vget; simpl. lra. }
  unfold M_entry_prefix, Mshort_entry_prefix, Mgen_entry, M1_entry, M2_entry. simpl.
  set (DI := deriv_integral_entry RO (thr_dE, thr_s) 0 [0; 1] 1).
  assert (E : DI O O O O = (1 / 2, 0)).
  { unfold DI. rewrite di_diag_w0 by auto. apply c_eq; simpl; field. }
  unfold mget; simpl. intros Hc.
  assert (F : fst (DI O O O O) = 0).
  { apply (f_equal fst) in Hc. revert Hc. csimp. intros Hc. lra. }
  rewrite E in F. simpl in F. lra.
Qed.

(* ================================================================== E. finiteness of _liouville_derivative *)
Lemma in_amat_denoms d thr ev dt bx :
  In bx (amat_denoms RO d thr ev dt) <->
  exists i j, (i < d)%nat /\ (j < d)%nat /\
    bx = (ltabs RO ((vg RO ev i - vg RO ev j) * dt) thr, vg RO ev i - vg RO ev j).
Proof.
  unfold amat_denoms, build. rewrite in_concat. split.
  - intros [l [Hl Hx]]. apply in_map_iff in Hl. destruct Hl as [i [<- Hi]]. apply in_seq in Hi.
    apply in_map_iff in Hx. destruct Hx as [j [<- Hj]]. apply in_seq in Hj.
    exists i, j. repeat split; auto; lia.
  - intros [i [j [Hi [Hj ->]]]].
    eexists. split. apply in_map_iff. exists i. split. reflexivity. apply in_seq; lia.
    apply in_map_iff. exists j. split. reflexivity. apply in_seq; lia.
Qed.

(* every division of A_mat is guarded by the degeneracy mask np.abs(omega_diff*dt) < thr (fix 8c041e1) *)
Theorem amat_div_safe d thr ev dt : 0 < thr ->
  forall bx, In bx (amat_denoms RO d thr ev dt) -> fst bx = false -> snd bx <> 0.
Proof.
  intros H0 bx Hin Hf. apply in_amat_denoms in Hin. destruct Hin as [i [j [_ [_ ->]]]]. simpl in *.
  intros E. rewrite E in Hf. unfold ltabs in Hf; simpl in Hf. apply Rgtb_false in Hf.
  rewrite Rmult_0_l, Rabs_R0 in Hf. lra.
Qed.
(* the entries of A_mat are the ones guarded by those masks (definitional) *)
Lemma amat_entry_eq d thr ev dt i j : (i < d)%nat -> (j < d)%nat ->
  mget RO (amat RO d thr ev dt) i j
  = cite RO (ltabs RO ((vg RO ev i - vg RO ev j) * dt) thr) (dt, 0) (amat_entry RO dt (vg RO ev i - vg RO ev j)).
Proof. intros Hi Hj. unfold amat. rewrite mget_mbuild by auto. reflexivity. Qed.

(* A_mat[i,j] = int_0^dt e^{i Omega_ij t} dt, provided a pair is masked only when it is exactly degenerate
   (the limit value dt is the integral at Omega = 0: consistent) *)
Theorem amat_entry_integral d thr ev dt i j : 0 < thr -> (i < d)%nat -> (j < d)%nat ->
  (Rabs ((vg RO ev i - vg RO ev j) * dt) < thr -> vg RO ev i - vg RO ev j = 0) ->
  is_RInt (fun t => cos ((vg RO ev i - vg RO ev j) * t)) 0 dt (fst (mget RO (amat RO d thr ev dt) i j)) /\
  is_RInt (fun t => sin ((vg RO ev i - vg RO ev j) * t)) 0 dt (snd (mget RO (amat RO d thr ev dt) i j)).
Proof.
  intros H0 Hi Hj Hm. rewrite amat_entry_eq by auto. set (Om := vg RO ev i - vg RO ev j) in *.
  destruct (Rlt_le_dec (Rabs (Om * dt)) thr) as [H|H].
  - rewrite ltabs_true by exact H. rewrite cite_true. simpl. rewrite (Hm H). split; [apply int_cos0 | apply int_sin0].
  - assert (HO : Om <> 0) by exact (unmasked_nz thr Om dt H0 H).
    rewrite ltabs_false by exact H. rewrite cite_false. unfold amat_entry. simpl.
    split; [apply int_cos | apply int_sin]; auto.
Qed.

(* a one-level system: A_mat = [[dt]] *)
Lemma amat_1x1 thr e dt : 0 < thr -> amat RO 1 thr [e] dt = [[(dt, 0)]].
Proof.
  intros H. unfold amat, mbuild, build. cbn [seq map]. unfold vg, vget. cbn [nth].
  change (osub RO e e) with (e - e). change (omul RO (e - e) dt) with ((e - e) * dt).
  rewrite ltabs_true by (replace ((e - e) * dt) with 0 by ring; rewrite Rabs_R0; auto).
  rewrite cite_true. reflexivity.
Qed.

(* --- pre-fix code: mask = np.eye(d), i.e. only the diagonal got the limit value --- *)
Definition amat_denoms_prefix (d : nat) (ev : list R) : list R :=
  List.concat (build d (fun i => List.concat (build d (fun j =>
    if Nat.eqb i j then [] else [vg RO ev i - vg RO ev j])))).
Lemma in_amat_denoms_prefix d ev x :
  In x (amat_denoms_prefix d ev) <-> exists i j, (i < d)%nat /\ (j < d)%nat /\ i <> j /\ x = vg RO ev i - vg RO ev j.
Proof.
  unfold amat_denoms_prefix, build. rewrite in_concat. split.
  - intros [l [Hl Hx]]. apply in_map_iff in Hl. destruct Hl as [i [<- Hi]]. apply in_seq in Hi.
    apply in_concat in Hx. destruct Hx as [l' [Hl' Hx]]. apply in_map_iff in Hl'. destruct Hl' as [j [<- Hj]].
    apply in_seq in Hj. destruct (Nat.eqb_spec i j) as [E|E]. destruct Hx.
    destruct Hx as [<-|[]]. exists i, j. repeat split; auto; lia.
  - intros [i [j [Hi [Hj [Hne ->]]]]].
    eexists. split. apply in_map_iff. exists i. split. reflexivity. apply in_seq; lia.
    apply in_concat. eexists. split. apply in_map_iff. exists j. split. reflexivity. apply in_seq; lia.
    destruct (Nat.eqb_spec i j). contradiction. left. reflexivity.
Qed.
(* a segment with two equal eigenvalues (e.g. an idle segment): the pre-fix A_mat divided by Omega_ij = 0 *)
Theorem finite_prefix_refuted_degenerate d ev i j : (i < d)%nat -> (j < d)%nat -> i <> j ->
  vg RO ev i = vg RO ev j -> In 0 (amat_denoms_prefix d ev).
Proof.
  intros Hi Hj Hne E. apply in_amat_denoms_prefix. exists i, j. repeat split; auto. rewrite E. ring.
Qed.
Theorem finite_prefix_refuted : exists d ev, In 0 (amat_denoms_prefix d ev).
Proof. exists 2%nat, [0; 0]. apply (finite_prefix_refuted_degenerate 2 [0; 0] 0 1); auto. Qed.

(* ================================================================== G. spectrum shapes *)
(* infidelity() and (since fix 1090e57) infidelity_derivative() parse the spectrum against the SELECTED noise
   operators: the same shapes are accepted *)
Theorem spectrum_shape_same shape n_selected n_all n_omega :
  infidelity_derivative_accepts shape n_selected n_all n_omega = infidelity_accepts shape n_selected n_all n_omega.
Proof. reflexivity. Qed.
(* pre-fix: parsed against ALL noise operators; a per-operator spectrum for a proper subset was rejected
   (2 of 3 noise operators selected, 5 frequencies) *)
Definition infidelity_derivative_accepts_prefix (shape : list nat) (n_selected n_all n_omega : nat) : bool :=
  parse_spectrum_accepts shape n_all n_omega.
Theorem spectrum_shape_prefix_refuted : exists shape n_selected n_all n_omega,
  (n_selected <= n_all)%nat /\
  infidelity_accepts shape n_selected n_all n_omega = true /\
  infidelity_derivative_accepts_prefix shape n_selected n_all n_omega = false.
Proof. exists [2; 5]%nat, 2%nat, 3%nat, 5%nat. repeat split. lia. Qed.

(* ================================================================== F. derivative of the Liouville representation *)
Section LiouvilleDeriv.
Variable d : nat.

(* Q_jk = Re tr(Q^dagger C_j Q C_k)   (superoperator.liouville_representation) *)
Definition fliou (Q Cj Ck : fmat) : R := fst (ftr d (fmul d (fadj Q) (fmul d Cj (fmul d Q Ck)))).

Lemma fadj_invol_feq (A : fmat) : feq d (fadj (fadj A)) A.
Proof. intros i j _ _. apply fadj_invol. Qed.
Lemma fst_cconj (z : Cx) : fst (cconj' z) = fst z. Proof. reflexivity. Qed.

(* Re tr(Q^dagger C_j dQ C_k) = Re tr(dQ^dagger C_j Q C_k) for Hermitian C_j, C_k *)
Lemma herm_sym_trace (Q dQ Cj Ck : fmat) : fherm d Cj -> fherm d Ck ->
  fst (ftr d (fmul d (fadj Q) (fmul d Cj (fmul d dQ Ck)))) = fst (ftr d (fmul d (fadj dQ) (fmul d Cj (fmul d Q Ck)))).
Proof.
  intros Hj Hk. rewrite <- (fst_cconj (ftr d (fmul d (fadj dQ) _))). rewrite <- ftr_adj.
  assert (E : ftr d (fmul d (fadj Q) (fmul d Cj (fmul d dQ Ck)))
              = ftr d (fadj (fmul d (fadj dQ) (fmul d Cj (fmul d Q Ck))))); [|rewrite E; reflexivity].
  (* (dQ^dagger Cj Q Ck)^dagger = Ck Q^dagger Cj dQ, cyclic to Q^dagger Cj dQ Ck *)
  transitivity (ftr d (fmul d Ck (fmul d (fadj Q) (fmul d Cj dQ)))).
  - rewrite (ftr_cyclic d Ck). apply ftr_ext. rewrite <- !fmul_assoc. reflexivity.
  - apply ftr_ext. symmetry.
    rewrite fadj_mul. rewrite (fadj_mul d Cj). rewrite (fadj_mul d Q Ck).
    assert (Hj' : feq d (fadj Cj) Cj) by exact Hj. assert (Hk' : feq d (fadj Ck) Ck) by exact Hk.
    rewrite Hj', Hk'. rewrite (fadj_invol_feq dQ).
    rewrite <- !fmul_assoc. reflexivity.
Qed.

Lemma cderive_fmul_const_l (A : fmat) (Qf : R -> fmat) (dQ : fmat) u :
  (forall i j, (i < d)%nat -> (j < d)%nat -> cderive (fun v => Qf v i j) u (dQ i j)) ->
  forall i j, (i < d)%nat -> (j < d)%nat -> cderive (fun v => fmul d A (Qf v) i j) u (fmul d A dQ i j).
Proof.
  intros H i j Hi Hj. unfold fmul.
  apply (cderive_csumn d (fun k v => cmul' (A i k) (Qf v k j))). intros k Hk. apply cderive_mul_l. auto.
Qed.
Lemma cderive_fmul_const_r (A : fmat) (Qf : R -> fmat) (dQ : fmat) u :
  (forall i j, (i < d)%nat -> (j < d)%nat -> cderive (fun v => Qf v i j) u (dQ i j)) ->
  forall i j, (i < d)%nat -> (j < d)%nat -> cderive (fun v => fmul d (Qf v) A i j) u (fmul d dQ A i j).
Proof.
  intros H i j Hi Hj. unfold fmul.
  apply (cderive_csumn d (fun k v => cmul' (Qf v i k) (A k j))). intros k Hk. apply cderive_mul_r. auto.
Qed.

(* product rule on the trace + Hermitian symmetrisation *)
Theorem fliou_derive (Qf : R -> fmat) (dQ : fmat) u (Cj Ck : fmat) :
  fherm d Cj -> fherm d Ck ->
  (forall i j, (i < d)%nat -> (j < d)%nat -> cderive (fun v => Qf v i j) u (dQ i j)) ->
  is_derive (fun v => fliou (Qf v) Cj Ck) u
            (2 * fst (ftr d (fmul d (fadj dQ) (fmul d Cj (fmul d (Qf u) Ck))))).
Proof.
  intros Hj Hk HQ.
  assert (HX : forall i j, (i < d)%nat -> (j < d)%nat ->
            cderive (fun v => fmul d Cj (fmul d (Qf v) Ck) i j) u (fmul d Cj (fmul d dQ Ck) i j)).
  { apply (cderive_fmul_const_l Cj (fun v => fmul d (Qf v) Ck) (fmul d dQ Ck)).
    apply cderive_fmul_const_r. exact HQ. }
  assert (D : cderive (fun v => ftr d (fmul d (fadj (Qf v)) (fmul d Cj (fmul d (Qf v) Ck)))) u
     (cadd' (ftr d (fmul d (fadj dQ) (fmul d Cj (fmul d (Qf u) Ck))))
            (ftr d (fmul d (fadj (Qf u)) (fmul d Cj (fmul d dQ Ck)))))).
  { replace (cadd' (ftr d (fmul d (fadj dQ) (fmul d Cj (fmul d (Qf u) Ck))))
                   (ftr d (fmul d (fadj (Qf u)) (fmul d Cj (fmul d dQ Ck)))))
      with (csumn' d (fun a => csumn' d (fun b =>
              cadd' (cmul' (cconj' (dQ b a)) (fmul d Cj (fmul d (Qf u) Ck) b a))
                    (cmul' (cconj' (Qf u b a)) (fmul d Cj (fmul d dQ Ck) b a))))).
    2:{ unfold ftr. symmetry. eapply eq_trans; [symmetry; apply csumn_add|].
        apply csumn_ext. intros a _. cbv beta.
        change (fmul d (fadj dQ) (fmul d Cj (fmul d (Qf u) Ck)) a a)
          with (csumn' d (fun b => cmul' (fadj dQ a b) (fmul d Cj (fmul d (Qf u) Ck) b a))).
        change (fmul d (fadj (Qf u)) (fmul d Cj (fmul d dQ Ck)) a a)
          with (csumn' d (fun b => cmul' (fadj (Qf u) a b) (fmul d Cj (fmul d dQ Ck) b a))).
        eapply eq_trans; [symmetry; apply csumn_add|]. apply csumn_ext. intros b _. reflexivity. }
    unfold ftr.
    apply (cderive_csumn d (fun a v => fmul d (fadj (Qf v)) (fmul d Cj (fmul d (Qf v) Ck)) a a)). intros a Ha.
    unfold fmul at 1.
    apply (cderive_csumn d (fun b v => cmul' (fadj (Qf v) a b) (fmul d Cj (fmul d (Qf v) Ck) b a))). intros b Hb.
    apply cderive_mul. unfold fadj. apply cderive_conj. auto. auto. }
  destruct D as [D _]. unfold fliou. evar_last. exact D.
  simpl. rewrite (herm_sym_trace (Qf u) dQ Cj Ck Hj Hk). ring.
Qed.

(* the model's contraction 'htsba,tjkba->thsjk' (.real, *2) is 2 Re tr(PD^dagger X) *)
Lemma ld_entry_trace (PD X : Mat (T:=R)) :
  ld_entry RO d PD X = 2 * fst (ftr d (fmul d (fadj (toF PD)) (toF X))).
Proof.
  unfold ld_entry. unfold o2; simpl. replace (1 + 1) with 2 by ring. f_equal. f_equal.
  unfold ftr, fmul. rewrite csumn_swap. apply csumn_ext. intros a _. apply csumn_ext. intros b _. reflexivity.
Qed.

(* ---- Duhamel's formula as the (only) analytic assumption ---- *)
Section Duhamel.
(* propagators Q_s, Q_{s+1} (before / after segment s) and Q_{t+1}, t >= s; eigen-data of segment s;
   the control operator in the eigenbasis *)
Variables (thrA : R) (Qs Qs1 Qt1 V : Mat (T:=R)) (ev : list R) (dt : R) (Cbar : Mat (T:=R)).
(* the propagator of segment s as a function of the control amplitude u = u_h(t_s) *)
Variable Pu : R -> fmat.
Variable u0 : R.
(* Duhamel: d/du exp(-i (H + (u - u0) C_h) dt) at u0 is -i P V (A o Cbar) V^dagger with
   A_ij = int_0^dt e^{i Omega_ij t} dt -- the value the model computes as U_deriv (amat_entry_integral) *)
Hypothesis Duhamel : forall i j, (i < d)%nat -> (j < d)%nat ->
  cderive (fun u => Pu u i j) u0 (toF (u_deriv RO d thrA Qs Qs1 V ev dt Cbar) i j).
Hypothesis Pu_u0 : feq d (fmul d (Pu u0) (toF Qs)) (toF Qs1).
Hypothesis Qs1_unitary : funitary d (toF Qs1).

(* Q_{t+1}(u) = (Q_{t+1} Q_{s+1}^dagger) P_s(u) Q_s : later segments do not depend on u *)
Definition Qt1_of (u : R) : fmat :=
  fmul d (fmul d (toF Qt1) (fadj (toF Qs1))) (fmul d (Pu u) (toF Qs)).

Lemma Qt1_of_u0 : feq d (Qt1_of u0) (toF Qt1).
Proof.
  unfold Qt1_of. rewrite Pu_u0. rewrite <- fmul_assoc.
  destruct Qs1_unitary as [H _]. rewrite H. apply fmul_id_r.
Qed.

Theorem liouville_deriv_Duhamel (Cj Ck : Mat (T:=R)) :
  fherm d (toF Cj) -> fherm d (toF Ck) ->
  is_derive (fun u => fliou (Qt1_of u) (toF Cj) (toF Ck)) u0
    (ld_entry RO d (mmul RO d Qt1 (u_deriv_transformed RO d Qs Qs1 (u_deriv RO d thrA Qs Qs1 V ev dt Cbar)))
                   (mmul RO d (mmul RO d Cj Qt1) Ck)).
Proof.
  intros Hj Hk.
  set (UD := u_deriv RO d thrA Qs Qs1 V ev dt Cbar) in *.
  set (Rm := fmul d (toF Qt1) (fadj (toF Qs1))).
  set (dQ := fmul d Rm (fmul d (toF UD) (toF Qs))).
  assert (HQ : forall i j, (i < d)%nat -> (j < d)%nat -> cderive (fun v => Qt1_of v i j) u0 (dQ i j)).
  { unfold Qt1_of, dQ. fold Rm.
    apply (cderive_fmul_const_l Rm (fun v => fmul d (Pu v) (toF Qs)) (fmul d (toF UD) (toF Qs))).
    apply cderive_fmul_const_r. exact Duhamel. }
  evar_last. apply (fliou_derive Qt1_of dQ u0 (toF Cj) (toF Ck) Hj Hk HQ).
  rewrite ld_entry_trace. f_equal. f_equal. apply ftr_ext.
  (* both sides: (model PD)^dagger (Cj Q_{t+1} Ck) *)
  assert (E1 : feq d (toF (mmul RO d Qt1 (u_deriv_transformed RO d Qs Qs1 UD))) dQ).
  { unfold u_deriv_transformed, dQ, Rm. rewrite toF_mmul. rewrite toF_mmul. rewrite toF_mmul. rewrite toF_madj.
    rewrite <- !fmul_assoc. reflexivity. }
  assert (E2 : feq d (toF (mmul RO d (mmul RO d Cj Qt1) Ck)) (fmul d (toF Cj) (fmul d (Qt1_of u0) (toF Ck)))).
  { rewrite toF_mmul. rewrite toF_mmul. rewrite Qt1_of_u0. rewrite <- fmul_assoc. reflexivity. }
  rewrite E1, E2. reflexivity.
Qed.
End Duhamel.
End LiouvilleDeriv.

(* ================================================================== G'. identifier selection = slice *)
Section Slice.
Context {T B : Type} (Op : Ops T B).

Lemma select_length {A} (dflt : A) idx l : List.length (select dflt idx l) = List.length idx.
Proof. unfold select. apply map_length. Qed.
Lemma nth_map_in {A C} (f : A -> C) l i (da : A) (dc : C) : (i < List.length l)%nat ->
  nth i (map f l) dc = f (nth i l da).
Proof. intros H. rewrite (nth_indep _ dc (f da)) by (rewrite map_length; auto). apply map_nth. Qed.
Lemma nth_select {A} (dflt : A) idx l a : (a < List.length idx)%nat ->
  nth a (select dflt idx l) dflt = nth (nth a idx O) l dflt.
Proof. intros H. unfold select. apply (nth_map_in (fun i => nth i l dflt) idx a O dflt H). Qed.
Lemma build_ext' {A} n (f g : nat -> A) : (forall i, (i < n)%nat -> f i = g i) -> build n f = build n g.
Proof. intros H. unfold build. apply map_ext_in. intros i Hi. apply in_seq in Hi. apply H. lia. Qed.
Lemma build_nth_idx {A} (f : nat -> A) idx :
  build (List.length idx) (fun a => f (nth a idx O)) = map f idx.
Proof.
  induction idx as [|x r IH]; [reflexivity|].
  unfold build in *. simpl. f_equal. rewrite <- seq_shift, map_map. exact IH.
Qed.
Lemma select_build {A} (dflt : A) n f idx : List.Forall (fun i => (i < n)%nat) idx ->
  select dflt idx (build n f) = map f idx.
Proof.
  intros H. unfold select. apply map_ext_in. intros i Hi.
  rewrite List.Forall_forall in H. apply nth_build. auto.
Qed.
Lemma select_build_idx {A} (dflt : A) n f idx : List.Forall (fun i => (i < n)%nat) idx ->
  select dflt idx (build n f) = build (List.length idx) (fun a => f (nth a idx O)).
Proof. intros H. rewrite select_build by auto. symmetry. apply build_nth_idx. Qed.
Lemma map_build {A C} (g : A -> C) n (f : nat -> A) : map g (build n f) = build n (fun a => g (f a)).
Proof. unfold build. apply map_map. Qed.
(* rows of n_coeffs_deriv: selecting columns then reading = reading at the selected column *)
Lemma nth2_select2 {A} (ncd : list (list (list A))) n_idx c_idx a h :
  (a < List.length n_idx)%nat -> (h < List.length c_idx)%nat ->
  nth2 [] (select [] n_idx (map (select [] c_idx) ncd)) a h = nth2 [] ncd (nth a n_idx O) (nth h c_idx O).
Proof.
  intros Ha Hh. unfold nth2. rewrite nth_select by auto.
  destruct (Nat.lt_ge_cases (nth a n_idx O) (List.length ncd)) as [Hi|Hi].
  - rewrite (nth_map_in (select [] c_idx) ncd _ [] [] Hi). apply nth_select; auto.
  - rewrite (nth_overflow (map _ ncd)) by (rewrite map_length; auto).
    rewrite (nth_overflow ncd) by auto. destruct (nth h c_idx O); destruct h; reflexivity.
Qed.

(* Selecting noise operators (with their sensitivities and rows of n_coeffs_deriv) and control
   operators (columns of n_coeffs_deriv) by index arrays and then differentiating gives the
   corresponding slice of the full derivative: every (a, h) block depends on noise operator a and
   control operator h only (all other operators enter only through the spectral data).          *)
Theorem slice_commutes d thr th3 thrA evs Vs Qs omega basis nopers copers ncoeffs dts ts use_ncd ncd n_idx c_idx :
  List.Forall (fun i => (i < List.length nopers)%nat) n_idx -> List.Forall (fun i => (i < List.length copers)%nat) c_idx ->
  ctrlmat_deriv Op d thr th3 thrA evs Vs Qs omega basis (select [] n_idx nopers) (select [] c_idx copers)
                (select [] n_idx ncoeffs) dts ts use_ncd (select [] n_idx (map (select [] c_idx) ncd))
  = select [] n_idx (map (select [] c_idx)
      (ctrlmat_deriv Op d thr th3 thrA evs Vs Qs omega basis nopers copers ncoeffs dts ts use_ncd ncd)).
Proof.
  intros Hn Hc. unfold ctrlmat_deriv. cbv zeta.
  set (G := List.length dts). set (nj := List.length basis). set (no := List.length omega).
  set (P := pair_of Op d G nj no (sh_phase Op ts omega G) (sh_BT Op d Vs basis) (sh_ints Op d thr evs dts omega)
              (sh_DIs Op d th3 evs dts omega) (sh_Ls Op d Qs basis) Vs).
  set (Fc := ctrl_data Op d thrA G nj evs Vs Qs dts (sh_X Op d Qs basis G)).
  rewrite !select_length.
  (* right-hand side: read the full array at the selected indices *)
  rewrite map_build. rewrite select_build_idx by assumption.
  apply build_ext'. intros a Ha.
  rewrite select_build_idx by assumption.
  apply build_ext'. intros h Hh.
  unfold nthm, nthv. rewrite !nth_select by assumption. rewrite nth2_select2 by assumption.
  f_equal.
  assert (Hh' : (nth h c_idx O < List.length copers)%nat).
  { rewrite List.Forall_forall in Hc. apply Hc. apply nth_In. exact Hh. }
  rewrite (nth_map_in Fc (select [] c_idx copers) h [] ([], [])) by (rewrite select_length; exact Hh).
  rewrite (nth_map_in Fc copers _ [] ([], []) Hh'). rewrite nth_select by assumption. reflexivity.
Qed.
End Slice.

(* ================================================================== H. the general branch is the Duhamel commutator integral *)
(* complex-valued Riemann integral, componentwise *)
Definition cRInt (f : R -> Cx) (a b : R) (l : Cx) : Prop :=
  is_RInt (fun t => fst (f t)) a b (fst l) /\ is_RInt (fun t => snd (f t)) a b (snd l).
Lemma cRInt_ext f g a b l : (forall t, f t = g t) -> cRInt f a b l -> cRInt g a b l.
Proof.
  intros E [H1 H2]. split; [eapply is_RInt_ext; [|exact H1] | eapply is_RInt_ext; [|exact H2]];
    intros t _; cbv beta; rewrite E; reflexivity.
Qed.
Lemma cRInt_add f g a b lf lg : cRInt f a b lf -> cRInt g a b lg ->
  cRInt (fun t => cadd' (f t) (g t)) a b (cadd' lf lg).
Proof. intros [F1 F2] [G1 G2]. split; simpl; apply @is_RInt_plus; assumption. Qed.
Lemma cRInt_sub f g a b lf lg : cRInt f a b lf -> cRInt g a b lg ->
  cRInt (fun t => csub' (f t) (g t)) a b (csub' lf lg).
Proof. intros [F1 F2] [G1 G2]. split; simpl; apply @is_RInt_minus; assumption. Qed.
Lemma cRInt_const0 a b : cRInt (fun _ => 0c) a b 0c.
Proof.
  split; simpl; (evar_last; [apply @is_RInt_const | unfold scal; simpl; unfold mult; simpl; ring]).
Qed.
Lemma cRInt_cmul_l z f a b l : cRInt f a b l -> cRInt (fun t => cmul' z (f t)) a b (cmul' z l).
Proof.
  intros [F1 F2]. split; simpl.
  - apply @is_RInt_minus; apply (is_RInt_scal (V:=R_NormedModule)); assumption.
  - apply @is_RInt_plus; apply (is_RInt_scal (V:=R_NormedModule)); assumption.
Qed.
Lemma cRInt_csumn n (f : nat -> R -> Cx) a b (l : nat -> Cx) : (forall k, (k < n)%nat -> cRInt (f k) a b (l k)) ->
  cRInt (fun t => csumn' n (fun k => f k t)) a b (csumn' n l).
Proof.
  induction n; intros H; simpl. apply cRInt_const0.
  apply cRInt_add. apply IHn; auto. apply H; auto.
Qed.

(* e^{i x t} * int_0^t e^{i b s} ds *)
Definition dint (x b t : R) : Cx := cmul' (cexp' (x * t)) (Ic b t, Is b t).
Lemma dint_components x b t : dint x b t = (dint_re x b t, dint_im x b t).
Proof. reflexivity. Qed.

Section Commutator.
Variable d : nat.
Variables (w : R) (ev : list R) (Cb NT : Mat (T:=R)).
Notation Om := (fun m n => vg RO ev m - vg RO ev n).
(* Phi_h(t) = int_0^t e^{iHs} C_h e^{-iHs} ds and N_a(t) = e^{iHt} B_a e^{-iHt} in the eigenbasis *)
Definition Phi (p q : nat) (t : R) : Cx := cmul' (mget RO Cb p q) (Ic (Om p q) t, Is (Om p q) t).
Definition Ntil (m n : nat) (t : R) : Cx := cmul' (mget RO NT m n) (cexp' (Om m n * t)).
(* e^{i w t} [Phi(t), N(t)]_rc *)
Definition comm_integrand (r c : nat) (t : R) : Cx :=
  cmul' (cexp' (w * t))
    (csub' (csumn' d (fun x => cmul' (Phi r x t) (Ntil x c t)))
           (csumn' d (fun x => cmul' (Ntil r x t) (Phi x c t)))).

Lemma comm_term p q m n t :
  cmul' (cmul' (mget RO Cb p q) (mget RO NT m n)) (dint (w + Om m n) (Om p q) t)
  = cmul' (cexp' (w * t)) (cmul' (Phi p q t) (Ntil m n t)).
Proof.
  unfold dint, Phi, Ntil. replace ((w + Om m n) * t) with (w * t + Om m n * t) by ring.
  rewrite cexp_add. ring.
Qed.

Variables (thr_dE thr_s dt : R).
Hypothesis thr_pos : 0 < thr_dE /\ 0 < thr_s.
(* an eigenvalue difference is treated as degenerate only when it is exactly zero, and the Taylor polynomial is
   only used at x = 0 (no approximation involved) *)
Hypothesis mask_exact : forall p q m n, (p < d)%nat -> (q < d)%nat -> (m < d)%nat -> (n < d)%nat ->
  (Rabs (di_b ev p q * dt) < thr_dE -> di_b ev p q = 0) /\
  (Rabs (di_b ev p q * dt) < thr_dE -> Rabs (di_x w ev m n * dt) < thr_s -> di_x w ev m n = 0).

Lemma DI_cRInt p q m n : (p < d)%nat -> (q < d)%nat -> (m < d)%nat -> (n < d)%nat ->
  cRInt (dint (w + Om m n) (Om p q)) 0 dt (deriv_integral_entry RO (thr_dE, thr_s) w ev dt p q m n).
Proof.
  intros Hp Hq Hm Hn. destruct thr_pos as [T1 T2].
  destruct (mask_exact p q m n Hp Hq Hm Hn) as [M1 M2].
  exact (deriv_integral_cases thr_dE thr_s w ev dt p q m n T1 T2 M1 M2).
Qed.

(* M (general branch) is the integral over the segment of e^{i w t} [Phi_h(t), N_a(t)]: with Duhamel's
   formula d/du e^{-iHt} = -i e^{-iHt} Phi_h(t) this is (1/i times) the derivative of the segment's
   control-matrix integrand, integrated.                                                           *)
Theorem Mgen_commutator_integral r c : (r < d)%nat -> (c < d)%nat ->
  cRInt (comm_integrand r c) 0 dt
        (Mgen_entry RO d (deriv_integral_entry RO (thr_dE, thr_s) w ev dt) Cb NT r c).
Proof.
  intros Hr Hc. unfold Mgen_entry, M1_entry, M2_entry.
  apply (cRInt_ext (fun t => csub'
           (csumn' d (fun x => cmul' (cmul' (mget RO Cb r x) (mget RO NT x c)) (dint (w + Om x c) (Om r x) t)))
           (csumn' d (fun x => cmul' (cmul' (mget RO NT r x) (mget RO Cb x c)) (dint (w + Om r x) (Om x c) t))))).
  { intros t. unfold comm_integrand.
    rewrite (csumn_ext d _ (fun x => cmul' (cexp' (w * t)) (cmul' (Phi r x t) (Ntil x c t))))
      by (intros x _; apply comm_term).
    rewrite (csumn_ext d (fun x => cmul' (cmul' (mget RO NT r x) (mget RO Cb x c)) _)
                         (fun x => cmul' (cexp' (w * t)) (cmul' (Ntil r x t) (Phi x c t)))).
    2:{ intros x _. rewrite (cmul_comm (mget RO NT r x)). rewrite comm_term. ring. }
    rewrite !csumn_mul_l. ring. }
  apply cRInt_sub.
  - apply (cRInt_csumn d (fun x t => cmul' (cmul' (mget RO Cb r x) (mget RO NT x c)) (dint (w + Om x c) (Om r x) t))).
    intros x Hx. apply cRInt_cmul_l. apply DI_cRInt; auto.
  - apply (cRInt_csumn d (fun x t => cmul' (cmul' (mget RO NT r x) (mget RO Cb x c)) (dint (w + Om r x) (Om x c) t))).
    intros x Hx. apply cRInt_cmul_l. apply DI_cRInt; auto.
Qed.
(* the per-segment derivative (general branch, without the sensitivity term):
   i e^{i w t_g} int_0^dt e^{i w t} tr( Cbar_j [Phi_h(t), N_a(t)] ) dt *)
Theorem step_deriv_commutator_integral (phase : Cx) (BTj : Mat (T:=R)) :
  cRInt (fun t => cmul' phase (csumn' d (fun n => csumn' d (fun k =>
                    cmul' (cmul' ic (mget RO BTj n k)) (comm_integrand k n t))))) 0 dt
        (step_deriv_entry RO d phase BTj
           (mbuild d d (Mgen_entry RO d (deriv_integral_entry RO (thr_dE, thr_s) w ev dt) Cb NT))).
Proof.
  unfold step_deriv_entry. apply cRInt_cmul_l.
  apply (cRInt_csumn d (fun n t => csumn' d (fun k => cmul' (cmul' ic (mget RO BTj n k)) (comm_integrand k n t)))).
  intros n Hn.
  apply (cRInt_csumn d (fun k t => cmul' (cmul' ic (mget RO BTj n k)) (comm_integrand k n t))).
  intros k Hk. rewrite mget_mbuild by auto. apply cRInt_cmul_l. apply Mgen_commutator_integral; auto.
Qed.
End Commutator.

(* ================================================================== I. the sensitivity term and the identity component *)
(* ctrlmat_step = s * b is linear in the sensitivity s; its derivative through s(u) is s'(u) * b, b the control
   matrix of the unit-sensitivity operator (fix 26b5723): product rule, for every s (zero included) *)
Theorem sens_product_rule (s : R -> R) (b : R -> Cx) u ds db :
  is_derive s u ds -> cderive b u db ->
  cderive (fun v => cscal RO (s v) (b v)) u (cadd' (cscal RO (s u) db) (sens_term RO ds (b u))).
Proof. intros Ds Db. unfold sens_term. rewrite cadd_comm. apply cderive_cscal; auto. Qed.

(* pre-fix: (s'/s) * (s * b): right for s <> 0, wrong for s = 0 (0/0 in floating point; over the reals the term
   vanished instead of being s' * b) *)
Definition sens_term_prefix (ncd s : R) (step : Cx) : Cx := cscal RO (ncd / s) step.
Theorem sens_term_prefix_correct (ncd s : R) (b : Cx) : s <> 0 ->
  sens_term_prefix ncd s (cscal RO s b) = sens_term RO ncd b.
Proof. intros Hs. unfold sens_term_prefix, sens_term. apply c_eq; csimp; field; auto. Qed.
Theorem sens_term_prefix_refuted : exists (ncd : R) (b : Cx), sens_term_prefix ncd 0 (cscal RO 0 b) <> sens_term RO ncd b.
Proof.
  exists 1, 1c. unfold sens_term_prefix, sens_term. intros H. apply (f_equal fst) in H. revert H. csimp. intros H.
  rewrite !Rmult_0_l, Rmult_0_r in H. lra.
Qed.

(* the identity component removed by infidelity(): |T(u)|^2/d with T = tr(B_a) sum_g s_g(u) seg_g; only the sensitivity
   of segment g0 depends on u = u_h(t_g0).  Its derivative is the term infidelity_derivative subtracts (fix 49bf6b9). *)
Theorem identity_term_deriv (d G g0 : nat) (tr : Cx) (seg : nat -> Cx) (s : nat -> R -> R) (ds : R) u :
  (g0 < G)%nat ->
  (forall g, (g < G)%nat -> is_derive (s g) u (if Nat.eqb g g0 then ds else 0)) ->
  is_derive (fun v => cabs2 RO (cmul' tr (csumn' G (fun g => cscal RO (s g v) (seg g)))) / IZR (Z.of_nat d)) u
    (2 * fst (cmul' (cconj' (cmul' tr (csumn' G (fun g => cscal RO (s g u) (seg g)))))
                    (ident_deriv_entry RO tr ds (seg g0))) / IZR (Z.of_nat d)).
Proof.
  intros Hg Hs.
  set (Tf := fun v => cmul' tr (csumn' G (fun g => cscal RO (s g v) (seg g)))).
  assert (DT : cderive Tf u (ident_deriv_entry RO tr ds (seg g0))).
  { unfold Tf, ident_deriv_entry. apply cderive_mul_l.
    replace (cscal RO ds (seg g0))
      with (csumn' G (fun g => cadd' (cscal RO (if Nat.eqb g g0 then ds else 0) (seg g)) (cscal RO (s g u) 0c))).
    - apply (cderive_csumn G (fun g v => cscal RO (s g v) (seg g))). intros g Hgg.
      apply cderive_cscal. apply Hs; auto. apply cderive_const.
    - rewrite (csumn_single G g0); auto.
      + rewrite Nat.eqb_refl. rewrite cscal_0_r. ring.
      + intros g Hgg Hne. destruct (Nat.eqb_spec g g0); [contradiction|]. rewrite cscal_0_l, cscal_0_r. ring. }
  pose proof (ff_deriv 1 (fun _ => Tf) (fun _ => ident_deriv_entry RO tr ds (seg g0)) u) as F.
  assert (F' : is_derive (fun v => ff_diag 1 (fun _ => Tf v)) u
                 (ffd_entry RO 1 (fun _ => Tf u) (fun _ => ident_deriv_entry RO tr ds (seg g0)))).
  { apply F. intros k _. exact DT. }
  unfold Rdiv. apply (is_derive_ext (fun v => ff_diag 1 (fun _ => Tf v) * / IZR (Z.of_nat d))).
  { intros v. unfold ff_diag, Tf. simpl. csimp. ring. }
  evar_last. apply is_derive_Rmult. exact F'. apply @is_derive_const.
  unfold ffd_entry, o2, zero; simpl. csimp. ring.
Qed.
(* the model's corrected entry is the filter function derivative minus that derivative *)
Lemma ffd_minus_ident_eq (d : nat) FD (id idd : Cx) :
  ffd_minus_ident RO d FD id idd = FD - 2 * fst (cmul' (cconj' id) idd) / IZR (Z.of_nat d).
Proof. unfold ffd_minus_ident, o2, oZ; simpl. unfold Rdya. simpl. rewrite Rmult_1_r. replace (1 + 1) with 2 by ring. reflexivity. Qed.

(* ================================================================== J. the list-level functions are made of the entries *)
Section Entries.
Context {T B : Type} (Op : Ops T B).
Variable d : nat.

(* every number of calculate_derivative_of_control_matrix_from_scratch is an [assemble_entry] of the per-segment
   derivatives, the Liouville propagators, the per-segment control matrices and the Liouville derivatives *)
Theorem ctrlmat_deriv_entry thr th3 thrA evs Vs Qs omega basis nopers copers ncoeffs dts ts use_ncd ncd a h s o k :
  (a < List.length nopers)%nat -> (h < List.length copers)%nat -> (s < List.length dts)%nat ->
  (o < List.length omega)%nat -> (k < List.length basis)%nat ->
  let G := List.length dts in let nj := List.length basis in let no := List.length omega in
  let phases := sh_phase Op ts omega G in
  let BTs := sh_BT Op d Vs basis in
  let NTs := noise_NT Op d Vs (nthm nopers a) (nthv ncoeffs a) G in
  let steps := noise_steps Op d G nj no phases BTs (sh_ints Op d thr evs dts omega) NTs in
  let cd := nth h (map (ctrl_data Op d thrA G nj evs Vs Qs dts (sh_X Op d Qs basis G)) copers) ([], []) in
  let steps_unit := noise_steps Op d G nj no phases BTs (sh_ints Op d thr evs dts omega)
                                (noise_NT_unit Op d Vs (nthm nopers a) G) in
  let SD := pair_SD Op d G nj no phases BTs (sh_DIs Op d th3 evs dts omega) NTs (fst cd) steps_unit use_ncd
                    (nth2 [] ncd a h) in
  nth k (nth o (nth s (nth h (nth a
    (ctrlmat_deriv Op d thr th3 thrA evs Vs Qs omega basis nopers copers ncoeffs dts ts use_ncd ncd) []) []) []) []) (c0 Op)
  = assemble_entry Op nj G (fun j => nth3 (c0 Op) SD s j o) (rget Op (nth s (sh_Ls Op d Qs basis) []))
      (fun g j => nth3 (c0 Op) steps g j o) (fun t j k' => nth4 (o0 Op) (snd cd) t s j k') k.
Proof.
  intros Ha Hh Hs Ho Hk. cbv zeta. unfold ctrlmat_deriv. cbv zeta.
  rewrite (nth_build _ _ a) by assumption. rewrite (nth_build _ _ h) by assumption.
  unfold pair_of. cbv zeta. unfold pair_deriv.
  rewrite (nth_build _ _ s) by assumption. rewrite (nth_build _ _ o) by assumption.
  rewrite (nth_build _ _ k) by assumption. reflexivity.
Qed.

(* every number of get_filter_function_derivative is an [ffd_entry] *)
Theorem filter_function_derivative_entry na nh G nj no Bm CD a s h o :
  (a < na)%nat -> (s < G)%nat -> (h < nh)%nat -> (o < no)%nat ->
  nth4 (o0 Op) (filter_function_derivative Op na nh G nj no Bm CD) a s h o
  = ffd_entry Op nj (fun k => a3get Op Bm a k o)
                    (fun k => nth k (nth o (nth s (nth h (nth a CD []) []) []) []) (c0 Op)).
Proof.
  intros Ha Hs Hh Ho. unfold nth4, filter_function_derivative.
  rewrite (nth_build _ _ a) by assumption. rewrite (nth_build _ _ s) by assumption.
  rewrite (nth_build _ _ h) by assumption. rewrite (nth_build _ _ o) by assumption. reflexivity.
Qed.
(* the materialised derivative integral holds the entries *)
Theorem a4get_deriv_integral th3 w ev dt p q m n : (p < d)%nat -> (q < d)%nat -> (m < d)%nat -> (n < d)%nat ->
  a4get Op (deriv_integral Op d th3 w ev dt) p q m n = deriv_integral_entry Op th3 w ev dt p q m n.
Proof.
  intros Hp Hq Hm Hn. unfold a4get, deriv_integral.
  rewrite (nth_build _ _ p) by assumption. rewrite (nth_build _ _ q) by assumption.
  rewrite (nth_build _ _ m) by assumption. rewrite (nth_build _ _ n) by assumption. reflexivity.
Qed.

(* every number of _control_matrix_at_timestep_derivative is a [step_deriv_entry] of the matrix of [M_entry]s
   (plus the [sens_term] when n_coeffs_deriv is given) *)
Theorem pair_SD_entry G nj no phases BTs DIs NTs CBs steps_unit use_ncd ncd_row g j o :
  (g < G)%nat -> (j < nj)%nat -> (o < no)%nat ->
  nth3 (c0 Op) (pair_SD Op d G nj no phases BTs DIs NTs CBs steps_unit use_ncd ncd_row) g j o
  = let base := step_deriv_entry Op d (nth2 (c0 Op) phases g o) (nth2 [] BTs g j)
                  (mbuild d d (M_entry Op d (a4get Op (nth2 [] DIs g o)) (nthm CBs g) (nthm NTs g))) in
    if use_ncd then cadd Op base (sens_term Op (vg Op ncd_row g) (nth3 (c0 Op) steps_unit g j o))
    else base.
Proof.
  intros Hg Hj Ho. unfold nth3 at 1. unfold pair_SD.
  rewrite (nth_build _ _ g) by assumption. cbv zeta.
  rewrite (nth_build _ _ j) by assumption. rewrite (nth_build _ _ o) by assumption.
  unfold nthm. rewrite (nth_build _ _ o) by assumption. reflexivity.
Qed.
End Entries.
