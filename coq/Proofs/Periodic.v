(* C04: periodic concatenation equals explicit repetition, over the reals.
   geom_explicit_correct : the fallback expression of calculate_control_matrix_periodic is sum_{g<G} T^g
   geom_unique           : (1 - T) S = 1 - T^G and 1 - T left-cancellable  ==>  S = sum_{g<G} T^g
   periodic_eq_atomic    : B . sum_g (e^{i w tau} Q_L)^g = calculate_control_matrix_from_atomic on G copies
   propagators_tile      : the total propagator of the tiled pulse is Q^G                            *)
From Coq Require Import ZArith Reals Lra Lia List Morphisms Setoid.
From Coquelicot Require Import Coquelicot.
From FF Require Import Base.Ops Inst.RInst Base.RAlg Model.Numeric Model.Propagator Model.Periodic
                       Proofs.MatAlg Proofs.Propagator.
Import ListNotations.
Local Open Scope R_scope.

Lemma a3get_a3build n1 n2 n3 (f : nat -> nat -> nat -> Cx) a k o : (a < n1)%nat -> (k < n2)%nat -> (o < n3)%nat ->
  a3get RO (a3build n1 n2 n3 f) a k o = f a k o.
Proof. intros Ha Hk Ho. unfold a3get, a3build. rewrite nth_build by auto. rewrite nth_build by auto. rewrite nth_build by auto. reflexivity. Qed.
Lemma nth_repeat' {A} (x dflt : A) G g : (g < G)%nat -> nth g (repeat x G) dflt = x.
Proof. revert g. induction G; intros g Hg. lia. destruct g; simpl. reflexivity. apply IHG. lia. Qed.

(* S_list assembled from the all-explicit list: generic in the scalar operations *)
Lemma S_list_from_eq {T B} (Op : Ops T B) n no G ph L inv Ss :
  S_list Op n no G ph L inv Ss = S_list_from no inv Ss (S_list Op n no G ph L [] []).
Proof.
  unfold S_list, S_list_from, build. apply map_ext_in. intros o Ho. apply in_seq in Ho.
  destruct (nth o inv false); simpl. reflexivity.
  rewrite (nth_indep _ [] (S_select Op n (nth 0 [] false) (nth 0 [] []) (T_of Op n (nth 0 ph (c0 Op)) L) G))
    by (rewrite map_length, seq_length; lia).
  rewrite (map_nth (fun o => S_select Op n (nth o [] false) (nth o [] []) (T_of Op n (nth o ph (c0 Op)) L) G)).
  rewrite seq_nth by lia. simpl. destruct o; reflexivity.
Qed.

(* left-cancellable = injective as a linear map on matrices *)
Definition fleft_cancel (n : nat) (M : fmat) : Prop :=
  forall X Y, feq n (fmul n M X) (fmul n M Y) -> feq n X Y.
Lemma left_inverse_cancel n M : (exists N, feq n (fmul n N M) fid) -> fleft_cancel n M.
Proof.
  intros [N HN] X Y H.
  rewrite <- (fmul_id_l n X), <- (fmul_id_l n Y), <- HN, <- !fmul_assoc, H. reflexivity.
Qed.

Section Geom.
Variable n : nat.

Lemma toF_msub A B : feq n (toF (msub RO n A B)) (fsub (toF A) (toF B)).
Proof. intros i j Hi Hj. unfold toF, msub. rewrite mget_mbuild; auto. Qed.
Lemma toF_mzero_n : feq n (toF (mzero RO n n)) fzero.
Proof. intros i j Hi Hj. unfold toF, mzero. rewrite mget_mbuild; auto. Qed.
Lemma toF_mpow A g : feq n (toF (mpow RO n A g)) (fpow n (toF A) g).
Proof. induction g; simpl. apply toF_mid. rewrite toF_mmul, IHg. reflexivity. Qed.

Lemma fold_accum Tm k : forall A Z,
  feq n (toF (fold_left (madd RO n) (accum_from RO n A Tm k) Z))
        (fadd (toF Z) (fsum k (fun i => fmul n (toF A) (fpow n (toF Tm) i)))).
Proof.
  induction k; intros A Z.
  - simpl. rewrite fadd_zero_r. reflexivity.
  - change (fold_left (madd RO n) (accum_from RO n A Tm (S k)) Z)
      with (fold_left (madd RO n) (accum_from RO n (mmul RO n A Tm) Tm k) (madd RO n Z A)).
    rewrite IHk, toF_madd, fsum_shift.
    rewrite (fsum_ext n k _ (fun i => fmul n (toF A) (fpow n (toF Tm) (S i)))).
    + change (fpow n (toF Tm) 0) with fid. rewrite fmul_id_r. symmetry. apply fadd_assoc.
    + intros i _. rewrite toF_mmul, fpow_S_l. symmetry. apply fmul_assoc.
Qed.

(* the fallback branch: eye + sum(accumulate(repeat(T, G-1), matmul)) = sum_{g<G} T^g, every G >= 1 *)
Theorem geom_explicit_correct Tm G : (1 <= G)%nat ->
  feq n (toF (geom_explicit RO n Tm G)) (fgeom n (toF Tm) G).
Proof.
  intros HG. destruct G as [|g]. lia.
  unfold geom_explicit, msum, accumulate_repeat.
  change (Nat.pred (S g)) with g.
  rewrite toF_madd, toF_mid, fold_accum, toF_mzero_n, fadd_zero_l.
  unfold fgeom. rewrite fsum_shift. change (fpow n (toF Tm) 0) with fid.
  rewrite (fsum_ext n g _ (fun i => fpow n (toF Tm) (S i))). reflexivity.
  intros i _. symmetry. apply fpow_S_l.
Qed.
(* G = 1: the identity *)
Corollary geom_explicit_one Tm : feq n (toF (geom_explicit RO n Tm 1)) fid.
Proof. rewrite geom_explicit_correct by lia. unfold fgeom. simpl. apply fadd_zero_l. Qed.

(* the solve branch: any solution of (1 - T) S = 1 - T^G is the geometric sum when 1 - T is injective *)
Theorem geom_unique (Tf S : fmat) G : fleft_cancel n (fsub fid Tf) ->
  feq n (fmul n (fsub fid Tf) S) (fsub fid (fpow n Tf G)) -> feq n S (fgeom n Tf G).
Proof. intros Hc H. apply Hc. rewrite H. symmetry. apply fgeom_telescope. Qed.
(* without injectivity the equation does not determine S (T = 1: every S solves it) *)
Lemma geom_not_unique_at_identity S G : feq n (fmul n (fsub fid fid) S) (fsub fid (fpow n fid G)).
Proof.
  assert (E : feq n (fpow n fid G) fid) by (induction G; simpl; [reflexivity | rewrite IHG; apply fmul_id_l]).
  rewrite E, fsub_self, fmul_zero_l. reflexivity.
Qed.

Lemma solve_residual_zero Tm S G : feq n (toF (solve_residual RO n Tm S G)) fzero <->
  feq n (fmul n (fsub fid (toF Tm)) (toF S)) (fsub fid (fpow n (toF Tm) G)).
Proof.
  unfold solve_residual. rewrite toF_msub, toF_mmul, !toF_msub, toF_mid, toF_mpow. apply fsub_zero_iff.
Qed.

(* ----- real matrices, powers of phase * Liouville propagator ----- *)
Definition toFr (L : list (list R)) : fmat := fun i j => cofr RO (rget RO L i j).

Lemma rget_build (f : nat -> nat -> R) i j : (i < n)%nat -> (j < n)%nat ->
  rget RO (build n (fun i => build n (f i))) i j = f i j.
Proof. intros Hi Hj. unfold rget, vg, vget, nthv. rewrite nth_build by auto. rewrite nth_build by auto. reflexivity. Qed.
Lemma cofr_sumn k (f : nat -> R) : cofr RO (sumn' k f) = csumn' k (fun i => cofr RO (f i)).
Proof. induction k; simpl. reflexivity. rewrite <- IHk. apply c_eq; csimp; ring. Qed.
Lemma toF_T_of ph L : feq n (toF (T_of RO n ph L)) (fscal ph (toFr L)).
Proof. intros i j Hi Hj. unfold toF, T_of. rewrite mget_mbuild by auto. unfold fscal, toFr. apply c_eq; csimp; ring. Qed.
Lemma toFr_rmid : feq n (toFr (rmid RO n)) fid.
Proof. intros i j Hi Hj. unfold toFr, rmid. rewrite rget_build by auto. unfold fid. destruct (Nat.eqb i j); reflexivity. Qed.
Lemma toFr_rmmul A B : feq n (toFr (rmmul RO n A B)) (fmul n (toFr A) (toFr B)).
Proof.
  intros i j Hi Hj. unfold toFr at 1, rmmul. rewrite rget_build by auto.
  change (sumn RO n) with (sumn' n). rewrite cofr_sumn. unfold fmul. apply csumn_ext. intros k _.
  unfold toFr. apply c_eq; csimp; ring.
Qed.
Lemma toFr_rmpow_l L g : feq n (toFr (rmpow_l RO n L g)) (fpow n (toFr L) g).
Proof. induction g. apply toFr_rmid.
  change (rmpow_l RO n L (S g)) with (rmmul RO n L (rmpow_l RO n L g)).
  rewrite toFr_rmmul, IHg. symmetry. apply fpow_S_l. Qed.
Lemma fpow_fscal z A g : feq n (fpow n (fscal z A) g) (fscal (cpow RO z g) (fpow n A g)).
Proof.
  induction g; simpl. symmetry. apply fscal_one.
  rewrite IHg, fmul_scal_l, fmul_scal_r, fscal_scal. reflexivity.
Qed.
Lemma cpow_cexp a g : cpow RO (cexp' a) g = cexp' (INR g * a).
Proof. induction g. simpl. rewrite Rmult_0_l. symmetry. apply cexp_0.
  change (cpow RO (cexp' a) (S g)) with (cmul' (cpow RO (cexp' a) g) (cexp' a)).
  rewrite IHg, <- cexp_add, S_INR. f_equal. ring. Qed.

(* ----- the periodic control matrix equals the atomic rule on G copies ----- *)
Theorem periodic_eq_atomic na no G (ph : list Cx) (cm : Arr3 (T:=R)) (L : list (list R)) (Sl : list (Mat (T:=R))) a k o :
  (a < na)%nat -> (k < n)%nat -> (o < no)%nat -> length ph = no ->
  feq n (toF (nth o Sl [])) (fgeom n (toF (T_of RO n (nth o ph 0c) L)) G) ->
  a3get RO (cm_apply RO n na no cm Sl) a k o = a3get RO (atomic_repeated RO n na no G ph cm L) a k o.
Proof.
  intros Ha Hk Ho Hph HS.
  unfold cm_apply, atomic_repeated, cm_from_atomic. rewrite !a3get_a3build by assumption.
  rewrite repeat_length.
  (* left: sum_j cm_ajo sum_g ph^g (L^g)_jk *)
  rewrite (csumn_ext n _ (fun j => csumn' G (fun g =>
     cmul' (a3get RO cm a j o) (cmul' (cpow RO (nth o ph 0c) g) (cofr RO (rget RO (rmpow_l RO n L g) j k)))))).
  2:{ intros j Hj. change (mget RO (nth o Sl []) j k) with (toF (nth o Sl []) j k).
      rewrite (HS j k Hj Hk). unfold fgeom. rewrite fsum_entry, <- csumn_mul_l.
      apply csumn_ext. intros g _. f_equal.
      assert (E : feq n (fpow n (toF (T_of RO n (nth o ph 0c) L)) g)
                        (fscal (cpow RO (nth o ph 0c) g) (toFr (rmpow_l RO n L g)))).
      { rewrite toF_T_of, fpow_fscal, toFr_rmpow_l. reflexivity. }
      rewrite (E j k Hj Hk). reflexivity. }
  rewrite csumn_swap. apply csumn_ext. intros g Hg.
  rewrite !nth_build by assumption. rewrite nth_repeat' by assumption.
  rewrite (nth_indep (map (fun z => cpow RO z g) ph) 0c (cpow RO 0c g)) by (rewrite map_length; lia).
  rewrite (map_nth (fun z => cpow RO z g)).
  rewrite <- csumn_mul_l. apply csumn_ext. intros j _.
  apply c_eq; csimp; ring.
Qed.

(* both branches of calculate_control_matrix_periodic, with the oracle hypotheses made explicit:
   per frequency either the explicit sum is used, or solve returned a solution of the linear system
   and 1 - T is injective *)
Theorem cm_periodic_correct na no G ph cm L inv Ss a k o :
  (1 <= G)%nat -> (a < na)%nat -> (k < n)%nat -> (o < no)%nat -> length ph = no ->
  (nth o inv false = false \/
   (feq n (toF (solve_residual RO n (T_of RO n (nth o ph 0c) L) (nth o Ss []) G)) fzero /\
    fleft_cancel n (fsub fid (toF (T_of RO n (nth o ph 0c) L))))) ->
  a3get RO (cm_periodic RO n na no G ph cm L inv Ss) a k o = a3get RO (atomic_repeated RO n na no G ph cm L) a k o.
Proof.
  intros HG Ha Hk Ho Hph Hbr. unfold cm_periodic. apply periodic_eq_atomic; try assumption.
  unfold S_list. rewrite nth_build by assumption. unfold S_select.
  destruct Hbr as [-> | [Hres Hinj]].
  - apply geom_explicit_correct; assumption.
  - destruct (nth o inv false).
    + apply geom_unique. exact Hinj. apply solve_residual_zero. exact Hres.
    + apply geom_explicit_correct; assumption.
Qed.

End Geom.

(* ----- tiling: the propagators of the repeated pulse ----- *)
Section Tile.
Variable d : nat.

Definition final (evs : list (list R)) (Vs : list (Mat (T:=R))) (dts : list R) (Q : Mat (T:=R)) : Mat (T:=R) :=
  last (cumulative RO d evs Vs dts Q) (mid RO d).

Lemma cumulative_nonempty evs Vs dts Q : cumulative RO d evs Vs dts Q <> [].
Proof. destruct evs, Vs, dts; discriminate. Qed.
Lemma final_nil Q : final [] [] [] Q = Q. Proof. reflexivity. Qed.
Lemma final_cons ev evs V Vs dt dts Q :
  final (ev :: evs) (V :: Vs) (dt :: dts) Q = final evs Vs dts (mmul RO d (segment_propagator RO d ev V dt) Q).
Proof.
  unfold final. simpl cumulative.
  destruct (cumulative RO d evs Vs dts (mmul RO d (segment_propagator RO d ev V dt) Q)) eqn:E.
  - exfalso. eapply cumulative_nonempty. exact E.
  - reflexivity.
Qed.
Lemma final_app e1 : forall V1 d1 e2 V2 d2 Q, length V1 = length e1 -> length d1 = length e1 ->
  final (e1 ++ e2) (V1 ++ V2) (d1 ++ d2) Q = final e2 V2 d2 (final e1 V1 d1 Q).
Proof.
  induction e1 as [|e e1 IH]; intros [|V V1] [|x d1] e2 V2 d2 Q H1 H2; simpl in H1, H2; try lia.
  - reflexivity.
  - simpl app. rewrite !final_cons. apply IH; lia.
Qed.
Lemma final_linear evs : forall Vs dts Q,
  feq d (toF (final evs Vs dts Q)) (fmul d (toF (final evs Vs dts (mid RO d))) (toF Q)).
Proof.
  induction evs as [|e evs IH]; intros Vs dts Q.
  - unfold final. simpl. rewrite toF_mid, fmul_id_l. reflexivity.
  - destruct Vs as [|V Vs]. { unfold final. simpl. rewrite toF_mid, fmul_id_l. reflexivity. }
    destruct dts as [|x dts]. { unfold final. simpl. rewrite toF_mid, fmul_id_l. reflexivity. }
    rewrite !final_cons. rewrite IH. rewrite (IH Vs dts (mmul RO d _ (mid RO d))).
    rewrite !toF_mmul, toF_mid, fmul_id_r. apply fmul_assoc.
Qed.

(* the total propagator of G repetitions, computed from scratch by the model, is Q^G *)
Theorem propagators_tile evs Vs dts G : length Vs = length evs -> length dts = length evs ->
  feq d (toF (total_propagator RO d (propagators RO d (tile evs G) (tile Vs G) (tile dts G))))
        (fpow d (toF (total_propagator RO d (propagators RO d evs Vs dts))) G).
Proof.
  intros H1 H2. unfold total_propagator, propagators. fold (final evs Vs dts (mid RO d)).
  fold (final (tile evs G) (tile Vs G) (tile dts G) (mid RO d)).
  induction G.
  - simpl tile. rewrite final_nil. simpl fpow. apply toF_mid.
  - change (tile evs (S G)) with (evs ++ tile evs G). change (tile Vs (S G)) with (Vs ++ tile Vs G).
    change (tile dts (S G)) with (dts ++ tile dts G).
    rewrite final_app by assumption. rewrite final_linear, IHG. reflexivity.
Qed.
(* nla.matrix_power(total_propagator, G) as the model computes it *)
Theorem total_propagator_periodic evs Vs dts G : length Vs = length evs -> length dts = length evs ->
  feq d (toF (total_propagator RO d (propagators RO d (tile evs G) (tile Vs G) (tile dts G))))
        (toF (mpow RO d (total_propagator RO d (propagators RO d evs Vs dts)) G)).
Proof. intros H1 H2. rewrite toF_mpow. apply propagators_tile; assumption. Qed.

End Tile.

(* the cached total phases of the repeated pulse: e^{i w (G tau)} = (e^{i w tau})^G *)
Theorem total_phase_periodic w tau G : cexp' (w * (INR G * tau)) = cpow RO (cexp' (w * tau)) G.
Proof. rewrite cpow_cexp. f_equal. ring. Qed.
