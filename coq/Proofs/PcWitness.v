(* Witness for the PRE-FIX behaviour (before a9e668a): which='correlations' without a cached pulse-correlation
   control matrix returned the uncorrected value, which differs from the total infidelity for a control matrix
   with an identity component.  After the fix this input raises CalculationError ([infidelity_pc .. = None]). *)
From Coq Require Import ZArith Reals List Lra Lia Bool.
From FF Require Import Base.Ops Inst.RInst Base.RAlg Base.FMat Model.Numeric Model.Decay Model.Cumulant
     Proofs.Trapz Proofs.Decay Proofs.DecayPrefix Proofs.TraceId Proofs.PauliOnb Proofs.InfidPos.
Import ListNotations.
Local Open Scope R_scope.

Definition Btw : A3r := cm_pc_sum RO 1 4 2 [Bw].
Lemma Gamma_tw k l : (k < 4)%nat -> (l < 4)%nat ->
  Gamma Btw Btw [0%nat] spw 2 omw 0 0 k l = if (Nat.eqb k 0 && Nat.eqb l 0)%bool then / (2 * PI) else 0.
Proof.
  intros Hk Hl. unfold Gamma, trapz_w. simpl sumn.
  destruct k as [|[|[|[|k]]]]; try lia; destruct l as [|[|[|[|l]]]]; try lia;
    unfold Btw, cm_pc_sum, a3build, build, a3get, sel, spec_at, Bw, spw, omw; simpl; csimp; field; generalize PI_RGT_0; lra.
Qed.

Theorem pc_uncached_prefix_refuted :
  exists (basis : list MatR) (Bpc : list A3r) (sp : spectrumR) (omega : list R),
    let d := 2%nat in let n := length basis in let Cb := fun k => toF (nthm basis k) in
    basis_herm d n Cb /\ basis_orthonormal d n Cb /\ basis_complete d n Cb /\
    sumn' (length Bpc) (fun g => sumn' (length Bpc) (fun h =>
       nth 0 (nth h (nth g (infidelity_pc_value RO d false 1 n 2 Bpc basis [0%nat] sp omega) []) []) 0)) <>
    nth 0 (infidelity_total RO d 1 n 2 (cm_pc_sum RO 1 n 2 Bpc) basis [0%nat] sp omega) 0.
Proof.
  exists pauli_basis, [Bw], spw, omw. cbv zeta.
  split. exact pauli_herm. split. exact pauli_orthonormal. split. exact pauli_complete.
  change (length pauli_basis) with 4%nat.
  assert (Hidx : idx_ok 1 [0%nat]) by (intros i Hi; simpl in Hi; destruct i; unfold sel; simpl; lia).
  pose proof (pc_uncached_excess 2 pauli_basis ltac:(lia) pauli_herm 1 4 2 [Bw] [0%nat] spw omw eq_refl Hidx eq_refl
                0%nat 0%nat ltac:(simpl; lia) ltac:(simpl; lia) (fun _ => eq_refl)) as H.
  change (lead_pos spw (length [0%nat]) 0 0) with 0%nat in H.
  rewrite H. clear H. fold Btw.
  assert (HGT : GT 2 pauli_basis (rmbuild 4 4 (fun k l => Gamma Btw Btw [0%nat] spw 2 omw 0 0 k l)) = / PI).
  { unfold GT. change (length pauli_basis) with 4%nat.
    simpl sumn. unfold rmget, rmbuild. rewrite !nth_build by lia.
    rewrite !Gamma_tw by lia. simpl andb. cbv iota.
    unfold trb, tC, ftr, toF, mget, nthm, pauli_basis. csimp.
    generalize sP_sq PI_RGT_0. intros Hs Hp. field_simplify; try lra.
    replace (sP ^ 2) with (/2) by (simpl; rewrite Rmult_1_r; auto). field. lra. }
  rewrite HGT. simpl INR.
  assert (0 < / PI / ((1 + 1) * (1 + 1))).
  { apply Rdiv_lt_0_compat. apply Rinv_0_lt_compat, PI_RGT_0. lra. }
  lra.
Qed.
