(* Second-order filter function (Model/SecondOrder.v) over the reals.
   Part 1: the three-case segment integral equals the iterated integral
           int_0^T e^{i a t} int_0^t e^{i b t'} dt' dt            (soi_cases, soi_entry_integral)
   Part 2: algebra of the segment integral: I2(a,b) + I2(b,a) = J(a) J(b) (soi_sum_identity),
           conjugation (soi_core_conj).                                                        *)
From Coq Require Import ZArith Reals Lra Lia List.
From Coquelicot Require Import Coquelicot.
From FF Require Import Base.Ops Inst.RInst Base.RAlg Model.Numeric Model.SecondOrder Proofs.Foi.
Import ListNotations.
Local Open Scope R_scope.

(* ------------------------------------------------------------------ masks and closed forms *)
Lemma nz_true x : x <> 0 -> nz RO x = true.
Proof. intros H. unfold nz; simpl. apply Rgtb_true. apply Rabs_pos_lt; auto. Qed.
Lemma nz_false : nz RO 0 = false.
Proof. unfold nz; simpl. apply Rgtb_false. rewrite Rabs_R0. lra. Qed.

(* -2 sin^2(x/2) = cos x - 1 : the rewritten real part of exp_buf is the same real number *)
Lemma em1_val x T : em1 RO x T = (cos (x*T) - 1, sin (x*T)).
Proof.
  unfold em1; simpl. f_equal. unfold o2; simpl.
  set (h := x * T / (1 + 1)). replace (x * T) with (2 * h) by (unfold h; field).
  rewrite cos_2a_sin. ring.
Qed.

Lemma frc_nz x T : x <> 0 -> frc RO x T = ((cos (x*T) - 1)/x, sin (x*T)/x).
Proof. intros H. unfold frc, cite. rewrite (nz_true x H). rewrite em1_val. reflexivity. Qed.
Lemma frc_0 T : frc RO 0 T = (0, T).
Proof. unfold frc, cite. rewrite nz_false. reflexivity. Qed.

(* J(x) = int_0^T e^{i x t} dt in terms of the code's frc = i J *)
Definition Jre (x T : R) : R := snd (frc RO x T).
Definition Jim (x T : R) : R := - fst (frc RO x T).
Arguments Jre : simpl never.
Arguments Jim : simpl never.
Definition Jc (x T : R) : Cx := (Jre x T, Jim x T).

Lemma Jre_nz x T : x <> 0 -> Jre x T = sin (x*T)/x.
Proof. intros H. unfold Jre. rewrite frc_nz by auto. reflexivity. Qed.
Lemma Jim_nz x T : x <> 0 -> Jim x T = (1 - cos (x*T))/x.
Proof. intros H. unfold Jim. rewrite frc_nz by auto. simpl. field; auto. Qed.
Lemma Jre_0 T : Jre 0 T = T.
Proof. unfold Jre. rewrite frc_0. reflexivity. Qed.
Lemma Jim_0 T : Jim 0 T = 0.
Proof. unfold Jim. rewrite frc_0. simpl. ring. Qed.
Lemma frc_J x T : frc RO x T = (- Jim x T, Jre x T).
Proof. unfold Jim, Jre. rewrite Ropp_involutive. destruct (frc RO x T); reflexivity. Qed.
Lemma Jc_nz x T : x <> 0 -> Jc x T = (sin (x*T)/x, (1 - cos (x*T))/x).
Proof. intros H. unfold Jc. rewrite Jre_nz, Jim_nz by auto. reflexivity. Qed.
Lemma Jc_0 T : Jc 0 T = (T, 0).
Proof. unfold Jc. rewrite Jre_0, Jim_0. reflexivity. Qed.

Definition is_CInt (f : R -> Cx) (a b : R) (z : Cx) : Prop :=
  is_RInt (fun t => fst (f t)) a b (fst z) /\ is_RInt (fun t => snd (f t)) a b (snd z).

Lemma Jc_int x T : is_CInt (fun t => cexp' (x * t)) 0 T (Jc x T).
Proof.
  destruct (Req_dec x 0) as [->|Hx].
  - rewrite Jc_0. split; simpl. apply int_cos0. apply int_sin0.
  - rewrite Jc_nz by auto. split; simpl. apply int_cos; auto. apply int_sin; auto.
Qed.

Lemma soi_core_case1 a b ab T : b <> 0 ->
  soi_core_x RO a b ab T = cdivr RO (csub RO (frc RO a T) (frc RO ab T)) b.
Proof. intros H. unfold soi_core_x, soi_cases_of, cite. rewrite (nz_true b H). simpl. reflexivity. Qed.

Lemma soi_core_case2 a ab T : a <> 0 ->
  soi_core_x RO a 0 ab T = (((cos (a*T) - 1)/a + sin (a*T) * T)/a, (sin (a*T)/a - cos (a*T) * T)/a).
Proof.
  intros H. unfold soi_core_x, soi_cases_of, cite. rewrite nz_false, (nz_true a H). rewrite (frc_nz a T H), em1_val.
  unfold cdivr, cadd, csub, cexp, c1; simpl. apply c_eq; simpl; field; auto.
Qed.

Lemma soi_core_case3 ab T : soi_core_x RO 0 0 ab T = (T*T/2, 0).
Proof. unfold soi_core_x, soi_cases_of, cite. rewrite nz_false. simpl. apply c_eq; simpl; auto. unfold o2, Rdiv; simpl. ring. Qed.

(* ------------------------------------------------------------------ Part 1: the iterated integral *)
(* z = int_0^T e^{i a t} ( int_0^t e^{i b t'} dt' ) dt *)
Definition iterated_exp_integral (a b T : R) (z : Cx) : Prop :=
  exists inner : R -> Cx,
    (forall t, is_CInt (fun t' => cexp' (b * t')) 0 t (inner t)) /\
    is_CInt (fun t => cmul' (cexp' (a * t)) (inner t)) 0 T z.

Lemma cont_lin_comp (f : R -> R) a : (forall y, continuity_pt f y) -> forall x, continuity_pt (fun t => f (a * t)) x.
Proof.
  intros Hf x. apply (continuity_pt_comp (fun t => a*t) f).
  - apply continuity_pt_mult; [apply continuity_pt_const; intros ? ?; reflexivity | apply derivable_continuous_pt, derivable_pt_id].
  - apply Hf.
Qed.

Lemma int_tcos a T : a <> 0 ->
  is_RInt (fun t => cos (a*t) * t) 0 T (((cos (a*T) - 1)/a + sin (a*T) * T)/a).
Proof.
  intros Ha. evar_last.
  apply (is_RInt_derive (fun t => t * sin (a*t)/a + cos (a*t)/(a*a))).
  - intros x _. auto_derive; auto. field; auto.
  - intros x _. apply continuity_pt_filterlim.
    apply continuity_pt_mult. apply (cont_lin_comp cos a continuity_cos).
    apply derivable_continuous_pt, derivable_pt_id.
  - unfold minus, plus, opp; simpl. rewrite Rmult_0_r, sin_0, cos_0. field; auto.
Qed.

Lemma int_tsin a T : a <> 0 ->
  is_RInt (fun t => sin (a*t) * t) 0 T ((sin (a*T)/a - cos (a*T) * T)/a).
Proof.
  intros Ha. evar_last.
  apply (is_RInt_derive (fun t => - t * cos (a*t)/a + sin (a*t)/(a*a))).
  - intros x _. auto_derive; auto. field; auto.
  - intros x _. apply continuity_pt_filterlim.
    apply continuity_pt_mult. apply (cont_lin_comp sin a continuity_sin).
    apply derivable_continuous_pt, derivable_pt_id.
  - unfold minus, plus, opp; simpl. rewrite Rmult_0_r, sin_0, cos_0. field; auto.
Qed.

Lemma int_t T : is_RInt (fun t => t) 0 T (T*T/2).
Proof.
  evar_last. apply (is_RInt_derive (fun t => t*t/2)).
  - intros x _. auto_derive; auto. field.
  - intros x _. apply continuity_pt_filterlim. apply derivable_continuous_pt, derivable_pt_id.
  - unfold minus, plus, opp; simpl. field.
Qed.

Ltac Req := match goal with |- @eq _ ?x ?y => change (@eq R x y) end.

(* explicit form: the inner integral is J(b,t) = int_0^t e^{i b t'} dt' (Jc_int) *)
Theorem soi_core_integral a b T :
  is_CInt (fun t => cmul' (cexp' (a * t)) (Jc b t)) 0 T (soi_core_x RO a b (a + b) T).
Proof.
  destruct (Req_dec b 0) as [Hb|Hb].
  - subst b.
    assert (E : forall t, cmul' (cexp' (a * t)) (Jc 0 t) = cmul' (cexp' (a * t)) (t, 0)) by (intros; rewrite Jc_0; reflexivity).
    destruct (Req_dec a 0) as [Ha|Ha].
    + subst a. rewrite soi_core_case3. split; cbn [fst snd].
      * apply (is_RInt_ext (fun t => t)). intros x _. Req. rewrite E. simpl. rewrite Rmult_0_l, cos_0, sin_0. ring. apply int_t.
      * apply (is_RInt_ext (fun _ => 0)). intros x _. Req. rewrite E. simpl. rewrite Rmult_0_l, cos_0, sin_0. ring.
        evar_last. apply @is_RInt_const. unfold scal; simpl. unfold mult; simpl. ring.
    + rewrite soi_core_case2 by auto. split; cbn [fst snd].
      * apply (is_RInt_ext (fun t => cos (a*t) * t)). intros x _. Req. rewrite E. simpl. ring. apply int_tcos; auto.
      * apply (is_RInt_ext (fun t => sin (a*t) * t)). intros x _. Req. rewrite E. simpl. ring. apply int_tsin; auto.
  - rewrite soi_core_case1 by auto. rewrite !frc_J.
    destruct (Jc_int a T) as [Hca Hsa]. destruct (Jc_int (a + b) T) as [Hcab Hsab].
    unfold Jc in *. cbn [fst snd] in Hca, Hsa, Hcab, Hsab.
    split; cbn [fst snd cmul cexp cdivr csub RO osub omul oadd odiv ocos osin].
    + (* real part: (sin((a+b)t) - sin(at))/b *)
      apply (is_RInt_ext (fun t => scal (/ b) (minus (sin ((a + b) * t)) (sin (a * t))))).
      { intros x _. Req. rewrite (Jre_nz b x Hb), (Jim_nz b x Hb). unfold scal, minus, plus, opp; simpl. unfold mult; simpl.
        rewrite Rmult_plus_distr_r, sin_plus. field; auto. }
      evar_last. apply @is_RInt_scal. apply @is_RInt_minus. exact Hsab. exact Hsa.
      unfold scal, minus, plus, opp; simpl. unfold mult; simpl. field; auto.
    + apply (is_RInt_ext (fun t => scal (/ b) (minus (cos (a * t)) (cos ((a + b) * t))))).
      { intros x _. Req. rewrite (Jre_nz b x Hb), (Jim_nz b x Hb). unfold scal, minus, plus, opp; simpl. unfold mult; simpl.
        rewrite Rmult_plus_distr_r, cos_plus. field; auto. }
      evar_last. apply @is_RInt_scal. apply @is_RInt_minus. exact Hca. exact Hcab.
      unfold scal, minus, plus, opp; simpl. unfold mult; simpl. field; auto.
Qed.

Theorem soi_cases a b T : iterated_exp_integral a b T (soi_core_x RO a b (a + b) T).
Proof. exists (fun t => Jc b t). split. intros t; apply Jc_int. apply soi_core_integral. Qed.

(* the code's entry: a = Omega_ij - w, b = w + Omega_mn *)
Lemma soi_entry_core thr2 w evi evj evm evn T :
  soi_entry RO thr2 w evi evj evm evn T =
  soi_core RO thr2 ((evi - evj) - w) (w + (evm - evn)) (((evi - evj) - w) + (w + (evm - evn))) T.
Proof. unfold soi_entry; simpl. f_equal; ring. Qed.

(* ---- the case selection of the code (|x dt| > thr2) against the selection by exact zeros ---- *)
Lemma big_true thr2 x T : thr2 < Rabs (x * T) -> big RO thr2 x T = true.
Proof. intros H. unfold big; simpl. apply Rgtb_true. exact H. Qed.
Lemma big_false thr2 x T : Rabs (x * T) <= thr2 -> big RO thr2 x T = false.
Proof. intros H. unfold big; simpl. apply Rgtb_false. exact H. Qed.

(* x is "regular": exactly zero, or clearly non-zero on the scale 1/T *)
Definition regular (thr2 x T : R) : Prop := x = 0 \/ thr2 < Rabs (x * T).

Lemma regular_opp thr2 x T : regular thr2 x T -> regular thr2 (- x) T.
Proof. intros [->|H]; [left; ring | right]. replace (- x * T) with (- (x * T)) by ring. rewrite Rabs_Ropp. exact H. Qed.

(* where both denominators are regular the code's value is the exact-zero selection, i.e. the exact integral *)
Lemma soi_core_regular thr2 a b ab T : 0 <= thr2 -> regular thr2 b T -> regular thr2 a T ->
  soi_core RO thr2 a b ab T = soi_core_x RO a b ab T.
Proof.
  intros H0 Hb Ha. unfold soi_core, soi_core_x.
  assert (Eb : big RO thr2 b T = nz RO b).
  { destruct Hb as [->|Hb]. rewrite nz_false. apply big_false. rewrite Rmult_0_l, Rabs_R0. exact H0.
    rewrite big_true by exact Hb. symmetry. apply nz_true. intros ->. rewrite Rmult_0_l, Rabs_R0 in Hb. lra. }
  assert (Ea : big RO thr2 a T = nz RO a).
  { destruct Ha as [->|Ha]. rewrite nz_false. apply big_false. rewrite Rmult_0_l, Rabs_R0. exact H0.
    rewrite big_true by exact Ha. symmetry. apply nz_true. intros ->. rewrite Rmult_0_l, Rabs_R0 in Ha. lra. }
  rewrite Eb, Ea. reflexivity.
Qed.

Theorem soi_entry_integral thr2 w evi evj evm evn T : 0 <= thr2 ->
  regular thr2 (w + (evm - evn)) T -> regular thr2 ((evi - evj) - w) T ->
  iterated_exp_integral ((evi - evj) - w) (w + (evm - evn)) T (soi_entry RO thr2 w evi evj evm evn T).
Proof. intros H0 Hb Ha. rewrite soi_entry_core, soi_core_regular by auto. apply soi_cases. Qed.

(* ------------------------------------------------------------------ Part 2: algebra of the segment integral *)
Lemma sc2 x : sin x * sin x + cos x * cos x = 1.
Proof. generalize (sin2_cos2 x). unfold Rsqr. lra. Qed.

(* the two orderings of the square [0,T]^2 : I2(a,b) + I2(b,a) = J(a) J(b) *)
Theorem soi_sum_identity a b T :
  cadd' (soi_core_x RO a b (a + b) T) (soi_core_x RO b a (b + a) T) = cmul' (Jc a T) (Jc b T).
Proof.
  destruct (Req_dec a 0) as [Ha|Ha]; destruct (Req_dec b 0) as [Hb|Hb].
  - subst. rewrite !soi_core_case3, Jc_0. apply c_eq; simpl; field.
  - subst a. rewrite (soi_core_case1 0 b) by auto. rewrite Rplus_0_l, Rplus_0_r.
    rewrite soi_core_case2 by auto. rewrite frc_0, frc_nz by auto. rewrite Jc_0, Jc_nz by auto.
    apply c_eq; simpl; field; auto.
  - subst b. rewrite (soi_core_case1 0 a) by auto. rewrite Rplus_0_l, Rplus_0_r.
    rewrite soi_core_case2 by auto. rewrite frc_0, frc_nz by auto. rewrite Jc_0, Jc_nz by auto.
    apply c_eq; simpl; field; auto.
  - rewrite !soi_core_case1 by auto. rewrite (Rplus_comm b a).
    rewrite (frc_nz a), (frc_nz b), !Jc_nz by auto.
    destruct (Req_dec (a + b) 0) as [Hab|Hab].
    + rewrite Hab, frc_0. assert (Eb : b = - a) by lra. subst b.
      replace (- a * T) with (- (a * T)) by ring. rewrite cos_neg, sin_neg.
      generalize (sc2 (a*T)). set (c := cos (a*T)). set (s := sin (a*T)). intros Hcs.
      apply c_eq; simpl.
      * apply Rminus_diag_uniq. field_simplify; [|auto].
        replace (c ^ 2 + s ^ 2 - 1) with 0 by (simpl; lra). unfold Rdiv. ring.
      * field; auto.
    + rewrite (frc_nz (a+b)) by auto.
      rewrite Rmult_plus_distr_r, cos_plus, sin_plus.
      apply c_eq; simpl; field; auto.
Qed.

Lemma frc_neg x T : frc RO (- x) T = (- fst (frc RO x T), snd (frc RO x T)).
Proof.
  destruct (Req_dec x 0) as [->|Hx].
  - rewrite Ropp_0, frc_0. simpl. f_equal. ring.
  - rewrite !frc_nz by lra. replace (- x * T) with (- (x * T)) by ring. rewrite cos_neg, sin_neg.
    simpl. f_equal; field; auto.
Qed.
Lemma Jc_neg x T : Jc (- x) T = cconj' (Jc x T).
Proof. unfold Jc, Jre, Jim. rewrite frc_neg. reflexivity. Qed.

(* complex conjugation flips the signs of the three exponents *)
Lemma soi_core_conj a b ab T : cconj' (soi_core_x RO a b ab T) = soi_core_x RO (- a) (- b) (- ab) T.
Proof.
  destruct (Req_dec b 0) as [->|Hb].
  - rewrite Ropp_0. destruct (Req_dec a 0) as [->|Ha].
    + rewrite Ropp_0, !soi_core_case3. apply c_eq; simpl; ring.
    + rewrite !soi_core_case2 by lra. replace (- a * T) with (- (a * T)) by ring. rewrite cos_neg, sin_neg.
      apply c_eq; simpl; field; auto.
  - rewrite !soi_core_case1 by lra. rewrite !frc_neg.
    destruct (frc RO a T) as [x1 y1]. destruct (frc RO ab T) as [x2 y2].
    apply c_eq; simpl; field; auto.
Qed.
