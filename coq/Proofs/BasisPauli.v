(* C14 -- Basis.pauli(n) is a Hermitian, orthonormal, complete basis with first element 1/sqrt(d),
   for every number of qubits n (induction on n with the Kronecker lemmas). *)
From Coq Require Import ZArith Reals List Lra Lia Ring Arith.
From FF Require Import Base.Ops Inst.RInst Base.RAlg Model.BasisModel Proofs.BasisAlg.
Import ListNotations.
Local Open Scope R_scope.

(* single-qubit Pauli matrices as functions *)
Definition fsig (s : nat) : fmat := pauli_entry RO s.

Ltac lt_cases H :=
  match type of H with
  | (?i < 0)%nat => exfalso; lia
  | (?i < S ?n)%nat => destruct i as [|i]; [| apply Nat.succ_lt_mono in H; lt_cases H]
  end.

Lemma fsig_trace s t : (s < 4)%nat -> (t < 4)%nat ->
  ftr 2 (fmul 2 (fsig s) (fsig t)) = if Nat.eqb s t then (2, 0) else 0c.
Proof.
  intros Hs Ht. lt_cases Hs; lt_cases Ht; unfold ftr, fmul, fsig; simpl; apply c_eq; simpl; ring.
Qed.

Lemma fsig_herm s : feq 2 (fadj (fsig s)) (fsig s).
Proof.
  intros a b Ha Hb. lt_cases Ha; lt_cases Hb; unfold fadj, fsig;
  destruct s as [|[|[|[|s]]]]; simpl; apply c_eq; simpl; ring.
Qed.

Lemma fsig_complete a b c e : (a < 2)%nat -> (b < 2)%nat -> (c < 2)%nat -> (e < 2)%nat ->
  csumn' 4 (fun k => cmul' (fsig k a b) (cconj' (fsig k c e))) =
  cmul' (2, 0) (cmul' (delta a c) (delta b e)).
Proof.
  intros Ha Hb Hc He. lt_cases Ha; lt_cases Hb; lt_cases Hc; lt_cases He;
  unfold fsig, delta; simpl; apply c_eq; simpl; ring.
Qed.

(* unnormalised tensor chain *)
Fixpoint fpauli (n idx : nat) : fmat :=
  match n with
  | O => fun _ _ => 1c
  | S n' => fkron (2 ^ n') (fsig (idx / 4 ^ n')) (fpauli n' (idx mod 4 ^ n'))
  end.

Lemma pow2_pos n : (0 < 2 ^ n)%nat. Proof. apply Nat.neq_0_lt_0, Nat.pow_nonzero. lia. Qed.
Lemma pow4_pos n : (0 < 4 ^ n)%nat. Proof. apply Nat.neq_0_lt_0, Nat.pow_nonzero. lia. Qed.
Lemma div4_lt n idx : (idx < 4 ^ S n)%nat -> (idx / 4 ^ n < 4)%nat.
Proof. intros H. apply Nat.div_lt_upper_bound. generalize (pow4_pos n); lia. simpl in H. lia. Qed.
Lemma mod4_lt n idx : (idx mod 4 ^ n < 4 ^ n)%nat.
Proof. apply Nat.mod_upper_bound. generalize (pow4_pos n); lia. Qed.

Lemma eqb_divmod q i j : (0 < q)%nat ->
  Nat.eqb i j = (Nat.eqb (i / q) (j / q) && Nat.eqb (i mod q) (j mod q))%bool.
Proof.
  intros Hq. destruct (Nat.eqb_spec i j) as [->|Hne].
  - rewrite !Nat.eqb_refl. reflexivity.
  - destruct (Nat.eqb_spec (i / q) (j / q)) as [H1|]; auto.
    destruct (Nat.eqb_spec (i mod q) (j mod q)) as [H2|]; auto.
    exfalso. apply Hne. rewrite (Nat.div_mod i q), (Nat.div_mod j q) by lia. rewrite H1, H2. reflexivity.
Qed.

Lemma INR_pow2 n : INR (2 ^ n) = 2 ^ n.
Proof. rewrite pow_INR. reflexivity. Qed.

(* tr(P_i P_j) = 2^n delta_ij *)
Lemma fpauli_trace n : forall i j, (i < 4 ^ n)%nat -> (j < 4 ^ n)%nat ->
  ftr (2 ^ n) (fmul (2 ^ n) (fpauli n i) (fpauli n j)) = if Nat.eqb i j then (2 ^ n, 0) else 0c.
Proof.
  induction n; intros i j Hi Hj.
  - simpl in Hi, Hj. replace i with O by lia. replace j with O by lia.
    unfold ftr, fmul. simpl. apply c_eq; simpl; ring.
  - change (2 ^ S n)%nat with (2 * 2 ^ n)%nat. cbn [fpauli].
    rewrite (ftr_ext _ _ _ (fkron_mul 2 (2 ^ n) _ _ _ _ (pow2_pos n))).
    rewrite ftr_fkron by apply pow2_pos.
    rewrite fsig_trace by (apply div4_lt; auto).
    rewrite IHn by apply mod4_lt.
    rewrite (eqb_divmod (4 ^ n) i j (pow4_pos n)).
    destruct (Nat.eqb (i / 4 ^ n) (j / 4 ^ n)); destruct (Nat.eqb (i mod 4 ^ n) (j mod 4 ^ n)); simpl;
      apply c_eq; simpl; ring.
Qed.

Lemma fpauli_herm n : forall i, (i < 4 ^ n)%nat -> feq (2 ^ n) (fadj (fpauli n i)) (fpauli n i).
Proof.
  induction n; intros i Hi a b Ha Hb.
  - unfold fadj. simpl. apply c_eq; simpl; ring.
  - cbn [fpauli]. rewrite fadj_fkron. change (2 ^ S n)%nat with (2 * 2 ^ n)%nat in Ha, Hb.
    apply (fkron_ext 2 (2 ^ n)); auto. apply pow2_pos. apply fsig_herm. apply IHn. apply mod4_lt.
Qed.

Lemma fpauli_0 n a b : (a < 2 ^ n)%nat -> (b < 2 ^ n)%nat -> fpauli n 0 a b = delta a b.
Proof.
  revert a b. induction n; intros a b Ha Hb.
  - simpl in *. replace a with O by lia. replace b with O by lia. reflexivity.
  - cbn [fpauli]. unfold fkron. rewrite Nat.div_0_l, Nat.mod_0_l by (generalize (pow4_pos n); lia).
    rewrite IHn by (apply Nat.mod_upper_bound; generalize (pow2_pos n); lia).
    unfold delta. rewrite (eqb_divmod (2 ^ n) a b (pow2_pos n)).
    change (2 ^ S n)%nat with (2 * 2 ^ n)%nat in Ha, Hb.
    assert (Ha' : (a / 2 ^ n < 2)%nat) by (apply Nat.div_lt_upper_bound; generalize (pow2_pos n); lia).
    assert (Hb' : (b / 2 ^ n < 2)%nat) by (apply Nat.div_lt_upper_bound; generalize (pow2_pos n); lia).
    destruct (a / 2 ^ n)%nat as [|[|?]]; destruct (b / 2 ^ n)%nat as [|[|?]]; try lia; unfold fsig; simpl;
      destruct (Nat.eqb (a mod 2 ^ n) (b mod 2 ^ n)); apply c_eq; simpl; ring.
Qed.

(* sum_k P_k[a,b] conj(P_k[c,e]) = 2^n delta_ac delta_be *)
Lemma fpauli_complete n : forall a b c e, (a < 2 ^ n)%nat -> (b < 2 ^ n)%nat -> (c < 2 ^ n)%nat -> (e < 2 ^ n)%nat ->
  csumn' (4 ^ n) (fun k => cmul' (fpauli n k a b) (cconj' (fpauli n k c e))) =
  cmul' (2 ^ n, 0) (cmul' (delta a c) (delta b e)).
Proof.
  induction n; intros a b c e Ha Hb Hc He.
  - simpl in *. replace a with O by lia. replace b with O by lia. replace c with O by lia. replace e with O by lia.
    apply c_eq; simpl; ring.
  - change (4 ^ S n)%nat with (4 * 4 ^ n)%nat. rewrite csumn_split.
    change (2 ^ S n)%nat with (2 * 2 ^ n)%nat in Ha, Hb, Hc, He.
    assert (Hdiv : forall x, (x < 2 * 2 ^ n)%nat -> (x / 2 ^ n < 2)%nat)
      by (intros; apply Nat.div_lt_upper_bound; generalize (pow2_pos n); lia).
    assert (Hmod : forall x, (x mod 2 ^ n < 2 ^ n)%nat)
      by (intros; apply Nat.mod_upper_bound; generalize (pow2_pos n); lia).
    rewrite (csumn_ext 4 _ (fun k1 => cmul' (cmul' (fsig k1 (a / 2 ^ n)%nat (b / 2 ^ n)%nat) (cconj' (fsig k1 (c / 2 ^ n)%nat (e / 2 ^ n)%nat)))
        (cmul' (2 ^ n, 0) (cmul' (delta (a mod 2 ^ n) (c mod 2 ^ n)) (delta (b mod 2 ^ n) (e mod 2 ^ n)))))).
    2:{ intros k1 Hk1. rewrite <- (IHn (a mod 2 ^ n)%nat (b mod 2 ^ n)%nat (c mod 2 ^ n)%nat (e mod 2 ^ n)%nat) by auto.
        rewrite <- csumn_mul_l. apply csumn_ext. intros k' Hk'. cbn [fpauli]. unfold fkron.
        destruct (divmod_lt k1 k' (4 ^ n) Hk') as [-> ->]. rewrite cconj_mul. ring. }
    rewrite csumn_mul_r, fsig_complete by auto.
    unfold delta. rewrite (eqb_divmod (2 ^ n) a c (pow2_pos n)), (eqb_divmod (2 ^ n) b e (pow2_pos n)).
    destruct (Nat.eqb (a / 2 ^ n) (c / 2 ^ n)); destruct (Nat.eqb (b / 2 ^ n) (e / 2 ^ n));
      destruct (Nat.eqb (a mod 2 ^ n) (c mod 2 ^ n)); destruct (Nat.eqb (b mod 2 ^ n) (e mod 2 ^ n));
      simpl; apply c_eq; simpl; ring.
Qed.

(* ------------------------------------------------------------------ refinement of the list model *)
Lemma toF_sigma s : feq 2 (toF (sigma RO s)) (fsig s).
Proof. intros a b Ha Hb. unfold sigma. apply toF_mbuild; auto. Qed.

Lemma toF_pauli_chain n : forall idx, (idx < 4 ^ n)%nat -> feq (2 ^ n) (toF (pauli_chain RO n idx)) (fpauli n idx).
Proof.
  induction n; intros idx Hidx a b Ha Hb.
  - simpl in *. replace a with O by lia. replace b with O by lia. reflexivity.
  - cbn [pauli_chain fpauli]. unfold kron. rewrite toF_mbuild by auto. unfold fkron.
    change (2 ^ S n)%nat with (2 * 2 ^ n)%nat in Ha, Hb.
    assert (Hdiv : forall x, (x < 2 * 2 ^ n)%nat -> (x / 2 ^ n < 2)%nat)
      by (intros; apply Nat.div_lt_upper_bound; generalize (pow2_pos n); lia).
    assert (Hmod : forall x, (x mod 2 ^ n < 2 ^ n)%nat)
      by (intros; apply Nat.mod_upper_bound; generalize (pow2_pos n); lia).
    change (mget RO ?A ?i ?j) with (toF A i j).
    rewrite toF_sigma by auto. rewrite IHn by (auto; apply mod4_lt). reflexivity.
Qed.

(* the k-th element of Basis.pauli(n) as a function *)
Definition pauli_C (n k : nat) : fmat := toF (nth k (pauli_basis RO n) []).

Lemma onat_pow2 n : onat RO (2 ^ n) = 2 ^ n.
Proof. unfold onat, oZ. simpl. unfold Rdya. simpl. rewrite <- INR_IZR_INZ, INR_pow2. ring. Qed.

Lemma pauli_C_entry n k a b : (k < 4 ^ n)%nat -> (a < 2 ^ n)%nat -> (b < 2 ^ n)%nat ->
  pauli_C n k a b = cdivr RO (fpauli n k a b) (sqrt (2 ^ n)).
Proof.
  intros Hk Ha Hb. unfold pauli_C, pauli_basis. rewrite nth_build by auto. unfold mdivr.
  rewrite toF_mbuild by auto. change (mget RO ?A ?i ?j) with (toF A i j).
  rewrite toF_pauli_chain by auto. rewrite onat_pow2. reflexivity.
Qed.

Lemma pow2_Rpos n : 0 < 2 ^ n. Proof. apply pow_lt. lra. Qed.
Lemma sqrt_pow2_neq n : sqrt (2 ^ n) <> 0.
Proof. intros H. generalize (sqrt_lt_R0 _ (pow2_Rpos n)). lra. Qed.

Lemma pauli_C_scal n k : (k < 4 ^ n)%nat ->
  feq (2 ^ n) (pauli_C n k) (fscal (/ sqrt (2 ^ n), 0) (fpauli n k)).
Proof.
  intros Hk a b Ha Hb. rewrite pauli_C_entry by auto. unfold fscal. apply c_eq; csimp; field; apply sqrt_pow2_neq.
Qed.

Lemma inv_sqrt_sq n : cmul' (/ sqrt (2 ^ n), 0) (/ sqrt (2 ^ n), 0) = (/ (2 ^ n), 0).
Proof.
  apply c_eq; csimp; try ring. rewrite Rmult_0_l, Rminus_0_r, <- Rinv_mult.
  rewrite sqrt_sqrt by (left; apply pow2_Rpos). reflexivity.
Qed.
Lemma cdivr_scal n (z : Cx) : cdivr RO z (sqrt (2 ^ n)) = cmul' (/ sqrt (2 ^ n), 0) z.
Proof. apply c_eq; csimp; field; apply sqrt_pow2_neq. Qed.

Theorem pauli_orthonormal n : trace_orthonormal (2 ^ n) (4 ^ n) (pauli_C n).
Proof.
  intros i j Hi Hj.
  rewrite (ftr_ext _ _ (fscal (/ (2 ^ n), 0) (fmul (2 ^ n) (fpauli n i) (fpauli n j)))).
  2:{ eapply feq_trans. apply fmul_ext; apply pauli_C_scal; auto.
      intros a b Ha Hb. unfold fmul, fscal. rewrite <- csumn_mul_l. apply csumn_ext. intros k _.
      rewrite <- inv_sqrt_sq. ring. }
  unfold ftr, fscal. rewrite csumn_mul_l. fold (ftr (2 ^ n) (fmul (2 ^ n) (fpauli n i) (fpauli n j))).
  rewrite fpauli_trace by auto. unfold delta. destruct (Nat.eqb i j); apply c_eq; csimp; try ring.
  field. generalize (pow2_Rpos n); lra.
Qed.

Theorem pauli_hermitian n : basis_herm (2 ^ n) (4 ^ n) (pauli_C n).
Proof.
  intros k Hk a b Ha Hb. unfold fadj. rewrite !pauli_C_entry by auto.
  rewrite <- (fpauli_herm n k Hk a b Ha Hb). unfold fadj. apply c_eq; csimp; field; apply sqrt_pow2_neq.
Qed.

Theorem pauli_first n a b : (a < 2 ^ n)%nat -> (b < 2 ^ n)%nat ->
  pauli_C n 0 a b = cdivr RO (delta a b) (sqrt (2 ^ n)).
Proof. intros Ha Hb. rewrite pauli_C_entry by (auto; apply pow4_pos). rewrite fpauli_0 by auto. reflexivity. Qed.

Theorem pauli_complete n : basis_complete (2 ^ n) (4 ^ n) (pauli_C n).
Proof.
  intros a b c e Ha Hb Hc He.
  rewrite (csumn_ext (4 ^ n) _ (fun k => cmul' (/ (2 ^ n), 0) (cmul' (fpauli n k a b) (cconj' (fpauli n k c e))))).
  2:{ intros k Hk. rewrite !pauli_C_entry by auto. rewrite !cdivr_scal, cconj_mul, <- inv_sqrt_sq.
      replace (cconj' (/ sqrt (2 ^ n), 0)) with ((/ sqrt (2 ^ n), 0) : Cx) by (apply c_eq; csimp; ring). ring. }
  rewrite csumn_mul_l, fpauli_complete by auto.
  apply c_eq; csimp; field; generalize (pow2_Rpos n); lra.
Qed.

Theorem pauli_hs_orthonormal n : hs_orthonormal (2 ^ n) (4 ^ n) (pauli_C n).
Proof. apply herm_trace_hs. apply pauli_hermitian. apply pauli_orthonormal. Qed.

Lemma pauli_basis_length n : length (pauli_basis RO n) = (4 ^ n)%nat.
Proof. unfold pauli_basis. apply build_length. Qed.
