(* C08, part 1: decay amplitudes = trapezoidal integral on every path (direct / memory
   parsimonious, control matrix / cached generalized filter function), identifier selection
   = slicing, pulse-correlation sum.                                                        *)
From Coq Require Import ZArith Reals List Lra Lia Bool.
From FF Require Import Base.Ops Inst.RInst Base.RAlg Model.Numeric Model.Decay Proofs.Trapz.
Import ListNotations.
Local Open Scope R_scope.

Notation A3r := (Arr3 (T:=R)).
Notation spectrumR := (spectrum (T:=R)).

(* ---------- array access ---------- *)
Lemma a5get_a5build n1 n2 n3 n4 n5 (f : nat -> nat -> nat -> nat -> nat -> Cx) a b k l o :
  (a < n1)%nat -> (b < n2)%nat -> (k < n3)%nat -> (l < n4)%nat -> (o < n5)%nat ->
  a5get RO (a5build n1 n2 n3 n4 n5 f) a b k l o = f a b k l o.
Proof. intros. unfold a5get, a5build. rewrite !nth_build by auto. reflexivity. Qed.

Lemma a3get_slice_k (Bm : A3r) k a o : a3get RO (slice_k Bm k) a 0 o = a3get RO Bm a k o.
Proof.
  unfold a3get, slice_k.
  destruct (Nat.lt_ge_cases a (length Bm)) as [H|H].
  - rewrite (nth_map_lt _ Bm a [] []) by auto. reflexivity.
  - rewrite (nth_overflow (map _ Bm)) by (rewrite map_length; auto).
    rewrite (nth_overflow Bm) by auto. destruct k; reflexivity.
Qed.
Lemma a5get_slice_k5 (F : Arr5 (T:=R)) k a b l o : a5get RO (slice_k5 F k) a b 0 l o = a5get RO F a b k l o.
Proof.
  unfold a5get, slice_k5.
  destruct (Nat.lt_ge_cases a (length F)) as [H|H].
  - rewrite (nth_map_lt _ F a [] []) by auto.
    destruct (Nat.lt_ge_cases b (length (nth a F []))) as [Hb|Hb].
    + rewrite (nth_map_lt _ (nth a F []) b [] []) by auto. reflexivity.
    + rewrite (nth_overflow (map _ (nth a F []))) by (rewrite map_length; auto).
      rewrite (nth_overflow (nth a F [])) by auto. destruct k; reflexivity.
  - rewrite (nth_overflow (map _ F)) by (rewrite map_length; auto).
    rewrite (nth_overflow F) by auto. destruct b; destruct k; reflexivity.
Qed.

(* ---------- the value every path computes: Gamma_{(i,j),kl} as a weighted sum ---------- *)
(* trapz of Re( conj(L_{idx i,k}) S_ij R_{idx j,l} ) / 2 pi *)
Definition Gamma (Lm Rm : A3r) (idx : list nat) (sp : spectrumR) (no : nat) (omega : list R) (i j k l : nat) : R :=
  trapz_w no (fun o => fst (cmul' (cmul' (cconj' (a3get RO Lm (sel idx i) k o)) (spec_at RO sp i j o))
                                  (a3get RO Rm (sel idx j) l o))) omega / (2 * PI).

(* decay_is_trapz: the control-matrix path entry is the trapezoidal sum of the real part of
   conj(B_ak) S_ab B_bl over the grid, divided by 2 pi *)
Theorem decay_is_trapz Lm Rm idx sp no omega i j k l : length omega = no ->
  decay_entry_cm RO Lm Rm idx sp no omega i j k l = Gamma Lm Rm idx sp no omega i j k l.
Proof.
  intros H. unfold decay_entry_cm, integrate_2pi, Gamma. rewrite trapz_build by auto. reflexivity.
Qed.

Definition idx_ok (na : nat) (idx : list nat) : Prop := forall i, (i < length idx)%nat -> (sel idx i < na)%nat.

(* ffpath_eq_cmpath, entrywise *)
Lemma integrand_ff_eq_cm na nk no Lm Rm idx sp i j k l o :
  (sel idx i < na)%nat -> (sel idx j < na)%nat -> (k < nk)%nat -> (l < nk)%nat -> (o < no)%nat ->
  integrand_ff RO (ff_generalized RO na nk no Lm Rm) idx sp i j k l o = integrand_cm RO Lm Rm idx sp i j k l o.
Proof.
  intros. unfold integrand_ff, integrand_cm, ff_generalized. rewrite a5get_a5build by auto.
  unfold cre. f_equal. ring.
Qed.
Lemma decay_entry_ff_eq_cm na nk no Lm Rm idx sp omega i j k l :
  (sel idx i < na)%nat -> (sel idx j < na)%nat -> (k < nk)%nat -> (l < nk)%nat ->
  decay_entry_ff RO (ff_generalized RO na nk no Lm Rm) idx sp no omega i j k l =
  decay_entry_cm RO Lm Rm idx sp no omega i j k l.
Proof.
  intros. unfold decay_entry_ff, decay_entry_cm, integrate_2pi. f_equal. f_equal.
  apply build_ext. intros o Ho. eapply integrand_ff_eq_cm; eauto.
Qed.

(* members of [leads] are positions of the selection *)
Lemma leads_bound (sp : spectrumR) ni p : In p (leads sp ni) -> (fst p < ni)%nat /\ (snd p < ni)%nat.
Proof.
  unfold leads. destruct (is_cross sp).
  - destruct p as [i j]. intros H. apply in_prod_iff in H. destruct H as [H1 H2].
    apply in_seq in H1. apply in_seq in H2. simpl. lia.
  - intros H. apply in_map_iff in H. destruct H as [i [<- H]]. apply in_seq in H. simpl. lia.
Qed.

Lemma decay_direct_ext (e1 e2 : nat -> nat -> nat -> nat -> R) (sp : spectrumR) ni nk :
  (forall i j k l, (i < ni)%nat -> (j < ni)%nat -> (k < nk)%nat -> (l < nk)%nat -> e1 i j k l = e2 i j k l) ->
  decay_direct e1 sp ni nk = decay_direct e2 sp ni nk.
Proof.
  intros H. unfold decay_direct. apply map_ext_in. intros p Hp. apply leads_bound in Hp. destruct Hp.
  apply build_ext. intros k Hk. apply build_ext. intros l Hl. apply H; auto.
Qed.

(* ---------- memory-parsimonious loop = direct ---------- *)
Lemma set_nth_length {A} (l : list A) n x : length (set_nth l n x) = length l.
Proof. revert n; induction l; intros [|n]; simpl; auto. Qed.
Lemma nth_set_nth {A} (l : list A) n x i dflt : (n < length l)%nat ->
  nth i (set_nth l n x) dflt = if Nat.eqb i n then x else nth i l dflt.
Proof.
  revert n i; induction l as [|y r IH]; intros n i H; simpl in H. lia.
  destruct n, i; simpl; auto. apply IH. lia.
Qed.
Lemma combine_map_same {A Bt Ct} (f : A -> Bt) (g : A -> Ct) l :
  combine (map f l) (map g l) = map (fun x => (f x, g x)) l.
Proof. induction l; simpl; congruence. Qed.

(* fold of row assignments over k = s .. s+m-1 *)
Lemma fold_rows {A} (r : nat -> A) : forall m s (rows : list A) i dflt, (s + m <= length rows)%nat ->
  nth i (fold_left (fun rs k => set_nth rs k (r k)) (seq s m) rows) dflt =
  if (Nat.leb s i && Nat.ltb i (s + m))%bool then r i else nth i rows dflt.
Proof.
  induction m; intros s rows i dflt H; simpl.
  - replace (Nat.leb s i && Nat.ltb i (s + 0))%bool with false. reflexivity.
    symmetry. apply andb_false_iff. destruct (Nat.leb_spec s i); auto. right. apply Nat.ltb_ge. lia.
  - rewrite IHm by (rewrite set_nth_length; lia).
    rewrite nth_set_nth by lia.
    destruct (Nat.eqb_spec i s) as [->|Hne].
    + replace (Nat.leb (S s) s) with false by (symmetry; apply Nat.leb_gt; lia). simpl.
      rewrite Nat.leb_refl. replace (Nat.ltb s (s + S m)) with true by (symmetry; apply Nat.ltb_lt; lia). reflexivity.
    + destruct (Nat.leb_spec (S s) i), (Nat.leb_spec s i); try lia; simpl;
        replace (s + S m)%nat with (S s + m)%nat by lia; reflexivity.
Qed.
Lemma fold_rows_length {A} (r : nat -> A) ks (rows : list A) :
  length (fold_left (fun rs k => set_nth rs k (r k)) ks rows) = length rows.
Proof. revert rows; induction ks; intros; simpl; auto. rewrite IHks, set_nth_length. reflexivity. Qed.
Lemma fold_rows_all {A} (r z : nat -> A) n :
  fold_left (fun rs k => set_nth rs k (r k)) (seq 0 n) (build n z) = build n r.
Proof.
  apply nth_ext with (d := r 0%nat) (d' := r 0%nat).
  - rewrite fold_rows_length, !build_length. reflexivity.
  - intros i Hi. rewrite fold_rows_length, build_length in Hi.
    rewrite fold_rows by (rewrite build_length; lia). simpl.
    replace (Nat.ltb i n) with true by (symmetry; apply Nat.ltb_lt; auto).
    rewrite nth_build by auto. reflexivity.
Qed.

Lemma pars_loop_map {P} (lds : list P) (r : P -> nat -> list R) ks : forall (rows : P -> list (list R)),
  pars_loop (fun k => map (fun p => [r p k]) lds) ks (map rows lds) =
  map (fun p => fold_left (fun rs k => set_nth rs k (r p k)) ks (rows p)) lds.
Proof.
  induction ks as [|k ks IH]; intros rows; simpl. reflexivity.
  unfold assign_k. rewrite combine_map_same.
  rewrite map_map. simpl.
  rewrite (IH (fun p => set_nth (rows p) k (r p k))). reflexivity.
Qed.
Lemma build_const_map {A P} (c : A) (l : list P) : build (length l) (fun _ => c) = map (fun _ => c) l.
Proof. unfold build. induction l; simpl. reflexivity. rewrite <- seq_shift, map_map. simpl in *. f_equal. exact IHl. Qed.

Lemma decay_parsimonious_eq (entry : nat -> nat -> nat -> nat -> R) (sp : spectrumR) ni nk :
  decay_parsimonious RO (fun k => decay_block (fun i j l => entry i j k l) sp ni nk) sp ni nk =
  decay_direct entry sp ni nk.
Proof.
  unfold decay_parsimonious, decay_block, decay_direct, dzeros.
  rewrite build_const_map.
  etransitivity.
  apply (pars_loop_map (leads sp ni) (fun p k => build nk (fun l => entry (fst p) (snd p) k l)) (seq 0 nk)
             (fun _ => build nk (fun _ => build nk (fun _ => 0)))).
  apply map_ext. intros p.
  apply (fold_rows_all (fun k => build nk (fun l => entry (fst p) (snd p) k l))).
Qed.

(* parsimonious_eq_direct and ffpath_eq_cmpath: all four option combinations return the same array *)
Theorem decay_options_independent pars use_ff na nk no Lm Rm idx sp omega :
  idx_ok na idx ->
  decay_amplitudes RO pars use_ff na nk no Lm Rm idx sp omega =
  decay_amplitudes RO false false na nk no Lm Rm idx sp omega.
Proof.
  intros Hidx. unfold decay_amplitudes.
  destruct pars, use_ff.
  - (* parsimonious, filter-function path *)
    rewrite (decay_parsimonious_eq
      (fun i j k l => decay_entry_ff RO (slice_k5 (ff_generalized RO na nk no Lm Rm) k) idx sp no omega i j 0 l)).
    apply decay_direct_ext. intros i j k l Hi Hj Hk Hl.
    rewrite <- (decay_entry_ff_eq_cm na nk no) by (auto; apply Hidx; auto).
    unfold decay_entry_ff, integrate_2pi. f_equal. f_equal. apply build_ext. intros o Ho.
    unfold integrand_ff. rewrite a5get_slice_k5. reflexivity.
  - rewrite (decay_parsimonious_eq
      (fun i j k l => decay_entry_cm RO (slice_k Lm k) Rm idx sp no omega i j 0 l)).
    apply decay_direct_ext. intros i j k l Hi Hj Hk Hl.
    unfold decay_entry_cm, integrate_2pi. f_equal. f_equal. apply build_ext. intros o Ho.
    unfold integrand_cm. rewrite a3get_slice_k. reflexivity.
  - apply decay_direct_ext. intros i j k l Hi Hj Hk Hl.
    apply decay_entry_ff_eq_cm; auto.
  - reflexivity.
Qed.

(* entries of the returned array *)
Lemma nth_leads_diag (sp : spectrumR) ni i : is_cross sp = false -> (i < ni)%nat ->
  nth i (leads sp ni) (0, 0)%nat = (i, i).
Proof. intros Hc Hi. unfold leads. rewrite Hc. rewrite (nth_map_lt _ (seq 0 ni) i 0%nat) by (rewrite seq_length; auto).
  rewrite nth_seq0; auto. Qed.
Lemma nth_list_prod n i j : (i < n)%nat -> (j < n)%nat ->
  nth (i * n + j) (list_prod (seq 0 n) (seq 0 n)) (0, 0)%nat = (i, j).
Proof.
  intros Hi Hj.
  assert (G : forall (l : list nat) s m, (i < m)%nat ->
            nth (i * n + j) (list_prod (seq s m) l) (0,0)%nat = (s + i, nth j l 0)%nat -> True) by auto.
  clear G.
  assert (H : forall m s i, (i < m)%nat ->
            nth (i * n + j) (list_prod (seq s m) (seq 0 n)) (0,0)%nat = ((s + i)%nat, j)).
  { induction m; intros s i0 Hi0. lia. simpl.
    destruct i0.
    - simpl. rewrite app_nth1 by (rewrite map_length, seq_length; auto).
      rewrite (nth_map_lt _ (seq 0 n) j 0%nat) by (rewrite seq_length; auto).
      rewrite nth_seq0 by auto. rewrite Nat.add_0_r. reflexivity.
    - rewrite app_nth2 by (rewrite map_length, seq_length; simpl; lia).
      rewrite map_length, seq_length. replace (S i0 * n + j - n)%nat with (i0 * n + j)%nat by (simpl; lia).
      rewrite IHm by lia. f_equal. lia. }
  rewrite H by auto. reflexivity.
Qed.
Lemma nth_leads_cross (sp : spectrumR) ni i j : is_cross sp = true -> (i < ni)%nat -> (j < ni)%nat ->
  nth (i * ni + j) (leads sp ni) (0, 0)%nat = (i, j).
Proof. intros Hc Hi Hj. unfold leads. rewrite Hc. apply nth_list_prod; auto. Qed.
Lemma leads_length (sp : spectrumR) ni : length (leads sp ni) = if is_cross sp then (ni * ni)%nat else ni.
Proof. unfold leads. destruct (is_cross sp). rewrite prod_length, !seq_length. reflexivity.
  rewrite map_length, seq_length. reflexivity. Qed.

(* position of the pair (i,j) on the leading axis of the result *)
Definition lead_pos (sp : spectrumR) (ni i j : nat) : nat := if is_cross sp then (i * ni + j)%nat else i.
Lemma lead_pos_lt (sp : spectrumR) ni i j : (i < ni)%nat -> (j < ni)%nat -> (lead_pos sp ni i j < length (leads sp ni))%nat.
Proof. intros. rewrite leads_length. unfold lead_pos. destruct (is_cross sp); auto. nia. Qed.
Lemma nth_leads (sp : spectrumR) ni i j : (i < ni)%nat -> (j < ni)%nat -> (is_cross sp = false -> i = j) ->
  nth (lead_pos sp ni i j) (leads sp ni) (0,0)%nat = (i, j).
Proof.
  intros Hi Hj Hd. unfold lead_pos. destruct (is_cross sp) eqn:E.
  - apply nth_leads_cross; auto.
  - rewrite nth_leads_diag by auto. rewrite <- Hd; auto.
Qed.

Lemma dget_decay_direct (entry : nat -> nat -> nat -> nat -> R) (sp : spectrumR) ni nk i j k l :
  (i < ni)%nat -> (j < ni)%nat -> (is_cross sp = false -> i = j) -> (k < nk)%nat -> (l < nk)%nat ->
  dget RO (decay_direct entry sp ni nk) (lead_pos sp ni i j) k l = entry i j k l.
Proof.
  intros Hi Hj Hd Hk Hl. unfold dget, decay_direct.
  rewrite (nth_map_lt _ (leads sp ni) _ (0,0)%nat) by (apply lead_pos_lt; auto).
  rewrite nth_leads by auto. simpl. rewrite !nth_build by auto. reflexivity.
Qed.

(* Main statement: whatever the options, entry [(i,j)][k][l] of the result of
   calculate_decay_amplitudes is the trapezoidal sum Gamma *)
Theorem decay_amplitudes_entry pars use_ff na nk no Lm Rm idx sp omega i j k l :
  idx_ok na idx -> length omega = no ->
  (i < length idx)%nat -> (j < length idx)%nat -> (is_cross sp = false -> i = j) -> (k < nk)%nat -> (l < nk)%nat ->
  dget RO (decay_amplitudes RO pars use_ff na nk no Lm Rm idx sp omega) (lead_pos sp (length idx) i j) k l =
  Gamma Lm Rm idx sp no omega i j k l.
Proof.
  intros Hidx Hom Hi Hj Hd Hk Hl. rewrite decay_options_independent by auto.
  unfold decay_amplitudes. rewrite dget_decay_direct by auto. apply decay_is_trapz; auto.
Qed.

(* ---------- slice_commutes: selecting identifiers = slicing the full result ---------- *)
(* [spF] is the spectrum for all operators, [spS] the one passed with the selection:
   S_sel[i][j] = S_full[idx i][idx j] *)
Definition spectrum_selected (spF spS : spectrumR) (idx : list nat) : Prop :=
  forall i j o, spec_at RO spS i j o = spec_at RO spF (sel idx i) (sel idx j) o.
Lemma sel_seq na a : (a < na)%nat -> sel (seq 0 na) a = a.
Proof. intros. unfold sel. apply nth_seq0; auto. Qed.
Theorem slice_commutes na Lm Rm idx spF spS no omega i j k l :
  spectrum_selected spF spS idx -> (sel idx i < na)%nat -> (sel idx j < na)%nat ->
  Gamma Lm Rm idx spS no omega i j k l = Gamma Lm Rm (seq 0 na) spF no omega (sel idx i) (sel idx j) k l.
Proof.
  intros Hs Hi Hj. unfold Gamma. f_equal. apply trapz_w_ext. intros o Ho.
  rewrite Hs. rewrite !sel_seq by auto. reflexivity.
Qed.

(* ---------- pulse correlations: sum over (g,h) of the pc decay amplitudes = total ---------- *)
Lemma Gamma_sum_left (Ls : list A3r) na nk no Rm idx sp omega i j k l :
  (sel idx i < na)%nat -> (k < nk)%nat -> length omega = no ->
  Gamma (cm_pc_sum RO na nk no Ls) Rm idx sp no omega i j k l =
  sumn' (length Ls) (fun g => Gamma (nth g Ls []) Rm idx sp no omega i j k l).
Proof.
  intros Hi Hk Hom. unfold Gamma.
  unfold Rdiv. rewrite sumn_mul_r. f_equal.
  rewrite <- trapz_w_sum. apply trapz_w_ext. intros o Ho.
  unfold cm_pc_sum. rewrite a3get_a3build by auto.
  rewrite csumn_conj, <- csumn_mul_r, <- csumn_mul_r. apply csumn_re.
Qed.
Lemma Gamma_sum_right (Rs : list A3r) na nk no Lm idx sp omega i j k l :
  (sel idx j < na)%nat -> (l < nk)%nat -> length omega = no ->
  Gamma Lm (cm_pc_sum RO na nk no Rs) idx sp no omega i j k l =
  sumn' (length Rs) (fun h => Gamma Lm (nth h Rs []) idx sp no omega i j k l).
Proof.
  intros Hi Hk Hom. unfold Gamma.
  unfold Rdiv. rewrite sumn_mul_r. f_equal.
  rewrite <- trapz_w_sum. apply trapz_w_ext. intros o Ho.
  unfold cm_pc_sum. rewrite a3get_a3build by auto.
  rewrite <- csumn_mul_l. apply csumn_re.
Qed.
Theorem pc_decay_sum (Bpc : list A3r) na nk no idx sp omega i j k l :
  (sel idx i < na)%nat -> (sel idx j < na)%nat -> (k < nk)%nat -> (l < nk)%nat -> length omega = no ->
  Gamma (cm_pc_sum RO na nk no Bpc) (cm_pc_sum RO na nk no Bpc) idx sp no omega i j k l =
  sumn' (length Bpc) (fun g => sumn' (length Bpc) (fun h =>
     Gamma (nth g Bpc []) (nth h Bpc []) idx sp no omega i j k l)).
Proof.
  intros. rewrite (Gamma_sum_left Bpc na nk no) by auto. apply sumn_ext. intros g _.
  apply (Gamma_sum_right Bpc na nk no); auto.
Qed.

(* ---------- util.get_indices_from_identifiers ---------- *)
From Coq Require Import String.
Lemma last_index_of_spec s : forall l pos acc r,
  last_index_of s l pos acc = Some r ->
  (acc = Some r /\ ~ In s l) \/ (exists k, (k < List.length l)%nat /\ r = (pos + k)%nat /\ nth k l ""%string = s).
Proof.
  induction l as [|x l IH]; intros pos acc r H; simpl in H.
  - left. split; auto.
  - destruct (String.eqb_spec s x) as [->|Hne].
    + apply IH in H. destruct H as [[H1 H2]|[k [Hk [Hr Hn]]]].
      * right. exists 0%nat. simpl. split. lia. split. injection H1 as <-. lia. reflexivity.
      * right. exists (S k). simpl. split. lia. split. lia. exact Hn.
    + apply IH in H. destruct H as [[H1 H2]|[k [Hk [Hr Hn]]]].
      * left. split; auto. simpl. intros [E|E]; [apply Hne; auto | contradiction].
      * right. exists (S k). simpl. split. lia. split. lia. exact Hn.
Qed.
Lemma all_some_spec {A} (dflt : A) : forall (l : list (option A)) r, all_some l = Some r ->
  List.length r = List.length l /\ forall i, (i < List.length l)%nat -> nth i l None = Some (nth i r dflt).
Proof.
  induction l as [|x l IH]; intros r H; simpl in H.
  - injection H as <-. split; auto. intros i Hi. simpl in Hi. lia.
  - destruct x as [x|]; [|discriminate].
    destruct (all_some l) as [r'|] eqn:E; [|discriminate]. simpl in H. injection H as <-.
    destruct (IH r' eq_refl) as [Hl Hn]. split. simpl. lia.
    intros i Hi. destruct i; simpl. reflexivity. apply Hn. simpl in Hi. lia.
Qed.

(* get_indices_from_identifiers: identifiers=None selects every operator in order; a list of identifiers
   selects, position by position, an index at which that identifier stands (the last one if it is repeated),
   and every index is a valid operator index *)
Theorem indices_none all_ids : indices_from_identifiers all_ids None = Some (seq 0 (List.length all_ids)).
Proof. reflexivity. Qed.
Theorem indices_some all_ids l idx : indices_from_identifiers all_ids (Some l) = Some idx ->
  List.length idx = List.length l /\
  forall i, (i < List.length l)%nat -> (sel idx i < List.length all_ids)%nat /\ nth (sel idx i) all_ids ""%string = nth i l ""%string.
Proof.
  intros H. unfold indices_from_identifiers in H.
  destruct (all_some_spec 0%nat _ _ H) as [Hlen Hn]. rewrite map_length in Hlen, Hn. split. exact Hlen.
  intros i Hi. specialize (Hn i Hi).
  rewrite (nth_map_lt (fun s => last_index_of s all_ids 0 None) l i ""%string None) in Hn by auto.
  apply last_index_of_spec in Hn. destruct Hn as [[Hd _]|[k [Hk [Hr Hs]]]]; [discriminate|].
  unfold sel. rewrite Hr. simpl. split; auto.
Qed.
Corollary indices_idx_ok all_ids l idx : indices_from_identifiers all_ids (Some l) = Some idx -> idx_ok (List.length all_ids) idx.
Proof. intros H i Hi. destruct (indices_some _ _ _ H) as [Hl Hn]. rewrite Hl in Hi. apply (Hn i Hi). Qed.
