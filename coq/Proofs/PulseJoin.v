(* _join_equal_segments: the array code (np.diff, all(axis=0), nonzero, np.delete, the accumulation loop)
   computes the canonical form: every run of equal consecutive segments merged, durations added in the
   code's order.  *)
From Coq Require Import ZArith List Bool String PeanoNat Lia Permutation.
From FF Require Import Model.B64 Model.Pulse Spec.PulseSpec Proofs.PulseBase.
Import ListNotations.
Local Open Scope nat_scope.
Local Notation length := List.length (only parsing).

(* ------------------------------------------------------------------ mask-structured versions *)
(* drop position i iff m[i] (positions beyond the mask are kept) *)
Fixpoint del_mask {A} (l : list A) (m : list bool) : list A :=
  match l with
  | [] => []
  | x :: r => match m with
              | true :: m' => del_mask r m'
              | false :: m' => x :: del_mask r m'
              | [] => x :: r
              end
  end.

Section J.
Variable fadd : num -> num -> num.

(* durations: pending ones of the current run are added to the run's last duration, in order *)
Fixpoint join_dt (pend : list num) (dts : list num) (m : list bool) : list num :=
  match dts with
  | [] => []
  | x :: r => match m with
              | true :: m' => join_dt (pend ++ [x]) r m'
              | false :: m' => fold_left fadd pend x :: join_dt [] r m'
              | [] => fold_left fadd pend x :: r
              end
  end.

(* ---------- np.delete(l, nonzero(m)) = del_mask l m *)
Lemma nonzero_from_ge o m : Forall (fun i => o <= i) (nonzero_from o m).
Proof.
  revert o; induction m as [|b m IH]; intros o; simpl; [constructor|].
  assert (Forall (fun i => o <= i) (nonzero_from (S o) m)).
  { eapply Forall_impl; [|apply IH]. simpl; intros; lia. }
  destruct b; auto.
Qed.
Lemma existsb_small o idx : Forall (fun i => S o <= i) idx -> existsb (Nat.eqb o) idx = false.
Proof.
  induction 1 as [|i idx Hi _ IH]; simpl; auto. rewrite IH, orb_false_r. apply Nat.eqb_neq. lia.
Qed.
Lemma np_delete_from_drop {A} o j (l : list A) idx : j < o -> np_delete_from o l (j :: idx) = np_delete_from o l idx.
Proof.
  revert o; induction l as [|x r IH]; intros o Hj; simpl; auto.
  replace (o =? j) with false by (symmetry; apply Nat.eqb_neq; lia). simpl.
  rewrite IH by lia. reflexivity.
Qed.
Lemma np_delete_from_mask {A} o (l : list A) m : np_delete_from o l (nonzero_from o m) = del_mask l m.
Proof.
  revert o m; induction l as [|x r IH]; intros o m; simpl; auto.
  destruct m as [|b m]; simpl.
  - clear IH. revert o x. induction r as [|y r IHr]; intros o x; simpl; auto. f_equal. apply IHr.
  - destruct b; simpl.
    + rewrite Nat.eqb_refl. simpl. rewrite np_delete_from_drop by lia. apply IH.
    + rewrite (existsb_small o) by apply nonzero_from_ge. f_equal. apply IH.
Qed.
Lemma np_delete_mask {A} (l : list A) m : np_delete l (nonzero m) = del_mask l m.
Proof. apply np_delete_from_mask. Qed.

Lemma del_mask_all_false {A} (l : list A) m : nonzero_from 0 m = [] -> del_mask l m = l.
Proof.
  generalize 0. revert l; induction m as [|b m IH]; intros l o H; destruct l as [|x r]; simpl in *; auto.
  destruct b; [discriminate|]. f_equal. eapply IH; eassumption.
Qed.

(* ---------- the accumulation loop *)
Definition step (pdt : list num) (d : list num) (on : nat * nat) : list num :=
  upd d (snd on) (fadd (nth (snd on) d d0) (nth (fst on) pdt d0)).
Definition ups_from (j : nat) (idx : list nat) : list (nat * nat) :=
  combine idx (zip_with Nat.sub idx (seq j (length idx))).

Lemma accumulate_step pdt idx dt0 : accumulate fadd pdt idx dt0 = fold_left (step pdt) (ups_from 0 idx) dt0.
Proof. reflexivity. Qed.

(* updates shifted past a kept head *)
Lemma fold_step_shift_both x pdt y ups d :
  fold_left (step (y :: pdt)) (map (fun on => (S (fst on), S (snd on))) ups) (x :: d) =
  x :: fold_left (step pdt) ups d.
Proof.
  revert d; induction ups as [|[o n] ups IH]; intros d; simpl; [reflexivity|].
  change (step (y :: pdt) (x :: d) (S o, S n)) with (x :: step pdt d (o, n)). apply IH.
Qed.
(* source positions shifted (head of pdt deleted, not of d) *)
Lemma fold_step_shift_old pdt y ups d :
  fold_left (step (y :: pdt)) (map (fun on => (S (fst on), snd on)) ups) d = fold_left (step pdt) ups d.
Proof.
  revert d; induction ups as [|[o n] ups IH]; intros d; simpl; [reflexivity|].
  change (step (y :: pdt) d (S o, n)) with (step pdt d (o, n)). apply IH.
Qed.

Lemma zip_sub_shift idx j : zip_with Nat.sub (map S idx) (seq (S j) (length idx)) = zip_with Nat.sub idx (seq j (length idx)).
Proof.
  revert j; induction idx as [|i idx IH]; intros j; simpl; auto. f_equal. apply IH.
Qed.
Lemma zip_sub_S idx j : (forall k, k < length idx -> j + k <= nth k idx 0) ->
  zip_with Nat.sub (map S idx) (seq j (length idx)) = map S (zip_with Nat.sub idx (seq j (length idx))).
Proof.
  revert j; induction idx as [|i idx IH]; intros j HK; cbn -[Nat.sub]; auto.
  f_equal.
  - pose proof (HK 0 ltac:(simpl; lia)) as H0. cbn in H0. apply Nat.sub_succ_l. lia.
  - apply IH. intros k Hk. pose proof (HK (S k) ltac:(simpl; lia)) as H1. cbn in H1. lia.
Qed.

Lemma nonzero_from_shift o m : nonzero_from (S o) m = map S (nonzero_from o m).
Proof. revert o; induction m as [|b m IH]; intros o; simpl; auto. destruct b; simpl; rewrite IH; reflexivity. Qed.
Lemma nonzero_from_grow o m k : k < length (nonzero_from o m) -> o + k <= nth k (nonzero_from o m) 0.
Proof.
  revert o k; induction m as [|b m IH]; intros o k Hk; simpl in *; [lia|].
  destruct b; simpl in *.
  - destruct k; [lia|]. specialize (IH (S o) k ltac:(lia)). lia.
  - specialize (IH (S o) k Hk). lia.
Qed.

Lemma ups_true m : ups_from 0 (nonzero_from 0 (true :: m)) =
  (0, 0) :: map (fun on => (S (fst on), snd on)) (ups_from 0 (nonzero_from 0 m)).
Proof.
  unfold ups_from. simpl. f_equal.
  rewrite nonzero_from_shift. rewrite map_length, zip_sub_shift.
  generalize (zip_with Nat.sub (nonzero_from 0 m) (seq 0 (length (nonzero_from 0 m)))).
  generalize (nonzero_from 0 m). induction l as [|i l IH]; intros [|n ns]; simpl; auto. f_equal. apply IH.
Qed.
Lemma ups_false m : ups_from 0 (nonzero_from 0 (false :: m)) =
  map (fun on => (S (fst on), S (snd on))) (ups_from 0 (nonzero_from 0 m)).
Proof.
  unfold ups_from. simpl. rewrite nonzero_from_shift, map_length.
  rewrite zip_sub_S.
  - generalize (zip_with Nat.sub (nonzero_from 0 m) (seq 0 (length (nonzero_from 0 m)))).
    generalize (nonzero_from 0 m). induction l as [|i l IH]; intros [|n ns]; simpl; auto. f_equal. apply IH.
  - intros k Hk. apply (nonzero_from_grow 0 m k Hk).
Qed.

(* position 0 first receives the pending durations, then the loop runs *)
Definition add_pend (pend : list num) (d : list num) : list num :=
  match d with [] => [] | x :: r => fold_left fadd pend x :: r end.

Lemma add_pend_snoc pend y d : upd (add_pend pend d) 0 (fadd (nth 0 (add_pend pend d) d0) y) = add_pend (pend ++ [y]) d.
Proof. destruct d as [|x r]; simpl; auto. rewrite fold_left_app. reflexivity. Qed.

Lemma loop_join_dt pend pdt m : length m < length pdt ->
  fold_left (step pdt) (ups_from 0 (nonzero_from 0 m)) (add_pend pend (del_mask pdt m)) = join_dt pend pdt m.
Proof.
  revert pend m; induction pdt as [|x r IH]; intros pend m HL; simpl in HL; [lia|].
  destruct m as [|b m].
  - simpl. reflexivity.
  - destruct b.
    + rewrite ups_true. simpl fold_left. simpl del_mask. simpl join_dt.
      unfold step at 2. simpl fst; simpl snd. simpl (nth 0 (x :: r) d0).
      rewrite add_pend_snoc, fold_step_shift_old. apply IH. simpl in HL. lia.
    + rewrite ups_false. simpl del_mask. simpl add_pend. simpl join_dt.
      rewrite fold_step_shift_both. f_equal.
      destruct r as [|y r']; [simpl in HL; lia|].
      specialize (IH [] m ltac:(simpl in *; lia)).
      assert (E : add_pend [] (del_mask (y :: r') m) = del_mask (y :: r') m).
      { destruct (del_mask (y :: r') m); reflexivity. }
      rewrite E in IH. exact IH.
Qed.

Lemma join_dt_all_false dts m : nonzero_from 0 m = [] -> join_dt [] dts m = dts.
Proof.
  generalize 0. revert dts; induction m as [|b m IH]; intros dts o H; destruct dts as [|x r]; simpl in *; auto.
  destruct b; [discriminate|]. f_equal. eapply IH; eassumption.
Qed.

(* ---------- the function in mask-structured form *)
Theorem join_as_mask p : length (equal_mask p) < length (dt p) ->
  join_core fadd p =
  (map (fun r => del_mask r (equal_mask p)) (c_coeffs p),
   map (fun r => del_mask r (equal_mask p)) (n_coeffs p),
   join_dt [] (dt p) (equal_mask p)).
Proof.
  intros HL. unfold join_core, equal_ind.
  destruct (nonzero (equal_mask p)) eqn:E.
  - unfold nonzero in E. f_equal; [f_equal|].
    + symmetry. rewrite <- (map_id (c_coeffs p)) at 2. apply map_ext. intros r. apply del_mask_all_false; assumption.
    + symmetry. rewrite <- (map_id (n_coeffs p)) at 2. apply map_ext. intros r. apply del_mask_all_false; assumption.
    + symmetry. apply join_dt_all_false; assumption.
  - rewrite <- E. f_equal; [f_equal|].
    + apply map_ext. intros r. apply np_delete_mask.
    + apply map_ext. intros r. apply np_delete_mask.
    + rewrite accumulate_step, np_delete_mask. unfold nonzero.
      pose proof (loop_join_dt [] (dt p) (equal_mask p) HL) as K.
      assert (E2 : add_pend [] (del_mask (dt p) (equal_mask p)) = del_mask (dt p) (equal_mask p)).
      { destruct (del_mask (dt p) (equal_mask p)); reflexivity. }
      rewrite E2 in K. exact K.
Qed.

End J.
