(* Second-order filter function: the assembled value as nested time-ordered integrals.
   beta_ak(u) = sum_ij X_ak(i,j) e^{i Omega_ij u}   is the time-domain control matrix of one segment at local
   time u (X_ak(i,j) = s_a (V^dagger N_a V)(i,j) (W^dagger C_k W)(j,i), W = Q^dagger V).
     step_int  : step_g[a,k](w) = e^{i w t_g} int_0^dt e^{i w u} beta_ak(u) du
     same_int  : D_g[a,b,k,l](w) = int_0^dt e^{-i w u} beta_ak(u) ( int_0^u e^{i w u'} beta_bl(u') du' ) du
     F2_assembly_partial : F2 = sum_g [ D_g + conj(step_g[a,k]) sum_{g'<g} step_g'[b,l] ]                *)
From Coq Require Import ZArith Reals Lra Lia List.
From Coquelicot Require Import Coquelicot.
From FF Require Import Base.Ops Inst.RInst Base.RAlg Model.Numeric Model.SecondOrder Proofs.Foi Proofs.SecondOrder
     Proofs.SecondOrderAsm.
Import ListNotations.
Local Open Scope R_scope.

(* ------------------------------------------------------------------ complex-valued integrals: linearity *)
Lemma is_CInt_ext f g a b z : (forall t, f t = g t) -> is_CInt f a b z -> is_CInt g a b z.
Proof.
  intros E [H1 H2]. split.
  - apply (is_RInt_ext (fun t => fst (f t))); auto. intros x _. rewrite E. reflexivity.
  - apply (is_RInt_ext (fun t => snd (f t))); auto. intros x _. rewrite E. reflexivity.
Qed.
Lemma is_CInt_0 a b : is_CInt (fun _ => 0c) a b 0c.
Proof. split; simpl; (evar_last; [apply @is_RInt_const | unfold scal; simpl; unfold mult; simpl; ring]). Qed.
Lemma is_CInt_add f g a b z1 z2 :
  is_CInt f a b z1 -> is_CInt g a b z2 -> is_CInt (fun t => cadd' (f t) (g t)) a b (cadd' z1 z2).
Proof.
  intros [F1 F2] [G1 G2]. split; simpl.
  - apply (is_RInt_plus (V:=R_NormedModule) _ _ _ _ _ _ F1 G1).
  - apply (is_RInt_plus (V:=R_NormedModule) _ _ _ _ _ _ F2 G2).
Qed.
Lemma is_CInt_cmul_l c f a b z : is_CInt f a b z -> is_CInt (fun t => cmul' c (f t)) a b (cmul' c z).
Proof.
  intros [F1 F2]. split; simpl.
  - apply (is_RInt_minus (V:=R_NormedModule) (fun t => fst c * fst (f t)) (fun t => snd c * snd (f t))).
    apply (is_RInt_scal (V:=R_NormedModule) _ _ _ (fst c) _ F1).
    apply (is_RInt_scal (V:=R_NormedModule) _ _ _ (snd c) _ F2).
  - apply (is_RInt_plus (V:=R_NormedModule) (fun t => fst c * snd (f t)) (fun t => snd c * fst (f t))).
    apply (is_RInt_scal (V:=R_NormedModule) _ _ _ (fst c) _ F2).
    apply (is_RInt_scal (V:=R_NormedModule) _ _ _ (snd c) _ F1).
Qed.
Lemma is_CInt_csumn n (f : nat -> R -> Cx) (z : nat -> Cx) a b :
  (forall i, (i < n)%nat -> is_CInt (f i) a b (z i)) ->
  is_CInt (fun t => csumn' n (fun i => f i t)) a b (csumn' n z).
Proof.
  induction n; intros H.
  - simpl. apply is_CInt_0.
  - simpl. apply is_CInt_add. apply IHn. intros; apply H; lia. apply H. lia.
Qed.
Lemma is_CInt_S2 d (f : nat -> nat -> R -> Cx) (z : nat -> nat -> Cx) a b :
  (forall i j, (i < d)%nat -> (j < d)%nat -> is_CInt (f i j) a b (z i j)) ->
  is_CInt (fun t => S2 d (fun i j => f i j t)) a b (S2 d z).
Proof.
  intros H. unfold S2. apply (is_CInt_csumn d (fun i t => csumn' d (fun j => f i j t)) (fun i => csumn' d (fun j => z i j))).
  intros i Hi. apply (is_CInt_csumn d (fun j t => f i j t)). intros j Hj. apply H; auto.
Qed.

(* ------------------------------------------------------------------ one segment in the time domain *)
Section TimeDomain.
Variable d : nat.
Variables (ev : nat -> R) (w : R).

(* time-domain control matrix entry at local time u for coefficients X(i,j) *)
Definition beta (X : fmat) (u : R) : Cx := S2 d (fun i j => cmul' (X i j) (cexp' ((ev i - ev j) * u))).
(* its running Fourier integral int_0^u e^{i w u'} beta(u') du' *)
Definition gamma (X : fmat) (u : R) : Cx := S2 d (fun m n => cmul' (X m n) (Jc (w + (ev m - ev n)) u)).

Lemma gamma_int X u : is_CInt (fun u' => cmul' (cexp' (w * u')) (beta X u')) 0 u (gamma X u).
Proof.
  apply (is_CInt_ext (fun u' => S2 d (fun m n => cmul' (X m n) (cexp' ((w + (ev m - ev n)) * u'))))).
  - intros t. symmetry. unfold beta. rewrite <- S2_mul_l. apply S2_ext. intros m n _ _.
    rewrite Rmult_plus_distr_r, cexp_add. ring.
  - unfold gamma. apply is_CInt_S2. intros m n _ _. apply is_CInt_cmul_l. apply Jc_int.
Qed.

(* the same-segment term is the nested integral over the triangle 0 < u' < u < T *)
Lemma same_int (X Y : fmat) T :
  is_CInt (fun u => cmul' (cmul' (cexp' (- w * u)) (beta X u)) (gamma Y u)) 0 T
          (same_sum d (fun i j m n => soi_core_x RO ((ev i - ev j) - w) (w + (ev m - ev n))
                                               (((ev i - ev j) - w) + (w + (ev m - ev n))) T) X Y).
Proof.
  rewrite same_sum_S4.
  apply (is_CInt_ext (fun u => S2 d (fun i j => S2 d (fun m n =>
           cmul' (cmul' (X i j) (Y m n)) (cmul' (cexp' (((ev i - ev j) - w) * u)) (Jc (w + (ev m - ev n)) u)))))).
  - intros u. symmetry. unfold beta, gamma. rewrite <- (S2_mul_l d (cexp' (- w * u))), S4_prod. unfold S4. apply S2_ext. intros i j _ _.
    apply S2_ext. intros m n _ _.
    replace (((ev i - ev j) - w) * u) with (- w * u + (ev i - ev j) * u) by ring. rewrite cexp_add. ring.
  - unfold S4. apply is_CInt_S2. intros i j _ _. apply is_CInt_S2. intros m n _ _.
    apply (is_CInt_ext (fun u => cmul' (cmul' (X i j) (Y m n))
                                   (cmul' (cexp' (((ev i - ev j) - w) * u)) (Jc (w + (ev m - ev n)) u)))).
    reflexivity.
    replace (cmul' (cmul' (soi_core_x RO ((ev i - ev j) - w) (w + (ev m - ev n)) (((ev i - ev j) - w) + (w + (ev m - ev n))) T) (X i j)) (Y m n))
      with (cmul' (cmul' (X i j) (Y m n)) (soi_core_x RO ((ev i - ev j) - w) (w + (ev m - ev n)) (((ev i - ev j) - w) + (w + (ev m - ev n))) T)) by ring.
    apply is_CInt_cmul_l. apply soi_core_integral.
Qed.

(* for Hermitian coefficient matrices beta is real: the property's e^{-i w (t-t')} B_ak(t) B_bl(t') needs no conjugate *)
Lemma beta_real X u : (forall i j, (i < d)%nat -> (j < d)%nat -> cconj' (X i j) = X j i) -> cconj' (beta X u) = beta X u.
Proof.
  intros HX. unfold beta. rewrite S2_conj, S2_swap. apply S2_ext. intros i j Hi Hj.
  rewrite cconj_mul, HX by auto. rewrite <- cexp_neg. f_equal. f_equal. ring.
Qed.
End TimeDomain.

(* ------------------------------------------------------------------ the model's segments *)
Section Pulse.
Variable d : nat.
Variables (thr thr2 : R) (omega : list R) (basis nopers : list (Mat (T:=R))).
Notation Seg := (SegData (T:=R)).
Notation na := (length nopers).
Notation nk := (length basis).
Notation no := (length omega).

Lemma same_sum_ext I2 I2' X Y :
  (forall i j m n, (i < d)%nat -> (j < d)%nat -> (m < d)%nat -> (n < d)%nat -> I2 i j m n = I2' i j m n) ->
  same_sum d I2 X Y = same_sum d I2' X Y.
Proof. intros H. rewrite !same_sum_S4. apply S4_ext. intros. rewrite H by auto. reflexivity. Qed.

(* coefficient matrices of the time-domain control matrix of a segment *)
Definition seg_X (s : Seg) (a k : nat) : fmat :=
  let '(ev, dt, NT, BT, step) := s in nbf (nth a NT []) (nth k BT []).
Definition seg_ev (s : Seg) : nat -> R := let '(ev, dt, NT, BT, step) := s in vg RO ev.
Definition seg_dt (s : Seg) : R := let '(ev, dt, NT, BT, step) := s in dt.

(* what a segment contributes, in the time domain (tg = start time of the segment, w = omega[o]) *)
Definition seg_td (a b k l o : nat) (s : Seg) (tg : R) : Prop :=
  let w := vg RO omega o in
  let bak := beta d (seg_ev s) (seg_X s a k) in let bbl := beta d (seg_ev s) (seg_X s b l) in
  let gak := gamma d (seg_ev s) w (seg_X s a k) in let gbl := gamma d (seg_ev s) w (seg_X s b l) in
  (* running first-order integrals *)
  (forall u, is_CInt (fun u' => cmul' (cexp' (w * u')) (bak u')) 0 u (gak u)) /\
  (forall u, is_CInt (fun u' => cmul' (cexp' (w * u')) (bbl u')) 0 u (gbl u)) /\
  (* same-segment term = nested integral over the triangle *)
  is_CInt (fun u => cmul' (cmul' (cexp' (- w * u)) (bak u)) (gbl u)) 0 (seg_dt s)
          (a5get RO (seg_same d thr2 na nk no omega s) a b k l o) /\
  (* ctrlmat_step = phase * first-order integral over the segment *)
  a3get RO (seg_step s) a k o = cmul' (cexp' (w * tg)) (gak (seg_dt s)) /\
  a3get RO (seg_step s) b l o = cmul' (cexp' (w * tg)) (gbl (seg_dt s)).

Lemma cm_step_gamma ev V Q tg dt nc a k o :
  0 <= thr -> length nc = na -> (a < na)%nat -> (k < nk)%nat -> (o < no)%nat ->
  (forall m n, (m < d)%nat -> (n < d)%nat ->
     let x := vg RO omega o + (vg RO ev m - vg RO ev n) in x = 0 \/ thr < Rabs (x * dt)) ->
  a3get RO (cm_step RO d thr ev V Q tg dt omega basis nopers nc) a k o =
  cmul' (cexp' (vg RO omega o * tg))
        (gamma d (vg RO ev) (vg RO omega o) (nbf (nth a (so_NT RO d V nopers nc) []) (nth k (so_BT RO d V Q basis) [])) dt).
Proof.
  intros Hthr HL Ha Hk Ho Hmask. rewrite cm_step_get by auto. f_equal.
  rewrite so_NT_nth, so_BT_nth by auto. unfold gamma. rewrite cscal_cmul, <- S2_mul_l. apply S2_ext. intros m n Hm Hn.
  rewrite foi_entry_is_J by (auto; apply Hmask; auto). unfold nbf, mscalr. rewrite mget_mbuild by auto.
  rewrite cscal_cmul. ring.
Qed.

Lemma fresh_seg_td a b k l o ev V Q tg dt nc :
  0 <= thr -> 0 <= thr2 -> length nc = na ->
  (a < na)%nat -> (b < na)%nat -> (k < nk)%nat -> (l < nk)%nat -> (o < no)%nat ->
  (forall m n, (m < d)%nat -> (n < d)%nat ->
     let x := vg RO omega o + (vg RO ev m - vg RO ev n) in x = 0 \/ thr < Rabs (x * dt)) ->
  (forall m n, (m < d)%nat -> (n < d)%nat -> regular thr2 (vg RO omega o + (vg RO ev m - vg RO ev n)) dt) ->
  seg_td a b k l o (ev, dt, so_NT RO d V nopers nc, so_BT RO d V Q basis,
                    cm_step RO d thr ev V Q tg dt omega basis nopers nc) tg.
Proof.
  intros Hthr Hthr2 HL Ha Hb Hk Hl Ho Hmask Hreg. unfold seg_td. cbn [seg_ev seg_dt seg_X seg_step seg_same snd].
  split; [intros u; apply gamma_int|]. split; [intros u; apply gamma_int|].
  split; [|split; apply cm_step_gamma; auto].
  rewrite so_same_get by (auto; rewrite ?so_NT_length, ?so_BT_length, ?map_length; auto).
  rewrite (nth_map_lt _ omega o 0) by auto.
  rewrite (same_sum_ext _ (fun i j m n => soi_core_x RO ((vg RO ev i - vg RO ev j) - vg RO omega o)
             (vg RO omega o + (vg RO ev m - vg RO ev n))
             (((vg RO ev i - vg RO ev j) - vg RO omega o) + (vg RO omega o + (vg RO ev m - vg RO ev n))) dt)).
  - apply same_int.
  - intros i j m n Hi Hj Hm Hn. rewrite t4get_soi_tab by auto. rewrite soi_entry_core.
    apply soi_core_regular; auto. apply regular_a; auto.
Qed.

(* F2_assembly, the part that is proved: the entry of the model's second-order filter function is
     sum_g [ D_g + conj(step_g[a,k]) * sum_{g'<g} step_g'[b,l] ]           (so_spec, by second_order_ff_get)
   and for every segment D_g is the nested time-ordered integral of the segment's time-domain control
   matrix and step_g its Fourier integral times the phase e^{i w t_g}.                                    *)
Theorem F2_assembly_partial evs Vs Qs ncoeffs dts ts a b k l o :
  0 <= thr -> 0 <= thr2 ->
  length evs = length dts -> length Vs = length dts ->
  (length dts <= length Qs)%nat -> (length dts <= length ts)%nat -> length ncoeffs = na ->
  (a < na)%nat -> (b < na)%nat -> (k < nk)%nat -> (l < nk)%nat -> (o < no)%nat ->
  no_taylor d omega thr evs dts o -> no_taylor d omega thr2 evs dts o ->
  let segs := fresh_segs d thr omega basis nopers evs Vs Qs ts dts (transpose_coeffs RO (length dts) ncoeffs) in
  a5get RO (second_order_ff RO d thr thr2 evs Vs Qs omega basis nopers ncoeffs dts ts (None, None)) a b k l o =
    so_spec d thr2 na nk no omega a b k l o false segs 0c /\
  Forall2 (seg_td a b k l o) segs (firstn (length dts) ts).
Proof.
  intros Hthr Hthr2 H1 H2 H3 H4 H5 Ha Hb Hk Hl Ho Hmask Hmask2 segs. split.
  - apply second_order_ff_get; auto.
  - unfold segs. clear segs.
    assert (Hnc : forall nc, In nc (transpose_coeffs RO (length dts) ncoeffs) -> length nc = na)
      by (intros nc Hin; rewrite (transpose_coeffs_rows _ _ _ Hin); exact H5).
    assert (HL : length (transpose_coeffs RO (length dts) ncoeffs) = length dts) by apply transpose_coeffs_length.
    revert Hnc HL. generalize (transpose_coeffs RO (length dts) ncoeffs) as ncs.
    revert Vs Qs ts dts H1 H2 H3 H4 Hmask Hmask2.
    induction evs as [|ev evs IH]; intros Vs Qs ts dts H1 H2 H3 H4 Hmask Hmask2 ncs Hnc HL.
    + destruct dts; [|discriminate]. simpl. constructor.
    + destruct dts as [|dt dts]; [discriminate|]. destruct Vs as [|V Vs]; [discriminate|].
      destruct Qs as [|Q Qs]; [simpl in H3; lia|]. destruct ts as [|tg ts]; [simpl in H4; lia|].
      destruct ncs as [|nc ncs]; [discriminate|].
      cbn [fresh_segs firstn length]. constructor.
      * apply fresh_seg_td; auto. apply Hnc; left; reflexivity.
        intros m n Hm Hn. apply (Hmask ev dt); auto. left; reflexivity.
        intros m n Hm Hn. apply (Hmask2 ev dt); auto. left; reflexivity.
      * apply IH; simpl in *; try lia.
        intros ev' dt' Hin. apply Hmask. right; auto.
        intros ev' dt' Hin. apply Hmask2. right; auto.
        intros nc' Hin. apply Hnc. right; auto.
Qed.
End Pulse.
