(* Model of pulse_sequence.remap (with _map_identifiers, util.tensor_transpose on operators /
   eigenvalues, basis.remap_pauli_basis_elements and the scatter assignments into the Liouville
   propagator and the control matrix).  remap only moves data around, so the model is
   polymorphic in the entry types (Rr: real entries, Cc: complex entries); the correspondence
   check instantiates them with exact dyadics and compares with the implementation's output
   exactly, the theorems (Proofs/Remap.v) instantiate them with R and R*R.

   A cache slot is [Absent] (attribute is None), [Have x] (value x was carried over from the input
   pulse) or [Fresh] (the remapped pulse computed the value itself from scratch while remap ran,
   e.g. cache_control_matrix -> cache_total_phases / liouville_representation).                *)
From Coq Require Import String List Arith Bool.
From FF Require Import Base.Ops Spec.Kron2 Spec.DigitPerm Spec.StrSort.
Import ListNotations.
Local Open Scope nat_scope.

Inductive slot (X : Type) := Absent | Have (x : X) | Fresh.
Arguments Absent {X}. Arguments Have {X}. Arguments Fresh {X}.
Definition smap {X Y} (f : X -> Y) (s : slot X) : slot Y :=
  match s with Absent => Absent | Have x => Have (f x) | Fresh => Fresh end.
Definition cached {X} (s : slot X) : bool := match s with Absent => false | _ => true end.

(* ---------- index bookkeeping (no entry types involved) ---------- *)
(* N = int(log(d) / log(d_per_qubit)) : modelled as the exact integer logarithm *)
Fixpoint ilog_aux (fuel dq d : nat) : nat :=
  match fuel with 0 => 0 | S f => if d <=? 1 then 0 else S (ilog_aux f dq (d / dq)) end.
Definition ilog (dq d : nat) : nat := ilog_aux d dq d.

Definition is_permb (N : nat) (order : list nat) : bool :=
  Nat.eqb (length order) N && forallb (fun m => existsb (Nat.eqb m) order) (seq 0 N).

(* util.tensor_transpose: reshape to the per-qubit axes, transpose(axes = order per rank), reshape
   back.  result[j] = arr[i] with i_{order[k]} = j_k, i.e. i_m = j_{argsort(order)[m]}          *)
Definition tt_src (dq N : nat) (order : list nat) (j : nat) : nat := dperm dq N (inv_order order) j.

(* basis.remap_pauli_basis_elements: ravel_multi_index([idx_tup[i] for i in order], (4,)*N) *)
Definition remap_pauli (N : nat) (order : list nat) : list nat := build (4 ^ N) (dperm 4 N order).

(* _map_identifiers *)
Fixpoint lookup (m : list (string * string)) (k : string) : option string :=
  match m with [] => None | (a, b) :: r => if String.eqb a k then Some b else lookup r k end.
Fixpoint lookup_all (m : list (string * string)) (ks : list string) : option (list string) :=
  match ks with
  | [] => Some []
  | k :: r => match lookup m k, lookup_all m r with Some v, Some vs => Some (v :: vs) | _, _ => None end
  end.
Fixpoint nodup_str (l : list string) : bool :=
  match l with [] => true | x :: r => negb (existsb (String.eqb x) r) && nodup_str r end.
(* ValueError if an identifier is missing from the mapping or the mapped identifiers are not unique *)
Definition map_identifiers (ids : list string) (mapping : option (list (string * string)))
  : option (list string * list nat) :=
  match mapping with
  | None => Some (ids, seq 0 (length ids))
  | Some m => match lookup_all m ids with
              | Some ids' => if nodup_str ids' then Some (ids', argsort ids') else None
              | None => None
              end
  end.

(* sequential index assignment  out[idx[i]] = vals[i]  (later writes win) *)
Fixpoint upd {X} (l : list X) (i : nat) (x : X) : list X :=
  match l, i with
  | [], _ => []
  | _ :: r, 0 => x :: r
  | y :: r, S i' => y :: upd r i' x
  end.
Fixpoint scatter {X} (idx : list nat) (vals : list X) (init : list X) : list X :=
  match idx, vals with
  | i :: idx', x :: vals' => scatter idx' vals' (upd init i x)
  | _, _ => init
  end.

Section Data.
Context {Rr Cc : Type} (dr : Rr) (dc : Cc).
Definition CMat : Type := list (list Cc).

Record pulse := mkPulse {
  p_d : nat;
  c_opers : list CMat; n_opers : list CMat;
  c_ids : list string; n_ids : list string;
  c_coeffs : list (list Rr); n_coeffs : list (list Rr);
  p_dt : list Rr;
  btype : string;
  p_t : slot (list Rr); p_tau : slot Rr;
  eigvals : slot (list (list Rr)); eigvecs : slot (list CMat); propagators : slot (list CMat);
  total_propagator : slot CMat;
  omega : slot (list Rr); total_phases : slot (list Cc);
  filter_function : slot (list (list (list Cc)));        (* [a][b][o] *)
  tpl : slot (list (list Rr));                           (* total_propagator_liouville *)
  control_matrix : slot (list (list (list Cc)))          (* [a][k][o] *)
}.

(* tensor_transpose, rank 2 (operators, eigenvectors, propagators) and rank 1 (eigenvalues) *)
Definition tt2 (dq N : nat) (order : list nat) (M : CMat) : CMat :=
  let D := dq ^ N in let s := tt_src dq N order in
  build D (fun j => build D (fun j' => nth (s j') (nth (s j) M []) dc)).
Definition tt1 (dq N : nat) (order : list nat) (v : list Rr) : list Rr :=
  let D := dq ^ N in let s := tt_src dq N order in build D (fun j => nth (s j) v dr).

(* filter function re-sorted: F[n_sort_idx[:, None], n_sort_idx[None, :]] *)
Definition resort_ff (idx : list nat) (F : list (list (list Cc))) : list (list (list Cc)) :=
  sel [] (map (fun row => sel [] row idx) F) idx.
(* L'[perm.T, perm] = L   on np.empty_like(L) *)
Definition scatter2 (perm : list nat) (L : list (list Rr)) : list (list Rr) :=
  let n := length L in
  scatter perm (map (fun row => scatter perm row (repeat dr n)) L) (repeat [] n).
(* B'[sigma[:, None], perm] = B   on np.empty_like(B) ; the frequency axis is carried along *)
Definition scatter_cm (sigma perm : list nat) (Bm : list (list (list Cc))) : list (list (list Cc)) :=
  let K := length (hd [] Bm) in
  scatter sigma (map (fun row => scatter perm row (repeat [] K)) Bm) (repeat [] (length Bm)).

Definition remap (p : pulse) (order : list nat) (dq : nat) (mapping : option (list (string * string)))
  : option pulse :=
  let N := ilog dq (p_d p) in
  if negb (is_permb N order && Nat.eqb (dq ^ N) (p_d p)) then None      (* ValueError in tensor_transpose *)
  else
  match map_identifiers (c_ids p) mapping, map_identifiers (n_ids p) mapping with
  | Some (cids, cidx), Some (nids, nidx) =>
    let T2 := tt2 dq N order in
    let has_om := cached (omega p) in
    let has_ph := has_om && cached (total_phases p) in
    let has_ff := has_om && cached (filter_function p) in
    let liou := has_om && (cached (tpl p) || cached (control_matrix p)) && String.eqb (btype p) "Pauli" in
    let has_tpl := liou && cached (tpl p) in
    let has_cm := liou && cached (control_matrix p) in
    let perm := remap_pauli N order in
    (* cache_control_matrix on the new pulse: cache_total_phases(omega) recomputes the phases (and tau);
       a missing Liouville propagator is computed from total_propagator, which diagonalizes if absent *)
    let need_tp := has_cm && negb (cached (tpl p)) && negb (cached (total_propagator p)) in
    let need_diag := need_tp && negb (cached (eigvals p) && cached (eigvecs p) && cached (propagators p)) in
    Some {|
      p_d := p_d p;
      c_opers := sel [] (map T2 (c_opers p)) cidx;
      n_opers := sel [] (map T2 (n_opers p)) nidx;
      c_ids := sel EmptyString cids cidx;
      n_ids := sel EmptyString nids nidx;
      c_coeffs := sel [] (c_coeffs p) cidx;
      n_coeffs := sel [] (n_coeffs p) nidx;
      p_dt := p_dt p;
      btype := btype p;
      (* cache_control_matrix -> cache_total_phases -> tau -> t: the times are computed if they were not cached *)
      p_t := if has_cm && negb (cached (p_t p)) then Fresh else p_t p;
      p_tau := if has_cm then Fresh else p_tau p;
      eigvals := if need_diag then Fresh else smap (map (tt1 dq N order)) (eigvals p);
      eigvecs := if need_diag then Fresh else smap (map T2) (eigvecs p);
      propagators := if need_diag then Fresh else smap (map T2) (propagators p);
      total_propagator := if need_tp then Fresh else smap T2 (total_propagator p);
      omega := if has_ph || has_ff || has_cm then omega p else Absent;
      total_phases := if has_cm then Fresh else if has_ph then total_phases p else Absent;
      filter_function := if has_ff then smap (resort_ff nidx) (filter_function p) else Absent;
      tpl := if has_tpl then smap (scatter2 perm) (tpl p) else if has_cm then Fresh else Absent;
      control_matrix := if has_cm then smap (scatter_cm (inv_order nidx) perm) (control_matrix p) else Absent
    |}
  | _, _ => None                                                          (* ValueError in _map_identifiers *)
  end.

(* ---------- exact comparison with the implementation's output ---------- *)
Variable eqr : Rr -> Rr -> bool.
Variable eqc : Cc -> Cc -> bool.
Fixpoint list_eqb {X} (e : X -> X -> bool) (a b : list X) : bool :=
  match a, b with
  | [], [] => true
  | x :: a', y :: b' => e x y && list_eqb e a' b'
  | _, _ => false
  end.
(* a [Fresh] slot of the model only requires the attribute to be present *)
Definition slot_agree {X} (e : X -> X -> bool) (m i : slot X) : bool :=
  match m, i with
  | Absent, Absent => true
  | Have x, Have y => e x y
  | Fresh, Have _ | Fresh, Fresh => true
  | _, _ => false
  end.
Definition l1r := list_eqb eqr.
Definition l2r := list_eqb l1r.
Definition l1c := list_eqb eqc.
Definition l2c := list_eqb l1c.
Definition l3c := list_eqb l2c.
Definition pulse_agree_fields (m i : pulse) : list bool :=
  [ Nat.eqb (p_d m) (p_d i);
    list_eqb l2c (c_opers m) (c_opers i); list_eqb l2c (n_opers m) (n_opers i);
    list_eqb String.eqb (c_ids m) (c_ids i); list_eqb String.eqb (n_ids m) (n_ids i);
    l2r (c_coeffs m) (c_coeffs i); l2r (n_coeffs m) (n_coeffs i);
    l1r (p_dt m) (p_dt i); String.eqb (btype m) (btype i);
    slot_agree l1r (p_t m) (p_t i); slot_agree eqr (p_tau m) (p_tau i);
    slot_agree l2r (eigvals m) (eigvals i); slot_agree l3c (eigvecs m) (eigvecs i);
    slot_agree l3c (propagators m) (propagators i); slot_agree l2c (total_propagator m) (total_propagator i);
    slot_agree l1r (omega m) (omega i); slot_agree l1c (total_phases m) (total_phases i);
    slot_agree l3c (filter_function m) (filter_function i); slot_agree l2r (tpl m) (tpl i);
    slot_agree l3c (control_matrix m) (control_matrix i) ].
End Data.

Arguments mkPulse {Rr Cc}.
