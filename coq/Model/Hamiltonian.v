(* The control Hamiltonian assembled by PulseSequence.diagonalize:
     H = np.einsum('ijk,il->ljk', c_opers, c_coeffs)      H[l] = sum_i c_coeffs[i][l] * c_opers[i]
   (subscript string tied in Model/Tie/C13.v).  Polymorphic in Ops like Model/Numeric.v.  The sum runs
   over the operator list in listing order (after the constructor's sort by identifier).          *)
From Coq Require Import ZArith List.
From FF Require Import Base.Ops Model.Numeric.
Import ListNotations.

Section Ham.
Context {T B : Type} (Op : Ops T B).
Notation Matc := (Mat (T:=T)).
Variable d : nat.

Definition hamiltonian (opers : list Matc) (coeffs : list (list T)) (l : nat) : Matc :=
  mbuild d d (fun j k =>
    csumlist Op (map (fun oc : Matc * list T => cscal Op (vg Op (snd oc) l) (mget Op (fst oc) j k))
                     (combine opers coeffs))).
End Ham.
