(* Model/Alias.v -- ownership analysis for C18, first half: no public computation writes into memory owned by
   the caller.

   A tiny intermediate representation of the array-aliasing behaviour of a Python function, a semantics, a
   checker [safe] and its soundness theorem [safe_sound].  The IR of every function of the package is produced
   by tools/alias_extract.py (coq/Extracted/AliasIR.v, regenerated on every run) together with a certificate
   (the may-alias facts and the per-function summaries); the certificate is NOT trusted: [safe] checks that it is
   closed under the rules below, and [safe_sound] shows that a closed certificate over-approximates every
   execution.  Trusted: that the IR over-approximates the Python function (the translator and its numpy
   view/copy classification table).

   Memory is abstracted to its provenance inside one function invocation (frame):
     CL     allocated during this invocation (or by a callee) -- local,
     CP i   the memory of the i-th parameter of this invocation,
     CX     anything else: attributes of self / of a pulse passed in (they may have been handed to the caller
            earlier), module globals, results the translator knows nothing about.
   A view (slice, reshape, .T, asarray, the result of a ufunc called with out=...) has the provenance of its
   base.  The semantics is flow-insensitive on purpose: an execution of a function is ANY finite sequence of
   its statements (this over-approximates loops, branches and exceptions), except that guards on boolean
   variables that are assigned once per invocation (have_intermediates, out is None, ...) are respected: one
   valuation rho per invocation, a guarded statement only executes if rho satisfies its guard.          *)
From Coq Require Import List Bool Arith PeanoNat NArith Lia.
Import ListNotations.

(* binary numbers: the generated IR has thousands of variables *)
Definition var := N.
Definition bvar := N.
Definition fname := N.
Definition lit := (bvar * bool)%type.
Definition guard := list lit.

Inductive cls := CL | CP (i : nat) | CX.
Definition cls_eqb (a b : cls) : bool :=
  match a, b with CL, CL => true | CX, CX => true | CP i, CP j => Nat.eqb i j | _, _ => false end.
Lemma cls_eqb_eq : forall a b, cls_eqb a b = true <-> a = b.
Proof.
  intros [ | i | ] [ | j | ]; simpl; split; intros H; try reflexivity; try discriminate.
  - apply Nat.eqb_eq in H; subst; reflexivity.
  - injection H as ->; apply Nat.eqb_refl.
Qed.

Inductive rhs :=
| Fresh                      (* a new array / object *)
| ViewOf (ys : list var)     (* shares memory with one of ys *)
| Param (i : nat)            (* the i-th parameter *)
| Ext.                       (* attribute of self / of an argument, global, unknown *)

Inductive stmt :=
| Bind (g : guard) (x : var) (r : rhs)
| Write (g : guard) (x : var)                                   (* x[...] = .., x += .., ufunc(out=x), x.sort() *)
| Call (g : guard) (xo : option var) (f : fname) (args : list var)  (* [x =] f(args), f a function of the package *)
| Return (g : guard) (x : var).

Definition prog := list (fname * list stmt).
Fixpoint body_of (P : prog) (f : fname) : option (list stmt) :=
  match P with
  | [] => None
  | (f', b) :: r => if N.eqb f f' then Some b else body_of r f
  end.

(* ------------------------------------------------------------------ guards *)
Definition sat (rho : bvar -> bool) (g : guard) : bool := forallb (fun l => Bool.eqb (rho (fst l)) (snd l)) g.
Definition lit_eqb (a b : lit) : bool := N.eqb (fst a) (fst b) && Bool.eqb (snd a) (snd b).
Definition compat (g1 g2 : guard) : bool :=
  forallb (fun l1 => forallb (fun l2 => negb (N.eqb (fst l1) (fst l2) && negb (Bool.eqb (snd l1) (snd l2)))) g2) g1.
Definition subg (g' g : guard) : bool := forallb (fun l => existsb (lit_eqb l) g) g'.

Lemma sat_app : forall rho g1 g2, sat rho (g1 ++ g2) = sat rho g1 && sat rho g2.
Proof. intros; unfold sat; apply forallb_app. Qed.
Lemma sat_compat : forall rho g1 g2, sat rho g1 = true -> sat rho g2 = true -> compat g1 g2 = true.
Proof.
  intros rho g1 g2 H1 H2. unfold compat. apply forallb_forall. intros l1 I1. apply forallb_forall. intros l2 I2.
  unfold sat in *. rewrite forallb_forall in H1, H2. specialize (H1 l1 I1). specialize (H2 l2 I2).
  destruct (N.eqb (fst l1) (fst l2)) eqn:E; [ | reflexivity]. apply N.eqb_eq in E.
  destruct l1 as [a1 b1], l2 as [a2 b2]. simpl in *. subst a2.
  destruct (rho a1), b1, b2; simpl in *; try reflexivity; discriminate.
Qed.
Lemma sat_subg : forall rho g' g, subg g' g = true -> sat rho g = true -> sat rho g' = true.
Proof.
  intros rho g' g Hs Hg. unfold sat, subg in *. rewrite forallb_forall in *. intros l Il.
  specialize (Hs l Il). apply existsb_exists in Hs. destruct Hs as [l' [Il' E]].
  unfold lit_eqb in E. apply andb_true_iff in E. destruct E as [E1 E2]. apply N.eqb_eq in E1. apply eqb_prop in E2.
  specialize (Hg l' Il'). rewrite E1, E2. exact Hg.
Qed.

(* ------------------------------------------------------------------ semantics *)
Definition env := var -> option cls.
Definition upd (e : env) (x : var) (c : cls) : env := fun y => if N.eqb x y then Some c else e y.
Definition env0 : env := fun _ => None.

(* provenance in the caller's frame of something the callee describes relative to its own parameters *)
Definition subst (e : env) (args : list var) (c : cls) : cls :=
  match c with
  | CL => CL
  | CX => CX
  | CP i => match nth_error args i with
            | Some a => match e a with Some c' => c' | None => CX end
            | None => CX
            end
  end.

Definition sguard (s : stmt) : guard :=
  match s with Bind g _ _ | Write g _ | Call g _ _ _ | Return g _ => g end.

Section Runs.
(* what a call of f can do: provenances (relative to f's own frame) of the memory it writes and returns *)
Variable callee : fname -> list cls -> list cls -> Prop.
Variable rho : bvar -> bool.

Inductive step : env -> stmt -> env -> list cls -> list cls -> Prop :=
| st_off e s : sat rho (sguard s) = false -> step e s e [] []
| st_fresh e g x : sat rho g = true -> step e (Bind g x Fresh) (upd e x CL) [] []
| st_param e g x i : sat rho g = true -> step e (Bind g x (Param i)) (upd e x (CP i)) [] []
| st_ext e g x : sat rho g = true -> step e (Bind g x Ext) (upd e x CX) [] []
| st_view e g x ys y c : sat rho g = true -> In y ys -> e y = Some c -> step e (Bind g x (ViewOf ys)) (upd e x c) [] []
| st_write e g x c : sat rho g = true -> e x = Some c -> step e (Write g x) e [c] []
| st_return e g x c : sat rho g = true -> e x = Some c -> step e (Return g x) e [] [c]
(* the arguments of a call are bound (otherwise Python raises NameError before the call) *)
| st_call e g f args ws rs : sat rho g = true -> (forall a, In a args -> e a <> None) -> callee f ws rs ->
    step e (Call g None f args) e (map (subst e args) ws) []
| st_call_bind e g x f args ws rs r : sat rho g = true -> (forall a, In a args -> e a <> None) -> callee f ws rs ->
    (r = CL \/ In r rs) ->
    step e (Call g (Some x) f args) (upd e x (subst e args r)) (map (subst e args) ws) [].

Inductive runs : env -> list stmt -> env -> list cls -> list cls -> Prop :=
| r_nil e : runs e [] e [] []
| r_cons e s e1 w1 r1 ss e2 w2 r2 :
    step e s e1 w1 r1 -> runs e1 ss e2 w2 r2 -> runs e (s :: ss) e2 (w1 ++ w2) (r1 ++ r2).
End Runs.

(* behaviours of a function up to call depth n: any sequence of statements of its body, any valuation of its
   single-assignment booleans *)
Fixpoint fn_beh (P : prog) (n : nat) (f : fname) (ws rs : list cls) : Prop :=
  match n with
  | O => False
  | S n' => exists body rho ss e', body_of P f = Some body /\ incl ss body /\
                                   runs (fn_beh P n') rho env0 ss e' ws rs
  end.

(* ------------------------------------------------------------------ certificates and the checker *)
Record fcert := mkC { fS : list (var * cls * guard);   (* x may hold memory of provenance c (<> CL) under guard g *)
                      fW : list cls;                    (* provenances (<> CL) the function may write *)
                      fR : list cls }.                  (* provenances (<> CL) the function may return *)
Definition cert := list (fname * fcert).
Definition empty_cert : fcert := mkC [] [] [].
Fixpoint cert_of (C : cert) (f : fname) : fcert :=
  match C with
  | [] => empty_cert
  | (f', c) :: r => if N.eqb f f' then c else cert_of r f
  end.

Definition mem (c : cls) (l : list cls) : bool := existsb (cls_eqb c) l.
Definition covered (S : list (var * cls * guard)) (x : var) (c : cls) (g : guard) : bool :=
  existsb (fun t => match t with (x', c', g') => N.eqb x x' && cls_eqb c c' && subg g' g end) S.
(* for every fact (x, c, gx) about x whose guard is compatible with g *)
Definition forall_facts (S : list (var * cls * guard)) (x : var) (g : guard) (k : cls -> guard -> bool) : bool :=
  forallb (fun t => match t with (x', c, gx) => if N.eqb x x' && compat g gx then k c gx else true end) S.

Definition defined (P : prog) (f : fname) : bool := match body_of P f with Some _ => true | None => false end.

Definition check_stmt (P : prog) (C : cert) (me : fcert) (s : stmt) : bool :=
  let S := fS me in
  match s with
  | Bind g x Fresh => true
  | Bind g x (Param i) => covered S x (CP i) g
  | Bind g x Ext => covered S x CX g
  | Bind g x (ViewOf ys) => forallb (fun y => forall_facts S y g (fun c gy => covered S x c (g ++ gy))) ys
  | Write g x => forall_facts S x g (fun c _ => mem c (fW me))
  | Return g x => forall_facts S x g (fun c _ => mem c (fR me))
  | Call g xo f args =>
      defined P f &&
      forallb (fun c => match c with
                        | CL => true
                        | CX => mem CX (fW me)
                        | CP i => match nth_error args i with
                                  | None => mem CX (fW me)
                                  | Some a => forall_facts S a g (fun c' _ => mem c' (fW me))
                                  end
                        end) (fW (cert_of C f)) &&
      match xo with
      | None => true
      | Some x =>
          forallb (fun c => match c with
                            | CL => true
                            | CX => covered S x CX g
                            | CP i => match nth_error args i with
                                      | None => covered S x CX g
                                      | Some a => forall_facts S a g (fun c' ga => covered S x c' (g ++ ga))
                                      end
                            end) (fR (cert_of C f))
      end
  end.

Definition check_fn (P : prog) (C : cert) (fb : fname * list stmt) : bool :=
  forallb (check_stmt P C (cert_of C (fst fb))) (snd fb).
(* function names are unique, so that body_of finds the body that was checked *)
Fixpoint nodup_names (P : prog) : bool :=
  match P with
  | [] => true
  | (f, _) :: r => negb (existsb (fun fb => N.eqb f (fst fb)) r) && nodup_names r
  end.
Definition check_all (P : prog) (C : cert) : bool := nodup_names P && forallb (check_fn P C) P.

(* a public function: what it may write besides its own allocations are parameters documented as in-place *)
Definition allowed (inplace : list nat) (c : cls) : bool :=
  match c with CL => true | CP i => existsb (Nat.eqb i) inplace | CX => false end.
Definition public_ok (C : cert) (pub : fname * list nat) : bool :=
  forallb (allowed (snd pub)) (fW (cert_of C (fst pub))).
Definition safe (P : prog) (C : cert) (publics : list (fname * list nat)) : bool :=
  check_all P C && forallb (public_ok C) publics.

(* ------------------------------------------------------------------ soundness *)
Lemma covered_sound : forall S x c g rho, covered S x c g = true -> sat rho g = true ->
  exists g', In (x, c, g') S /\ sat rho g' = true.
Proof.
  intros S x c g rho H Hs. unfold covered in H. apply existsb_exists in H. destruct H as [[[x' c'] g'] [I E]].
  apply andb_true_iff in E. destruct E as [E E3]. apply andb_true_iff in E. destruct E as [E1 E2].
  apply N.eqb_eq in E1. apply cls_eqb_eq in E2. subst x' c'. exists g'. split; [exact I | eapply sat_subg; eauto].
Qed.
Lemma forall_facts_sound : forall S x g k c gx rho, forall_facts S x g k = true -> In (x, c, gx) S ->
  sat rho g = true -> sat rho gx = true -> k c gx = true.
Proof.
  intros S x g k c gx rho H I Hg Hx. unfold forall_facts in H. rewrite forallb_forall in H. specialize (H _ I). simpl in H.
  rewrite N.eqb_refl, (sat_compat rho g gx Hg Hx) in H. exact H.
Qed.
Lemma mem_In : forall c l, mem c l = true -> In c l.
Proof. intros c l H. unfold mem in H. apply existsb_exists in H. destruct H as [c' [I E]]. apply cls_eqb_eq in E. subst; exact I. Qed.

Lemma body_of_In : forall P f b, nodup_names P = true -> In (f, b) P -> body_of P f = Some b.
Proof.
  induction P as [ | [f' b'] r IH]; intros f b Hn I; [destruct I | ]. simpl in *. apply andb_true_iff in Hn. destruct Hn as [H1 H2].
  destruct I as [E | I].
  - injection E as -> ->. rewrite N.eqb_refl. reflexivity.
  - destruct (N.eqb f f') eqn:E.
    + apply N.eqb_eq in E. subst f'. exfalso. apply negb_true_iff in H1.
      assert (X : existsb (fun fb => N.eqb f (fst fb)) r = true) by (apply existsb_exists; exists (f, b); split; [exact I | apply N.eqb_refl]).
      rewrite X in H1. discriminate.
    + apply IH; assumption.
Qed.
Lemma body_of_In' : forall P f b, body_of P f = Some b -> In (f, b) P.
Proof.
  induction P as [ | [f' b'] r IH]; intros f b H; [discriminate | ]. simpl in H. destruct (N.eqb f f') eqn:E.
  - apply N.eqb_eq in E. injection H as ->. subst. left; reflexivity.
  - right. apply IH, H.
Qed.

Section Sound.
Variables (P : prog) (C : cert).
Hypothesis Hall : check_all P C = true.

(* the facts of a function's certificate describe the environment of a frame *)
Definition env_ok (me : fcert) (rho : bvar -> bool) (e : env) : Prop :=
  forall x c, e x = Some c -> c <> CL -> exists g', In (x, c, g') (fS me) /\ sat rho g' = true.

Definition beh_ok (f : fname) (ws rs : list cls) : Prop :=
  (forall w, In w ws -> w = CL \/ In w (fW (cert_of C f))) /\
  (forall r, In r rs -> r = CL \/ In r (fR (cert_of C f))).

Lemma upd_ok : forall me rho e x c, env_ok me rho e ->
  (c <> CL -> exists g', In (x, c, g') (fS me) /\ sat rho g' = true) -> env_ok me rho (upd e x c).
Proof.
  intros me rho e x c He Hc y c' E Hn. unfold upd in E. destruct (N.eqb x y) eqn:Exy.
  - apply N.eqb_eq in Exy. subst y. injection E as <-. apply Hc, Hn.
  - apply He; assumption.
Qed.

Lemma call_writes_ok : forall me rho e g args fw ws,
  env_ok me rho e -> sat rho g = true -> (forall a, In a args -> e a <> None) ->
  forallb (fun c => match c with
                    | CL => true
                    | CX => mem CX (fW me)
                    | CP i => match nth_error args i with
                              | None => mem CX (fW me)
                              | Some a => forall_facts (fS me) a g (fun c' _ => mem c' (fW me))
                              end
                    end) fw = true ->
  (forall w, In w ws -> w = CL \/ In w fw) ->
  forall w, In w (map (subst e args) ws) -> w = CL \/ In w (fW me).
Proof.
  intros me rho e g args fw ws He Hg Hb HW Bw w Iw. apply in_map_iff in Iw. destruct Iw as [c [<- Ic]].
  destruct (Bw c Ic) as [-> | Ic']; [left; reflexivity | ].
  rewrite forallb_forall in HW. specialize (HW c Ic'). destruct c as [ | i | ]; simpl.
  - left; reflexivity.
  - destruct (nth_error args i) as [a | ] eqn:Ea; [ | right; apply mem_In, HW].
    destruct (e a) as [c' | ] eqn:Eea; [ | exfalso; apply (Hb a (nth_error_In _ _ Ea) Eea)].
    destruct (cls_eqb c' CL) eqn:Ec; [apply cls_eqb_eq in Ec; left; exact Ec | right].
    assert (N : c' <> CL) by (intros ->; simpl in Ec; discriminate).
    destruct (He a c' Eea N) as [ga [Ia Sa]]. apply mem_In. exact (forall_facts_sound _ _ _ _ _ _ rho HW Ia Hg Sa).
  - right; apply mem_In, HW.
Qed.

Lemma step_ok : forall (callee : fname -> list cls -> list cls -> Prop) me rho e s e' ws rs,
  (forall f ws rs, callee f ws rs -> beh_ok f ws rs) ->
  check_stmt P C me s = true -> env_ok me rho e -> step callee rho e s e' ws rs ->
  env_ok me rho e' /\ (forall w, In w ws -> w = CL \/ In w (fW me)) /\ (forall r, In r rs -> r = CL \/ In r (fR me)).
Proof.
  intros callee me rho e s e' ws rs Hcal Hck He Hst. destruct Hst.
  - split; [exact He | split; intros ? []].
  - split; [ | split; intros ? []]. apply upd_ok; [exact He | intros N; contradiction].
  - split; [ | split; intros ? []]. apply upd_ok; [exact He | intros _]. simpl in Hck. eapply covered_sound; eauto.
  - split; [ | split; intros ? []]. apply upd_ok; [exact He | intros _]. simpl in Hck. eapply covered_sound; eauto.
  - split; [ | split; intros ? []]. apply upd_ok; [exact He | intros N]. simpl in Hck.
    rewrite forallb_forall in Hck. specialize (Hck y H0). destruct (He y c H1 N) as [gy [Iy Sy]].
    pose proof (forall_facts_sound _ _ _ _ _ _ rho Hck Iy H Sy) as Hc. simpl in Hc.
    eapply covered_sound; [exact Hc | rewrite sat_app, H, Sy; reflexivity].
  - split; [exact He | split; [ | intros ? []]]. intros w [<- | []]. simpl in Hck.
    destruct (cls_eqb c CL) eqn:Ec; [apply cls_eqb_eq in Ec; left; exact Ec | right].
    assert (N : c <> CL) by (intros ->; simpl in Ec; discriminate).
    destruct (He x c H0 N) as [gx [Ix Sx]]. apply mem_In. exact (forall_facts_sound _ _ _ _ _ _ rho Hck Ix H Sx).
  - split; [exact He | split; [intros ? [] | ]]. intros r [<- | []]. simpl in Hck.
    destruct (cls_eqb c CL) eqn:Ec; [apply cls_eqb_eq in Ec; left; exact Ec | right].
    assert (N : c <> CL) by (intros ->; simpl in Ec; discriminate).
    destruct (He x c H0 N) as [gx [Ix Sx]]. apply mem_In. exact (forall_facts_sound _ _ _ _ _ _ rho Hck Ix H Sx).
  - (* call without result *)
    simpl in Hck. apply andb_true_iff in Hck. destruct Hck as [Hck _]. apply andb_true_iff in Hck. destruct Hck as [_ HW].
    destruct (Hcal _ _ _ H1) as [Bw _].
    split; [exact He | split; [ | intros ? []]].
    apply (call_writes_ok me rho e g args (fW (cert_of C f)) ws He H H0 HW Bw).
  - (* call with result *)
    simpl in Hck. apply andb_true_iff in Hck. destruct Hck as [Hck HR]. apply andb_true_iff in Hck. destruct Hck as [_ HW].
    destruct (Hcal _ _ _ H1) as [Bw Br].
    split; [ | split; [ | intros ? []]].
    + apply upd_ok; [exact He | intros N].
      assert (Hr : r = CL \/ In r (fR (cert_of C f))) by (destruct H2 as [-> | I]; [left; reflexivity | apply Br, I]).
      destruct Hr as [-> | Ir]; [simpl in N; contradiction | ].
      rewrite forallb_forall in HR. specialize (HR r Ir). destruct r as [ | i | ]; simpl in *.
      * contradiction.
      * destruct (nth_error args i) as [a | ] eqn:Ea; [ | eapply covered_sound; eauto].
        destruct (e a) as [c' | ] eqn:Eea; [ | exfalso; apply (H0 a (nth_error_In _ _ Ea) Eea)].
        destruct (He a c' Eea N) as [ga [Ia Sa]].
        pose proof (forall_facts_sound _ _ _ _ _ _ rho HR Ia H Sa) as Hc. simpl in Hc.
        eapply covered_sound; [exact Hc | rewrite sat_app, H, Sa; reflexivity].
      * eapply covered_sound; eauto.
    + apply (call_writes_ok me rho e g args (fW (cert_of C f)) ws He H H0 HW Bw).
Qed.

Lemma runs_ok : forall (callee : fname -> list cls -> list cls -> Prop) me rho ss e e' ws rs,
  (forall f ws rs, callee f ws rs -> beh_ok f ws rs) ->
  forallb (check_stmt P C me) ss = true -> env_ok me rho e -> runs callee rho e ss e' ws rs ->
  (forall w, In w ws -> w = CL \/ In w (fW me)) /\ (forall r, In r rs -> r = CL \/ In r (fR me)).
Proof.
  intros callee me rho ss e e' ws rs Hcal Hck He Hr. induction Hr as [e | e s e1 w1 r1 ss e2 w2 r2 Hst Hr IH].
  - split; intros ? [].
  - simpl in Hck. apply andb_true_iff in Hck. destruct Hck as [Hs Hss].
    destruct (step_ok callee me rho e s e1 w1 r1 Hcal Hs He Hst) as [He1 [Hw1 Hr1]].
    destruct (IH Hss He1) as [Hw2 Hr2]. split.
    + intros w I. apply in_app_or in I. destruct I; auto.
    + intros r I. apply in_app_or in I. destruct I; auto.
Qed.

Lemma fn_beh_ok : forall n f ws rs, fn_beh P n f ws rs -> beh_ok f ws rs.
Proof.
  induction n as [ | n IH]; intros f ws rs H; [destruct H | ].
  destruct H as [body [rho [ss [e' [Hb [Hinc Hr]]]]]].
  unfold check_all in Hall. apply andb_true_iff in Hall. destruct Hall as [Hnd Hfns].
  rewrite forallb_forall in Hfns. pose proof (Hfns (f, body) (body_of_In' P f body Hb)) as Hf.
  unfold check_fn in Hf. simpl in Hf.
  assert (Hss : forallb (check_stmt P C (cert_of C f)) ss = true).
  { apply forallb_forall. intros s Is. rewrite forallb_forall in Hf. apply Hf, Hinc, Is. }
  apply (runs_ok (fn_beh P n) (cert_of C f) rho ss env0 e' ws rs IH Hss); [ | exact Hr].
  intros x c E. discriminate.
Qed.
End Sound.

(* Soundness: if the certificate passes the checker, then in every execution of a public function -- any call
   depth, any sequence of its statements, any valuation of its guards, the same for all functions it calls --
   every object written is local to the computation or a parameter documented as written in place; in
   particular never memory of provenance CX (attributes of self or of an input pulse, i.e. anything that may be
   owned by the caller or have been returned earlier) and never another parameter. *)
Theorem safe_sound : forall P C publics, safe P C publics = true ->
  forall f inplace, In (f, inplace) publics ->
  forall n ws rs, fn_beh P n f ws rs ->
  forall w, In w ws -> w = CL \/ exists i, w = CP i /\ In i inplace.
Proof.
  intros P C publics Hs f inplace Ipub n ws rs Hb w Iw.
  unfold safe in Hs. apply andb_true_iff in Hs. destruct Hs as [Hall Hpub].
  destruct (fn_beh_ok P C Hall n f ws rs Hb) as [Hw _]. destruct (Hw w Iw) as [-> | Iw']; [left; reflexivity | ].
  rewrite forallb_forall in Hpub. specialize (Hpub _ Ipub). unfold public_ok in Hpub. simpl in Hpub.
  rewrite forallb_forall in Hpub. specialize (Hpub w Iw'). destruct w as [ | i | ]; simpl in Hpub.
  - left; reflexivity.
  - right. exists i. split; [reflexivity | ]. apply existsb_exists in Hpub. destruct Hpub as [j [Ij E]].
    apply Nat.eqb_eq in E. subst; exact Ij.
  - discriminate.
Qed.

(* the semantics is not vacuous: a function that writes its parameter through a view does so in the semantics,
   and the checker rejects the certificate that hides it *)
Local Open Scope N_scope.
Notation P0 := (Param 0%nat).
Notation C0 := (CP 0%nat).
Definition ex_prog : prog :=
  [(0, [Bind [] 0 P0; Bind [(0, true)] 1 (ViewOf [0]); Bind [(0, false)] 1 Fresh; Write [] 1; Return [] 1]);
   (1, [Bind [] 0 P0; Bind [] 1 Ext; Call [] (Some 2) 0 [1]; Write [] 2])].
Definition ex_cert_good : cert :=
  [(0, mkC [(0, C0, []); (1, C0, [(0, true)])] [C0] [C0]);
   (1, mkC [(0, C0, []); (1, CX, []); (2, CX, [])] [CX] [])].
Definition ex_cert_bad : cert :=
  [(0, mkC [(0, C0, []); (1, C0, [(0, true)])] [C0] [C0]);
   (1, mkC [(0, C0, []); (1, CX, [])] [] [])].
Example ex_checks :
  check_all ex_prog ex_cert_good = true /\ check_all ex_prog ex_cert_bad = false /\
  safe ex_prog ex_cert_good [(0, [0%nat])] = true /\ safe ex_prog ex_cert_good [(0, [])] = false /\
  safe ex_prog ex_cert_good [(1, [0%nat])] = false.
Proof. repeat split; reflexivity. Qed.
Example ex_semantics : fn_beh ex_prog 2 1 [CX; CX] [].
Proof.
  simpl. exists [Bind [] 0 P0; Bind [] 1 Ext; Call [] (Some 2) 0 [1]; Write [] 2], (fun _ => true),
    [Bind [] 1 Ext; Call [] (Some 2) 0 [1]; Write [] 2], (upd (upd env0 1 CX) 2 CX).
  split; [reflexivity | split; [intros s Is; simpl in *; tauto | ]].
  eapply (r_cons _ _ _ _ _ [] [] _ _ [CX; CX] []); [apply st_ext; reflexivity | ].
  eapply (r_cons _ _ _ _ _ [CX] [] _ _ [CX] []).
  - apply (st_call_bind _ _ (upd env0 1 CX) [] 2 0 [1] [C0] [C0] C0); [reflexivity | | | right; left; reflexivity].
    + intros a [<- | []]. discriminate.
    + exists [Bind [] 0 P0; Bind [(0, true)] 1 (ViewOf [0]); Bind [(0, false)] 1 Fresh; Write [] 1; Return [] 1],
        (fun _ => true), [Bind [] 0 P0; Bind [(0, true)] 1 (ViewOf [0]); Write [] 1; Return [] 1],
        (upd (upd env0 0 C0) 1 C0).
      split; [reflexivity | split; [intros s Is; simpl in *; tauto | ]].
      eapply (r_cons _ _ _ _ _ [] [] _ _ [C0] [C0]); [apply st_param; reflexivity | ].
      eapply (r_cons _ _ _ _ _ [] [] _ _ [C0] [C0]); [eapply (st_view _ _ _ _ _ _ 0); [reflexivity | left; reflexivity | reflexivity] | ].
      eapply (r_cons _ _ _ _ _ [C0] [] _ _ [] [C0]); [apply st_write; reflexivity | ].
      eapply (r_cons _ _ _ _ _ [] [C0] _ _ [] []); [apply st_return; reflexivity | apply r_nil].
  - eapply (r_cons _ _ _ _ _ [CX] [] _ _ [] []); [apply st_write; reflexivity | apply r_nil].
Qed.
