(* C16 -- model of the tensor-product helpers of filter_functions/util.py, line by line:
     _tensor_product_shape, _parse_dims_arg, tensor (binary-tree reduction), tensor_insert (with its
     inner _tensor_insert_subscripts / single_tensor_insert and the position / dimension bookkeeping
     loop), tensor_merge, tensor_transpose.
   Arrays are n-dimensional arrays (shape : list nat, data : list T in row-major order) over an arbitrary
   entry type T with operations [Entry T] (zero, one, add, mul); the laws needed by the theorems are
   [EntryLaws T].  The instance for Z ([Zentry], abbreviation [arr] = [garr Z]) is the one evaluated by the
   exhaustive correspondence check.
   numpy primitives used by the code (reshape, transpose, einsum with a leading ellipsis on two
   operands) are modelled by small evaluators on letter lists (letters are natural numbers:
   string.ascii_letters[k] is letter k).  Python exceptions are values of [exn].
   Idealisations (documented in docs/notes/C16.md): unbounded alphabet / number of axes (numpy: 52
   letters, 32 axes), rank >= 1 and at least one constituent in arr_dims (otherwise [OutOfScope]). *)
From Coq Require Import ZArith List Arith Lia Bool.
Import ListNotations.

Inductive exn := ValueError | IndexError | TypeError | OutOfScope.
Inductive res (A : Type) := Ok (a : A) | Err (e : exn).
Arguments Ok {A} a.
Arguments Err {A} e.
Definition bind {A B} (x : res A) (f : A -> res B) : res B :=
  match x with Ok a => f a | Err e => Err e end.
Notation "'do' x <- a ; b" := (bind a (fun x => b)) (at level 200, x name, a at level 100, b at level 200).

(* entries: the operations used by the code (einsum: multiply and sum) ... *)
Class Entry (T : Type) := { ezero : T; eone : T; eadd : T -> T -> T; emul : T -> T -> T }.
(* ... and the laws used by the proofs: a commutative monoid under multiplication, zero neutral for sums *)
Class EntryLaws (T : Type) {E : Entry T} := {
  eadd_0_r : forall x : T, eadd x ezero = x;
  emul_assoc : forall x y z : T, emul x (emul y z) = emul (emul x y) z;
  emul_comm : forall x y : T, emul x y = emul y x;
  emul_1_l : forall x : T, emul eone x = x }.

Record garr (T : Type) := mkArr { shp : list nat; dat : list T }.
Arguments mkArr {T} shp dat.
Arguments shp {T} g.
Arguments dat {T} g.

Section Generic.
Context {T : Type} {E : Entry T}.
Local Notation arr := (garr T).

(* ------------------------------------------------------------------ index arithmetic *)
Definition prodn (l : list nat) : nat := fold_right Nat.mul 1 l.

(* row-major flat index of a multi-index (Horner) *)
Fixpoint ravel_acc (acc : nat) (shape idx : list nat) : nat :=
  match shape, idx with
  | d :: s', i :: i' => ravel_acc (acc * d + i) s' i'
  | _, _ => acc
  end.
Definition ravel (shape idx : list nat) : nat := ravel_acc 0 shape idx.

(* all multi-indices of a shape in row-major order *)
Fixpoint indices (shape : list nat) : list (list nat) :=
  match shape with
  | [] => [[]]
  | d :: s' => flat_map (fun i => map (cons i) (indices s')) (seq 0 d)
  end.

Definition aget (a : arr) (idx : list nat) : T := nth (ravel (shp a) idx) (dat a) ezero.

(* array given by a function of the multi-index *)
Definition tabulate (shape : list nat) (f : list nat -> T) : arr :=
  mkArr shape (map f (indices shape)).

(* Python slices with non-negative bounds: s[a:b], s[:n], s[n:] *)
Definition slice {A} (l : list A) (a b : nat) : list A := firstn (b - a) (skipn a l).
(* s[:-k] and s[-k:] (k >= 1) *)
Definition lead {A} (k : nat) (l : list A) : list A := firstn (length l - k) l.
Definition trail {A} (k : nat) (l : list A) : list A := skipn (length l - k) l.
(* list.insert(p, x) for p >= 0 *)
Definition insert_at {A} (p : nat) (x : A) (l : list A) : list A := firstn p l ++ x :: skipn p l.

(* ------------------------------------------------------------------ numpy primitives *)
Definition reshape (a : arr) (news : list nat) : res arr :=
  if prodn news =? length (dat a) then Ok (mkArr news (dat a)) else Err ValueError.

(* A[None, :] repeated until ndim >= rank *)
Definition pad_rank (rank : nat) (a : arr) : arr :=
  mkArr (repeat 1 (rank - length (shp a)) ++ shp a) (dat a).

(* numpy broadcasting of two shapes, given reversed (last axis first) *)
Fixpoint bcast_rev (a b : list nat) : res (list nat) :=
  match a, b with
  | [], _ => Ok b
  | _, [] => Ok a
  | x :: a', y :: b' =>
      do t <- bcast_rev a' b';
      if x =? 1 then Ok (y :: t) else if y =? 1 then Ok (x :: t)
      else if x =? y then Ok (x :: t) else Err ValueError
  end.
Definition bcast (a b : list nat) : res (list nat) :=
  do t <- bcast_rev (rev a) (rev b); Ok (rev t).

(* environment lookup: value of letter l, letters ls bound to values vs *)
Fixpoint lookup (ls vs : list nat) (l : nat) : nat :=
  match ls, vs with
  | l' :: ls', v :: vs' => if l =? l' then v else lookup ls' vs' l
  | _, _ => 0
  end.
(* index of an operand with letters opl and shape ops under the environment; an axis of length 1 is
   broadcast (index 0) *)
Fixpoint gather (ls vs opl ops : list nat) : list nat :=
  match opl, ops with
  | l :: opl', d :: ops' => (if d =? 1 then 0 else lookup ls vs l) :: gather ls vs opl' ops'
  | _, _ => []
  end.

(* dimension of a letter from all its occurrences (broadcast rule), None if it does not occur *)
Fixpoint letter_dim (ls ds : list nat) (l : nat) (acc : option nat) : res (option nat) :=
  match ls, ds with
  | l' :: ls', d :: ds' =>
      if l =? l' then
        match acc with
        | None => letter_dim ls' ds' l (Some d)
        | Some d0 => if d0 =? 1 then letter_dim ls' ds' l (Some d)
                     else if (d =? 1) || (d =? d0) then letter_dim ls' ds' l (Some d0)
                     else Err ValueError
        end
      else letter_dim ls' ds' l acc
  | _, _ => Ok acc
  end.
Fixpoint letter_dims (ls ds : list nat) (want : list nat) : res (list nat) :=
  match want with
  | [] => Ok []
  | l :: w' => do od <- letter_dim ls ds l None;
               match od with
               | None => Err ValueError
               | Some d => do t <- letter_dims ls ds w'; Ok (d :: t)
               end
  end.
Fixpoint nodup_nat (l : list nat) : list nat :=
  match l with
  | [] => []
  | x :: t => if existsb (Nat.eqb x) t then nodup_nat t else x :: nodup_nat t
  end.
Definition zsum (l : list T) : T := fold_right eadd ezero l.

(* np.einsum('...<la>,...<lb>->...<lo>', A, B) *)
Definition einsum2 (la lb lo : list nat) (A B : arr) : res arr :=
  if (length (shp A) <? length la) || (length (shp B) <? length lb) then Err ValueError else
  let ea := length (shp A) - length la in
  let eb := length (shp B) - length lb in
  do bs <- bcast (firstn ea (shp A)) (firstn eb (shp B));
  let nb := length bs in
  let base := S (fold_right Nat.max 0 (la ++ lb ++ lo)) in
  let ell := seq base nb in
  let fa := skipn (nb - ea) ell ++ la in
  let fb := skipn (nb - eb) ell ++ lb in
  let fo := ell ++ lo in
  let ls := fa ++ fb in
  let ds := shp A ++ shp B in
  do oshape <- letter_dims ls ds fo;
  let sl := filter (fun l => negb (existsb (Nat.eqb l) fo)) (nodup_nat ls) in
  do sshape <- letter_dims ls ds sl;
  let env := fo ++ sl in
  Ok (tabulate oshape (fun oi =>
        zsum (map (fun si => emul (aget A (gather env (oi ++ si) fa (shp A)))
                                   (aget B (gather env (oi ++ si) fb (shp B))))
                  (indices sshape)))).

(* ndarray.transpose(axes): negative axes are normalised, repeated / out-of-range axes and a wrong
   number of axes raise ValueError (AxisError is a subclass) *)
Definition norm_axis (nd : nat) (a : Z) : res nat :=
  if ((a <? - Z.of_nat nd) || (Z.of_nat nd <=? a))%Z then Err ValueError
  else Ok (Z.to_nat (a mod Z.of_nat nd)).
Fixpoint mapM {A B} (f : A -> res B) (l : list A) : res (list B) :=
  match l with
  | [] => Ok []
  | x :: t => do y <- f x; do t' <- mapM f t; Ok (y :: t')
  end.
Fixpoint has_dup (l : list nat) : bool :=
  match l with [] => false | x :: t => existsb (Nat.eqb x) t || has_dup t end.
Definition transpose (a : arr) (axes : list Z) : res arr :=
  let nd := length (shp a) in
  (* a.transpose() without arguments reverses the axes *)
  let axes := match axes with [] => map Z.of_nat (rev (seq 0 nd)) | _ => axes end in
  if negb (length axes =? nd) then Err ValueError else
  do ax <- mapM (norm_axis nd) axes;
  if has_dup ax then Err ValueError else
  (* new axis j is old axis ax[j]: old index of axis k is the new index at the position of k in ax *)
  Ok (tabulate (map (fun k => nth k (shp a) 0) ax)
        (fun ni => aget a (map (fun k => lookup ax ni k) (seq 0 nd)))).

(* ------------------------------------------------------------------ _tensor_product_shape *)
(* zip_longest(a, b, fillvalue=1) followed by the branch of the loop body *)
Fixpoint tps_bcast (a b : list nat) : res (list nat) :=   (* a, b = shape[-rank-1::-1] *)
  match a with
  | [] => Ok (map (fun y => Nat.max 1 y) b)                 (* (1, y): 1 in dims *)
  | x :: a' =>
      match b with
      | [] => Ok (map (fun x => Nat.max x 1) a)
      | y :: b' =>
          do t <- tps_bcast a' b';
          if (x =? 1) || (y =? 1) then Ok (Nat.max x y :: t)
          else if x =? y then Ok (x :: t) else Err ValueError
      end
  end.
Fixpoint zipmul (a b : list nat) : list nat :=           (* a, b = shape[:-rank-1:-1] *)
  match a with
  | [] => map (fun y => 1 * y) b
  | x :: a' =>
      match b with
      | [] => map (fun x => x * 1) a
      | y :: b' => x * y :: zipmul a' b'
      end
  end.
Definition tensor_product_shape (sa sb : list nat) (rank : nat) : res (list nat) :=
  do bs <- tps_bcast (rev (lead rank sa)) (rev (lead rank sb));
  Ok (rev bs ++ rev (zipmul (rev (trail rank sa)) (rev (trail rank sb)))).

(* ------------------------------------------------------------------ _parse_dims_arg *)
Definition all_same_length (dims : list (list nat)) : bool :=
  match dims with
  | [] => false                                  (* len(set()) == 0 != 1 *)
  | d :: t => forallb (fun x => length x =? length d) t
  end.
Definition parse_dims_arg (dims : list (list nat)) (rank : nat) : res unit :=
  if negb (length dims =? rank) then Err ValueError
  else if negb (all_same_length dims) then Err ValueError
  else Ok tt.

(* ------------------------------------------------------------------ tensor *)
(* '...ab,...cd->...acbd' for rank 2 etc. *)
Fixpoint interleave (a b : list nat) : list nat :=
  match a, b with
  | x :: a', y :: b' => x :: y :: interleave a' b'
  | _, _ => []
  end.
Definition tensor_subscripts (rank : nat) : list nat * list nat * list nat :=
  (seq 0 rank, seq rank rank, interleave (seq 0 rank) (seq rank rank)).

Definition binary_tensor (rank : nat) (A B : arr) : res arr :=
  let A := pad_rank rank A in
  let B := pad_rank rank B in
  do outshape <- tensor_product_shape (shp A) (shp B) rank;
  let '(la, lb, lo) := tensor_subscripts rank in
  do r <- einsum2 la lb lo A B;
  reshape r outshape.

(* tuple(binary_tensor of args[i:i+2] for i in range(bit, n, 2)) on args[bit:] *)
Fixpoint pair_up (f : arr -> arr -> res arr) (l : list arr) : res (list arr) :=
  match l with
  | a :: b :: t => do c <- f a b; do t' <- pair_up f t; Ok (c :: t')
  | _ => Ok []
  end.
Definition tree_step (f : arr -> arr -> res arr) (args : list arr) : res (list arr) :=
  let bit := length args mod 2 in
  do t <- pair_up f (skipn bit args); Ok (firstn bit args ++ t).
Fixpoint tree_loop (fuel : nat) (f : arr -> arr -> res arr) (args : list arr) : res (list arr) :=
  match fuel with
  | 0 => Ok args
  | S fuel' => if 1 <? length args then do a <- tree_step f args; tree_loop fuel' f a else Ok args
  end.
Definition tensor (rank : nat) (args : list arr) : res arr :=
  do l <- tree_loop (length args) (binary_tensor rank) args;
  match l with
  | a :: _ => Ok a
  | [] => Err IndexError                          (* args[0] on the empty tuple *)
  end.

(* ------------------------------------------------------------------ tensor_insert *)
(* _tensor_insert_subscripts(ndim, pos, rank) *)
Definition tensor_insert_subscripts (ndim pos rank : nat) : list nat * list nat * list nat :=
  let ins_chars := seq 0 rank in
  let arr_chars := seq rank (ndim * rank) in       (* letters[rank:(ndim+1)*rank] *)
  (ins_chars, arr_chars,
   firstn pos arr_chars ++
   flat_map (fun i => slice ins_chars i (S i) ++ slice arr_chars (pos + i * ndim) (pos + (S i) * ndim))
            (seq 0 rank)).

Definition single_tensor_insert (rank : nat) (a ins : arr) (arr_dims : list (list nat)) (pos : nat) : res arr :=
  let '(li, la, lo) := tensor_insert_subscripts (length (hd [] arr_dims)) pos rank in
  do outshape <- tensor_product_shape (shp ins) (shp a) rank;
  do reshaped <- reshape a (lead rank (shp a) ++ concat arr_dims);
  do r <- einsum2 li la lo ins reshaped;
  reshape r outshape.

(* divmod(p, ndim) if p != ndim else (0, p) *)
Definition norm_pos (ndim : nat) (p : Z) : Z * Z :=
  if (p =? Z.of_nat ndim)%Z then (0%Z, p) else ((p / Z.of_nat ndim)%Z, (p mod Z.of_nat ndim)%Z).

(* sorted(items, key=itemgetter(0)) -- stable *)
Fixpoint ins_sorted {A} (key : A -> Z) (x : A) (l : list A) : list A :=
  match l with
  | [] => [x]
  | y :: t => if (key x <=? key y)%Z then x :: y :: t else y :: ins_sorted key x t
  end.
Definition sort_by {A} (key : A -> Z) (l : list A) : list A := fold_right (ins_sorted key) [] l.

Definition div_ok (dv : Z) : bool := ((dv =? -1) || (dv =? 0))%Z.

(* the loop `for i, (p, div, arg, arg_counter) in enumerate(sorted(...))`, generic in the state that
   is threaded through (the real one: result array and carr_dims); step gets (p, i) *)
Fixpoint insert_loop {St A} (step : St -> A -> nat -> nat -> res St)
         (items : list (Z * Z * A)) (i : nat) (s : St) : res St :=
  match items with
  | [] => Ok s
  | (p, dv, a) :: t =>
      if negb (div_ok dv) then Err IndexError
      else do s' <- step s a (Z.to_nat p) i; insert_loop step t (S i) s'
  end.
Definition insert_items {A} (ndim : nat) (pos : list Z) (args : list A) : list (Z * Z * A) :=
  sort_by (fun it => fst (fst it))
          (map (fun pa => (snd (norm_pos ndim (fst pa)), fst (norm_pos ndim (fst pa)), snd pa))
               (combine pos args)).

Fixpoint map2 {A B C} (f : A -> B -> C) (l : list A) (m : list B) : list C :=
  match l, m with
  | x :: l', y :: m' => f x y :: map2 f l' m'
  | _, _ => []
  end.

(* one iteration: insert at p+i, record the dimensions at p *)
Definition insert_step (rank : nat) (s : arr * list (list nat)) (a : arr) (p i : nat) : res (arr * list (list nat)) :=
  let '(result, carr_dims) := s in
  do r <- single_tensor_insert rank result a carr_dims (p + i);
  Ok (r, map2 (fun axis d => insert_at p d axis) carr_dims (trail rank (shp a))).

Inductive posarg := PInt (p : Z) | PSeq (l : list Z).

Definition tensor_insert (rank : nat) (a : arr) (args : list arr) (pos : posarg)
           (arr_dims : list (list nat)) : res arr :=
  if length args =? 0 then Err ValueError else
  do pa <- match pos with
           | PInt p => if 1 <? length args then do t <- tensor rank args; Ok ([p], [t]) else Ok ([p], args)
           | PSeq l => if negb (length l =? length args) then Err ValueError else Ok (l, args)
           end;
  let '(pos, args) := pa in
  do _ <- parse_dims_arg arr_dims rank;
  let ndim := length (hd [] arr_dims) in
  if (rank =? 0) || (ndim =? 0) then Err OutOfScope else
  do s <- insert_loop (insert_step rank) (insert_items ndim pos args) 0 (a, arr_dims);
  Ok (fst s).

(* ------------------------------------------------------------------ tensor_merge *)
(* the normalisation loop in front of the subscript construction *)
Fixpoint merge_norm_pos (arr_ndim : nat) (pos : list Z) : res (list Z) :=
  match pos with
  | [] => Ok []
  | p :: t =>
      if (p =? Z.of_nat arr_ndim)%Z then do t' <- merge_norm_pos arr_ndim t; Ok (p :: t')
      else if negb (div_ok (p / Z.of_nat arr_ndim)) then Err IndexError
      else do t' <- merge_norm_pos arr_ndim t; Ok ((p mod Z.of_nat arr_ndim)%Z :: t')
  end.

(* sorted(zip(normalized_pos, ins_part)): tuples compare lexicographically *)
Definition pair_le (x y : Z * nat) : bool :=
  ((fst x <? fst y) || ((fst x =? fst y) && (Z.of_nat (snd x) <=? Z.of_nat (snd y))))%Z.
Fixpoint ins_lex (x : Z * nat) (l : list (Z * nat)) : list (Z * nat) :=
  match l with
  | [] => [x]
  | y :: t => if pair_le x y then x :: y :: t else y :: ins_lex x t
  end.
Definition sort_lex (l : list (Z * nat)) : list (Z * nat) := fold_right ins_lex [] l.

(* for i, (p, ins_p) in enumerate(...): arr_part = arr_part[:p+i] + ins_p + arr_part[p+i:] *)
Fixpoint merge_part_loop {L} (items : list (Z * L)) (i : nat) (arr_part : list L) : list L :=
  match items with
  | [] => arr_part
  | (p, c) :: t => merge_part_loop t (S i) (insert_at (Z.to_nat p + i) c arr_part)
  end.

Definition merge_out_chars (rank ins_ndim arr_ndim : nat) (npos : list Z) : list nat * list nat * list nat :=
  let ins_chars := seq 0 (ins_ndim * rank) in
  let arr_chars := seq (ins_ndim * rank) (arr_ndim * rank) in
  (ins_chars, arr_chars,
   flat_map (fun r =>
     let arr_part := slice arr_chars (r * arr_ndim) (S r * arr_ndim) in
     let ins_part := slice ins_chars (r * ins_ndim) (S r * ins_ndim) in
     merge_part_loop (sort_lex (combine npos ins_part)) 0 arr_part) (seq 0 rank)).

Definition tensor_merge (rank : nat) (a ins : arr) (pos : list Z)
           (arr_dims ins_dims : list (list nat)) : res arr :=
  do _ <- parse_dims_arg arr_dims rank;
  do _ <- parse_dims_arg ins_dims rank;
  let ins_ndim := length (hd [] ins_dims) in
  let arr_ndim := length (hd [] arr_dims) in
  if (rank =? 0) || (arr_ndim =? 0) then Err OutOfScope else
  do npos <- merge_norm_pos arr_ndim pos;
  let '(li, la, lo) := merge_out_chars rank ins_ndim arr_ndim npos in
  do outshape <- tensor_product_shape (shp ins) (shp a) rank;
  do ins_r <- reshape ins (lead rank (shp ins) ++ concat ins_dims);
  do arr_r <- reshape a (lead rank (shp a) ++ concat arr_dims);
  do r <- einsum2 li la lo ins_r arr_r;
  reshape r outshape.

(* the order used before commit d3c7a1d: sort the raw positions, normalise inside the loop *)
Fixpoint merge_part_loop_old {L} (arr_ndim : nat) (items : list (Z * L)) (i : nat) (arr_part : list L) : list L :=
  match items with
  | [] => arr_part
  | (p, c) :: t => merge_part_loop_old arr_ndim t (S i)
                     (insert_at (Z.to_nat (snd (norm_pos arr_ndim p)) + i) c arr_part)
  end.

(* ------------------------------------------------------------------ tensor_transpose *)
Definition transpose_axes (rank ndim nb : nat) (order : list Z) : list Z :=
  map Z.of_nat (seq 0 nb) ++
  flat_map (fun r => map (fun o => (Z.of_nat nb + Z.of_nat r * Z.of_nat ndim + o)%Z) order) (seq 0 rank).

Definition tensor_transpose (rank : nat) (a : arr) (order : list Z) (arr_dims : list (list nat)) : res arr :=
  do _ <- parse_dims_arg arr_dims rank;
  let ndim := length (hd [] arr_dims) in
  if rank =? 0 then Err OutOfScope else
  let nb := length (lead rank (shp a)) in
  do arr_r <- reshape a (lead rank (shp a) ++ concat arr_dims);
  do t <- transpose arr_r (transpose_axes rank ndim nb order);
  reshape t (shp a).
End Generic.

(* ------------------------------------------------------------------ the integer instance *)
#[global] Instance Zentry : Entry Z := { ezero := 0%Z; eone := 1%Z; eadd := Z.add; emul := Z.mul }.
#[global] Instance Zlaws : EntryLaws Z.
Proof.
  constructor; intros; unfold eadd, emul, ezero, eone, Zentry.
  - apply Z.add_0_r.
  - apply Z.mul_assoc.
  - apply Z.mul_comm.
  - apply Z.mul_1_l.
Qed.
Notation arr := (garr Z).
