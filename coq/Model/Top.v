(* Top-level model functions (generic in Ops): quantities of a pulse computed from the
   eigen-decomposition oracle only.                                                    *)
From Coq Require Import ZArith List.
From FF Require Import Base.Ops Model.Numeric.
Import ListNotations.

Section Top.
Context {T B : Type} (Op : Ops T B).
Variable d : nat.

(* PulseSequence.get_control_matrix on a fresh pulse: diagonalize (eigh oracle: evs, Vs), then
   calculate_control_matrix_from_scratch with the model's own propagators and times *)
Definition pulse_cm (thr : T) (evs : list (list T)) (Vs : list (Mat (T:=T))) (om : list T)
           (bs ns : list (Mat (T:=T))) (nc : list (list T)) (dts : list T) : Arr3 (T:=T) :=
  control_matrix_from_scratch Op d thr evs Vs (propagators Op d evs Vs dts) om bs ns nc dts (times Op dts).

(* PulseSequence.get_filter_function (fidelity) on a fresh pulse *)
Definition pulse_ff (thr : T) (evs : list (list T)) (Vs : list (Mat (T:=T))) (om : list T)
           (bs ns : list (Mat (T:=T))) (nc : list (list T)) (dts : list T) : Arr3 (T:=T) :=
  filter_function Op (length ns) (length bs) (length om) (pulse_cm thr evs Vs om bs ns nc dts).
End Top.
