(* Cumulant function, error transfer matrix, Choi matrix and CP tests
   (numeric.calculate_cumulant_function, numeric.error_transfer_matrix,
    superoperator.liouville_to_choi, liouville_is_CP, liouville_is_cCP).
   Polymorphic in Ops.  [expm] and [eigh] are oracles: the model takes their outputs as inputs
   (validated by residuals in the correspondence check).                                        *)
From Coq Require Import ZArith List Bool.
From FF Require Import Base.Ops Model.Numeric Model.Decay.
Import ListNotations.

(* Basis.btype *)
Inductive btype := BPauli | BGGM | BCustom.
(* the guard of the single-qubit shortcut (after fix 63446ae):
     d == 2 and pulse.basis.btype in ('Pauli', 'GGM')
     and pulse.basis.shape == (4, 2, 2) and pulse.basis == Basis.pauli(1)
   [is_pauli1] is the verdict of the last two conjuncts (Basis.__eq__ is np.allclose with the
   basis' own atol; the model reads it as equality of the entries) *)
Definition use_shortcut (d : nat) (bt : btype) (is_pauli1 : bool) : bool :=
  Nat.eqb d 2 && match bt with BPauli | BGGM => true | BCustom => false end && is_pauli1.

Section Cumulant.
Context {T B : Type} (Op : Ops T B).
Notation Cc := (C (T:=T)).
Notation Matc := (Mat (T:=T)).
Variable d : nat.

Definition RM : Type := list (list T).                      (* real matrix [k][l] *)
Definition rmget (M : RM) (k l : nat) : T := nth l (nth k M []) (o0 Op).
Definition rmbuild (m n : nat) (f : nat -> nat -> T) : RM := build m (fun i => build n (f i)).

(* ---------- general branch: contractions with the four-element trace tensor ---------- *)
(* traces as a materialised rank-4 array (Basis.four_element_traces) *)
Definition Arr4 : Type := list (list (list (list Cc))).
Definition a4get (A : Arr4) (i j k l : nat) : Cc := nth l (nth k (nth j (nth i A []) []) []) (c0 Op).
Definition four_traces_arr (P : list (list Matc)) (n : nat) : Arr4 :=
  build n (fun i => build n (fun j => build n (fun k => build n (fun l => four_trace Op d P i j k l)))).

(* oe.contract('...kl,<pqrs>->...ij', G, traces): sum_kl G_kl T_<pqrs> for one leading index *)
Definition contract (n : nat) (G : RM) (f : nat -> nat -> Cc) : Cc :=
  csumn Op n (fun k => csumn Op n (fun l => cscal Op (rmget G k l) (f k l))).
Definition half (z : Cc) : Cc := cdivr Op z (o2 Op).

(* -( + '..kl,klji' - '..kl,kjli' - '..kl,kilj' + '..kl,kijl') / 2 *)
Definition K1_entry (n : nat) (Tr : nat -> nat -> nat -> nat -> Cc) (G : RM) (i j : nat) : Cc :=
  cneg Op (half (cadd Op (csub Op (csub Op
      (contract n G (fun k l => Tr k l j i))
      (contract n G (fun k l => Tr k j l i)))
      (contract n G (fun k l => Tr k i l j)))
      (contract n G (fun k l => Tr k i j l)))).
(* ( + '..kl,klji' - '..kl,lkji' - '..kl,klij' + '..kl,lkij') / 2, subtracted *)
Definition K2_entry (n : nat) (Tr : nat -> nat -> nat -> nat -> Cc) (D : RM) (i j : nat) : Cc :=
  half (cadd Op (csub Op (csub Op
      (contract n D (fun k l => Tr k l j i))
      (contract n D (fun k l => Tr l k j i)))
      (contract n D (fun k l => Tr k l i j)))
      (contract n D (fun k l => Tr l k i j))).
Definition cumulant_general_fn (n : nat) (Tr : nat -> nat -> nat -> nat -> Cc) (second : bool) (G D : RM) (i j : nat) : T :=
  cre (if second then csub Op (K1_entry n Tr G i j) (K2_entry n Tr D i j) else K1_entry n Tr G i j).
Definition cumulant_general (n : nat) (Tr : Arr4) (second : bool) (G D : RM) : RM :=
  rmbuild n n (cumulant_general_fn n (a4get Tr) second G D).

(* ---------- d = 2 shortcut ---------- *)
(* deque((False, True, True)).rotate(): right rotation by one *)
Definition rot_right {A} (l : list A) : list A :=
  match rev l with [] => [] | x :: r => x :: rev r end.
Fixpoint iter_rot {A} (m : nat) (l : list A) : list A :=
  match m with O => l | S k => iter_rot k (rot_right l) end.
(* diag_idx in iteration i (i = 1 .. N-1): [False] + list(deque after i-1 rotations) *)
Definition diag_idx (i : nat) : list bool :=
  match i with O => [false; false; true; true] | S m => false :: iter_rot m [false; true; true] end.
(* decay_amplitudes[..., diag_idx, diag_idx].sum(axis=-1) *)
Definition masked_diag_sum (n : nat) (mask : list bool) (G : RM) : T :=
  sumn Op n (fun m => if nth m mask false then rmget G m m else o0 Op).
(* N = n:  K[1:,1:] off-diagonal = Gamma^T (decay_amplitudes.swapaxes(-1, -2), fix 72be0f3) ;
   K_ii = - masked diagonal sum ;
   second order: K[1:,1:] -= Delta[1:,1:] ; K[1:,1:] += Delta[1:,1:]^T *)
Definition cumulant_shortcut_fn (n : nat) (second : bool) (G D : RM) (i j : nat) : T :=
  if (Nat.eqb i 0 || Nat.eqb j 0) then o0 Op else
  let first := if Nat.eqb i j then oneg Op (masked_diag_sum n (diag_idx i) G) else rmget G j i in
  if second then oadd Op (osub Op first (rmget D i j)) (rmget D j i) else first.
Definition cumulant_shortcut (n : nat) (second : bool) (G D : RM) : RM :=
  rmbuild n n (cumulant_shortcut_fn n second G D).

(* ---------- numeric.calculate_cumulant_function for every leading index ---------- *)
Definition cumulant_function (shortcut : bool) (n : nat) (basis : list Matc) (second : bool)
           (Gs Ds : list RM) : list RM :=
  if shortcut then map (fun GD => cumulant_shortcut n second (fst GD) (snd GD)) (combine Gs Ds)
  else let Tr := four_traces_arr (pair_products Op d basis) n in
       map (fun GD => cumulant_general n Tr second (fst GD) (snd GD)) (combine Gs Ds).

(* ---------- numeric.error_transfer_matrix ---------- *)
(* cumulant_function.sum(axis = all leading axes) *)
Definition rm_add (n : nat) (A Bq : RM) : RM := rmbuild n n (fun i j => oadd Op (rmget A i j) (rmget Bq i j)).
Definition rm_zero (n : nat) : RM := rmbuild n n (fun _ _ => o0 Op).
Definition cumulant_sum (n : nat) (Ks : list RM) : RM := fold_left (rm_add n) Ks (rm_zero n).
(* scipy.linalg.expm is an oracle; the check validates its output against the Taylor polynomial
   sum_{m<=M} K^m/m!  (Horner form), evaluated on intervals *)
Definition rm_mul (n : nat) (A Bq : RM) : RM :=
  rmbuild n n (fun i j => sumn Op n (fun k => omul Op (rmget A i k) (rmget Bq k j))).
Definition rm_id (n : nat) : RM := rmbuild n n (fun i j => if Nat.eqb i j then o1 Op else o0 Op).
Definition rm_scale (n : nat) (c : T) (A : RM) : RM := rmbuild n n (fun i j => omul Op c (rmget A i j)).
(* Horner: E_M = 1 ; E_{m-1} = 1 + K E_m / m *)
Fixpoint exp_horner (n : nat) (K : RM) (m : nat) (acc : RM) : RM :=
  match m with
  | O => acc
  | S m' => exp_horner n K m' (rm_add n (rm_id n) (rm_scale n (odiv Op (o1 Op) (dnat Op (S m'))) (rm_mul n K acc)))
  end.
Definition exp_taylor (n : nat) (K : RM) (M : nat) : RM := exp_horner n K M (rm_id n).

(* ---------- superoperator.liouville_to_choi : '...ij,jba,icd->...acbd' reshaped to (d^2, d^2) ---------- *)
(* row index a*d + c, column index b*d + d' *)
Definition choi_entry (n : nat) (S : RM) (basis : list Matc) (a c b dd : nat) : Cc :=
  csumn Op n (fun i => csumn Op n (fun j =>
    cscal Op (rmget S i j) (cmul Op (mget Op (nthm basis j) b a) (mget Op (nthm basis i) c dd)))).
Definition liouville_to_choi (n : nat) (S : RM) (basis : list Matc) : Matc :=
  List.concat (build d (fun a => build d (fun c =>
    List.concat (build d (fun b => build d (fun dd => choi_entry n S basis a c b dd)))))).

(* liouville_is_cCP: Omega[::d+1] = 1/sqrt d (the entries (a,a) of the flattened index a*d + c) ;
   Q = 1 - Omega Omega^T ; Q choi Q *)
Definition omega_list : list T :=
  List.concat (build d (fun a => build d (fun c =>
    if Nat.eqb a c then odiv Op (o1 Op) (osqrt Op (dnat Op d)) else o0 Op))).
Definition omega_vec (r : nat) : T := nth r omega_list (o0 Op).
Definition Qproj : Matc :=
  mbuild (d * d) (d * d) (fun r s =>
    cofr Op (osub Op (if Nat.eqb r s then o1 Op else o0 Op) (omul Op (omega_vec r) (omega_vec s)))).
Definition projected_choi (n : nat) (S : RM) (basis : list Matc) : Matc :=
  mmul Op (d * d) Qproj (mmul Op (d * d) (liouville_to_choi n S basis) Qproj).

(* verdict of liouville_is_CP / liouville_is_cCP from the eigenvalues D (eigh oracle):
   tol = atol or basis._atol * max(1, |D|.max())  (fix ee93ac7) ;  (D >= -tol).all()
   -- as a branch-free count of violating eigenvalues *)
Definition omax (a b : T) : T := oite Op (ogt Op a b) a b.
Definition cp_default_tol (basis_atol : T) (D : list T) : T :=
  omul Op basis_atol (fold_left omax (map (oabs Op) D) (o1 Op)).
Definition cp_violations (tol : T) (D : list T) : T :=
  sumlist Op (map (fun x => oite Op (ogt Op (oneg Op tol) x) (o1 Op) (o0 Op)) D).

End Cumulant.
