(* Numeric part of concatenation (pulse_sequence.concatenate, atomic path;
   numeric.calculate_control_matrix_from_atomic for which = 'total' | 'correlations';
   numeric.calculate_pulse_correlation_filter_function; util.mdot), generic in Ops.
   A "piece" is the spectral data of one input pulse (eigh oracle) together with the noise operators and
   sensitivities of the NEW pulse restricted to the piece's window.                                      *)
From Coq Require Import ZArith List.
From FF Require Import Base.Ops Model.Numeric.
Import ListNotations.

Section Atomic.
Context {T B : Type} (Op : Ops T B).
Notation Cc := (C (T:=T)).
Notation Matc := (Mat (T:=T)).
Variable d : nat.

(* PulseSequence.get_total_phases: util.cexp(omega * tau) *)
Definition total_phases (om : list T) (tau : T) : list Cc := map (fun w => cexp Op (omul Op w tau)) om.
Fixpoint zipmul (a b : list Cc) : list Cc :=
  match a, b with x :: a', y :: b' => cmul Op x y :: zipmul a' b' | _, _ => [] end.
(* np.array([ones] + [pls.get_total_phases(omega) for pls in pulses[:-1]]).cumprod(axis=0):
   entry g is the product of the total phases of the pulses before g                        *)
Fixpoint phases_from (acc : list Cc) (om : list T) (taus : list T) : list (list Cc) :=
  match taus with [] => [] | tau :: r => acc :: phases_from (zipmul acc (total_phases om tau)) om r end.
Definition atomic_phases (om : list T) (taus : list T) : list (list Cc) :=
  phases_from (map (fun _ => c1 Op) om) om taus.

(* real N x N matrices: L[0] = identity, L[i] = pulses[i-1].total_propagator_liouville @ L[i-1] *)
Definition rmatmul (n : nat) (A Bm : list (list T)) : list (list T) :=
  build n (fun i => build n (fun j => sumn Op n (fun k => omul Op (rget Op A i k) (rget Op Bm k j)))).
Definition rident (n : nat) : list (list T) :=
  build n (fun i => build n (fun j => if Nat.eqb i j then o1 Op else o0 Op)).
Fixpoint Ls_from (n : nat) (acc : list (list T)) (Lps : list (list (list T))) : list (list (list T)) :=
  match Lps with [] => [] | Lp :: r => acc :: Ls_from n (rmatmul n Lp acc) r end.
Definition atomic_Ls (n : nat) (Lps : list (list (list T))) : list (list (list T)) := Ls_from n (rident n) Lps.

(* numeric.calculate_control_matrix_from_atomic, which = 'correlations': one array per pulse ('ijo,jk->iko') *)
Definition cm_from_atomic_pc (na nk no : nat) (phases : list (list Cc)) (cms : list (Arr3 (T:=T)))
           (Ls : list (list (list T))) : list (Arr3 (T:=T)) :=
  build (length cms) (fun g =>
    a3build na nk no (fun a k o =>
      let ph := nth o (nth g phases []) (c0 Op) in
      let Bg := nth g cms [] in let Lg := nth g Ls [] in
      cmul Op ph (csumn Op nk (fun j => cscal Op (rget Op Lg j k) (a3get Op Bg a j o))))).
(* control_matrix_pc.sum(axis=0) (PulseSequence.get_control_matrix / cache_filter_function) *)
Definition cm_pc_total (na nk no : nat) (Bpc : list (Arr3 (T:=T))) : Arr3 (T:=T) :=
  a3build na nk no (fun a k o => csumn Op (length Bpc) (fun g => a3get Op (nth g Bpc []) a k o)).

(* numeric.calculate_pulse_correlation_filter_function: 'gako,hbko->ghabo' and 'gako,hblo->ghabklo'
   on (conj B, B); result indexed [g][h] -> array [a][b][o] resp. [a][b] -> array [k][l][o]        *)
Definition pc_ff_entry (nk : nat) (Bpc : list (Arr3 (T:=T))) (g h a b o : nat) : Cc :=
  csumn Op nk (fun k => cmul Op (cconj Op (a3get Op (nth g Bpc []) a k o)) (a3get Op (nth h Bpc []) b k o)).
Definition pc_filter_function (na nk no : nat) (Bpc : list (Arr3 (T:=T))) : list (list (Arr3 (T:=T))) :=
  let n := length Bpc in
  build n (fun g => build n (fun h => a3build na na no (fun a b o => pc_ff_entry nk Bpc g h a b o))).
Definition pc_ff_gen_entry (Bpc : list (Arr3 (T:=T))) (g h a b k l o : nat) : Cc :=
  cmul Op (cconj Op (a3get Op (nth g Bpc []) a k o)) (a3get Op (nth h Bpc []) b l o).
Definition pc_filter_function_gen (na nk no : nat) (Bpc : list (Arr3 (T:=T))) : list (list (list (list (Arr3 (T:=T))))) :=
  let n := length Bpc in
  build n (fun g => build n (fun h => build na (fun a => build na (fun b =>
    a3build nk nk no (fun k l o => pc_ff_gen_entry Bpc g h a b k l o))))).
(* F_pc.sum(axis=(0, 1)) *)
Definition pc_ff_sum (na no : nat) (F : list (list (Arr3 (T:=T)))) : Arr3 (T:=T) :=
  let n := length F in
  a3build na na no (fun a b o => csumn Op n (fun g => csumn Op n (fun h => a3get Op (nth h (nth g F []) []) a b o))).
(* generalized filter function 'ako,blo->abklo' on (conj B, B) *)
Definition ff_gen_entry (Bm : Arr3 (T:=T)) (a b k l o : nat) : Cc :=
  cmul Op (cconj Op (a3get Op Bm a k o)) (a3get Op Bm b l o).

(* util.mdot([pls.total_propagator for pls in pulses][::-1]) = functools.reduce(np.matmul, reversed list) *)
Definition mdot_rev (Ps : list Matc) : Matc :=
  match rev Ps with [] => mid Op d | P :: r => fold_left (fun acc X => mmul Op d acc X) r P end.

(* one input pulse as seen by the atomic path *)
Record piece := mkPiece { pc_evs : list (list T); pc_Vs : list Matc; pc_dts : list T; pc_nc : list (list T) }.
Definition piece_props (p : piece) : list Matc := propagators Op d (pc_evs p) (pc_Vs p) (pc_dts p).
Definition piece_total (p : piece) : Matc := last (piece_props p) (mid Op d).
Definition piece_tau (p : piece) : T := last (times Op (pc_dts p)) (o0 Op).
Definition piece_cm (thr : T) (om : list T) (bs ns : list Matc) (p : piece) : Arr3 (T:=T) :=
  control_matrix_from_scratch Op d thr (pc_evs p) (pc_Vs p) (piece_props p) om bs ns (pc_nc p) (pc_dts p) (times Op (pc_dts p)).

(* the data handed to calculate_control_matrix_from_atomic by concatenate *)
Definition concat_phases (om : list T) (ps : list piece) := atomic_phases om (map piece_tau ps).
Definition concat_Ls (bs : list Matc) (ps : list piece) :=
  atomic_Ls (length bs) (map (fun p => liouville Op d (piece_total p) bs) ps).
Definition concat_atomic (thr : T) (om : list T) (bs ns : list Matc) (ps : list piece) : Arr3 (T:=T) :=
  cm_from_atomic Op (length ns) (length bs) (length om) (concat_phases om ps) (map (piece_cm thr om bs ns) ps) (concat_Ls bs ps).
Definition concat_atomic_pc (thr : T) (om : list T) (bs ns : list Matc) (ps : list piece) : list (Arr3 (T:=T)) :=
  cm_from_atomic_pc (length ns) (length bs) (length om) (concat_phases om ps) (map (piece_cm thr om bs ns) ps) (concat_Ls bs ps).

(* the sequenced pulse: spectral data played one after another, sensitivities row-wise appended *)
Fixpoint zipapp {X} (a b : list (list X)) : list (list X) :=
  match a, b with x :: a', y :: b' => (x ++ y) :: zipapp a' b' | _, _ => [] end.
Fixpoint cat_nc (na : nat) (ps : list piece) : list (list T) :=
  match ps with [] => repeat [] na | p :: r => zipapp (pc_nc p) (cat_nc na r) end.
Definition cat_piece (na : nat) (ps : list piece) : piece :=
  mkPiece (concat (map pc_evs ps)) (concat (map pc_Vs ps)) (concat (map pc_dts ps)) (cat_nc na ps).

End Atomic.
