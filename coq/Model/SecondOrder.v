(* Second-order filter function of filter_functions/numeric.py, polymorphic in Ops:
     numeric._second_order_integral                     -> nz, big, em1, frc, soi_cases_of, soi_core, soi_entry, soi_tab
                                                         (soi_core_x: the same formulas selected by exact zeros = the exact integral)
     numeric.calculate_second_order_filter_function     -> nb_mat, so_same, so_cross, so_loop,
                                                           fresh_* / cached path, second_order_ff
     numeric.calculate_frequency_shifts                 -> frequency_shifts
   The per-segment control matrix [ctrlmat_step] is [cm_step] of Model/Numeric.v (the code obtains it
   either from the cache of calculate_control_matrix_from_scratch or by calling that function on the
   one-segment slice).  Masks are the exact-zero tests [np.not_equal(., 0)] of the source.          *)
From Coq Require Import ZArith List.
From FF Require Import Base.Ops Model.Numeric.
Import ListNotations.

Section SO.
Context {T B : Type} (Op : Ops T B).
Notation Cc := (C (T:=T)).
Notation Matc := (Mat (T:=T)).
Notation A3 := (Arr3 (T:=T)).
Variable d : nat.

(* ------------------------------------------------------------------ _second_order_integral *)
(* np.not_equal(x, 0) *)
Definition nz (x : T) : B := ogt Op (oabs Op x) (o0 Op).
(* np.abs(x*dt) > 1e-8 : the dimensionless tests that select the case (since c3a36ea) *)
Definition big (thr2 x dt : T) : B := ogt Op (oabs Op (omul Op x dt)) thr2.

(* exp_buf after [util.cexp(x*dt)] and [exp_buf.real = -2*sin(x*dt/2)**2] : e^{i x dt} - 1 *)
Definition em1 (x dt : T) : Cc :=
  let s := osin Op (odiv Op (omul Op x dt) (o2 Op)) in
  (omul Op (oneg Op (o2 Op)) (omul Op s s), osin Op (omul Op x dt)).
(* frc_buf1 / frc_buf2 : (e^{i x dt} - 1)/x where x != 0, [1j*dt] elsewhere *)
Definition frc (x dt : T) : Cc := cite Op (nz x) (cdivr Op (em1 x dt) x) (o0 Op, dt).

(* one entry of int_buf given the two case masks; the three denominators are passed separately because the
   code computes them separately (dEE = Omega_ij - w, EdE = w + Omega_mn, dEdE = Omega_ij + Omega_mn)   *)
Definition soi_cases_of (mEdE mdEE : B) (dEE EdE dEdE dt : T) : Cc :=
  let frc1 := frc dEE dt in
  let frc2 := frc dEdE dt in
  (* case 1 : (frc1 - frc2)/EdE *)
  let case1 := cdivr Op (csub Op frc1 frc2) EdE in
  (* case 2 : exp_buf := (exp_buf + 1)*dt ; frc1.real += exp_buf.imag ;
     frc1.imag -= exp_buf.real ; frc1 /= dEE   (= the value at EdE = 0), then to first order in EdE:
     exp_buf := (exp_buf*dt - 2*frc1)/(2*dEE) ; value = frc1 + exp_buf*EdE                       (a13e2c1) *)
  let e := cadd Op (em1 dEE dt) (c1 Op) in
  let ex := (omul Op (fst e) dt, omul Op (snd e) dt) in
  let i0 := cdivr Op (oadd Op (fst frc1) (snd ex), osub Op (snd frc1) (fst ex)) dEE in
  let two := o2 Op in
  let slope := cdivr Op (csub Op (omul Op (fst ex) dt, omul Op (snd ex) dt) (cscal Op two i0)) (omul Op two dEE) in
  let case2 := cadd Op i0 (omul Op (fst slope) EdE, omul Op (snd slope) EdE) in
  (* case 3 : dt**2/2 + 1j*dt**3*(dEE/3 + EdE/6) *)
  let three := oadd Op two (o1 Op) in
  let six := omul Op two three in
  let case3 := (odiv Op (omul Op dt dt) two,
                omul Op (omul Op (omul Op dt dt) dt) (oadd Op (odiv Op dEE three) (odiv Op EdE six))) in
  cite Op mEdE case1 (cite Op mdEE case2 case3).

(* the code: case 1 where |EdE dt| > thr2 ; case 2 (first order in EdE) where |EdE dt| <= thr2 < |dEE dt| ;
   case 3 (first order in both) otherwise *)
Definition soi_core (thr2 dEE EdE dEdE dt : T) : Cc :=
  soi_cases_of (big thr2 EdE dt) (big thr2 dEE dt) dEE EdE dEdE dt.
(* mathematical reference (selection by exact zeros, as in the code before c3a36ea; the first-order terms then
   vanish): the exact integral *)
Definition soi_core_x (dEE EdE dEdE dt : T) : Cc :=
  soi_cases_of (nz EdE) (nz dEE) dEE EdE dEdE dt.

(* int_buf[o,i,j,m,n] for the frequency w = E[o] and eigenvalues ev of the segment:
     dE = subtract.outer(ev, ev); dEdE = add.outer(dE, dE); EdE = add.outer(E, dE);
     dEE = subtract.outer(-E, -dE)                                                           *)
Definition soi_entry (thr2 w evi evj evm evn dt : T) : Cc :=
  let dEij := osub Op evi evj in
  let dEmn := osub Op evm evn in
  soi_core thr2 (osub Op (oneg Op w) (oneg Op dEij)) (oadd Op w dEmn) (oadd Op dEij dEmn) dt.

(* table [i][j] -> matrix (m,n) *)
Definition Tab4 : Type := list (list Matc).
Definition t4get (t : Tab4) (i j m n : nat) : Cc := mget Op (nth j (nth i t []) []) m n.
Definition soi_tab (thr2 w : T) (ev : list T) (dt : T) : Tab4 :=
  build d (fun i => build d (fun j => mbuild d d (fun m n =>
    soi_entry thr2 w (vg Op ev i) (vg Op ev j) (vg Op ev m) (vg Op ev n) dt))).

(* ------------------------------------------------------------------ rank-5 arrays [a][b][k][l][o] *)
Definition Arr5 : Type := list (list (list (list (list Cc)))).
Definition a5get (A : Arr5) (a b k l o : nat) : Cc :=
  nth o (nth l (nth k (nth b (nth a A []) []) []) []) (c0 Op).
Definition a5build (n1 n2 n3 n4 n5 : nat) (f : nat -> nat -> nat -> nat -> nat -> Cc) : Arr5 :=
  build n1 (fun a => build n2 (fun b => build n3 (fun k => build n4 (fun l => build n5 (fun o => f a b k l o))))).
Definition a5add (n1 n2 n3 n4 n5 : nat) (A Bq : Arr5) : Arr5 :=
  a5build n1 n2 n3 n4 n5 (fun a b k l o => cadd Op (a5get A a b k l o) (a5get Bq a b k l o)).
Definition a5zero (n1 n2 n3 n4 n5 : nat) : Arr5 := a5build n1 n2 n3 n4 n5 (fun _ _ _ _ _ => c0 Op).

(* ------------------------------------------------------------------ one segment *)
(* numeric._transform_hamiltonian, one segment: s_a^g V^dagger N_a V *)
Definition mscalr (s : T) (A : Matc) : Matc := mbuild d d (fun i j => cscal Op s (mget Op A i j)).
Definition so_NT (V : Matc) (nopers : list Matc) (ncoef_g : list T) : list Matc :=
  map (fun x => mscalr (snd x) (transform_by_unitary Op d V (fst x))) (combine nopers ncoef_g).
(* _transform_by_unitary(eigvecs_propagated[g], basis), eigvecs_propagated[g] = Q_g^dagger V_g *)
Definition so_BT (V Q : Matc) (basis : list Matc) : list Matc :=
  let W := mmul Op d (madj Op d Q) V in
  map (fun Ck => transform_by_unitary Op d W Ck) basis.

(* n_opers_basis = einsum('akl,ilk->aikl', n_opers_transformed[:, g], basis_transformed):
   NB[a][k](i,j) = NT_a(i,j) * BT_k(j,i) *)
Definition nb_mat (NTa BTk : Matc) : Matc :=
  mbuild d d (fun i j => cmul Op (mget Op NTa i j) (mget Op BTk j i)).

(* step_expr = 'oijmn,akij,blmn->abklo' (contracted pairwise, (0,1) then (0,1), as the code asks) *)
Definition so_same (na nk no : nat) (NT BT : list Matc) (tabs : list Tab4) : Arr5 :=
  let NB := map (fun NTa => map (fun BTk => nb_mat NTa BTk) BT) NT in
  let half := map (fun tab => map (fun NBa => map (fun NBak =>
                mbuild d d (fun m n => csumn Op d (fun i => csumn Op d (fun j =>
                  cmul Op (t4get tab i j m n) (mget Op NBak i j))))) NBa) NB) tabs in
  a5build na na nk nk no (fun a b k l o =>
    let H := nth k (nth a (nth o half []) []) [] in
    let NBbl := nth l (nth b NB []) [] in
    csumn Op d (fun m => csumn Op d (fun n => cmul Op (mget Op H m n) (mget Op NBbl m n)))).

(* 'ako,blo->abklo' on (ctrlmat_step.conj(), ctrlmat_step_cumulative) *)
Definition so_cross (na nk no : nat) (step cum : A3) : Arr5 :=
  a5build na na nk nk no (fun a b k l o => cmul Op (cconj Op (a3get Op step a k o)) (a3get Op cum b l o)).

(* per segment: eigenvalues, duration, n_opers_transformed[:, g], basis_transformed, ctrlmat_step *)
Definition SegData : Type := (list T * T * list Matc * list Matc * A3)%type.

(* the loop over segments: [first] <-> g == 0 ; "rest non-empty" <-> g < len(dt) - 1 *)
Fixpoint so_loop (thr2 : T) (na nk no : nat) (omega : list T) (first : bool) (segs : list SegData)
         (cum : A3) (acc : Arr5) : Arr5 :=
  match segs with
  | [] => acc
  | (ev, dt, NT, BT, step) :: rest =>
      let tabs := map (fun w => soi_tab thr2 w ev dt) omega in
      let acc1 := a5add na na nk nk no acc (so_same na nk no NT BT tabs) in
      let acc2 := if first then acc1 else a5add na na nk nk no acc1 (so_cross na nk no step cum) in
      let cum' := match rest with [] => cum | _ => a3add Op na nk no cum step end in
      so_loop thr2 na nk no omega false rest cum' acc2
  end.

(* ------------------------------------------------------------------ the two code paths *)
(* recomputed: _transform_hamiltonian, _transform_by_unitary(eigvecs_propagated[g], basis),
   calculate_control_matrix_from_scratch on the slice g:g+1 (= cm_step) *)
Fixpoint fresh_NT (Vs : list Matc) (nopers : list Matc) (ncs : list (list T)) : list (list Matc) :=
  match Vs, ncs with
  | V :: Vs', nc :: ncs' => so_NT V nopers nc :: fresh_NT Vs' nopers ncs'
  | _, _ => []
  end.
Fixpoint fresh_BT (Vs Qs : list Matc) (basis : list Matc) : list (list Matc) :=
  match Vs, Qs with
  | V :: Vs', Q :: Qs' => so_BT V Q basis :: fresh_BT Vs' Qs' basis
  | _, _ => []
  end.
Fixpoint fresh_steps (thr : T) (evs : list (list T)) (Vs Qs : list Matc) (ts dts : list T)
         (omega : list T) (basis nopers : list Matc) (ncs : list (list T)) : list A3 :=
  match evs, Vs, Qs, ts, dts, ncs with
  | ev :: evs', V :: Vs', Q :: Qs', tg :: ts', dt :: dts', nc :: ncs' =>
      cm_step Op d thr ev V Q tg dt omega basis nopers nc ::
      fresh_steps thr evs' Vs' Qs' ts' dts' omega basis nopers ncs'
  | _, _, _, _, _, _ => []
  end.

(* what calculate_control_matrix_from_scratch(cache_intermediates=True) leaves in
   PulseSequence._intermediates: 'n_opers_transformed', ('basis_transformed', 'control_matrix_step') *)
Definition Interm : Type := (option (list (list Matc)) * option (list (list Matc) * list A3))%type.

Fixpoint zip_segs (evs : list (list T)) (dts : list T) (NTs BTs : list (list Matc)) (steps : list A3)
  : list SegData :=
  match evs, dts, NTs, BTs, steps with
  | ev :: evs', dt :: dts', NT :: NTs', BT :: BTs', st :: steps' =>
      (ev, dt, NT, BT, st) :: zip_segs evs' dts' NTs' BTs' steps'
  | _, _, _, _, _ => []
  end.

(* numeric.calculate_second_order_filter_function *)
Definition second_order_ff (thr thr2 : T) (evs : list (list T)) (Vs Qs : list Matc) (omega : list T)
           (basis nopers : list Matc) (ncoeffs : list (list T)) (dts ts : list T) (im : Interm) : Arr5 :=
  let na := length nopers in let nk := length basis in let no := length omega in
  let ncs := transpose_coeffs Op (length dts) ncoeffs in
  let NTs := match fst im with Some x => x | None => fresh_NT Vs nopers ncs end in
  let rest := match snd im with
              | Some x => x
              | None => (fresh_BT Vs Qs basis, fresh_steps thr evs Vs Qs ts dts omega basis nopers ncs)
              end in
  so_loop thr2 na nk no omega true (zip_segs evs dts NTs (fst rest) (snd rest))
          (a3zero Op na nk no) (a5zero na na nk nk no).

(* PulseSequence.get_filter_function(omega, order=2) on a fresh pulse: propagators and times from
   numeric.diagonalize / PulseSequence.t, no intermediates *)
Definition second_order_from_eig (thr thr2 : T) (evs : list (list T)) (Vs : list Matc) (omega : list T)
           (basis nopers : list Matc) (ncoeffs : list (list T)) (dts : list T) : Arr5 :=
  second_order_ff thr thr2 evs Vs (propagators Op d evs Vs dts) omega basis nopers ncoeffs dts (times Op dts) (None, None).

(* the intermediates cached by calculate_control_matrix_from_scratch(cache_intermediates=True) *)
Definition cached_intermediates (thr : T) (evs : list (list T)) (Vs Qs : list Matc) (omega : list T)
           (basis nopers : list Matc) (ncoeffs : list (list T)) (dts ts : list T) : Interm :=
  let ncs := transpose_coeffs Op (length dts) ncoeffs in
  (Some (fresh_NT Vs nopers ncs),
   Some (fresh_BT Vs Qs basis, fresh_steps thr evs Vs Qs ts dts omega basis nopers ncs)).

(* numeric.calculate_frequency_shifts with a real spectrum S[a][o] (one per noise operator):
   integrand = Re(F2[a,a,k,l,:]) * S[a,:] ; integrate(.., omega) / (2 pi) ; result [a][k][l]     *)
Definition frequency_shifts (na nk : nat) (F2 : Arr5) (S : list (list T)) (omega : list T) : list (list (list T)) :=
  build na (fun a => build nk (fun k => build nk (fun l =>
    odiv Op (trapz Op (map (fun o => omul Op (fst (a5get F2 a a k l o)) (vg Op (nthv S a) o))
                           (seq 0 (length omega))) omega)
         (omul Op (o2 Op) (opi Op))))).

End SO.
