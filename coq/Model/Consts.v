(* Constants of the model taken from the regenerated Extracted/Src.v (so the model follows the
   source), each with the shape the model expects; Model/Tie/*.v re-checks the expected literals. *)
From Coq Require Import ZArith String List.
From FF Require Import Extracted.Src.
Import ListNotations.

(* threshold of the small-denominator test of numeric._first_order_integral (binary64 value of the literal) *)
Definition foi_thr : Z * Z := snd (hd (""%string, (0, 0)%Z) thr_numeric__first_order_integral).
