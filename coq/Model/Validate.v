(* C20: which inputs are rejected, with which exception class.
   Decision functions over input DESCRIPTORS (kinds, shapes, lengths, identifier lists, tags that say which
   arrays are equal), one per entry point, written from the documented domain (docstrings of /repo) in
   the order of the code's checks.  [Ok tt] = accepted.                                                 *)
From Coq Require Import ZArith List Bool String PeanoNat.
From FF Require Import Model.B64 Model.Pulse.
Import ListNotations.
Local Open Scope nat_scope.
Local Notation length := List.length (only parsing).

Definition verdict := result unit.
Definition ok : verdict := Ok tt.
Definition bind (v : verdict) (k : verdict) : verdict := match v with Ok _ => k | Raise e => Raise e end.
Notation "v ;; k" := (bind v k) (at level 61, right associativity).
Definition check (b : bool) (e : exn) : verdict := if b then ok else Raise e.

Fixpoint all_eqb {A} (eqb : A -> A -> bool) (l : list A) : bool :=
  match l with
  | a :: ((b :: _) as r) => eqb a b && all_eqb eqb r
  | _ => true
  end.
Definition shape_eqb (s t : list nat) : bool := (length s =? length t) && all2 Nat.eqb s t.
Definition is_none {A} (o : option A) : bool := match o with None => true | Some _ => false end.
Definition mem (s : string) (l : list string) : bool := existsb (String.eqb s) l.

(* ------------------------------------------------------------------------------------------- *)
(* PulseSequence(H_c, H_n, dt, basis)                                                           *)
Inductive dtv := DPos | DZero | DNeg | DComplex | DNonFinite (* nan, inf *).
Record dt_d := { dt_haslen : bool; dt_vals : list dtv }.
Inductive okind := OArray | OConvertible (* Qobj, sparse, ... *) | OBad.
Record oper_d := { o_kind : okind; o_shape : list nat }.
Record entry_d := { e_islist : bool; e_oper : oper_d; e_coeff : option nat (* len(coeffs); None: no __len__ or missing *);
                    e_id : hid }.
Inductive H_d := HNotList | HList (es : list entry_d).
Inductive basis_d := BDefault | BNotBasis | BBasis (shape : list nat).
Record ctor_d := { k_dt : dt_d; k_Hc : H_d; k_Hn : H_d; k_basis : basis_d }.

Definition dtv_real (v : dtv) : bool := match v with DComplex => false | _ => true end.
Definition dtv_nonneg (v : dtv) : bool := match v with DNeg | DNonFinite => false | _ => true end.   (* (dt < 0).any() or not isfinite(dt).all() *)
Definition okind_ok (k : okind) : bool := match k with OBad => false | _ => true end.
Definition square (s : list nat) : bool := match s with [r; c] => r =? c | _ => false end.
Definition entry_ids (noise : bool) (es : list entry_d) : list string :=
  fill_ids noise (map (fun e => (([] : mat), ([] : list num), e_id e)) es).
Definition ids_explicit (es : list entry_d) : bool :=
  negb (forallb (fun e => match e_id e with IdAbsent => true | _ => false end) es).

(* util.parse_operators on the operators of H: the common operator shape *)
Definition validate_opers (os : list oper_d) : result (list nat) :=
  if negb (forallb (fun o => okind_ok (o_kind o)) os) then Raise TypeError else
  if negb (all_eqb shape_eqb (map o_shape os)) then Raise ValueError else     (* np.asarray of ragged shapes *)
  let sh := o_shape (hd (Build_oper_d OArray []) os) in
  if 2 <? length sh then Raise ValueError else                                  (* not two-dimensional *)
  if negb (square sh) then Raise ValueError else Ok sh.

(* _parse_Hamiltonian: operator shape on success *)
Definition validate_H (noise : bool) (n_dt : nat) (H : H_d) : result (list nat) :=
  match H with
  | HNotList => Raise TypeError
  | HList es =>
      if negb (forallb e_islist es) then Raise TypeError else
      match es with
      | [] => Raise ValueError                                                   (* nothing to unpack *)
      | _ =>
          match validate_opers (map e_oper es) with
          | Raise e => Raise e
          | Ok sh =>
              if negb (forallb (fun e => negb (is_none (e_coeff e))) es) then Raise TypeError else
              if ids_explicit es && negb (uniqueb (entry_ids noise es)) then Raise ValueError else
              if negb (forallb (fun e => match e_coeff e with Some n => n =? n_dt | None => false end) es)
              then Raise ValueError else Ok sh
          end
      end
  end.

(* the part of _parse_args after the tests on dt *)
Definition validate_ctor_rest (k : ctor_d) : verdict :=
  match validate_H false (length (dt_vals (k_dt k))) (k_Hc k) with
  | Raise e => Raise e
  | Ok shc =>
      match validate_H true (length (dt_vals (k_dt k))) (k_Hn k) with
      | Raise e => Raise e
      | Ok shn =>
          check (shape_eqb shc shn) ValueError ;;
          match k_basis k with
          | BDefault => ok
          | BNotBasis => Raise ValueError
          | BBasis s => check (shape_eqb (tl s) shc) ValueError
          end
      end
  end.
Definition validate_ctor (k : ctor_d) : verdict :=
  check (dt_haslen (k_dt k)) TypeError ;;
  check (negb (length (dt_vals (k_dt k)) =? 0)) ValueError ;;                 (* at least one time step *)
  check (forallb dtv_real (dt_vals (k_dt k))) ValueError ;;
  check (forallb dtv_nonneg (dt_vals (k_dt k))) ValueError ;;
  validate_ctor_rest k.

(* ------------------------------------------------------------------------------------------- *)
(* pulses as seen by the composition functions: tags identify equal arrays (operators by content,
   bases, time grids, cached frequencies)                                                       *)
Record cterm_d := { c_op : nat; c_id : string }.
Record nterm_d := { n_op : nat; n_id : string; n_sens : option Z (* constant sensitivity / not constant *) }.
Record pulse_d := {
  p_ispulse : bool; p_d : nat; p_basis : nat; p_c : list cterm_d; p_n : list nterm_d;
  p_dt : nat; p_omega : option nat; p_cm : bool (* control matrix cached *); p_pc : bool (* pulse correlation quantities *) }.
Inductive pulses_d := PsNotIterable | PsList (l : list pulse_d).

Definition optZ_eqb (a b : option Z) : bool :=
  match a, b with Some x, Some y => Z.eqb x y | None, None => true | _, _ => false end.

(* one operator under two identifiers, anywhere in the list *)
Definition op_two_ids (terms : list (nat * string)) : bool :=
  existsb (fun t => existsb (fun u => (fst t =? fst u) && negb (String.eqb (snd t) (snd u))) terms) terms.
(* noise operator that some pulse lacks: its sensitivities in the pulses that have it must be one constant *)
Definition sens_of (op : nat) (p : pulse_d) : list (option Z) :=
  map n_sens (filter (fun t => n_op t =? op) (p_n p)).
Definition has_op (op : nat) (p : pulse_d) : bool := existsb (fun t => n_op t =? op) (p_n p).
Definition sens_inferable (l : list pulse_d) (op : nat) : bool :=
  if forallb (has_op op) l then true
  else let vs := flat_map (sens_of op) l in
       forallb (fun v => negb (is_none v)) vs && all_eqb optZ_eqb vs.

(* identifiers of the concatenated pulse: one per distinct operator (first occurrence); an identifier that
   names several operators gets the suffix _<index of the first pulse holding the operator> *)
Definition indexed_terms (noise : bool) (l : list pulse_d) : list (nat * (nat * string)) :=
  flat_map (fun ip => map (fun t => (fst ip, t))
                          (if noise then map (fun t => (n_op t, n_id t)) (p_n (snd ip)) else map (fun t => (c_op t, c_id t)) (p_c (snd ip))))
           (combine (seq 0 (length l)) l).
Fixpoint first_occurrences (seen : list nat) (ts : list (nat * (nat * string))) : list (nat * (nat * string)) :=
  match ts with
  | [] => []
  | t :: r => if existsb (Nat.eqb (fst (snd t))) seen then first_occurrences seen r
              else t :: first_occurrences (fst (snd t) :: seen) r
  end.
Definition concat_ids (noise : bool) (l : list pulse_d) : list string :=
  let uniq := first_occurrences [] (indexed_terms noise l) in
  map (fun t => if 1 <? length (filter (fun u => String.eqb (snd (snd u)) (snd (snd t))) uniq)
                then String.append (snd (snd t)) (String.append "_" (dec (fst t))) else snd (snd t)) uniq.

Definition validate_concat_wo (ps : pulses_d) : verdict :=
  match ps with
  | PsNotIterable => Raise TypeError
  | PsList l =>
      check (forallb p_ispulse l) TypeError ;;
      check (negb (length l =? 0) && all_eqb Nat.eqb (map p_d l)) ValueError ;;
      check (all_eqb Nat.eqb (map p_basis l)) ValueError ;;
      check (negb (op_two_ids (flat_map (fun p => map (fun t => (c_op t, c_id t)) (p_c p)) l))) ValueError ;;
      check (uniqueb (concat_ids false l)) ValueError ;;                        (* suffixed identifier already in use *)
      check (negb (op_two_ids (flat_map (fun p => map (fun t => (n_op t, n_id t)) (p_n p)) l))) ValueError ;;
      check (uniqueb (concat_ids true l)) ValueError ;;
      check (forallb (sens_inferable l) (flat_map (fun p => map n_op (p_n p)) l)) ValueError
  end.

Record concat_d := { cc_pulses : pulses_d; cc_which : string; cc_calc_ff : option bool; cc_calc_pc : bool;
                     cc_omega_given : bool }.
Definition optnat_tags (l : list (option nat)) : list nat := flat_map (fun o => match o with Some x => [x] | None => [] end) l.
(* util.all_array_equal: exactly one distinct array (False for none) *)
Definition all_equal_nonempty (l : list nat) : bool := negb (length l =? 0) && all_eqb Nat.eqb l.
Definition equal_omega (l : list pulse_d) : bool :=
  if existsb p_cm l then all_equal_nonempty (optnat_tags (map p_omega (filter p_cm l)))
  else all_equal_nonempty (optnat_tags (map p_omega l)).
Definition validate_concat (c : concat_d) : verdict :=
  check (mem (cc_which c) ["fidelity"; "generalized"]%string) ValueError ;;
  match cc_pulses c with
  | PsNotIterable => Raise TypeError
  | PsList l =>
      (* a single pulse is returned as a copy *)
      if (length l =? 1) then check (forallb p_ispulse l) TypeError else
      validate_concat_wo (PsList l) ;;
      if (match cc_calc_ff c with Some false => true | _ => false end) && negb (cc_calc_pc c) then ok else
      if cc_omega_given c then ok else
      if equal_omega l then ok else
      if (match cc_calc_ff c with Some true => true | _ => false end) then Raise ValueError else
      if cc_calc_pc c then Raise ValueError else ok
  end.

Definition validate_concat_periodic (p : pulse_d) (repeats : Z) : verdict :=
  check (p_ispulse p) TypeError ;; check (1 <=? repeats)%Z ValueError.

(* ------------------------------------------------------------------------------------------- *)
(* remap / extend                                                                               *)
Fixpoint lookup (m : list (string * string)) (s : string) : option string :=
  match m with [] => None | (k, v) :: r => if String.eqb k s then Some v else lookup r s end.
Definition map_ids (m : option (list (string * string))) (ids : list string) : result (list string) :=
  match m with
  | None => Ok ids
  | Some tbl => if forallb (fun s => negb (is_none (lookup tbl s))) ids
                then Ok (map (fun s => match lookup tbl s with Some v => v | None => s end) ids)
                else Raise ValueError                                          (* unknown identifier *)
  end.
Definition is_perm_of_range (order : list Z) (N : nat) : bool :=
  (length order =? N) && forallb (fun i => existsb (Z.eqb (Z.of_nat i)) order) (seq 0 N).

Record remap_d := { r_pulse : pulse_d; r_order : list Z; r_order_ints : bool; r_dpq : nat; r_N : nat (* qubits: d = dpq^N *);
                    r_mapping : option (list (string * string)) }.
Definition validate_remap (r : remap_d) : verdict :=
  check (p_d (r_pulse r) =? r_dpq r ^ r_N r) ValueError ;;
  check (r_order_ints r) TypeError ;;
  check (is_perm_of_range (r_order r) (r_N r)) ValueError ;;
  match map_ids (r_mapping r) (map c_id (p_c (r_pulse r))) with
  | Raise e => Raise e
  | Ok cids => match map_ids (r_mapping r) (map n_id (p_n (r_pulse r))) with
               | Raise e => Raise e
               | Ok nids => check (uniqueb cids && uniqueb nids) ValueError
               end
  end.

Inductive qubits_d := QInt (q : nat) | QTuple (qs : list nat) | QNonInt (* e.g. 0.5 *).
Record ext_entry := { x_pulse : pulse_d; x_qubits : qubits_d; x_mapping : option (list (string * string)) }.
Record extend_d := { x_entries : list ext_entry; x_ndt : nat; x_N : option nat; x_dpq : nat; x_add : option H_d;
                     x_cache_diag : option bool; x_cache_ff : option bool; x_omega_given : bool }.
Definition qubit_list (q : qubits_d) : list nat := match q with QInt i => [i] | QTuple l => l | QNonInt => [] end.
Definition qubit_is_int (q : qubits_d) : bool := match q with QNonInt => false | _ => true end.
Definition is_single (q : qubits_d) : bool := match q with QInt _ | QNonInt => true | QTuple l => length l =? 1 end.
Fixpoint sortedb (l : list nat) : bool := match l with a :: ((b :: _) as r) => (a <? b) && sortedb r | _ => true end.
Fixpoint nat_uniqueb (l : list nat) : bool := match l with [] => true | x :: r => negb (existsb (Nat.eqb x) r) && nat_uniqueb r end.
Fixpoint ins_nat (x : nat) (l : list nat) : list nat :=
  match l with [] => [x] | y :: r => if x <=? y then x :: l else y :: ins_nat x r end.
Definition sort_nat (l : list nat) : list nat := fold_right ins_nat [] l.
(* multi-qubit pulses are brought to sorted qubit order before their identifiers get the default suffix *)
Definition suffix (q : qubits_d) : string :=
  match q with QInt i => dec i | QNonInt => EmptyString | QTuple l => String.concat "" (map dec (if length l =? 1 then l else sort_nat l)) end.
Definition default_map (q : qubits_d) (ids : list string) : list string :=
  map (fun s => String.append s (String.append "_" (suffix q))) ids.
Definition ext_ids (noise : bool) (e : ext_entry) : result (list string) :=
  let ids := if noise then map n_id (p_n (x_pulse e)) else map c_id (p_c (x_pulse e)) in
  match x_mapping e with None => Ok (default_map (x_qubits e) ids) | Some m => map_ids (Some m) ids end.
Fixpoint collect (l : list (result (list string))) : result (list string) :=
  match l with
  | [] => Ok []
  | Raise e :: _ => Raise e
  | Ok a :: r => match collect r with Ok b => Ok (a ++ b) | Raise e => Raise e end
  end.

Definition extend_shortcut (x : extend_d) (N : nat) : bool :=
  is_none (x_add x) &&
  match x_entries x with
  | [e] => is_none (x_mapping e) && (N =? length (qubit_list (x_qubits e)))
  | _ => false
  end.
Definition validate_extend (x : extend_d) : verdict :=
  let es := x_entries x in
  check (negb (length es =? 0)) ValueError ;;
  check (forallb (fun e => p_ispulse (x_pulse e)) es) TypeError ;;
  check (forallb (fun e => qubit_is_int (x_qubits e)) es) TypeError ;;           (* qubit indices are integers *)
  (* an unsorted multi-qubit mapping is remapped first: dimensions must match *)
  check (forallb (fun e => is_single (x_qubits e) || sortedb (qubit_list (x_qubits e)) ||
                           (p_d (x_pulse e) =? x_dpq x ^ length (qubit_list (x_qubits e)))) es) ValueError ;;
  check (forallb (fun e => negb (is_single (x_qubits e)) || (p_d (x_pulse e) =? x_dpq x)) es) ValueError ;;
  check (forallb (fun e => is_single (x_qubits e) || (p_d (x_pulse e) =? x_dpq x ^ length (qubit_list (x_qubits e)))) es) ValueError ;;
  check (all_eqb Nat.eqb (map (fun e => p_dt (x_pulse e)) es)) ValueError ;;
  let active := flat_map (fun e => qubit_list (x_qubits e)) es in
  check (nat_uniqueb active) ValueError ;;
  let last := fold_right Nat.max 0 active in
  check (match x_N x with None => true | Some n => last + 1 <=? n end) ValueError ;;
  let N := match x_N x with None => last + 1 | Some n => n end in
  (* a single pulse mapped to its own qubits (nothing to add, nothing to rename) is returned as it is *)
  if extend_shortcut x N then ok else
  check (match x_cache_ff x with
         | Some true => x_omega_given x || all_equal_nonempty (optnat_tags (map (fun e => p_omega (x_pulse e)) es))
                        && forallb (fun e => negb (is_none (p_omega (x_pulse e)))) es
         | _ => true end) ValueError ;;
  check (negb ((match x_cache_diag x with Some false => true | _ => false end) && negb (is_none (x_add x)))) ValueError ;;
  match collect (map (ext_ids false) es), collect (map (ext_ids true) es) with
  | Raise e, _ => Raise e
  | _, Raise e => Raise e
  | Ok cids, Ok nids =>
      match x_add x with
      | None => check (uniqueb cids && uniqueb nids) ValueError
      | Some H =>
          match validate_H true (x_ndt x) H with
          | Raise e => Raise e
          | Ok sh =>
              check (shape_eqb sh [x_dpq x ^ N; x_dpq x ^ N]) ValueError ;;
              let add := match H with HList l => entry_ids true l | HNotList => [] end in
              check (negb (existsb (fun s => mem s nids) add)) ValueError ;;
              check (uniqueb cids && uniqueb (nids ++ add)) ValueError
          end
      end
  end.

(* ------------------------------------------------------------------------------------------- *)
(* spectra, identifiers, options, analysis functions                                            *)
Inductive akind := ANdarray | AListLike (* list / tuple: array_like *) | ACallable | ANotArray.
Record spectrum_d := { s_kind : akind; s_shape : list nat; s_herm : bool }.

Definition broadcastable (shape target : list nat) : bool :=
  (length shape <=? length target) &&
  all2 (fun a b => (a =? b) || (a =? 1)) (rev shape) (rev target).
(* util.parse_spectrum(spectrum, omega, idx) *)
Definition validate_spectrum (s : spectrum_d) (n_idx n_omega : nat) : verdict :=
  let nd := length (s_shape s) in
  check (broadcastable (s_shape s) (repeat n_idx (pred nd) ++ [n_omega])) ValueError ;;
  check (negb ((nd =? 3) && negb (s_herm s))) ValueError ;;
  check (nd <=? 3) ValueError.

(* util.get_indices_from_identifiers *)
Definition validate_ids (all_ids : list string) (ids : option (list string)) : verdict :=
  match ids with None => ok | Some l => check (forallb (fun s => mem s all_ids) l) ValueError end.
Definition n_selected (all_ids : list string) (ids : option (list string)) : nat :=
  match ids with None => length all_ids | Some l => length l end.
(* util.parse_optional_parameters *)
Definition validate_option (value : string) (allowed : list string) : verdict := check (mem value allowed) ValueError.

Record analysis_d := {
  a_pulse : pulse_d; a_which : string; a_ids : option (list string);
  a_spectrum : spectrum_d; a_omega_kind : akind; a_omega_len : nat; a_omega_tag : nat;
  a_smallness : bool; a_test_conv : bool; a_omega_isdict : bool; a_spacing : string }.
Definition arraylike (k : akind) : bool := match k with ANdarray | AListLike => true | _ => false end.
Definition omega_matches (p : pulse_d) (tag : nat) : bool :=
  match p_omega p with None => true | Some t => t =? tag end.

Definition validate_infidelity (a : analysis_d) : verdict :=
  validate_option (a_which a) ["total"; "correlations"]%string ;;
  validate_ids (map n_id (p_n (a_pulse a))) (a_ids a) ;;
  if a_test_conv a then
    check (match s_kind (a_spectrum a) with ACallable => true | _ => false end) TypeError ;;
    check (a_omega_isdict a) TypeError ;;
    check (mem (a_spacing a) ["linear"; "log"]%string) ValueError
  else
    check (arraylike (s_kind (a_spectrum a)) && arraylike (a_omega_kind a)) TypeError ;;
    (if String.eqb (a_which a) "total" then ok
     else check (omega_matches (a_pulse a) (a_omega_tag a)) ValueError ;; check (p_pc (a_pulse a)) CalculationError) ;;
    validate_spectrum (a_spectrum a) (n_selected (map n_id (p_n (a_pulse a))) (a_ids a)) (a_omega_len a) ;;
    check (negb (a_smallness a && (2 <? length (s_shape (a_spectrum a))))) NotImplementedError.

Definition validate_decay_amplitudes (a : analysis_d) : verdict :=
  validate_option (a_which a) ["total"; "correlations"]%string ;;
  validate_ids (map n_id (p_n (a_pulse a))) (a_ids a) ;;
  check (arraylike (s_kind (a_spectrum a)) && arraylike (a_omega_kind a)) TypeError ;;
  (if String.eqb (a_which a) "total" then ok
   else check (omega_matches (a_pulse a) (a_omega_tag a)) ValueError ;; check (p_pc (a_pulse a)) CalculationError) ;;
  validate_spectrum (a_spectrum a) (n_selected (map n_id (p_n (a_pulse a))) (a_ids a)) (a_omega_len a).

Record cumulant_d := { q_a : analysis_d; q_have_spectrum : bool; q_have_omega : bool; q_second_order : bool;
                       q_decay_given : bool; q_shifts_given : bool; q_shifts_shape_ok : bool }.
Definition validate_cumulant (q : cumulant_d) : verdict :=
  validate_option (a_which (q_a q)) ["total"; "correlations"]%string ;;
  check (negb (negb (q_have_spectrum q) && negb (q_have_omega q) &&
               (negb (q_decay_given q) || (negb (q_shifts_given q) && q_second_order q)))) ValueError ;;
  check (negb (String.eqb (a_which (q_a q)) "correlations" && q_second_order q)) ValueError ;;
  (if q_decay_given q then ok else validate_decay_amplitudes (q_a q)) ;;
  check (negb (q_second_order q && q_shifts_given q && negb (q_shifts_shape_ok q))) ValueError.

Inductive cumfun_d := KNone | KNotArray | KArray (shape : list nat).
Record etm_d := { t_cum : cumfun_d; t_have_pulse : bool; t_q : cumulant_d }.
Definition validate_etm (t : etm_d) : verdict :=
  match t_cum t with
  | KNone => check (t_have_pulse t && q_have_spectrum (t_q t) && q_have_omega (t_q t)) ValueError ;; validate_cumulant (t_q t)
  | KNotArray => Raise TypeError
  | KArray s => check ((2 <=? length s) && square (firstn 2 (rev s))) ValueError
  end.

(* getters of pulse-correlation quantities *)
Definition validate_get_pc_control_matrix (p : pulse_d) : verdict := check (p_pc p) CalculationError.
Definition validate_get_pc_filter_function (p : pulse_d) (which : string) : verdict :=
  validate_option which ["fidelity"; "generalized"]%string ;; check (p_pc p) CalculationError.

(* ------------------------------------------------------------------------------------------- *)
(* Basis(...), Basis.from_partial(...), dims arguments of the tensor helpers                     *)
Inductive basis_arg := GNoGetitem | GBasis (shape : list nat) | GOpers (os : list oper_d).
Record basis_new_d := { g_arg : basis_arg; g_labels : option nat }.
Definition validate_basis_new (g : basis_new_d) : verdict :=
  match g_arg g with
  | GNoGetitem => Raise TypeError
  | GBasis s => check (match g_labels g with None => true | Some n => n =? hd 0 s end) ValueError
  | GOpers os =>
      match validate_opers os with
      | Raise e => Raise e
      | Ok sh => check (length os <=? fold_right Nat.mul 1 sh) ValueError ;;
                 check (match g_labels g with None => true | Some n => n =? length os end) ValueError
      end
  end.

Record partial_d := { f_new : basis_new_d; f_n : nat; f_d : nat; f_orthonorm : bool; f_traceless : bool;
                      f_want_traceless : option bool; f_labels : option nat }.
Definition validate_from_partial (f : partial_d) : verdict :=
  validate_basis_new (f_new f) ;;
  check (f_orthonorm f) ValueError ;;
  check (negb ((match f_want_traceless f with Some true => true | _ => false end) && negb (f_traceless f))) ValueError ;;
  check (match f_labels f with None => true | Some n => (n =? f_n f) || (n =? f_d f * f_d f) end) ValueError.

(* util._parse_dims_arg(name, dims, rank) *)
Definition validate_dims (dims : list (list nat)) (rank : nat) : verdict :=
  check (length dims =? rank) ValueError ;;
  check (all_eqb Nat.eqb (map (@List.length nat) dims)) ValueError.

(* ------------------------------------------------------------------------------------------- *)
(* user-supplied arrays for the caches, sizes of the constructed bases, times of propagator_at_arb_t *)
Definition lastn {A} (n : nat) (l : list A) : list A := rev (firstn n (rev l)).
(* PulseSequence.cache_control_matrix(omega, control_matrix): shape ([n_pls,] n_nops, n_basis, n_omega) *)
Definition validate_cache_control_matrix (given : option (list nat)) (n_nops n_basis n_omega : nat) : verdict :=
  match given with
  | None => ok
  | Some s => check (((length s =? 3) || (length s =? 4)) && shape_eqb (lastn 3 s) [n_nops; n_basis; n_omega]) ValueError
  end.
(* PulseSequence.cache_filter_function(omega, filter_function=..., which, order) *)
Definition validate_cache_filter_function (given : option (list nat)) (which : string) (order : nat)
           (n_nops n_basis n_omega : nat) : verdict :=
  validate_option which ["fidelity"; "generalized"]%string ;;
  check ((order =? 1) || (order =? 2)) ValueError ;;
  match given with
  | None => ok
  | Some s => check (shape_eqb s (if (order =? 1) && String.eqb which "fidelity" then [n_nops; n_nops; n_omega]
                                  else [n_nops; n_nops; n_basis; n_basis; n_omega])) ValueError
  end.
(* PulseSequence.cache_total_phases(omega, total_phases) *)
Definition validate_cache_total_phases (given : option (list nat)) (n_omega : nat) : verdict :=
  match given with None => ok | Some s => check (shape_eqb s [n_omega]) ValueError end.
(* Basis.pauli(n), Basis.ggm(d) *)
Definition validate_basis_size (n : Z) : verdict := check (1 <=? n)%Z ValueError.
(* PulseSequence.propagator_at_arb_t(t): no time beyond the duration *)
Definition validate_propagator_times (beyond : list bool) : verdict := check (negb (existsb (fun b => b) beyond)) ValueError.

(* gradient.infidelity_derivative: noise identifiers, spectrum (for the selected operators), control identifiers *)
Definition validate_infidelity_derivative (a : analysis_d) (all_c_ids : list string) (c_ids : option (list string)) : verdict :=
  validate_ids (map n_id (p_n (a_pulse a))) (a_ids a) ;;
  check (arraylike (s_kind (a_spectrum a)) && arraylike (a_omega_kind a)) TypeError ;;
  validate_spectrum (a_spectrum a) (n_selected (map n_id (p_n (a_pulse a))) (a_ids a)) (a_omega_len a) ;;
  validate_ids all_c_ids c_ids.

(* ------------------------------------------------------------------------------------------- *)
(* numeric.infidelity(which='correlations') when the pulse-correlation control matrix may be gone (cleanup('greedy')
   keeps the pulse-correlation filter function): the identity component of every SELECTED noise operator has to be
   removed with the control matrix, so a selected operator with non-zero trace needs it -> CalculationError           *)
Record pc_infid_d := { pi_a : analysis_d; pi_cm_cached : bool; pi_ff_cached : bool;
                       pi_traces : list bool (* per noise operator of the pulse: non-zero trace *) }.
Fixpoint index_of (s : string) (l : list string) : nat :=
  match l with [] => 0 | x :: r => if String.eqb x s then 0 else S (index_of s r) end.
Definition selected_traces (all_ids : list string) (ids : option (list string)) (traces : list bool) : list bool :=
  match ids with None => traces | Some l => map (fun s => nth (index_of s all_ids) traces false) l end.
Definition validate_pc_infidelity (x : pc_infid_d) : verdict :=
  let a := pi_a x in
  let all_ids := map n_id (p_n (a_pulse a)) in
  validate_ids all_ids (a_ids a) ;;
  check (arraylike (s_kind (a_spectrum a)) && arraylike (a_omega_kind a)) TypeError ;;
  check (omega_matches (a_pulse a) (a_omega_tag a)) ValueError ;;
  check (pi_ff_cached x || pi_cm_cached x) CalculationError ;;                    (* get_pulse_correlation_filter_function *)
  (if pi_cm_cached x || existsb (fun b => b) (selected_traces all_ids (a_ids a) (pi_traces x))
   then check (pi_cm_cached x) CalculationError else ok) ;;                       (* get_pulse_correlation_control_matrix *)
  validate_spectrum (a_spectrum a) (n_selected all_ids (a_ids a)) (a_omega_len a).
