(* Constants of the gradient model taken from the regenerated Extracted/Src.v: the thresholds of
   gradient._derivative_integral (mask_dE on dE*dt; mask_series on EdE*dt), in source order, and of
   gradient._liouville_derivative; Model/Tie/C11.v re-checks the expected literals.              *)
From Coq Require Import ZArith String List.
From FF Require Import Extracted.Src.
Import ListNotations.

Definition di_thr_nth (i : nat) : Z * Z := snd (nth i thr_gradient__derivative_integral (""%string, (0, 0)%Z)).
Definition di_thr_dE : Z * Z := di_thr_nth 0.
Definition di_thr_series : Z * Z := di_thr_nth 1.

(* threshold of the degeneracy mask of gradient._liouville_derivative (np.abs(omega_diff*dt) < 1e-7) *)
Definition ld_thr : Z * Z := snd (nth 0 thr_gradient__liouville_derivative (""%string, (0, 0)%Z)).
