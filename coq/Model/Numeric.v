(* Numeric engine of filter_functions/numeric.py, written once, polymorphic in Ops.
   Each definition names the Python function it mirrors; contraction patterns are those of
   the subscript strings extracted from the source (Extracted/Src.v, tie checked in
   Model/Tie.v).  Branching on values is branch-free ([oite (ogt ..)]) exactly like the
   [where=mask] code.                                                                     *)
From Coq Require Import ZArith List.
From FF Require Import Base.Ops.
Import ListNotations.

Section Num.
Context {T B : Type} (Op : Ops T B).
Notation Cc := (C (T:=T)).
Notation Matc := (Mat (T:=T)).
Variable d : nat.

Definition nthm (l : list Matc) (i : nat) : Matc := nth i l [].
Definition nthv (l : list (list T)) (i : nat) : list T := nth i l [].
Definition vg (v : list T) (i : nat) : T := vget Op v i.
(* rank-3 array of complex numbers [a][k][o] *)
Definition Arr3 : Type := list (list (list Cc)).
Definition a3get (A : Arr3) (a k o : nat) : Cc := nth o (nth k (nth a A []) []) (c0 Op).
Definition a3build (n1 n2 n3 : nat) (f : nat -> nat -> nat -> Cc) : Arr3 :=
  build n1 (fun a => build n2 (fun k => build n3 (fun o => f a k o))).
Definition a3add (n1 n2 n3 : nat) (A Bq : Arr3) : Arr3 :=
  a3build n1 n2 n3 (fun a k o => cadd Op (a3get A a k o) (a3get Bq a k o)).
Definition a3zero (n1 n2 n3 : nat) : Arr3 := a3build n1 n2 n3 (fun _ _ _ => c0 Op).

(* numeric._transform_by_unitary : U^dagger A U *)
Definition transform_by_unitary (U A : Matc) : Matc := mmul Op d (madj Op d U) (mmul Op d A U).

(* numeric._first_order_integral, one frequency [w]:
   x = w + ev_m - ev_n ; mask = |x dt| > thr ;
   masked: (e^{i x dt} - 1)/(i x) = (sin(x dt)/x, (1 - cos(x dt))/x) ; unmasked: dt        *)
Definition foi_entry (thr w evm evn dt : T) : Cc :=
  let x := oadd Op w (osub Op evm evn) in
  let xt := omul Op x dt in
  cite Op (ogt Op (oabs Op xt) thr)
       (odiv Op (osin Op xt) x, odiv Op (osub Op (o1 Op) (ocos Op xt)) x)
       (dt, o0 Op).
Definition foi (thr w : T) (ev : list T) (dt : T) : Matc :=
  mbuild d d (fun m n => foi_entry thr w (vg ev m) (vg ev n) dt).

(* numeric.diagonalize (after eigh): P_g = V e^{-i D dt} V^dagger, Q_0 = 1, Q_{g+1} = P_g Q_g *)
Definition segment_propagator (ev : list T) (V : Matc) (dt : T) : Matc :=
  mbuild d d (fun i k => csumn Op d (fun j =>
    cmul Op (cmul Op (mget Op V i j) (cexp Op (oneg Op (omul Op dt (vg ev j))))) (cconj Op (mget Op V k j)))).
Fixpoint cumulative (evs : list (list T)) (Vs : list Matc) (dts : list T) (Q : Matc) : list Matc :=
  match evs, Vs, dts with
  | ev :: evs', V :: Vs', dt :: dts' =>
      let Q' := mmul Op d (segment_propagator ev V dt) Q in Q :: cumulative evs' Vs' dts' Q'
  | _, _, _ => [Q]
  end.
Definition propagators (evs : list (list T)) (Vs : list Matc) (dts : list T) : list Matc :=
  cumulative evs Vs dts (mid Op d).

(* t = 0 :: cumsum dt (PulseSequence.t) *)
Fixpoint cumsum_from (acc : T) (dts : list T) : list T :=
  match dts with [] => [acc] | x :: r => acc :: cumsum_from (oadd Op acc x) r end.
Definition times (dts : list T) : list T := cumsum_from (o0 Op) dts.

(* numeric.calculate_control_matrix_from_scratch.
   Per segment g: W = Q_g^dagger V_g ; NT_j = s_j^g V_g^dagger N_j V_g ; BT_k = W^dagger C_k W ;
   step[j][k][o] = e^{i w_o t_g} sum_{mn} NT_j[m][n] I_o[m][n] BT_k[n][m]   ('o,jmn,omn,knm->jko') *)
Definition cm_step (thr : T) (ev : list T) (V Q : Matc) (tg dt : T)
           (omega : list T) (basis nopers : list Matc) (ncoef_g : list T) : Arr3 :=
  let W := mmul Op d (madj Op d Q) V in
  let NT := map (fun N => transform_by_unitary V N) nopers in
  let BT := map (fun Ck => transform_by_unitary W Ck) basis in
  let ints := map (fun w => foi thr w ev dt) omega in
  a3build (length nopers) (length basis) (length omega) (fun j k o =>
    let w := vg omega o in
    let I_o := nthm ints o in
    let NTj := nthm NT j in let BTk := nthm BT k in
    cmul Op (cexp Op (omul Op w tg))
      (cscal Op (vg ncoef_g j)
        (csumn Op d (fun m => csumn Op d (fun n =>
           cmul Op (cmul Op (mget Op NTj m n) (mget Op I_o m n)) (mget Op BTk n m)))))).

Fixpoint cm_scratch_loop (thr : T) (evs : list (list T)) (Vs Qs : list Matc) (ts dts : list T)
         (omega : list T) (basis nopers : list Matc) (ncoefs_by_seg : list (list T)) (acc : Arr3) : Arr3 :=
  match evs, Vs, Qs, ts, dts, ncoefs_by_seg with
  | ev :: evs', V :: Vs', Q :: Qs', tg :: ts', dt :: dts', nc :: ncs' =>
      cm_scratch_loop thr evs' Vs' Qs' ts' dts' omega basis nopers ncs'
        (a3add (length nopers) (length basis) (length omega) acc
               (cm_step thr ev V Q tg dt omega basis nopers nc))
  | _, _, _, _, _, _ => acc
  end.

(* ncoeffs is [noise operator][segment] as in the package; transposed for the loop *)
Definition transpose_coeffs (G : nat) (nc : list (list T)) : list (list T) :=
  build G (fun g => map (fun row => vg row g) nc).

Definition control_matrix_from_scratch (thr : T) (evs : list (list T)) (Vs Qs : list Matc)
           (omega : list T) (basis nopers : list Matc) (ncoeffs : list (list T)) (dts ts : list T) : Arr3 :=
  cm_scratch_loop thr evs Vs Qs ts dts omega basis nopers (transpose_coeffs (length dts) ncoeffs)
    (a3zero (length nopers) (length basis) (length omega)).

(* numeric.calculate_filter_function : 'ako,bko->abo' on (conj B, B) *)
Definition filter_function (na nk no : nat) (Bm : Arr3) : Arr3 :=
  a3build na na no (fun a b o => csumn Op nk (fun k => cmul Op (cconj Op (a3get Bm a k o)) (a3get Bm b k o))).

(* superoperator.liouville_representation, generic path: L_ij = Re tr(U^dagger C_i U C_j) *)
Definition liouville (U : Matc) (basis : list Matc) : list (list T) :=
  let n := length basis in
  let CB := map (fun Ci => transform_by_unitary U Ci) basis in
  build n (fun i => build n (fun j => fst (mtrprod Op d (nthm CB i) (nthm basis j)))).

(* numeric.calculate_control_matrix_from_atomic ('ijo,jk->iko', summed over pulses, which='total') *)
Definition rget (L : list (list T)) (i j : nat) : T := vg (nthv L i) j.
Definition cm_from_atomic (na nk no : nat) (phases : list (list Cc)) (cms : list Arr3) (Ls : list (list (list T))) : Arr3 :=
  let n := length cms in
  a3build na nk no (fun a k o =>
    csumn Op n (fun g => 
      let ph := nth o (nth g phases []) (c0 Op) in
      let Bg := nth g cms [] in let Lg := nth g Ls [] in
      cmul Op ph (csumn Op nk (fun j => cscal Op (rget Lg j k) (a3get Bg a j o))))).

(* util.integrate : trapezoidal rule *)
Fixpoint trapz (f x : list T) : T :=
  match f, x with
  | f0 :: ((f1 :: _) as fr), x0 :: ((x1 :: _) as xr) =>
      oadd Op (odiv Op (omul Op (oadd Op f1 f0) (osub Op x1 x0)) (o2 Op)) (trapz fr xr)
  | _, _ => o0 Op
  end.

End Num.
