(* Model of filter_functions/superoperator.py (all four functions), of basis.expand / basis.ggm_expand
   on the paths taken by liouville_representation, of the Gell-Mann basis construction Basis.ggm
   (needed to state that the closed-form expansion equals the generic one), and of the places of
   pulse_sequence.py that set the cached `total_propagator_liouville`.
   Written once, polymorphic in Ops: the real instance is the subject of Proofs/Superop.v, the
   interval instances evaluate it in the correspondence check (tools/ffv/props/c15.py).        *)
From Coq Require Import ZArith List Bool Arith.
From FF Require Import Base.Ops Model.Numeric.
Import ListNotations.

Section Superop.
Context {T B : Type} (Op : Ops T B).
Notation Cc := (C (T:=T)).
Notation Matc := (Mat (T:=T)).
Variable d : nat.

Definition ofnat (k : nat) : T := oZ Op (Z.of_nat k).

(* ---------------------------------------------------------------------------------------------
   superoperator.liouville_representation
   conjugated_basis = einsum('...ba,ibc,...cd->...iad', U.conj(), basis, U) : [i] -> U^dagger C_i U *)
Definition conjugated_basis (U : Matc) (basis : list Matc) : list Matc :=
  map (fun Ci => transform_by_unitary Op d U Ci) basis.

(* basis.expand(M, basis, hermitian=True) for a Hermitian basis (cast = .real):
   Re tensordot(M, basis, axes=[(-2,-1),(-1,-2)])_j = Re sum_ab M_ab (C_j)_ba                   *)
Definition expand_re (M : Matc) (basis : list Matc) : list T :=
  map (fun Cj => fst (mtrprod Op d M Cj)) basis.
(* the same without the cast (non-Hermitian basis): complex coefficients *)
Definition expand_c (M : Matc) (basis : list Matc) : list Cc :=
  map (fun Cj => mtrprod Op d M Cj) basis.

Definition liouville_generic (U : Matc) (basis : list Matc) : list (list T) :=
  map (fun M => expand_re M basis) (conjugated_basis U basis).

(* index pairs j < k in the order used by Basis.ggm and ggm_expand (row-major over j, then k > j):
   j = repeat(arange(d-1), arange(d-1,0,-1)),  k = arange(1,n_sym+1) - (j*(2d-j-3)/2)           *)
Definition ggm_pairs : list (nat * nat) :=
  concat (build d (fun j => map (fun k => (j, k)) (filter (Nat.ltb j) (seq 0 d)))).
(* the closed formula of the source for the k index of the t-th pair (0-based t), given its j *)
Definition ggm_k_formula (j t : nat) : nat := (t + 1) - (j * (2 * d - j - 3)) / 2.

Definition sqrt2 : T := osqrt Op (o2 Op).
Definition inv_sqrt2 : T := odiv Op (o1 Op) sqrt2.                  (* inv_sqrt2 = 1/np.sqrt(2) *)
Definition diag_norm (l : nat) : T := osqrt Op (omul Op (ofnat l) (ofnat (S l))).   (* sqrt(l(l+1)) *)

(* Basis.ggm(d) *)
Definition ggm_id : Matc :=
  mbuild d d (fun a b => if Nat.eqb a b then cofr Op (odiv Op (o1 Op) (osqrt Op (ofnat d))) else c0 Op).
Definition ggm_sym (jk : nat * nat) : Matc :=
  mbuild d d (fun a b =>
    if (Nat.eqb a (fst jk) && Nat.eqb b (snd jk)) || (Nat.eqb a (snd jk) && Nat.eqb b (fst jk))
    then cofr Op inv_sqrt2 else c0 Op).
Definition ggm_asym (jk : nat * nat) : Matc :=
  mbuild d d (fun a b =>
    if Nat.eqb a (fst jk) && Nat.eqb b (snd jk) then (o0 Op, oneg Op inv_sqrt2)       (* -1j*inv_sqrt2 *)
    else if Nat.eqb a (snd jk) && Nat.eqb b (fst jk) then (o0 Op, inv_sqrt2)          (* +1j*inv_sqrt2 *)
    else c0 Op).
Definition ggm_diag (l : nat) : Matc :=
  mbuild d d (fun a b =>
    if Nat.eqb a b then
      if Nat.ltb a l then cofr Op (odiv Op (o1 Op) (diag_norm l))
      else if Nat.eqb a l then cofr Op (odiv Op (oneg Op (ofnat l)) (diag_norm l))
      else c0 Op
    else c0 Op).
Definition ggm_basis : list Matc :=
  ggm_id :: map ggm_sym ggm_pairs ++ map ggm_asym ggm_pairs ++ build (Nat.pred d) (fun l' => ggm_diag (S l')).

(* basis.ggm_expand(M, traceless=False, hermitian=True), one matrix M *)
Definition ggm_expand_re (M : Matc) : list T :=
  odiv Op (fst (mtrace Op d M)) (osqrt Op (ofnat d))
  :: map (fun jk => odiv Op (fst (cadd Op (mget Op M (fst jk) (snd jk)) (mget Op M (snd jk) (fst jk)))) sqrt2) ggm_pairs
  ++ map (fun jk => odiv Op (fst (cmul Op (ci Op) (csub Op (mget Op M (fst jk) (snd jk)) (mget Op M (snd jk) (fst jk))))) sqrt2) ggm_pairs
  ++ build (Nat.pred d) (fun l' => let l := S l' in
       odiv Op (fst (csub Op (csumn Op l (fun a => mget Op M a a)) (cscal Op (ofnat l) (mget Op M l l))))
               (diag_norm l)).

Definition liouville_closed (U : Matc) (basis : list Matc) : list (list T) :=
  map ggm_expand_re (conjugated_basis U basis).

(* np.finfo(complex).eps and Basis._atol = eps * d^3 (Basis.__array_finalize__) *)
Definition eps_complex : T := odya Op 1 (-52).
Definition basis_atol : T := omul Op eps_complex (omul Op (ofnat d) (omul Op (ofnat d) (ofnat d))).
Definition half : T := odya Op 1 (-1).

(* (xs <= tol).all() as 1 / 0 *)
Definition le_flag (tol : T) (xs : list T) : T :=
  fold_right (fun x acc => oite Op (ogt Op x tol) (o0 Op) acc) (o1 Op) xs.
(* `basis == Basis.ggm(d)` (Basis.__eq__ after the shape test): np.allclose(basis, ggm, atol=basis._atol, rtol=0),
   i.e. |basis[k][i][j] - ggm[k][i][j]| <= atol for all entries *)
Definition basis_devs (basis : list Matc) : list T :=
  let g := ggm_basis in
  concat (build (d * d) (fun k => let bk := nthm basis k in let gk := nthm g k in
    concat (build d (fun i => build d (fun j =>
      osqrt Op (cabs2 Op (csub Op (mget Op bk i j) (mget Op gk i j)))))))).
Definition basis_is_ggm_flag (basis : list Matc) : T := le_flag basis_atol (basis_devs basis).

(* the path switch
     basis.btype == 'GGM' and basis.d > 12 and basis.shape[0] == basis.d**2 and basis == Basis.ggm(basis.d)
   [is_ggm] is the btype label; the comparison with the Gell-Mann basis is computed by the model *)
Definition ggm_threshold : nat := 12.
Definition liouville_representation (is_ggm : bool) (U : Matc) (basis : list Matc) : list (list T) :=
  if is_ggm && Nat.ltb ggm_threshold d && Nat.eqb (length basis) (d * d) then
    let f := basis_is_ggm_flag basis in
    let Lc := liouville_closed U basis in
    let Lg := liouville_generic U basis in
    let n := length basis in
    build n (fun i => build n (fun j => oite Op (ogt Op f half) (rget Op Lc i j) (rget Op Lg i j)))
  else liouville_generic U basis.
(* the path switch before commit 63446ae (label only), kept for the refutation theorem *)
Definition liouville_representation_prefix (is_ggm : bool) (U : Matc) (basis : list Matc) : list (list T) :=
  if is_ggm && Nat.ltb ggm_threshold d then liouville_closed U basis else liouville_generic U basis.

(* leading (stack) axes are broadcast *)
Definition liouville_stack (is_ggm : bool) (Us : list Matc) (basis : list Matc) : list (list (list T)) :=
  map (fun U => liouville_representation is_ggm U basis) Us.

(* ---------------------------------------------------------------------------------------------
   superoperator.liouville_to_choi:
   einsum('...ij,jba,icd->...acbd', S, basis, basis).reshape(d^2, d^2):
   choi[a*d+c][b*d+e] = sum_ij S_ij (C_j)_ba (C_i)_ce                                            *)
Definition choi_entry4 (S : list (list T)) (basis : list Matc) (a c b e : nat) : Cc :=
  let n := length basis in
  csumn Op n (fun i => csumn Op n (fun j =>
    cmul Op (cscal Op (rget Op S i j) (mget Op (nthm basis j) b a)) (mget Op (nthm basis i) c e))).
(* reshape: row index (a, c) -> a*d + c, column index (b, e) -> b*d + e (row-major, written as nested
   concatenation so that no division is needed) *)
Definition liouville_to_choi (S : list (list T)) (basis : list Matc) : Matc :=
  concat (build d (fun a => build d (fun c =>
    concat (build d (fun b => build d (fun e => choi_entry4 S basis a c b e)))))).

(* tol = atol or basis._atol*np.maximum(1, np.abs(D).max(axis=-1)): None and 0.0 both select the default *)
Definition max1abs (D : list T) : T :=
  fold_right (fun ev acc => let a := oabs Op ev in oite Op (ogt Op a acc) a acc) (o1 Op) D.
Definition eff_atol (atol : T) (D : list T) : T :=
  oite Op (ogt Op (oabs Op atol) (o0 Op)) atol (omul Op basis_atol (max1abs D)).

(* (D >= -tol).all(axis=-1) as 1 / 0 *)
Definition psd_flag (thr : T) (D : list T) : T :=
  fold_right (fun ev acc => oite Op (ogt Op (oneg Op thr) ev) (o0 Op) acc) (o1 Op) D.

(* liouville_is_CP: D are the eigenvalues returned by nla.eigh(choi) (oracle, validated per case) *)
Definition liouville_is_CP (atol : T) (D : list T) : T := psd_flag (eff_atol atol D) D.

(* liouville_is_cCP: Omega[::d+1] = 1/sqrt(d); Omega = outer(Omega, Omega); Q = eye - Omega;
   D are the eigenvalues returned by nla.eigh(Q @ choi @ Q)                                      *)
(* the stride d+1 visits the flat positions a*d + a (Proofs/Superop.v: omega_vec_nth states the strided form) *)
Definition omega_vec : list T :=
  concat (build d (fun a => build d (fun c =>
    if Nat.eqb a c then odiv Op (o1 Op) (osqrt Op (ofnat d)) else o0 Op))).
Definition projQ : Matc :=
  mbuild (d * d) (d * d) (fun r c =>
    cofr Op (osub Op (if Nat.eqb r c then o1 Op else o0 Op) (omul Op (vget Op omega_vec r) (vget Op omega_vec c)))).
Definition projected_choi (Ch : Matc) : Matc := mmul Op (d * d) (mmul Op (d * d) projQ Ch) projQ.
Definition liouville_is_cCP (atol : T) (D : list T) : T := psd_flag (eff_atol atol D) D.

(* broadcasting over leading axes: D has shape (..., d^2), tol = .. .max(axis=-1, keepdims=True) has shape
   (..., 1) and .all(axis=-1) reduces the last axis only: one threshold and one verdict per map *)
Definition liouville_is_CP_stack (atol : T) (Ds : list (list T)) : list T := map (liouville_is_CP atol) Ds.
Definition liouville_is_cCP_stack (atol : T) (Ds : list (list T)) : list T := map (liouville_is_cCP atol) Ds.

(* ---------------------------------------------------------------------------------------------
   The cached Liouville total propagator of a pulse (pulse_sequence.py).  Only the two slots that
   matter: `_total_propagator` (always known here) and `_total_propagator_liouville`.            *)
Record pcache := mkpc { pc_total : Matc; pc_tpl : option (list (list T)) }.

(* property getter PulseSequence.total_propagator_liouville: compute and store if not cached *)
Definition tpl_get (is_ggm : bool) (basis : list Matc) (p : pcache) : list (list T) * pcache :=
  match pc_tpl p with
  | Some L => (L, p)
  | None => let L := liouville_representation is_ggm (pc_total p) basis in (L, mkpc (pc_total p) (Some L))
  end.
(* PulseSequence.cache_control_matrix: `if not self.is_cached('total_propagator_liouville'): ... = liouville_representation(..)` *)
Definition tpl_cache_control_matrix (is_ggm : bool) (basis : list Matc) (p : pcache) : pcache :=
  match pc_tpl p with
  | Some _ => p
  | None => mkpc (pc_total p) (Some (liouville_representation is_ggm (pc_total p) basis))
  end.
(* concatenate / extend: newpulse.total_propagator_liouville = liouville_representation(newpulse.total_propagator, newpulse.basis) *)
Definition tpl_set_explicit (is_ggm : bool) (basis : list Matc) (total : Matc) : pcache :=
  mkpc total (Some (liouville_representation is_ggm total basis)).
(* remap: new[perm.T, perm] = old, i.e. new[perm i][perm j] = old[i][j]; for a permutation [perm] of
   0..n-1 every cell is written exactly once: new[r][c] = old[perm^-1 r][perm^-1 c]              *)
Fixpoint index_of (x : nat) (l : list nat) : nat :=
  match l with [] => 0 | y :: r => if Nat.eqb x y then 0 else S (index_of x r) end.
Definition scatter2 (perm : list nat) (L : list (list T)) : list (list T) :=
  let n := length perm in
  build n (fun r => build n (fun c => rget Op L (index_of r perm) (index_of c perm))).
Definition tpl_remap (is_pauli : bool) (perm : list nat) (total' : Matc) (p : pcache) : pcache :=
  match pc_tpl p with
  | Some L => if is_pauli then mkpc total' (Some (scatter2 perm L)) else mkpc total' None
  | None => mkpc total' None
  end.

End Superop.

(* The index arrays exactly as the source computes them (Basis.ggm and ggm_expand):
     j = np.repeat(np.arange(d-1), np.arange(d-1, 0, -1))
     k = np.arange(1, n_sym+1) - (j*(2*d - j - 3)/2).astype(int),   n_sym = int(d*(d-1)/2)
   Plain nat code (not part of the Ops-polymorphic model); Proofs/SuperopIdx.v proves that it produces
   the pair list [ggm_pairs] used by the model, for every d.                    *)
Definition ggm_j_src (d : nat) : list nat := concat (build (d - 1) (fun j => repeat j (d - 1 - j))).
Definition ggm_k_src (d : nat) : list nat :=
  map (fun tj => (fst tj - (snd tj * (2 * d - snd tj - 3)) / 2)%nat)
      (combine (seq 1 (d * (d - 1) / 2)) (ggm_j_src d)).
Definition ggm_pairs_src (d : nat) : list (nat * nat) := combine (ggm_j_src d) (ggm_k_src d).
