(* Bookkeeping model of pulse_sequence.extend: parsing of the pulse-to-qubit mapping (single /
   multi-qubit pulses, sorted qubits and the implied remap), dimension / time-step / clash / N
   checks, the shortcuts, inference of cache_filter_function / omega / cache_diagonalization,
   identifiers (explicit mapping or default suffix), ordering multi -> single -> additional and the
   final sort, positions handed to util.tensor_insert / tensor_merge (bisect on the sorted
   registers; _merge_attrs / _insert_attrs), basis.equivalent_pauli_basis_elements, the scaling
   exponent, and which attributes of the new pulse end up cached.  Numeric content is not part of
   this model: Proofs/Extend.v proves what the placed Kronecker products compute.            *)
From Coq Require Import String List Arith Bool.
From FF Require Import Base.Ops Spec.DigitPerm Spec.StrSort Model.Remap.
Import ListNotations.
Local Open Scope nat_scope.

Inductive qspec := QInt (q : nat) | QTup (qs : list nat).

(* what extend looks at in an input pulse *)
Record pdesc := mkPdesc {
  pd_d : nat; pd_cids : list string; pd_nids : list string; pd_btype : string;
  pd_dt : nat;                   (* class of the dt array: equal numbers <-> equal arrays *)
  pd_eig : bool;                 (* eigvals, eigvecs and propagators cached *)
  pd_tp : bool; pd_omega : option nat;   (* class of the cached frequency array *)
  pd_phases : bool; pd_ff : bool; pd_tpl : bool; pd_cm : bool }.

Record entry := mkEntry { e_pulse : pdesc; e_q : qspec; e_map : option (list (string * string)) }.

Inductive err := ErrRemap | ErrSingleDim | ErrMultiDim | ErrDt | ErrClash | ErrN | ErrOmega | ErrCacheDiag
               | ErrAddDim | ErrAddDup | ErrKey | ErrDupMap | ErrDupIds
               | ErrNoArgs.   (* util.tensor_insert called without arguments: ValueError('Require nonzero number of args!') *)

Inductive src := FromPulse (blk idx : nat) | Additional (k : nat).

Inductive step :=
  | OpInsert (pos : list nat)          (* tensor_insert of c_opers / n_opers of a multi-qubit pulse (rank 2) *)
  | EvInsert (pos : list nat)          (* tensor_insert of eigenvalues with ones (rank 1) *)
  | Merge (pos : list nat)             (* tensor_merge from _merge_attrs *)
  | Insert (pos : nat).                (* tensor_insert from _insert_attrs *)

Record plan := mkPlan {
  pl_N : nat;
  pl_blocks : list (list nat);         (* register qubits of the pulses, multi-qubit pulses first *)
  pl_remaps : list (list nat);         (* per multi-qubit pulse: order of the implied remap, [] if none *)
  pl_c_ids : list string; pl_n_ids : list string;
  pl_c_src : list src; pl_n_src : list src;
  pl_n_sort_idx : list nat;
  pl_basis : string;
  pl_cache_diag : bool; pl_cache_ff : bool;
  pl_omega_given : bool;               (* the omega argument is used (else pulses[0].omega) *)
  pl_steps : list step;                (* calls of the tensor helpers, in order *)
  pl_cm_blocks : list (list nat * nat * nat * nat);   (* basis_idx, first row, rows, scaling exponent N - |ind| *)
  (* cached attributes of the result: eig data, total propagator, omega/phases/control matrix/filter function/liouville *)
  pl_has_eig : bool; pl_has_tp : bool; pl_has_ff : bool
}.

Inductive outcome := Raise (e : err) | ReturnSame (remap_order : list nat) | Extended (p : plan).

(* ---------- small list utilities ---------- *)
Fixpoint ins_pair (x : nat * nat) (l : list (nat * nat)) : list (nat * nat) :=
  match l with
  | [] => [x]
  | y :: r => if (fst x <? fst y) || ((fst x =? fst y) && (snd x <=? snd y)) then x :: l else y :: ins_pair x r
  end.
(* sorted(zip(qubit, range(len(qubit)))) *)
Definition sort_pairs (qs : list nat) : list (nat * nat) :=
  fold_right ins_pair [] (combine qs (seq 0 (length qs))).
Definition list_eqb_nat (a b : list nat) : bool :=
  (length a =? length b) && forallb (fun xy => fst xy =? snd xy) (combine a b).
(* bisect.bisect (= bisect_right) in a sorted list *)
Definition bisect (l : list nat) (q : nat) : nat := length (filter (fun x => x <=? q) l).
Fixpoint insort (l : list nat) (q : nat) : list nat :=
  match l with [] => [q] | y :: r => if q <? y then q :: l else y :: insort r q end.
Definition memb (q : nat) (l : list nat) : bool := existsb (Nat.eqb q) l.
Definition set_diff (N : nat) (qs : list nat) : list nat := filter (fun q => negb (memb q qs)) (seq 0 N).
Fixpoint nodupb (l : list nat) : bool :=
  match l with [] => true | x :: r => negb (memb x r) && nodupb r end.
Definition list_max (l : list nat) : nat := fold_right Nat.max 0 l.
Definition all_eq_nat (l : list nat) : bool := match l with [] => true | x :: r => forallb (Nat.eqb x) r end.
Definition opt_eqb (a b : option nat) : bool :=
  match a, b with Some x, Some y => x =? y | None, None => true | _, _ => false end.

(* basis.equivalent_pauli_basis_elements(idx, N): digits of the small-basis index on the active positions, 0 elsewhere *)
Fixpoint spread (N pos : nat) (ind ds : list nat) : list nat :=
  match N with
  | 0 => []
  | S n => if memb pos ind
           then match ds with d0 :: ds' => d0 :: spread n (S pos) ind ds' | [] => 0 :: spread n (S pos) ind [] end
           else 0 :: spread n (S pos) ind ds
  end.
Definition equiv_idx (ind : list nat) (N : nat) : list nat :=
  let m := length (filter (fun i => memb i ind) (seq 0 N)) in
  build (4 ^ m) (fun k => undigits 4 (spread N 0 ind (digits 4 m k))).

(* the descriptor of remap(pulse, order) without identifier mapping: which cache entries survive (Model/Remap.v) *)
Definition remap_desc (p : pdesc) : pdesc :=
  let has_om := match pd_omega p with Some _ => true | None => false end in
  let has_ph := has_om && pd_phases p in
  let has_ff := has_om && pd_ff p in
  let liou := has_om && (pd_tpl p || pd_cm p) && String.eqb (pd_btype p) "Pauli" in
  let has_cm := liou && pd_cm p in
  let need_tp := has_cm && negb (pd_tpl p) && negb (pd_tp p) in
  mkPdesc (pd_d p) (pd_cids p) (pd_nids p) (pd_btype p) (pd_dt p)
    (pd_eig p || need_tp) (pd_tp p || need_tp)
    (if has_ph || has_ff || has_cm then pd_omega p else None)
    (has_ph || has_cm) has_ff ((liou && pd_tpl p) || has_cm) has_cm.

(* default identifier suffix: q + '_' + ''.join(str(qubit)) *)
Definition digit_char (n : nat) : string :=
  String (Ascii.ascii_of_nat (48 + n)) EmptyString.
Fixpoint nat_str_aux (fuel n : nat) (acc : string) : string :=
  match fuel with
  | 0 => acc
  | S f => let acc' := (digit_char (n mod 10) ++ acc)%string in
           if n / 10 =? 0 then acc' else nat_str_aux f (n / 10) acc'
  end.
Definition nat_str (n : nat) : string := nat_str_aux (S n) n EmptyString.
Definition suffix (qs : list nat) : string := fold_right (fun q acc => (nat_str q ++ acc)%string) EmptyString qs.
(* _map_identifiers applied to _default_extend_mapping(ids, mapping, qubits): ValueError for a missing identifier
   or for mapped identifiers that are not unique *)
Definition map_ids (ids : list string) (m : option (list (string * string))) (qs : list nat) : err + list string :=
  match (match m with
         | Some mm => lookup_all mm ids
         | None => Some (map (fun i => (i ++ "_" ++ suffix qs)%string) ids)
         end) with
  | None => inl ErrKey
  | Some l => if nodup_str l then inr l else inl ErrDupMap
  end.

(* ---------- parsing ---------- *)
Record parsed := mkParsed {
  ps_active : list nat;
  ps_multi : list (pdesc * list nat * list nat * option (list (string * string)));   (* pulse (remapped), sorted qubits, remap order *)
  ps_single : list (pdesc * nat * option (list (string * string))) }.

Definition parse_entry (dq : nat) (acc : option err * parsed) (e : entry) : option err * parsed :=
  let '(er, ps) := acc in
  match er with Some _ => acc | None =>
  match e_q e with
  | QInt q => (None, mkParsed (ps_active ps ++ [q]) (ps_multi ps) (ps_single ps ++ [(e_pulse e, q, e_map e)]))
  | QTup [q] => (None, mkParsed (ps_active ps ++ [q]) (ps_multi ps) (ps_single ps ++ [(e_pulse e, q, e_map e)]))
  | QTup qs =>
      let sp := sort_pairs qs in
      let sq := map fst sp in let order := map snd sp in
      if list_eqb_nat qs sq
      then (None, mkParsed (ps_active ps ++ qs) (ps_multi ps ++ [(e_pulse e, sq, [], e_map e)]) (ps_single ps))
      else if Nat.eqb (dq ^ ilog dq (pd_d (e_pulse e))) (pd_d (e_pulse e)) && Nat.eqb (ilog dq (pd_d (e_pulse e))) (length qs)
           then (None, mkParsed (ps_active ps ++ qs) (ps_multi ps ++ [(remap_desc (e_pulse e), sq, order, e_map e)]) (ps_single ps))
           else (Some ErrRemap, ps)
  end end.

Fixpoint steps_multi_ops (N : nat) (ms : list (pdesc * list nat * list nat * option (list (string * string)))) : list step :=
  match ms with
  | [] => []
  | (_, qs, _, _) :: r =>
      let pos := map (bisect qs) (set_diff N qs) in
      match pos with
      | [] => steps_multi_ops N r                       (* `if pos:` -- nothing to insert *)
      | _ => OpInsert pos :: OpInsert pos :: steps_multi_ops N r
      end
  end.

(* _merge_attrs / _insert_attrs on [nattr] attributes; registers = None is modelled by [first = true] *)
Fixpoint steps_merge_multi (nattr : nat) (with_ev : bool) (N : nat) (ms : list (list nat)) (first : bool) (regs : list nat)
  : list step * bool * list nat :=
  match ms with
  | [] => ([], first, regs)
  | qs :: r =>
      let ev := if with_ev then match set_diff N qs with [] => [] | _ => [EvInsert (map (bisect qs) (set_diff N qs))] end
                else [] in
      let here := if first then [] else repeat (Merge (map (bisect regs) qs)) nattr in
      let regs' := if first then qs else fold_left insort qs regs in
      let '(rest, f', rg) := steps_merge_multi nattr with_ev N r false regs' in
      (ev ++ here ++ rest, f', rg)
  end.
Fixpoint steps_insert_single (nattr : nat) (ss : list nat) (first : bool) (regs : list nat) : list step * bool * list nat :=
  match ss with
  | [] => ([], first, regs)
  | q :: r =>
      let here := if first then [] else repeat (Insert (bisect regs q)) nattr in
      let regs' := if first then [q] else insort regs q in
      let '(rest, f', rg) := steps_insert_single nattr r false regs' in
      (here ++ rest, f', rg)
  end.
Definition steps_attrs (nattr : nat) (with_ev : bool) (N : nat) (multi : list (list nat)) (single idle : list nat) : list step * list nat :=
  let '(s1, f1, r1) := steps_merge_multi nattr with_ev N multi true [] in
  let '(s2, f2, r2) := steps_insert_single nattr single f1 r1 in
  match idle with
  | [] => (s1 ++ s2, r2)
  | _ => (s1 ++ s2 ++ (if f2 then [] else repeat (Merge (map (bisect r2) idle)) nattr),
          if f2 then idle else fold_left insort idle r2)
  end.

Fixpoint cm_blocks (N : nat) (blocks : list (list nat)) (nns : list nat) (row : nat) : list (list nat * nat * nat * nat) :=
  match blocks, nns with
  | ind :: bs, nn :: ns => (equiv_idx ind N, row, nn, N - length ind) :: cm_blocks N bs ns (row + nn)
  | _, _ => []
  end.

(* identifiers pulse by pulse, control before noise, as the loops over the pulses do *)
Fixpoint ids_of_blocks (fixed : bool) (N : nat) (bl : list (pdesc * list nat * option (list (string * string))))
  : err + (list string * list string) :=
  match bl with
  | [] => inr ([], [])
  | (p, qs, m) :: r =>
      match map_ids (pd_cids p) m qs with
      | inl e => inl e
      | inr c =>
        match map_ids (pd_nids p) m qs with
        | inl e => inl e
        | inr n =>
          (* before e379e51 ([fixed = false]): a multi-qubit pulse on all N qubits (reached only when the shortcut is
             not taken) led to tensor_insert(.., pos=[]), which raises; since e379e51 the operators are used as they are *)
          if negb fixed && (1 <? length qs) && (length (set_diff N qs) =? 0) then inl ErrNoArgs else
          match ids_of_blocks fixed N r with
                   | inl e => inl e
                   | inr (cs, ns) => inr (c ++ cs, n ++ ns)
                   end
        end
      end
  end.
Fixpoint srcs_of_blocks (get : pdesc -> list string) (bl : list (pdesc * list nat * option (list (string * string)))) (k : nat)
  : list src :=
  match bl with
  | [] => []
  | (p, _, _) :: r => map (FromPulse k) (seq 0 (length (get p))) ++ srcs_of_blocks get r (S k)
  end.

Definition extend_gen (fixed : bool) (entries : list entry) (Narg : option nat) (dq : nat)
           (additional : option (nat * list string))     (* dimension and identifiers of the additional noise operators *)
           (cache_diag cache_ff : option bool) (omega_arg : option nat) : outcome :=
  let '(er, ps) := fold_left (parse_entry dq) entries (None, mkParsed [] [] []) in
  match er with Some e => Raise e | None =>
  if negb (forallb (fun x => Nat.eqb (pd_d (fst (fst x))) dq) (ps_single ps)) then Raise ErrSingleDim else
  if negb (forallb (fun x => Nat.eqb (pd_d (fst (fst (fst x)))) (dq ^ length (snd (fst (fst x))))) (ps_multi ps)) then Raise ErrMultiDim else
  let blocks := map (fun x => (fst (fst (fst x)), snd (fst (fst x)), snd x)) (ps_multi ps)
                ++ map (fun x => (fst (fst x), [snd (fst x)], snd x)) (ps_single ps) in
  let pulses := map (fun x => fst (fst x)) blocks in
  if negb (all_eq_nat (map pd_dt pulses)) then Raise ErrDt else
  if negb (nodupb (ps_active ps)) then Raise ErrClash else
  let last := list_max (ps_active ps) in
  match (match Narg with None => Some (S last) | Some n => if n <? S last then None else Some n end) with
  | None => Raise ErrN
  | Some N =>
  let plain := match entries, additional with
               | [e], None => match e_map e with None => true | Some _ => false end
               | _, _ => false
               end in
  let shortcut :=
    if negb plain then None else
    match entries, ps_multi ps, ps_single ps with
    | [_], [(_, qs, order, _)], _ => if N =? length qs then Some order else None
    | [_], [], [_] => if N =? 1 then Some [] else None
    | _, _, _ => None
    end in
  match shortcut with Some order => ReturnSame order | None =>
  (* cache_filter_function / omega *)
  let all_cm := forallb pd_cm pulses in
  let equal_omega := match pulses with
                     | [] => false
                     | p0 :: r => match pd_omega p0 with None => false | Some _ => forallb (fun p => opt_eqb (pd_omega p) (pd_omega p0)) r end
                     end in
  let ff_res : option (bool * bool) :=        (* (cache_ff, omega argument used) *)
    match cache_ff with
    | Some false => Some (false, false)
    | None => Some (all_cm && equal_omega, false)
    | Some true => match omega_arg with
                   | Some _ => Some (true, true)
                   | None => if equal_omega then Some (true, false) else None
                   end
    end in
  match ff_res with None => Raise ErrOmega | Some (cff, om_given) =>
  let has_add := match additional with Some _ => true | None => false end in
  let cd_res : option bool :=
    match cache_diag with
    | None => Some (if cff && has_add then true else forallb pd_eig pulses)
    | Some false => if has_add then None else Some false
    | Some true => Some true
    end in
  match cd_res with None => Raise ErrCacheDiag | Some cd =>
  match ids_of_blocks fixed N blocks with
  | inr (cids, nids0) =>
    let add_check : option (list string * list src) :=
      match additional with
      | None => Some ([], [])
      | Some (dd, aids) =>
          if negb (dd =? dq ^ N) then None
          else Some (aids, map Additional (seq 0 (length aids)))
      end in
    match add_check with None => Raise ErrAddDim | Some (aids, asrc) =>
    if existsb (fun a => existsb (String.eqb a) nids0) aids then Raise ErrAddDup else
    let nids := nids0 ++ aids in
    if negb (nodup_str cids && nodup_str nids) then Raise ErrDupIds else
    let btypes := map pd_btype pulses in
    let basis := if forallb (String.eqb "Pauli") btypes then "Pauli"%string else "GGM"%string in
    let cidx := argsort cids in let nidx := argsort nids in
    let csrc := srcs_of_blocks pd_cids blocks 0 in
    let nsrc := srcs_of_blocks pd_nids blocks 0 ++ asrc in
    let multi_q := map (fun x => snd (fst (fst x))) (ps_multi ps) in
    let single_q := map (fun x => snd (fst x)) (ps_single ps) in
    let idle := set_diff N (ps_active ps) in
    let pauli := String.eqb basis "Pauli" in
    let all_tp := forallb pd_tp pulses in
    let attr_steps :=
      if negb pauli then []
      else if cd then fst (steps_attrs 2 true N multi_q single_q idle)
      else if all_tp then fst (steps_attrs 1 false N multi_q single_q idle)
      else [] in
    Extended (mkPlan N (map (fun x => snd (fst x)) blocks) (map (fun x => snd (fst x)) (ps_multi ps))
      (sel EmptyString cids cidx) (sel EmptyString nids nidx)
      (sel (Additional 0) csrc cidx) (sel (Additional 0) nsrc nidx) nidx basis cd cff om_given
      (steps_multi_ops N (ps_multi ps) ++ attr_steps)
      (if pauli && cff then cm_blocks N (map (fun x => snd (fst x)) blocks) (map (fun p => length (pd_nids p)) pulses) 0 else [])
      (* eig data: assembled, or computed by the new pulse (non-Pauli: diagonalize(); Pauli + filter function
         without any total propagator: liouville_representation needs total_propagator -> diagonalize()) *)
      (if pauli then cd || (cff && negb all_tp) else cd || cff)
      (if pauli then cd || all_tp || cff else cd || cff)
      cff)
    end
  | inl e => Raise e
  end end end end end end.

(* the code as it is (since e379e51) and as it was between 9255946 and e379e51 *)
Definition extend := extend_gen true.
Definition extend_prefix := extend_gen false.

(* ---------- numeric assembly of the cached control matrix / filter function ---------- *)
From FF Require Import Model.Numeric.
Section Assembly.
Context {T B : Type} (Op : Ops T B).
Notation Cc := (C (T:=T)).

(* one input pulse: indices of its basis elements in the new basis, first row, number of rows,
   sqrt(d_per_qubit^(N - |ind|)) and its control matrix *)
Definition cmblock : Type := (list nat * nat * nat * T * Arr3 (T:=T))%type.
Fixpoint find_block (bs : list cmblock) (a : nat) : option cmblock :=
  match bs with
  | [] => None
  | ((bidx, row0, nn, sc, Bj) as b) :: r => if (row0 <=? a) && (a <? row0 + nn) then Some b else find_block r a
  end.
(* control_matrix = zeros; control_matrix[rows_j, basis_idx_j] = B_j * sqrt(scaling_j) *)
Definition assemble_cm (nrows K no : nat) (bs : list cmblock) : Arr3 (T:=T) :=
  a3build nrows K no (fun a k o =>
    match find_block bs a with
    | Some (bidx, row0, nn, sc, Bj) =>
        if memb k bidx then cscal Op sc (a3get Op Bj (a - row0) (index_of k bidx) o) else c0 Op
    | None => c0 Op
    end).
(* after fix 4150b87: filter_function = numeric.calculate_filter_function(control_matrix) *)
Definition assemble_ff (nrows K no : nat) (bs : list cmblock) : Arr3 (T:=T) :=
  filter_function Op nrows K no (assemble_cm nrows K no bs).
(* the pinned code: only the diagonal blocks  filter_function[rows_j, rows_j] = F_j * scaling_j *)
Definition prefix_ff (nrows no : nat) (bs : list (nat * nat * T * Arr3 (T:=T))) : Arr3 (T:=T) :=
  a3build nrows nrows no (fun a b o =>
    match find (fun x => let '(row0, nn, _, _) := x in (row0 <=? a) && (a <? row0 + nn) && (row0 <=? b) && (b <? row0 + nn)) bs with
    | Some (row0, nn, sc2, Fj) => cscal Op sc2 (a3get Op Fj (a - row0) (b - row0) o)
    | None => c0 Op
    end).
(* final re-sorting: control_matrix[n_sort_idx], filter_function[n_sort_idx[:,None], n_sort_idx[None,:]] *)
Definition sort_rows (idx : list nat) (A : Arr3 (T:=T)) : Arr3 (T:=T) := sel [] A idx.
Definition sort_rows_cols (idx : list nat) (A : Arr3 (T:=T)) : Arr3 (T:=T) := sel [] (map (fun row => sel [] row idx) A) idx.
End Assembly.
