(* Bookkeeping model of filter_functions/pulse_sequence.py:
     _concatenate_Hamiltonian, concatenate_without_filter_function and the decision logic of
     concatenate (which path is taken, what is raised, what is cached afterwards).
   Plain Gallina.  Operators appear only up to a decidable equality [oeqb] (the code only hashes
   them: util.hash_array_along_axis on the bytes of [arr + 0.0], i.e. equality of values with
   -0.0 identified with 0.0); coefficients only up to [ceqb] (float ==) and a zero.
   Identifiers are strings; numpy / Python order of str = lexicographic order of code points =
   [String.leb] on (ASCII) identifiers.                                                        *)
From Coq Require Import String Ascii List ZArith Bool Arith DecimalString.
Import ListNotations.

(* f'_{p}' *)
Definition dec_of_nat (p : nat) : string := NilZero.string_of_uint (Nat.to_uint p).
Definition suffix (s : string) (p : nat) : string := (s ++ "_" ++ dec_of_nat p)%string.

(* bisect.bisect(a, x) = bisect_right: number of leading elements <= x of the sorted list a *)
Fixpoint bisect_right (a : list nat) (x : nat) : nat :=
  match a with [] => 0 | y :: r => if y <=? x then S (bisect_right r x) else 0 end.
(* itertools.accumulate *)
Fixpoint accumulate_from (acc : nat) (l : list nat) : list nat :=
  match l with [] => [] | x :: r => (acc + x) :: accumulate_from (acc + x) r end.
Definition accumulate (l : list nat) : list nat := accumulate_from 0 l.

(* stable insertion sort by a string key (np.argsort / sorted on unique keys) *)
Section Sort.
Context {A : Type} (key : A -> string).
Fixpoint insert_by (x : A) (l : list A) : list A :=
  match l with
  | [] => [x]
  | y :: r => if String.leb (key x) (key y) then x :: l else y :: insert_by x r
  end.
Fixpoint sort_by (l : list A) : list A :=
  match l with [] => [] | x :: r => insert_by x (sort_by r) end.
End Sort.

Definition mem_str (s : string) (l : list string) : bool := existsb (String.eqb s) l.
Fixpoint nodup_str (l : list string) : list string :=
  match l with [] => [] | x :: r => if mem_str x r then nodup_str r else x :: nodup_str r end.
Fixpoint has_dup_str (l : list string) : bool :=
  match l with [] => false | x :: r => mem_str x r || has_dup_str r end.

Inductive kind := Control | Noise.

(* The four mechanisms introduced by the fix: commits 628883f, 1b28810, 818a95a.  The model of the CURRENT
   code is the instance [current] (all on); the other instances are the pre-fix behaviours, kept only to show
   by witnesses that the theorems depend on each mechanism (Proofs/Concat.v, *_prefix_refuted).            *)
Record mech := mkMech {
  m_map_all : bool;      (* identifier mapping updated for EVERY pulse holding a clashing operator (else: first only) *)
  m_dup_check : bool;    (* ValueError when a suffixed identifier is already in use *)
  m_pc_general : bool;   (* calc_pulse_correlation_FF=True disables the two shortcuts of concatenate *)
  m_rows_by_id : bool }. (* rows of a pulse's control matrix ordered by its mapped identifiers (argsort) *)
Definition current : mech := mkMech true true true true.
Definition prefix : mech := mkMech false false false false.

Section Bookkeeping.
Variables oper coef : Type.
Variable oeqb : oper -> oper -> bool.
Variable ceqb : coef -> coef -> bool.
Variable czero : coef.

(* one operator of one pulse: (operator, identifier, coefficient row over the pulse's segments) *)
Record entry := mkEntry { e_op : oper; e_id : string; e_row : list coef }.
(* the control or noise Hamiltonian of one pulse: number of segments + its operators *)
Record ham := mkHam { h_ndt : nat; h_entries : list entry }.

Inductive herror :=
| EOperIds (k : kind)      (* 'Trying to concatenate pulses with equal .. operators but different identifiers' *)
| EDupIds (k : kind)       (* 'Cannot disambiguate clashing .. identifiers, the suffixed identifier is already in use' *)
| ENoInfer.                (* 'Not all pulses have the same noise operators and non-trivial noise sensitivities ..' *)

Record hresult := mkHRes {
  r_ops : list oper; r_ids : list string; r_rows : list (list coef);
  r_map : list (list (string * string)) }.     (* pulse_identifier_mapping: per pulse, old -> new identifier *)

(* all operators in the order of np.concatenate(opers), each with the position of its pulse *)
Fixpoint flatten_from (p : nat) (hs : list ham) : list (nat * entry) :=
  match hs with [] => [] | h :: r => map (pair p) (h_entries h) ++ flatten_from (S p) r end.
Definition flatten (hs : list ham) : list (nat * entry) := flatten_from 0 hs.
(* pulse_idx = accumulate(n_ops): the code recovers the pulse of flat index [ind] as bisect(pulse_idx, ind) *)
Definition pulse_idx (hs : list ham) : list nat := accumulate (map (fun h => length (h_entries h)) hs).
Definition pulse_of_index (hs : list ham) (ind : nat) : nat := bisect_right (pulse_idx hs) ind.

Definition mem_op (o : oper) (l : list oper) : bool := existsb (oeqb o) l.
(* np.unique(hashed_opers, return_index=True): the distinct operators, each represented by its first
   occurrence (pulse position, entry).  np.unique orders them by hash; that order is irrelevant after the
   sort by identifier below, so first-occurrence order is used here.                                   *)
Fixpoint firsts (seen : list oper) (l : list (nat * entry)) : list (nat * entry) :=
  match l with
  | [] => []
  | pe :: r => if mem_op (e_op (snd pe)) seen then firsts seen r
               else pe :: firsts (e_op (snd pe) :: seen) r
  end.
Definition uniq (hs : list ham) : list (nat * entry) := firsts [] (flatten hs).

(* any(len(value) > 1 for value in oper_to_identifier_mapping.values()) *)
Definition oper_ids_clash (hs : list ham) : bool :=
  existsb (fun u => existsb (fun pe => oeqb (e_op (snd u)) (e_op (snd pe)) &&
                                       negb (String.eqb (e_id (snd u)) (e_id (snd pe)))) (flatten hs)) (uniq hs).
(* len(identifier_to_oper_mapping[identifier]) > 1 : more than one distinct operator carries [s] *)
Definition id_clash (hs : list ham) (s : string) : bool :=
  1 <? length (filter (fun u => String.eqb s (e_id (snd u))) (uniq hs)).
(* identifier of the distinct operator [u] in the new Hamiltonian: suffix = first pulse holding it *)
Definition new_id (hs : list ham) (u : nat * entry) : string :=
  if id_clash hs (e_id (snd u)) then suffix (e_id (snd u)) (fst u) else e_id (snd u).
(* first pulse holding operator o (bisect(pulse_idx, hashed_opers.index(op))) *)
Definition first_pulse (hs : list ham) (o : oper) : option nat :=
  option_map fst (find (fun u => oeqb o (e_op (snd u))) (uniq hs)).
(* pulse_identifier_mapping[p]: identity, updated for every pulse holding a clashing operator with the new
   identifier of that operator (suffix = FIRST pulse holding it).  Pre-fix: only for that first pulse.       *)
Definition mapped_id (mc : mech) (hs : list ham) (p : nat) (e : entry) : string :=
  if id_clash hs (e_id e) then
    match first_pulse hs (e_op e) with
    | Some q => if m_map_all mc || (q =? p) then suffix (e_id e) q else e_id e
    | None => e_id e
    end
  else e_id e.
Definition mapping_of (mc : mech) (hs : list ham) (p : nat) (h : ham) : list (string * string) :=
  map (fun e => (e_id e, mapped_id mc hs p e)) (h_entries h).
Fixpoint mappings_from (mc : mech) (hs : list ham) (p : nat) (l : list ham) : list (list (string * string)) :=
  match l with [] => [] | h :: r => mapping_of mc hs p h :: mappings_from mc hs (S p) r end.

(* coefficient row of the distinct operator o: per pulse its own row, NaN (None) where absent *)
Definition row_of (hs : list ham) (o : oper) : list (option coef) :=
  concat (map (fun h => match find (fun e => oeqb o (e_op e)) (h_entries h) with
                        | Some e => map Some (e_row e)
                        | None => repeat None (h_ndt h) end) hs).
Fixpoint somes {X} (l : list (option X)) : list X :=
  match l with [] => [] | Some x :: r => x :: somes r | None :: r => somes r end.
Definition fill {X} (dflt : X) (l : list (option X)) : list X :=
  map (fun x => match x with Some c => c | None => dflt end) l.
Definition has_none {X} (l : list (option X)) : bool := existsb (fun x => match x with None => true | _ => false end) l.
(* noise: constant sensitivity is extended, anything else raises; control: zero *)
Definition complete_row (k : kind) (row : list (option coef)) : option (list coef) :=
  match k with
  | Control => Some (fill czero row)
  | Noise => if has_none row then
               match somes row with
               | [] => Some (fill czero row)          (* cannot happen: the operator occurs in some pulse *)
               | c :: rest => if forallb (ceqb c) rest then Some (fill c row) else None
               end
             else Some (fill czero row)
  end.
Fixpoint all_some {X} (l : list (option X)) : option (list X) :=
  match l with [] => Some [] | None :: _ => None | Some x :: r => option_map (cons x) (all_some r) end.

Definition concatenate_hamiltonian_gen (mc : mech) (k : kind) (hs : list ham) : herror + hresult :=
  if oper_ids_clash hs then inl (EOperIds k) else
  if m_dup_check mc && has_dup_str (map (new_id hs) (uniq hs)) then inl (EDupIds k) else
  let us := sort_by (new_id hs) (uniq hs) in
  match all_some (map (fun u => complete_row k (row_of hs (e_op (snd u)))) us) with
  | None => inl ENoInfer
  | Some rows => inr (mkHRes (map (fun u => e_op (snd u)) us) (map (new_id hs) us) rows (mappings_from mc hs 0 hs))
  end.
Definition concatenate_hamiltonian := concatenate_hamiltonian_gen current.

(* ---------------------------------------------------------------------------------------- *)
(* concatenate_without_filter_function                                                        *)
Record pulse := mkPulse { p_d : nat; p_basis : nat (* tag: hash of the basis bytes *);
                          p_ctrl : ham; p_noise : ham; p_dt : list coef }.
Inductive cerror :=
| EShapes | EBases | EHam (e : herror)
| EForced          (* 'Calculation of filter function forced but not all pulses have the same frequencies cached ..' *)
| ENoFreqPC        (* 'Cannot compute the pulse correlation filter functions; do not have the frequencies ..' *)
| EIndexError      (* unintended: boolean mask of wrong length in control_matrix_atomic[i, idx] = .. *)
| EShapeError.     (* unintended: number of selected rows differs from the pulse's number of noise operators *)

Definition all_equal_nat (l : list nat) : bool :=
  match l with [] => false | x :: r => forallb (Nat.eqb x) r end.
Record newpulse := mkNew { n_ctrl : hresult; n_noise : hresult; n_dt : list coef }.

Definition concatenate_without_ff_gen (mc : mech) (ps : list pulse) : cerror + newpulse :=
  if negb (all_equal_nat (map p_d ps)) then inl EShapes else
  if negb (all_equal_nat (map p_basis ps)) then inl EBases else
  match concatenate_hamiltonian_gen mc Control (map p_ctrl ps) with
  | inl e => inl (EHam e)
  | inr c => match concatenate_hamiltonian_gen mc Noise (map p_noise ps) with
             | inl e => inl (EHam e)
             | inr n => inr (mkNew c n (concat (map p_dt ps)))
             end
  end.
Definition concatenate_without_ff := concatenate_without_ff_gen current.

(* ---------------------------------------------------------------------------------------- *)
(* decision logic of concatenate                                                              *)
(* what matters of an input pulse's cache: the grid cached as omega (a tag), whether a control matrix is
   cached (implies a grid), whether the total propagator is cached                                       *)
Record cache := mkCache { c_omega : option nat; c_cm : bool; c_tp : bool }.
Inductive tri := TNone | TTrue | TFalse.
Record opts := mkOpts { o_ff : tri; o_omega : option nat; o_gen : bool; o_pc : bool }.
Inductive path := PHamOnly | PScratch | PAtomic.
(* what the returned pulse has cached *)
Record ret := mkRet { t_path : path; t_tp : bool; t_grid : option nat; t_cm : bool; t_ff : bool; t_ffgen : bool;
                      t_pc : bool; t_pcgen : bool }.
Inductive outcome := ORaise (e : cerror) | OCopy | ORet (r : ret).

Definition is_ttrue (t : tri) := match t with TTrue => true | _ => false end.
Definition is_tfalse (t : tri) := match t with TFalse => true | _ => false end.
Definition is_tnone (t : tri) := match t with TNone => true | _ => false end.

Definition ham_only (tp : bool) : ret := mkRet PHamOnly tp None false false false false false.
Fixpoint compress {X} (l : list X) (m : list bool) : list X :=
  match l, m with x :: r, b :: mr => if b then x :: compress r mr else compress r mr | _, _ => [] end.
Definition grids_of (cs : list cache) : list nat := somes (map c_omega cs).
Definition count_true (l : list bool) : nat := length (filter (fun b => b) l).

(* the part of concatenate after the frequencies [w] are settled *)
Definition finish_gen (mc : mech) (equal_n lens_ok rows_ok : bool) (o : opts) (w : nat) : outcome :=
  if negb equal_n && negb (m_pc_general mc && o_pc o) then
    (* newpulse.cache_filter_function(omega, which=which): from scratch, no correlations *)
    ORet (mkRet PScratch true (Some w) true true (o_gen o) false false)
  else if negb lens_ok then ORaise EIndexError
  else if negb rows_ok then ORaise EShapeError
  else ORet (mkRet PAtomic true (Some w) true true (o_gen o) (o_pc o) (o_pc o && o_gen o)).
Definition finish := finish_gen current.

(* the identifiers each pulse is believed to hold (values of its identifier mapping), the sorted union,
   and `equal_n_opers = (n_opers_present.sum(axis=0) > 1).any()` *)
Definition pulse_ids (maps : list (list (string * string))) : list (list string) :=
  map (fun m => nodup_str (map snd m)) maps.
Definition unique_ids (maps : list (list (string * string))) : list string :=
  sort_by (fun s => s) (nodup_str (concat (pulse_ids maps))).
Definition present (maps : list (list (string * string))) : list (list bool) :=
  map (fun pid => map (fun u => mem_str u pid) (unique_ids maps)) (pulse_ids maps).
Definition equal_n_opers (maps : list (list (string * string))) : bool :=
  existsb (fun u => 1 <? count_true (map (mem_str u) (pulse_ids maps))) (unique_ids maps).

(* [new_ids]: noise identifiers of the new pulse; [maps]: noise identifier mapping returned by the Hamiltonian
   concatenation; [nn]: number of noise operators of each input pulse *)
Definition decide_gen (mc : mech) (new_ids : list string) (maps : list (list (string * string))) (nn : list nat)
                  (cs : list cache) (o : opts) : outcome :=
  let tp := forallb c_tp cs in
  if is_tfalse (o_ff o) && negb (o_pc o) then ORet (ham_only tp) else
  let equal_n := equal_n_opers maps in
  let lens_ok := length (unique_ids maps) =? length new_ids in
  let rows_ok := forallb (fun x => count_true (fst x) =? snd x) (combine (present maps) nn) in
  match o_omega o with
  | Some w => finish_gen mc equal_n lens_ok rows_ok o w
  | None =>
      let cms := map c_cm cs in
      let any_cm := existsb (fun b => b) cms in
      let gs := if any_cm then grids_of (compress cs cms) else grids_of cs in
      if negb (all_equal_nat gs) then
        if is_ttrue (o_ff o) then ORaise EForced
        else if o_pc o then ORaise ENoFreqPC
        else ORet (ham_only tp)
      else if is_tnone (o_ff o) && negb (m_pc_general mc && o_pc o) && (negb equal_n || negb any_cm) then ORet (ham_only tp)
      else match gs with w :: _ => finish_gen mc equal_n lens_ok rows_ok o w | [] => ORet (ham_only tp) end
  end.
Definition decide := decide_gen current.

Definition concatenate_outcome_gen (mc : mech) (ps : list pulse) (cs : list cache) (o : opts) : outcome :=
  match ps with
  | [_] => OCopy
  | _ => match concatenate_without_ff_gen mc ps with
         | inl e => ORaise e
         | inr np => decide_gen mc (r_ids (n_noise np)) (r_map (n_noise np))
                                (map (fun p => length (h_entries (p_noise p))) ps) cs o
         end
  end.
Definition concatenate_outcome := concatenate_outcome_gen current.

(* row bookkeeping of the atomic path:
     order = np.argsort([n_oper_mapping[i][identifier] for identifier in pulse.n_oper_identifiers])
     control_matrix_atomic[i, idx] = pulse.get_control_matrix(omega)[order]
   The k-th selected row of the new pulse (new identifier order) receives row order[k] of the pulse's own control
   matrix (pre-fix: row k, i.e. the pulse's own identifier order).  [row_sources] gives for pulse i and new row r
   the index of the pulse's own row that lands there (None: operator absent, computed from scratch).          *)
Fixpoint rank_rows (k : nat) (mask : list bool) : list (option nat) :=
  match mask with [] => [] | true :: r => Some k :: rank_rows (S k) r | false :: r => None :: rank_rows k r end.
Definition argsort (l : list string) : list nat :=
  map fst (sort_by (fun x : nat * string => snd x) (combine (seq 0 (length l)) l)).
Definition row_sources_gen (mc : mech) (new_ids : list string) (maps : list (list (string * string))) : list (list (option nat)) :=
  map (fun m => let ranks := rank_rows 0 (map (fun u => mem_str u (map snd m)) new_ids) in
                if m_rows_by_id mc then map (option_map (fun k => nth k (argsort (map snd m)) 0)) ranks else ranks) maps.
Definition row_sources := row_sources_gen current.

End Bookkeeping.

Arguments mkEntry {oper coef}. Arguments e_op {oper coef}. Arguments e_id {oper coef}. Arguments e_row {oper coef}.
Arguments mkHam {oper coef}. Arguments h_ndt {oper coef}. Arguments h_entries {oper coef}.
Arguments mkHRes {oper coef}. Arguments r_ops {oper coef}. Arguments r_ids {oper coef}.
Arguments r_rows {oper coef}. Arguments r_map {oper coef}.
Arguments mkPulse {oper coef}. Arguments p_d {oper coef}. Arguments p_basis {oper coef}. Arguments p_ctrl {oper coef}.
Arguments p_noise {oper coef}. Arguments p_dt {oper coef}.
Arguments mkNew {oper coef}. Arguments n_ctrl {oper coef}. Arguments n_noise {oper coef}. Arguments n_dt {oper coef}.
