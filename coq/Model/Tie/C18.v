(* Tie for C18 (second half: failures leave pulses usable): the raise points of the cache model are the
   calls of the routines listed below; the methods containing them have the pinned hashes (Tie/C07.v), and
   so have the routines whose failure the harness injects. *)
From Coq Require Import String List.
From FF Require Import Extracted.Src Model.Expected Model.Cache Model.Tie.C07.
Import ListNotations.
Local Open Scope string_scope.

Example tie_C18_raise_points :
  Src.h_numeric_diagonalize = Expected.h_numeric_diagonalize
  /\ Src.h_numeric_calculate_control_matrix_from_scratch = Expected.h_numeric_calculate_control_matrix_from_scratch
  /\ Src.h_numeric_calculate_filter_function = Expected.h_numeric_calculate_filter_function
  /\ Src.h_numeric_calculate_pulse_correlation_filter_function = Expected.h_numeric_calculate_pulse_correlation_filter_function
  /\ Src.h_numeric_calculate_second_order_filter_function = Expected.h_numeric_calculate_second_order_filter_function
  /\ Src.h_gradient_calculate_derivative_of_control_matrix_from_scratch = Expected.h_gradient_calculate_derivative_of_control_matrix_from_scratch
  /\ Src.h_gradient_calculate_filter_function_derivative = Expected.h_gradient_calculate_filter_function_derivative
  /\ Src.h_numeric__get_integrand = Expected.h_numeric__get_integrand
  /\ Src.h_util_integrate = Expected.h_util_integrate
  /\ Src.h_util_cexp = Expected.h_util_cexp.
Proof. repeat split; reflexivity. Qed.

(* validation errors are raised before the first effect: the decorator checks, then calls *)
Example tie_C18_validation_first :
  Src.h_util_parse_optional_parameters_decorator_wrapper = Expected.h_util_parse_optional_parameters_decorator_wrapper
  /\ Src.h_util_get_indices_from_identifiers = Expected.h_util_get_indices_from_identifiers.
Proof. split; reflexivity. Qed.
