(* Tie of the C08 model (Model/Decay.v) to the current source. *)
From Coq Require Import ZArith String List.
From FF Require Import Extracted.Src Model.Expected.
Import ListNotations.
Local Open Scope string_scope.

Example tie_C08_get_integrand :
  einsum_numeric__get_integrand =
    ["g...ko,...o,h...ko->gh...o"; "g...ko,...o,h...lo->gh...klo"; "...ko,...o,...ko->...o"; "...ko,...o,...lo->...klo";
     "gako,abo,hbko->ghabo"; "gako,abo,hblo->ghabklo"; "ako,abo,bko->abo"; "ako,abo,blo->abklo"]
  /\ Src.h_numeric__get_integrand = Expected.h_numeric__get_integrand
  /\ Src.h_util_parse_spectrum = Expected.h_util_parse_spectrum
  /\ Src.h_util_get_indices_from_identifiers = Expected.h_util_get_indices_from_identifiers.
Proof. repeat split; reflexivity. Qed.

Example tie_C08_decay_amplitudes :
  Src.h_numeric_calculate_decay_amplitudes = Expected.h_numeric_calculate_decay_amplitudes
  /\ Src.h_util_integrate = Expected.h_util_integrate
  /\ einsum_numeric_calculate_filter_function = ["ako,bko->abo"; "ako,blo->abklo"]
  /\ Src.h_numeric_calculate_filter_function = Expected.h_numeric_calculate_filter_function
  /\ einsum_numeric_calculate_pulse_correlation_filter_function = ["gako,hbko->ghabo"; "gako,hblo->ghabklo"]
  /\ Src.h_numeric_calculate_pulse_correlation_filter_function = Expected.h_numeric_calculate_pulse_correlation_filter_function
  /\ Src.h_pulse_sequence_PulseSequence_is_cached = Expected.h_pulse_sequence_PulseSequence_is_cached
  /\ Src.h_pulse_sequence_PulseSequence_cleanup = Expected.h_pulse_sequence_PulseSequence_cleanup
  /\ Src.h_pulse_sequence_PulseSequence_get_filter_function = Expected.h_pulse_sequence_PulseSequence_get_filter_function
  /\ Src.h_pulse_sequence_PulseSequence_cache_filter_function = Expected.h_pulse_sequence_PulseSequence_cache_filter_function
  /\ Src.h_pulse_sequence_PulseSequence_get_pulse_correlation_control_matrix = Expected.h_pulse_sequence_PulseSequence_get_pulse_correlation_control_matrix
  /\ Src.h_pulse_sequence_PulseSequence_get_pulse_correlation_filter_function = Expected.h_pulse_sequence_PulseSequence_get_pulse_correlation_filter_function.
Proof. repeat split; reflexivity. Qed.

Example tie_C08_infidelity :
  einsum_numeric_infidelity = ["kjj->k"; "ao,bo->abo"; "k,ako->ao"; "k,ako->ao"; "ajj->a"; "gao,hbo->ghabo"; "k,gako->gao"; "k,gako->gao"]
  /\ Src.h_numeric_infidelity = Expected.h_numeric_infidelity
  /\ einsum_basis_Basis_four_element_traces = ["iab,jbc,kcd,lda->ijkl"; "iab,jbc,kcd,lda->ijkl"]
  /\ Src.h_basis_Basis_four_element_traces = Expected.h_basis_Basis_four_element_traces
  /\ Src.h_basis_Basis_four_element_traces__2 = Expected.h_basis_Basis_four_element_traces__2
  /\ Src.h_basis_Basis_sparse = Expected.h_basis_Basis_sparse
  /\ Src.h_basis_Basis_istraceless = Expected.h_basis_Basis_istraceless.
Proof. repeat split; reflexivity. Qed.
