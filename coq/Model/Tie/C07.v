(* Tie of the cache model (Model/Cache.v) to the current source: every method the model mirrors has the
   hash the model was written for, and the attribute tables the model depends on are the extracted ones. *)
From Coq Require Import String List NArith.
From FF Require Import Extracted.Src Model.Expected Model.Cache.
Import ListNotations.
Local Open Scope string_scope.

(* the cache slots of PulseSequence.__init__ (after the nine attributes of the physical definition) are
   exactly the slots of the model, in this order, followed by the _intermediates dict *)
Example tie_C07_init_slots :
  map fst (skipn 9 Src.init_slots) = (map slot_name all_slots ++ ["_intermediates"])%list
  /\ forallb (fun p => String.eqb (snd p) "None") (firstn 16 (skipn 9 Src.init_slots)) = true
  /\ map snd (skipn 25 Src.init_slots) = ["dict()"]
  /\ Src.h_pulse_sequence_PulseSequence___init__ = Expected.h_pulse_sequence_PulseSequence___init__.
Proof. repeat split; reflexivity. Qed.

(* cleanup: [Cache.cleanup] folds over the extracted sets; here: every name in them denotes a slot of the
   model (nothing is silently ignored), the popped keys are keys of the model, the branch structure and the
   literal set of the 'frequency dependent' branch are the ones the model assumes *)
Definition known_attr (a : string) : bool := match attr_target_of a with Some _ => true | None => false end.
Definition known_key (a : string) : bool := match key_of a with Some _ => true | None => false end.
Example tie_C07_cleanup :
  forallb known_attr (Src.cleanup_default_attrs ++ Src.cleanup_concatenation_attrs ++ Src.cleanup_filter_function_attrs)%list = true
  /\ forallb known_key Src.cleanup_pops = true
  /\ map fst Src.cleanup_pops_by_branch = map branch_name [Conservative; Greedy; FreqDep; CleanAll]
  /\ forallb (fun p => forallb known_key (snd p)) Src.cleanup_pops_by_branch = true
  /\ Src.cleanup_branches =
     [("method == 'conservative'", ["default_attrs.union({'_intermediates'})"]);
      ("method == 'greedy'", ["default_attrs.union(concatenation_attrs)"]);
      ("method == 'frequency dependent'",
       ["filter_function_attrs.union({'_control_matrix', '_control_matrix_pc', '_total_phases'})"]);
      ("else", ["filter_function_attrs.union(default_attrs, concatenation_attrs)"])]
  /\ fd_extra_attrs = ["_control_matrix"; "_control_matrix_pc"; "_total_phases"]
  /\ cons_extra_attrs = ["_intermediates"]
  /\ Src.h_pulse_sequence_PulseSequence_cleanup = Expected.h_pulse_sequence_PulseSequence_cleanup.
Proof. repeat split; reflexivity. Qed.

(* what each clean-up mode removes, computed from the extracted sets (bit mask over all_slots; the
   frequency-dependent mode must remove _omega and every frequency-dependent slot: mask 65092) *)
Definition cleared_mask (m : cleanup_method) : N :=
  bits (map (fun s => existsb (fun a => match attr_target_of a with
                                        | Some (ASlot s') => slot_eqb s' s | _ => false end)
                              (cleanup_attrs m)) all_slots).
Example tie_C07_cleanup_masks :
  map cleared_mask [Conservative; Greedy; FreqDep; CleanAll] = [56; 2040; 65092; 65532]%N
  /\ bits (map (fun s => match slot_kind s with KOmega | KFD => true | _ => false end) all_slots) = 65092%N
  (* keys popped per mode (bit k of the mask = key k of all_keys): only the frequency-dependent mode pops (the three
     frequency-dependent intermediates) *)
  /\ map (fun m => bits (map (fun k => existsb (String.eqb (key_name k)) (cleanup_pops_of m)) all_keys))
         [Conservative; Greedy; FreqDep; CleanAll] = [0; 0; 28; 0]%N
  (* modes that replace the _intermediates dict by a new one *)
  /\ map (fun m => existsb (fun a => match attr_target_of a with Some AInter => true | _ => false end) (cleanup_attrs m))
         [Conservative; Greedy; FreqDep; CleanAll] = [true; true; false; true].
Proof. repeat split; reflexivity. Qed.

(* is_cached: every alias denotes a slot of the model *)
Example tie_C07_is_cached :
  forallb (fun p => known_attr (snd p)) Src.is_cached_aliases = true
  /\ Src.h_pulse_sequence_PulseSequence_is_cached = Expected.h_pulse_sequence_PulseSequence_is_cached.
Proof. split; reflexivity. Qed.

(* the methods written out as micro-step sequences in Model/Cache.v *)
Example tie_C07_methods :
  Src.h_pulse_sequence_PulseSequence_get_control_matrix = Expected.h_pulse_sequence_PulseSequence_get_control_matrix
  /\ Src.h_pulse_sequence_PulseSequence_cache_control_matrix = Expected.h_pulse_sequence_PulseSequence_cache_control_matrix
  /\ Src.h_pulse_sequence_PulseSequence_get_pulse_correlation_control_matrix = Expected.h_pulse_sequence_PulseSequence_get_pulse_correlation_control_matrix
  /\ Src.h_pulse_sequence_PulseSequence_get_filter_function = Expected.h_pulse_sequence_PulseSequence_get_filter_function
  /\ Src.h_pulse_sequence_PulseSequence_cache_filter_function = Expected.h_pulse_sequence_PulseSequence_cache_filter_function
  /\ Src.h_pulse_sequence_PulseSequence_get_pulse_correlation_filter_function = Expected.h_pulse_sequence_PulseSequence_get_pulse_correlation_filter_function
  /\ Src.h_pulse_sequence_PulseSequence_get_filter_function_derivative = Expected.h_pulse_sequence_PulseSequence_get_filter_function_derivative
  /\ Src.h_pulse_sequence_PulseSequence_get_total_phases = Expected.h_pulse_sequence_PulseSequence_get_total_phases
  /\ Src.h_pulse_sequence_PulseSequence_cache_total_phases = Expected.h_pulse_sequence_PulseSequence_cache_total_phases
  /\ Src.h_pulse_sequence_PulseSequence_diagonalize = Expected.h_pulse_sequence_PulseSequence_diagonalize.
Proof. repeat split; reflexivity. Qed.

Example tie_C07_properties :
  Src.h_pulse_sequence_PulseSequence_t = Expected.h_pulse_sequence_PulseSequence_t
  /\ Src.h_pulse_sequence_PulseSequence_tau = Expected.h_pulse_sequence_PulseSequence_tau
  /\ Src.h_pulse_sequence_PulseSequence_eigvals = Expected.h_pulse_sequence_PulseSequence_eigvals
  /\ Src.h_pulse_sequence_PulseSequence_eigvecs = Expected.h_pulse_sequence_PulseSequence_eigvecs
  /\ Src.h_pulse_sequence_PulseSequence_propagators = Expected.h_pulse_sequence_PulseSequence_propagators
  /\ Src.h_pulse_sequence_PulseSequence_total_propagator = Expected.h_pulse_sequence_PulseSequence_total_propagator
  /\ Src.h_pulse_sequence_PulseSequence_total_propagator_liouville = Expected.h_pulse_sequence_PulseSequence_total_propagator_liouville
  /\ Src.h_pulse_sequence_PulseSequence_omega = Expected.h_pulse_sequence_PulseSequence_omega
  /\ Src.h_pulse_sequence_PulseSequence_omega__2 = Expected.h_pulse_sequence_PulseSequence_omega__2
  /\ Src.h_pulse_sequence_PulseSequence_eigvals__2 = Expected.h_pulse_sequence_PulseSequence_eigvals__2
  /\ Src.h_pulse_sequence_PulseSequence_eigvecs__2 = Expected.h_pulse_sequence_PulseSequence_eigvecs__2
  /\ Src.h_pulse_sequence_PulseSequence_propagators__2 = Expected.h_pulse_sequence_PulseSequence_propagators__2
  /\ Src.h_pulse_sequence_PulseSequence_total_propagator__2 = Expected.h_pulse_sequence_PulseSequence_total_propagator__2
  /\ Src.h_pulse_sequence_PulseSequence_total_propagator_liouville__2 = Expected.h_pulse_sequence_PulseSequence_total_propagator_liouville__2.
Proof. repeat split; reflexivity. Qed.

Example tie_C07_copies :
  Src.h_pulse_sequence_PulseSequence___copy__ = Expected.h_pulse_sequence_PulseSequence___copy__
  /\ Src.h_pulse_sequence_PulseSequence___deepcopy__ = Expected.h_pulse_sequence_PulseSequence___deepcopy__.
Proof. split; reflexivity. Qed.

(* functions that fill / read the _intermediates dict, and the compositions of getters *)
Example tie_C07_numeric :
  Src.h_numeric_calculate_control_matrix_from_scratch = Expected.h_numeric_calculate_control_matrix_from_scratch
  /\ Src.h_numeric_calculate_second_order_filter_function = Expected.h_numeric_calculate_second_order_filter_function
  /\ Src.h_gradient_calculate_derivative_of_control_matrix_from_scratch = Expected.h_gradient_calculate_derivative_of_control_matrix_from_scratch
  /\ Src.h_numeric_infidelity = Expected.h_numeric_infidelity
  /\ Src.h_numeric_calculate_decay_amplitudes = Expected.h_numeric_calculate_decay_amplitudes
  /\ Src.h_numeric_calculate_frequency_shifts = Expected.h_numeric_calculate_frequency_shifts
  /\ Src.h_numeric_calculate_cumulant_function = Expected.h_numeric_calculate_cumulant_function
  /\ Src.h_numeric_error_transfer_matrix = Expected.h_numeric_error_transfer_matrix
  /\ Src.h_gradient_infidelity_derivative = Expected.h_gradient_infidelity_derivative
  /\ Src.h_util_parse_optional_parameters = Expected.h_util_parse_optional_parameters
  /\ Src.h_util_parse_optional_parameters_decorator_wrapper = Expected.h_util_parse_optional_parameters_decorator_wrapper.
Proof. repeat split; reflexivity. Qed.

(* what the functions taking pulses as inputs do to them *)
Example tie_C07_inputs :
  Src.h_pulse_sequence_concatenate = Expected.h_pulse_sequence_concatenate
  /\ Src.h_pulse_sequence_concatenate_without_filter_function = Expected.h_pulse_sequence_concatenate_without_filter_function
  /\ Src.h_pulse_sequence_concatenate_periodic = Expected.h_pulse_sequence_concatenate_periodic
  /\ Src.h_pulse_sequence_extend = Expected.h_pulse_sequence_extend
  /\ Src.h_pulse_sequence_remap = Expected.h_pulse_sequence_remap.
Proof. repeat split; reflexivity. Qed.
