(* Tie of the C14 model (Model/BasisModel.v) to the current source: hashes of every function the
   model mirrors, the einsum subscripts and the raise conditions it depends on.                *)
From Coq Require Import ZArith String List.
From FF Require Import Extracted.Src Model.Expected.
Import ListNotations.
Local Open Scope string_scope.

Example tie_C14_module : Src.hmod_basis = Expected.hmod_basis.
Proof. reflexivity. Qed.

Example tie_C14_constructors :
  Src.h_basis_Basis_pauli = Expected.h_basis_Basis_pauli
  /\ Src.h_basis_Basis_ggm = Expected.h_basis_Basis_ggm
  /\ Src.h_util_tensor = Expected.h_util_tensor
  /\ Src.h_util_tensor_binary_tensor = Expected.h_util_tensor_binary_tensor
  (* non-positive sizes are rejected; the theorems about ggm assume 0 < d *)
  /\ raises_basis_Basis_pauli = [("ValueError", "n < 1")]
  /\ raises_basis_Basis_ggm = [("ValueError", "d < 1")].
Proof. repeat split; reflexivity. Qed.

Example tie_C14_flags :
  Src.h_basis_Basis_isherm = Expected.h_basis_Basis_isherm
  /\ Src.h_basis_Basis_isorthonorm = Expected.h_basis_Basis_isorthonorm
  /\ Src.h_basis_Basis_istraceless = Expected.h_basis_Basis_istraceless
  /\ Src.h_basis_Basis_iscomplete = Expected.h_basis_Basis_iscomplete
  /\ Src.h_basis_Basis___array_finalize__ = Expected.h_basis_Basis___array_finalize__
  /\ Src.h_basis_Basis___eq__ = Expected.h_basis_Basis___eq__
  /\ Src.h_basis_Basis_H = Expected.h_basis_Basis_H
  /\ Src.h_basis_Basis_T = Expected.h_basis_Basis_T
  /\ Src.h_util_remove_float_errors = Expected.h_util_remove_float_errors
  /\ einsum_basis_Basis_istraceless = ["...jj"].
Proof. repeat split; reflexivity. Qed.

Example tie_C14_expand :
  Src.h_basis_expand = Expected.h_basis_expand
  /\ Src.h_basis_expand_cast = Expected.h_basis_expand_cast
  /\ Src.h_basis_ggm_expand = Expected.h_basis_ggm_expand
  /\ Src.h_basis_ggm_expand_cast = Expected.h_basis_ggm_expand_cast
  /\ Src.h_basis__norm = Expected.h_basis__norm
  /\ Src.h_basis_normalize = Expected.h_basis_normalize
  /\ Src.h_basis_Basis_normalize = Expected.h_basis_Basis_normalize
  /\ Src.h_basis_Basis_tidyup = Expected.h_basis_Basis_tidyup
  /\ einsum_basis_expand = ["bij,bji->b"]
  /\ einsum_basis_ggm_expand = ["...jj"].
Proof. repeat split; reflexivity. Qed.

Example tie_C14_from_partial :
  Src.h_basis_Basis_from_partial = Expected.h_basis_Basis_from_partial
  /\ Src.h_basis__full_from_partial = Expected.h_basis__full_from_partial
  /\ Src.h_basis_Basis___new__ = Expected.h_basis_Basis___new__
  /\ einsum_basis__full_from_partial = ["ij,jkl"]
  /\ raises_basis__full_from_partial =
       [("ValueError", "not elems.isorthonorm");
        ("ValueError", "traceless and (not elems.istraceless)");
        ("ValueError", "labels is not None and len(labels) not in (len(elems), elems.d ** 2)")].
Proof. repeat split; reflexivity. Qed.
