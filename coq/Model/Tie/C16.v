(* Tie of the C16 model (Model/Tensor.v, Model/PauliIdx.v) to the current source: regenerated
   hashes / raise sites (Extracted/Src.v) against the ones the model was written for.           *)
From Coq Require Import ZArith String List.
From FF Require Import Extracted.Src Model.Expected.
Import ListNotations.
Local Open Scope string_scope.

Example tie_C16_shape_and_dims :
  Src.h_util__tensor_product_shape = Expected.h_util__tensor_product_shape
  /\ Src.raises_util__tensor_product_shape = [("ValueError", "not (len(set(dims)) == 1)")]
  /\ Src.h_util__parse_dims_arg = Expected.h_util__parse_dims_arg
  /\ Src.raises_util__parse_dims_arg =
       [("ValueError", "not len(dims) == rank"); ("ValueError", "not len(set((len(dim) for dim in dims))) == 1")].
Proof. repeat split; reflexivity. Qed.

Example tie_C16_tensor :
  Src.h_util_tensor = Expected.h_util_tensor
  /\ Src.h_util_tensor_binary_tensor = Expected.h_util_tensor_binary_tensor.
Proof. repeat split; reflexivity. Qed.

Example tie_C16_tensor_insert :
  Src.h_util_tensor_insert = Expected.h_util_tensor_insert
  /\ Src.h_util_tensor_insert__tensor_insert_subscripts = Expected.h_util_tensor_insert__tensor_insert_subscripts
  /\ Src.h_util_tensor_insert_single_tensor_insert = Expected.h_util_tensor_insert_single_tensor_insert
  /\ Src.raises_util_tensor_insert =
       [("ValueError", "len(args) == 0"); ("ValueError", "not len(pos) == len(args)");
        ("IndexError", "div not in (-1, 0)"); ("ValueError", "except ValueError")].
Proof. repeat split; reflexivity. Qed.

Example tie_C16_tensor_merge :
  Src.h_util_tensor_merge = Expected.h_util_tensor_merge
  /\ Src.raises_util_tensor_merge =
       [("IndexError", "div not in (-1, 0)"); ("ValueError", "except ValueError"); ("ValueError", "except ValueError")].
Proof. repeat split; reflexivity. Qed.

Example tie_C16_tensor_transpose :
  Src.h_util_tensor_transpose = Expected.h_util_tensor_transpose
  /\ Src.raises_util_tensor_transpose =
       [("ValueError", "except ValueError"); ("TypeError", "except TypeError"); ("ValueError", "except ValueError")].
Proof. repeat split; reflexivity. Qed.

Example tie_C16_pauli_index_maps :
  Src.h_basis_equivalent_pauli_basis_elements = Expected.h_basis_equivalent_pauli_basis_elements
  /\ Src.h_basis_remap_pauli_basis_elements = Expected.h_basis_remap_pauli_basis_elements.
Proof. repeat split; reflexivity. Qed.
