(* Tie of the C19 development to the current source.  The closed forms themselves are not
   modelled by hand: Extracted/Analytic.v is the machine translation of analytic.py, regenerated
   on every run, and the theorems of Properties/C19.v are about those very definitions -- a changed
   formula or a swapped parity branch breaks a proof.  The hashes below additionally pin the text
   of the module and of its six functions.                                                       *)
From Coq Require Import ZArith String List.
From FF Require Import Extracted.Src Model.Expected.
Import ListNotations.
Local Open Scope string_scope.

Example tie_C19_analytic_module : Src.hmod_analytic = Expected.hmod_analytic.
Proof. reflexivity. Qed.

Example tie_C19_analytic_functions :
  Src.h_analytic_FID = Expected.h_analytic_FID
  /\ Src.h_analytic_SE = Expected.h_analytic_SE
  /\ Src.h_analytic_PDD = Expected.h_analytic_PDD
  /\ Src.h_analytic_CPMG = Expected.h_analytic_CPMG
  /\ Src.h_analytic_CDD = Expected.h_analytic_CDD
  /\ Src.h_analytic_UDD = Expected.h_analytic_UDD.
Proof. repeat split; reflexivity. Qed.

(* the numeric side of the statement (filter function of the sign-modulated free evolution) *)
Example tie_C19_numeric :
  Src.h_numeric__first_order_integral = Expected.h_numeric__first_order_integral
  /\ Src.h_numeric_calculate_control_matrix_from_scratch = Expected.h_numeric_calculate_control_matrix_from_scratch
  /\ Src.h_numeric_calculate_filter_function = Expected.h_numeric_calculate_filter_function.
Proof. repeat split; reflexivity. Qed.
