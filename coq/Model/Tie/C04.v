(* Tie of the C04 model (Model/Periodic.v, cm_from_atomic of Model/Numeric.v) to the current source. *)
From Coq Require Import ZArith String List.
From FF Require Import Extracted.Src Model.Expected.
Import ListNotations.
Local Open Scope string_scope.

Example tie_C04_control_matrix_periodic :
  Src.h_numeric_calculate_control_matrix_periodic = Expected.h_numeric_calculate_control_matrix_periodic
  /\ einsum_numeric_calculate_control_matrix_from_atomic = ["ijo,jk->iko"]
  /\ Src.h_numeric_calculate_control_matrix_from_atomic = Expected.h_numeric_calculate_control_matrix_from_atomic.
Proof. repeat split; reflexivity. Qed.

Example tie_C04_concatenate_periodic :
  Src.h_pulse_sequence_concatenate_periodic = Expected.h_pulse_sequence_concatenate_periodic
  /\ Src.h_pulse_sequence_PulseSequence_get_total_phases = Expected.h_pulse_sequence_PulseSequence_get_total_phases
  /\ Src.h_pulse_sequence_PulseSequence_cache_total_phases = Expected.h_pulse_sequence_PulseSequence_cache_total_phases
  /\ Src.h_pulse_sequence_PulseSequence_total_propagator_liouville = Expected.h_pulse_sequence_PulseSequence_total_propagator_liouville
  /\ Src.h_pulse_sequence_PulseSequence_cache_filter_function = Expected.h_pulse_sequence_PulseSequence_cache_filter_function
  /\ Src.h_pulse_sequence_concatenate = Expected.h_pulse_sequence_concatenate
  /\ Src.h_util_cexp = Expected.h_util_cexp.
Proof. repeat split; reflexivity. Qed.
