(* Tie of the C06 model (Model/Remap.v) to the current source: hashes of every function whose
   body the model mirrors, and of the PulseSequence methods whose side effects on the remapped
   pulse are modelled (cache_* / get_* / lazily computed properties).                          *)
From Coq Require Import ZArith String List.
From FF Require Import Extracted.Src Model.Expected.
Import ListNotations.
Local Open Scope string_scope.

Example tie_C06_remap :
  Src.h_pulse_sequence_remap = Expected.h_pulse_sequence_remap
  /\ Src.h_pulse_sequence__map_identifiers = Expected.h_pulse_sequence__map_identifiers
  /\ Src.h_util_tensor_transpose = Expected.h_util_tensor_transpose
  /\ Src.h_util__parse_dims_arg = Expected.h_util__parse_dims_arg
  /\ Src.h_basis_remap_pauli_basis_elements = Expected.h_basis_remap_pauli_basis_elements
  /\ Src.h_basis_Basis_pauli = Expected.h_basis_Basis_pauli
  /\ raises_pulse_sequence__map_identifiers =
     [("ValueError", "except KeyError"); ("ValueError", "len(set(remapped_identifiers)) != len(remapped_identifiers)")].
Proof. repeat split; reflexivity. Qed.

Example tie_C06_cache_methods :
  Src.h_pulse_sequence_PulseSequence___init__ = Expected.h_pulse_sequence_PulseSequence___init__
  /\ Src.h_pulse_sequence_PulseSequence_is_cached = Expected.h_pulse_sequence_PulseSequence_is_cached
  /\ Src.h_pulse_sequence_PulseSequence_cache_control_matrix = Expected.h_pulse_sequence_PulseSequence_cache_control_matrix
  /\ Src.h_pulse_sequence_PulseSequence_get_control_matrix = Expected.h_pulse_sequence_PulseSequence_get_control_matrix
  /\ Src.h_pulse_sequence_PulseSequence_cache_filter_function = Expected.h_pulse_sequence_PulseSequence_cache_filter_function
  /\ Src.h_pulse_sequence_PulseSequence_get_filter_function = Expected.h_pulse_sequence_PulseSequence_get_filter_function
  /\ Src.h_pulse_sequence_PulseSequence_cache_total_phases = Expected.h_pulse_sequence_PulseSequence_cache_total_phases
  /\ Src.h_pulse_sequence_PulseSequence_get_total_phases = Expected.h_pulse_sequence_PulseSequence_get_total_phases
  /\ Src.h_pulse_sequence_PulseSequence_diagonalize = Expected.h_pulse_sequence_PulseSequence_diagonalize
  /\ Src.h_pulse_sequence_PulseSequence_tau = Expected.h_pulse_sequence_PulseSequence_tau
  /\ Src.h_pulse_sequence_PulseSequence_tau__2 = Expected.h_pulse_sequence_PulseSequence_tau__2
  /\ Src.h_pulse_sequence_PulseSequence_t__2 = Expected.h_pulse_sequence_PulseSequence_t__2
  /\ Src.h_pulse_sequence_PulseSequence_total_propagator = Expected.h_pulse_sequence_PulseSequence_total_propagator
  /\ Src.h_pulse_sequence_PulseSequence_total_propagator__2 = Expected.h_pulse_sequence_PulseSequence_total_propagator__2
  /\ Src.h_pulse_sequence_PulseSequence_total_propagator_liouville = Expected.h_pulse_sequence_PulseSequence_total_propagator_liouville
  /\ Src.h_pulse_sequence_PulseSequence_total_propagator_liouville__2 = Expected.h_pulse_sequence_PulseSequence_total_propagator_liouville__2
  /\ Src.h_pulse_sequence_PulseSequence_eigvals = Expected.h_pulse_sequence_PulseSequence_eigvals
  /\ Src.h_pulse_sequence_PulseSequence_eigvals__2 = Expected.h_pulse_sequence_PulseSequence_eigvals__2
  /\ Src.h_pulse_sequence_PulseSequence_eigvecs__2 = Expected.h_pulse_sequence_PulseSequence_eigvecs__2
  /\ Src.h_pulse_sequence_PulseSequence_propagators__2 = Expected.h_pulse_sequence_PulseSequence_propagators__2
  /\ Src.h_pulse_sequence_PulseSequence_omega = Expected.h_pulse_sequence_PulseSequence_omega
  /\ Src.h_pulse_sequence_PulseSequence_omega__2 = Expected.h_pulse_sequence_PulseSequence_omega__2.
Proof. repeat split; reflexivity. Qed.

(* the numeric engine the from-scratch quantities of the theorems refer to *)
Example tie_C06_numeric :
  einsum_numeric_calculate_filter_function = ["ako,bko->abo"; "ako,blo->abklo"]
  /\ einsum_superoperator_liouville_representation = ["...ba,ibc,...cd->...iad"]
  /\ Src.h_numeric_calculate_filter_function = Expected.h_numeric_calculate_filter_function
  /\ Src.h_numeric_calculate_control_matrix_from_scratch = Expected.h_numeric_calculate_control_matrix_from_scratch
  /\ Src.h_numeric_diagonalize = Expected.h_numeric_diagonalize
  /\ Src.h_superoperator_liouville_representation = Expected.h_superoperator_liouville_representation.
Proof. repeat split; reflexivity. Qed.
