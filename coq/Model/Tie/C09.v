(* Tie of the C09 model (Model/Cumulant.v) to the current source. *)
From Coq Require Import ZArith String List.
From FF Require Import Extracted.Src Model.Expected.
Import ListNotations.
Local Open Scope string_scope.

Example tie_C09_cumulant_function :
  einsum_numeric_calculate_cumulant_function =
    ["...kl,klji->...ij"; "...kl,kjli->...ij"; "...kl,kilj->...ij"; "...kl,kijl->...ij";
     "...kl,klji->...ij"; "...kl,lkji->...ij"; "...kl,klij->...ij"; "...kl,lkij->...ij"]
  /\ Src.h_numeric_calculate_cumulant_function = Expected.h_numeric_calculate_cumulant_function
  /\ Src.h_numeric_calculate_decay_amplitudes = Expected.h_numeric_calculate_decay_amplitudes
  /\ Src.h_numeric_calculate_frequency_shifts = Expected.h_numeric_calculate_frequency_shifts
  /\ einsum_basis_Basis_four_element_traces = ["iab,jbc,kcd,lda->ijkl"; "iab,jbc,kcd,lda->ijkl"]
  /\ Src.h_basis_Basis_four_element_traces = Expected.h_basis_Basis_four_element_traces
  /\ Src.h_basis_Basis_four_element_traces__2 = Expected.h_basis_Basis_four_element_traces__2
  /\ Src.h_basis_Basis_sparse = Expected.h_basis_Basis_sparse
  /\ Src.h_basis_Basis___array_finalize__ = Expected.h_basis_Basis___array_finalize__.
Proof. repeat split; reflexivity. Qed.

Example tie_C09_error_transfer_matrix :
  Src.h_numeric_error_transfer_matrix = Expected.h_numeric_error_transfer_matrix
  /\ einsum_superoperator_liouville_to_choi = ["...ij,jba,icd->...acbd"]
  /\ Src.h_superoperator_liouville_to_choi = Expected.h_superoperator_liouville_to_choi
  /\ Src.h_superoperator_liouville_is_CP = Expected.h_superoperator_liouville_is_CP
  /\ Src.h_superoperator_liouville_is_cCP = Expected.h_superoperator_liouville_is_cCP.
Proof. repeat split; reflexivity. Qed.
