(* Tie of the C11 model (Model/Gradient.v) to the current source: regenerated hashes, einsum
   strings and thresholds (Extracted/Src.v) against the ones the model was written for.        *)
From Coq Require Import ZArith String List.
From FF Require Import Extracted.Src Model.Expected Model.GradConsts.
Import ListNotations.
Local Open Scope string_scope.

Example tie_C11_derivative_integral :
  thr_gradient__derivative_integral =
    [("np.abs(dE * dt) < 1e-07", (944473296573929, -73)%Z); ("np.abs(EdE * dt) < 0.01", (5764607523034235, -59)%Z)]
  /\ (di_thr_dE, di_thr_series) = ((944473296573929, -73)%Z, (5764607523034235, -59)%Z)
  /\ Src.h_gradient__derivative_integral = Expected.h_gradient__derivative_integral
  /\ Src.h_util_cexp = Expected.h_util_cexp.
Proof. repeat split; reflexivity. Qed.

Example tie_C11_liouville_derivative :
  einsum_gradient__liouville_derivative = ["htsba,tjkba->thsjk"]
  /\ thr_gradient__liouville_derivative = [("np.abs(omega_diff * dt_broadcast) < 1e-07", (944473296573929, -73)%Z)]
  /\ ld_thr = (944473296573929, -73)%Z
  /\ Src.h_gradient__liouville_derivative = Expected.h_gradient__liouville_derivative
  /\ Src.h_superoperator_liouville_representation = Expected.h_superoperator_liouville_representation.
Proof. repeat split; reflexivity. Qed.

Example tie_C11_timestep_derivative :
  einsum_gradient__control_matrix_at_timestep_derivative = ["ahpm,opm->ahop"; "ahpn,opn->ahop"; "o,jnk,ahokn->ajho"]
  /\ Src.h_gradient__control_matrix_at_timestep_derivative = Expected.h_gradient__control_matrix_at_timestep_derivative
  /\ Src.h_util_tensor = Expected.h_util_tensor
  /\ Src.h_util_tensor_transpose = Expected.h_util_tensor_transpose.
Proof. repeat split; reflexivity. Qed.

Example tie_C11_from_scratch :
  einsum_gradient_calculate_derivative_of_control_matrix_from_scratch = ["o,icd,adc,odc->aio"; "tajo,thsjk->hosak"]
  /\ Src.h_gradient_calculate_derivative_of_control_matrix_from_scratch
     = Expected.h_gradient_calculate_derivative_of_control_matrix_from_scratch
  /\ Src.h_numeric__transform_hamiltonian = Expected.h_numeric__transform_hamiltonian
  /\ Src.h_numeric__transform_by_unitary = Expected.h_numeric__transform_by_unitary
  /\ Src.h_numeric__first_order_integral = Expected.h_numeric__first_order_integral.
Proof. repeat split; reflexivity. Qed.

Example tie_C11_filter_function_derivative :
  einsum_gradient_calculate_filter_function_derivative = ["ako,hotak->atho"]
  /\ Src.h_gradient_calculate_filter_function_derivative = Expected.h_gradient_calculate_filter_function_derivative
  /\ Src.h_pulse_sequence_PulseSequence_get_filter_function_derivative
     = Expected.h_pulse_sequence_PulseSequence_get_filter_function_derivative
  /\ raises_pulse_sequence_PulseSequence_get_filter_function_derivative = [("ValueError", "actual_shape != required_shape")]
  /\ Src.h_util_get_indices_from_identifiers = Expected.h_util_get_indices_from_identifiers.
Proof. repeat split; reflexivity. Qed.

Example tie_C11_infidelity_derivative :
  einsum_gradient_infidelity_derivative = ["ajj->a"; "...o,...tho->...tho"]
  /\ Src.h_gradient_infidelity_derivative = Expected.h_gradient_infidelity_derivative
  /\ Src.h_util_parse_spectrum = Expected.h_util_parse_spectrum
  /\ Src.h_util_integrate = Expected.h_util_integrate
  /\ Src.hmod_gradient = Expected.hmod_gradient.
Proof. repeat split; reflexivity. Qed.
