(* Tie of the C13 model to the current source: regenerated hashes / constants (Extracted/Src.v)
   against the ones the model was written for (Model/Expected.v and the literals below).
   The scaling theorem depends on the FORM of the small-denominator test (dimensionless
   |x dt| > thr, not |x| > thr): the extracted test expression is an obligation here.         *)
From Coq Require Import ZArith String List.
From FF Require Import Extracted.Src Model.Expected.
Import ListNotations.
Local Open Scope string_scope.

Example tie_C13_dimensionless_mask :
  thr_numeric__first_order_integral = [("np.abs(int_buf.imag * dt) > 1e-07", (944473296573929, -73)%Z)]
  /\ Src.h_numeric__first_order_integral = Expected.h_numeric__first_order_integral.
Proof. split; reflexivity. Qed.

Example tie_C13_control_matrix :
  einsum_numeric_calculate_control_matrix_from_scratch = ["o,jmn,omn,knm->jko"]
  /\ Src.h_numeric_calculate_control_matrix_from_scratch = Expected.h_numeric_calculate_control_matrix_from_scratch
  /\ Src.h_numeric__transform_hamiltonian = Expected.h_numeric__transform_hamiltonian
  /\ Src.h_numeric__transform_by_unitary = Expected.h_numeric__transform_by_unitary
  /\ Src.h_numeric__propagate_eigenvectors = Expected.h_numeric__propagate_eigenvectors
  /\ Src.h_util_cexp = Expected.h_util_cexp
  /\ einsum_numeric_calculate_filter_function = ["ako,bko->abo"; "ako,blo->abklo"]
  /\ Src.h_numeric_calculate_filter_function = Expected.h_numeric_calculate_filter_function.
Proof. repeat split; reflexivity. Qed.

(* propagators (cumulative products), time grid, Hamiltonian assembly, operator sorting *)
Example tie_C13_pulse :
  einsum_numeric_diagonalize = ["lij,jl,lkj->lik"]
  /\ Src.h_numeric_diagonalize = Expected.h_numeric_diagonalize
  /\ einsum_pulse_sequence_PulseSequence_diagonalize = ["ijk,il->ljk"]
  /\ Src.h_pulse_sequence_PulseSequence_diagonalize = Expected.h_pulse_sequence_PulseSequence_diagonalize
  /\ Src.h_pulse_sequence_PulseSequence_t = Expected.h_pulse_sequence_PulseSequence_t
  /\ Src.h_pulse_sequence__parse_Hamiltonian = Expected.h_pulse_sequence__parse_Hamiltonian
  /\ Src.h_pulse_sequence__parse_args = Expected.h_pulse_sequence__parse_args
  /\ Src.h_pulse_sequence_PulseSequence___init__ = Expected.h_pulse_sequence_PulseSequence___init__
  /\ Src.h_util_integrate = Expected.h_util_integrate.
Proof. repeat split; reflexivity. Qed.

(* the observables of the check are read through these getters (their cache tests must not depend on the time unit) *)
Example tie_C13_getters :
  Src.h_pulse_sequence_PulseSequence_get_control_matrix = Expected.h_pulse_sequence_PulseSequence_get_control_matrix
  /\ Src.h_pulse_sequence_PulseSequence_get_filter_function = Expected.h_pulse_sequence_PulseSequence_get_filter_function
  /\ Src.h_pulse_sequence_PulseSequence_cache_control_matrix = Expected.h_pulse_sequence_PulseSequence_cache_control_matrix
  /\ Src.h_pulse_sequence_PulseSequence_cache_filter_function = Expected.h_pulse_sequence_PulseSequence_cache_filter_function
  /\ Src.h_numeric_infidelity = Expected.h_numeric_infidelity.
Proof. repeat split; reflexivity. Qed.
