(* Tie of the C20 model (Model/Validate.v) to the current source: the raise-site catalogue (exception class,
   guard) of every function whose checks the model mirrors, and the hashes of these functions.  A removed,
   added, re-ordered or weakened check changes a literal below or a hash. *)
From Coq Require Import ZArith String List.
From FF Require Import Extracted.Src Model.Expected.
Import ListNotations.
Local Open Scope string_scope.

Example tie_C20_raises_pulse_sequence__parse_args :
  raises_pulse_sequence__parse_args = [("TypeError", "not hasattr(dt, '__len__') or isinstance(dt, (str, bytes))"); ("ValueError", "dt.size == 0"); ("ValueError", "not np.isreal(dt).all()"); ("ValueError", "(dt < 0).any() or not np.isfinite(dt).all()"); ("ValueError", "control_args[0].shape[-2:] != noise_args[0].shape[-2:]"); ("ValueError", "not hasattr(basis, 'btype')"); ("ValueError", "basis.shape[1:] != (d, d)")].
Proof. reflexivity. Qed.
Example tie_C20_raises_pulse_sequence__parse_Hamiltonian :
  raises_pulse_sequence__parse_Hamiltonian = [("TypeError", "not isinstance(H, (list, tuple))"); ("TypeError", "not all((isinstance(item, (list, tuple)) for item in H))"); ("TypeError", "not args"); ("TypeError", "not all((hasattr(coeff, '__len__') for coeff in coeffs))"); ("ValueError", "len(set(identifiers)) != len(identifiers)"); ("ValueError", "not all((len(coeff) == n_dt for coeff in coeffs))")].
Proof. reflexivity. Qed.
Example tie_C20_raises_pulse_sequence_PulseSequence___init__ :
  raises_pulse_sequence_PulseSequence___init__ = [("TypeError", "len(args) < 3")].
Proof. reflexivity. Qed.
Example tie_C20_raises_pulse_sequence_PulseSequence___getitem__ :
  raises_pulse_sequence_PulseSequence___getitem__ = [("IndexError", "not new_dt.size")].
Proof. reflexivity. Qed.
Example tie_C20_raises_pulse_sequence_PulseSequence___matmul__ :
  raises_pulse_sequence_PulseSequence___matmul__ = [("TypeError", "not hasattr(other, 'c_opers')")].
Proof. reflexivity. Qed.
Example tie_C20_raises_pulse_sequence__concatenate_Hamiltonian :
  raises_pulse_sequence__concatenate_Hamiltonian = [("ValueError", "any((len(value) > 1 for value in oper_to_identifier_mapping.values()))"); ("ValueError", "len(set(concat_identifiers)) != len(concat_identifiers)"); ("ValueError", "not ((nonnan_coeff == nonnan_coeff[0]).all())")].
Proof. reflexivity. Qed.
Example tie_C20_raises_pulse_sequence_concatenate_without_filter_function :
  raises_pulse_sequence_concatenate_without_filter_function = [("TypeError", "except TypeError"); ("TypeError", "not all((hasattr(pls, 'c_opers') for pls in pulses))"); ("ValueError", "len(set((pulse.c_opers.shape[1:] for pulse in pulses))) != 1"); ("ValueError", "not util.all_array_equal((pulse.basis for pulse in pulses))")].
Proof. reflexivity. Qed.
Example tie_C20_raises_pulse_sequence_concatenate :
  raises_pulse_sequence_concatenate = [("TypeError", "not hasattr(pulses[0], 'c_opers')"); ("ValueError", "calc_filter_function"); ("ValueError", "calc_pulse_correlation_FF")].
Proof. reflexivity. Qed.
Example tie_C20_raises_pulse_sequence_concatenate_periodic :
  raises_pulse_sequence_concatenate_periodic = [("TypeError", "not hasattr(pulse, 'c_opers')"); ("TypeError", "except TypeError"); ("ValueError", "repeats < 1")].
Proof. reflexivity. Qed.
Example tie_C20_raises_pulse_sequence_extend :
  raises_pulse_sequence_extend = [("TypeError", "not all((hasattr(pls, 'c_opers') for pls in pulses))"); ("ValueError", "except ValueError"); ("TypeError", "int(qubit) != qubit"); ("ValueError", "not all((pulse.d == d_per_qubit for pulse in single_qubit_pulses))"); ("ValueError", "not all((pulse.d == d_per_qubit ** len(qubits) for pulse, qubits in zip(multi_qubit_pulses, multi_qubit_idx)))"); ("ValueError", "not util.all_array_equal((pulse.dt for pulse in pulses))"); ("ValueError", "len(active_qubits) != len(active_qubits_list)"); ("ValueError", "last_qubit + 1 > N"); ("ValueError", "not equal_omega"); ("ValueError", "cache_diagonalization is False and additional_noise_Hamiltonian is not None"); ("ValueError", "add_n_opers.shape[1:] != (d, d)"); ("ValueError", "any((n_oper_id in n_oper_identifiers for n_oper_id in add_n_oper_id))"); ("ValueError", "len(set(c_oper_identifiers)) != len(c_oper_identifiers) or len(set(n_oper_identifiers)) != len(n_oper_identifiers)")].
Proof. reflexivity. Qed.
Example tie_C20_raises_pulse_sequence_PulseSequence_get_pulse_correlation_control_matrix :
  raises_pulse_sequence_PulseSequence_get_pulse_correlation_control_matrix = [("util.CalculationError", "")].
Proof. reflexivity. Qed.
Example tie_C20_raises_pulse_sequence_PulseSequence_get_pulse_correlation_filter_function :
  raises_pulse_sequence_PulseSequence_get_pulse_correlation_filter_function = [("util.CalculationError", "")].
Proof. reflexivity. Qed.
Example tie_C20_raises_util_parse_optional_parameters_decorator_wrapper :
  raises_util_parse_optional_parameters_decorator_wrapper = [("ValueError", "value not in allowed")].
Proof. reflexivity. Qed.
Example tie_C20_raises_util_parse_spectrum :
  raises_util_parse_spectrum = [("ValueError", "except ValueError"); ("ValueError", "spectrum.ndim == 3 and (not np.allclose(spectrum, spectrum.conj().swapaxes(0, 1)))"); ("ValueError", "spectrum.ndim > 3")].
Proof. reflexivity. Qed.
Example tie_C20_raises_util_parse_operators :
  raises_util_parse_operators = [("TypeError", "not (hasattr(oper, 'data') and hasattr(oper, 'dexp'))"); ("ValueError", "parsed_opers.ndim > 3"); ("ValueError", "len(set(parsed_opers.shape[-2:])) != 1")].
Proof. reflexivity. Qed.
Example tie_C20_raises_util__parse_dims_arg :
  raises_util__parse_dims_arg = [("ValueError", "not len(dims) == rank"); ("ValueError", "not len(set((len(dim) for dim in dims))) == 1")].
Proof. reflexivity. Qed.
Example tie_C20_raises_util_get_indices_from_identifiers :
  raises_util_get_indices_from_identifiers = [("ValueError", "except KeyError")].
Proof. reflexivity. Qed.
Example tie_C20_raises_util_tensor_transpose :
  raises_util_tensor_transpose = [("ValueError", "except ValueError"); ("TypeError", "except TypeError"); ("ValueError", "except ValueError")].
Proof. reflexivity. Qed.
Example tie_C20_raises_numeric_infidelity :
  raises_numeric_infidelity = [("TypeError", "not callable(spectrum)"); ("TypeError", "except AttributeError"); ("ValueError", "not (spacing == 'log')"); ("ValueError", "pulse.is_cached('omega') and (not np.array_equal(pulse.omega, omega))"); ("NotImplementedError", "spectrum.ndim > 2")].
Proof. reflexivity. Qed.
Example tie_C20_raises_numeric_calculate_decay_amplitudes :
  raises_numeric_calculate_decay_amplitudes = [("ValueError", "not np.array_equal(pulse.omega, omega)")].
Proof. reflexivity. Qed.
Example tie_C20_raises_numeric_calculate_cumulant_function :
  raises_numeric_calculate_cumulant_function = [("ValueError", "decay_amplitudes is None or (frequency_shifts is None and second_order)"); ("ValueError", "which == 'correlations' and second_order"); ("ValueError", "frequency_shifts.shape != decay_amplitudes.shape")].
Proof. reflexivity. Qed.
Example tie_C20_raises_numeric_error_transfer_matrix :
  raises_numeric_error_transfer_matrix = [("ValueError", "pulse is None or spectrum is None or omega is None"); ("TypeError", "except AttributeError"); ("ValueError", "except ValueError")].
Proof. reflexivity. Qed.
Example tie_C20_raises_basis_Basis___new__ :
  raises_basis_Basis___new__ = [("TypeError", "not hasattr(basis_array, '__getitem__')"); ("ValueError", "basis.shape[0] > np.prod(basis.shape[1:])"); ("ValueError", "len(labels) != len(basis)")].
Proof. reflexivity. Qed.
Example tie_C20_raises_basis__full_from_partial :
  raises_basis__full_from_partial = [("ValueError", "not elems.isorthonorm"); ("ValueError", "traceless and (not elems.istraceless)"); ("ValueError", "labels is not None and len(labels) not in (len(elems), elems.d ** 2)")].
Proof. reflexivity. Qed.
Example tie_C20_raises_pulse_sequence__map_identifiers :
  raises_pulse_sequence__map_identifiers = [("ValueError", "except KeyError"); ("ValueError", "len(set(remapped_identifiers)) != len(remapped_identifiers)")].
Proof. reflexivity. Qed.
Example tie_C20_raises_pulse_sequence_PulseSequence_cache_control_matrix :
  raises_pulse_sequence_PulseSequence_cache_control_matrix = [("ValueError", "control_matrix.ndim not in (3, 4) or control_matrix.shape[-3:] != required_shape")].
Proof. reflexivity. Qed.
Example tie_C20_raises_pulse_sequence_PulseSequence_cache_filter_function :
  raises_pulse_sequence_PulseSequence_cache_filter_function = [("ValueError", "filter_function.shape != required_shape")].
Proof. reflexivity. Qed.
Example tie_C20_raises_pulse_sequence_PulseSequence_cache_total_phases :
  raises_pulse_sequence_PulseSequence_cache_total_phases = [("ValueError", "np.shape(total_phases) != np.shape(omega)")].
Proof. reflexivity. Qed.
Example tie_C20_raises_pulse_sequence_PulseSequence_propagator_at_arb_t :
  raises_pulse_sequence_PulseSequence_propagator_at_arb_t = [("ValueError", "(t > self.t[-1]).any()")].
Proof. reflexivity. Qed.
Example tie_C20_raises_basis_Basis_pauli :
  raises_basis_Basis_pauli = [("ValueError", "n < 1")].
Proof. reflexivity. Qed.
Example tie_C20_raises_basis_Basis_ggm :
  raises_basis_Basis_ggm = [("ValueError", "d < 1")].
Proof. reflexivity. Qed.

Example tie_C20_hashes :
  Src.h_pulse_sequence__concatenate_Hamiltonian = Expected.h_pulse_sequence__concatenate_Hamiltonian
  /\ Src.h_pulse_sequence_concatenate = Expected.h_pulse_sequence_concatenate
  /\ Src.h_pulse_sequence__parse_args = Expected.h_pulse_sequence__parse_args
  /\ Src.h_pulse_sequence__parse_Hamiltonian = Expected.h_pulse_sequence__parse_Hamiltonian
  /\ Src.h_pulse_sequence_PulseSequence___init__ = Expected.h_pulse_sequence_PulseSequence___init__
  /\ Src.h_pulse_sequence_PulseSequence___getitem__ = Expected.h_pulse_sequence_PulseSequence___getitem__
  /\ Src.h_pulse_sequence_PulseSequence___matmul__ = Expected.h_pulse_sequence_PulseSequence___matmul__
  /\ Src.h_pulse_sequence_concatenate_without_filter_function = Expected.h_pulse_sequence_concatenate_without_filter_function
  /\ Src.h_pulse_sequence_concatenate_periodic = Expected.h_pulse_sequence_concatenate_periodic
  /\ Src.h_pulse_sequence_extend = Expected.h_pulse_sequence_extend
  /\ Src.h_pulse_sequence_PulseSequence_get_pulse_correlation_control_matrix = Expected.h_pulse_sequence_PulseSequence_get_pulse_correlation_control_matrix
  /\ Src.h_pulse_sequence_PulseSequence_get_pulse_correlation_filter_function = Expected.h_pulse_sequence_PulseSequence_get_pulse_correlation_filter_function
  /\ Src.h_util_parse_optional_parameters_decorator_wrapper = Expected.h_util_parse_optional_parameters_decorator_wrapper
  /\ Src.h_util_parse_spectrum = Expected.h_util_parse_spectrum
  /\ Src.h_util_parse_operators = Expected.h_util_parse_operators
  /\ Src.h_util__parse_dims_arg = Expected.h_util__parse_dims_arg
  /\ Src.h_util_get_indices_from_identifiers = Expected.h_util_get_indices_from_identifiers
  /\ Src.h_util_tensor_transpose = Expected.h_util_tensor_transpose
  /\ Src.h_numeric_infidelity = Expected.h_numeric_infidelity
  /\ Src.h_numeric_calculate_decay_amplitudes = Expected.h_numeric_calculate_decay_amplitudes
  /\ Src.h_numeric_calculate_cumulant_function = Expected.h_numeric_calculate_cumulant_function
  /\ Src.h_numeric_error_transfer_matrix = Expected.h_numeric_error_transfer_matrix
  /\ Src.h_basis_Basis___new__ = Expected.h_basis_Basis___new__
  /\ Src.h_basis__full_from_partial = Expected.h_basis__full_from_partial
  /\ Src.h_pulse_sequence_remap = Expected.h_pulse_sequence_remap
  /\ Src.h_pulse_sequence__map_identifiers = Expected.h_pulse_sequence__map_identifiers
  /\ Src.h_pulse_sequence__default_extend_mapping = Expected.h_pulse_sequence__default_extend_mapping
  /\ Src.h_util_all_array_equal = Expected.h_util_all_array_equal
  /\ Src.h_numeric__get_integrand = Expected.h_numeric__get_integrand
  /\ Src.h_basis_Basis_from_partial = Expected.h_basis_Basis_from_partial
  /\ Src.h_pulse_sequence_PulseSequence_cache_control_matrix = Expected.h_pulse_sequence_PulseSequence_cache_control_matrix
  /\ Src.h_pulse_sequence_PulseSequence_cache_filter_function = Expected.h_pulse_sequence_PulseSequence_cache_filter_function
  /\ Src.h_pulse_sequence_PulseSequence_cache_total_phases = Expected.h_pulse_sequence_PulseSequence_cache_total_phases
  /\ Src.h_pulse_sequence_PulseSequence_propagator_at_arb_t = Expected.h_pulse_sequence_PulseSequence_propagator_at_arb_t
  /\ Src.h_basis_Basis_pauli = Expected.h_basis_Basis_pauli
  /\ Src.h_basis_Basis_ggm = Expected.h_basis_Basis_ggm
  /\ Src.h_gradient_infidelity_derivative = Expected.h_gradient_infidelity_derivative.
Proof. repeat split; reflexivity. Qed.
