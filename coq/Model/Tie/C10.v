(* Tie of the C10 model (Model/SecondOrder.v) to the current source: regenerated hashes, subscript
   strings and threshold literals (Extracted/Src.v) against the ones the model was written for
   (Model/Expected.v and the literals below).  The two dimensionless case tests |EdE dt| > 1e-5,
   |dEE dt| > 1e-5 are extracted literals; the exact-zero guards [np.not_equal(., 0)] of the divisions,
   the -2 sin^2(x/2) form, the three case formulas (with their first-order terms, a13e2c1) and the order of the buffer updates are inside the
   hashed body of _second_order_integral.                                                          *)
From Coq Require Import ZArith String List.
From FF Require Import Extracted.Src Model.Expected.
Import ListNotations.
Local Open Scope string_scope.

Example tie_C10_second_order_integral :
  thr_numeric__second_order_integral =
    [("np.abs(EdE * dt) > 1e-05", (5902958103587057, -69)%Z); ("np.abs(dEE * dt) > 1e-05", (5902958103587057, -69)%Z)]
  /\ Src.h_numeric__second_order_integral = Expected.h_numeric__second_order_integral.
Proof. split; reflexivity. Qed.

Example tie_C10_second_order_filter_function :
  einsum_numeric_calculate_second_order_filter_function =
    ["oijmn,akij,blmn->abklo"; "akl,ilk->aikl"; "ako,blo->abklo"]
  /\ Src.h_numeric_calculate_second_order_filter_function = Expected.h_numeric_calculate_second_order_filter_function.
Proof. split; reflexivity. Qed.

(* the per-segment control matrix and the transformed operators the assembly takes from the cache or recomputes *)
Example tie_C10_control_matrix_step :
  einsum_numeric_calculate_control_matrix_from_scratch = ["o,jmn,omn,knm->jko"]
  /\ thr_numeric__first_order_integral = [("np.abs(int_buf.imag * dt) > 1e-07", (944473296573929, -73)%Z)]
  /\ Src.h_numeric_calculate_control_matrix_from_scratch = Expected.h_numeric_calculate_control_matrix_from_scratch
  /\ Src.h_numeric__first_order_integral = Expected.h_numeric__first_order_integral
  /\ Src.h_numeric__transform_hamiltonian = Expected.h_numeric__transform_hamiltonian
  /\ Src.h_numeric__transform_by_unitary = Expected.h_numeric__transform_by_unitary
  /\ Src.h_numeric__propagate_eigenvectors = Expected.h_numeric__propagate_eigenvectors
  /\ Src.h_numeric_diagonalize = Expected.h_numeric_diagonalize
  /\ Src.h_util_cexp = Expected.h_util_cexp.
Proof. repeat split; reflexivity. Qed.

Example tie_C10_frequency_shifts :
  Src.h_numeric_calculate_frequency_shifts = Expected.h_numeric_calculate_frequency_shifts
  /\ Src.h_numeric__get_integrand = Expected.h_numeric__get_integrand
  /\ Src.h_util_integrate = Expected.h_util_integrate
  /\ Src.h_util_parse_spectrum = Expected.h_util_parse_spectrum.
Proof. repeat split; reflexivity. Qed.

(* the getter that passes PulseSequence._intermediates, and what a change of frequencies removes from it *)
Example tie_C10_getter :
  Src.h_pulse_sequence_PulseSequence_get_filter_function = Expected.h_pulse_sequence_PulseSequence_get_filter_function
  /\ Src.h_pulse_sequence_PulseSequence_cache_filter_function = Expected.h_pulse_sequence_PulseSequence_cache_filter_function
  /\ Src.h_pulse_sequence_PulseSequence_get_control_matrix = Expected.h_pulse_sequence_PulseSequence_get_control_matrix
  /\ Src.h_pulse_sequence_PulseSequence_cleanup = Expected.h_pulse_sequence_PulseSequence_cleanup
  /\ cleanup_pops = ["control_matrix_step"; "first_order_integral"; "phase_factors"].
Proof. repeat split; reflexivity. Qed.
