(* Tie of the C15 model (Model/Superop.v) to the current source: regenerated hashes and einsum
   subscript strings (Extracted/Src.v) against the ones the model was written for.  The path switch
   `basis.btype == 'GGM' and basis.d > 12 and basis.shape[0] == basis.d**2 and basis == Basis.ggm(basis.d)`, the `-(atol or basis._atol)` threshold, the stride
   `Omega[::d+1]` and the reshape are inside the hashed functions.                             *)
From Coq Require Import ZArith String List.
From FF Require Import Extracted.Src Model.Expected.
Import ListNotations.
Local Open Scope string_scope.

Example tie_C15_liouville_representation :
  einsum_superoperator_liouville_representation = ["...ba,ibc,...cd->...iad"]
  /\ Src.h_superoperator_liouville_representation = Expected.h_superoperator_liouville_representation
  /\ Src.h_basis_expand = Expected.h_basis_expand
  /\ Src.h_basis_expand_cast = Expected.h_basis_expand_cast
  /\ Src.h_basis_ggm_expand = Expected.h_basis_ggm_expand
  /\ Src.h_basis_ggm_expand_cast = Expected.h_basis_ggm_expand_cast
  /\ einsum_basis_ggm_expand = ["...jj"]
  /\ Src.h_basis_Basis_ggm = Expected.h_basis_Basis_ggm
  /\ Src.h_basis_Basis___array_finalize__ = Expected.h_basis_Basis___array_finalize__
  /\ Src.h_basis_Basis___eq__ = Expected.h_basis_Basis___eq__.
Proof. repeat split; reflexivity. Qed.

Example tie_C15_choi_and_tests :
  einsum_superoperator_liouville_to_choi = ["...ij,jba,icd->...acbd"]
  /\ Src.h_superoperator_liouville_to_choi = Expected.h_superoperator_liouville_to_choi
  /\ Src.h_superoperator_liouville_is_CP = Expected.h_superoperator_liouville_is_CP
  /\ Src.h_superoperator_liouville_is_cCP = Expected.h_superoperator_liouville_is_cCP.
Proof. repeat split; reflexivity. Qed.

Example tie_C15_cached_total_propagator_liouville :
  Src.h_pulse_sequence_PulseSequence_total_propagator_liouville = Expected.h_pulse_sequence_PulseSequence_total_propagator_liouville
  /\ Src.h_pulse_sequence_PulseSequence_total_propagator_liouville__2 = Expected.h_pulse_sequence_PulseSequence_total_propagator_liouville__2
  /\ Src.h_pulse_sequence_PulseSequence_cache_control_matrix = Expected.h_pulse_sequence_PulseSequence_cache_control_matrix
  /\ Src.h_pulse_sequence_PulseSequence_is_cached = Expected.h_pulse_sequence_PulseSequence_is_cached
  /\ Src.h_pulse_sequence_concatenate = Expected.h_pulse_sequence_concatenate
  /\ Src.h_pulse_sequence_extend = Expected.h_pulse_sequence_extend
  /\ Src.h_pulse_sequence_remap = Expected.h_pulse_sequence_remap
  /\ Src.h_basis_remap_pauli_basis_elements = Expected.h_basis_remap_pauli_basis_elements.
Proof. repeat split; reflexivity. Qed.
