(* Tie of the C03 models (Model/Concat.v, Model/Atomic.v) to the current source: regenerated hashes /
   constants (Extracted/Src.v) against the ones the models were written for (Model/Expected.v and the
   literals below).                                                                                     *)
From Coq Require Import ZArith String List.
From FF Require Import Extracted.Src Model.Expected.
Import ListNotations.
Local Open Scope string_scope.

(* bookkeeping: _concatenate_Hamiltonian with its three ValueErrors (EOperIds, EDupIds, ENoInfer in the model), the Hamiltonian-only concatenation with
   its rejections, hashing of operators / bases / grids *)
Example tie_C03_concatenate_hamiltonian :
  Src.h_pulse_sequence__concatenate_Hamiltonian = Expected.h_pulse_sequence__concatenate_Hamiltonian
  /\ raises_pulse_sequence__concatenate_Hamiltonian =
       [("ValueError", "any((len(value) > 1 for value in oper_to_identifier_mapping.values()))");
        ("ValueError", "len(set(concat_identifiers)) != len(concat_identifiers)");
        ("ValueError", "not ((nonnan_coeff == nonnan_coeff[0]).all())")]
  /\ Src.h_util_hash_array_along_axis = Expected.h_util_hash_array_along_axis
  /\ Src.h_util_all_array_equal = Expected.h_util_all_array_equal.
Proof. repeat split; reflexivity. Qed.

Example tie_C03_concatenate_without_filter_function :
  Src.h_pulse_sequence_concatenate_without_filter_function = Expected.h_pulse_sequence_concatenate_without_filter_function
  /\ raises_pulse_sequence_concatenate_without_filter_function =
       [("TypeError", "except TypeError");
        ("TypeError", "not all((hasattr(pls, 'c_opers') for pls in pulses))");
        ("ValueError", "len(set((pulse.c_opers.shape[1:] for pulse in pulses))) != 1");
        ("ValueError", "not util.all_array_equal((pulse.basis for pulse in pulses))")].
Proof. repeat split; reflexivity. Qed.

(* decision logic of concatenate, the methods it calls on the inputs / the result, `@`, slicing *)
Example tie_C03_concatenate :
  Src.h_pulse_sequence_concatenate = Expected.h_pulse_sequence_concatenate
  /\ raises_pulse_sequence_concatenate =
       [("TypeError", "not hasattr(pulses[0], 'c_opers')");        (* a single non-PulseSequence element: outside the model *)
        ("ValueError", "calc_filter_function"); ("ValueError", "calc_pulse_correlation_FF")]
  /\ Src.h_pulse_sequence_PulseSequence___matmul__ = Expected.h_pulse_sequence_PulseSequence___matmul__
  /\ Src.h_pulse_sequence_PulseSequence___getitem__ = Expected.h_pulse_sequence_PulseSequence___getitem__
  /\ Src.h_pulse_sequence_PulseSequence_cache_filter_function = Expected.h_pulse_sequence_PulseSequence_cache_filter_function
  /\ Src.h_pulse_sequence_PulseSequence_cache_control_matrix = Expected.h_pulse_sequence_PulseSequence_cache_control_matrix
  /\ Src.h_pulse_sequence_PulseSequence_get_total_phases = Expected.h_pulse_sequence_PulseSequence_get_total_phases
  /\ Src.h_pulse_sequence_PulseSequence_cache_total_phases = Expected.h_pulse_sequence_PulseSequence_cache_total_phases
  /\ Src.h_pulse_sequence_PulseSequence_get_pulse_correlation_filter_function
       = Expected.h_pulse_sequence_PulseSequence_get_pulse_correlation_filter_function
  /\ Src.h_pulse_sequence_PulseSequence_get_pulse_correlation_control_matrix
       = Expected.h_pulse_sequence_PulseSequence_get_pulse_correlation_control_matrix.
Proof. repeat split; reflexivity. Qed.

(* numeric: atomic rule, pulse-correlation filter function, from-scratch control matrix, Liouville
   representation, ordered product *)
Example tie_C03_numeric :
  einsum_numeric_calculate_control_matrix_from_atomic = ["ijo,jk->iko"]
  /\ Src.h_numeric_calculate_control_matrix_from_atomic = Expected.h_numeric_calculate_control_matrix_from_atomic
  /\ einsum_numeric_calculate_pulse_correlation_filter_function = ["gako,hbko->ghabo"; "gako,hblo->ghabklo"]
  /\ Src.h_numeric_calculate_pulse_correlation_filter_function = Expected.h_numeric_calculate_pulse_correlation_filter_function
  /\ einsum_numeric_calculate_control_matrix_from_scratch = ["o,jmn,omn,knm->jko"]
  /\ Src.h_numeric_calculate_control_matrix_from_scratch = Expected.h_numeric_calculate_control_matrix_from_scratch
  /\ einsum_superoperator_liouville_representation = ["...ba,ibc,...cd->...iad"]
  /\ Src.h_superoperator_liouville_representation = Expected.h_superoperator_liouville_representation
  /\ Src.h_util_mdot = Expected.h_util_mdot
  /\ Src.h_util_cexp = Expected.h_util_cexp.
Proof. repeat split; reflexivity. Qed.
