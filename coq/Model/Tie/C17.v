(* Tie of the C17 model (Model/Pulse.v, Model/B64.v) to the current source: regenerated hashes and raise
   sites (Extracted/Src.v) against the ones the model was written for (Model/Expected.v, literals). *)
From Coq Require Import ZArith String List.
From FF Require Import Extracted.Src Model.Expected.
Import ListNotations.
Local Open Scope string_scope.

(* __eq__ with its tolerances (rtol = 1e-10, atol = eps * len(basis)), the order of its tests and the
   length comparison of the operator lists; the segment merge keyed on control AND noise coefficients *)
Example tie_C17_eq :
  Src.h_pulse_sequence_PulseSequence___eq__ = Expected.h_pulse_sequence_PulseSequence___eq__
  /\ Src.h_pulse_sequence__join_equal_segments = Expected.h_pulse_sequence__join_equal_segments
  /\ Src.h_basis_Basis___eq__ = Expected.h_basis_Basis___eq__
  /\ Src.h_basis_Basis___array_finalize__ = Expected.h_basis_Basis___array_finalize__
  /\ Src.h_pulse_sequence_PulseSequence___len__ = Expected.h_pulse_sequence_PulseSequence___len__.
Proof. repeat split; reflexivity. Qed.

(* constructor: default identifiers, uniqueness test, argsort by identifier *)
Example tie_C17_parse :
  Src.h_pulse_sequence__parse_Hamiltonian = Expected.h_pulse_sequence__parse_Hamiltonian
  /\ Src.h_pulse_sequence__parse_args = Expected.h_pulse_sequence__parse_args
  /\ Src.h_pulse_sequence_PulseSequence___init__ = Expected.h_pulse_sequence_PulseSequence___init__
  /\ raises_pulse_sequence__parse_Hamiltonian =
     [("TypeError", "not isinstance(H, (list, tuple))");
      ("TypeError", "not all((isinstance(item, (list, tuple)) for item in H))");
      ("TypeError", "not args");
      ("TypeError", "not all((hasattr(coeff, '__len__') for coeff in coeffs))");
      ("ValueError", "len(set(identifiers)) != len(identifiers)");
      ("ValueError", "not all((len(coeff) == n_dt for coeff in coeffs))")].
Proof. repeat split; reflexivity. Qed.

(* slicing and copying *)
Example tie_C17_getitem_copy :
  Src.h_pulse_sequence_PulseSequence___getitem__ = Expected.h_pulse_sequence_PulseSequence___getitem__
  /\ raises_pulse_sequence_PulseSequence___getitem__ = [("IndexError", "not new_dt.size")]
  /\ Src.h_pulse_sequence_PulseSequence___copy__ = Expected.h_pulse_sequence_PulseSequence___copy__
  /\ Src.h_pulse_sequence_PulseSequence___deepcopy__ = Expected.h_pulse_sequence_PulseSequence___deepcopy__.
Proof. repeat split; reflexivity. Qed.
