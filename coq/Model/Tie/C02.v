(* Tie of the C02 model (Model/Numeric.v: segment_propagator, cumulative, propagators, times;
   Model/Propagator.v) to the current source: regenerated hashes / einsum strings (Extracted/Src.v)
   against the ones the model was written for.                                                    *)
From Coq Require Import ZArith String List.
From FF Require Import Extracted.Src Model.Expected.
Import ListNotations.
Local Open Scope string_scope.

Example tie_C02_diagonalize :
  einsum_numeric_diagonalize = ["lij,jl,lkj->lik"]
  /\ Src.h_numeric_diagonalize = Expected.h_numeric_diagonalize
  /\ Src.h_util_cexp = Expected.h_util_cexp
  /\ einsum_pulse_sequence_PulseSequence_diagonalize = ["ijk,il->ljk"]
  /\ Src.h_pulse_sequence_PulseSequence_diagonalize = Expected.h_pulse_sequence_PulseSequence_diagonalize.
Proof. repeat split; reflexivity. Qed.

Example tie_C02_lazy_properties :
  Src.h_pulse_sequence_PulseSequence_eigvals = Expected.h_pulse_sequence_PulseSequence_eigvals
  /\ Src.h_pulse_sequence_PulseSequence_eigvals__2 = Expected.h_pulse_sequence_PulseSequence_eigvals__2
  /\ Src.h_pulse_sequence_PulseSequence_eigvecs = Expected.h_pulse_sequence_PulseSequence_eigvecs
  /\ Src.h_pulse_sequence_PulseSequence_eigvecs__2 = Expected.h_pulse_sequence_PulseSequence_eigvecs__2
  /\ Src.h_pulse_sequence_PulseSequence_propagators = Expected.h_pulse_sequence_PulseSequence_propagators
  /\ Src.h_pulse_sequence_PulseSequence_propagators__2 = Expected.h_pulse_sequence_PulseSequence_propagators__2
  /\ Src.h_pulse_sequence_PulseSequence_total_propagator = Expected.h_pulse_sequence_PulseSequence_total_propagator
  /\ Src.h_pulse_sequence_PulseSequence_total_propagator__2 = Expected.h_pulse_sequence_PulseSequence_total_propagator__2
  /\ Src.h_pulse_sequence_PulseSequence_is_cached = Expected.h_pulse_sequence_PulseSequence_is_cached.
Proof. repeat split; reflexivity. Qed.

Example tie_C02_propagator_at_arb_t :
  einsum_pulse_sequence_PulseSequence_propagator_at_arb_t = ["lij,jl,lkj->lik"]
  /\ raises_pulse_sequence_PulseSequence_propagator_at_arb_t = [("ValueError", "(t > self.t[-1]).any()")]
  /\ raises_pulse_sequence_PulseSequence___getitem__ = [("IndexError", "not new_dt.size")]
  /\ Src.h_pulse_sequence_PulseSequence_propagator_at_arb_t = Expected.h_pulse_sequence_PulseSequence_propagator_at_arb_t.
Proof. repeat split; reflexivity. Qed.

Example tie_C02_t_tau :
  Src.h_pulse_sequence_PulseSequence_t = Expected.h_pulse_sequence_PulseSequence_t
  /\ Src.h_pulse_sequence_PulseSequence_t__2 = Expected.h_pulse_sequence_PulseSequence_t__2
  /\ Src.h_pulse_sequence_PulseSequence_tau = Expected.h_pulse_sequence_PulseSequence_tau
  /\ Src.h_pulse_sequence_PulseSequence_tau__2 = Expected.h_pulse_sequence_PulseSequence_tau__2
  /\ Src.h_pulse_sequence_PulseSequence___getitem__ = Expected.h_pulse_sequence_PulseSequence___getitem__
  /\ Src.h_pulse_sequence_PulseSequence___init__ = Expected.h_pulse_sequence_PulseSequence___init__
  /\ Src.h_pulse_sequence_concatenate_without_filter_function = Expected.h_pulse_sequence_concatenate_without_filter_function
  /\ Src.h_pulse_sequence_concatenate_periodic = Expected.h_pulse_sequence_concatenate_periodic
  /\ Src.h_pulse_sequence_remap = Expected.h_pulse_sequence_remap
  /\ Src.h_pulse_sequence_extend = Expected.h_pulse_sequence_extend.
Proof. repeat split; reflexivity. Qed.
