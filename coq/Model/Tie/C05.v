(* Tie of the C05 model (Model/Extend.v) to the current source. *)
From Coq Require Import ZArith String List.
From FF Require Import Extracted.Src Model.Expected.
Import ListNotations.
Local Open Scope string_scope.

Example tie_C05_extend :
  Src.h_pulse_sequence_extend = Expected.h_pulse_sequence_extend
  /\ Src.h_pulse_sequence__default_extend_mapping = Expected.h_pulse_sequence__default_extend_mapping
  /\ Src.h_pulse_sequence__map_identifiers = Expected.h_pulse_sequence__map_identifiers
  /\ Src.h_pulse_sequence__merge_attrs = Expected.h_pulse_sequence__merge_attrs
  /\ Src.h_pulse_sequence__insert_attrs = Expected.h_pulse_sequence__insert_attrs
  /\ Src.h_pulse_sequence_remap = Expected.h_pulse_sequence_remap
  /\ Src.h_pulse_sequence__parse_Hamiltonian = Expected.h_pulse_sequence__parse_Hamiltonian
  /\ Src.h_basis_equivalent_pauli_basis_elements = Expected.h_basis_equivalent_pauli_basis_elements
  /\ Src.h_basis_Basis_pauli = Expected.h_basis_Basis_pauli
  /\ Src.h_util_all_array_equal = Expected.h_util_all_array_equal
  /\ Src.h_util_get_indices_from_identifiers = Expected.h_util_get_indices_from_identifiers.
Proof. repeat split; reflexivity. Qed.

(* the order of the checks (exception precedence) the model mirrors *)
Example tie_C05_raises :
  map snd raises_pulse_sequence_extend =
  ["not all((hasattr(pls, 'c_opers') for pls in pulses))";
   "except ValueError";
   "int(qubit) != qubit";
   "not all((pulse.d == d_per_qubit for pulse in single_qubit_pulses))";
   "not all((pulse.d == d_per_qubit ** len(qubits) for pulse, qubits in zip(multi_qubit_pulses, multi_qubit_idx)))";
   "not util.all_array_equal((pulse.dt for pulse in pulses))";
   "len(active_qubits) != len(active_qubits_list)";
   "last_qubit + 1 > N";
   "not equal_omega";
   "cache_diagonalization is False and additional_noise_Hamiltonian is not None";
   "add_n_opers.shape[1:] != (d, d)";
   "any((n_oper_id in n_oper_identifiers for n_oper_id in add_n_oper_id))";
   "len(set(c_oper_identifiers)) != len(c_oper_identifiers) or len(set(n_oper_identifiers)) != len(n_oper_identifiers)"]
  /\ map snd raises_pulse_sequence__map_identifiers =
     ["except KeyError"; "len(set(remapped_identifiers)) != len(remapped_identifiers)"].
Proof. split; reflexivity. Qed.

Example tie_C05_tensor_helpers :
  Src.h_util_tensor = Expected.h_util_tensor
  /\ Src.h_util_tensor_binary_tensor = Expected.h_util_tensor_binary_tensor
  /\ Src.h_util_tensor_insert = Expected.h_util_tensor_insert
  /\ Src.h_util_tensor_insert__tensor_insert_subscripts = Expected.h_util_tensor_insert__tensor_insert_subscripts
  /\ Src.h_util_tensor_insert_single_tensor_insert = Expected.h_util_tensor_insert_single_tensor_insert
  /\ Src.h_util_tensor_merge = Expected.h_util_tensor_merge
  /\ Src.h_util_tensor_transpose = Expected.h_util_tensor_transpose
  /\ Src.h_util__tensor_product_shape = Expected.h_util__tensor_product_shape.
Proof. repeat split; reflexivity. Qed.

Example tie_C05_cache_and_numeric :
  einsum_numeric_calculate_filter_function = ["ako,bko->abo"; "ako,blo->abklo"]
  /\ Src.h_numeric_calculate_filter_function = Expected.h_numeric_calculate_filter_function
  /\ Src.h_numeric_calculate_control_matrix_from_scratch = Expected.h_numeric_calculate_control_matrix_from_scratch
  /\ Src.h_numeric_diagonalize = Expected.h_numeric_diagonalize
  /\ Src.h_superoperator_liouville_representation = Expected.h_superoperator_liouville_representation
  /\ Src.h_pulse_sequence_PulseSequence_is_cached = Expected.h_pulse_sequence_PulseSequence_is_cached
  /\ Src.h_pulse_sequence_PulseSequence_cache_control_matrix = Expected.h_pulse_sequence_PulseSequence_cache_control_matrix
  /\ Src.h_pulse_sequence_PulseSequence_cache_filter_function = Expected.h_pulse_sequence_PulseSequence_cache_filter_function
  /\ Src.h_pulse_sequence_PulseSequence_cache_total_phases = Expected.h_pulse_sequence_PulseSequence_cache_total_phases
  /\ Src.h_pulse_sequence_PulseSequence_get_control_matrix = Expected.h_pulse_sequence_PulseSequence_get_control_matrix
  /\ Src.h_pulse_sequence_PulseSequence_diagonalize = Expected.h_pulse_sequence_PulseSequence_diagonalize
  /\ Src.h_pulse_sequence_PulseSequence_total_propagator = Expected.h_pulse_sequence_PulseSequence_total_propagator
  /\ Src.h_pulse_sequence_PulseSequence_omega = Expected.h_pulse_sequence_PulseSequence_omega.
Proof. repeat split; reflexivity. Qed.
