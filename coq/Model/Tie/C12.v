(* Tie of the C12 statements (control matrix, filter function, infidelity, error transfer matrix)
   to the current source. *)
From Coq Require Import ZArith String List.
From FF Require Import Extracted.Src Model.Expected.
Import ListNotations.
Local Open Scope string_scope.

Example tie_C12_control_matrix :
  einsum_numeric_calculate_control_matrix_from_scratch = ["o,jmn,omn,knm->jko"]
  /\ Src.h_numeric_calculate_control_matrix_from_scratch = Expected.h_numeric_calculate_control_matrix_from_scratch
  /\ Src.h_numeric__transform_by_unitary = Expected.h_numeric__transform_by_unitary
  /\ Src.h_numeric__transform_hamiltonian = Expected.h_numeric__transform_hamiltonian
  /\ Src.h_numeric__propagate_eigenvectors = Expected.h_numeric__propagate_eigenvectors
  /\ Src.h_numeric__first_order_integral = Expected.h_numeric__first_order_integral
  /\ Src.h_numeric_diagonalize = Expected.h_numeric_diagonalize
  /\ einsum_numeric_calculate_filter_function = ["ako,bko->abo"; "ako,blo->abklo"]
  /\ Src.h_numeric_calculate_filter_function = Expected.h_numeric_calculate_filter_function.
Proof. repeat split; reflexivity. Qed.

Example tie_C12_derived :
  Src.h_numeric_infidelity = Expected.h_numeric_infidelity
  /\ Src.h_numeric_error_transfer_matrix = Expected.h_numeric_error_transfer_matrix
  /\ Src.h_numeric_calculate_cumulant_function = Expected.h_numeric_calculate_cumulant_function
  /\ einsum_superoperator_liouville_representation = ["...ba,ibc,...cd->...iad"]
  /\ Src.h_superoperator_liouville_representation = Expected.h_superoperator_liouville_representation
  /\ Src.h_basis_expand = Expected.h_basis_expand
  /\ Src.h_basis_ggm_expand = Expected.h_basis_ggm_expand
  /\ Src.h_basis_ggm_expand_cast = Expected.h_basis_ggm_expand_cast
  /\ Src.h_basis_expand_cast = Expected.h_basis_expand_cast
  /\ Src.h_basis_Basis___array_finalize__ = Expected.h_basis_Basis___array_finalize__
  /\ Src.h_basis_Basis_four_element_traces = Expected.h_basis_Basis_four_element_traces
  /\ Src.h_basis_Basis_four_element_traces__2 = Expected.h_basis_Basis_four_element_traces__2.
Proof. repeat split; reflexivity. Qed.
