(* Tie of the C01 model to the current source: regenerated hashes / constants (Extracted/Src.v)
   against the ones the model was written for (Model/Expected.v and the literals below).       *)
From Coq Require Import ZArith String List.
From FF Require Import Extracted.Src Model.Expected.
Import ListNotations.
Local Open Scope string_scope.

Example tie_C01_first_order_integral :
  thr_numeric__first_order_integral = [("np.abs(int_buf.imag * dt) > 1e-07", (944473296573929, -73)%Z)]
  /\ Src.h_numeric__first_order_integral = Expected.h_numeric__first_order_integral.
Proof. split; reflexivity. Qed.

Example tie_C01_control_matrix :
  einsum_numeric_calculate_control_matrix_from_scratch = ["o,jmn,omn,knm->jko"]
  /\ Src.h_numeric_calculate_control_matrix_from_scratch = Expected.h_numeric_calculate_control_matrix_from_scratch
  /\ Src.h_numeric__transform_hamiltonian = Expected.h_numeric__transform_hamiltonian
  /\ Src.h_numeric__transform_by_unitary = Expected.h_numeric__transform_by_unitary
  /\ Src.h_numeric__propagate_eigenvectors = Expected.h_numeric__propagate_eigenvectors
  /\ Src.h_util_cexp = Expected.h_util_cexp.
Proof. repeat split; reflexivity. Qed.

Example tie_C01_filter_function :
  einsum_numeric_calculate_filter_function = ["ako,bko->abo"; "ako,blo->abklo"]
  /\ Src.h_numeric_calculate_filter_function = Expected.h_numeric_calculate_filter_function
  /\ Src.h_numeric_diagonalize = Expected.h_numeric_diagonalize
  /\ Src.h_pulse_sequence_PulseSequence_get_control_matrix = Expected.h_pulse_sequence_PulseSequence_get_control_matrix
  /\ Src.h_pulse_sequence_PulseSequence_get_filter_function = Expected.h_pulse_sequence_PulseSequence_get_filter_function
  /\ Src.h_pulse_sequence_PulseSequence_cache_filter_function = Expected.h_pulse_sequence_PulseSequence_cache_filter_function
  /\ Src.h_pulse_sequence_PulseSequence_cache_control_matrix = Expected.h_pulse_sequence_PulseSequence_cache_control_matrix.
Proof. repeat split; reflexivity. Qed.
