(* Model of filter_functions/gradient.py (analytic derivatives of the control matrix, the
   filter function and the infidelity) and of PulseSequence.get_filter_function_derivative,
   written once, polymorphic in Ops.  Every number is computed by an [*_entry] function; the
   list-level functions only materialise those entries ([build]) and look them up ([nth]), so
   the theorems about the entries (Proofs/Gradient.v) are about the very constants the
   correspondence check evaluates.  Branching on values is branch-free ([cite (ogt ..)]) like
   the [where=mask] code; the masks are the ones of the source (thresholds extracted).       *)
From Coq Require Import ZArith List.
From FF Require Import Base.Ops Model.Numeric.
Import ListNotations.

Section Grad.
Context {T B : Type} (Op : Ops T B).
Notation Cc := (C (T:=T)).
Notation Matc := (Mat (T:=T)).
Variable d : nat.

(* ------------------------------------------------------------------ _derivative_integral *)
(* np.abs(x) < thr *)
Definition ltabs (x thr : T) : B := ogt Op thr (oabs Op x).
(* x != 0   (the masks EdE*dt == 0, EdEdE*dt == 0 negated) *)
Definition nonzero (x : T) : B := ogt Op (oabs Op x) (o0 Op).

(* tmp2 = (e^{i x dt} - 1)/x computed as 2j*sin(x dt/2)*cexp(x dt/2)/x (no cancellation);  [x*dt == 0] = 1j*dt *)
Definition di_tmp2 (x dt : T) : Cc :=
  let h := odiv Op (omul Op x dt) (o2 Op) in
  let s2 := omul Op (o2 Op) (osin Op h) in
  cite Op (nonzero (omul Op x dt))
    (odiv Op (oneg Op (omul Op s2 (osin Op h))) x, odiv Op (omul Op s2 (ocos Op h)) x)
    (o0 Op, dt).

(* np.polyval([1/144, -1j/30, -1/8, 1j/3, 1/2], th): Horner scheme y = y*th + c *)
Definition di_series_coeffs : list Cc :=
  [(odiv Op (o1 Op) (oZ Op 144), o0 Op); (o0 Op, oneg Op (odiv Op (o1 Op) (oZ Op 30)));
   (oneg Op (odiv Op (o1 Op) (oZ Op 8)), o0 Op); (o0 Op, odiv Op (o1 Op) (oZ Op 3)); (odiv Op (o1 Op) (oZ Op 2), o0 Op)].
Definition horner (cs : list Cc) (th : T) : Cc := fold_left (fun y c => cadd Op (cscal Op th y) c) cs (c0 Op).

(* tmp1 = int_0^dt t e^{ixt} dt = (tmp2 - 1j*dt*e^{i x dt})/x;  [|x dt| < thr_s] = dt**2 * Taylor series   (case Omega_pq == 0) *)
Definition di_tmp1 (thr_s x dt : T) : Cc :=
  let th := omul Op x dt in
  let t2 := di_tmp2 x dt in
  cite Op (ltabs th thr_s) (cscal Op (omul Op dt dt) (horner di_series_coeffs th))
    (cdivr Op (csub Op t2 (cmul Op (o0 Op, dt) (cexp Op th))) x).

(* (-(e^{i y dt} - 1)/y + tmp2) / Omega_pq,  y = x + Omega_pq   (case Omega_pq != 0) *)
Definition di_nz (x dEpq dt : T) : Cc :=
  let y := oadd Op x dEpq in
  cdivr Op (cadd Op (cneg Op (di_tmp2 y dt)) (di_tmp2 x dt)) dEpq.

(* out[o, p, q, m, n] for one frequency w; th2 = (threshold of mask_dE, threshold of mask_series) *)
Definition deriv_integral_entry (th2 : T * T) (w : T) (ev : list T) (dt : T) (p q m n : nat) : Cc :=
  let dEpq := osub Op (vg Op ev p) (vg Op ev q) in
  let x := oadd Op w (osub Op (vg Op ev m) (vg Op ev n)) in
  cite Op (ltabs (omul Op dEpq dt) (fst th2)) (di_tmp1 (snd th2) x dt) (di_nz x dEpq dt).

Definition Arr4 : Type := list (list (list (list Cc))).
Definition a4get (A : Arr4) (p q m n : nat) : Cc := nth n (nth m (nth q (nth p A []) []) []) (c0 Op).
Definition deriv_integral (th3 : T * T) (w : T) (ev : list T) (dt : T) : Arr4 :=
  build d (fun p => build d (fun q => build d (fun m => build d (fun n =>
    deriv_integral_entry th3 w ev dt p q m n)))).

(* the real denominators the code divides by, each with its guard:
   [di_denoms_masked]: executed when the mask is false;  [di_denoms_nz]: executed when the test x != 0 is true *)
Definition di_denoms_masked (th2 : T * T) (w : T) (ev : list T) (dt : T) (p q m n : nat) : list (B * T) :=
  let dEpq := osub Op (vg Op ev p) (vg Op ev q) in
  let x := oadd Op w (osub Op (vg Op ev m) (vg Op ev n)) in
  [(ltabs (omul Op dEpq dt) (fst th2), dEpq); (ltabs (omul Op x dt) (snd th2), x)].
Definition di_denoms_nz (w : T) (ev : list T) (dt : T) (p q m n : nat) : list (B * T) :=
  let dEpq := osub Op (vg Op ev p) (vg Op ev q) in
  let x := oadd Op w (osub Op (vg Op ev m) (vg Op ev n)) in
  [(nonzero (omul Op x dt), x); (nonzero (omul Op (oadd Op x dEpq) dt), oadd Op x dEpq)].

(* ------------------------------------------------------------------ _liouville_derivative *)
(* 1j*(1 - e^{i Om dt})/Om *)
Definition amat_entry (dt Om : T) : Cc :=
  let th := omul Op Om dt in
  (odiv Op (osin Op th) Om, odiv Op (osub Op (o1 Op) (ocos Op th)) Om).
(* mask = np.abs(omega_diff*dt) < thr: (numerically) degenerate pairs -- the diagonal included -- get the limit value dt *)
Definition amat (thr : T) (ev : list T) (dt : T) : Matc :=
  mbuild d d (fun i j => let Om := osub Op (vg Op ev i) (vg Op ev j) in
                         cite Op (ltabs (omul Op Om dt) thr) (dt, o0 Op) (amat_entry dt Om)).
(* (mask, denominator) of every entry of A_mat *)
Definition amat_denoms (thr : T) (ev : list T) (dt : T) : list (B * T) :=
  concat (build d (fun i => build d (fun j =>
    let Om := osub Op (vg Op ev i) (vg Op ev j) in (ltabs (omul Op Om dt) thr, Om)))).

Definition hadamard (A Bm : Matc) : Matc :=
  mbuild d d (fun i j => cmul Op (mget Op A i j) (mget Op Bm i j)).

(* U_deriv[h, g] = -1j * (Q_{g+1} Q_g^dagger V_g (A_g o Cbar_h^g) V_g^dagger) *)
Definition u_deriv (thr : T) (Qg Qg1 V : Matc) (ev : list T) (dt : T) (Cbar : Matc) : Matc :=
  let P := mmul Op d Qg1 (madj Op d Qg) in
  mscal Op d (cneg Op (ci Op))
    (mmul Op d (mmul Op d (mmul Op d P V) (hadamard (amat thr ev dt) Cbar)) (madj Op d V)).

(* U_deriv_transformed[h, g] = Q_{g+1}^dagger U_deriv[h, g] Q_g *)
Definition u_deriv_transformed (Qg Qg1 UD : Matc) : Matc :=
  mmul Op d (mmul Op d (madj Op d Qg1) UD) Qg.

(* 2 * Re sum_{ba} conj(PD[b,a]) X[b,a]     ('htsba,tjkba->thsjk', .real, *= 2) *)
Definition ld_entry (PD X : Matc) : T :=
  omul Op (o2 Op) (fst (csumn Op d (fun b => csumn Op d (fun a =>
    cmul Op (cconj Op (mget Op PD b a)) (mget Op X b a))))).

(* ------------------------------------------------------------------ _control_matrix_at_timestep_derivative *)
(* 'o,icd,adc,odc->aio' for one (a, i, o): phase * sum_{cd} BT[c,d] NT[d,c] I[d,c] *)
Definition step_entry (phase : Cc) (BTi NTa Iw : Matc) : Cc :=
  cmul Op phase (csumn Op d (fun c => csumn Op d (fun e =>
    cmul Op (cmul Op (mget Op BTi c e) (mget Op NTa e c)) (mget Op Iw e c)))).

(* M before the subtraction: 'ahpm,opm->ahop' on l = diag(L), i1 = diag(deriv_integral):
   M1[r,c] = sum_x Cbar[r,x] NT[x,c] DI[r,x,x,c] *)
Definition M1_entry (DI : nat -> nat -> nat -> nat -> Cc) (Cb NT : Matc) (r c : nat) : Cc :=
  csumn Op d (fun x => cmul Op (cmul Op (mget Op Cb r x) (mget Op NT x c)) (DI r x x c)).
(* the subtracted term of the general branch ('ahpn,opn->ahop' on k = diag(K), i2):
   M2[r,c] = sum_x NT[r,x] Cbar[x,c] DI[x,c,r,x] *)
Definition M2_entry (DI : nat -> nat -> nat -> nat -> Cc) (Cb NT : Matc) (r c : nat) : Cc :=
  csumn Op d (fun x => cmul Op (cmul Op (mget Op NT r x) (mget Op Cb x c)) (DI x c r x)).
Definition Mgen_entry DI (Cb NT : Matc) (r c : nat) : Cc :=
  csub Op (M1_entry DI Cb NT r c) (M2_entry DI Cb NT r c).
(* M -= ... : the general expression for every d (the d == 2 shortcut was removed by fix 083da5e) *)
Definition M_entry DI (Cb NT : Matc) (r c : nat) : Cc := Mgen_entry DI Cb NT r c.

(* 'o,jnk,ahokn->ajho' with 1j*basis_transformed: phase * sum_{nk} (i BT_j[n,k]) M[k,n] *)
Definition step_deriv_entry (phase : Cc) (BTj Mm : Matc) : Cc :=
  cmul Op phase (csumn Op d (fun n => csumn Op d (fun k =>
    cmul Op (cmul Op (ci Op) (mget Op BTj n k)) (mget Op Mm k n)))).
(* + n_coeffs_deriv * ctrlmat_step_unit  (control matrix of the noise operator with unit sensitivity; fix 26b5723) *)
Definition sens_term (ncd_ah : T) (step_unit_aj : Cc) : Cc := cscal Op ncd_ah step_unit_aj.

(* ------------------------------------------------------------------ calculate_derivative_of_control_matrix_from_scratch *)
Definition nth2 {A} (dflt : A) (l : list (list A)) (i j : nat) : A := nth j (nth i l []) dflt.
Definition nth3 {A} (dflt : A) (l : list (list (list A))) (i j k : nat) : A := nth k (nth j (nth i l []) []) dflt.
Definition nth4 {A} (dflt : A) (l : list (list (list (list A)))) (i j k m : nat) : A :=
  nth m (nth k (nth j (nth i l []) []) []) dflt.

(* --- data shared by all operators: depends on the spectral data, the grid and the basis only --- *)
(* basis_transformed[g][j] = V_g^dagger C_j V_g *)
Definition sh_BT (Vs basis : list Matc) : list (list Matc) :=
  map (fun V => map (transform_by_unitary Op d V) basis) Vs.
(* first_order_integral[g][o] *)
Definition sh_ints (thr : T) (evs : list (list T)) (dts omega : list T) : list (list Matc) :=
  build (length dts) (fun g => map (fun w => foi Op d thr w (nthv evs g) (vg Op dts g)) omega).
(* deriv_integral[g][o] *)
Definition sh_DIs (thr_di : T * T) (evs : list (list T)) (dts omega : list T) : list (list Arr4) :=
  build (length dts) (fun g => map (fun w => deriv_integral thr_di w (nthv evs g) (vg Op dts g)) omega).
(* util.cexp(omega*t[g]) *)
Definition sh_phase (ts omega : list T) (G : nat) : list (list Cc) :=
  build G (fun g => map (fun w => cexp Op (omul Op w (vg Op ts g))) omega).
(* propagators_liouville[g] *)
Definition sh_Ls (Qs basis : list Matc) : list (list (list T)) := map (fun Q => liouville Op d Q basis) Qs.
(* (basis @ propagators[1:-1, None])[:, :, None] @ basis : X[t][j][k] = C_j Q_{t+1} C_k *)
Definition sh_X (Qs basis : list Matc) (G : nat) : list (list (list Matc)) :=
  build (pred G) (fun t => let Q1 := nthm Qs (S t) in
    map (fun Cj => let CQ := mmul Op d Cj Q1 in map (fun Ck => mmul Op d CQ Ck) basis) basis).

(* --- one noise operator N with sensitivities s_row[g] --- *)
(* n_opers_transformed[g] = s^g V_g^dagger N V_g *)
Definition noise_NT (Vs : list Matc) (N : Matc) (s_row : list T) (G : nat) : list Matc :=
  build G (fun g => mscal Op d (cofr Op (vg Op s_row g)) (transform_by_unitary Op d (nthm Vs g) N)).
(* numeric._transform_hamiltonian(eigvecs, n_opers) without coefficients: V_g^dagger N V_g *)
Definition noise_NT_unit (Vs : list Matc) (N : Matc) (G : nat) : list Matc :=
  build G (fun g => transform_by_unitary Op d (nthm Vs g) N).
(* ctrlmat_step[g][j][o] *)
Definition noise_steps (G nj no : nat) (phases : list (list Cc)) (BTs ints : list (list Matc)) (NTs : list Matc)
  : list (list (list Cc)) :=
  build G (fun g => build nj (fun j => build no (fun o =>
    step_entry (nth2 (c0 Op) phases g o) (nth2 [] BTs g j) (nthm NTs g) (nth2 [] ints g o)))).

(* --- one control operator C --- *)
(* c_opers_transformed[g] = V_g^dagger C V_g *)
Definition ctrl_CB (Vs : list Matc) (Cm : Matc) : list Matc := map (fun V => transform_by_unitary Op d V Cm) Vs.
Definition ctrl_UDT (thr_A : T) (evs : list (list T)) (Vs Qs : list Matc) (dts : list T) (CBs : list Matc) : list Matc :=
  build (length dts) (fun g =>
    let Qg := nthm Qs g in let Qg1 := nthm Qs (S g) in
    u_deriv_transformed Qg Qg1 (u_deriv thr_A Qg Qg1 (nthm Vs g) (nthv evs g) (vg Op dts g) (nthm CBs g))).
(* liouville_deriv[t][s][j][k] for this control operator; t = 0 .. G-2 (propagator Q_{t+1}), s = 0 .. G-1;
   propagators_deriv[t, s] = Q_{t+1} U_deriv_transformed[s] for s <= t, zero otherwise *)
Definition ctrl_LD (G nj : nat) (Qs UDT : list Matc) (X : list (list (list Matc))) : list (list (list (list T))) :=
  build (pred G) (fun t => let Q1 := nthm Qs (S t) in
    build G (fun s =>
      let PD := mmul Op d Q1 (nthm UDT s) in
      build nj (fun j => build nj (fun k =>
        if Nat.leb s t then ld_entry PD (nth3 [] X t j k) else o0 Op)))).

(* --- one pair (noise operator, control operator) --- *)
(* ctrlmat_step_deriv[g][j][o]; ncd_row[g] = n_coeffs_deriv[a, h, g], used when [use_ncd];
   steps_unit = ctrlmat_step of the unit-sensitivity noise operator *)
Definition pair_SD (G nj no : nat) (phases : list (list Cc)) (BTs : list (list Matc)) (DIs : list (list Arr4))
           (NTs CBs : list Matc) (steps_unit : list (list (list Cc)))
           (use_ncd : bool) (ncd_row : list T) : list (list (list Cc)) :=
  build G (fun g =>
    let Ms := build no (fun o => mbuild d d (M_entry (a4get (nth2 [] DIs g o)) (nthm CBs g) (nthm NTs g))) in
    build nj (fun j => build no (fun o =>
      let base := step_deriv_entry (nth2 (c0 Op) phases g o) (nth2 [] BTs g j) (nthm Ms o) in
      if use_ncd then cadd Op base (sens_term (vg Op ncd_row g) (nth3 (c0 Op) steps_unit g j o))
      else base))).

(* ctrlmat_deriv[h, o, s, a, k] = sum_j step_deriv[s][j][o] L_s[j][k]
                                 + sum_{t, j} step[t+1][j][o] liouville_deriv[t][s][j][k]
   ('tajo,thsjk->hosak') *)
Definition assemble_entry (nj G : nat) (sd_s : nat -> Cc) (L_s : nat -> nat -> T)
           (steps : nat -> nat -> Cc) (LD : nat -> nat -> nat -> T) (k : nat) : Cc :=
  cadd Op (csumn Op nj (fun j => cscal Op (L_s j k) (sd_s j)))
          (csumn Op (pred G) (fun t => csumn Op nj (fun j => cscal Op (LD t j k) (steps (S t) j)))).

(* result [s][o][k] *)
Definition pair_deriv (G nj no : nat) (Ls : list (list (list T))) (steps SD : list (list (list Cc)))
           (LD : list (list (list (list T)))) : list (list (list Cc)) :=
  build G (fun s => build no (fun o => build nj (fun k =>
    assemble_entry nj G (fun j => nth3 (c0 Op) SD s j o) (rget Op (nth s Ls []))
      (fun g j => nth3 (c0 Op) steps g j o) (fun t j k' => nth4 (o0 Op) LD t s j k') k))).

(* ------------------------------------------------------------------ calculate_filter_function_derivative *)
(* 2 * Re sum_k conj(B[a,k,o]) dB[h,o,t,a,k]       ('ako,hotak->atho') *)
Definition ffd_entry (nk : nat) (Bk dBk : nat -> Cc) : T :=
  omul Op (o2 Op) (fst (csumn Op nk (fun k => cmul Op (cconj Op (Bk k)) (dBk k)))).

(* filter function derivative [s][o] of one pair; B_a[k][o] is the row of the control matrix *)
Definition pair_ffd (G nj no : nat) (B_a : list (list Cc)) (PDv : list (list (list Cc))) : list (list T) :=
  build G (fun s => build no (fun o =>
    ffd_entry nj (fun k => nth2 (c0 Op) B_a k o) (fun k => nth3 (c0 Op) PDv s o k))).

(* per control operator: (c_opers_transformed[g], liouville_deriv[t][s][j][k]) *)
Definition ctrl_data (thr_A : T) (G nj : nat) (evs : list (list T)) (Vs Qs : list Matc) (dts : list T)
           (X : list (list (list Matc))) (Cm : Matc) : list Matc * list (list (list (list T))) :=
  let CBs := ctrl_CB Vs Cm in (CBs, ctrl_LD G nj Qs (ctrl_UDT thr_A evs Vs Qs dts CBs) X).
(* per pair, from the shared data, the noise operator with its sensitivities and the control data: [s][o][k] *)
Definition pair_of (G nj no : nat) (phases : list (list Cc)) (BTs ints : list (list Matc)) (DIs : list (list Arr4))
           (Ls : list (list (list T))) (Vs : list Matc) (N : Matc) (s_row : list T)
           (cd : list Matc * list (list (list (list T)))) (use_ncd : bool) (ncd_row : list T) : list (list (list Cc)) :=
  let NTs := noise_NT Vs N s_row G in
  let steps := noise_steps G nj no phases BTs ints NTs in
  let steps_unit := noise_steps G nj no phases BTs ints (noise_NT_unit Vs N G) in
  let SD := pair_SD G nj no phases BTs DIs NTs (fst cd) steps_unit use_ncd ncd_row in
  pair_deriv G nj no Ls steps SD (snd cd).

(* calculate_derivative_of_control_matrix_from_scratch: result [a][h][s][o][k]
   (the package's axis order is [h, o, s, a, k]); ncd[a][h][g] *)
Definition ctrlmat_deriv (thr : T) (thr_di : T * T) (thr_A : T) (evs : list (list T)) (Vs Qs : list Matc) (omega : list T)
           (basis nopers copers : list Matc) (ncoeffs : list (list T)) (dts ts : list T)
           (use_ncd : bool) (ncd : list (list (list T))) : list (list (list (list (list Cc)))) :=
  let G := length dts in let nj := length basis in let no := length omega in
  let phases := sh_phase ts omega G in
  let BTs := sh_BT Vs basis in
  let ints := sh_ints thr evs dts omega in
  let DIs := sh_DIs thr_di evs dts omega in
  let Ls := sh_Ls Qs basis in
  let cdata := map (ctrl_data thr_A G nj evs Vs Qs dts (sh_X Qs basis G)) copers in
  build (length nopers) (fun a => build (length copers) (fun h =>
    pair_of G nj no phases BTs ints DIs Ls Vs (nthm nopers a) (nthv ncoeffs a) (nth h cdata ([], []))
            use_ncd (nth2 [] ncd a h))).

(* PulseSequence.get_filter_function_derivative after identifier resolution:
   result [a][s][h][o] (the package's axis order); Bm = get_control_matrix(omega)[n_idx] *)
Definition filter_function_derivative (na nh G nj no : nat) (Bm : Arr3)
           (CD : list (list (list (list (list Cc))))) : list (list (list (list T))) :=
  build na (fun a => build G (fun s => build nh (fun h => build no (fun o =>
    ffd_entry nj (fun k => a3get Op Bm a k o)
              (fun k => nth k (nth o (nth s (nth h (nth a CD []) []) []) []) (c0 Op)))))).

(* ------------------------------------------------------------------ infidelity_derivative *)
(* util.integrate(spectrum * filter_function_deriv, omega) / (2*np.pi*pulse.d) for one (a, s, h) *)
Definition infid_deriv_entry (omega S_a FD_ash : list T) : T :=
  odiv Op (trapz Op (map (fun x => omul Op (fst x) (snd x)) (combine S_a FD_ash)) omega)
          (omul Op (omul Op (o2 Op) (opi Op)) (oZ Op (Z.of_nat d))).
(* the identity component (fix 49bf6b9): seg[g][o] = _first_order_integral(omega, [0], dt_g)[o] * e^{i t_g w_o} *)
Definition ident_seg (thr : T) (ts dts omega : list T) : list (list Cc) :=
  build (length dts) (fun g => map (fun w =>
    cmul Op (foi_entry Op thr w (o0 Op) (o0 Op) (vg Op dts g)) (cexp Op (omul Op (vg Op ts g) w))) omega).
(* ident[a, o] = tr(B_a) * sum_g s_a^g seg[g, o] *)
Definition ident_entry (G : nat) (tr_a : Cc) (s_row : list T) (seg_o : nat -> Cc) : Cc :=
  cmul Op tr_a (csumn Op G (fun g => cscal Op (vg Op s_row g) (seg_o g))).
(* ident_deriv[a, g, h, o] = tr(B_a) * n_coeffs_deriv[a, h, g] * seg[g, o] *)
Definition ident_deriv_entry (tr_a : Cc) (ncd_ahg : T) (seg_go : Cc) : Cc := cmul Op tr_a (cscal Op ncd_ahg seg_go).
(* filter_function_deriv - 2 Re(conj(ident) ident_deriv) / d *)
Definition ffd_minus_ident (FD_agho : T) (id_ao idd_agho : Cc) : T :=
  osub Op FD_agho (odiv Op (omul Op (o2 Op) (fst (cmul Op (cconj Op id_ao) idd_agho))) (oZ Op (Z.of_nat d))).

(* spec[a][o] (already broadcast by parse_spectrum); nopers / ncoeffs / ncd are the SELECTED ones *)
Definition infidelity_derivative (thr : T) (omega : list T) (spec : list (list T)) (FD : list (list (list (list T))))
           (use_ncd : bool) (ncd : list (list (list T))) (nopers : list Matc) (ncoeffs : list (list T))
           (dts ts : list T) : list (list (list T)) :=
  let G := length dts in let no := length omega in
  let seg := ident_seg thr ts dts omega in
  build (length FD) (fun a =>
    let tr_a := mtrace Op d (nthm nopers a) in
    let id_a := build no (fun o => ident_entry G tr_a (nthv ncoeffs a) (fun g => nth2 (c0 Op) seg g o)) in
    build G (fun g => build (length (nth2 [] FD a g)) (fun h =>
      let FDc := if use_ncd
                 then build no (fun o => ffd_minus_ident (nth4 (o0 Op) FD a g h o) (nth o id_a (c0 Op))
                                           (ident_deriv_entry tr_a (nth3 (o0 Op) ncd a h g) (nth2 (c0 Op) seg g o)))
                 else nth3 [] FD a g h in
      infid_deriv_entry omega (nthv spec a) FDc))).

End Grad.

(* ------------------------------------------------------------------ bookkeeping (plain Gallina) *)
From Coq Require Import String Bool.
Local Open Scope bool_scope.

(* util.get_indices_from_identifiers: dict {identifier: index} (a later duplicate overrides an earlier one);
   None = all; an unknown identifier raises ValueError (modelled as None of the outer option) *)
Fixpoint index_of_last (x : string) (l : list string) (i : nat) (acc : option nat) : option nat :=
  match l with
  | [] => acc
  | y :: r => index_of_last x r (S i) (if String.eqb x y then Some i else acc)
  end.
Fixpoint lookup_all (all : list string) (ids : list string) : option (list nat) :=
  match ids with
  | [] => Some []
  | x :: r => match index_of_last x all 0 None, lookup_all all r with
              | Some i, Some ir => Some (i :: ir)
              | _, _ => None
              end
  end.
Definition get_indices_from_identifiers (all : list string) (ids : option (list string)) : option (list nat) :=
  match ids with
  | None => Some (seq 0 (List.length all))
  | Some l => lookup_all all l
  end.

(* selection by index arrays (numpy fancy indexing a[idx]) *)
Definition select {A} (dflt : A) (idx : list nat) (l : list A) : list A := map (fun i => nth i l dflt) idx.

(* util.parse_spectrum: np.broadcast_to(spectrum, (n_idx,)*(ndim-1) + (n_omega,)) succeeds iff, aligned at the
   trailing axis, every axis of the spectrum is 1 or equal to the target; ndim > 3 raises *)
Definition bcast_ok (shape target : list nat) : bool :=
  Nat.eqb (List.length shape) (List.length target) &&
  forallb (fun p => Nat.eqb (fst p) 1 || Nat.eqb (fst p) (snd p)) (combine shape target).
Definition parse_spectrum_accepts (shape : list nat) (n_idx n_omega : nat) : bool :=
  Nat.leb (List.length shape) 3 && Nat.leb 1 (List.length shape) &&
  bcast_ok shape (repeat n_idx (List.length shape - 1) ++ [n_omega]).
(* numeric.infidelity and (since fix 1090e57) gradient.infidelity_derivative parse with idx = the selected noise operators *)
Definition infidelity_accepts (shape : list nat) (n_selected n_all n_omega : nat) : bool :=
  parse_spectrum_accepts shape n_selected n_omega.
Definition infidelity_derivative_accepts (shape : list nat) (n_selected n_all n_omega : nat) : bool :=
  parse_spectrum_accepts shape n_selected n_omega.
