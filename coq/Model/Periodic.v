(* Periodic concatenation (C04): numeric.calculate_control_matrix_periodic and the pieces of
   pulse_sequence.concatenate_periodic that feed it.  Polymorphic in Ops like Model/Numeric.v.
   External routines: numpy.linalg.cond (the per-frequency flag cond(1 - T) < 1e8 since /repo 752331b) and
   numpy.linalg.solve are oracle inputs ([inv], [Ss]); the result of solve is validated by its
   residual (1 - T) S - (1 - T^G) ([solve_residual]) in the correspondence check.           *)
From Coq Require Import ZArith List.
From FF Require Import Base.Ops Model.Numeric Model.Propagator.
Import ListNotations.

Section Per.
Context {T B : Type} (Op : Ops T B).
Notation Cc := (C (T:=T)).
Notation Matc := (Mat (T:=T)).
Variable n : nat.       (* number of basis elements: size of the Liouville representation *)

(* T = np.multiply.outer(phases, total_propagator_liouville), one frequency *)
Definition T_of (ph : Cc) (L : list (list T)) : Matc :=
  mbuild n n (fun i j => cscal Op (rget Op L i j) ph).
Definition msub (A Bm : Matc) : Matc := mbuild n n (fun i j => csub Op (mget Op A i j) (mget Op Bm i j)).
(* nla.matrix_power (binary powering in numpy; same value) *)
Fixpoint mpow (A : Matc) (g : nat) : Matc :=
  match g with O => mid Op n | S k => mmul Op n (mpow A k) A end.
(* itertools.accumulate(repeat(T, k), np.matmul) = [T; T@T; (T@T)@T; ...] *)
Fixpoint accum_from (acc Tm : Matc) (k : nat) : list Matc :=
  match k with O => [] | S k' => acc :: accum_from (mmul Op n acc Tm) Tm k' end.
Definition accumulate_repeat (Tm : Matc) (k : nat) : list Matc := accum_from Tm Tm k.
(* builtin sum: ((0 + x1) + x2) + ... *)
Definition msum (l : list Matc) : Matc := fold_left (madd Op n) l (mzero Op n n).
(* S[~invertible] = eye + sum(accumulate(repeat(T, G - 1), matmul)) *)
Definition geom_explicit (Tm : Matc) (G : nat) : Matc :=
  madd Op n (mid Op n) (msum (accumulate_repeat Tm (Nat.pred G))).
(* residual of S[invertible] = solve(eye - T, eye - matrix_power(T, G)) *)
Definition solve_residual (Tm S : Matc) (G : nat) : Matc :=
  msub (mmul Op n (msub (mid Op n) Tm) S) (msub (mid Op n) (mpow Tm G)).
Definition S_select (inv : bool) (Ssolve Tm : Matc) (G : nat) : Matc :=
  if inv then Ssolve else geom_explicit Tm G.
Definition S_list (no G : nat) (phases : list Cc) (L : list (list T)) (inv : list bool) (Ss : list Matc) : list Matc :=
  build no (fun o => S_select (nth o inv false) (nth o Ss []) (T_of (nth o phases (c0 Op)) L) G).
(* the same list assembled from the all-explicit list (Proofs/Periodic.v: S_list_from_eq); lets the
   correspondence check share the explicit sums between its observables *)
Definition S_list_from (no : nat) (inv : list bool) (Ss Sexp : list Matc) : list Matc :=
  build no (fun o => if nth o inv false then nth o Ss [] else nth o Sexp []).
(* control_matrix_tot = (control_matrix.transpose(2, 0, 1) @ S).transpose(1, 2, 0) *)
Definition cm_apply (na no : nat) (cm : Arr3 (T:=T)) (Sl : list Matc) : Arr3 (T:=T) :=
  a3build na n no (fun a l o => let S := nth o Sl [] in
    csumn Op n (fun k => cmul Op (a3get Op cm a k o) (mget Op S k l))).
Definition cm_periodic (na no G : nat) (phases : list Cc) (cm : Arr3 (T:=T)) (L : list (list T))
           (inv : list bool) (Ss : list Matc) : Arr3 (T:=T) :=
  cm_apply na no cm (S_list no G phases L inv Ss).

(* ----- what concatenate([pulse] * G) feeds to calculate_control_matrix_from_atomic:
         phases[g] = phases^g (cumprod), L[g] = Q_L @ L[g-1] (L[0] = 1), G equal control matrices ----- *)
Fixpoint cpow (z : Cc) (g : nat) : Cc := match g with O => c1 Op | S k => cmul Op (cpow z k) z end.
Definition rmid : list (list T) := build n (fun i => build n (fun j => if Nat.eqb i j then o1 Op else o0 Op)).
Definition rmmul (A Bm : list (list T)) : list (list T) :=
  build n (fun i => build n (fun j => sumn Op n (fun k => omul Op (rget Op A i k) (rget Op Bm k j)))).
Fixpoint rmpow_l (L : list (list T)) (g : nat) : list (list T) :=
  match g with O => rmid | S k => rmmul L (rmpow_l L k) end.
Definition atomic_repeated (na no G : nat) (phases : list Cc) (cm : Arr3 (T:=T)) (L : list (list T)) : Arr3 (T:=T) :=
  cm_from_atomic Op na n no (build G (fun g => map (fun z => cpow z g) phases)) (repeat cm G)
                 (build G (fun g => rmpow_l L g)).

End Per.
