(* Decay amplitudes and infidelity (numeric._get_integrand, calculate_decay_amplitudes,
   infidelity, util.integrate, util.parse_spectrum after broadcasting,
   util.get_indices_from_identifiers as an index list, Basis.four_element_traces).
   Polymorphic in Ops like Model/Numeric.v.  Arrays the Python code materialises are nested
   lists in C order; everything in between is a function of the indices.

   Index conventions (as in the package):
     a, b   noise operators of the pulse            (first axis of the control matrix)
     i, j   POSITIONS in the identifier selection [idx]; operator a = idx[i]
     k, l   basis elements                          (second axis of the control matrix)
     o      frequency sample
     g, h   pulses of a concatenation               (pulse-correlation quantities)          *)
From Coq Require Import ZArith List Bool.
From FF Require Import Base.Ops Model.Numeric.
Import ListNotations.

Section Decay.
Context {T B : Type} (Op : Ops T B).
Notation Cc := (C (T:=T)).
Notation Matc := (Mat (T:=T)).
Notation A3 := (Arr3 (T:=T)).

(* ---------- spectrum after util.parse_spectrum (broadcast to the selection) ---------- *)
Inductive spectrum : Type :=
| Sp1 (s : list Cc)                  (* ndim 1: one spectrum for every selected operator, shape (n_omega)   *)
| Sp2 (s : list (list Cc))           (* ndim 2: one per selected operator, shape (len idx, n_omega)         *)
| Sp3 (s : list (list (list Cc))).   (* ndim 3: cross-spectral matrix, shape (len idx, len idx, n_omega)    *)

Definition spec_at (sp : spectrum) (i j o : nat) : Cc :=
  match sp with
  | Sp1 s => nth o s (c0 Op)
  | Sp2 s => nth o (nth i s []) (c0 Op)
  | Sp3 s => nth o (nth j (nth i s []) []) (c0 Op)
  end.
Definition is_cross (sp : spectrum) : bool := match sp with Sp3 _ => true | _ => false end.

(* leading output axes: (i) -> pairs (i,i) for ndim 1, 2 ; (i,j) for ndim 3, in C order *)
Definition leads (sp : spectrum) (ni : nat) : list (nat * nat) :=
  if is_cross sp then list_prod (seq 0 ni) (seq 0 ni) else map (fun i => (i, i)) (seq 0 ni).

(* util.parse_spectrum: Hermiticity test of a cross-spectral matrix is on the values (np.allclose);
   the model's statement of it, used as a hypothesis of the theorems: S_ij = conj S_ji *)
Definition sel (idx : list nat) (i : nat) : nat := nth i idx O.

(* ---------- rank-5 arrays [a][b][k][l][o] : generalized filter function ---------- *)
Definition Arr5 : Type := list (list (list (list (list Cc)))).
Definition a5get (F : Arr5) (a b k l o : nat) : Cc :=
  nth o (nth l (nth k (nth b (nth a F []) []) []) []) (c0 Op).
Definition a5build (n1 n2 n3 n4 n5 : nat) (f : nat -> nat -> nat -> nat -> nat -> Cc) : Arr5 :=
  build n1 (fun a => build n2 (fun b => build n3 (fun k => build n4 (fun l => build n5 (fun o => f a b k l o))))).

(* numeric.calculate_filter_function(which='generalized') : 'ako,blo->abklo' on (conj B, B);
   numeric.calculate_pulse_correlation_filter_function for one pair (g,h) : 'gako,hblo->ghabklo' *)
Definition ff_generalized (na nk no : nat) (L R : A3) : Arr5 :=
  a5build na na nk nk no (fun a b k l o => cmul Op (cconj Op (a3get Op L a k o)) (a3get Op R b l o)).
(* fidelity variant with two control matrices: 'gako,hbko->ghabo' for one pair (g,h) *)
Definition ff_fidelity2 (na nk no : nat) (L R : A3) : A3 :=
  a3build na na no (fun a b o => csumn Op nk (fun k => cmul Op (cconj Op (a3get Op L a k o)) (a3get Op R b k o))).

(* ---------- numeric._get_integrand ---------- *)
(* control-matrix path, which_FF = 'generalized':
     ndim 1,2 : '...ko,...o,...lo->...klo'    on (conj L[idx], S, R[idx])
     ndim 3   : 'ako,abo,blo->abklo'
   (correlations: 'g...ko,...o,h...lo->gh...klo', 'gako,abo,hblo->ghabklo' with L = B_g, R = B_h);
   the result is [integrand.real] *)
Definition integrand_cm (L R : A3) (idx : list nat) (sp : spectrum) (i j k l o : nat) : T :=
  cre (cmul Op (cmul Op (cconj Op (a3get Op L (sel idx i) k o)) (spec_at sp i j o)) (a3get Op R (sel idx j) l o)).
(* filter-function path, which_FF = 'generalized': moveaxis [-5,-4]->[-3,-2], fancy index
   [..., idx, idx, :] (ndim 1,2) or [..., idx[:,None], idx, :] (ndim 3), times spectrum, moveaxis back *)
Definition integrand_ff (F : Arr5) (idx : list nat) (sp : spectrum) (i j k l o : nat) : T :=
  cre (cmul Op (a5get F (sel idx i) (sel idx j) k l o) (spec_at sp i j o)).
(* filter-function path, which_FF = 'fidelity' (infidelity) *)
Definition integrand_fid (F : A3) (idx : list nat) (sp : spectrum) (i j o : nat) : T :=
  cre (cmul Op (a3get Op F (sel idx i) (sel idx j) o) (spec_at sp i j o)).

(* ---------- util.integrate(f, omega) / (2 pi) ---------- *)
Definition two_pi : T := omul Op (o2 Op) (opi Op).
Definition integrate_2pi (no : nat) (omega : list T) (f : nat -> T) : T :=
  odiv Op (trapz Op (build no f) omega) two_pi.

(* ---------- numeric.calculate_decay_amplitudes ---------- *)
(* one entry Gamma_{(i,j),kl} on the two paths *)
Definition decay_entry_cm (L R : A3) idx sp no omega (i j k l : nat) : T :=
  integrate_2pi no omega (integrand_cm L R idx sp i j k l).
Definition decay_entry_ff (F : Arr5) idx sp no omega (i j k l : nat) : T :=
  integrate_2pi no omega (integrand_ff F idx sp i j k l).

(* result array [p][k][l], p running over [leads] *)
Definition DArr : Type := list (list (list T)).
Definition dget (D : DArr) (p k l : nat) : T := nth l (nth k (nth p D []) []) (o0 Op).
Definition decay_direct (entry : nat -> nat -> nat -> nat -> T) (sp : spectrum) (ni nk : nat) : DArr :=
  map (fun p => build nk (fun k => build nk (fun l => entry (fst p) (snd p) k l))) (leads sp ni).

(* memory_parsimonious=True: loop over k, the LEFT factor sliced to [k:k+1];
   decay_amplitudes[..., k:k+1, :] = integrate(...)/(2 pi), starting from np.empty (modelled by zeros) *)
Definition slice_k (Bm : A3) (k : nat) : A3 := map (fun rows => [nth k rows []]) Bm.
Definition slice_k5 (F : Arr5) (k : nat) : Arr5 := map (map (fun ks => [nth k ks []])) F.
Fixpoint set_nth {A} (l : list A) (n : nat) (x : A) : list A :=
  match l, n with
  | [], _ => []
  | _ :: r, O => x :: r
  | y :: r, S m => y :: set_nth r m x
  end.
(* the block computed in iteration k has shape (.., 1, n_kl); its single row is stored as row k *)
Definition assign_k (D : DArr) (k : nat) (X : DArr) : DArr :=
  map (fun pr => set_nth (fst pr) k (nth 0 (snd pr) [])) (combine D X).
Definition decay_block (entry0 : nat -> nat -> nat -> T) (sp : spectrum) (ni nk : nat) : DArr :=
  map (fun p => [build nk (fun l => entry0 (fst p) (snd p) l)]) (leads sp ni).
Fixpoint pars_loop (block : nat -> DArr) (ks : list nat) (D : DArr) : DArr :=
  match ks with [] => D | k :: r => pars_loop block r (assign_k D k (block k)) end.
Definition dzeros (np nk : nat) : DArr := build np (fun _ => build nk (fun _ => build nk (fun _ => o0 Op))).
Definition decay_parsimonious (block : nat -> DArr) (sp : spectrum) (ni nk : nat) : DArr :=
  pars_loop block (seq 0 nk) (dzeros (length (leads sp ni)) nk).

(* the four option combinations for one pair of control matrices (L, R) = (B, B) for which='total',
   (B_g, B_h) for which='correlations'; [use_ff] = pulse.is_cached('filter_function_gen') *)
Definition decay_amplitudes (pars use_ff : bool) (na nk no : nat) (L R : A3) (idx : list nat)
           (sp : spectrum) (omega : list T) : DArr :=
  let ni := length idx in
  let F := ff_generalized na nk no L R in
  match pars, use_ff with
  | false, false => decay_direct (decay_entry_cm L R idx sp no omega) sp ni nk
  | false, true  => decay_direct (decay_entry_ff F idx sp no omega) sp ni nk
  | true, false  => decay_parsimonious
                      (fun k => decay_block (fun i j l => decay_entry_cm (slice_k L k) R idx sp no omega i j 0 l) sp ni nk) sp ni nk
  | true, true   => decay_parsimonious
                      (fun k => decay_block (fun i j l => decay_entry_ff (slice_k5 F k) idx sp no omega i j 0 l) sp ni nk) sp ni nk
  end.
(* which = 'correlations': [g][h][p][k][l] *)
Definition decay_amplitudes_pc (pars use_ff : bool) (na nk no : nat) (Bpc : list A3) (idx : list nat)
           (sp : spectrum) (omega : list T) : list (list DArr) :=
  map (fun Bg => map (fun Bh => decay_amplitudes pars use_ff na nk no Bg Bh idx sp omega) Bpc) Bpc.

(* ---------- Basis.four_element_traces : 'iab,jbc,kcd,lda->ijkl' ---------- *)
Variable d : nat.
Definition pair_products (basis : list Matc) : list (list Matc) :=
  map (fun Ci => map (fun Cj => mmul Op d Ci Cj) basis) basis.
Definition pp_get (P : list (list Matc)) (i j : nat) : Matc := nth j (nth i P []) [].
(* T_ijkl = tr(C_i C_j C_k C_l), contracted as (C_i C_j)(C_k C_l) *)
Definition four_trace (P : list (list Matc)) (i j k l : nat) : Cc := mtrprod Op d (pp_get P i j) (pp_get P k l).
Definition btrace (basis : list Matc) (k : nat) : Cc := mtrace Op d (nthm basis k).

Fixpoint dnat (n : nat) : T := match n with O => o0 Op | S k => oadd Op (dnat k) (o1 Op) end.

(* ---------- numeric.infidelity (after fix 2891db3) ---------- *)
(* basis_traces = einsum('kjj->k', basis) *)
Definition basis_traces (basis : list Matc) (nk : nat) : list Cc := build nk (fun k => btrace basis k).
(* fidelity filter function minus the rank-one identity term, for EVERY basis:
     einsum('ako,bko->abo', conj L, R)
     - einsum('ao,bo->abo', einsum('k,ako->ao', t, conj L), einsum('k,ako->ao', t, R)) / d
   (L = R = control matrix for which='total'; L = B_g, R = B_h for which='correlations') *)
Definition infid_ff_corrected (na nk no : nat) (L R : A3) (t : list Cc) : A3 :=
  a3build na na no (fun a b o =>
    csub Op (csumn Op nk (fun k => cmul Op (cconj Op (a3get Op L a k o)) (a3get Op R b k o)))
            (cdivr Op (cmul Op (csumn Op nk (fun k => cmul Op (nth k t (c0 Op)) (cconj Op (a3get Op L a k o))))
                               (csumn Op nk (fun l => cmul Op (nth l t (c0 Op)) (a3get Op R b l o))))
                      (dnat d))).
(* infid = integrate(integrand, omega) / (2 pi d), flat over [leads] *)
Definition infid_of_ff (F : A3) (idx : list nat) (sp : spectrum) (no : nat) (omega : list T) : list T :=
  map (fun p => odiv Op (trapz Op (build no (integrand_fid F idx sp (fst p) (snd p))) omega)
                        (omul Op two_pi (dnat d)))
      (leads sp (length idx)).
Definition infidelity_total (na nk no : nat) (Bm : A3) (basis : list Matc)
           (idx : list nat) (sp : spectrum) (omega : list T) : list T :=
  infid_of_ff (infid_ff_corrected na nk no Bm Bm (basis_traces basis nk)) idx sp no omega.
(* which='correlations': pulse.get_pulse_correlation_filter_function() = 'gako,hbko->ghabo', with ([corrected] = true)
   or without the rank-one term 'gao,hbo->ghabo' *)
Definition infidelity_pc_value (corrected : bool) (na nk no : nat) (Bpc : list A3) (basis : list Matc)
           (idx : list nat) (sp : spectrum) (omega : list T) : list (list (list T)) :=
  map (fun Bg => map (fun Bh =>
         infid_of_ff (if corrected then infid_ff_corrected na nk no Bg Bh (basis_traces basis nk)
                      else ff_fidelity2 na nk no Bg Bh) idx sp no omega) Bpc) Bpc.
(* the branch (after fix a9e668a):
     traceless = np.allclose(einsum('ajj->a', n_opers[idx]), 0)              [sel_traceless]
     if is_cached('control_matrix_pc') or not traceless:                     [has_cm_pc]
         control_matrix = pulse.get_pulse_correlation_control_matrix()       -> CalculationError (None) when it is gone
         ... rank-one correction
   i.e. corrected when the control matrix is cached, uncorrected only for traceless selected operators,
   CalculationError otherwise *)
Definition infidelity_pc (has_cm_pc sel_traceless : bool) (na nk no : nat) (Bpc : list A3) (basis : list Matc)
           (idx : list nat) (sp : spectrum) (omega : list T) : option (list (list (list T))) :=
  if has_cm_pc then Some (infidelity_pc_value true na nk no Bpc basis idx sp omega)
  else if sel_traceless then Some (infidelity_pc_value false na nk no Bpc basis idx sp omega)
  else None.

(* control matrix of a concatenated pulse from the pulse-correlation one: _control_matrix_pc.sum(axis=0) *)
Definition cm_pc_sum (na nk no : nat) (Bpc : list A3) : A3 :=
  a3build na nk no (fun a k o => csumn Op (length Bpc) (fun g => a3get Op (nth g Bpc []) a k o)).

End Decay.

(* ---------- util.get_indices_from_identifiers (bookkeeping, strings) ---------- *)
From Coq Require Import String.
Fixpoint index_of (s : string) (l : list string) : option nat :=
  match l with
  | [] => None
  | x :: r => if String.eqb s x then Some O else option_map S (index_of s r)
  end.
(* dict comprehension {identifier: index}: a later duplicate overwrites an earlier one *)
Fixpoint last_index_of (s : string) (l : list string) (pos : nat) (acc : option nat) : option nat :=
  match l with
  | [] => acc
  | x :: r => last_index_of s r (S pos) (if String.eqb s x then Some pos else acc)
  end.
Fixpoint all_some {A} (l : list (option A)) : option (list A) :=
  match l with
  | [] => Some []
  | None :: _ => None
  | Some x :: r => option_map (cons x) (all_some r)
  end.
(* None (identifiers=None) -> arange(n); otherwise the table lookups, ValueError (None) on a miss *)
Definition indices_from_identifiers (all_ids : list string) (ids : option (list string)) : option (list nat) :=
  match ids with
  | None => Some (seq 0 (List.length all_ids))
  | Some l => all_some (map (fun s => last_index_of s all_ids 0 None) l)
  end.
