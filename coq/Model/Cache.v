(* Model/Cache.v -- the cache of a PulseSequence as a state machine (properties C07, C18 part 2).

   Plain Gallina, no Ops.  Every method of filter_functions/pulse_sequence.py that reads or writes a
   cache slot is written as a sequence of micro-steps in a small state+exception monad, in the order
   of the statements of the method body (source after the fix: commits 031d19d, 35d842e, 9802619).

   Ghost information: every cached value carries a tag saying what the value *is*:
     TI        a frequency-independent quantity of this pulse (correct); for quantities expressed in an
               eigenbasis (eigvals, eigvecs, n_opers_transformed, basis_transformed): in the eigenbasis that
               numeric.diagonalize returns for this pulse (the canonical decomposition),
     TF g      the correct value for the frequency grid g (first_order_integral: canonical decomposition),
     TE e      an eigenbasis-dependent quantity expressed in the decomposition instance e >= 1 that was installed
               from outside (extend / remap assemble eigvals / eigvecs from those of their inputs: a valid
               decomposition, but not the one numeric.diagonalize returns -- other order, other phases),
     TFE g e   first_order_integral for grid g in the decomposition instance e,
     TBad n    something else (wrong data) with a frequency axis of length n.
   Grids are abstract: an identifier and a length; np.array_equal on grids = equality of both.
   The Python object has no tags; the correspondence check (tools/ffv/props/c07.py) compares what
   Python can see: which slots are not None, the keys of _intermediates, the exception class, whether
   the returned array is the previously cached object, and the sequence of numeric routines called.

   The attribute sets of PulseSequence.cleanup are NOT restated here: [cleanup] folds over the lists
   regenerated from the source (Extracted/Src.v), so a changed set changes the model.               *)
From Coq Require Import List String Bool Arith PeanoNat NArith.
From FF Require Import Extracted.Src.
Import ListNotations.
Local Open Scope string_scope.

(* ------------------------------------------------------------------ grids and tags *)
Definition grid := (nat * nat)%type.            (* identifier, number of frequencies *)
Definition glen (g : grid) : nat := snd g.
Definition grid_eqb (a b : grid) : bool := Nat.eqb (fst a) (fst b) && Nat.eqb (snd a) (snd b).

Inductive tag := TI | TF (g : grid) | TBad (n : nat) | TE (e : nat) | TFE (g : grid) (e : nat).

Definition tag_len (t : tag) : option nat :=
  match t with TI | TE _ => None | TF g | TFE g _ => Some (glen g) | TBad n => Some n end.

(* ------------------------------------------------------------------ slots *)
Inductive slot :=
| S_t | S_tau | S_omega | S_eigvals | S_eigvecs | S_propagators | S_total_phases
| S_total_propagator | S_total_propagator_liouville | S_control_matrix | S_control_matrix_pc
| S_filter_function | S_filter_function_gen | S_filter_function_pc | S_filter_function_pc_gen
| S_filter_function_2.

(* in the order of PulseSequence.__init__ *)
Definition all_slots : list slot :=
  [S_t; S_tau; S_omega; S_eigvals; S_eigvecs; S_propagators; S_total_phases; S_total_propagator;
   S_total_propagator_liouville; S_control_matrix; S_control_matrix_pc; S_filter_function;
   S_filter_function_gen; S_filter_function_pc; S_filter_function_pc_gen; S_filter_function_2].

Definition slot_name (s : slot) : string :=
  match s with
  | S_t => "_t" | S_tau => "_tau" | S_omega => "_omega" | S_eigvals => "_eigvals"
  | S_eigvecs => "_eigvecs" | S_propagators => "_propagators" | S_total_phases => "_total_phases"
  | S_total_propagator => "_total_propagator"
  | S_total_propagator_liouville => "_total_propagator_liouville"
  | S_control_matrix => "_control_matrix" | S_control_matrix_pc => "_control_matrix_pc"
  | S_filter_function => "_filter_function" | S_filter_function_gen => "_filter_function_gen"
  | S_filter_function_pc => "_filter_function_pc"
  | S_filter_function_pc_gen => "_filter_function_pc_gen"
  | S_filter_function_2 => "_filter_function_2"
  end.

Definition slot_idx (s : slot) : nat :=
  match s with
  | S_t => 0 | S_tau => 1 | S_omega => 2 | S_eigvals => 3 | S_eigvecs => 4 | S_propagators => 5
  | S_total_phases => 6 | S_total_propagator => 7 | S_total_propagator_liouville => 8
  | S_control_matrix => 9 | S_control_matrix_pc => 10 | S_filter_function => 11
  | S_filter_function_gen => 12 | S_filter_function_pc => 13 | S_filter_function_pc_gen => 14
  | S_filter_function_2 => 15
  end.
Definition slot_eqb (a b : slot) : bool := Nat.eqb (slot_idx a) (slot_idx b).

(* kind of a slot / intermediate: the grid itself, frequency dependent, independent of frequencies and
   eigenbasis, expressed in the eigenbasis, both (first_order_integral) *)
Inductive kind := KOmega | KFD | KFI | KE | KFE.
Definition slot_kind (s : slot) : kind :=
  match s with
  | S_omega => KOmega
  | S_eigvals | S_eigvecs => KE
  | S_total_phases | S_control_matrix | S_control_matrix_pc | S_filter_function
  | S_filter_function_gen | S_filter_function_pc | S_filter_function_pc_gen
  | S_filter_function_2 => KFD
  | _ => KFI
  end.

Inductive ikey := K_n_opers_transformed | K_basis_transformed | K_phase_factors
                | K_first_order_integral | K_control_matrix_step.
Definition all_keys : list ikey :=
  [K_n_opers_transformed; K_basis_transformed; K_phase_factors; K_first_order_integral;
   K_control_matrix_step].
Definition key_name (k : ikey) : string :=
  match k with
  | K_n_opers_transformed => "n_opers_transformed" | K_basis_transformed => "basis_transformed"
  | K_phase_factors => "phase_factors" | K_first_order_integral => "first_order_integral"
  | K_control_matrix_step => "control_matrix_step"
  end.
Definition key_idx (k : ikey) : nat :=
  match k with
  | K_n_opers_transformed => 0 | K_basis_transformed => 1 | K_phase_factors => 2
  | K_first_order_integral => 3 | K_control_matrix_step => 4
  end.
Definition key_eqb (a b : ikey) : bool := Nat.eqb (key_idx a) (key_idx b).
Definition key_fd (k : ikey) : bool :=
  match k with K_n_opers_transformed | K_basis_transformed => false | _ => true end.

Definition upd {A} (f : slot -> A) (s : slot) (v : A) : slot -> A :=
  fun s' => if slot_eqb s s' then v else f s'.
Definition updk {A} (f : ikey -> A) (k : ikey) (v : A) : ikey -> A :=
  fun k' => if key_eqb k k' then v else f k'.

(* ------------------------------------------------------------------ the monad *)
(* numeric routines / array methods at which a call can raise; the first group are functions the
   harness can make raise by monkeypatching, the last three are ndarray methods / attributes *)
Inductive label :=
| L_diag | L_cm | L_liou | L_cexp | L_ff | L_pcff | L_f2 | L_grad | L_gradff | L_integrand
| L_integrate | L_expm
| L_sum | L_trace | L_ndim.
Definition patchable (l : label) : bool :=
  match l with L_sum | L_trace | L_ndim => false | _ => true end.
Definition label_idx (l : label) : N :=
  match l with
  | L_diag => 0 | L_cm => 1 | L_liou => 2 | L_cexp => 3 | L_ff => 4 | L_pcff => 5 | L_f2 => 6
  | L_grad => 7 | L_gradff => 8 | L_integrand => 9 | L_integrate => 10 | L_expm => 11
  | L_sum => 12 | L_trace => 13 | L_ndim => 14
  end%N.

Inductive exn :=
| E_injected (l : label)   (* an exception out of numeric code (injected by the adversary) *)
| E_calc                   (* util.CalculationError of the pulse-correlation getters *)
| E_value                  (* ValueError: parse_optional_parameters, identifier / shape checks,
                              "omega not equal to cached frequencies" *)
| E_shape.                 (* shape mismatch / KeyError when stale arrays of another length are combined *)

Inductive res (A : Type) := Ret (a : A) | Raise (e : exn).
Arguments Ret {A} a.
Arguments Raise {A} e.

(* local view of one object: its slots, the contents of the dict its _intermediates refers to,
   whether that dict was replaced by a new one during the call, and the routines called so far *)
Record lst := mkL { sl : slot -> option tag; di : ikey -> option tag; dnew : bool; tr : list label }.

(* the adversary's failure counter: None = no injected failure, Some k = the (k+1)-th call into
   numeric code raises *)
Definition M (A : Type) := lst -> option nat -> lst * option nat * res A.
Definition ret {A} (a : A) : M A := fun l k => (l, k, Ret a).
Definition bind {A B} (m : M A) (f : A -> M B) : M B :=
  fun l k => match m l k with
             | (l', k', Ret a) => f a l' k'
             | (l', k', Raise e) => (l', k', Raise e)
             end.
Definition raise {A} (e : exn) : M A := fun l k => (l, k, Raise e).
Notation "x <- m ;; f" := (bind m (fun x => f)) (at level 61, m at next level, right associativity).
Notation "m ;;; f" := (bind m (fun _ => f)) (at level 61, right associativity).

(* a call into numeric code: recorded, and aborted if the adversary's counter is exhausted *)
Definition may_raise (lab : label) : M unit :=
  fun l k => let l' := mkL (sl l) (di l) (dnew l) (tr l ++ [lab]) in
             match k with
             | None => (l', None, Ret tt)
             | Some O => (l', Some O, Raise (E_injected lab))
             | Some (S k') => (l', Some k', Ret tt)
             end.

Definition getslot (s : slot) : M (option tag) := fun l k => (l, k, Ret (sl l s)).
Definition setslot (s : slot) (v : option tag) : M unit :=
  fun l k => (mkL (upd (sl l) s v) (di l) (dnew l) (tr l), k, Ret tt).
Definition is_cached (s : slot) : M bool :=
  fun l k => (l, k, Ret (match sl l s with Some _ => true | None => false end)).
Definition getkey (key : ikey) : M (option tag) := fun l k => (l, k, Ret (di l key)).
Definition setkey (key : ikey) (v : option tag) : M unit :=
  fun l k => (mkL (sl l) (updk (di l) key v) (dnew l) (tr l), k, Ret tt).
(* setattr(self, '_intermediates', dict()) *)
Definition new_dict : M unit := fun l k => (mkL (sl l) (fun _ => None) true (tr l), k, Ret tt).

(* the value a routine evaluated at the requested grid g computes from cached arrays *)
Definition derive (g : grid) (inputs : list tag) : res tag :=
  if forallb (fun t => match t with TF g' | TFE g' _ => grid_eqb g' g | TI | TE _ => true | TBad _ => false end) inputs
  then Ret (TF g)
  else if forallb (fun t => match tag_len t with Some n => Nat.eqb n (glen g) | None => true end) inputs
       then Ret (TBad (glen g))
       else Raise E_shape.
Definition lift {A} (r : res A) : M A := fun l k => (l, k, r).

(* eigen-decomposition instances: the instance a value is expressed in, and agreement with the current one *)
Definition eig_part (t : tag) : option tag :=
  match t with TI | TF _ => Some TI | TE e | TFE _ e => Some (TE e) | TBad _ => None end.
Definition eig_same (a b : tag) : bool :=
  match a, b with TI, TI => true | TE e, TE e' => Nat.eqb e e' | _, _ => false end.
Definition eig_tag_of (ev : option tag) : tag := match ev with Some t => t | None => TI end.
Definition eig_consistent (cur : tag) (inputs : list tag) : bool :=
  forallb (fun t => match eig_part t with Some p => eig_same p cur | None => true end) inputs.
(* a routine evaluated at grid g with the current eigen-data [cur], cached arrays expressed in an eigenbasis
   [eigs] (n_opers_transformed, basis_transformed, first_order_integral) and other cached arrays [others] *)
Definition derive_eig (g : grid) (cur : tag) (eigs others : list tag) : res tag :=
  if eig_consistent cur eigs then derive g (eigs ++ others) else Ret (TBad (glen g)).

(* how a returned value was obtained: the cached object itself, computed from a cached array without
   reference to the requested frequencies, or computed for the requested frequencies *)
Inductive how := Served | Derived | Computed.

(* ------------------------------------------------------------------ mechanisms *)
(* The four repairs.  The model of the current source is [fixed]; the other settings exist only for the
   ..._needed examples of Proofs/Cache.v. *)
Record mech := mkMech { m_clear_on_cache : bool; m_copy_dict : bool; m_deriv_after_cm : bool;
                        m_cleanup_pops_eig : bool }.
(* the current source: all four repairs are in (the fourth: cleanup('conservative') also resets the
   intermediates, commit 9d58c0f) *)
Definition fixed : mech := mkMech true true true true.

(* ------------------------------------------------------------------ cleanup *)
Inductive cleanup_method := Conservative | Greedy | FreqDep | CleanAll.

Inductive attr_target := ASlot (s : slot) | AInter.
Definition attr_target_of (a : string) : option attr_target :=
  if String.eqb a "_intermediates" then Some AInter
  else if String.eqb a "omega" then Some (ASlot S_omega)          (* property setter of _omega *)
  else option_map ASlot (find (fun s => String.eqb (slot_name s) a) all_slots).
Definition key_of (a : string) : option ikey := find (fun k => String.eqb (key_name k) a) all_keys.

(* the literal sets in the 'frequency dependent' and 'conservative' branches (tied to Src.cleanup_branches in
   Tie/C07.v); the conservative one since commit 9d58c0f: the intermediates are expressed in the eigenbasis that
   is being dropped *)
Definition fd_extra_attrs : list string := ["_control_matrix"; "_control_matrix_pc"; "_total_phases"].
Definition cons_extra_attrs : list string := ["_intermediates"].

Definition cleanup_attrs (m : cleanup_method) : list string :=
  match m with
  | Conservative => Src.cleanup_default_attrs ++ cons_extra_attrs
  | Greedy => Src.cleanup_default_attrs ++ Src.cleanup_concatenation_attrs
  | FreqDep => Src.cleanup_filter_function_attrs ++ fd_extra_attrs
  | CleanAll => Src.cleanup_filter_function_attrs ++ Src.cleanup_default_attrs
                ++ Src.cleanup_concatenation_attrs
  end.

Definition clear_attr (a : string) : M unit :=
  match attr_target_of a with
  | Some (ASlot s) => setslot s None
  | Some AInter => new_dict
  | None => ret tt
  end.
Definition pop_key (a : string) : M unit :=
  match key_of a with Some k => setkey k None | None => ret tt end.
Fixpoint seq_all {A} (f : A -> M unit) (xs : list A) : M unit :=
  match xs with [] => ret tt | x :: r => f x ;;; seq_all f r end.

(* the keys popped from _intermediates in each branch of cleanup, as extracted from the source *)
Definition branch_name (m : cleanup_method) : string :=
  match m with
  | Conservative => "method == 'conservative'" | Greedy => "method == 'greedy'"
  | FreqDep => "method == 'frequency dependent'" | CleanAll => "else"
  end.
Definition cleanup_pops_of (m : cleanup_method) : list string :=
  match find (fun p => String.eqb (fst p) (branch_name m)) Src.cleanup_pops_by_branch with
  | Some p => snd p | None => []
  end.

Definition cleanup (m : cleanup_method) : M unit :=
  seq_all pop_key (cleanup_pops_of m) ;;;
  seq_all clear_attr (cleanup_attrs m).

(* ------------------------------------------------------------------ the methods *)
Section Methods.
Variable mc : mech.

(* np.array_equal(self.omega, omega) *)
Definition omega_equal (g : grid) : M bool :=
  o <- getslot S_omega ;;
  ret (match o with Some (TF g') => grid_eqb g' g | _ => false end).

(* if self.is_cached('omega') and not np.array_equal(self.omega, omega): self.cleanup('frequency dependent')
   -- the first statement of the cache_* methods since commit 9802619 *)
Definition guard (g : grid) : M unit :=
  if m_clear_on_cache mc then
    c <- is_cached S_omega ;; e <- omega_equal g ;;
    if c && negb e then cleanup FreqDep else ret tt
  else ret tt.

Definition t_prop : M unit :=
  c <- is_cached S_t ;; if c then ret tt else setslot S_t (Some TI).
(* tau: always self.t[-1] since commit f6ab3ac, i.e. reading tau caches _t *)
Definition tau_prop : M unit := t_prop ;;; setslot S_tau (Some TI).

Definition diagonalize : M unit :=
  c1 <- is_cached S_eigvals ;; c2 <- is_cached S_eigvecs ;; c3 <- is_cached S_propagators ;;
  (if c1 && c2 && c3 then ret tt
   else may_raise L_diag ;;; setslot S_eigvals (Some TI) ;;; setslot S_eigvecs (Some TI) ;;;
        setslot S_propagators (Some TI)) ;;;
  setslot S_total_propagator (Some TI).

(* lazy properties eigvals, eigvecs, propagators, total_propagator *)
Definition lazy_prop (s : slot) : M unit :=
  c <- is_cached s ;; if c then ret tt else diagonalize.

Definition tpl_prop : M unit :=
  c <- is_cached S_total_propagator_liouville ;;
  if c then ret tt
  else lazy_prop S_total_propagator ;;; may_raise L_liou ;;;
       setslot S_total_propagator_liouville (Some TI).

Definition cache_total_phases (g : grid) (user : option tag) : M unit :=
  guard g ;;;
  v <- (match user with
        | Some v => ret v
        | None => tau_prop ;;; may_raise L_cexp ;;; ret (TF g)
        end) ;;
  setslot S_omega (Some (TF g)) ;;; setslot S_total_phases (Some v).

Definition get_total_phases (g : grid) : M (tag * how) :=
  e <- omega_equal g ;;
  hit <- (if e then getslot S_total_phases else cleanup FreqDep ;;; ret None) ;;
  match hit with
  | Some v => ret (v, Served)
  | None => cache_total_phases g None ;;; v <- getslot S_total_phases ;;
            ret (match v with Some v => v | None => TI end, Computed)
  end.

(* cache_control_matrix from "self.omega = omega" on; the control matrix is given *)
Definition cache_cm_rest (g : grid) (v : tag) (is4d : bool) : M unit :=
  setslot S_omega (Some (TF g)) ;;;
  may_raise L_ndim ;;;
  (if is4d then setslot S_control_matrix_pc (Some v) else setslot S_control_matrix (Some v)) ;;;
  cache_total_phases g None ;;;
  tpl_prop.

Definition cache_cm_given (g : grid) (v : tag) (is4d : bool) : M unit :=
  guard g ;;; cache_cm_rest g v is4d.

(* _intermediates.update with the returned dict: [ev] is the decomposition the arrays were computed in *)
Definition update_intermediates (g : grid) (ev : tag) : M unit :=
  setkey K_n_opers_transformed (Some ev) ;;; setkey K_basis_transformed (Some ev) ;;;
  setkey K_phase_factors (Some (TF g)) ;;;
  setkey K_first_order_integral (Some (match ev with TE e => TFE g e | _ => TF g end)) ;;;
  setkey K_control_matrix_step (Some (TF g)).

Definition get_cm (g : grid) (ci : bool) : M (tag * how) :=
  e <- omega_equal g ;;
  hit <- (if e then
            c <- getslot S_control_matrix ;;
            match c with
            | Some v => ret (Some (v, Served))
            | None => pc <- getslot S_control_matrix_pc ;;
                      match pc with
                      | Some v => may_raise L_sum ;;; setslot S_control_matrix (Some v) ;;;
                                  ret (Some (v, Derived))
                      | None => ret None
                      end
            end
          else cleanup FreqDep ;;; ret None) ;;
  match hit with
  | Some r => ret r
  | None =>
      diagonalize ;;; t_prop ;;;
      may_raise L_cm ;;;
      ev <- getslot S_eigvecs ;;
      (if ci then update_intermediates g (eig_tag_of ev) else ret tt) ;;;
      cache_cm_given g (TF g) false ;;;
      v <- getslot S_control_matrix ;;
      ret (match v with Some v => v | None => TI end, Computed)
  end.

(* cache_control_matrix(omega, control_matrix=user, cache_intermediates=ci) *)
Definition cache_cm (g : grid) (user : option (tag * bool)) (ci : bool) : M unit :=
  guard g ;;;
  x <- (match user with
        | Some x => ret x
        | None => r <- get_cm g ci ;; ret (fst r, false)
        end) ;;
  cache_cm_rest g (fst x) (snd x).

Definition get_pccm : M (tag * how) :=
  c <- getslot S_control_matrix_pc ;;
  match c with Some v => ret (v, Served) | None => raise E_calc end.

(* numeric.calculate_second_order_filter_function(..., self._intermediates) *)
Definition second_order (g : grid) : M tag :=
  ev <- getslot S_eigvecs ;;
  nt <- getkey K_n_opers_transformed ;;
  bt <- getkey K_basis_transformed ;; cs <- getkey K_control_matrix_step ;;
  may_raise L_f2 ;;;
  (* n_opers_transformed is used whenever present; basis_transformed and control_matrix_step only together *)
  lift (derive_eig g (eig_tag_of ev)
          ((match nt with Some t => [t] | None => [] end) ++
           (match bt, cs with Some tb, Some _ => [tb] | _, _ => [] end))
          (match bt, cs with Some _, Some tc => [tc] | _, _ => [] end)).

Inductive which := Fidelity | Generalized.
Inductive order := First | Second.

Definition cache_ff (g : grid) (cmo : option (tag * bool)) (ffo : option tag)
           (w : which) (o : order) (ci : bool) : M unit :=
  guard g ;;;
  f <- (match ffo with
        | Some f => ret f
        | None =>
            match o with
            | First =>
                x <- (match cmo with
                      | Some x => ret x
                      | None => r <- get_cm g ci ;; ret (fst r, false)
                      end) ;;
                cache_cm_given g (fst x) (snd x) ;;;
                if snd x then
                  may_raise L_pcff ;;;
                  (match w with
                   | Fidelity => setslot S_filter_function_pc (Some (fst x))
                   | Generalized => may_raise L_trace ;;; setslot S_filter_function_pc (Some (fst x)) ;;;
                                    setslot S_filter_function_pc_gen (Some (fst x))
                   end) ;;;
                  may_raise L_sum ;;; ret (fst x)
                else may_raise L_ff ;;; ret (fst x)
            | Second =>
                lazy_prop S_eigvals ;;; lazy_prop S_eigvecs ;;; lazy_prop S_propagators ;;;
                second_order g
            end
        end) ;;
  setslot S_omega (Some (TF g)) ;;;
  match o with
  | First =>
      match w with
      | Fidelity => setslot S_filter_function (Some f)
      | Generalized => may_raise L_trace ;;; setslot S_filter_function (Some f) ;;;
                       setslot S_filter_function_gen (Some f)
      end
  | Second => setslot S_filter_function_2 (Some f)
  end.

Definition ff_slot (w : which) (o : order) : slot :=
  match o, w with
  | First, Fidelity => S_filter_function
  | First, Generalized => S_filter_function_gen
  | Second, _ => S_filter_function_2
  end.

Definition get_ff (g : grid) (w : which) (o : order) (ci : bool) : M (tag * how) :=
  e <- omega_equal g ;;
  hit <- (if e then getslot (ff_slot w o) else cleanup FreqDep ;;; ret None) ;;
  match hit with
  | Some v => ret (v, Served)
  | None =>
      cmo <- (match o with
              | First => r <- get_cm g ci ;; ret (Some (fst r, false))
              | Second => ret None
              end) ;;
      cache_ff g cmo None w o ci ;;;
      v <- getslot (ff_slot w o) ;;
      ret (match v with Some v => v | None => TI end, Computed)
  end.

Definition get_pcff (w : which) : M (tag * how) :=
  hit <- getslot (match w with Fidelity => S_filter_function_pc
                             | Generalized => S_filter_function_pc_gen end) ;;
  match hit with
  | Some v => ret (v, Served)
  | None =>
      c <- getslot S_control_matrix_pc ;;
      match c with
      | Some v => may_raise L_pcff ;;;
                  setslot (match w with Fidelity => S_filter_function_pc
                                      | Generalized => S_filter_function_pc_gen end) (Some v) ;;;
                  ret (v, Derived)
      | None => raise E_calc
      end
  end.

Definition get_deriv (g : grid) : M (tag * how) :=
  pre <- (if m_deriv_after_cm mc then ret (None, None)
          else a <- getkey K_n_opers_transformed ;; b <- getkey K_first_order_integral ;; ret (a, b)) ;;
  r <- get_cm g true ;;
  post <- (if m_deriv_after_cm mc
           then a <- getkey K_n_opers_transformed ;; b <- getkey K_first_order_integral ;; ret (a, b)
           else ret pre) ;;
  lazy_prop S_propagators ;;; lazy_prop S_eigvals ;;; lazy_prop S_eigvecs ;;; t_prop ;;;
  ev <- getslot S_eigvecs ;;
  may_raise L_grad ;;;
  v <- (match post with
        | (Some ta, Some tb) => lift (derive_eig g (eig_tag_of ev) [ta; tb] [fst r])
        | (None, None) => lift (derive g [fst r])
        | _ => if m_deriv_after_cm mc then lift (derive g [fst r]) else raise E_shape
        end) ;;
  may_raise L_gradff ;;;
  ret (v, Computed).

(* cleanup(method) as called by the user; before commit 9d58c0f the conservative mode kept the intermediates
   although some of them are expressed in the eigenbasis being dropped *)
Definition cleanup_user (m : cleanup_method) : M unit :=
  match m with
  | Conservative =>
      if m_cleanup_pops_eig mc then cleanup m else seq_all clear_attr Src.cleanup_default_attrs
  | _ => cleanup m
  end.

(* ---- functions of numeric.py / gradient.py as compositions of getters *)
Definition integrate (g : grid) (f : tag) : M (tag * how) :=
  may_raise L_integrand ;;; v <- lift (derive g [f]) ;; may_raise L_integrate ;;; ret (v, Computed).

(* which = 'total' / 'correlations' *)
Inductive pwhich := Total | Correlations.

(* numeric.infidelity since commit 2891db3: for every basis the fidelity filter function AND the control matrix
   are requested (the identity component of the noise operators is subtracted); for the pulse correlations the
   pulse-correlation control matrix is requested when it is cached or (commit a9e668a) when the selected noise
   operators are not traceless -- then CalculationError if it is gone; [traceless] is a fact about the pulse *)
Definition integrate2 (g : grid) (f c : tag) : M (tag * how) :=
  may_raise L_integrand ;;; v <- lift (derive g [f; c]) ;; may_raise L_integrate ;;; ret (v, Computed).

Definition infidelity (g : grid) (pw : pwhich) (traceless : bool) (ci : bool) : M (tag * how) :=
  match pw with
  | Total =>
      r <- get_ff g Fidelity First ci ;;
      r2 <- get_cm g ci ;;
      integrate2 g (fst r) (fst r2)
  | Correlations =>
      c <- is_cached S_omega ;; e <- omega_equal g ;;
      if c && negb e then raise E_value
      else r <- get_pcff Fidelity ;;
           c2 <- is_cached S_control_matrix_pc ;;
           if c2 || negb traceless then r2 <- get_pccm ;; integrate2 g (fst r) (fst r2)
           else integrate g (fst r)
  end.

Definition decay_amplitudes (g : grid) (pw : pwhich) (ci : bool) : M (tag * how) :=
  match pw with
  | Total =>
      c <- is_cached S_filter_function_gen ;;
      r <- (if c then get_ff g Generalized First false else get_cm g ci) ;;
      integrate g (fst r)
  | Correlations =>
      c <- is_cached S_omega ;; e <- omega_equal g ;;
      if c && negb e then raise E_value
      else c2 <- is_cached S_filter_function_pc_gen ;;
           r <- (if c2 then get_pcff Generalized else get_pccm) ;;
           integrate g (fst r)
  end.

Definition cumulant (g : grid) (pw : pwhich) (second : bool) (cio : option bool) : M (tag * how) :=
  match pw, second with
  | Correlations, true => raise E_value
  | _, _ =>
      r <- decay_amplitudes g pw (match cio with Some b => b | None => second end) ;;
      if second then
        r2 <- get_ff g Fidelity Second false ;;
        r3 <- integrate g (fst r2) ;;
        v <- lift (derive g [fst r; fst r3]) ;; ret (v, Computed)
      else ret r
  end.

Definition error_transfer_matrix (g : grid) (second : bool) (ci : bool) : M (tag * how) :=
  r <- cumulant g Total second (Some ci) ;; may_raise L_expm ;;; ret r.

Definition infidelity_derivative (g : grid) : M (tag * how) :=
  r <- get_deriv g ;; may_raise L_integrate ;;; ret r.

(* propagator_at_arb_t(t): diagonalize, then t, propagators, eigvecs, eigvals are read and util.cexp is called *)
Definition propagator_at : M unit :=
  diagonalize ;;; t_prop ;;; lazy_prop S_propagators ;;; lazy_prop S_eigvecs ;;; may_raise L_cexp ;;; ret tt.

(* ---- use as an INPUT of concatenate / concatenate_periodic / extend / remap: these functions call getters and
   lazy properties of the pulses they are given, i.e. they change the caches of their arguments *)

(* the frequencies the composition functions work with: supplied (Some g), or the input's own cached ones *)
Definition chosen_grid (go : option grid) : M (option grid) :=
  match go with
  | Some g => ret (Some g)
  | None => o <- getslot S_omega ;; ret (match o with Some (TF g) => Some g | _ => None end)
  end.

(* concatenate(pulses, omega=..., calc_filter_function=..., calc_pulse_correlation_FF=...) seen from one of the pulses:
   [go] = None: no omega supplied and this pulse's cached frequencies are the ones chosen (ValueError if it has
   none and the filter function was requested); [last]: the pulse is the last one (no total phases / Liouville
   propagator needed); [early]: the function returns after concatenate_without_filter_function; [missing]: the
   other pulses have noise operators this pulse lacks (its eigen-data and times are needed) *)
Definition as_concat_input (go : option grid) (last early missing : bool) : M unit :=
  tau_prop ;;;
  if early then ret tt
  else
    og <- chosen_grid go ;;
    match og with
    | None => raise E_value
    | Some g =>
        (if last then ret tt else get_total_phases g ;;; tpl_prop) ;;;
        get_cm g false ;;;
        (if missing then lazy_prop S_eigvals ;;; lazy_prop S_eigvecs ;;; lazy_prop S_propagators ;;; t_prop
         else ret tt) ;;;
        lazy_prop S_total_propagator
    end.

(* concatenate_periodic(pulse, repeats) *)
Definition as_periodic_input : M unit :=
  tau_prop ;;;
  c <- is_cached S_control_matrix ;;
  if c then
    o <- getslot S_omega ;;
    match o with
    | Some (TF g) => get_total_phases g ;;; get_cm g false ;;; tpl_prop ;;; lazy_prop S_total_propagator
    | _ => ret tt
    end
  else ret tt.

(* extend(mapping, omega=..., cache_diagonalization=..., cache_filter_function=...) seen from one of the pulses (Pauli
   basis): [diag]: the diagonalization is cached in the new pulse (eigen-data of the inputs needed); [go] = Some g:
   the filter function is cached for the supplied frequencies; None: for the inputs' own ones, if all of them have a
   control matrix cached for equal frequencies ([all_cached]: the other pulses do) *)
Definition as_extend_input (go : option grid) (diag all_cached : bool) : M unit :=
  (if diag then lazy_prop S_eigvals ;;; lazy_prop S_eigvecs ;;; lazy_prop S_propagators else ret tt) ;;;
  match go with
  | Some g => get_cm g false ;;; ret tt
  | None =>
      c <- is_cached S_control_matrix ;; o <- getslot S_omega ;;
      match o with
      | Some (TF g) => if c && all_cached then get_cm g false ;;; ret tt else ret tt
      | _ => ret tt
      end
  end.

(* remap(pulse, order): everything that is cached is carried over through the getters, for the pulse's own
   frequencies; [pauli]: the basis is a Pauli basis (otherwise control matrices are not retained) *)
Definition as_remap_input (pauli : bool) : M unit :=
  o <- getslot S_omega ;;
  match o with
  | Some (TF g) =>
      c1 <- is_cached S_total_phases ;;
      (if c1 then get_total_phases g ;;; ret tt else ret tt) ;;;
      c2 <- is_cached S_filter_function ;;
      (if c2 then get_ff g Fidelity First false ;;; ret tt else ret tt) ;;;
      c3 <- is_cached S_control_matrix ;;
      if pauli && c3 then get_cm g false ;;; ret tt else ret tt
  | _ => ret tt
  end.

(* cache_* with user data of the wrong shape (commit a6fecba): ValueError after the frequency guard *)
Definition shape_fail (g : grid) : M unit := guard g ;;; raise E_value.

(* user-supplied arrays: what the caller says they are, wrong values, wrong shape *)
Inductive udata := UOk | UBad | UShape.

(* ------------------------------------------------------------------ the public alphabet *)
Inductive op :=
| GetCM (g : grid) (ci : bool)
| CacheCM (g : grid) (user : option (udata * bool)) (ci : bool)   (* user: (what, 4-d?) *)
| GetPCCM
| GetFF (g : grid) (w : which) (o : order) (ci : bool)
| CacheFF (g : grid) (cm : option (udata * bool)) (ff : option udata) (w : which) (o : order) (ci : bool)
| GetPCFF (w : which)
| GetDeriv (g : grid)
| GetPhases (g : grid)
| CachePhases (g : grid) (user : option udata)
| Diagonalize
| LazyProp (s : slot)           (* eigvals, eigvecs, propagators, total_propagator *)
| TplProp | TProp | TauProp
| Cleanup (m : cleanup_method)
| BadParams                     (* any call rejected before its first effect (ValueError) *)
| Infidelity (g : grid) (pw : pwhich) (traceless ci : bool)
| DecayAmplitudes (g : grid) (pw : pwhich) (ci : bool)
| Cumulant (g : grid) (pw : pwhich) (second : bool) (cio : option bool)
| ErrorTransferMatrix (g : grid) (second ci : bool)
| InfidelityDerivative (g : grid)
| AsConcatInput (go : option grid) (last early missing : bool)
| AsPeriodicInput
| AsExtendInput (go : option grid) (diag all_cached : bool)
| AsRemapInput (pauli : bool)
| PropagatorAt.

Definition user_tag (g : grid) (u : udata) : tag := match u with UOk => TF g | _ => TBad (glen g) end.
Definition is_shape (u : udata) : bool := match u with UShape => true | _ => false end.

Definition noret (m : M unit) : M (option (tag * how)) := m ;;; ret None.
Definition withret (m : M (tag * how)) : M (option (tag * how)) := r <- m ;; ret (Some r).

Definition is_lazy (s : slot) : bool :=
  match s with S_eigvals | S_eigvecs | S_propagators | S_total_propagator => true | _ => false end.

Definition run_op (o : op) : M (option (tag * how)) :=
  match o with
  | GetCM g ci => withret (get_cm g ci)
  | CacheCM g u ci =>
      match u with
      | Some (UShape, _) => noret (shape_fail g)
      | _ => noret (cache_cm g (option_map (fun x => (user_tag g (fst x), snd x)) u) ci)
      end
  | GetPCCM => withret get_pccm
  | GetFF g w o ci => withret (get_ff g w o ci)
  | CacheFF g cm f w o ci =>
      (* a filter function of the wrong shape is rejected; a control matrix of the wrong shape only where it is
         used (first order, no filter function given) *)
      let cm_used := match f, o with None, First => cm | _, _ => None end in
      if match f with Some u => is_shape u | None => false end
         || match cm_used with Some (u, _) => is_shape u | None => false end
      then noret (shape_fail g)
      else noret (cache_ff g (option_map (fun x => (user_tag g (fst x), snd x)) cm_used)
                           (option_map (user_tag g) f) w o ci)
  | GetPCFF w => withret (get_pcff w)
  | GetDeriv g => withret (get_deriv g)
  | GetPhases g => withret (get_total_phases g)
  | CachePhases g u =>
      match u with
      | Some UShape => noret (shape_fail g)
      | _ => noret (cache_total_phases g (option_map (user_tag g) u))
      end
  | Diagonalize => noret diagonalize
  | LazyProp s => if is_lazy s then noret (lazy_prop s) else ret None
  | TplProp => noret tpl_prop
  | TProp => noret t_prop
  | TauProp => noret tau_prop
  | Cleanup m => noret (cleanup_user m)
  | BadParams => raise E_value
  | Infidelity g pw tl ci => withret (infidelity g pw tl ci)
  | DecayAmplitudes g pw ci => withret (decay_amplitudes g pw ci)
  | Cumulant g pw s cio => withret (cumulant g pw s cio)
  | ErrorTransferMatrix g s ci => withret (error_transfer_matrix g s ci)
  | InfidelityDerivative g => withret (infidelity_derivative g)
  | AsConcatInput go last early missing => noret (as_concat_input go last early missing)
  | AsPeriodicInput => noret as_periodic_input
  | AsExtendInput go diag allc => noret (as_extend_input go diag allc)
  | AsRemapInput pauli => noret (as_remap_input pauli)
  | PropagatorAt => noret propagator_at
  end.

End Methods.

(* user data is what the caller says it is, or is rejected for its shape -- never wrong values of the right shape *)
Definition u_ok (u : udata) : bool := match u with UBad => false | _ => true end.
Definition op_ok (o : op) : bool :=
  match o with
  | CacheCM _ (Some (u, _)) _ => u_ok u
  | CacheFF _ cm f _ _ _ =>
      match cm with Some (u, _) => u_ok u | None => true end && match f with Some u => u_ok u | None => true end
  | CachePhases _ (Some u) => u_ok u
  | _ => true
  end.

(* ------------------------------------------------------------------ the store *)
Record store := mkS {
  nobj : nat; objs : nat -> slot -> option tag; iref : nat -> nat;
  ndict : nat; dicts : nat -> ikey -> option tag }.

Definition init : store := mkS 1 (fun _ _ => None) (fun _ => 0) 1 (fun _ _ => None).

Definition updn {A} (f : nat -> A) (i : nat) (v : A) : nat -> A :=
  fun j => if Nat.eqb i j then v else f j.

Definition view (st : store) (i : nat) : lst := mkL (objs st i) (dicts st (iref st i)) false [].

Definition write_back (st : store) (i : nat) (l : lst) : store :=
  if dnew l then
    mkS (nobj st) (updn (objs st) i (sl l)) (updn (iref st) i (ndict st))
        (S (ndict st)) (updn (dicts st) (ndict st) (di l))
  else
    mkS (nobj st) (updn (objs st) i (sl l)) (iref st) (ndict st) (updn (dicts st) (iref st i) (di l)).

Inductive gop :=
| Call (i : nat) (o : op) (fail_at : option nat)  (* method call on object i; aborts at raise point fail_at *)
| Copy (i : nat)                               (* copy.copy(pulse i)  -> new object nobj *)
| DeepCopy (i : nat)                           (* copy.deepcopy       -> new object nobj *)
| Fresh                                        (* a newly constructed pulse -> new object nobj *)
| FreshExtended.                               (* a pulse made by extend(...) with cached diagonalization:
                                                  eigvals / eigvecs assembled from those of the inputs *)

(* the hypothesis on histories: user data is what the caller says *)
Definition gop_ok (c : gop) : bool := match c with Call _ o _ => op_ok o | _ => true end.

Definition extended_slots : slot -> option tag :=
  fun s => match s with
           | S_eigvals | S_eigvecs => Some (TE 1)
           | S_propagators | S_total_propagator => Some TI
           | _ => None
           end.

Definition never : option nat := None.   (* no injected failure *)

Definition exec (mc : mech) (st : store) (c : gop) : store * res (option (tag * how)) * list label :=
  match c with
  | Call i o k =>
      if Nat.ltb i (nobj st) then
        match run_op mc o (view st i) k with
        | (l, _, r) => (write_back st i l, r, tr l)
        end
      else (st, Ret None, [])
  | Copy i =>
      if Nat.ltb i (nobj st) then
        if m_copy_dict mc then
          (mkS (S (nobj st)) (updn (objs st) (nobj st) (objs st i)) (updn (iref st) (nobj st) (ndict st))
               (S (ndict st)) (updn (dicts st) (ndict st) (dicts st (iref st i))), Ret None, [])
        else
          (mkS (S (nobj st)) (updn (objs st) (nobj st) (objs st i)) (updn (iref st) (nobj st) (iref st i))
               (ndict st) (dicts st), Ret None, [])
      else (st, Ret None, [])
  | DeepCopy i =>
      if Nat.ltb i (nobj st) then
        (mkS (S (nobj st)) (updn (objs st) (nobj st) (objs st i)) (updn (iref st) (nobj st) (ndict st))
             (S (ndict st)) (updn (dicts st) (ndict st) (dicts st (iref st i))), Ret None, [])
      else (st, Ret None, [])
  | Fresh =>
      (mkS (S (nobj st)) (updn (objs st) (nobj st) (fun _ => None)) (updn (iref st) (nobj st) (ndict st))
           (S (ndict st)) (updn (dicts st) (ndict st) (fun _ => None)), Ret None, [])
  | FreshExtended =>
      (mkS (S (nobj st)) (updn (objs st) (nobj st) extended_slots) (updn (iref st) (nobj st) (ndict st))
           (S (ndict st)) (updn (dicts st) (ndict st) (fun _ => None)), Ret None, [])
  end.

Definition step_with (mc : mech) (st : store) (c : gop) : store := fst (fst (exec mc st c)).
Definition step : store -> gop -> store := step_with fixed.
Definition result (st : store) (c : gop) : res (option (tag * how)) := snd (fst (exec fixed st c)).

(* ------------------------------------------------------------------ observation (correspondence) *)
Definition some_b {A} (o : option A) : bool := match o with Some _ => true | None => false end.
Fixpoint bits (bs : list bool) : N :=
  match bs with [] => 0 | b :: r => (if b then 1 else 0) + 2 * bits r end%N.
(* bit s of the mask = slot s is not None (order of all_slots), then the five keys of _intermediates *)
Definition occupancy (st : store) (i : nat) : N :=
  bits (map (fun s => some_b (objs st i s)) all_slots
        ++ map (fun k => some_b (dicts st (iref st i) k)) all_keys).

(* 0 returned nothing, 1 returned the cached object, 2 returned a new array, 3 CalculationError,
   4 ValueError, 5 injected exception, 6 shape mismatch *)
Definition result_class (r : res (option (tag * how))) : N :=
  match r with
  | Ret None => 0 | Ret (Some (_, Served)) => 1 | Ret (Some (_, _)) => 2
  | Raise E_calc => 3 | Raise E_value => 4 | Raise (E_injected _) => 5 | Raise E_shape => 6
  end%N.

(* what the model says about the returned value: 0 the correct value for some grid, 1 wrong data (or a shape
   mismatch), 2 nothing to say *)
Definition value_flag (r : res (option (tag * how))) : N :=
  match r with
  | Ret (Some (TF _, _)) => 0 | Ret (Some (TBad _, _)) => 1 | Raise E_shape => 1 | _ => 2
  end%N.

Definition patch_trace (t : list label) : list N := map label_idx (filter patchable t).

(* raise-point index (in the model's numbering) of the j-th call of a patchable routine *)
Fixpoint nth_patchable (t : list label) (j : nat) (pos : nat) : option nat :=
  match t with
  | [] => never
  | l :: r => if patchable l then match j with O => Some pos | S j' => nth_patchable r j' (S pos) end
              else nth_patchable r j (S pos)
  end.

(* one call of a history as the harness writes it: the operation, and for an injected failure the
   number j of the patchable routine call that raises *)
Inductive hcall := H (c : gop) | HFail (i : nat) (o : op) (j : nat).

Definition resolve (st : store) (h : hcall) : gop :=
  match h with
  | H c => c
  | HFail i o j => Call i o (nth_patchable (snd (exec fixed st (Call i o never))) j 0)
  end.

(* observation after one call: result class, routines called, occupancy of every object, value flag *)
Definition observation := (N * list N * list N * N)%type.
Definition observe (st : store) (h : hcall) : store * observation :=
  let c := resolve st h in
  match exec fixed st c with
  | (st', r, t) => (st', (result_class r, patch_trace t, map (occupancy st') (seq 0 (nobj st')), value_flag r))
  end.

Fixpoint observe_all (st : store) (hs : list hcall) : list observation :=
  match hs with
  | [] => []
  | h :: r => let (st', o) := observe st h in o :: observe_all st' r
  end.

Definition N_list_eqb (a b : list N) : bool :=
  Nat.eqb (List.length a) (List.length b) && forallb (fun p => N.eqb (fst p) (snd p)) (combine a b).
(* model m against implementation i.  The implementation's value flag is 0 if the returned value equals that of
   the same request on a fresh pulse, 1 if it differs, 2 if not compared: a value the model calls correct must
   not differ (a value the model calls wrong may be right by accident: the model is pessimistic there). *)
Definition obs_eqb (m i : observation) : bool :=
  match m, i with
  | (mrc, mtr, mocc, mv), (irc, itr, iocc, iv) =>
      N.eqb mrc irc && N_list_eqb mtr itr && N_list_eqb mocc iocc && negb (N.eqb mv 0 && N.eqb iv 1)
  end.

(* (calls on which model and implementation agree, 0, calls on which they differ) *)
Fixpoint tally_obs (model impl : list observation) : N * N * N :=
  match model, impl with
  | [], [] => (0, 0, 0)
  | m :: mr, i :: ir => let '(a, u, d) := tally_obs mr ir in
                        if obs_eqb m i then (a + 1, u, d) else (a, u, d + 1)
  | _, _ => (0, 0, 1)
  end%N.

Definition history_tally (hs : list hcall) (impl : list observation) : N * N * N :=
  tally_obs (observe_all init hs) impl.
