(* C14 -- model of filter_functions/basis.py (constructors, flags, expansion, completion of a
   partial basis) and of the helpers of util.py it uses (paulis, tensor on two rank-2 operands,
   remove_float_errors).  The numeric part is written once, polymorphic in Ops: the real instance is
   what the theorems of Properties/C14.v are about, the interval instance is executed in the
   correspondence check.  Decisions (flags) are branch-free: residuals / counts are values of T and
   the flag is one comparison [ogt].  External routines (scipy.linalg.null_space, the SVD behind
   numpy.linalg.matrix_rank) are oracles: their outputs are arguments, validated by residuals.     *)
From Coq Require Import ZArith List Arith Bool.
Local Open Scope bool_scope.
From FF Require Import Base.Ops.
Import ListNotations.

Section BM.
Context {T B : Type} (Op : Ops T B).
Notation Cc := (C (T:=T)).
Notation Matc := (Mat (T:=T)).

Definition onat (n : nat) : T := oZ Op (Z.of_nat n).
(* np.finfo(complex).eps = 2^-52 *)
Definition oeps : T := odya Op 1 (-52).
(* max(a, b) = (a + b + |a - b|)/2: branch-free, so that it is an interval operation as well *)
Definition omax (a b : T) : T := odiv Op (oadd Op (oadd Op a b) (oabs Op (osub Op a b))) (o2 Op).
Definition maxlist (l : list T) : T := fold_right omax (o0 Op) l.
(* indicator of a comparison, so that counts are sums *)
Definition ind (b : B) : T := oite Op b (o1 Op) (o0 Op).
Definition nz (x : T) : B := ogt Op (oabs Op x) (o0 Op).                    (* x != 0 *)
Definition cabs (z : Cc) : T := osqrt Op (cabs2 Op z).
Definition half : T := odiv Op (o1 Op) (o2 Op).

(* ------------------------------------------------------------------ util.paulis, util.tensor *)
Definition pauli_entry (s a b : nat) : Cc :=
  match s, a, b with
  | 0, 0, 0 => c1 Op | 0, 1, 1 => c1 Op
  | 1, 0, 1 => c1 Op | 1, 1, 0 => c1 Op
  | 2, 0, 1 => cneg Op (ci Op) | 2, 1, 0 => ci Op
  | 3, 0, 0 => c1 Op | 3, 1, 1 => cneg Op (c1 Op)
  | _, _, _ => c0 Op
  end.
Definition sigma (s : nat) : Matc := mbuild 2 2 (pauli_entry s).

(* util.tensor(A, B, rank=2): einsum('...ab,...cd->...acbd').reshape(r1 r2, c1 c2) *)
Definition kron (r2 c2 rows cols : nat) (A Bm : Matc) : Matc :=
  mbuild rows cols (fun i j => cmul Op (mget Op A (i / r2) (j / c2)) (mget Op Bm (i mod r2) (j mod c2))).

(* sigma_{i_1} (x) .. (x) sigma_{i_n}, (i_1 .. i_n) the base-4 digits of idx, most significant first
   (np.indices((4,)*n).reshape(n, 4**n)) *)
Fixpoint pauli_chain (n idx : nat) : Matc :=
  match n with
  | O => [[c1 Op]]
  | S n' => kron (2 ^ n') (2 ^ n') (2 * 2 ^ n') (2 * 2 ^ n') (sigma (idx / 4 ^ n')) (pauli_chain n' (idx mod 4 ^ n'))
  end.

Definition mdivr (d : nat) (A : Matc) (x : T) : Matc := mbuild d d (fun i j => cdivr Op (mget Op A i j) x).

(* Basis.pauli(n): sigma /= np.sqrt(2**n) *)
Definition pauli_basis (n : nat) : list Matc :=
  build (4 ^ n) (fun idx => mdivr (2 ^ n) (pauli_chain n idx) (osqrt Op (onat (2 ^ n)))).

(* ------------------------------------------------------------------ Basis.ggm(d) *)
Definition n_sym (d : nat) : nat := d * (d - 1) / 2.
(* j = np.repeat(np.arange(d-1), np.arange(d-1, 0, -1)) *)
Definition ggm_jlist (d : nat) : list nat := concat (map (fun a => repeat a (d - 1 - a)) (seq 0 (d - 1))).
(* k = np.arange(1, n_sym+1) - (j*(2*d - j - 3)/2).astype(int) *)
Definition ggm_k_of (d m j : nat) : nat := (m + 1) - j * (2 * d - j - 3) / 2.
Definition ggm_klist (d : nat) : list nat := map (fun mj => ggm_k_of d (fst mj) (snd mj)) (combine (seq 0 (n_sym d)) (ggm_jlist d)).
Definition ggm_j (d m : nat) : nat := nth m (ggm_jlist d) 0.
Definition ggm_k (d m : nat) : nat := nth m (ggm_klist d) 0.

Definition inv_sqrt2 : T := odiv Op (o1 Op) (osqrt Op (o2 Op)).
(* value on the diagonal of the l-th diagonal element before normalisation: 1 (a<l), -l (a=l), 0 *)
Definition ggm_diag_val (l a : nat) : T :=
  if a <? l then o1 Op else if a =? l then oneg Op (onat l) else o0 Op.

Definition ggm_elem (d idx : nat) : Matc :=
  let ns := n_sym d in
  if idx =? 0 then
    mbuild d d (fun a b => if a =? b then cdivr Op (c1 Op) (osqrt Op (onat d)) else c0 Op)
  else if idx <=? ns then
    let j := ggm_j d (idx - 1) in let k := ggm_k d (idx - 1) in
    mbuild d d (fun a b => if ((a =? j) && (b =? k)) || ((a =? k) && (b =? j)) then (inv_sqrt2, o0 Op) else c0 Op)
  else if idx <=? 2 * ns then
    let j := ggm_j d (idx - ns - 1) in let k := ggm_k d (idx - ns - 1) in
    mbuild d d (fun a b => if (a =? j) && (b =? k) then cscal Op inv_sqrt2 (cneg Op (ci Op))
                           else if (a =? k) && (b =? j) then cscal Op inv_sqrt2 (ci Op) else c0 Op)
  else
    let l := idx - 2 * ns in
    mbuild d d (fun a b => if a =? b then (odiv Op (ggm_diag_val l a) (osqrt Op (onat (l * (l + 1)))), o0 Op) else c0 Op).

Definition ggm_basis (d : nat) : list Matc := build (d * d) (ggm_elem d).

(* ------------------------------------------------------------------ normalize, expand, ggm_expand *)
(* nla.norm(b, axis=(-1,-2)): Frobenius norm *)
Definition fro2 (d : nat) (A : Matc) : T :=
  sumn Op d (fun i => sumn Op d (fun j => cabs2 Op (mget Op A i j))).
Definition normalize_elem (d : nat) (A : Matc) : Matc := mdivr d A (osqrt Op (fro2 d A)).
Definition normalize (d : nat) (bs : list Matc) : list Matc := map (normalize_elem d) bs.

(* np.tensordot(M, basis, axes=[(-2,-1),(-1,-2)])[j] = sum_ab M[a,b] C_j[b,a] = tr(M C_j) *)
Definition expand_c (d : nat) (M : Matc) (bs : list Matc) : list Cc := map (fun Cj => mtrprod Op d M Cj) bs.
(* hermitian=True and basis.isherm: real parts *)
Definition expand_r (d : nat) (M : Matc) (bs : list Matc) : list T := map (fun z => fst z) (expand_c d M bs).
(* normalized=False: coefficients /= einsum('bij,bji->b', basis, basis) (complex division, real denominator when Hermitian) *)
Definition cdiv (a b : Cc) : Cc := cdivr Op (cmul Op a (cconj Op b)) (cabs2 Op b).
Definition expand_c_unnorm (d : nat) (M : Matc) (bs : list Matc) : list Cc :=
  map (fun Cj => cdiv (mtrprod Op d M Cj) (mtrprod Op d Cj Cj)) bs.
(* sum_j c_j C_j *)
Definition reconstruct (d : nat) (cs : list Cc) (bs : list Matc) : Matc :=
  mbuild d d (fun a b => csumn Op (length bs) (fun j => cmul Op (nth j cs (c0 Op)) (mget Op (nth j bs []) a b))).

(* util.remove_float_errors(arr, eps_scale): real and imaginary parts with |x| <= eps*scale are set to 0 *)
Definition rfe (atol x : T) : T := oite Op (ogt Op (oabs Op x) atol) x (o0 Op).
Definition crfe (atol : T) (z : Cc) : Cc := (rfe atol (fst z), rfe atol (snd z)).

(* ggm_expand(M, traceless, hermitian=False), index by index *)
Definition ggm_expand_coeff (d : nat) (traceless : bool) (M : Matc) (idx : nat) : Cc :=
  let ns := n_sym d in
  if idx =? 0 then (if traceless then c0 Op else cdivr Op (mtrace Op d M) (osqrt Op (onat d)))
  else if idx <=? ns then
    let j := ggm_j d (idx - 1) in let k := ggm_k d (idx - 1) in
    cdivr Op (cadd Op (mget Op M j k) (mget Op M k j)) (osqrt Op (o2 Op))
  else if idx <=? 2 * ns then
    let j := ggm_j d (idx - ns - 1) in let k := ggm_k d (idx - ns - 1) in
    cdivr Op (cmul Op (ci Op) (csub Op (mget Op M j k) (mget Op M k j))) (osqrt Op (o2 Op))
  else
    let l := idx - 2 * ns in
    cdivr Op (csub Op (csumn Op l (fun i => mget Op M i i)) (cscal Op (onat l) (mget Op M l l)))
          (osqrt Op (onat (l * (l + 1)))).
Definition ggm_expand (d : nat) (traceless : bool) (M : Matc) : list Cc :=
  build (d * d) (ggm_expand_coeff d traceless M).

(* ------------------------------------------------------------------ the four flags *)
(* _atol = eps * d**3 ; isorthonorm: eps * (d**2)**3 ; istraceless: remove_float_errors(trace, d**2) *)
Definition atol_basis (d : nat) : T := omul Op oeps (onat (d * d * d)).
Definition atol_orth (d : nat) : T := omul Op oeps (onat ((d * d) * (d * d) * (d * d))).
Definition atol_trace (d : nat) : T := omul Op oeps (onat (d * d)).

(* isherm: np.allclose(self.H, self, atol=_atol, rtol=0) -- largest |conj(C[b,a]) - C[a,b]| *)
Definition herm_residual (d : nat) (bs : list Matc) : T :=
  maxlist (concat (map (fun Cm => concat (build d (fun a => build d (fun b =>
     cabs (csub Op (cconj Op (mget Op Cm b a)) (mget Op Cm a b)))))) bs)).
Definition isherm_viol (d : nat) (bs : list Matc) : B := ogt Op (herm_residual d bs) (atol_basis d).

(* isorthonorm: U.conj() @ U.T against the identity *)
Definition gram (d : nat) (bs : list Matc) (i j : nat) : Cc :=
  csumn Op d (fun a => csumn Op d (fun b => cmul Op (cconj Op (mget Op (nth i bs []) a b)) (mget Op (nth j bs []) a b))).
Definition orth_residual (d : nat) (bs : list Matc) : T :=
  let n := length bs in
  maxlist (concat (build n (fun i => build n (fun j =>
     cabs (csub Op (gram d bs i j) (if i =? j then c1 Op else c0 Op)))))).
(* len == 1: True without looking *)
Definition isorthonorm_viol (d : nat) (bs : list Matc) : B :=
  ogt Op (if length bs =? 1 then o0 Op else orth_residual d bs) (atol_orth d).

(* istraceless *)
Definition tr_clean (d : nat) (Cm : Matc) : Cc := crfe (atol_trace d) (mtrace Op d Cm).
Definition cnz_ind (z : Cc) : T := omax (ind (nz (fst z))) (ind (nz (snd z))).       (* z != 0 as 0/1 *)
Definition n_nonzero_traces (d : nat) (bs : list Matc) : T := sumlist Op (map (fun Cm => cnz_ind (tr_clean d Cm)) bs).
(* number of non-zero off-diagonal entries / of diagonal entries different from elem[0,0] *)
Definition offdiag_count (d : nat) (Cm : Matc) : T :=
  sumn Op d (fun a => sumn Op d (fun b => if a =? b then o0 Op else cnz_ind (mget Op Cm a b))).
Definition diag_unequal_count (d : nat) (Cm : Matc) : T :=
  sumn Op d (fun a => cnz_ind (csub Op (mget Op Cm a a) (mget Op Cm 0 0))).
(* the same counts accumulated over the elements whose cleaned trace is non-zero (only used when there is exactly one) *)
Definition bad_count_nonzero_elems (d : nat) (bs : list Matc) : T :=
  sumlist Op (map (fun Cm => omul Op (cnz_ind (tr_clean d Cm)) (oadd Op (offdiag_count d Cm) (diag_unequal_count d Cm))) bs).
(* istraceless = (count = 0) or (count = 1 and the element is a multiple of the identity);
   as a value: 1 if NOT traceless *)
Definition istraceless_viol_val (d : nat) (bs : list Matc) : T :=
  let c := n_nonzero_traces d bs in
  oite Op (ogt Op c (oadd Op (o1 Op) half)) (o1 Op)                     (* two or more *)
    (oite Op (ogt Op c half)                                            (* exactly one *)
       (oite Op (ogt Op (bad_count_nonzero_elems d bs) half) (o1 Op) (o0 Op))
       (o0 Op)).
Definition istraceless_viol (d : nat) (bs : list Matc) : B := ogt Op (istraceless_viol_val d bs) half.

(* the test of the pinned revision before fix 74dc707: `not offdiag_nonzero[0].any()` looks at the
   VALUES of the flat indices of the non-zero off-diagonal entries, i.e. it only notices a non-zero
   off-diagonal entry at a flat position > 0 of elem[~eye] *)
Definition offdiag_flat (d : nat) (Cm : Matc) : list Cc :=
  concat (build d (fun a => concat (build d (fun b => if a =? b then [] else [mget Op Cm a b])))).
Definition prefix_offdiag_any (d : nat) (Cm : Matc) : T :=
  sumlist Op (map (fun pz => if fst pz =? 0 then o0 Op else cnz_ind (snd pz))
                  (combine (seq 0 (d * d)) (offdiag_flat d Cm))).

Definition bad_count_prefix (d : nat) (bs : list Matc) : T :=
  sumlist Op (map (fun Cm => omul Op (cnz_ind (tr_clean d Cm)) (oadd Op (prefix_offdiag_any d Cm) (diag_unequal_count d Cm))) bs).
Definition istraceless_viol_val_prefix (d : nat) (bs : list Matc) : T :=
  let c := n_nonzero_traces d bs in
  oite Op (ogt Op c (oadd Op (o1 Op) half)) (o1 Op)
    (oite Op (ogt Op c half)
       (oite Op (ogt Op (bad_count_prefix d bs) half) (o1 Op) (o0 Op))
       (o0 Op)).
Definition istraceless_viol_prefix (d : nat) (bs : list Matc) : B := ogt Op (istraceless_viol_val_prefix d bs) half.

(* iscomplete: matrix_rank (SVD oracle) == d**2 *)
Definition iscomplete_of_rank (d rank : nat) : bool := rank =? d * d.

(* tidyup(): entries' real/imaginary parts with |x| <= _atol are set to 0 *)
Definition tidyup (d : nat) (bs : list Matc) : list Matc :=
  map (fun Cm => mbuild d d (fun a b => crfe (atol_basis d) (mget Op Cm a b))) bs.

(* ------------------------------------------------------------------ _full_from_partial (numeric part) *)
(* coefficient matrix of the normalised elements in the (traceless part of the) GGM basis,
   expand(elems, ggm, hermitian=elems.isherm, tidyup=True); atol = eps * len(ggm) *)
Definition fp_ggm (d : nat) (traceless : bool) : list Matc :=
  if traceless then tl (ggm_basis d) else ggm_basis d.
Definition fp_coeffs (d : nat) (traceless herm : bool) (elems : list Matc) : list (list Cc) :=
  let g := fp_ggm d traceless in
  let atol := omul Op oeps (onat (length g)) in
  map (fun E => map (fun z => crfe atol (if herm then (fst z, o0 Op) else z)) (expand_c d E g)) elems.
(* 1 if the row has a non-zero entry *)
Definition row_nonzero (row : list Cc) : T := maxlist (map cnz_ind row).
(* einsum('ij,jkl', coeffs, ggm) *)
Definition fp_combine (d : nat) (W : list (list Cc)) (g : list Matc) : list Matc :=
  map (fun row => reconstruct d row g) W.
(* given the rows that survive the zero-row removal (decided outside, see [fp_keep]) and the
   null-space oracle N (rows = null_space(coeffs).T) *)
Definition fp_basis (d : nat) (traceless : bool) (A N : list (list Cc)) : list Matc :=
  let g := fp_ggm d traceless in
  let body := match A with [] => g | _ => fp_combine d (A ++ N) g end in
  tidyup d (if traceless then hd [] (ggm_basis d) :: body else body).
(* the same before the final tidyup *)
Definition fp_basis_raw (d : nat) (traceless : bool) (A N : list (list Cc)) : list Matc :=
  let g := fp_ggm d traceless in
  let body := match A with [] => g | _ => fp_combine d (A ++ N) g end in
  if traceless then hd [] (ggm_basis d) :: body else body.

(* residuals validating the null-space oracle: rows of W = [A; N] orthonormal *)
Definition rows_gram (W : list (list Cc)) (i j : nat) : Cc :=
  let ri := nth i W [] in let rj := nth j W [] in
  csumn Op (length ri) (fun k => cmul Op (cconj Op (nth k ri (c0 Op))) (nth k rj (c0 Op))).
Definition rows_orth_residual (W : list (list Cc)) : T :=
  let n := length W in
  maxlist (concat (build n (fun i => build n (fun j =>
     cabs (csub Op (rows_gram W i j) (if i =? j then c1 Op else c0 Op)))))).

End BM.

(* ------------------------------------------------------------------ bookkeeping (no scalars) *)
Definition fp_keep (nonzero : list bool) {A} (rows : list A) : list A :=
  map snd (filter (fun p => fst p) (combine nonzero rows)).

(* position of the identity among the supplied elements: next((i for i, elem in enumerate(elems) if allclose(Id, elem)), 0) *)
Fixpoint first_true (l : list bool) : nat :=
  match l with [] => 0 | true :: _ => 0 | false :: r => S (first_true r) end.
Definition id_index (isid : list bool) : nat := if existsb (fun b => b) isid then first_true isid else 0.

Section Labels.
Variable L : Type.
Variable default_label : nat -> L.          (* '$C_{i}$' *)
(* labels.insert(0, labels.pop(id_idx)) *)
Definition move_to_front (i : nat) (l : list L) : list L :=
  match nth_error l i with
  | Some x => x :: (firstn i l ++ skipn (S i) l)
  | None => l            (* IndexError in Python; not reachable: id_idx < len(labels) = len(elems) *)
  end.
(* label bookkeeping of _full_from_partial; [None] = ValueError *)
Definition fp_labels (d nelems : nat) (traceless : bool) (isid : list bool) (labels : option (list L))
  : option (option (list L)) :=
  match labels with
  | None => Some None
  | Some ls =>
      if (length ls =? nelems) then
        let ls1 := if traceless then move_to_front (id_index isid) ls else ls in
        Some (Some (ls1 ++ map default_label (seq (length ls1) (d * d - length ls1))))
      else if (length ls =? d * d) then Some (Some ls)
      else None
  end.
End Labels.

(* control flow of _full_from_partial: which exception, if any *)
Inductive fp_outcome := FpOk (traceless : bool) | FpNotOrthonormal | FpNotTraceless | FpBadLabels.
Definition fp_control (orthonorm_viol traceless_viol : bool) (traceless : option bool) (labels_ok : bool) : fp_outcome :=
  if orthonorm_viol then FpNotOrthonormal
  else
    let tr := match traceless with None => negb traceless_viol | Some t => t end in
    match traceless with
    | Some true => if traceless_viol then FpNotTraceless else if labels_ok then FpOk tr else FpBadLabels
    | _ => if labels_ok then FpOk tr else FpBadLabels
    end.

(* labels of Basis.pauli: ''.join(tup) for tup in product('IXYZ', repeat=n) -- digits of idx, most significant first *)
Fixpoint pauli_label (n idx : nat) : list nat :=
  match n with O => [] | S n' => (idx / 4 ^ n') :: pauli_label n' (idx mod 4 ^ n') end.
