(* Exact dyadic numbers (m, e) = m * 2^e with m odd or (0,0), and the binary64 operations of the
   bookkeeping code (durations added by _join_equal_segments, np.allclose of PulseSequence.__eq__
   and Basis.__eq__) as "exact operation, then round to nearest even to 53 bits" (no overflow,
   gradual underflow at 2^-1074).  Plain Gallina over Z; every function computes by vm_compute. *)
From Coq Require Import ZArith List Bool.
Import ListNotations.
Local Open Scope Z_scope.

Definition num := (Z * Z)%type.
Definition cnum := (num * num)%type.           (* re, im *)
Definition mat := list (list cnum).

Definition num_eqb (a b : num) : bool := Z.eqb (fst a) (fst b) && Z.eqb (snd a) (snd b).
Definition cnum_eqb (a b : cnum) : bool := num_eqb (fst a) (fst b) && num_eqb (snd a) (snd b).

Definition d0 : num := (0, 0).
Definition c0 : cnum := (d0, d0).

(* ---------------------------------------------------------------- normal form *)
Fixpoint norm_pos (p : positive) (e : Z) : positive * Z :=
  match p with xO q => norm_pos q (e + 1) | _ => (p, e) end.
Definition norm (a : num) : num :=
  match fst a with
  | Z0 => d0
  | Zpos p => let '(q, e) := norm_pos p (snd a) in (Zpos q, e)
  | Zneg p => let '(q, e) := norm_pos p (snd a) in (Zneg q, e)
  end.
Definition is_norm (a : num) : bool :=
  match fst a with Z0 => Z.eqb (snd a) 0 | _ => Z.odd (fst a) end.

(* ---------------------------------------------------------------- exact arithmetic *)
Definition align (a b : num) : Z * Z * Z :=
  let e := Z.min (snd a) (snd b) in
  (fst a * 2 ^ (snd a - e), fst b * 2 ^ (snd b - e), e).
Definition dadd (a b : num) : num := let '(x, y, e) := align a b in norm (x + y, e).
Definition dneg (a : num) : num := (- fst a, snd a).
Definition dsub (a b : num) : num := dadd a (dneg b).
Definition dmul (a b : num) : num := norm (fst a * fst b, snd a + snd b).
Definition dabs (a : num) : num := (Z.abs (fst a), snd a).
Definition dleb (a b : num) : bool := let '(x, y, _) := align a b in x <=? y.
Definition dltb (a b : num) : bool := let '(x, y, _) := align a b in x <? y.

(* ---------------------------------------------------------------- rounding to binary64 *)
Definition prec : Z := 53.
Definition emin : Z := -1074.
Definition rnd64 (a : num) : num :=
  let (m, e) := a in
  if m =? 0 then d0 else
  let bl := Z.log2 (Z.abs m) + 1 in
  let e' := Z.max (e + bl - prec) emin in
  if e' <=? e then norm a else
  let s := e' - e in
  let q := Z.abs m / 2 ^ s in
  let r := Z.abs m mod 2 ^ s in
  let h := 2 ^ (s - 1) in
  let q' := if (h <? r) || ((r =? h) && Z.odd q) then q + 1 else q in
  norm (Z.sgn m * q', e').

Definition fadd64 (a b : num) : num := rnd64 (dadd a b).
Definition fsub64 (a b : num) : num := rnd64 (dsub a b).
Definition fmul64 (a b : num) : num := rnd64 (dmul a b).

(* ---------------------------------------------------------------- tolerances of the two __eq__ *)
(* np.finfo(complex).eps = 2^-52 *)
Definition eps64 : num := (1, -52).
(* rtol = 1e-10 of PulseSequence.__eq__ as binary64 *)
Definition rtol_eq : num := (7737125245533627, -86).
(* atol = np.finfo(complex).eps * A.basis.shape[0] *)
Definition atol_eq (nbasis : nat) : num := fmul64 eps64 (norm (Z.of_nat nbasis, 0)).
(* np.isclose(a, b, rtol, atol) on finite binary64:  |a - b| <= atol + rtol * |b|, every operation rounded *)
Definition isclose64 (rtol atol a b : num) : bool :=
  dleb (dabs (fsub64 a b)) (fadd64 atol (fmul64 rtol (dabs b))).
Definition close_dt (nbasis : nat) (a b : num) : bool := isclose64 rtol_eq (atol_eq nbasis) a b.

(* Basis.__eq__: np.allclose(.., atol = eps*d**3, rtol = 0) on complex entries; |a - b| is a complex
   modulus (hypot).  Modelled with exact arithmetic: |a-b|^2 <= atol^2 (the implementation's hypot and
   the componentwise subtraction are rounded: the model is exact unless |a-b| is within a few ulp of
   atol, where the correspondence check does not sample). *)
Definition atol_basis (d : nat) : num := fmul64 eps64 (norm (Z.of_nat (d * d * d), 0)).
Definition bclose (d : nat) (a b : cnum) : bool :=
  let dr := dsub (fst a) (fst b) in
  let di := dsub (snd a) (snd b) in
  dleb (dadd (dmul dr dr) (dmul di di)) (dmul (atol_basis d) (atol_basis d)).
