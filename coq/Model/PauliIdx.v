(* C16 -- model of basis.equivalent_pauli_basis_elements and basis.remap_pauli_basis_elements:
   the index maps exactly as numpy's ix_ / ravel_multi_index / indices compute them (base-4
   mixed-radix arithmetic).  Qubit positions may be arbitrary integers (Python `in` / indexing). *)
From Coq Require Import ZArith List Arith Lia Bool.
From FF Require Import Model.Tensor.
Import ListNotations.

(* np.ix_(r_0, .., r_{N-1}) followed by ravel_multi_index(.., dims).ravel(): the open mesh is
   broadcast, i.e. the cartesian product of the ranges in row-major order *)
Fixpoint cart (rs : list (list nat)) : list (list nat) :=
  match rs with
  | [] => [[]]
  | r :: t => flat_map (fun i => map (cons i) (cart t)) r
  end.

Definition zmem (i : nat) (idx : list Z) : bool := existsb (Z.eqb (Z.of_nat i)) idx.

(* idx = [idx] if isinstance(idx, int) else idx is done by the caller of the model *)
Definition equivalent_pauli (idx : list Z) (N : nat) : list nat :=
  let ranges := map (fun i => if zmem i idx then [0; 1; 2; 3] else [0]) (seq 0 N) in
  map (ravel (repeat 4 N)) (cart ranges).

(* idx_tup[i] for a Python / numpy integer index i: IndexError outside [-N, N) *)
Definition norm_index (n : nat) (i : Z) : res nat :=
  if ((i <? - Z.of_nat n) || (Z.of_nat n <=? i))%Z then Err IndexError
  else Ok (Z.to_nat (i mod Z.of_nat n)).

Definition remap_pauli (order : list Z) (N : nat) : res (list nat) :=
  (* pauli_idx = np.indices((4,)*N).reshape(N, 4**N).T : row j = base-4 digits of j *)
  do ord <- mapM (norm_index N) order;
  if negb (length order =? N) then Err ValueError      (* ravel_multi_index: wrong length *)
  else Ok (map (fun tup => ravel (repeat 4 N) (map (fun i => nth i tup 0) ord))
               (indices (repeat 4 N))).
