(* Model of the bookkeeping of filter_functions/pulse_sequence.py that decides what a pulse *is*:
   _parse_Hamiltonian (default identifiers, uniqueness, argsort by identifier), _join_equal_segments,
   PulseSequence.__eq__, Basis.__eq__, PulseSequence.__getitem__, __copy__ / __deepcopy__.
   Arrays are lists (row-major, as NumPy stores them); every function follows the source line by line,
   with NumPy primitives (argsort, fancy indexing, diff, all(axis=0), nonzero, delete, zip) as small
   list functions.  Numbers are exact dyadics (Model/B64.v).  The duration addition and the two
   closeness tests are parameters of the section; Model instance [*64] below plugs in binary64. *)
From Coq Require Import ZArith List Bool String Ascii NArith PeanoNat DecimalString Decimal.
From FF Require Import Model.B64.
Import ListNotations.
Local Open Scope nat_scope.
Local Notation length := List.length (only parsing).

(* ------------------------------------------------------------------------------------------- *)
(* String order of Python str / NumPy '<U' arrays: lexicographic by code point, a proper prefix
   is smaller.  Identifiers are given as UTF-8 byte strings (byte order = code-point order).     *)
Module Str.
  Fixpoint ltb (a b : string) : bool :=
    match a, b with
    | EmptyString, EmptyString => false
    | EmptyString, String _ _ => true
    | String _ _, EmptyString => false
    | String x a', String y b' =>
        if (N_of_ascii x <? N_of_ascii y)%N then true
        else if (N_of_ascii y <? N_of_ascii x)%N then false
        else ltb a' b'
    end.
  Definition lt (a b : string) : Prop := ltb a b = true.
  Definition leb (a b : string) : bool := negb (ltb b a).
  (* first n characters (NumPy fixed-width dtype '<Un' truncates silently) *)
  Fixpoint take (n : nat) (s : string) : string :=
    match n, s with
    | S n', String c s' => String c (take n' s')
    | _, _ => EmptyString
    end.
End Str.

(* ------------------------------------------------------------------------------------------- *)
(* NumPy primitives on lists                                                                    *)
Section NP.
  Context {A : Type}.
  (* arr[idx] with an integer index array *)
  Definition gather (dflt : A) (l : list A) (idx : list nat) : list A := map (fun i => nth i l dflt) idx.
  (* np.delete(arr, idx): drop the positions listed in idx *)
  Fixpoint np_delete_from (o : nat) (l : list A) (idx : list nat) : list A :=
    match l with
    | [] => []
    | x :: r => if existsb (Nat.eqb o) idx then np_delete_from (S o) r idx else x :: np_delete_from (S o) r idx
    end.
  Definition np_delete (l : list A) (idx : list nat) : list A := np_delete_from 0 l idx.
  (* arr[i] = v (no effect out of range) *)
  Fixpoint upd (l : list A) (i : nat) (v : A) : list A :=
    match l, i with
    | [], _ => []
    | _ :: r, O => v :: r
    | x :: r, S i' => x :: upd r i' v
    end.
  (* all(f(a, b) for a, b in zip(l1, l2)): stops at the shorter list *)
  Fixpoint all2 (f : A -> A -> bool) (l1 l2 : list A) : bool :=
    match l1, l2 with
    | a :: r1, b :: r2 => f a b && all2 f r1 r2
    | _, _ => true
    end.
End NP.

Fixpoint zip_with {A B C} (f : A -> B -> C) (l1 : list A) (l2 : list B) : list C :=
  match l1, l2 with a :: r1, b :: r2 => f a b :: zip_with f r1 r2 | _, _ => [] end.

(* mask.nonzero()[0] of a boolean vector *)
Fixpoint nonzero_from (o : nat) (m : list bool) : list nat :=
  match m with
  | [] => []
  | b :: r => if b then o :: nonzero_from (S o) r else nonzero_from (S o) r
  end.
Definition nonzero (m : list bool) : list nat := nonzero_from 0 m.

(* (np.diff(row) == 0): entry i compares row[i+1] with row[i]; for finite binary64 the difference is
   zero iff the two values are equal *)
Definition diff_is_zero (row : list num) : list bool := zip_with num_eqb (tl row) row.
(* X.all(axis=0) of a boolean matrix with w columns (vacuously true without rows) *)
Definition all_axis0 (w : nat) (rows : list (list bool)) : list bool :=
  fold_right (zip_with andb) (repeat true w) rows.

Definition mat_eqb (a b : mat) : bool :=
  (length a =? length b) && all2 (fun r s => (length r =? length s) && all2 cnum_eqb r s) a b.

(* np.argsort of an array of strings (stable insertion sort; for distinct keys -- the only case that
   occurs for well-formed pulses -- the result does not depend on the algorithm) *)
Fixpoint ins_key (k : string) (i : nat) (l : list (string * nat)) : list (string * nat) :=
  match l with
  | [] => [(k, i)]
  | (k', i') :: r => if Str.ltb k' k then (k', i') :: ins_key k i r else (k, i) :: l
  end.
Definition sort_keys (l : list (string * nat)) : list (string * nat) :=
  fold_right (fun ki acc => ins_key (fst ki) (snd ki) acc) [] l.
Definition argsort (ids : list string) : list nat :=
  map snd (sort_keys (combine ids (seq 0 (length ids)))).

(* len(set(identifiers)) == len(identifiers) *)
Fixpoint uniqueb (l : list string) : bool :=
  match l with [] => true | x :: r => negb (existsb (String.eqb x) r) && uniqueb r end.

(* ------------------------------------------------------------------------------------------- *)
(* _parse_Hamiltonian                                                                           *)
Inductive exn := TypeError | ValueError | IndexError | CalculationError | NotImplementedError | OtherError.
Inductive result (A : Type) := Ok (a : A) | Raise (e : exn).
Arguments Ok {A} a. Arguments Raise {A} e.

(* third element of an entry [oper, coeffs, identifier] of H *)
Inductive hid := IdAbsent (* entry has two elements *) | IdNone (* identifier None *) | Id (s : string).
Definition hentry := (mat * list num * hid)%type.

Definition dec (i : nat) : string := NilEmpty.string_of_uint (Nat.to_uint i).
(* f'A_{i}' / f'B_{i}' *)
Definition default_id (noise : bool) (i : nat) : string :=
  String.append (if noise then "B_" else "A_")%string (dec i).

Definition all_absent (H : list hentry) : bool :=
  forallb (fun h => match snd h with IdAbsent => true | _ => false end) H.

(* identifiers before the uniqueness test.  Without any identifier in H: np.array([f'A_{i}' ...]).
   Otherwise the entries that are None (or missing: zip_longest fills None) get f'A_{i}' in a Python list. *)
Definition fill_ids (noise : bool) (H : list hentry) : list string :=
  if all_absent H
  then map (default_id noise) (seq 0 (length H))
  else map (fun ih => match snd (snd ih) with Id s => s | _ => default_id noise (fst ih) end)
           (combine (seq 0 (length H)) H).
(* before fix 313e828 the first branch was np.fromiter(.., dtype='<U4'): four characters *)
Definition fill_ids_prefix (noise : bool) (H : list hentry) : list string :=
  if all_absent H
  then map (fun i => Str.take 4 (default_id noise i)) (seq 0 (length H))
  else fill_ids noise H.

Definition parsed := (list mat * list string * list (list num))%type.

Definition parse_hamiltonian (noise : bool) (n_dt : nat) (H : list hentry) : result parsed :=
  let opers := map (fun h => fst (fst h)) H in
  let coeffs := map (fun h => snd (fst h)) H in
  let ids := fill_ids noise H in
  if negb (all_absent H) && negb (uniqueb ids) then Raise ValueError
  else if negb (forallb (fun c => length c =? n_dt) coeffs) then Raise ValueError
  else let idx := argsort ids in
       Ok (gather [] opers idx, gather EmptyString ids idx, gather [] coeffs idx).

Definition parse_hamiltonian_prefix (noise : bool) (n_dt : nat) (H : list hentry) : result parsed :=
  let opers := map (fun h => fst (fst h)) H in
  let coeffs := map (fun h => snd (fst h)) H in
  let ids := fill_ids_prefix noise H in
  if negb (all_absent H) && negb (uniqueb ids) then Raise ValueError
  else if negb (forallb (fun c => length c =? n_dt) coeffs) then Raise ValueError
  else let idx := argsort ids in
       Ok (gather [] opers idx, gather EmptyString ids idx, gather [] coeffs idx).

(* ------------------------------------------------------------------------------------------- *)
(* the attributes of a PulseSequence that define it                                             *)
Record pulse := mkPulse {
  c_opers : list mat; c_ids : list string; c_coeffs : list (list num);
  n_opers : list mat; n_ids : list string; n_coeffs : list (list num);
  dt : list num; dim : nat; basis : list mat }.

(* PulseSequence(H_c, H_n, dt, basis) after the type / shape checks of _parse_args (Model/Validate.v) *)
Definition construct (Hc Hn : list hentry) (dts : list num) (d : nat) (b : list mat) : result pulse :=
  match parse_hamiltonian false (length dts) Hc with
  | Raise e => Raise e
  | Ok (co, ci, cc) =>
      match parse_hamiltonian true (length dts) Hn with
      | Raise e => Raise e
      | Ok (no, ni, nc) => Ok (mkPulse co ci cc no ni nc dts d b)
      end
  end.

(* arr[mask] with a boolean mask; dt != 0 on exact dyadics *)
Fixpoint keep_mask {A} (l : list A) (m : list bool) : list A :=
  match l, m with
  | x :: r, b :: m' => if b then x :: keep_mask r m' else keep_mask r m'
  | _, _ => []
  end.
Definition nonzero_dt (x : num) : bool := negb (Z.eqb (fst x) 0).

(* ------------------------------------------------------------------------------------------- *)
Section Eq.
  Variable fadd : num -> num -> num.                 (* dt[new] += pulse.dt[old] *)
  Variable close : nat -> num -> num -> bool.        (* np.isclose(a, b, rtol, atol(len(A.basis))) *)
  Variable bcl : nat -> cnum -> cnum -> bool.        (* np.isclose of Basis.__eq__ with atol(d) *)

  (* _join_equal_segments *)
  Definition equal_mask (p : pulse) : list bool :=
    let w := pred (length (dt p)) in
    zip_with andb (all_axis0 w (map diff_is_zero (c_coeffs p)))
                  (all_axis0 w (map diff_is_zero (n_coeffs p))).
  Definition equal_ind (p : pulse) : list nat := nonzero (equal_mask p).
  (* for old, new in zip(equal_ind, equal_ind - np.arange(len(equal_ind))): dt[new] += pulse.dt[old] *)
  Definition accumulate (pdt : list num) (idx : list nat) (dt0 : list num) : list num :=
    fold_left (fun d on => upd d (snd on) (fadd (nth (snd on) d d0) (nth (fst on) pdt d0)))
              (combine idx (zip_with Nat.sub idx (seq 0 (length idx)))) dt0.
  (* the merge of equal neighbours (all of _join_equal_segments before fix ac70929) *)
  Definition join_core (p : pulse) : list (list num) * list (list num) * list num :=
    let ei := equal_ind p in
    match ei with
    | [] => (c_coeffs p, n_coeffs p, dt p)
    | _ => (map (fun r => np_delete r ei) (c_coeffs p),
            map (fun r => np_delete r ei) (n_coeffs p),
            accumulate (dt p) ei (np_delete (dt p) ei))
    end.
  (* nonzero = dt != 0; if nonzero.any() and not nonzero.all(): keep the columns arr[:, nonzero] *)
  Definition drop_zero (p : pulse) : pulse :=
    let nz := map nonzero_dt (dt p) in
    if existsb (fun b => b) nz && negb (forallb (fun b => b) nz)
    then mkPulse (c_opers p) (c_ids p) (map (fun r => keep_mask r nz) (c_coeffs p))
                 (n_opers p) (n_ids p) (map (fun r => keep_mask r nz) (n_coeffs p))
                 (keep_mask (dt p) nz) (dim p) (basis p)
    else p.
  Definition join_equal_segments (p : pulse) : list (list num) * list (list num) * list num :=
    join_core (drop_zero p).

  (* Basis.__eq__ for two Basis objects: shapes, then np.allclose(.., atol=self._atol, rtol=0) *)
  Definition shape3 (b : list mat) : nat * nat * nat :=
    (length b, length (hd [] b), length (hd [] (hd [] b))).
  Definition shape3_eqb (s t : nat * nat * nat) : bool :=
    (fst (fst s) =? fst (fst t)) && (snd (fst s) =? snd (fst t)) && (snd s =? snd t).
  Definition basis_eq (a b : list mat) : bool :=
    if negb (shape3_eqb (shape3 a) (shape3 b)) then false
    else let d := snd (shape3 a) in
         all2 (fun x y => all2 (fun r s => all2 (bcl d) r s) x y) a b.

  Definition list_eqb_num (a b : list num) : bool := (length a =? length b) && all2 num_eqb a b.

  (* PulseSequence.__eq__ (other is a PulseSequence) *)
  Definition eq_with (join : pulse -> list (list num) * list (list num) * list num) (A B : pulse) : bool :=
    let nb := length (basis A) in
    let '(ccA, ncA, dtA) := join A in
    let '(ccB, ncB, dtB) := join B in
    if negb (length dtA =? length dtB) then false else
    if negb (all2 (close nb) dtA dtB) then false else
    if negb (length (c_opers A) =? length (c_opers B)) || negb (length (n_opers A) =? length (n_opers B)) then false else
    let ciA := argsort (c_ids A) in let ciB := argsort (c_ids B) in
    let niA := argsort (n_ids A) in let niB := argsort (n_ids B) in
    if negb (all2 mat_eqb (gather [] (c_opers A) ciA) (gather [] (c_opers B) ciB)) then false else
    if negb (all2 mat_eqb (gather [] (n_opers A) niA) (gather [] (n_opers B) niB)) then false else
    if negb (all2 String.eqb (gather EmptyString (c_ids A) ciA) (gather EmptyString (c_ids B) ciB)) then false else
    if negb (all2 String.eqb (gather EmptyString (n_ids A) niA) (gather EmptyString (n_ids B) niB)) then false else
    if negb (all2 list_eqb_num (gather [] ccA ciA) (gather [] ccB ciB)) then false else
    if negb (all2 list_eqb_num (gather [] ncA niA) (gather [] ncB niB)) then false else
    if negb (basis_eq (basis A) (basis B)) then false else
    true.
  Definition eq := eq_with join_equal_segments.
  Definition eq_prefix := eq_with join_core.          (* __eq__ before fix ac70929 *)
End Eq.

Definition join64 := join_equal_segments fadd64.
Definition eq64 := eq fadd64 close_dt bclose.
Definition eq64_prefix := eq_prefix fadd64 close_dt bclose.

(* ------------------------------------------------------------------------------------------- *)
(* __getitem__: key is an int or a slice (start, stop, step may be None)                        *)
Inductive key := KInt (i : Z) | KSlice (start stop step : option Z).

Local Open Scope Z_scope.
(* slice.indices(len) of CPython (PySlice_Unpack + PySlice_AdjustIndices); None if step = 0 *)
Definition clip_index (len step v : Z) : Z :=
  if v <? 0 then (if v + len <? 0 then (if step <? 0 then -1 else 0) else v + len)
  else if len <=? v then (if step <? 0 then len - 1 else len)
  else v.
Definition slice_indices (start stop step : option Z) (len : Z) : option (Z * Z * Z) :=
  let st := match step with None => 1 | Some s => s end in
  if st =? 0 then None else
  let a := match start with None => (if st <? 0 then len - 1 else 0) | Some v => clip_index len st v end in
  let b := match stop with None => (if st <? 0 then -1 else len) | Some v => clip_index len st v end in
  Some (a, b, st).
Definition slice_length (a b st : Z) : Z :=
  if st <? 0 then (if b <? a then (a - b - 1) / (- st) + 1 else 0)
  else (if a <? b then (b - a - 1) / st + 1 else 0).
Definition slice_list (a b st : Z) : list nat :=
  map (fun k => Z.to_nat (a + Z.of_nat k * st)) (seq 0 (Z.to_nat (slice_length a b st))).

(* positions selected by key in an axis of length len, and whether the result keeps the axis *)
Definition key_indices (k : key) (len : nat) : result (list nat) :=
  match k with
  | KInt i => let j := if i <? 0 then i + Z.of_nat len else i in
              if (j <? 0) || (Z.of_nat len <=? j) then Raise IndexError   (* NumPy: index out of bounds *)
              else Ok [Z.to_nat j]
  | KSlice a b s => match slice_indices a b s (Z.of_nat len) with
                    | None => Raise ValueError                          (* slice step cannot be zero *)
                    | Some (x, y, st) => Ok (slice_list x y st)
                    end
  end.
Local Close Scope Z_scope.

Definition getitem (p : pulse) (k : key) : result pulse :=
  match key_indices k (length (dt p)) with
  | Raise e => Raise e
  | Ok idx =>
      let new_dt := gather d0 (dt p) idx in
      match new_dt with
      | [] => Raise IndexError                         (* 'Cannot create empty PulseSequence' *)
      | _ => Ok (mkPulse (c_opers p) (c_ids p) (map (fun r => gather d0 r idx) (c_coeffs p))
                         (n_opers p) (n_ids p) (map (fun r => gather d0 r idx) (n_coeffs p))
                         new_dt (dim p) (basis p))
      end
  end.

(* ------------------------------------------------------------------------------------------- *)
(* __copy__ / __deepcopy__ over an abstract heap: an object is its __dict__ (attribute -> reference);
   a cell holds an array payload, a dict of references (the _intermediates dict), or an instance of an
   ndarray subclass (payload + its own attribute dict: the Basis).  Mutation is assignment to a cell.
   copy.deepcopy(value) re-allocates arrays and dicts recursively; for an ndarray subclass NumPy copies
   the data and calls __array_finalize__(new, old), which re-binds the attributes to the SAME objects
   (before fix 9f6ee83 Basis.__array_finalize__ did self.labels = getattr(basis, 'labels', ..), so the list
   of labels was such a re-bound attribute; now it is list(...), a value copied along with the data, and the
   Basis of a pulse is a subclass cell without re-bound mutable attributes).                            *)
Definition loc := nat.
Inductive cell :=
| CArr (payload : list num)
| CDict (entries : list (string * loc))
| CSub (payload : list num) (attrs : list (string * loc)).
Definition heap := list cell.                              (* reference = position *)
Definition obj := list (string * loc).                     (* __dict__ *)

Definition hread (h : heap) (l : loc) : cell := nth l h (CArr []).
Definition alloc (h : heap) (c : cell) : heap * loc := (h ++ [c], length h).
Definition hwrite (h : heap) (l : loc) (c : cell) : heap := upd h l c.

(* copy every entry with the copier cp, threading the heap *)
Fixpoint copy_entries (cp : heap -> loc -> heap * loc) (es : list (string * loc)) (h : heap) : heap * list (string * loc) :=
  match es with
  | [] => (h, [])
  | kl :: r => let '(h1, l1) := cp h (snd kl) in
               let '(h2, r') := copy_entries cp r h1 in
               (h2, (fst kl, l1) :: r')
  end.
(* copy.deepcopy of one value, nesting depth bounded by fuel *)
Fixpoint deepcopy_val (fuel : nat) (h : heap) (l : loc) : heap * loc :=
  match hread h l with
  | CArr a => alloc h (CArr a)
  | CSub a attrs => alloc h (CSub a attrs)
  | CDict es =>
      match fuel with
      | O => alloc h (CDict es)
      | S f => let '(h', es') := copy_entries (deepcopy_val f) es h in alloc h' (CDict es')
      end
  end.
(* copied.__dict__.update({key: copy.deepcopy(val) for key, val in self.__dict__.items()}) *)
Definition deepcopy_obj (fuel : nat) (h : heap) (o : obj) : heap * obj := copy_entries (deepcopy_val fuel) o h.
(* __copy__: the same references, except a new dict object for _intermediates (same entries) *)
Definition copy_attr (h : heap) (kl : string * loc) : heap * loc :=
  if String.eqb (fst kl) "_intermediates" then alloc h (hread h (snd kl)) else (h, snd kl).
Fixpoint copy_obj (h : heap) (o : obj) : heap * obj :=
  match o with
  | [] => (h, [])
  | kl :: r => let '(h1, l1) := copy_attr h kl in
               let '(h2, r') := copy_obj h1 r in
               (h2, (fst kl, l1) :: r')
  end.

(* cells reachable from a reference / an object *)
Fixpoint reach_val (fuel : nat) (h : heap) (l : loc) : list loc :=
  l :: match fuel with
       | O => []
       | S f => match hread h l with
                | CArr _ => []
                | CDict es => flat_map (fun kl => reach_val f h (snd kl)) es
                | CSub _ attrs => flat_map (fun kl => reach_val f h (snd kl)) attrs
                end
       end.
Definition reach_obj (fuel : nat) (h : heap) (o : obj) : list loc :=
  flat_map (fun kl => reach_val fuel h (snd kl)) o.
