(* Propagator part of the numeric model (C02): PulseSequence.propagator_at_arb_t, the lazy
   properties t / tau and the t / tau bookkeeping of the composition functions
   (concatenate_without_filter_function, concatenate_periodic, extend, remap, __getitem__).
   Polymorphic in Ops like Model/Numeric.v (which already has segment_propagator, cumulative,
   propagators and times = 0 :: cumsum dt).                                                   *)
From Coq Require Import ZArith List.
From FF Require Import Base.Ops Model.Numeric.
Import ListNotations.

Section PropModel.
Context {T B : Type} (Op : Ops T B).
Notation Cc := (C (T:=T)).
Notation Matc := (Mat (T:=T)).
Variable d : nat.

(* ---------- PulseSequence.t, PulseSequence.tau ---------- *)
Definition last_t (ts : list T) : T := last ts (o0 Op).
(* t property: cached value or 0 :: cumsum dt *)
Definition t_get (cached_t : option (list T)) (dts : list T) : list T :=
  match cached_t with Some ts => ts | None => times Op dts end.
(* tau property (since f6ab3ac): always self.t[-1]; reading it caches _t.  The value possibly stored by the
   setter is overwritten on every read. *)
Definition tau_of_t (dts : list T) : T := last_t (times Op dts).
Definition tau_get (cached_t : option (list T)) (dts : list T) : T := last_t (t_get cached_t dts).
(* dt.sum(): the second branch of the tau property before f6ab3ac (kept for the remark that the two
   branches agreed over the reals; they did not in floating point) *)
Definition tau_of_dt (dts : list T) : T := sumlist Op dts.
Definition tau_get_prefix (cached_t : option (list T)) (dts : list T) : T :=
  match cached_t with Some ts => last_t ts | None => tau_of_dt dts end.

(* ---------- bookkeeping of the composition functions: new dt and new cached _t ---------- *)
(* np.tile(dt, G) *)
Fixpoint tile {A} (l : list A) (G : nat) : list A :=
  match G with O => [] | S k => l ++ tile l k end.
(* concatenate_without_filter_function: dt = concatenate(dt_i); _t stays None (tau setter value is dead) *)
Definition concat_dt (dtss : list (list T)) : list T := List.concat dtss.
Definition concat_tau_assigned (dtss : list (list T)) (cached : list (option (list T))) : T :=
  sumlist Op (map (fun x => tau_get (fst x) (snd x)) (combine cached dtss)).
(* concatenate_periodic: dt = tile(dt, G); assigned tau = G * tau *)
Fixpoint onat (n : nat) : T := match n with O => o0 Op | S k => oadd Op (onat k) (o1 Op) end.
Definition periodic_tau_assigned (G : nat) (cached : option (list T)) (dts : list T) : T :=
  omul Op (onat G) (tau_get cached dts).
(* extend / remap: dt, _t, _tau copied from the (first) pulse *)
Definition copied_t (cached : option (list T)) : option (list T) := cached.
(* __getitem__ with a slice [a:b] (step 1): new dt = dt[a:b], caches empty *)
Definition slice {A} (a b : nat) (l : list A) : list A := firstn (b - a) (skipn a l).

(* __getitem__ with an arbitrary key (slice with any step, negative steps, integer): numpy selects the
   segments range(len(dt))[key]; the new pulse has their dt and coefficient columns, caches empty *)
Definition select {A} (dflt : A) (idxs : list nat) (l : list A) : list A := map (fun i => nth i l dflt) idxs.

(* ---------- propagator_at_arb_t ---------- *)
(* since /repo d28f031: ValueError if (t > self.t[-1]).any() *)
Definition arb_t_rejects (ts : list T) (tq : T) : B := ogt Op tq (last_t ts).
(* e^{-i s H} from spectral data: 'ij,j,kj->ik' with cexp(- s ev_j); [arg j] is the phase of column j *)
Definition spectral_exp (V : Matc) (arg : nat -> T) : Matc :=
  mbuild d d (fun i k => csumn Op d (fun j =>
    cmul Op (cmul Op (mget Op V i j) (cexp Op (arg j))) (cconj Op (mget Op V k j)))).
(* one selected segment: V_g cexp((t_g - tq) ev_g) V_g^dagger Q_g *)
Definition arb_t_segment (ev : list T) (V Q : Matc) (tg tq : T) : Matc :=
  mmul Op d (spectral_exp V (fun j => omul Op (osub Op tg tq) (vg Op ev j))) Q.

(* idx = searchsorted(t, tq) - 1 clipped at 0, for nondecreasing t, as a one-hot weight:
   segment 0 is selected iff not (tq > t_1); segment g >= 1 iff t_g < tq and not (tq > t_{g+1}).
   (numpy: a[i-1] < v <= a[i] for the returned i.)                                            *)
Definition sel_weight (first : bool) (tg tg1 tq : T) : T :=
  let below := oite Op (ogt Op tq tg1) (o0 Op) (o1 Op) in
  if first then below else oite Op (ogt Op tq tg) below (o0 Op).

Definition mzero_d : Matc := mzero Op d d.
Definition mscalr (x : T) (A : Matc) : Matc := mbuild d d (fun i j => cscal Op x (mget Op A i j)).

(* sum over the segments of weight * segment value; ts = t (length G+1), Qs = propagators *)
Fixpoint arb_t_loop (first : bool) (evs : list (list T)) (Vs Qs : list Matc) (ts : list T) (tq : T) : Matc :=
  match evs, Vs, Qs, ts with
  | ev :: evs', V :: Vs', Q :: Qs', tg :: ((tg1 :: _) as ts') =>
      madd Op d (mscalr (sel_weight first tg tg1 tq) (arb_t_segment ev V Q tg tq))
                (arb_t_loop false evs' Vs' Qs' ts' tq)
  | _, _, _, _ => mzero_d
  end.
Definition propagator_at_arb_t (evs : list (list T)) (Vs Qs : list Matc) (ts : list T) (tq : T) : Matc :=
  arb_t_loop true evs Vs Qs ts tq.

(* total_propagator = propagators[-1] *)
Definition total_propagator (Qs : list Matc) : Matc := last Qs (mid Op d).

End PropModel.
